/-
General lemmas about the Python string routines of `Simfile/Model/Str.lean`:
`splitOn`/`joinWith`, `strip`, `splitLines`, `findIdx`, and `parseNat ∘ natDigits`.
-/
import Simfile.Model.Str
import Simfile.Model.Beat
namespace Simfile

/-! ### `splitOn` and `joinWith` -/

theorem splitOn_ne_nil (sep : Char) (s : Str) : splitOn sep s ≠ [] := by
  induction s with
  | nil => simp [splitOn]
  | cons c cs ih =>
    simp only [splitOn]
    split
    · simp
    · split <;> simp

theorem splitOn_cons_sep (sep : Char) (s : Str) : splitOn sep (sep :: s) = [] :: splitOn sep s := by
  simp [splitOn]

theorem splitOn_cons_ne {sep c : Char} (h : c ≠ sep) (s : Str) :
    splitOn sep (c :: s) = match splitOn sep s with
      | [] => [[c]]
      | p :: ps => (c :: p) :: ps := by
  rw [splitOn, if_neg h]
  cases splitOn sep s <;> rfl

/-- a text without the separator is a single part -/
theorem splitOn_of_not_mem {sep : Char} {s : Str} (h : sep ∉ s) : splitOn sep s = [s] := by
  induction s with
  | nil => rfl
  | cons c cs ih =>
    simp only [List.mem_cons, not_or] at h
    rw [splitOn_cons_ne (Ne.symm h.1), ih h.2]

/-- splitting at the first separator -/
theorem splitOn_append_sep {sep : Char} {a : Str} (h : sep ∉ a) (b : Str) :
    splitOn sep (a ++ sep :: b) = a :: splitOn sep b := by
  induction a with
  | nil => simp [splitOn_cons_sep]
  | cons c cs ih =>
    simp only [List.mem_cons, not_or] at h
    rw [List.cons_append, splitOn_cons_ne (Ne.symm h.1), ih h.2]

@[simp] theorem joinWith_nil (sep : Str) : joinWith sep [] = [] := rfl
@[simp] theorem joinWith_singleton (sep : Str) (p : Str) : joinWith sep [p] = p := rfl
theorem joinWith_cons_cons (sep : Str) (p q : Str) (rest : List Str) :
    joinWith sep (p :: q :: rest) = p ++ sep ++ joinWith sep (q :: rest) := rfl

theorem joinWith_cons_of_ne_nil (sep : Str) (p : Str) {rest : List Str} (h : rest ≠ []) :
    joinWith sep (p :: rest) = p ++ sep ++ joinWith sep rest := by
  cases rest with
  | nil => exact absurd rfl h
  | cons q r => rfl

/-- `sep.join(parts).split(sep) == parts` when no part contains the separator -/
theorem splitOn_joinWith {sep : Char} {parts : List Str} (hne : parts ≠ [])
    (h : ∀ p ∈ parts, sep ∉ p) : splitOn sep (joinWith [sep] parts) = parts := by
  induction parts with
  | nil => exact absurd rfl hne
  | cons p rest ih =>
    cases rest with
    | nil => simpa using splitOn_of_not_mem (h p (by simp))
    | cons q r =>
      rw [joinWith_cons_cons, List.append_assoc, List.singleton_append,
        splitOn_append_sep (h p (by simp)), ih (by simp) (fun x hx => h x (by simp [hx]))]

/-- `sep.join(s.split(sep)) == s` -/
theorem joinWith_splitOn (sep : Char) (s : Str) : joinWith [sep] (splitOn sep s) = s := by
  induction s with
  | nil => rfl
  | cons c cs ih =>
    by_cases hc : c = sep
    · subst hc
      rw [splitOn_cons_sep, joinWith_cons_of_ne_nil _ _ (splitOn_ne_nil _ _), ih]; rfl
    · rw [splitOn_cons_ne hc]
      cases hs' : splitOn sep cs with
      | nil => exact absurd hs' (splitOn_ne_nil _ _)
      | cons p ps =>
        rw [hs'] at ih
        cases ps with
        | nil => simp only [joinWith_singleton] at ih ⊢; rw [ih]
        | cons q r =>
          rw [joinWith_cons_cons] at ih ⊢
          rw [← ih]; simp

/-- no part of a split contains the separator -/
theorem not_mem_of_mem_splitOn {sep : Char} {s p : Str} (h : p ∈ splitOn sep s) : sep ∉ p := by
  induction s generalizing p with
  | nil => simp [splitOn] at h; subst h; simp
  | cons c cs ih =>
    by_cases hc : c = sep
    · subst hc
      rw [splitOn_cons_sep] at h
      rcases List.mem_cons.mp h with rfl | h
      · simp
      · exact ih h
    · rw [splitOn_cons_ne hc] at h
      cases hs : splitOn sep cs with
      | nil => exact absurd hs (splitOn_ne_nil _ _)
      | cons q qs =>
        rw [hs] at h ih
        rcases List.mem_cons.mp h with rfl | h
        · have := ih (p := q) (by simp)
          simp only [List.mem_cons, not_or]
          exact ⟨Ne.symm hc, this⟩
        · exact ih (by simp [h])

theorem length_splitOn (sep : Char) (s : Str) : (splitOn sep s).length = s.count sep + 1 := by
  induction s with
  | nil => rfl
  | cons c cs ih =>
    by_cases hc : c = sep
    · subst hc; rw [splitOn_cons_sep]; simp [ih]
    · rw [splitOn_cons_ne hc]
      cases hs : splitOn sep cs with
      | nil => exact absurd hs (splitOn_ne_nil _ _)
      | cons q qs =>
        rw [hs] at ih
        have : (c == sep) = false := by simpa using hc
        simp only [List.length_cons] at ih ⊢
        rw [List.count_cons, this]; simpa using ih

/-! ### `strip` -/

theorem dropWhile_eq_self_iff {α} {p : α → Bool} {l : List α} :
    l.dropWhile p = l ↔ ∀ c ∈ l.head?, p c = false := by
  cases l with
  | nil => simp
  | cons x xs =>
    simp only [List.head?_cons, Option.mem_def, Option.some.injEq, forall_eq']
    cases h : p x
    · simp [h]
    · simp only [List.dropWhile_cons, h, if_true, Bool.true_eq_false, iff_false]
      intro e
      have := (List.dropWhile_suffix p (l := xs)).length_le
      rw [e] at this
      simp only [List.length_cons] at this
      omega

theorem dropWhile_all {α} {p : α → Bool} {l : List α} (h : ∀ c ∈ l, p c = true) (r : List α) :
    (l ++ r).dropWhile p = r.dropWhile p := by
  induction l with
  | nil => rfl
  | cons x xs ih =>
    simp only [List.cons_append, List.dropWhile_cons, h x (by simp), if_true]
    exact ih (fun c hc => h c (by simp [hc]))

theorem head?_dropWhile_not {α} {p : α → Bool} (l : List α) : ∀ c ∈ (l.dropWhile p).head?, p c = false := by
  induction l with
  | nil => simp
  | cons x xs ih =>
    simp only [List.dropWhile_cons]
    split
    · exact ih
    · rename_i h; simpa using h

theorem lstrip_append_left {ws : Str} (h : ∀ c ∈ ws, pyIsSpace c = true) (s : Str) :
    lstrip (ws ++ s) = lstrip s := dropWhile_all h s

theorem lstrip_eq_self_iff {s : Str} : lstrip s = s ↔ ∀ c ∈ s.head?, pyIsSpace c = false :=
  dropWhile_eq_self_iff

theorem lstrip_cons_of_not_space {c : Char} (h : pyIsSpace c = false) (s : Str) :
    lstrip (c :: s) = c :: s := by
  rw [lstrip_eq_self_iff]; simpa using h

theorem lstrip_all_space {ws : Str} (h : ∀ c ∈ ws, pyIsSpace c = true) : lstrip ws = [] := by
  have := lstrip_append_left h []
  simpa [lstrip] using this

/-- what `lstrip` removes is white -/
theorem lstrip_decomp (s : Str) : ∃ ws, s = ws ++ lstrip s ∧ ∀ c ∈ ws, pyIsSpace c = true := by
  refine ⟨s.takeWhile pyIsSpace, ?_, ?_⟩
  · simp [lstrip, List.takeWhile_append_dropWhile]
  · have := List.all_takeWhile (l := s) (p := pyIsSpace)
    exact List.all_eq_true.mp this

theorem head?_lstrip (s : Str) : ∀ c ∈ (lstrip s).head?, pyIsSpace c = false := head?_dropWhile_not s

theorem rstrip_eq_reverse (s : Str) : rstrip s = (lstrip s.reverse).reverse := rfl

theorem rstrip_append_right {ws : Str} (h : ∀ c ∈ ws, pyIsSpace c = true) (s : Str) :
    rstrip (s ++ ws) = rstrip s := by
  simp only [rstrip_eq_reverse, List.reverse_append]
  rw [lstrip_append_left (by simpa using h)]

theorem rstrip_eq_self_iff {s : Str} : rstrip s = s ↔ ∀ c ∈ s.getLast?, pyIsSpace c = false := by
  rw [rstrip_eq_reverse, ← List.head?_reverse, ← lstrip_eq_self_iff]
  constructor
  · intro h
    have := congrArg List.reverse h
    simpa using this
  · intro h; rw [h]; simp

theorem rstrip_all_space {ws : Str} (h : ∀ c ∈ ws, pyIsSpace c = true) : rstrip ws = [] := by
  rw [rstrip_eq_reverse, lstrip_all_space (by simpa using h)]; rfl

theorem rstrip_decomp (s : Str) : ∃ ws, s = rstrip s ++ ws ∧ ∀ c ∈ ws, pyIsSpace c = true := by
  obtain ⟨ws, h1, h2⟩ := lstrip_decomp s.reverse
  refine ⟨ws.reverse, ?_, by simpa using h2⟩
  rw [rstrip_eq_reverse, ← List.reverse_append, ← h1]; simp

theorem getLast?_rstrip (s : Str) : ∀ c ∈ (rstrip s).getLast?, pyIsSpace c = false := by
  rw [rstrip_eq_reverse, List.getLast?_reverse]; exact head?_lstrip _

/-- `rstrip` does not look past a non-white character -/
theorem rstrip_append_of_getLast {a : Str} (h : ∀ c ∈ a.getLast?, pyIsSpace c = false)
    (b : Str) : rstrip (a ++ b) = a ++ rstrip b := by
  have ha' : rstrip a = a := rstrip_eq_self_iff.mpr h
  simp only [rstrip, List.reverse_append, List.dropWhile_append] at ha' ⊢
  split
  · rename_i he
    rw [ha']; simp [List.isEmpty_iff.mp he]
  · simp

/-- `rstrip` only looks at the last part when that is not entirely white -/
theorem rstrip_append_of_rstrip_ne_nil {b : Str} (h : rstrip b ≠ []) (a : Str) :
    rstrip (a ++ b) = a ++ rstrip b := by
  simp only [rstrip, List.reverse_append, List.dropWhile_append] at h ⊢
  split
  · rename_i he
    rw [List.isEmpty_iff.mp he] at h
    exact absurd rfl h
  · simp

theorem lstrip_append_of_head {a : Str} (_ha : a ≠ []) (h : ∀ c ∈ a.head?, pyIsSpace c = false)
    (b : Str) : lstrip (a ++ b) = a ++ b := by
  rw [lstrip_eq_self_iff]
  cases a with
  | nil => exact absurd rfl _ha
  | cons x xs => simpa using h

/-- first and last character (if any) are not white -/
def Trimmed (s : Str) : Prop :=
  (∀ c ∈ s.head?, pyIsSpace c = false) ∧ (∀ c ∈ s.getLast?, pyIsSpace c = false)

theorem strip_of_trimmed {s : Str} (h : Trimmed s) : strip s = s := by
  rw [strip, lstrip_eq_self_iff.mpr h.1, rstrip_eq_self_iff.mpr h.2]

/-- `(ws₁ + s + ws₂).strip() == s` -/
theorem strip_sandwich {ws₁ ws₂ s : Str} (h₁ : ∀ c ∈ ws₁, pyIsSpace c = true)
    (h₂ : ∀ c ∈ ws₂, pyIsSpace c = true) (hs : Trimmed s) : strip (ws₁ ++ s ++ ws₂) = s := by
  rw [strip, List.append_assoc, lstrip_append_left h₁]
  by_cases hne : s = []
  · subst hne
    rw [List.nil_append, lstrip_all_space h₂]; rfl
  · rw [lstrip_append_of_head hne hs.1, rstrip_append_right h₂, rstrip_eq_self_iff.mpr hs.2]

theorem strip_all_space {ws : Str} (h : ∀ c ∈ ws, pyIsSpace c = true) : strip ws = [] := by
  rw [strip, lstrip_all_space h]; rfl

theorem strip_trimmed (s : Str) : Trimmed (strip s) := by
  refine ⟨?_, getLast?_rstrip _⟩
  obtain ⟨ws, h1, h2⟩ := rstrip_decomp (lstrip s)
  intro c hc
  have hl := head?_lstrip s
  rw [h1] at hl
  apply hl
  unfold strip at hc
  cases hr : rstrip (lstrip s) with
  | nil => rw [hr] at hc; simp at hc
  | cons x xs => rw [hr] at hc; simpa using hc

theorem strip_idem (s : Str) : strip (strip s) = strip s := strip_of_trimmed (strip_trimmed s)

theorem strip_eq_self_iff {s : Str} : strip s = s ↔ Trimmed s :=
  ⟨fun h => h ▸ strip_trimmed s, strip_of_trimmed⟩

/-- `strip` only removes white characters at both ends -/
theorem strip_decomp (s : Str) : ∃ ws₁ ws₂, s = ws₁ ++ strip s ++ ws₂ ∧
    (∀ c ∈ ws₁, pyIsSpace c = true) ∧ (∀ c ∈ ws₂, pyIsSpace c = true) := by
  obtain ⟨w1, e1, h1⟩ := lstrip_decomp s
  obtain ⟨w2, e2, h2⟩ := rstrip_decomp (lstrip s)
  refine ⟨w1, w2, ?_, h1, h2⟩
  rw [strip, List.append_assoc, ← e2, ← e1]

/-- `strip` of a text that starts (after white) with a trimmed non-empty block `a` -/
theorem strip_prefix_block {ws a b : Str} (hws : ∀ c ∈ ws, pyIsSpace c = true) (ha : a ≠ [])
    (ht : Trimmed a) : strip (ws ++ a ++ b) = a ++ rstrip b := by
  rw [strip, List.append_assoc, lstrip_append_left hws, lstrip_append_of_head ha ht.1,
    rstrip_append_of_getLast ht.2]

/-! ### `splitLines` -/

def NoLB (s : Str) : Prop := ∀ c ∈ s, pyIsLineBreak c = false

theorem splitLines_nil : splitLines [] = [] := rfl

theorem splitLines_crlf (cs : Str) : splitLines ('\r' :: '\n' :: cs) = [] :: splitLines cs := by
  rw [splitLines]

theorem splitLines_lf (cs : Str) : splitLines ('\n' :: cs) = [] :: splitLines cs := by
  rw [splitLines.eq_3 _ _ (by intro _ h; exact absurd h (by decide))]
  rfl

theorem splitLines_cons_noLB {c : Char} (h : pyIsLineBreak c = false) (cs : Str) :
    splitLines (c :: cs) = match splitLines cs with
      | [] => [[c]]
      | l :: ls => (c :: l) :: ls := by
  have hc : c ≠ '\r' := by rintro rfl; exact absurd h (by decide)
  rw [splitLines.eq_3 _ _ (by intro _ h'; exact absurd h' hc), h]
  cases splitLines cs <;> rfl

/-- a line-break character always ends the (empty) first line -/
theorem splitLines_cons_LB {c : Char} (h : pyIsLineBreak c = true) (cs : Str) :
    ∃ r, splitLines (c :: cs) = [] :: r := by
  rw [splitLines.eq_def]
  split
  · rename_i h'; exact absurd h' (by simp)
  · exact ⟨_, rfl⟩
  · rename_i c' cs' _ heq
    simp only [List.cons.injEq] at heq
    obtain ⟨rfl, rfl⟩ := heq
    rw [if_pos h]; exact ⟨_, rfl⟩

/-- a prefix without line breaks is glued to the first line of the rest -/
theorem splitLines_append_noLB {body : Str} (h : NoLB body) (rest : Str) :
    splitLines (body ++ rest) = match splitLines rest with
      | [] => if body = [] then [] else [body]
      | l :: ls => (body ++ l) :: ls := by
  induction body with
  | nil => cases hs : splitLines rest <;> simp [hs]
  | cons c cs ih =>
    have hc := h c (by simp)
    have hcs : NoLB cs := fun x hx => h x (by simp [hx])
    rw [List.cons_append, splitLines_cons_noLB hc, ih hcs]
    cases splitLines rest with
    | nil =>
      by_cases he : cs = []
      · simp [he]
      · simp [he]
    | cons l ls => rfl

/-- a non-empty text without line breaks is one line -/
theorem splitLines_noLB {body : Str} (h : NoLB body) (hne : body ≠ []) : splitLines body = [body] := by
  have := splitLines_append_noLB h []
  simpa [splitLines_nil, hne] using this

theorem splitLines_body_lf {body : Str} (h : NoLB body) (rest : Str) :
    splitLines (body ++ '\n' :: rest) = body :: splitLines rest := by
  rw [splitLines_append_noLB h, splitLines_lf]; simp

theorem splitLines_body_crlf {body : Str} (h : NoLB body) (rest : Str) :
    splitLines (body ++ '\r' :: '\n' :: rest) = body :: splitLines rest := by
  rw [splitLines_append_noLB h, splitLines_crlf]; simp

/-- the two line ends written by the encoder and accepted in note data -/
def IsEol (e : Str) : Prop := e = ['\n'] ∨ e = ['\r', '\n']

theorem splitLines_body_eol {body eol : Str} (h : NoLB body) (he : IsEol eol) (rest : Str) :
    splitLines (body ++ eol ++ rest) = body :: splitLines rest := by
  rcases he with rfl | rfl
  · simpa using splitLines_body_lf h rest
  · simpa using splitLines_body_crlf h rest

/-- rows `body ++ eol`, followed by a last line without line end, split into their bodies -/
theorem splitLines_rows {rows : List (Str × Str)} (h : ∀ r ∈ rows, NoLB r.1 ∧ IsEol r.2)
    {last : Str} (hl : NoLB last) :
    splitLines ((rows.map fun r => r.1 ++ r.2).flatten ++ last) =
      rows.map (·.1) ++ (if last = [] then [] else [last]) := by
  induction rows with
  | nil =>
    by_cases he : last = []
    · simp [he, splitLines_nil]
    · simpa [he] using splitLines_noLB hl he
  | cons r rs ih =>
    obtain ⟨h1, h2⟩ := h r (by simp)
    simp only [List.map_cons, List.flatten_cons, List.append_assoc, List.cons_append]
    rw [← List.append_assoc r.1, splitLines_body_eol h1 h2, ih (fun x hx => h x (by simp [hx]))]

/-- the first line is everything before the first line-break character -/
theorem head?_splitLines (s : Str) :
    (splitLines s).head? = if s = [] then none else some (s.takeWhile (fun c => !pyIsLineBreak c)) := by
  have hd := (List.takeWhile_append_dropWhile (p := fun c => !pyIsLineBreak c) (l := s)).symm
  have hnolb : NoLB (s.takeWhile (fun c => !pyIsLineBreak c)) := by
    intro c hc
    have := List.all_eq_true.mp (List.all_takeWhile (l := s) (p := fun c => !pyIsLineBreak c)) c hc
    simpa using this
  generalize s.takeWhile (fun c => !pyIsLineBreak c) = t at hd hnolb
  have hdrop := head?_dropWhile_not (p := fun c => !pyIsLineBreak c) s
  generalize s.dropWhile (fun c => !pyIsLineBreak c) = d at hd hdrop
  subst hd
  rw [splitLines_append_noLB hnolb]
  cases d with
  | nil =>
    simp only [splitLines_nil, List.append_nil]
    by_cases he : t = [] <;> simp [he]
  | cons x xs =>
    have hx : pyIsLineBreak x = true := by simpa using hdrop x (by simp)
    obtain ⟨r, hr⟩ := splitLines_cons_LB hx xs
    rw [hr]; simp

theorem length_splitLines_rows {rows : List (Str × Str)} (h : ∀ r ∈ rows, NoLB r.1 ∧ IsEol r.2)
    {last : Str} (hl : NoLB last) (hne : last ≠ []) :
    (splitLines ((rows.map fun r => r.1 ++ r.2).flatten ++ last)).length = rows.length + 1 := by
  rw [splitLines_rows h hl]; simp [hne]

/-- what `takeWhile` keeps of a prefix `X` of `W ++ Z` lies inside `W`, if the scan must stop in `W` -/
theorem mem_takeWhile_of_prefix {α} {p : α → Bool} {W Z : List α} (hZ : Z = [] ∨ ∃ x ∈ W, p x = false) :
    ∀ {X ws : List α}, X ++ ws = W ++ Z → ∀ c ∈ X.takeWhile p, c ∈ W := by
  induction W with
  | nil =>
    intro X ws e c hc
    rcases hZ with rfl | ⟨x, hx, _⟩
    · simp only [List.append_nil, List.append_eq_nil_iff] at e
      rw [e.1] at hc; simp at hc
    · simp at hx
  | cons w W' ih =>
    intro X ws e c hc
    cases X with
    | nil => simp at hc
    | cons x X' =>
      simp only [List.cons_append, List.cons.injEq] at e
      obtain ⟨rfl, e⟩ := e
      rw [List.takeWhile_cons] at hc
      split at hc
      · rename_i hp
        rcases List.mem_cons.mp hc with rfl | hc
        · simp
        · have hZ' : Z = [] ∨ ∃ y ∈ W', p y = false := by
            rcases hZ with h | ⟨y, hy, hpy⟩
            · exact Or.inl h
            · rcases List.mem_cons.mp hy with rfl | hy
              · rw [hp] at hpy; exact absurd hpy (by decide)
              · exact Or.inr ⟨y, hy, hpy⟩
          exact List.mem_cons_of_mem _ (ih hZ' e c hc)
      · simp at hc

/-! ### `findIdx` -/

theorem findIdx_eq_none {c : Char} {s : Str} (h : c ∉ s) : findIdx c s = none := by
  induction s with
  | nil => rfl
  | cons d ds ih =>
    simp only [List.mem_cons, not_or] at h
    simp [findIdx, Ne.symm h.1, ih h.2]

theorem findIdx_append {c : Char} {a : Str} (h : c ∉ a) (b : Str) :
    findIdx c (a ++ c :: b) = some a.length := by
  induction a with
  | nil => simp [findIdx]
  | cons d ds ih =>
    simp only [List.mem_cons, not_or] at h
    simp [findIdx, Ne.symm h.1, ih h.2]

theorem findIdx_eq_some {c : Char} {s : Str} {i : Nat} (h : findIdx c s = some i) :
    c ∉ s.take i ∧ s[i]? = some c := by
  induction s generalizing i with
  | nil => simp [findIdx] at h
  | cons d ds ih =>
    simp only [findIdx] at h
    split at h
    · rename_i hd
      simp only [Option.some.injEq] at h
      subst h hd; simp
    · rename_i hd
      cases hf : findIdx c ds with
      | none => simp [hf] at h
      | some j =>
        simp only [hf, Option.map_some, Option.some.injEq] at h
        subst h
        obtain ⟨h1, h2⟩ := ih hf
        simp only [List.take_succ_cons, List.mem_cons, not_or, List.getElem?_cons_succ]
        exact ⟨⟨Ne.symm hd, h1⟩, h2⟩

theorem findIdx_takeWhile (c : Char) (s : Str) :
    (match findIdx c s with | some i => s.take i | none => s) = s.takeWhile (fun d => d != c) := by
  induction s with
  | nil => rfl
  | cons d ds ih =>
    by_cases h : d = c
    · subst h; simp [findIdx]
    · have hne : (d != c) = true := by simpa using h
      rw [List.takeWhile_cons, hne, findIdx, if_neg h]
      cases hf : findIdx c ds with
      | none => rw [hf] at ih; simp only [Option.map_none, if_true]; rw [← ih]
      | some j => rw [hf] at ih; simp only [Option.map_some, List.take_succ_cons, if_true]; rw [← ih]

/-! ### decimal digits -/

theorem natDigits_eq (n : Nat) : natDigits n = Nat.toDigits 10 n := by
  simp [natDigits]

theorem natDigits_ne_nil (n : Nat) : natDigits n ≠ [] := by
  rw [natDigits_eq]; exact Nat.toDigits_ne_nil

theorem isDigit_of_mem_natDigits {n : Nat} {c : Char} (h : c ∈ natDigits n) : c.isDigit = true := by
  rw [natDigits_eq] at h
  exact Nat.isDigit_of_mem_toDigits (by decide) (by decide) h

def parseStep (acc : Option Nat) (c : Char) : Option Nat :=
  match acc, digitVal c with
  | some a, some d => some (a * 10 + d)
  | _, _ => none

theorem parseNat_eq_foldl {s : Str} (h : s ≠ []) : parseNat s = s.foldl parseStep (some 0) := by
  cases s with
  | nil => exact absurd rfl h
  | cons c cs => rfl

theorem digitVal_digitChar {d : Nat} (h : d < 10) : digitVal d.digitChar = some d := by
  have := Nat.toNat_digitChar_of_lt_ten h
  simp only [digitVal, this]
  rw [if_pos (by decide +revert)]
  simp

theorem foldl_parseStep_toDigits (n : Nat) :
    (Nat.toDigits 10 n).foldl parseStep (some 0) = some n := by
  induction n using Nat.strongRecOn with
  | _ n ih =>
    rw [Nat.toDigits_eq_if (by decide)]
    split
    · rename_i h
      simp [parseStep, digitVal_digitChar h]
    · rename_i h
      rw [List.foldl_append, ih (n / 10) (by omega)]
      simp only [List.foldl_cons, List.foldl_nil, parseStep, digitVal_digitChar (Nat.mod_lt n (by decide : 10 > 0))]
      congr 1
      omega

/-- reading back the decimal digits of `n` gives `n` -/
theorem parseNat_natDigits (n : Nat) : parseNat (natDigits n) = some n := by
  rw [parseNat_eq_foldl (natDigits_ne_nil n), natDigits_eq, foldl_parseStep_toDigits]

end Simfile
