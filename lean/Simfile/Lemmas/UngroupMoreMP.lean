/-
More lemmas for C10 (round 2): the round trip for streams with several players. `Ungroup.run_spec`
(UngroupJoin.lean) uses the one-player hypothesis at one place only — the rebuilt tail of a joined
head must be the original tail, so the tail must carry the head's player. `run_spec_mp` is that proof
with the hypothesis weakened to exactly this (`JoinedSamePlayer`).
-/
import Simfile.Lemmas.UngroupJoin
namespace Simfile.UngroupPos
open Simfile Simfile.Spec Simfile.Ungroup

/-- whenever the next note on the column of a head is a tail, it belongs to the head's player -/
def JoinedSamePlayer : List Note → Prop
  | [] => True
  | n :: R => (isHead n.ntype = true → ∀ t, R.find? (·.column = n.column) = some t → t.ntype = cTAIL →
      t.player = n.player) ∧ JoinedSamePlayer R

theorem joinedSamePlayer_iff : ∀ F : List Note, JoinedSamePlayer F ↔
    ∀ P n A, F = P ++ n :: A → isHead n.ntype = true →
      ∀ t, A.find? (·.column = n.column) = some t → t.ntype = cTAIL → t.player = n.player := by
  intro F
  induction F with
  | nil => simp [JoinedSamePlayer]
  | cons m F ih =>
    simp only [JoinedSamePlayer, ih]
    constructor
    · rintro ⟨h1, h2⟩ P n A hF
      cases P with
      | nil =>
        simp only [List.nil_append, List.cons.injEq] at hF
        obtain ⟨rfl, rfl⟩ := hF
        exact h1
      | cons p P =>
        simp only [List.cons_append, List.cons.injEq] at hF
        obtain ⟨rfl, rfl⟩ := hF
        exact h2 P n A rfl
    · intro h
      exact ⟨h [] m F rfl, fun P n A hF => h (m :: P) n A (by rw [hF]; rfl)⟩

/-- the same as a Boolean function (for `decide`) -/
def joinedSamePlayerB : List Note → Bool
  | [] => true
  | n :: R => (!isHead n.ntype || (match R.find? (·.column = n.column) with
      | some t => !decide (t.ntype = cTAIL) || decide (t.player = n.player)
      | none => true)) && joinedSamePlayerB R

theorem joinedSamePlayerB_iff : ∀ F : List Note, joinedSamePlayerB F = true ↔ JoinedSamePlayer F := by
  intro F
  induction F with
  | nil => simp [joinedSamePlayerB, JoinedSamePlayer]
  | cons n R ih =>
    simp only [joinedSamePlayerB, JoinedSamePlayer, Bool.and_eq_true, ih]
    apply and_congr_left'
    cases hf : R.find? (·.column = n.column) with
    | none => simp
    | some t =>
      cases isHead n.ntype
      · simp
      · simp only [Bool.not_true, Bool.false_or, Bool.or_eq_true, Bool.not_eq_true', decide_eq_false_iff_not,
          decide_eq_true_eq, Option.some.injEq, forall_const]
        constructor
        · rintro h t' rfl ht; rcases h with h | h
          · exact absurd ht h
          · exact h
        · intro h
          by_cases ht : t.ntype = cTAIL
          · exact Or.inr (h t rfl ht)
          · exact Or.inl ht

/-- one player is a special case -/
theorem joinedSamePlayer_of_one : ∀ F : List Note, (∀ a ∈ F, ∀ b ∈ F, a.player = b.player) → JoinedSamePlayer F := by
  intro F h
  rw [joinedSamePlayer_iff]
  intro P n A hF _ t hf _
  have htA : t ∈ A := List.mem_of_find?_eq_some hf
  exact h t (by rw [hF]; simp [htA]) n (by rw [hF]; simp)

/-- players that do not share columns are a special case -/
theorem joinedSamePlayer_of_columns : ∀ F : List Note,
    (∀ a ∈ F, ∀ b ∈ F, a.column = b.column → a.player = b.player) → JoinedSamePlayer F := by
  intro F h
  rw [joinedSamePlayer_iff]
  intro P n A hF _ t hf _
  have htA : t ∈ A := List.mem_of_find?_eq_some hf
  have htc : t.column = n.column := by simpa using List.find?_some hf
  exact h t (by rw [hF]; simp [htA]) n (by rw [hF]; simp) htc

theorem run_spec_mp (o : GOpts) (p : Orphan) : ∀ (R B out : List Note), Sorted R →
    JoinedSamePlayer R → (∀ n ∈ R, n.ntype = cTAIL → n.keysound = none) →
    noRaise o (classifyAll B R) →
    (((classifyAll B R).flatMap (image o)).foldlM (ungroupStep p) { pending := pend B R, out := out }).map finish
      = .ok (out ++ (classifyAll B R).filterMap (survF o)) := by
  intro R
  induction R with
  | nil =>
    intro B out _ _ _ _
    simp [classifyAll, pend, pure, Except.pure, Except.map, finish]
  | cons n R ih =>
    intro B out hs hpl hks hnr
    have hnR : n ∉ R := hs.not_mem
    simp only [classifyAll] at hnr ⊢
    obtain ⟨hnr', hoh, hot⟩ := noRaise_cons hnr
    have ih' := fun out' => ih (n :: B) out' hs.tail hpl.2
      (fun m hm => hks m (by simp [hm])) hnr'
    have hp1 : ∀ y ∈ pend0 B n R, keyLt y.key n.key = false := fun y hy =>
      keyLt_asymm (hs.head_lt (mem_pend0 hnR hy).1)
    have hp2 : ∀ y ∈ pend0 B n R, y.column ≠ n.column := fun y hy => (mem_pend0 hnR hy).2
    simp only [List.flatMap_cons, filterMap_cons_toList, pend_cons]
    -- an orphan (head or tail) that is kept, dropped, or excluded by the RAISE policy
    have orphanCase : ∀ (cl : Cls) (pol : Orphan), classify B n R = cl →
        (pol ≠ .raise) →
        (image o (n, cl) = if pol = .keep then [.plain n] else []) →
        (survF o (n, cl) = if pol = .drop then none else some n) →
        (decide (n.ntype = cTAIL) && headOpen B n.column) = false →
        pend (n :: B) R = pend0 B n R →
        (((image o (n, classify B n R) ++ (classifyAll (n :: B) R).flatMap (image o)).foldlM (ungroupStep p)
          { pending := (if (decide (n.ntype = cTAIL) && headOpen B n.column) = true then [n] else []) ++ pend0 B n R,
            out := out }).map finish =
          .ok (out ++ ((survF o (n, classify B n R)).toList ++ (classifyAll (n :: B) R).filterMap (survF o)))) := by
      intro cl pol hcl hpol himg hsv hcond hshift
      rw [hcl, hcond]
      simp only [Bool.false_eq_true, if_false]
      cases pol with
      | raise => exact absurd rfl hpol
      | keep =>
        apply case_emit o p n cl _ out _ _ (by simpa using himg) (by simpa using hsv) hp1 hp2
        rw [← hshift]; exact ih' _
      | drop =>
        apply case_skip o p n cl _ out _ _ (by simpa using himg) (by simpa using hsv)
        rw [← hshift]; exact ih' _
    by_cases hh : isHead n.ntype = true
    · have hnt : ¬ n.ntype = cTAIL := by
        intro e; rw [e, isHead_tail] at hh; cases hh
      have hcond : (decide (n.ntype = cTAIL) && headOpen B n.column) = false := by simp [hnt]
      have orphanHead : classify B n R = .orphanHead → pend (n :: B) R = pend0 B n R → _ := fun hcl hshift =>
        orphanCase .orphanHead o.orphanHead hcl (hoh hcl)
          (by cases hp : o.orphanHead <;> simp [image, hp])
          (by cases hp : o.orphanHead <;> simp [survF, hp]) hcond hshift
      cases hf : R.find? (·.column = n.column) with
      | none =>
        apply orphanHead
        · simp [classify, hh, hf]
        · exact pend_shift_orphan B n R hnR (by intro t ht; rw [hf] at ht; cases ht)
      | some t =>
        by_cases ht : t.ntype = cTAIL
        · have hcl : classify B n R = .joined t.beat := by simp [classify, hh, hf, ht]
          have htR : t ∈ R := List.mem_of_find?_eq_some hf
          have htc : t.column = n.column := by simpa using List.find?_some hf
          have hrecon : recon n t.beat = t := by
            have h1 : t.player = n.player := hpl.1 hh t hf ht
            have h2 : t.keysound = none := hks t (by simp [htR]) ht
            rcases t with ⟨tb, tc, tt, tp, tk⟩
            simp only at h1 h2 htc ht
            subst h1 h2 htc ht
            rfl
          have hq : pendP B (n :: R) t = false := by
            have hne : t ≠ n := fun e => hnR (e ▸ htR)
            simp [pendP, tailFirst_cons_of_ne R hne, htc]
          have hshift : pend (n :: B) R = heapInsert t (pend0 B n R) := by
            rw [pend_shift_joined B n R hnR hh t hf ht]
            exact (heapInsert_filter _ t R hs.tail htR hq).symm
          rw [hcl, hcond]
          have himg : image o (n, Cls.joined t.beat) = [.withTail n t.beat] := rfl
          have hsv : survF o (n, Cls.joined t.beat) = some n := rfl
          rw [himg, hsv]
          simp only [Bool.false_eq_true, if_false, List.nil_append, List.cons_append, List.foldlM_cons,
            step_withTail p n t.beat _ out hp1 hp2, bind, Except.bind, hrecon]
          rw [← hshift, ih']
          simp
        · apply orphanHead
          · simp [classify, hh, hf, ht]
          · exact pend_shift_orphan B n R hnR (by
              intro t' ht'; rw [hf] at ht'; cases ht'; exact ht)
    · have hh' : isHead n.ntype = false := by simpa using hh
      have hshift : pend (n :: B) R = pend0 B n R := pend_shift_nonhead B n R hnR hh'
      by_cases ht : n.ntype = cTAIL
      · by_cases hopen : headOpen B n.column = true
        · have hcl : classify B n R = .consumed := by
            unfold headOpen at hopen
            simp only [classify, hh', Bool.false_eq_true, if_false]
            simp only [ht, if_true]
            cases hb : B.find? (·.column = n.column) with
            | none => rw [hb] at hopen; simp at hopen
            | some h => rw [hb] at hopen; simp at hopen; simp [hopen]
          rw [hcl]
          have himg : image o (n, Cls.consumed) = [] := rfl
          have hsv : survF o (n, Cls.consumed) = some n := rfl
          rw [himg, hsv]
          simp only [ht, hopen, decide_true, Bool.and_self, if_true, List.nil_append, List.singleton_append]
          rw [run_pop p n _ (by
            intro g hg
            obtain ⟨m, hm, hk⟩ := mem_S_key o R (n :: B) g hg
            rw [hk]; exact hs.head_lt hm), ← hshift, ih']
          simp
        · have hopen : headOpen B n.column = false := by simpa using hopen
          have hcl : classify B n R = .orphanTail := by
            unfold headOpen at hopen
            simp only [classify, hh', Bool.false_eq_true, if_false]
            simp only [ht, if_true]
            cases hb : B.find? (·.column = n.column) with
            | none => rfl
            | some h => rw [hb] at hopen; simp at hopen; simp [hopen]
          exact orphanCase .orphanTail o.orphanTail hcl (hot hcl)
            (by cases hp : o.orphanTail <;> simp [image, hp])
            (by cases hp : o.orphanTail <;> simp [survF, hp]) (by simp [hopen]) hshift
      · have hcl : classify B n R = .plain := by simp [classify, hh', ht]
        have hcond : (decide (n.ntype = cTAIL) && headOpen B n.column) = false := by simp [ht]
        rw [hcl, hcond]
        simp only [Bool.false_eq_true, if_false]
        apply case_emit o p n .plain _ out _ _ rfl rfl hp1 hp2
        rw [← hshift]; exact ih' _

/-- ungrouping the groups made from the specification's joined stream (several players) -/
theorem ungroup_joinSpec_mp (o : GOpts) (p : Orphan) (F : List Note) (S : List GNote) (hs : Sorted F)
    (hpl : JoinedSamePlayer F) (hks : ∀ n ∈ F, n.ntype = cTAIL → n.keysound = none)
    (hS : joinSpec o F = .ok S) (mode : SameBeat) (hmode : mode ≠ .joinByType) :
    ungroupNotes p ((groupRuns GNote.beat S).flatMap fun (_, row) => addRow mode row) =
      .ok ((classifyAll [] F).filterMap (survF o)) := by
  unfold joinSpec at hS
  simp only at hS
  split at hS
  · cases hS
  · rename_i hnr
    have hS' : (classifyAll [] F).flatMap (image o) = S := Except.ok.inj hS
    have h := run_spec_mp o p F [] [] hs hpl hks hnr
    rw [pend_nil, hS'] at h
    unfold ungroupNotes
    rw [rows_flatten mode hmode]
    cases hf : S.foldlM (ungroupStep p) { pending := [], out := [] } with
    | error e => rw [hf] at h; cases h
    | ok st =>
      rw [hf] at h
      simp only [Except.map, finish, List.nil_append] at h
      simp only [bind, Except.bind, pure, Except.pure]
      exact h

end Simfile.UngroupPos
