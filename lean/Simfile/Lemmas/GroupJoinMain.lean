/-
Lemmas for C09: the whole loop (`fold_spec`), the clean-up of heads that are never closed
(`cleanup_spec`), and the refinement `joinHeadsToTails o F = Spec.joinSpec o F` for duplicate-free `F`.
-/
import Simfile.Lemmas.GroupJoinSpec
namespace Simfile.Join
open Simfile Simfile.Spec

/-! ### the loop -/

theorem Good.absStep {A : List AN} (g : Good A) {n : Note} (hn : n ∉ A.map (·.1)) : Good (absStep A n) :=
  (g.closeCol _ _).snoc (by rw [closeCol_map_fst]; exact hn) _ (fun _ => hasOpen_closeCol_same _ _ _)

theorem good_nil : Good [] := ⟨List.nodup_nil, List.nodup_nil⟩

theorem pcl_good : ∀ P : List Note, P.Nodup → Good (pcl P) := by
  intro P
  induction P using snoc_induction with
  | nil => intro _; exact good_nil
  | snoc P n ih =>
    intro hP
    rw [List.nodup_append] at hP
    obtain ⟨hP1, -, hP3⟩ := hP
    rw [pcl_snoc]
    apply (ih hP1).absStep
    rw [pcl_map_fst]
    intro hmem
    exact hP3 n hmem n (by simp) rfl

theorem anyCls_absStep_mono (k : Cls) (A : List AN) (n : Note) (h : anyCls k A = true) :
    anyCls k (absStep A n) = true := by
  unfold absStep
  rw [anyCls_append, anyCls_closeCol, h]
  rfl

theorem raised_mono (o : GOpts) (A : List AN) (n : Note) (h : raised o A = true) :
    raised o (absStep A n) = true := by
  unfold raised at h ⊢
  rcases (Bool.or_eq_true _ _).mp h with h1 | h1
  · obtain ⟨h2, h3⟩ := (Bool.and_eq_true _ _).mp h1
    rw [h2, anyCls_absStep_mono _ _ _ h3]; rfl
  · obtain ⟨h2, h3⟩ := (Bool.and_eq_true _ _).mp h1
    rw [h2, anyCls_absStep_mono _ _ _ h3]; simp

theorem fold_spec (o : GOpts) : ∀ P : List Note, P.Nodup →
    P.foldlM (joinStep o) { held := [], buffer := [], out := [] } =
      if raised o (pcl P) then .error .orphaned else .ok (stateOf o (pcl P)) := by
  intro P
  induction P using snoc_induction with
  | nil =>
    intro _
    have h1 : pcl [] = [] := rfl
    rw [h1, raised_nil]
    rfl
  | snoc P n ih =>
    intro hP
    rw [List.nodup_append] at hP
    obtain ⟨hP1, -, hP3⟩ := hP
    have hn : n ∉ (pcl P).map (·.1) := by
      rw [pcl_map_fst]
      intro hmem
      exact hP3 n hmem n (by simp) rfl
    rw [List.foldlM_append, ih hP1, pcl_snoc]
    cases hr : raised o (pcl P) with
    | true =>
      rw [raised_mono o _ n hr]
      rfl
    | false =>
      simp only [Bool.false_eq_true, if_false]
      have := joinStep_spec o (pcl P) (pcl_good P hP1) n hn hr
      simp only [bind, Except.bind, List.foldlM_cons, List.foldlM_nil, this]
      cases raised o (absStep (pcl P) n) <;> rfl

/-! ### clean up orphaned heads -/

theorem jht_end_raise (o : GOpts) (buf : List GNote) (h : Note) (ho : o.orphanHead = .raise) :
    joinHeadToTail o buf (some h) none = .error .orphaned := by
  simp [joinHeadToTail, ho]

theorem jht_end_keep (o : GOpts) (buf : List GNote) (h : Note) (ho : o.orphanHead = .keep) :
    joinHeadToTail o buf (some h) none = .ok buf := by
  simp [joinHeadToTail, ho]

theorem jht_end_drop (o : GOpts) (buf b : List GNote) (h : Note) (ho : o.orphanHead = .drop)
    (hb : removeFirst buf h = some b) : joinHeadToTail o buf (some h) none = .ok b := by
  simp [joinHeadToTail, ho, hb]

theorem map_fin_closeCol (c : Nat) (A : List AN) : (closeCol c .orphanHead A).map fin = A.map fin := by
  simp only [closeCol, List.map_map]
  apply List.map_congr_left
  intro x _
  rcases x with ⟨m, _ | k⟩
  · by_cases hc : m.column = c <;> simp [fin, hc]
  · simp [fin]

theorem flatMap_image_fin (o : GOpts) (A : List AN) (h : ∀ x ∈ A, x.2.isSome = true) :
    A.flatMap (pimage o) = (A.map fin).flatMap (image o) := by
  induction A with
  | nil => rfl
  | cons x A ih =>
    rcases x with ⟨m, _ | k⟩
    · have := h (m, none) (by simp)
      simp at this
    · simp only [List.flatMap_cons, List.map_cons]
      rw [ih (fun y hy => h y (by simp [hy]))]
      rfl

theorem cleanup_spec (o : GOpts) : ∀ (H : List (Nat × Note)) (D : List AN), Good D → opens D = H →
    H.foldlM (fun buf cn => joinHeadToTail o buf (some cn.2) none) (D.flatMap (pimage o)) =
      if o.orphanHead = .raise ∧ H ≠ [] then .error .orphaned
      else .ok ((D.map fin).flatMap (image o)) := by
  intro H
  induction H with
  | nil =>
    intro D _ hD
    simp only [List.foldlM_nil, ne_eq, not_true_eq_false, and_false, if_false]
    rw [flatMap_image_fin o D ((opens_eq_nil_iff D).mp hD)]
    rfl
  | cons ch H ih =>
    intro D g hD
    rcases ch with ⟨c, h⟩
    have hmem : (c, h) ∈ opens D := by rw [hD]; simp
    obtain ⟨hm, hc⟩ := mem_opens.mp hmem
    subst hc
    have hcols := g.cols
    rw [hD] at hcols
    simp only [List.map_cons, List.nodup_cons] at hcols
    have hD1 : opens (closeCol h.column .orphanHead D) = H := by
      rw [opens_closeCol, hD]
      simp only [ne_eq, decide_not, List.filter_cons, decide_true, Bool.not_true, Bool.false_eq_true, if_false]
      apply List.filter_eq_self.mpr
      intro x hx
      have : x.1 ≠ h.column := fun he => hcols.1 (List.mem_map.mpr ⟨x, hx, he⟩)
      simp [this]
    have ih' := ih (closeCol h.column .orphanHead D) (g.closeCol _ _) hD1
    rw [map_fin_closeCol] at ih'
    simp only [List.foldlM_cons]
    cases hoh : o.orphanHead with
    | raise =>
      rw [jht_end_raise o _ h hoh]
      simp [bind, Except.bind]
    | keep =>
      rw [jht_end_keep o _ h hoh]
      simp only [bind, Except.bind]
      rw [← keep_spec o hoh h.column D, ih', hoh]
      simp
    | drop =>
      rw [jht_end_drop o _ _ h hoh (removeFirst_spec o hoh h D g hm)]
      simp only [bind, Except.bind]
      rw [ih', hoh]
      simp

/-! ### the join phase refines its specification -/

theorem any_fin (k : Cls) (A : List AN) :
    (A.map fin).any (fun x => decide (x.2 = k)) =
      (anyCls k A || (decide (k = .orphanHead) && !(opens A).isEmpty)) := by
  induction A with
  | nil => simp [anyCls]
  | cons x A ih =>
    simp only [List.map_cons, List.any_cons, ih, anyCls]
    rcases x with ⟨m, _ | k'⟩
    · by_cases hk : k = .orphanHead
      · subst hk; simp [fin]
      · have : ¬ Cls.orphanHead = k := fun h => hk h.symm
        simp [fin, hk, this]
    · simp only [fin, Option.getD_some, Option.some.injEq, opens_cons_some, Bool.or_assoc]
      rfl

theorem join_refines_spec (o : GOpts) (F : List Note) (hF : F.Nodup) :
    joinHeadsToTails o F = joinSpec o F := by
  unfold joinHeadsToTails joinSpec
  rw [fold_spec o F hF, classifyAll_eq]
  simp only [any_fin]
  cases hr : raised o (pcl F) with
  | true =>
    have : (o.orphanHead = .raise ∧ anyCls .orphanHead (pcl F) = true) ∨
        (o.orphanTail = .raise ∧ anyCls .orphanTail (pcl F) = true) := by
      simpa [raised] using hr
    rcases this with ⟨h1, h2⟩ | ⟨h1, h2⟩
    · simp [h1, h2, bind, Except.bind]
    · simp [h1, h2, bind, Except.bind]
  | false =>
    simp only [Bool.false_eq_true, if_false, bind, Except.bind]
    rw [stateOf_eq]
    simp only
    have hcl := cleanup_spec o (opens (pcl F)) ((pcl F).dropWhile (·.2.isSome)) (pcl_good F hF).dropWhile
      (opens_dropWhile _)
    rw [hcl]
    have hr1 : o.orphanHead = .raise → anyCls .orphanHead (pcl F) = false := by
      intro h
      have := hr
      simp only [raised, h, decide_true, Bool.true_and, Bool.or_eq_false_iff] at this
      exact this.1
    have hr2 : o.orphanTail = .raise → anyCls .orphanTail (pcl F) = false := by
      intro h
      have := hr
      simp only [raised, h, decide_true, Bool.true_and, Bool.or_eq_false_iff] at this
      exact this.2
    by_cases hc : o.orphanHead = .raise ∧ opens (pcl F) ≠ []
    · have : (opens (pcl F)).isEmpty = false := by
        cases hh : opens (pcl F) with
        | nil => exact absurd hh hc.2
        | cons _ _ => rfl
      simp [hc, this]
    · have hcond : ¬ (o.orphanHead = Orphan.raise ∧
            (anyCls Cls.orphanHead (pcl F) || decide True && !(opens (pcl F)).isEmpty) = true ∨
          o.orphanTail = Orphan.raise ∧
            (anyCls Cls.orphanTail (pcl F) || decide (Cls.orphanTail = Cls.orphanHead) && !(opens (pcl F)).isEmpty) =
              true) := by
        rintro (⟨h1, h2⟩ | ⟨h1, h2⟩)
        · have he : opens (pcl F) = [] := Classical.byContradiction fun hne => hc ⟨h1, hne⟩
          simp [hr1 h1, he] at h2
        · simp [hr2 h1] at h2
      rw [if_neg hc, if_neg hcond]
      simp only [pure, Except.pure]
      rw [flatMap_image_fin o _ (fun x hx => of_mem_takeWhile (p := fun x : AN => x.2.isSome) hx),
        ← List.flatMap_append, ← List.map_append, List.takeWhile_append_dropWhile]

end Simfile.Join
