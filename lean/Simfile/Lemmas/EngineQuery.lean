/-
C11 helper (L2): which state the bisect search selects, on the not-always-sorted key list.
-/
import Simfile.Lemmas.EngineRun
import Simfile.Lemmas.EngineBisect
namespace Simfile
open C11

variable {td : TimingData}

theorem priorState_eq (td : TimingData) (b : Rat) (g : Tag) :
    (mkEngine td).priorState b g =
      ((states td)[bisectRightLoop (fun (s : TState) => keyLT (b, g) (s.beat, s.tag)) (states td).toArray
        ((states td).toArray.size + 1) 0 (states td).toArray.size - 1]?).getD (initState td) := by
  simp only [Engine.priorState, mkEngine, Array.getD_eq_getD_getElem?, List.getElem?_toArray]

theorem ltq_true (b : Rat) (g : Tag) (y : TState) :
    keyLT (b, g) (y.beat, y.tag) = true ↔ key b g < skey y := keyLT_iff _ _ _ _

theorem ltq_false (b : Rat) (g : Tag) (y : TState) :
    keyLT (b, g) (y.beat, y.tag) = false ↔ skey y ≤ key b g := by
  rw [← not_lt, ← ltq_true, Bool.not_eq_true]

theorem run_key_at (s : TState) (es : List TEvent) (k : Nat) (y : TState)
    (hy : (run s es)[k]? = some y) : ∃ hk : k < es.length, skey y = ekey es[k] := by
  have h := run_keys s es
  have hk : k < es.length := by
    rw [← run_length s es]
    exact (List.getElem?_eq_some_iff.1 hy).1
  refine ⟨hk, ?_⟩
  have h1 : ((run s es).map skey)[k]? = some (skey y) := by rw [List.getElem?_map, hy]; rfl
  rw [h, List.getElem?_map, List.getElem?_eq_getElem hk] at h1
  exact (Option.some.inj h1).symm

/-- the state selected by the search: either the initial state (for a key before `(0, BPM)`, or for a
key before every event), or a later state that satisfies the invariant, whose key is at most the
query and with no event key in between -/
theorem prior_cases (hd : Dom td) (b : Rat) (g : Tag) :
    ((mkEngine td).priorState b g = initState td ∧
      (key b g < key 0 .bpm ∨ (key 0 .bpm ≤ key b g ∧ ∀ e ∈ events td, key b g < ekey e))) ∨
    (StInv td ((mkEngine td).priorState b g) ∧ skey ((mkEngine td).priorState b g) ≤ key b g ∧
      ∀ e ∈ events td, ekey e ≤ skey ((mkEngine td).priorState b g) ∨ key b g < ekey e) := by
  have hE := ssorted_events td hd
  have hpw := List.pairwise_iff_getElem.1 hE
  have hinv := states_inv hd
  have hlen := run_length (initState td) (events td)
  have hss : states td = initState td :: run (initState td) (events td) := states_eq_run td
  obtain ⟨h1, h2, h3⟩ := bisect_boundary (fun (s : TState) => keyLT (b, g) (s.beat, s.tag)) (states td)
  rw [priorState_eq]
  generalize bisectRightLoop (fun (s : TState) => keyLT (b, g) (s.beat, s.tag)) (states td).toArray
        ((states td).toArray.size + 1) 0 (states td).toArray.size = r at h1 h2 h3 ⊢
  rw [hss] at h1 h2 h3 ⊢
  simp only [List.length_cons] at h1 h3
  -- all events with index above k are beyond the query as soon as the one at k+1 is
  match r, h1, h2, h3 with
  | 0, _, _, h3 =>
    left
    refine ⟨by simp, Or.inl ?_⟩
    rcases h3 with h3 | ⟨y, hy, hlt⟩
    · omega
    · simp only [List.getElem?_cons_zero, Option.some.injEq] at hy
      subst hy
      exact (ltq_true b g _).1 hlt
  | 1, _, h2, h3 =>
    left
    refine ⟨by simp, Or.inr ?_⟩
    rcases h2 with h2 | ⟨y, hy, hnlt⟩
    · omega
    · simp only [Nat.sub_self, List.getElem?_cons_zero, Option.some.injEq] at hy
      subst hy
      refine ⟨(ltq_false b g _).1 hnlt, ?_⟩
      rcases h3 with h3 | ⟨y, hy, hlt⟩
      · have : (events td).length = 0 := by omega
        intro e he
        rw [List.length_eq_zero_iff.1 this] at he
        exact absurd he List.not_mem_nil
      · rw [List.getElem?_cons_succ] at hy
        obtain ⟨hk, hkey⟩ := run_key_at _ _ 0 y hy
        have hq := (ltq_true b g y).1 hlt
        rw [hkey] at hq
        intro e he
        obtain ⟨j, hj, rfl⟩ := List.getElem_of_mem he
        rcases Nat.eq_zero_or_pos j with rfl | hjpos
        · exact hq
        · exact lt_trans hq (hpw 0 j hk hj hjpos)
  | k + 2, h1, h2, h3 =>
    right
    have hkl : k < (run (initState td) (events td)).length := by omega
    have hget : (initState td :: run (initState td) (events td))[k + 2 - 1]? =
        some (run (initState td) (events td))[k] := by
      rw [show k + 2 - 1 = k + 1 from rfl, List.getElem?_cons_succ, List.getElem?_eq_getElem hkl]
    rw [hget]
    simp only [Option.getD_some]
    set s := (run (initState td) (events td))[k] with hs
    have hsget : (run (initState td) (events td))[k]? = some s := List.getElem?_eq_getElem hkl
    obtain ⟨hk, hkey⟩ := run_key_at _ _ k s hsget
    refine ⟨hinv s (List.getElem_mem hkl), ?_, ?_⟩
    · rcases h2 with h2 | ⟨y, hy, hnlt⟩
      · omega
      · rw [hget] at hy
        rw [← Option.some.inj hy] at hnlt
        exact (ltq_false b g s).1 hnlt
    · intro e he
      obtain ⟨j, hj, rfl⟩ := List.getElem_of_mem he
      by_cases hjk : j ≤ k
      · left
        rw [hkey]
        rcases Nat.lt_or_eq_of_le hjk with hlt | rfl
        · exact le_of_lt (hpw j k hj hk hlt)
        · exact le_refl _
      · right
        rcases h3 with h3 | ⟨y, hy, hlt⟩
        · omega
        · rw [List.getElem?_cons_succ] at hy
          obtain ⟨hk1, hkey1⟩ := run_key_at _ _ (k + 1) y hy
          have hq := (ltq_true b g y).1 hlt
          rw [hkey1] at hq
          rcases Nat.lt_or_eq_of_le (show k + 1 ≤ j by omega) with hlt2 | heq
          · exact lt_trans hq (hpw (k + 1) j hk1 hj hlt2)
          · subst heq; exact hq

end Simfile
