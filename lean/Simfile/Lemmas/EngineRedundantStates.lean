/-
C12 helper (redundant BPM rows, part 2): the event list and the state list of `withBpm td x` are those
of `td` with one more event `(x, bpmOn td x, BPM)`, resp. one more state, at the sorted position.
-/
import Simfile.Lemmas.EngineRedundantRound
namespace Simfile
open C11

/-! ### Step A: the events -/

/-- a strictly sorted list is determined by its members -/
theorem ssorted_ext : ∀ (l₁ l₂ : List TEvent), SSorted l₁ → SSorted l₂ → (∀ a, a ∈ l₁ ↔ a ∈ l₂) → l₁ = l₂ := by
  intro l₁
  induction l₁ with
  | nil =>
    intro l₂ _ _ h
    symm
    apply List.eq_nil_iff_forall_not_mem.2
    intro a ha
    exact absurd ((h a).2 ha) List.not_mem_nil
  | cons a l₁ ih =>
    intro l₂ h₁ h₂ h
    cases l₂ with
    | nil => exact absurd ((h a).1 List.mem_cons_self) List.not_mem_nil
    | cons b l₂ =>
      have p₁ := List.pairwise_cons.1 h₁
      have p₂ := List.pairwise_cons.1 h₂
      have hab : a = b := by
        rcases List.mem_cons.1 ((h a).1 List.mem_cons_self) with e | ha
        · exact e
        · rcases List.mem_cons.1 ((h b).2 List.mem_cons_self) with e | hb
          · exact e.symm
          · exact absurd (lt_trans (p₁.1 b hb) (p₂.1 a ha)) (lt_irrefl _)
      subst hab
      congr 1
      apply ih l₂ p₁.2 p₂.2
      intro c
      constructor
      · intro hc
        rcases List.mem_cons.1 ((h c).1 (List.mem_cons_of_mem _ hc)) with e | hc'
        · subst e; exact absurd (p₁.1 c hc) (lt_irrefl _)
        · exact hc'
      · intro hc
        rcases List.mem_cons.1 ((h c).2 (List.mem_cons_of_mem _ hc)) with e | hc'
        · subst e; exact absurd (p₂.1 c hc) (lt_irrefl _)
        · exact hc'

/-- a strictly sorted list splits at a key that it does not contain -/
theorem split_at_key (κ : K) : ∀ (l : List TEvent), SSorted l → (∀ e ∈ l, ekey e ≠ κ) →
    ∃ pre post, l = pre ++ post ∧ (∀ e ∈ pre, ekey e < κ) ∧ (∀ e ∈ post, κ < ekey e) := by
  intro l
  induction l with
  | nil => intro _ _; exact ⟨[], [], rfl, by simp, by simp⟩
  | cons a l ih =>
    intro hs hne
    have p := List.pairwise_cons.1 hs
    by_cases ha : ekey a < κ
    · obtain ⟨pre, post, e, h1, h2⟩ := ih p.2 (fun e he => hne e (List.mem_cons_of_mem _ he))
      refine ⟨a :: pre, post, by rw [e]; rfl, ?_, h2⟩
      intro c hc
      rcases List.mem_cons.1 hc with rfl | hc
      · exact ha
      · exact h1 c hc
    · have ha' : κ < ekey a := lt_of_le_of_ne (not_lt.1 ha) (Ne.symm (hne a List.mem_cons_self))
      refine ⟨[], a :: l, rfl, by simp, ?_⟩
      intro c hc
      rcases List.mem_cons.1 hc with rfl | hc
      · exact ha'
      · exact lt_trans ha' (p.1 c hc)

theorem tail_insertBpm (x v : Rat) (l : List (Rat × Rat)) (hne : l ≠ [])
    (hh : (l.headD (0, 0)).1 = 0) (hpos : 0 < x) :
    (insertBpm x v l).tail = insertBpm x v l.tail := by
  cases l with
  | nil => exact absurd rfl hne
  | cons a l =>
    have ha : a.1 = 0 := hh
    unfold insertBpm
    rw [if_neg (by rw [ha]; exact not_lt.2 (le_of_lt hpos))]
    cases l <;> rfl

/-- the extra event -/
def exEv (td : TimingData) (x : Rat) : TEvent := ⟨x, Spec.bpmOn td x, .bpm⟩

theorem mem_events_withBpm (td : TimingData) (h : Dom td) (x : Rat) (hpos : 0 < x) (a : TEvent) :
    a ∈ events (withBpm td x) ↔ a ∈ events td ∨ a = exEv td x := by
  have ht : (withBpm td x).bpms.tail = insertBpm x (Spec.bpmOn td x) td.bpms.tail :=
    tail_insertBpm x _ td.bpms h.bpms_ne h.bpms_head hpos
  have e1 : startRows (withBpm td x) = startRows td := rfl
  have e2 : endRows (withBpm td x) = endRows td := rfl
  have e3 : (withBpm td x).delays = td.delays := rfl
  have e4 : (withBpm td x).stops = td.stops := rfl
  have hex : a = exEv td x ↔ a.tag = .bpm ∧ (a.beat, a.value) = (x, Spec.bpmOn td x) := by
    constructor
    · rintro rfl; exact ⟨rfl, rfl⟩
    · rintro ⟨h1, h2⟩
      obtain ⟨hb, hv⟩ := Prod.mk.inj h2
      clear h2
      cases a
      simp only at h1 hb hv
      subst h1; subst hb; subst hv
      rfl
  have hL := mem_events (withBpm td x) a
  have hR := mem_events td a
  rw [e1, e2, e3, e4, ht, mem_insertBpm] at hL
  rw [hL, hR, hex]
  constructor
  · rintro (h | h | ⟨h, h' | h'⟩ | h)
    · exact Or.inl (Or.inl h)
    · exact Or.inl (Or.inr (Or.inl h))
    · exact Or.inr ⟨h, h'⟩
    · exact Or.inl (Or.inr (Or.inr (Or.inl ⟨h, h'⟩)))
    · exact Or.inl (Or.inr (Or.inr (Or.inr h)))
  · rintro ((h | h | h | h) | ⟨h, h'⟩)
    · exact Or.inl h
    · exact Or.inr (Or.inl h)
    · exact Or.inr (Or.inr (Or.inl ⟨h.1, Or.inr h.2⟩))
    · exact Or.inr (Or.inr (Or.inr h))
    · exact Or.inr (Or.inr (Or.inl ⟨h, Or.inl h'⟩))

theorem events_withBpm (td : TimingData) (h : Dom td) (x : Rat) (hx : onGrid x) (hpos : 0 < x)
    (hnew : ∀ e ∈ td.bpms, e.1 ≠ x) :
    ∃ pre post, events td = pre ++ post ∧ events (withBpm td x) = pre ++ exEv td x :: post ∧
      (∀ e ∈ pre, ekey e < key x .bpm) ∧ (∀ e ∈ post, key x .bpm < ekey e) := by
  have hs := ssorted_events td h
  have hne : ∀ e ∈ events td, ekey e ≠ key x .bpm := by
    intro e he hk
    obtain ⟨hb, hg⟩ := key_eq.1 hk
    have := events_bpm he hg
    exact hnew _ (List.mem_of_mem_tail this) hb
  obtain ⟨pre, post, hE, h1, h2⟩ := split_at_key (key x .bpm) (events td) hs hne
  refine ⟨pre, post, hE, ?_, h1, h2⟩
  apply ssorted_ext _ _ (ssorted_events _ (dom_withBpm td h x hx hpos hnew))
  · unfold SSorted at hs ⊢
    rw [hE, List.pairwise_append] at hs
    rw [List.pairwise_append, List.pairwise_cons]
    refine ⟨hs.1, ⟨h2, hs.2.1⟩, ?_⟩
    intro a ha b hb
    rcases List.mem_cons.1 hb with rfl | hb
    · exact h1 a ha
    · exact hs.2.2 a ha b hb
  · intro a
    rw [mem_events_withBpm td h x hpos, hE]
    simp only [List.mem_append, List.mem_cons]
    tauto

/-! ### Step B: the states -/

theorem run_append (s : TState) (l₁ l₂ : List TEvent) :
    run s (l₁ ++ l₂) = run s l₁ ++ run (l₁.foldl advance s) l₂ := by
  induction l₁ generalizing s with
  | nil => rfl
  | cons e es ih => simp only [List.cons_append, run, List.foldl_cons, ih]

theorem run_last (s : TState) (l : List TEvent) : ∃ A0, s :: run s l = A0 ++ [l.foldl advance s] := by
  induction l generalizing s with
  | nil => exact ⟨[], rfl⟩
  | cons e es ih =>
    obtain ⟨A0, hA⟩ := ih (advance s e)
    refine ⟨s :: A0, ?_⟩
    simp only [run, List.foldl_cons, List.cons_append]
    rw [hA]

/-- a redundant BPM event between a (non-pause) state and the next event does not change the next state -/
theorem advance_skip (y : TState) (ex e : TEvent) (hp : ¬ (y.tag = .stop ∨ y.tag = .delay))
    (ht : ex.tag = .bpm) (hv : ex.value = y.bpm) : advance (advance y ex) e = advance y e := by
  have hb : (advance y ex).bpm = y.bpm := by simp [advance, ht, hv]
  have hw : (advance y ex).warp = y.warp := by simp [advance, ht]
  have htime : (advance y ex).time + (advance y ex).timeUntil e.beat e.tag = y.time + y.timeUntil e.beat e.tag := by
    have h1 : (advance y ex).time = y.time + y.timeUntil ex.beat ex.tag := rfl
    have h2 : (advance y ex).beat = ex.beat := rfl
    have h3 : (advance y ex).tag = .bpm := ht
    rw [h1]
    unfold TState.timeUntil
    rw [hb, hw, h2, h3, ht]
    have c1 : ¬ ((y.tag = .stop ∨ y.tag = .delay) ∧ (Tag.bpm = .stopEnd ∨ Tag.bpm = .delayEnd)) :=
      fun h => hp h.1
    have c2 : ¬ ((Tag.bpm = .stop ∨ Tag.bpm = .delay) ∧ (e.tag = .stopEnd ∨ e.tag = .delayEnd)) := by
      rintro ⟨h | h, _⟩ <;> cases h
    have c3 : ¬ ((y.tag = .stop ∨ y.tag = .delay) ∧ (e.tag = .stopEnd ∨ e.tag = .delayEnd)) :=
      fun h => hp h.1
    rw [if_neg c1, if_neg c2, if_neg c3]
    by_cases hwy : y.warp = true
    · simp only [if_pos hwy]
      ring
    · simp only [if_neg hwy]
      ring
  show TState.mk _ _ _ _ _ _ = TState.mk _ _ _ _ _ _
  rw [htime, hb, hw]

theorem run_skip (y : TState) (ex : TEvent) (post : List TEvent) (hp : ¬ (y.tag = .stop ∨ y.tag = .delay))
    (ht : ex.tag = .bpm) (hv : ex.value = y.bpm) : run (advance y ex) post = run y post := by
  cases post with
  | nil => rfl
  | cons e es => simp only [run, advance_skip y ex e hp ht hv]

theorem initState_withBpm (td : TimingData) (h : Dom td) (x : Rat) (hpos : 0 < x) :
    initState (withBpm td x) = initState td := by
  unfold initState
  rw [head_withBpm td h x hpos]
  rfl

/-- the state after the events below the key of the new row -/
theorem prior_facts (td : TimingData) (h : Dom td) (x : Rat) (hpos : 0 < x) (pre post : List TEvent)
    (hE : events td = pre ++ post) (h1 : ∀ e ∈ pre, ekey e < key x .bpm)
    (h2 : ∀ e ∈ post, key x .bpm < ekey e) :
    StInv td (pre.foldl advance (initState td)) ∧ skey (pre.foldl advance (initState td)) < key x .bpm ∧
      ∀ e ∈ pre, ekey e ≤ skey (pre.foldl advance (initState td)) := by
  rcases List.eq_nil_or_concat' pre with rfl | ⟨L, b, rfl⟩
  · refine ⟨?_, key_lt.2 (Or.inl hpos), by simp⟩
    apply init_inv h
    intro e he hle
    rw [hE] at he
    have := h2 e (by simpa using he)
    exact absurd (lt_of_lt_of_le (lt_trans (key_lt.2 (Or.inl hpos)) this) hle) (lt_irrefl _)
  · have hy : (L ++ [b]).foldl advance (initState td) = advance (L.foldl advance (initState td)) b := by
      simp
    rw [hy]
    have hk : skey (advance (L.foldl advance (initState td)) b) = ekey b := rfl
    rw [hk]
    refine ⟨?_, h1 b (by simp), ?_⟩
    · apply states_inv h
      rw [hE, run_append, run_append]
      simp [run]
    · have hs := ssorted_events td h
      unfold SSorted at hs
      rw [hE, List.pairwise_append, List.pairwise_append] at hs
      intro e he
      rcases List.mem_append.1 he with he | he
      · exact le_of_lt (hs.1.2.2 e he b (by simp))
      · rw [List.mem_singleton.1 he]

/-- Step B: the two state lists -/
theorem states_withBpm (td : TimingData) (h : Dom td) (x : Rat) (hx : onGrid x) (hpos : 0 < x)
    (hnew : ∀ e ∈ td.bpms, e.1 ≠ x) :
    ∃ A0 y post, states td = A0 ++ y :: run y post ∧
      states (withBpm td x) = A0 ++ y :: advance y (exEv td x) :: run y post ∧
      StInv td y ∧ ¬ (y.tag = .stop ∨ y.tag = .delay) ∧ y.bpm = Spec.bpmOn td x ∧ y.beat ≤ x ∧
      (y.warp = true → post ≠ []) := by
  obtain ⟨pre, post, hE, hE', h1, h2⟩ := events_withBpm td h x hx hpos hnew
  obtain ⟨hinv, hlt, hpre⟩ := prior_facts td h x hpos pre post hE h1 h2
  obtain ⟨A0, hA⟩ := run_last (initState td) pre
  generalize hyd : pre.foldl advance (initState td) = y at hinv hlt hpre hA
  -- membership of an event of `td`
  have hsplit : ∀ e ∈ events td, ekey e ≤ skey y ∨ (e ∈ post ∧ key x .bpm < ekey e) := by
    intro e he
    rw [hE] at he
    rcases List.mem_append.1 he with he | he
    · exact Or.inl (hpre e he)
    · exact Or.inr ⟨he, h2 e he⟩
  have hbeat : y.beat ≤ x := beat_le_of_key_lt hlt
  -- `y` is not a pause
  have hnp : ¬ (y.tag = .stop ∨ y.tag = .delay) := by
    rintro (hg | hg)
    · rcases hsplit _ (ev_stopEnd (hinv.stop hg)) with hle | ⟨_, hgt⟩
      · unfold skey ekey at hle
        rw [hg] at hle
        rcases key_le.1 hle with h3 | h3
        · exact lt_irrefl _ h3
        · have := h3.2; simp at this
      · have hb2 : x ≤ y.beat := beat_le_of_key_lt hgt
        unfold skey at hlt
        rw [hg] at hlt
        rcases key_lt.1 hlt with h3 | h3
        · linarith
        · have := h3.2; simp at this
    · rcases hsplit _ (ev_delayEnd (hinv.delay hg)) with hle | ⟨_, hgt⟩
      · unfold skey ekey at hle
        rw [hg] at hle
        rcases key_le.1 hle with h3 | h3
        · exact lt_irrefl _ h3
        · have := h3.2; simp at this
      · have hb2 : x ≤ y.beat := beat_le_of_key_lt hgt
        unfold skey at hlt
        rw [hg] at hlt
        rcases key_lt.1 hlt with h3 | h3
        · linarith
        · have := h3.2; simp at this
  -- the BPM of `y` is the BPM in force on `x`
  have hbpm : y.bpm = Spec.bpmOn td x := by
    rw [hinv.bpm, bpmOn_eq_before td h x .bpm (by simp)]
    apply bpmBefore_congr td (le_of_lt hlt)
    intro e he _ hh
    rcases hsplit e he with hle | ⟨_, hgt⟩
    · exact absurd (lt_of_lt_of_le hh.1 hle) (lt_irrefl _)
    · exact absurd (lt_of_lt_of_le hgt hh.2) (lt_irrefl _)
  -- inside a warp there is a later event
  have hwarp : y.warp = true → post ≠ [] := by
    intro hw
    obtain ⟨sg, hsg, _, h4⟩ := hinv.warp.1 hw
    rcases hsplit _ (ev_warpEnd hsg) with hle | ⟨hin, _⟩
    · exact absurd (lt_of_lt_of_le h4 hle) (lt_irrefl _)
    · exact List.ne_nil_of_mem hin
  refine ⟨A0, y, post, ?_, ?_, hinv, hnp, hbpm, hbeat, hwarp⟩
  · rw [states_eq_run, hE, run_append, hyd, ← List.cons_append, hA]
    simp
  · rw [states_eq_run, hE', initState_withBpm td h x hpos, run_append, hyd, ← List.cons_append, hA]
    simp only [run, List.append_assoc, List.singleton_append]
    rw [run_skip y (exEv td x) post hnp rfl hbpm.symm]

end Simfile
