/-
C11 helper: assembling the refinement (queries) from the state invariant and the bisect lemma.
-/
import Simfile.Lemmas.EngineQuery
namespace Simfile
open C11

variable {td : TimingData}

/-- queries before the key `(0, BPM)` extrapolate from the initial state -/
theorem init_low (hd : Dom td) (b : Rat) (g : Tag) (hq : key b g < key 0 .bpm) :
    (initState td).time + (initState td).timeUntil b g = Spec.timeSpec td b g := by
  have hp : pausedK td (key b g) = 0 :=
    pausedK_low hd (lt_trans hq (key_lt.2 (Or.inr ⟨rfl, by simp⟩)))
  rw [timeSpec_eq, paused_eq_K, hp]
  rcases key_lt.1 hq with hb | ⟨hb, _⟩
  · unfold travel
    rw [if_pos hb]
    simp [TState.timeUntil, initState]
  · rw [hb, travel_zero]
    simp [TState.timeUntil, initState]

theorem noneBetween_of_split {κ q : K} (h : ∀ e ∈ events td, ekey e ≤ κ ∨ q < ekey e) :
    NoneBetween td κ q := by
  intro e he hh
  rcases h e he with h1 | h1
  · exact lt_irrefl _ (lt_of_lt_of_le hh.1 h1)
  · exact lt_irrefl _ (lt_trans hh.2 h1)

/-- the selected state: its invariant, its key and the gap up to the query, for queries at or after
`(0, BPM)` -/
theorem prior_high (hd : Dom td) (b : Rat) (g : Tag) (hq : key 0 .bpm ≤ key b g) :
    StInv td ((mkEngine td).priorState b g) ∧ skey ((mkEngine td).priorState b g) ≤ key b g ∧
      ∀ e ∈ events td, ekey e ≤ skey ((mkEngine td).priorState b g) ∨ key b g < ekey e := by
  rcases prior_cases hd b g with ⟨hs, hlow | ⟨hle, hall⟩⟩ | h
  · exact absurd (lt_of_lt_of_le hlow hq) (lt_irrefl _)
  · rw [hs]
    refine ⟨init_inv hd (fun e he hle' => ?_), hle, fun e he => Or.inr (hall e he)⟩
    exact lt_irrefl _ (lt_of_lt_of_le (lt_of_le_of_lt hle (hall e he)) hle')
  · exact h

theorem timeAt_eq_spec (hd : Dom td) (b : Rat) (g : Tag) : timeAt td b g = Spec.timeSpec td b g := by
  unfold timeAt Engine.timeAt
  rcases lt_or_ge (key b g) (key 0 .bpm) with hlow | hhigh
  · rcases prior_cases hd b g with ⟨hs, _⟩ | ⟨hinv, hle, hno⟩
    · rw [hs]; exact init_low hd b g hlow
    · exact step_time hd _ hinv b g hle (noneBetween_of_split hno)
  · obtain ⟨hinv, hle, hno⟩ := prior_high hd b g hhigh
    exact step_time hd _ hinv b g hle (noneBetween_of_split hno)

theorem bpmAt_eq_spec (hd : Dom td) (b : Rat) :
    bpmAt td b = if b < 0 then (td.bpms.headD (0, 0)).2 else Spec.bpmOn td b := by
  unfold bpmAt Engine.bpmAt
  by_cases hb : b < 0
  · rw [if_pos hb, if_pos hb]; rfl
  · rw [if_neg hb, if_neg hb]
    have hq : key 0 .bpm ≤ key b .bpm := by
      rcases lt_or_eq_of_le (not_lt.1 hb) with h | h
      · exact key_le.2 (Or.inl h)
      · exact key_le.2 (Or.inr ⟨h, le_refl _⟩)
    obtain ⟨hinv, hle, hno⟩ := prior_high hd b .bpm hq
    rw [hinv.bpm, bpmOn_eq_before td hd b .bpm (by simp)]
    apply bpmBefore_congr td hle
    intro e he _ hh
    rcases hno e he with h1 | h1
    · exact lt_irrefl _ (lt_of_lt_of_le hh.1 h1)
    · exact lt_irrefl _ (lt_of_le_of_lt hh.2 h1)

end Simfile
