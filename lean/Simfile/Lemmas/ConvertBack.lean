/-
SM → SSC → SM: the lemmas behind `C17.there_and_back`.
-/
import Simfile.Lemmas.Convert
namespace Simfile.Cv
open Simfile Simfile.O Simfile.V

/-! ### more on `set` / `setAll` -/

theorem mem_set (d : Dict) (k : Str) (v : Option Str) (x : Str × Option Str) (h : x ∈ d.set k v) :
    x = (k, v) ∨ x ∈ d := by
  induction d with
  | nil => simp [Dict.set] at h; exact Or.inl h
  | cons kv d ih =>
    obtain ⟨k', v'⟩ := kv
    unfold Dict.set at h
    split_ifs at h
    · rcases List.mem_cons.mp h with h | h
      · exact Or.inl h
      · exact Or.inr (List.mem_cons_of_mem _ h)
    · rcases List.mem_cons.mp h with h | h
      · exact Or.inr (h ▸ List.mem_cons_self)
      · rcases ih h with h | h
        · exact Or.inl h
        · exact Or.inr (List.mem_cons_of_mem _ h)

theorem mem_setAll (d0 kvs : Dict) (x : Str × Option Str) (h : x ∈ setAll d0 kvs) :
    x.1 ∈ Dict.keys kvs ∨ x ∈ d0 := by
  induction kvs generalizing d0 with
  | nil => exact Or.inr h
  | cons kv kvs ih =>
    rw [setAll_cons] at h
    rcases ih _ h with h | h
    · exact Or.inl (List.mem_cons_of_mem _ h)
    · rcases mem_set _ _ _ _ h with h | h
      · left; rw [h]; exact List.mem_cons_self
      · exact Or.inr h

theorem keys_setAll_of_subset (d0 kvs : Dict) (h : ∀ k ∈ Dict.keys kvs, k ∈ Dict.keys d0) :
    Dict.keys (setAll d0 kvs) = Dict.keys d0 := by
  induction kvs generalizing d0 with
  | nil => rfl
  | cons kv kvs ih =>
    rw [setAll_cons]
    have hk : Dict.keys (d0.set kv.1 kv.2) = Dict.keys d0 :=
      keys_set_of_mem _ _ _ (h kv.1 List.mem_cons_self)
    rw [ih _ (fun k hk' => by rw [hk]; exact h k (List.mem_cons_of_mem _ hk')), hk]

theorem WF_filter (d : Dict) (p : Str × Option Str → Bool) (h : Dict.WF d) : Dict.WF (d.filter p) := by
  unfold Dict.WF Dict.keys at *
  exact h.sublist (List.filter_sublist.map _)

/-! ### SM → SSC in closed form -/

theorem copyCharts_toSSC (charts : List (Dict × Option (List Str))) (ct : Option (Dict × Option (List Str)))
    (beh : List (Nat × Nat)) :
    charts.mapM (convChart true ct beh) =
      .ok (charts.map fun c => (setAll (chartStartOf true ct).1 c.1, (chartStartOf true ct).2)) := by
  apply mapM_ok_of_forall
  intro c _
  have hc : invChartOf true = [] := by decide
  rw [convChart_eq, hc]
  show (match copyProperties false c.1 (chartStartOf true ct).1 [] beh with
    | .error e => Except.error e
    | .ok d => Except.ok (d, (chartStartOf true ct).2)) = _
  rw [copyProperties_nil_invalid]

theorem convert_toSSC (sm : AnySimfile) (st : Option AnySimfile) (ct : Option (Dict × Option (List Str)))
    (beh : List (Nat × Nat)) (hw : convertWarps sm = .ok ()) :
    convert sm true st ct beh = .ok
      { isSSC := true,
        props := setAll (startOf true st).props sm.props,
        charts := (startOf true st).charts ++
          sm.charts.map fun c => (setAll (chartStartOf true ct).1 c.1, (chartStartOf true ct).2) } := by
  have hi : invSimOf true = [] := by decide
  rw [convert_eq, hw, hi, copyProperties_nil_invalid, copyCharts_toSSC]

/-! ### facts read off the generated tables -/

/-- every item of the blank SSC simfile is either copied to SM or silently skipped: each SSC-only key of the
template is of an ignored kind or carries exactly its table default -/
theorem blank_ssc_props_ok :
    ∀ kv ∈ T.blankSSCSimfile, shouldCopy kv.1 kv.2 T.invalidSMSimfile [] = .ok true ∨
      shouldCopy kv.1 kv.2 T.invalidSMSimfile [] = .ok false := by decide +kernel

/-- every item of the blank SSC chart is one of the six SM fields (and then copied) or silently skipped -/
theorem blank_ssc_chart_ok :
    ∀ kv ∈ T.blankSSCChart, (kv.1 ∈ T.smChartProperties ∧ shouldCopy kv.1 kv.2 T.invalidSMChart [] = .ok true) ∨
      shouldCopy kv.1 kv.2 T.invalidSMChart [] = .ok false := by decide +kernel

theorem six_not_listed : ∀ k ∈ T.smChartProperties, listedIn T.invalidSMChart k = none := by decide +kernel

theorem blank_wf : Dict.WF T.blankSSCSimfile ∧ Dict.WF T.blankSSCChart ∧ Dict.WF T.blankSMSimfile ∧
    Dict.WF T.blankSMChart := by
  unfold Dict.WF; decide +kernel

theorem blank_sm_chart_keys : Dict.keys T.blankSMChart = T.smChartProperties := by decide +kernel

theorem blank_ssc_warps : (Dict.get? T.blankSSCSimfile ['W','A','R','P','S']).join = some [] ∧
    Listed T.invalidSMSimfile ['W','A','R','P','S'] := by decide +kernel

/-! ### SSC → SM of a converted SM simfile -/

/-- copying back the properties of `blank SSC + source`, when the source has no SSC-only key -/
theorem copy_back_props (props : Dict) (hwf : Dict.WF props)
    (hn : ∀ k ∈ Dict.keys props, ¬ Listed T.invalidSMSimfile k) :
    ∃ out, copyProperties false (setAll T.blankSSCSimfile props) T.blankSMSimfile T.invalidSMSimfile [] = .ok out ∧
      ∀ kv ∈ props, out.get? kv.1 = some kv.2 := by
  have hacc : ∀ k ∈ Dict.keys props, ∀ v, shouldCopy k v T.invalidSMSimfile [] = .ok true := by
    intro k hk v
    apply shouldCopy_not_listed
    cases hl : listedIn T.invalidSMSimfile k with
    | none => rfl
    | some e => exact absurd ((listedIn_ne_none _ _).mp (by rw [hl]; simp)) (hn k hk)
  refine ⟨_, copyProperties_ok false _ _ _ _ ?_ (fun h => by cases h), ?_⟩
  · intro kv hkv
    rcases mem_setAll _ _ _ hkv with h | h
    · exact ⟨true, hacc kv.1 h kv.2⟩
    · rcases blank_ssc_props_ok kv h with h | h
      · exact ⟨true, h⟩
      · exact ⟨false, h⟩
  · intro kv hkv
    have hwf' : Dict.WF (setAll T.blankSSCSimfile props) := WF_setAll _ _ blank_wf.1
    have hm : kv ∈ setAll T.blankSSCSimfile props :=
      mem_of_get? _ _ _ (get?_setAll_of_mem_WF _ _ kv hwf hkv)
    have ha : accepted T.invalidSMSimfile [] kv = true := by
      unfold accepted
      rw [hacc kv.1 (List.mem_map.mpr ⟨kv, hkv, rfl⟩) kv.2]
    exact get?_setAll_of_mem_WF _ _ kv (WF_filter _ _ hwf') (List.mem_filter.mpr ⟨hm, ha⟩)

/-- copying back one chart -/
theorem copy_back_chart (c : Dict) (hwf : Dict.WF c) (hk : ∀ k ∈ Dict.keys c, k ∈ T.smChartProperties) :
    ∃ out, copyProperties true (setAll T.blankSSCChart c) T.blankSMChart T.invalidSMChart [] = .ok out ∧
      Dict.keys out = T.smChartProperties ∧ ∀ kv ∈ c, out.get? kv.1 = some kv.2 := by
  have hacc : ∀ k ∈ Dict.keys c, ∀ v, shouldCopy k v T.invalidSMChart [] = .ok true :=
    fun k hk' v => shouldCopy_not_listed _ _ _ _ (six_not_listed k (hk k hk'))
  have hsix : ∀ kv ∈ setAll T.blankSSCChart c, accepted T.invalidSMChart [] kv = true → kv.1 ∈ T.smChartProperties := by
    intro kv hkv ha
    rcases mem_setAll _ _ _ hkv with h | h
    · exact hk _ h
    · rcases blank_ssc_chart_ok kv h with h | h
      · exact h.1
      · unfold accepted at ha; rw [h] at ha; cases ha
  refine ⟨_, copyProperties_ok true _ _ _ _ ?_ (fun _ => hsix), ?_, ?_⟩
  · intro kv hkv
    rcases mem_setAll _ _ _ hkv with h | h
    · exact ⟨true, hacc kv.1 h kv.2⟩
    · rcases blank_ssc_chart_ok kv h with h | h
      · exact ⟨true, h.2⟩
      · exact ⟨false, h⟩
  · rw [keys_setAll_of_subset, blank_sm_chart_keys]
    intro k hk'
    rw [blank_sm_chart_keys]
    obtain ⟨kv, hkv, rfl⟩ := List.mem_map.mp hk'
    obtain ⟨hkv, ha⟩ := List.mem_filter.mp hkv
    exact hsix kv hkv ha
  · intro kv hkv
    have hwf' : Dict.WF (setAll T.blankSSCChart c) := WF_setAll _ _ blank_wf.2.1
    have hm : kv ∈ setAll T.blankSSCChart c := mem_of_get? _ _ _ (get?_setAll_of_mem_WF _ _ kv hwf hkv)
    have ha : accepted T.invalidSMChart [] kv = true := by
      unfold accepted
      rw [hacc kv.1 (List.mem_map.mpr ⟨kv, hkv, rfl⟩) kv.2]
    exact get?_setAll_of_mem_WF _ _ kv (WF_filter _ _ hwf') (List.mem_filter.mpr ⟨hm, ha⟩)

/-- the chart `ssc_to_sm` makes of an SSC chart (default arguments), when it succeeds -/
def backChart (c' : Dict × Option (List Str)) : Dict × Option (List Str) :=
  match copyProperties true c'.1 T.blankSMChart T.invalidSMChart [] with
  | .ok d => (d, none)
  | .error _ => ([], none)

theorem convChart_back (c' : Dict × Option (List Str)) (out : Dict)
    (h : copyProperties true c'.1 T.blankSMChart T.invalidSMChart [] = .ok out) :
    convChart false none [] c' = .ok (backChart c') ∧ (backChart c').1 = out := by
  have h' : copyProperties (!false) c'.1 (chartStartOf false none).1 (invChartOf false) [] = .ok out := h
  rw [convChart_eq, h']
  unfold backChart
  rw [h]
  exact ⟨rfl, rfl⟩

/-- SSC → SM of `blank SSC + an SM simfile without SSC-only keys`, default arguments -/
theorem convert_back (props : Dict) (charts : List (Dict × Option (List Str))) (hwf : Dict.WF props)
    (hn : ∀ k ∈ Dict.keys props, ¬ Listed T.invalidSMSimfile k)
    (hc : ∀ c ∈ charts, Dict.WF c.1 ∧ ∀ k ∈ Dict.keys c.1, k ∈ T.smChartProperties) :
    ∃ out back,
      convert { isSSC := true, props := setAll T.blankSSCSimfile props,
                charts := charts.map fun c => (setAll T.blankSSCChart c.1, none) } false none none [] =
        .ok { isSSC := false, props := out, charts := charts.map back } ∧
      (∀ kv ∈ props, out.get? kv.1 = some kv.2) ∧
      ∀ c ∈ charts, Dict.keys (back c).1 = T.smChartProperties ∧ ∀ kv ∈ c.1, (back c).1.get? kv.1 = some kv.2 := by
  obtain ⟨out, ho, hg⟩ := copy_back_props props hwf hn
  refine ⟨out, fun c => backChart (setAll T.blankSSCChart c.1, none), ?_, hg, ?_⟩
  · rw [convert_eq, convertWarps_ssc _ rfl]
    have hw : (Dict.get? (setAll T.blankSSCSimfile props) ['W','A','R','P','S']).join = some [] := by
      rw [get?_setAll_of_not_mem, blank_ssc_warps.1]
      intro kv hkv e
      exact hn _ (List.mem_map.mpr ⟨kv, hkv, rfl⟩) (e ▸ blank_ssc_warps.2)
    simp only [hw]
    have ho' : copyProperties false (setAll T.blankSSCSimfile props) (startOf false none).props (invSimOf false) [] =
        .ok out := ho
    rw [ho']
    simp only []
    have hm : (charts.map fun c => ((setAll T.blankSSCChart c.1, none) : Dict × Option (List Str))).mapM
        (convChart false none []) =
        .ok ((charts.map fun c => ((setAll T.blankSSCChart c.1, none) : Dict × Option (List Str))).map backChart) := by
      apply mapM_ok_of_forall
      intro c' hc'
      obtain ⟨c, hcm, rfl⟩ := List.mem_map.mp hc'
      obtain ⟨o, hco, _⟩ := copy_back_chart c.1 (hc c hcm).1 (hc c hcm).2
      exact (convChart_back _ o hco).1
    rw [hm, List.map_map]
    rfl
  · intro c hcm
    obtain ⟨o, hco, hk, hv⟩ := copy_back_chart c.1 (hc c hcm).1 (hc c hcm).2
    have := (convChart_back (setAll T.blankSSCChart c.1, none) o hco).2
    simp only [this]
    exact ⟨hk, hv⟩

end Simfile.Cv
