/-
`getColumns` never answers 0 on a text that `decodeWith` accepts: a column count of 0 means that the
first line of the first measure starts with a keysound bracket, and such a line is unreadable.
-/
import Simfile.Lemmas.NotesAny
namespace Simfile
namespace Any
open Simfile

theorem space_of_lineBreak {c : Char} (h : pyIsLineBreak c = true) : pyIsSpace c = true := by
  simp only [pyIsLineBreak, pyIsSpace, Bool.or_eq_true, decide_eq_true_eq, Bool.and_eq_true] at *
  omega

/-! ### head characters -/

theorem head?_rstrip_of_not_space {c : Char} {r : Str} (hc : pyIsSpace c = false) :
    ∃ r', rstrip (c :: r) = c :: r' := by
  obtain ⟨ws, e, hws⟩ := rstrip_decomp (c :: r)
  cases hr : rstrip (c :: r) with
  | nil =>
    rw [hr] at e
    have : c ∈ ws := by rw [← List.nil_append ws, ← e]; simp
    rw [hws c this] at hc; cases hc
  | cons d r' =>
    rw [hr] at e
    simp only [List.cons_append, List.cons.injEq] at e
    exact ⟨r', by rw [e.1]⟩

/-- the first non-white character of `s`, if any, is the first character of `strip s` -/
theorem head?_strip (s : Str) : (strip s).head? = (lstrip s).head? := by
  unfold strip
  cases h : lstrip s with
  | nil => rfl
  | cons c r =>
    have hc : pyIsSpace c = false := head?_lstrip s c (by rw [h]; rfl)
    obtain ⟨r', e⟩ := head?_rstrip_of_not_space (r := r) hc
    rw [e]; rfl

theorem strip_cons_of_not_space {c : Char} {r : Str} (hc : pyIsSpace c = false) :
    ∃ r', strip (c :: r) = c :: r' := by
  unfold strip
  rw [lstrip_cons_of_not_space hc]
  exact head?_rstrip_of_not_space hc

theorem splitLines_cons_of_not_space {c : Char} {r : Str} (hc : pyIsSpace c = false) :
    ∃ l ls, splitLines (c :: r) = (c :: l) :: ls := by
  have hlb : pyIsLineBreak c = false := by
    cases h : pyIsLineBreak c with
    | false => rfl
    | true => rw [space_of_lineBreak h] at hc; cases hc
  rw [splitLines_cons_noLB hlb]
  cases splitLines r with
  | nil => exact ⟨[], [], rfl⟩
  | cons l ls => exact ⟨l, ls, rfl⟩

/-- `lstrip` commutes with cutting at the first character that fails `q`, when white passes `q` -/
theorem lstrip_takeWhile (q : Char → Bool) (hq : ∀ c, pyIsSpace c = true → q c = true) (s : Str) :
    lstrip (s.takeWhile q) = (lstrip s).takeWhile q := by
  induction s with
  | nil => rfl
  | cons c r ih =>
    cases hc : pyIsSpace c with
    | true =>
      rw [List.takeWhile_cons, hq c hc]
      simp only [if_true]
      have e1 : lstrip (c :: List.takeWhile q r) = lstrip (List.takeWhile q r) := by
        simp [lstrip, hc]
      have e2 : lstrip (c :: r) = lstrip r := by simp [lstrip, hc]
      rw [e1, e2, ih]
    | false =>
      rw [lstrip_cons_of_not_space hc, List.takeWhile_cons]
      cases q c with
      | true => simp only [if_true]; rw [lstrip_cons_of_not_space hc]
      | false => rfl

theorem head?_takeWhile {α} (q : α → Bool) (s : List α) (c : α) (h : (s.takeWhile q).head? = some c) :
    s.head? = some c ∧ q c = true := by
  cases s with
  | nil => simp at h
  | cons d r =>
    rw [List.takeWhile_cons] at h
    cases hq : q d with
    | true => rw [hq] at h; simp only [if_true, List.head?_cons, Option.some.injEq] at h; subst h; exact ⟨rfl, hq⟩
    | false => rw [hq] at h; simp at h

theorem head?_takeWhile_of {α} (q : α → Bool) (s : List α) (c : α) (h : s.head? = some c) (hq : q c = true) :
    (s.takeWhile q).head? = some c := by
  cases s with
  | nil => simp at h
  | cons d r =>
    simp only [List.head?_cons, Option.some.injEq] at h; subst h
    rw [List.takeWhile_cons, hq]; rfl

theorem head_splitOn (sep : Char) (s : Str) :
    ∃ rest, splitOn sep s = s.takeWhile (fun d => d != sep) :: rest := by
  induction s with
  | nil => exact ⟨[], rfl⟩
  | cons c r ih =>
    by_cases h : c = sep
    · subst h; exact ⟨splitOn c r, by simp [splitOn]⟩
    · obtain ⟨rest, e⟩ := ih
      have hne : (c != sep) = true := by simpa using h
      rw [splitOn_cons_ne h, e, List.takeWhile_cons, hne]
      exact ⟨rest, rfl⟩

/-! ### a line that starts with '[' is unreadable -/

theorem extract_bracket_first (f : Nat) (y : Str) (ks : List (Option Nat)) (r : Str × List (Option Nat)) :
    extractKeysounds true (f + 1) ('[' :: y) ks ≠ .ok r := by
  rw [extractKeysounds]
  have h0 : findIdx '[' ('[' :: y) = some 0 := by simp [findIdx]
  rw [h0]
  simp only
  cases hj : findIdx ']' ('[' :: y) with
  | none => intro h; cases h
  | some j =>
    simp only
    split
    · intro h; cases h
    · split
      · intro h; cases h
      · simp

theorem not_lineOK_bracket (cols : Nat) (x : Str) : ¬ LineOK cols ('[' :: x) := by
  rintro ⟨cells, ks, h, _⟩
  unfold lineCells at h
  obtain ⟨y, e⟩ := strip_cons_of_not_space (c := '[') (r := x) (by decide)
  rw [e] at h
  exact extract_bracket_first _ _ _ _ h

/-- if the first non-white character of the first measure of the first player is '[', the text is
not accepted -/
theorem not_accepts_of_bracket (cols : Nat) (t : Str) (h : (lstrip t).head? = some '[') : ¬ Accepts cols t := by
  intro hacc
  obtain ⟨rest1, e1⟩ := head_splitOn '&' t
  obtain ⟨rest2, e2⟩ := head_splitOn ',' (t.takeWhile (fun d => d != '&'))
  have hq1 : ∀ c, pyIsSpace c = true → (c != '&') = true := by
    intro c hc; have := (space_props hc).2.2.2; simpa using this
  have hq2 : ∀ c, pyIsSpace c = true → (c != ',') = true := by
    intro c hc; have := (space_props hc).2.2.1; simpa using this
  have h1 : (lstrip (t.takeWhile (fun d => d != '&'))).head? = some '[' := by
    rw [lstrip_takeWhile _ hq1]; exact head?_takeWhile_of _ _ _ h (by decide)
  have h2 : (lstrip ((t.takeWhile (fun d => d != '&')).takeWhile (fun d => d != ','))).head? = some '[' := by
    rw [lstrip_takeWhile _ hq2]; exact head?_takeWhile_of _ _ _ h1 (by decide)
  rw [← head?_strip] at h2
  generalize hmt : (t.takeWhile (fun d => d != '&')).takeWhile (fun d => d != ',') = mt at h2 e2
  have hline := hacc (t.takeWhile (fun d => d != '&')) (by rw [e1]; simp) mt (by rw [e2]; simp)
  cases hs : strip mt with
  | nil => rw [hs] at h2; simp at h2
  | cons c r =>
    rw [hs] at h2 hline
    simp only [List.head?_cons, Option.some.injEq] at h2; subst h2
    obtain ⟨l, ls, e⟩ := splitLines_cons_of_not_space (c := '[') (r := r) (by decide)
    rw [e] at hline
    exact not_lineOK_bracket cols l (hline _ (by simp))

/-! ### `getColumns = 0` -/

/-- cutting brackets out of a non-empty line leaves nothing only if the line starts with '[' -/
theorem extract_nil (fuel : Nat) : ∀ (line : Str) (ks ks' : List (Option Nat)),
    extractKeysounds false fuel line ks = .ok ([], ks') → line = [] ∨ line.head? = some '[' := by
  induction fuel with
  | zero =>
    intro line ks ks' h
    rw [extractKeysounds] at h
    split at h
    · cases h
    · simp only [Except.ok.injEq, Prod.mk.injEq] at h; exact Or.inl h.1
  | succ f ih =>
    intro line ks ks' h
    rw [extractKeysounds] at h
    cases hi : findIdx '[' line with
    | none => rw [hi] at h; simp only [Except.ok.injEq, Prod.mk.injEq] at h; exact Or.inl h.1
    | some i =>
      rw [hi] at h
      simp only at h
      cases hj : findIdx ']' line with
      | none => rw [hj] at h; cases h
      | some j =>
        rw [hj] at h
        simp only at h
        split at h
        · cases h
        · split at h
          · cases h
          · simp only [Bool.false_and, Bool.false_eq_true, if_false] at h
            have hi' := (findIdx_eq_some hi).2
            cases i with
            | zero =>
              right
              cases line with
              | nil => simp at hi'
              | cons c r => simpa using hi'
            | succ i =>
              cases line with
              | nil => simp at hi'
              | cons c r =>
                rcases ih _ _ _ h with h' | h'
                · simp at h'
                · right; simpa using h'

theorem firstMeasure_cases (t : Str) :
    Spec.firstMeasure t = t.takeWhile (fun d => d != ',') ∨ (t.head? = some ',' ∧ Spec.firstMeasure t = t) := by
  unfold Spec.firstMeasure
  have key := findIdx_takeWhile ',' t
  cases h : findIdx ',' t with
  | none => rw [h] at key; left; exact key
  | some i =>
    rw [h] at key
    cases i with
    | zero =>
      right
      have := (findIdx_eq_some h).2
      cases t with
      | nil => simp at this
      | cons c r => exact ⟨by simpa using this, rfl⟩
    | succ i => left; exact key

/-- a column count of 0 means the text starts (after white) with a keysound bracket -/
theorem bracket_of_getColumns_zero (t : Str) (h : getColumns t = .ok 0) : (lstrip t).head? = some '[' := by
  rw [Spec.getColumns_eq] at h
  unfold Spec.getColumnsOf at h
  have hfm : (lstrip (Spec.firstMeasure t)).head? = some '[' := by
    rw [← head?_strip]
    have htr := (strip_trimmed (Spec.firstMeasure t)).1
    cases hs : strip (Spec.firstMeasure t) with
    | nil => rw [hs] at h; simp [splitLines] at h
    | cons c r =>
      rw [hs] at h htr
      have hc : pyIsSpace c = false := htr c rfl
      obtain ⟨l, ls, e⟩ := splitLines_cons_of_not_space (r := r) hc
      rw [e] at h
      simp only at h
      obtain ⟨y, ey⟩ := strip_cons_of_not_space (r := l) hc
      rw [ey] at h
      split at h
      · rename_i line' ks' hex
        simp only [Except.ok.injEq, List.length_eq_zero_iff] at h
        subst h
        rcases extract_nil _ _ _ _ hex with h' | h'
        · cases h'
        · simp only [List.head?_cons, Option.some.injEq] at h' ⊢; exact h'
      · cases h
  rcases firstMeasure_cases t with e | ⟨hh, e⟩
  · rw [e, lstrip_takeWhile] at hfm
    · exact (head?_takeWhile _ _ _ hfm).1
    · intro c hc; have := (space_props hc).2.2.1; simpa using this
  · rw [e] at hfm
    cases t with
    | nil => simp at hh
    | cons c r =>
      simp only [List.head?_cons, Option.some.injEq] at hh; subst hh
      rw [lstrip_cons_of_not_space (by decide)] at hfm
      simp at hfm

/-- **the column count of an accepted text is positive** -/
theorem columns_pos_of_decode {t : Str} {cols : Nat} {ns : List Note}
    (hc : getColumns t = .ok cols) (hd : decodeWith cols t = .ok ns) : 1 ≤ cols := by
  rcases Nat.eq_zero_or_pos cols with h0 | h
  · subst h0
    exact absurd ((decodeWith_ok_iff 0 t ns).mp hd).1 (not_accepts_of_bracket 0 t (bracket_of_getColumns_zero t hc))
  · exact h

end Any
end Simfile
