/-
C12 helper: the state list by index (consecutive states, keys, invariant, sorted times) and the state
selected by the searches on the state times (`Engine.priorByTime`).
-/
import Simfile.Lemmas.EngineMain
namespace Simfile
open C11

variable {td : TimingData}

/-! ### consecutive states -/

theorem run_cons_succ (s : TState) : ∀ (es : List TEvent) (k : Nat) (y : TState),
    (s :: run s es)[k]? = some y → ∀ hk : k < es.length,
    (s :: run s es)[k + 1]? = some (advance y es[k]) := by
  intro es
  induction es generalizing s with
  | nil => intro k y _ hk; exact absurd hk (Nat.not_lt_zero _)
  | cons e es ih =>
    intro k y hy hk
    cases k with
    | zero =>
      simp only [List.getElem?_cons_zero, Option.some.injEq] at hy
      subst hy
      simp [run]
    | succ k =>
      rw [List.getElem?_cons_succ] at hy ⊢
      simp only [run] at hy ⊢
      have := ih (advance s e) k y hy (by simpa using hk)
      simpa using this

theorem states_length (td : TimingData) : (states td).length = (events td).length + 1 := by
  rw [states_eq_run, List.length_cons, run_length]

theorem states_zero (td : TimingData) : (states td)[0]? = some (initState td) := by
  rw [states_eq_run]; rfl

theorem states_succ (td : TimingData) (k : Nat) (y : TState) (hy : (states td)[k]? = some y)
    (hk : k < (events td).length) : (states td)[k + 1]? = some (advance y (events td)[k]) := by
  rw [states_eq_run] at hy ⊢
  exact run_cons_succ _ _ k y hy hk

theorem states_get (td : TimingData) (k : Nat) (hk : k < (events td).length + 1) :
    ∃ y, (states td)[k]? = some y := by
  have : k < (states td).length := by rw [states_length]; exact hk
  exact ⟨_, List.getElem?_eq_getElem this⟩

theorem states_lt_of_get {k : Nat} {y : TState} (hy : (states td)[k]? = some y) :
    k < (events td).length + 1 := by
  rw [← states_length]
  exact (List.getElem?_eq_some_iff.1 hy).1

/-- the state at index `j+1` is the one appended for event `j` -/
theorem states_event (hd : Dom td) (j : Nat) (hj : j < (events td).length) :
    ∃ z, (states td)[j + 1]? = some z ∧ StInv td z ∧ z.beat = (events td)[j].beat ∧
      z.tag = (events td)[j].tag ∧ z.value = (events td)[j].value ∧ skey z = ekey (events td)[j] := by
  obtain ⟨y, hy⟩ := states_get td j (by omega)
  have hz := states_succ td j y hy hj
  refine ⟨_, hz, ?_, rfl, rfl, rfl, rfl⟩
  apply states_inv hd
  rw [states_eq_run, List.getElem?_cons_succ] at hz
  exact List.mem_of_getElem? hz

/-- a state at a positive index is an event state -/
theorem states_pos (hd : Dom td) (k : Nat) (y : TState) (hy : (states td)[k + 1]? = some y) :
    ∃ hk : k < (events td).length, StInv td y ∧ y.beat = (events td)[k].beat ∧
      y.tag = (events td)[k].tag ∧ y.value = (events td)[k].value ∧ skey y = ekey (events td)[k] := by
  have hk : k < (events td).length := by have := states_lt_of_get hy; omega
  obtain ⟨z, hz, h1, h2, h3, h4, h5⟩ := states_event hd k hk
  rw [hy] at hz
  obtain rfl := Option.some.inj hz
  exact ⟨hk, h1, h2, h3, h4, h5⟩

theorem events_key_lt (hd : Dom td) {i j : Nat} (hi : i < (events td).length) (hj : j < (events td).length)
    (h : i < j) : ekey (events td)[i] < ekey (events td)[j] :=
  List.pairwise_iff_getElem.1 (ssorted_events td hd) i j hi hj h

theorem events_key_le (hd : Dom td) {i j : Nat} (hi : i < (events td).length) (hj : j < (events td).length)
    (h : i ≤ j) : ekey (events td)[i] ≤ ekey (events td)[j] := by
  rcases Nat.lt_or_eq_of_le h with h | rfl
  · exact le_of_lt (events_key_lt hd hi hj h)
  · exact le_refl _

theorem events_idx_lt (hd : Dom td) {i j : Nat} (hi : i < (events td).length) (hj : j < (events td).length)
    (h : ekey (events td)[i] < ekey (events td)[j]) : i < j := by
  by_contra hc
  exact lt_irrefl _ (lt_of_lt_of_le h (events_key_le hd hj hi (by omega)))

/-! ### the state times never decrease -/

theorem timeSpec_zero_warp (hd : Dom td) : Spec.timeSpec td 0 .warp = -td.offset := by
  rw [timeSpec_eq, paused_eq_K, pausedK_low hd (key_lt.2 (Or.inr ⟨rfl, by simp⟩)), travel_zero]
  ring

theorem init_time_le (hd : Dom td) (s : TState) (hs : StInv td s) : (initState td).time ≤ s.time := by
  rw [hs.time]
  show -td.offset ≤ _
  rw [← timeSpec_zero_warp hd]
  apply timeSpec_mono td hd
  apply key_le.2
  rcases lt_or_eq_of_le hs.nonneg with h | h
  · exact Or.inl h
  · exact Or.inr ⟨h, by simp⟩

theorem run_keys_sorted (hd : Dom td) :
    (run (initState td) (events td)).Pairwise (fun a b => skey a < skey b) := by
  have h := ssorted_events td hd
  unfold SSorted at h
  rw [← List.pairwise_map (f := ekey) (R := (· < ·)), ← run_keys (initState td), List.pairwise_map] at h
  exact h

theorem times_sorted (hd : Dom td) : (states td).Pairwise (fun a b => a.time ≤ b.time) := by
  rw [states_eq_run, List.pairwise_cons]
  have hinv := states_inv hd
  constructor
  · intro s hs; exact init_time_le hd s (hinv s hs)
  · apply (run_keys_sorted hd).imp_of_mem
    intro a b ha hb hab
    rw [(hinv a ha).time, (hinv b hb).time]
    exact timeSpec_mono td hd (le_of_lt hab)

theorem times_le (hd : Dom td) {i j : Nat} {a b : TState} (hij : i ≤ j) (ha : (states td)[i]? = some a)
    (hb : (states td)[j]? = some b) : a.time ≤ b.time := by
  obtain ⟨hi, rfl⟩ := List.getElem?_eq_some_iff.1 ha
  obtain ⟨hj, rfl⟩ := List.getElem?_eq_some_iff.1 hb
  rcases Nat.lt_or_eq_of_le hij with h | h
  · exact List.pairwise_iff_getElem.1 (times_sorted hd) i j hi hj h
  · subst h; exact le_refl _

theorem beats_le (hd : Dom td) {i j : Nat} {a b : TState} (hij : i ≤ j) (ha : (states td)[i]? = some a)
    (hb : (states td)[j]? = some b) : a.beat ≤ b.beat := by
  cases j with
  | zero =>
    have : i = 0 := by omega
    subst this
    rw [ha] at hb; rw [Option.some.inj hb]
  | succ j =>
    obtain ⟨hj, hinvb, _, _, _, hkb⟩ := states_pos hd j b hb
    cases i with
    | zero =>
      rw [states_zero] at ha
      rw [← Option.some.inj ha]
      exact hinvb.nonneg
    | succ i =>
      obtain ⟨hi, _, _, _, _, hka⟩ := states_pos hd i a ha
      have := events_key_le hd hi hj (by omega)
      rw [← hka, ← hkb] at this
      exact beat_le_of_key_le this

/-! ### the search on the state times -/

theorem bisectLeft_eq_right {α} (ylt : α → Bool) (a : Array α) :
    ∀ fuel lo hi, bisectLeftLoop ylt a fuel lo hi = bisectRightLoop (fun y => !ylt y) a fuel lo hi := by
  intro fuel
  induction fuel with
  | zero => intro lo hi; rfl
  | succ fuel ih =>
    intro lo hi
    unfold bisectLeftLoop bisectRightLoop
    by_cases hlt : lo < hi
    · simp only [hlt, if_true]
      cases a[(lo + hi) / 2]? with
      | none => rfl
      | some y =>
        simp only
        cases ylt y <;> simp [ih]
    · simp only [hlt, if_false]

/-- "the state time is at or before t" for the two searches (`w`: the WARP tag, bisect_left) -/
def R1 (w : Bool) (a t : Rat) : Prop := if w then a < t else a ≤ t
/-- "t is before the state time" for the two searches -/
def R2 (w : Bool) (t a : Rat) : Prop := if w then t ≤ a else t < a

theorem R1_le {w : Bool} {a t : Rat} (h : R1 w a t) : a ≤ t := by
  cases w
  · exact h
  · exact le_of_lt h
theorem R2_le {w : Bool} {a t : Rat} (h : R2 w t a) : t ≤ a := by
  cases w
  · exact le_of_lt h
  · exact h
theorem R12_contra {w : Bool} {a t t' : Rat} (h1 : R1 w a t) (htt : t ≤ t') (h2 : R2 w t' a) : False := by
  cases w
  · have h1' : a ≤ t := h1
    have h2' : t' < a := h2
    linarith
  · have h1' : a < t := h1
    have h2' : t' ≤ a := h2
    linarith
theorem R2_mono {w : Bool} {a b t : Rat} (h : R2 w t a) (hab : a ≤ b) : R2 w t b := by
  cases w
  · exact lt_of_lt_of_le h hab
  · exact le_trans h hab

/-- the test used by `priorByTime`, as one `bisect_right`-style test -/
def timeTest (w : Bool) (t : Rat) (s : TState) : Bool :=
  if w then !decide (s.time < t) else decide (t < s.time)

theorem timeTest_true {w : Bool} {t : Rat} {s : TState} : timeTest w t s = true ↔ R2 w t s.time := by
  cases w <;> simp [timeTest, R2]
theorem timeTest_false {w : Bool} {t : Rat} {s : TState} : timeTest w t s = false ↔ R1 w s.time t := by
  cases w <;> simp [timeTest, R1]

theorem priorByTime_eq (td : TimingData) (t : Rat) (g : Tag) :
    (mkEngine td).priorByTime t g =
      ((states td)[bisectRightLoop (timeTest (decide (g = .warp)) t) (states td).toArray
        ((states td).toArray.size + 1) 0 (states td).toArray.size - 1]?).getD (initState td) := by
  simp only [Engine.priorByTime, mkEngine, Array.getD_eq_getD_getElem?, List.getElem?_toArray]
  by_cases hg : g = .warp
  · simp only [hg, if_true, bisectLeft_eq_right, decide_true]
    rfl
  · simp only [hg, if_false, decide_false]
    rfl

/-- the selected state by index: at index `k`, at or before `t` unless `k = 0`, and every later state
is after `t` -/
theorem priorByTime_sel (hd : Dom td) (t : Rat) (g : Tag) :
    ∃ k y, (states td)[k]? = some y ∧ (mkEngine td).priorByTime t g = y ∧
      (k = 0 ∨ R1 (decide (g = .warp)) y.time t) ∧
      ∀ j z, k < j → (states td)[j]? = some z → R2 (decide (g = .warp)) t z.time := by
  rw [priorByTime_eq]
  obtain ⟨h1, h2, h3⟩ := bisect_boundary (timeTest (decide (g = .warp)) t) (states td)
  generalize bisectRightLoop (timeTest (decide (g = .warp)) t) (states td).toArray
        ((states td).toArray.size + 1) 0 (states td).toArray.size = r at h1 h2 h3 ⊢
  have hlen := states_length td
  cases r with
  | zero =>
    refine ⟨0, initState td, states_zero td, by rw [states_zero]; rfl, Or.inl rfl, ?_⟩
    intro j z hj hz
    rcases h3 with h3 | ⟨y, hy, hlt⟩
    · omega
    · rw [states_zero] at hy
      obtain rfl := Option.some.inj hy
      exact R2_mono (timeTest_true.1 hlt) (times_le hd (Nat.zero_le j) (states_zero td) hz)
  | succ k =>
    obtain ⟨y, hy⟩ := states_get td k (by omega)
    refine ⟨k, y, hy, by simp [hy], ?_, ?_⟩
    · rcases h2 with h2 | ⟨y', hy', hnlt⟩
      · omega
      · simp only [Nat.add_sub_cancel] at hy'
        rw [hy] at hy'
        obtain rfl := Option.some.inj hy'
        exact Or.inr (timeTest_false.1 hnlt)
    · intro j z hj hz
      rcases h3 with h3 | ⟨y', hy', hlt⟩
      · have := states_lt_of_get hz; omega
      · exact R2_mono (timeTest_true.1 hlt) (times_le hd (by omega) hy' hz)

end Simfile
