/-
Lemmas about the in-memory tree of `Simfile/Model/Tree.lean`: walking (`lookup`), well-formed trees, and the
filesystem calls on normal paths and on the path of an entry.
-/
import Simfile.Model.Tree
import Simfile.Lemmas.TreePath
namespace Simfile.TreeL
open Simfile Simfile.Path Simfile.PathL

/-- equality of outcomes is decidable (for `decide` in examples) -/
instance exceptDecEq {ε α} [DecidableEq ε] [DecidableEq α] : DecidableEq (Except ε α) := fun a b =>
  match a, b with
  | .ok x, .ok y => if h : x = y then isTrue (by rw [h]) else isFalse (fun e => h (by cases e; rfl))
  | .error x, .error y => if h : x = y then isTrue (by rw [h]) else isFalse (fun e => h (by cases e; rfl))
  | .ok _, .error _ => isFalse (fun e => by cases e)
  | .error _, .ok _ => isFalse (fun e => by cases e)

/-! ### walking -/

theorem lookup_append (n : Node) (cs ds : List Str) :
    n.lookup (cs ++ ds) = (n.lookup cs).bind (·.lookup ds) := by
  induction cs generalizing n with
  | nil => rfl
  | cons c cs ih =>
    rw [List.cons_append, Node.lookup, Node.lookup]
    cases n.child c with
    | none => rfl
    | some k => exact ih k

theorem lookup_snoc (n : Node) (cs : List Str) (c : Str) :
    n.lookup (cs ++ [c]) = (n.lookup cs).bind (·.child c) := by
  rw [lookup_append]
  cases n.lookup cs with
  | none => rfl
  | some k =>
    simp only [Option.bind_some, Node.lookup]
    cases k.child c <;> rfl

theorem child_dir (es : List (Str × Node)) (name : Str) :
    (Node.dir es).child name = (es.find? (·.1 = name)).map (·.2) := rfl

/-- the names of a directory are valid and distinct -/
def NamesOk (es : List (Str × Node)) : Prop := (∀ e ∈ es, validName e.1 = true) ∧ (es.map (·.1)).Nodup

theorem child_of_mem {es : List (Str × Node)} (hn : (es.map (·.1)).Nodup) {name : Str} {k : Node}
    (h : (name, k) ∈ es) : (Node.dir es).child name = some k := by
  rw [child_dir]
  induction es with
  | nil => cases h
  | cons e rest ih =>
    rw [List.map_cons, List.nodup_cons] at hn
    rw [List.find?_cons]
    by_cases he : e.1 = name
    · simp only [he, decide_true]
      rcases List.mem_cons.mp h with h | h
      · rw [← h]; rfl
      · exfalso
        apply hn.1
        rw [he]
        exact List.mem_map.mpr ⟨(name, k), h, rfl⟩
    · simp only [he, decide_false]
      rcases List.mem_cons.mp h with h | h
      · exact absurd (by rw [← h]) he
      · exact ih hn.2 h

theorem child_mem {es : List (Str × Node)} {name : Str} {k : Node} (h : (Node.dir es).child name = some k) :
    (name, k) ∈ es := by
  rw [child_dir] at h
  cases hf : es.find? (·.1 = name) with
  | none => rw [hf] at h; cases h
  | some e =>
    rw [hf] at h
    cases h
    have h1 := List.mem_of_find?_eq_some hf
    have h2 : e.1 = name := by simpa using List.find?_some hf
    rw [← h2]
    exact h1

theorem child_isSome_of_mem_names {es : List (Str × Node)} {name : Str} (h : name ∈ es.map (·.1)) :
    ((Node.dir es).child name).isSome = true := by
  rw [child_dir]
  obtain ⟨e, he, rfl⟩ := List.mem_map.mp h
  cases hf : es.find? (·.1 = e.1) with
  | none =>
    rw [List.find?_eq_none] at hf
    exact absurd (hf e he) (by simp)
  | some x => rfl

/-! ### well-formed trees -/

theorem wfList_iff (es : List (Str × Node)) : Node.wfList es = true ↔ ∀ e ∈ es, e.2.wf = true := by
  induction es with
  | nil => simp [Node.wfList]
  | cons e rest ih =>
    obtain ⟨n, k⟩ := e
    rw [Node.wfList, Bool.and_eq_true, ih]
    simp

theorem wfNames_iff (es : List (Str × Node)) (seen : List Str) :
    Node.wfNames es seen = true ↔
      (∀ e ∈ es, validName e.1 = true ∧ e.1 ∉ seen) ∧ (es.map (·.1)).Nodup := by
  induction es generalizing seen with
  | nil => simp [Node.wfNames]
  | cons e rest ih =>
    obtain ⟨n, k⟩ := e
    rw [Node.wfNames, Bool.and_eq_true, Bool.and_eq_true, ih]
    simp only [List.mem_cons, forall_eq_or_imp, List.map_cons, List.nodup_cons, List.mem_map, not_or,
      Bool.not_eq_true', List.contains_eq_mem, decide_eq_false_iff_not]
    constructor
    · rintro ⟨⟨h1, h2⟩, h3, h4⟩
      refine ⟨⟨⟨h1, h2⟩, fun e he => ⟨(h3 e he).1, (h3 e he).2.2⟩⟩, ?_, h4⟩
      rintro ⟨e, he, hen⟩
      exact (h3 e he).2.1 hen
    · rintro ⟨⟨⟨h1, h2⟩, h3⟩, h4, h5⟩
      refine ⟨⟨h1, h2⟩, fun e he => ⟨(h3 e he).1, fun hen => h4 ⟨e, he, hen⟩, (h3 e he).2⟩, h5⟩

theorem wf_dir_iff (es : List (Str × Node)) :
    (Node.dir es).wf = true ↔ NamesOk es ∧ ∀ e ∈ es, e.2.wf = true := by
  rw [Node.wf, Bool.and_eq_true, wfNames_iff, wfList_iff]
  unfold NamesOk
  simp

theorem wf_child {n k : Node} {c : Str} (hw : n.wf = true) (h : n.child c = some k) :
    k.wf = true ∧ validName c = true := by
  cases n with
  | file _ => cases h
  | dir es =>
    have hm := child_mem h
    obtain ⟨⟨hv, _⟩, hk⟩ := (wf_dir_iff es).mp hw
    exact ⟨hk _ hm, hv _ hm⟩

theorem wf_lookup {n k : Node} (hw : n.wf = true) {cs : List Str} (h : n.lookup cs = some k) : k.wf = true := by
  induction cs generalizing n with
  | nil => cases h; exact hw
  | cons c cs ih =>
    rw [Node.lookup] at h
    cases hc : n.child c with
    | none => rw [hc] at h; cases h
    | some m =>
      rw [hc] at h
      exact ih (wf_child hw hc).1 h

/-! ### the filesystem calls -/

theorem resolve_eq {t : Node} {p : Str} {cs : List Str} (h : components p = some cs) :
    resolve t p = .ok (t.lookup cs) := by
  unfold resolve; rw [h]

theorem resolve_ok {t : Node} {p : Str} {r : Option Node} (h : resolve t p = .ok r) :
    ∃ cs, components p = some cs ∧ r = t.lookup cs := by
  unfold resolve at h
  cases hc : components p with
  | none => rw [hc] at h; cases h
  | some cs => rw [hc] at h; cases h; exact ⟨cs, rfl, rfl⟩

/-- a path that resolves has a normal form, which resolves to the same node -/
theorem resolve_normpath {t : Node} {p : Str} {r : Option Node} (h : resolve t p = .ok r) :
    ∃ nd, normpath p = some nd ∧ normpath nd = some nd ∧ resolve t nd = .ok r := by
  obtain ⟨cs, hc, rfl⟩ := resolve_ok h
  have hn : normpath p = some (render (isAbs p) cs) := by unfold normpath; rw [hc]; rfl
  refine ⟨_, hn, normpath_idem hn, ?_⟩
  have := components_of_normpath hn
  rw [hc] at this
  exact resolve_eq this

theorem listdir_of_resolve {t : Node} {p : Str} {es : List (Str × Node)} (h : resolve t p = .ok (some (.dir es))) :
    listdir t p = .ok (es.map (·.1)) := by
  unfold listdir; rw [h]

theorem listdir_ok {t : Node} {p : Str} {l : List Str} (h : listdir t p = .ok l) :
    ∃ es, resolve t p = .ok (some (.dir es)) ∧ l = es.map (·.1) := by
  unfold listdir at h
  cases hr : resolve t p with
  | error e => rw [hr] at h; cases h
  | ok r =>
    rw [hr] at h
    cases r with
    | none => cases h
    | some n =>
      cases n with
      | file _ => cases h
      | dir es => cases h; exact ⟨es, rfl, rfl⟩

theorem isdir_of_resolve {t : Node} {p : Str} {r : Option Node} (h : resolve t p = .ok r) :
    isdir t p = .ok ((r.map (·.isDir)).getD false) := by
  unfold isdir; rw [h]; cases r <;> rfl

theorem exists_of_resolve {t : Node} {p : Str} {r : Option Node} (h : resolve t p = .ok r) :
    exists_ t p = .ok r.isSome := by
  unfold exists_; rw [h]

/-- the path of an entry of a directory resolves to that entry -/
theorem resolve_childPath {t : Node} {nd : Str} (hn : normpath nd = some nd) {f : Str} (hf : validName f = true)
    {r : Option Node} (h : resolve t nd = .ok r) :
    resolve t (childPath nd f) = .ok (r.bind (·.child f)) := by
  obtain ⟨cs, hc, hcc, _⟩ := components_childPath hn hf
  obtain ⟨cs', hc', rfl⟩ := resolve_ok h
  rw [hc] at hc'
  cases hc'
  rw [resolve_eq hcc, lookup_snoc]

end Simfile.TreeL
