/-
C13 helper: `hittable` of the engine against the declarative `Spec.hittableSpec`, and the generic list
facts behind `time_notes`.
-/
import Simfile.Lemmas.EngineMain
namespace Simfile
open C11

variable {td : TimingData}

/-! ### the states of the run copy beat / value / tag of an event -/

theorem run_copies (s : TState) (es : List TEvent) :
    ∀ s' ∈ run s es, ∃ e ∈ es, s'.beat = e.beat ∧ s'.value = e.value ∧ s'.tag = e.tag := by
  induction es generalizing s with
  | nil => intro s' h; exact absurd h List.not_mem_nil
  | cons e es ih =>
    intro s' h
    rw [run] at h
    rcases List.mem_cons.1 h with rfl | h'
    · exact ⟨e, List.mem_cons_self, rfl, rfl, rfl⟩
    · obtain ⟨e', he', h3⟩ := ih _ s' h'
      exact ⟨e', List.mem_cons_of_mem _ he', h3⟩

theorem getD_or_mem {α} (l : List α) (i : Nat) (d : α) : l[i]?.getD d = d ∨ l[i]?.getD d ∈ l := by
  cases h : l[i]? with
  | none => left; rfl
  | some x => right; exact List.mem_of_getElem? h

/-- the selected state is the initial one or a state of the run -/
theorem prior_mem (td : TimingData) (b : Rat) (g : Tag) :
    (mkEngine td).priorState b g = initState td ∨
      (mkEngine td).priorState b g ∈ run (initState td) (events td) := by
  rw [priorState_eq]
  rcases getD_or_mem (states td) (bisectRightLoop (fun (s : TState) => keyLT (b, g) (s.beat, s.tag))
      (states td).toArray ((states td).toArray.size + 1) 0 (states td).toArray.size - 1) (initState td)
    with h | h
  · exact Or.inl h
  · rw [states_eq_run] at h
    rcases List.mem_cons.1 h with h' | h'
    · left; rw [states_eq_run]; exact h'
    · right; rw [states_eq_run]; exact h'

/-- a selected state with an END tag sits on a row of the corresponding list -/
theorem prior_stopEnd (td : TimingData) (b : Rat) (g : Tag)
    (ht : ((mkEngine td).priorState b g).tag = .stopEnd) :
    (((mkEngine td).priorState b g).beat, ((mkEngine td).priorState b g).value) ∈ td.stops := by
  rcases prior_mem td b g with h | h
  · rw [h] at ht; cases ht
  · obtain ⟨e, he, h1, h2, h3⟩ := run_copies _ _ _ h
    rw [h1, h2]
    exact events_stopEnd he (h3 ▸ ht)

theorem prior_delayEnd (td : TimingData) (b : Rat) (g : Tag)
    (ht : ((mkEngine td).priorState b g).tag = .delayEnd) :
    (((mkEngine td).priorState b g).beat, ((mkEngine td).priorState b g).value) ∈ td.delays := by
  rcases prior_mem td b g with h | h
  · rw [h] at ht; cases ht
  · obtain ⟨e, he, h1, h2, h3⟩ := run_copies _ _ _ h
    rw [h1, h2]
    exact events_delayEnd he (h3 ▸ ht)

/-! ### both sides as propositions -/

theorem hit_iff (w : Bool) (P : Prop) [Decidable P] :
    (if (!w) = true then true else if P then true else false) = true ↔ (w = false ∨ P) := by
  cases w <;> by_cases hP : P <;> simp [hP]

theorem hittable_iff (td : TimingData) (b : Rat) :
    hittable td b = true ↔
      (((mkEngine td).priorState b .stopEnd).warp = false ∨
        ((((mkEngine td).priorState b .stopEnd).tag = .stopEnd ∨
          ((mkEngine td).priorState b .stopEnd).tag = .delayEnd) ∧
          b = ((mkEngine td).priorState b .stopEnd).beat)) :=
  hit_iff _ _

theorem hittableSpec_iff (td : TimingData) (b : Rat) :
    Spec.hittableSpec td b = true ↔
      (Spec.inWarp td b = false ∨ (∃ v, (b, v) ∈ td.stops) ∨ (∃ v, (b, v) ∈ td.delays)) := by
  have h1 : ∀ l : List (Rat × Rat), (l.any (·.1 = b)) = true ↔ ∃ v, (b, v) ∈ l := by
    intro l
    rw [List.any_eq_true]
    constructor
    · rintro ⟨x, hx, hxb⟩
      have : x.1 = b := by simpa using hxb
      exact ⟨x.2, by rw [← this]; exact hx⟩
    · rintro ⟨v, hv⟩
      exact ⟨(b, v), hv, by simp⟩
  unfold Spec.hittableSpec
  rw [← h1, ← h1]
  cases Spec.inWarp td b <;> cases (td.stops.any (·.1 = b)) <;> cases (td.delays.any (·.1 = b)) <;> simp

/-! ### negative beats -/

theorem inWarp_neg (hd : Dom td) (b : Rat) (hb : b < 0) : Spec.inWarp td b = false := by
  unfold Spec.inWarp
  rw [List.any_eq_false]
  intro w hw
  have := (hd.warps_grid w hw).1
  simp only [Bool.and_eq_true, decide_eq_true_eq, not_and]
  intro h
  linarith

theorem prior_warp_neg (hd : Dom td) (b : Rat) (hb : b < 0) :
    ((mkEngine td).priorState b .stopEnd).warp = false := by
  rcases prior_cases hd b .stopEnd with ⟨hs, _⟩ | ⟨hinv, hle, _⟩
  · rw [hs]; rfl
  · have h1 := hinv.nonneg
    have h2 := beat_le_of_key_le hle
    linarith

/-! ### beats from 0 on -/

theorem key_zero_le (b : Rat) (hb : 0 ≤ b) : key 0 .bpm ≤ key b .stopEnd := by
  rcases lt_or_eq_of_le hb with h | h
  · exact key_le.2 (Or.inl h)
  · exact key_le.2 (Or.inr ⟨h, by simp⟩)

/-- the warp flag of the selected state is the declarative `inWarp` -/
theorem prior_warp_iff (hd : Dom td) (b : Rat) (hb : 0 ≤ b) :
    ((mkEngine td).priorState b .stopEnd).warp = true ↔ Spec.inWarp td b = true := by
  obtain ⟨hinv, hle, hno⟩ := prior_high hd b .stopEnd (key_zero_le b hb)
  rw [hinv.warp, inWarp_iff_before td hd b .stopEnd (by simp)]
  apply warpBefore_congr td hle
  intro e he _ hh
  rcases hno e he with h1 | h1
  · exact lt_irrefl _ (lt_of_lt_of_le hh.1 h1)
  · exact lt_irrefl _ (lt_of_le_of_lt hh.2 h1)

/-- a stop on the queried beat: the selected state is its STOP_END -/
theorem prior_of_stop (hd : Dom td) (b v : Rat) (hv : (b, v) ∈ td.stops) :
    ((mkEngine td).priorState b .stopEnd).tag = .stopEnd ∧
      b = ((mkEngine td).priorState b .stopEnd).beat := by
  have hb : 0 ≤ b := (hd.stops_grid _ hv).1
  obtain ⟨hinv, hle, hno⟩ := prior_high hd b .stopEnd (key_zero_le b hb)
  have hge : key b .stopEnd ≤ skey ((mkEngine td).priorState b .stopEnd) := by
    rcases hno _ (ev_stopEnd hv) with h1 | h1
    · exact h1
    · exact absurd h1 (lt_irrefl _)
  have heq := key_eq.1 (le_antisymm hle hge)
  exact ⟨heq.2, heq.1.symm⟩

/-- a delay on the queried beat: the selected state is on that beat, with tag DELAY_END or STOP_END -/
theorem prior_of_delay (hd : Dom td) (b v : Rat) (hv : (b, v) ∈ td.delays) :
    (((mkEngine td).priorState b .stopEnd).tag = .stopEnd ∨
      ((mkEngine td).priorState b .stopEnd).tag = .delayEnd) ∧
      b = ((mkEngine td).priorState b .stopEnd).beat := by
  have hb : 0 ≤ b := (hd.delays_grid _ hv).1
  obtain ⟨hinv, hle, hno⟩ := prior_high hd b .stopEnd (key_zero_le b hb)
  have hge : key b .delayEnd ≤ skey ((mkEngine td).priorState b .stopEnd) := by
    rcases hno _ (ev_delayEnd hv) with h1 | h1
    · exact h1
    · exact absurd h1 (not_lt.2 (key_le.2 (Or.inr ⟨rfl, by simp⟩)))
  obtain ⟨hbeat, hlo, _⟩ := key_squeeze hge hle
  refine ⟨?_, hbeat.symm⟩
  cases ht : ((mkEngine td).priorState b .stopEnd).tag
  case stopEnd => exact Or.inl rfl
  case delayEnd => exact Or.inr rfl
  case stop =>
    exfalso
    have hs := hinv.stop ht
    rw [hbeat] at hs
    rcases hno _ (ev_stopEnd hs) with h1 | h1
    · have h2 : skey ((mkEngine td).priorState b .stopEnd) = key b .stop := by
        unfold skey; rw [hbeat, ht]
      rw [h2] at h1
      rcases key_le.1 h1 with h3 | h3
      · exact lt_irrefl _ h3
      · have := h3.2; simp at this
    · exact lt_irrefl _ h1
  all_goals (rw [ht] at hlo; simp at hlo)

/-- C13, the core: the engine's `hittable` is the declarative one on every rational beat -/
theorem hittable_eq_spec (hd : Dom td) (b : Rat) : hittable td b = Spec.hittableSpec td b := by
  rw [Bool.eq_iff_iff, hittable_iff, hittableSpec_iff]
  rcases lt_or_ge b 0 with hb | hb
  · exact iff_of_true (Or.inl (prior_warp_neg hd b hb)) (Or.inl (inWarp_neg hd b hb))
  · have hw := prior_warp_iff hd b hb
    constructor
    · rintro (h | ⟨h1 | h1, h2⟩)
      · left
        rw [← Bool.not_eq_true, ← hw, Bool.not_eq_true]; exact h
      · right; left
        have := prior_stopEnd td b .stopEnd h1
        rw [← h2] at this
        exact ⟨_, this⟩
      · right; right
        have := prior_delayEnd td b .stopEnd h1
        rw [← h2] at this
        exact ⟨_, this⟩
    · rintro (h | ⟨v, hv⟩ | ⟨v, hv⟩)
      · left
        rw [← Bool.not_eq_true, hw, Bool.not_eq_true]; exact h
      · right
        have := prior_of_stop hd b v hv
        exact ⟨Or.inl this.1, this.2⟩
      · right
        exact prior_of_delay hd b v hv

/-! ### generic list facts for `time_notes` -/

theorem filterMap_map_sublist {α β γ} (f : α → Option β) (p : α → γ) (p' : β → γ)
    (h : ∀ a b, f a = some b → p' b = p a) (l : List α) :
    List.Sublist ((l.filterMap f).map p') (l.map p) := by
  induction l with
  | nil => exact List.Sublist.slnil
  | cons a l ih =>
    cases hfa : f a with
    | none =>
      rw [List.filterMap_cons_none hfa, List.map_cons]
      exact List.Sublist.cons _ ih
    | some b =>
      rw [List.filterMap_cons_some hfa, List.map_cons, List.map_cons, h a b hfa]
      exact List.Sublist.cons_cons _ ih

end Simfile
