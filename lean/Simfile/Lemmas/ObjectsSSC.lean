/-
Lemmas about serialization and loading of SSC simfile objects (C02, C03, C04).
-/
import Simfile.Lemmas.ObjectsO
namespace Simfile.O
open Simfile

/-! ### SSC loading in closed form -/

def sscStep (st : SSCLoadState) (p : Param) : SSCLoadState :=
  let k := upper p.key
  let v := loadedValue k p
  if k = kNOTEDATA then
    { st with charts := (match st.partial_ with | some c => st.charts ++ [c] | none => st.charts),
              partial_ := some ⟨[]⟩ }
  else match st.partial_ with
    | some c => { st with partial_ := some ⟨c.props.set k v⟩ }
    | none => { st with props := st.props.set k v }

def sscFinish (st : SSCLoadState) : SSCSimfile :=
  { props := st.props,
    charts := match st.partial_ with | some c => st.charts ++ [c] | none => st.charts }

theorem loadSSC_eq (ps : List Param) :
    loadSSC ps = sscFinish (ps.foldl sscStep { props := [], charts := [], partial_ := none }) := rfl

def isND (p : Param) : Bool := decide (upper p.key = kNOTEDATA)

/-- the parameters before the first NOTEDATA parameter, and the groups of parameters following each
NOTEDATA parameter (up to the next one) -/
def segs : List Param → List Param × List (List Param)
  | [] => ([], [])
  | p :: ps => if isND p then ([], (segs ps).1 :: (segs ps).2) else (p :: (segs ps).1, (segs ps).2)

/-- the dictionary a loader builds from a run of parameters -/
def dictOf (ps : List Param) : Dict := setAll [] (ps.map kvOf)

def sscResult (st : SSCLoadState) (ps : List Param) : SSCSimfile :=
  match st.partial_ with
  | none => ⟨setAll st.props ((segs ps).1.map kvOf), st.charts ++ (segs ps).2.map (fun g => ⟨dictOf g⟩)⟩
  | some c => ⟨st.props, st.charts ++ ⟨setAll c.props ((segs ps).1.map kvOf)⟩ ::
                  (segs ps).2.map (fun g => ⟨dictOf g⟩)⟩

theorem sscFinish_foldl (ps : List Param) (st : SSCLoadState) :
    sscFinish (ps.foldl sscStep st) = sscResult st ps := by
  induction ps generalizing st with
  | nil =>
    obtain ⟨P, C, part⟩ := st
    cases part with
    | none => simp [sscFinish, sscResult, segs, setAll_nil]
    | some c => simp [sscFinish, sscResult, segs, setAll_nil]
  | cons p ps ih =>
    rw [List.foldl_cons, ih]
    obtain ⟨P, C, part⟩ := st
    by_cases hn : upper p.key = kNOTEDATA
    · have hN : isND p = true := by simp [isND, hn]
      cases part with
      | none => simp [sscStep, hn, sscResult, segs, hN, setAll_nil, dictOf]
      | some c => simp [sscStep, hn, sscResult, segs, hN, setAll_nil, dictOf]
    · have hN : isND p = false := by simp [isND, hn]
      cases part with
      | none => simp [sscStep, hn, sscResult, segs, hN, setAll_cons, kvOf]
      | some c => simp [sscStep, hn, sscResult, segs, hN, setAll_cons, kvOf]

theorem loadSSC_closed (ps : List Param) :
    loadSSC ps = ⟨dictOf (segs ps).1, (segs ps).2.map (fun g => ⟨dictOf g⟩)⟩ := by
  rw [loadSSC_eq, sscFinish_foldl]; simp [sscResult, dictOf]

theorem segs_append_of_noND (pre rest : List Param) (h : ∀ p ∈ pre, isND p = false) :
    segs (pre ++ rest) = (pre ++ (segs rest).1, (segs rest).2) := by
  induction pre with
  | nil => rfl
  | cons p pre ih =>
    have hp := h p List.mem_cons_self
    rw [List.cons_append, segs, hp, ih (fun q hq => h q (List.mem_cons_of_mem _ hq))]
    rfl

theorem segs_of_noND (pre : List Param) (h : ∀ p ∈ pre, isND p = false) : segs pre = (pre, []) := by
  have := segs_append_of_noND pre [] h
  simpa [segs] using this

theorem segs_cons_ND (p : Param) (ps : List Param) (h : isND p = true) :
    segs (p :: ps) = ([], (segs ps).1 :: (segs ps).2) := by
  rw [segs, h]; rfl

/-! ### serialization of SSC charts -/

theorem notesKey_cases (c : SSCChart) : notesKey c = kNOTES ∨ notesKey c = kNOTES2 := by
  unfold notesKey; split
  · exact Or.inr rfl
  · exact Or.inl rfl

theorem upper_notesKey (c : SSCChart) : upper (notesKey c) = notesKey c := by
  rcases notesKey_cases c with h | h <;> rw [h] <;> decide

theorem notesKey_ne_ND (c : SSCChart) : notesKey c ≠ kNOTEDATA := by
  rcases notesKey_cases c with h | h <;> rw [h] <;> decide

theorem isMulti_notesKey (c : SSCChart) : isMulti (notesKey c) = false := by
  rcases notesKey_cases c with h | h <;> rw [h] <;> decide

/-- the note data of a chart (empty when it has none) -/
def notesOf (c : SSCChart) : Str :=
  match c.props.get? (notesKey c) with
  | some (some n) => n
  | _ => []

def notesParam (c : SSCChart) : Param := ⟨[notesKey c, notesOf c]⟩
def ndParam : Param := ⟨[kNOTEDATA, []]⟩

/-- the other items of a chart -/
def otherProps (c : SSCChart) : Dict := c.props.filter fun kv => kv.1 ≠ notesKey c

def sscChartItems (c : SSCChart) : List Item :=
  [Item.param ndParam, Item.text nl] ++ serProps (otherProps c) ++
    [Item.param (notesParam c), Item.text (nl ++ nl)]

theorem serSSCChart_ok (c : SSCChart) (n : Str) (h : c.props.get? (notesKey c) = some (some n)) :
    serSSCChart c = .ok (sscChartItems c) := by
  unfold serSSCChart
  simp only [h]
  unfold sscChartItems notesParam notesOf otherProps ndParam
  simp only [h]

/-- the parameters of a serialized chart after its NOTEDATA parameter -/
def chartBody (c : SSCChart) : List Param := (otherProps c).map itemParam ++ [notesParam c]

theorem paramsOf_sscChartItems (c : SSCChart) : paramsOf (sscChartItems c) = ndParam :: chartBody c := by
  unfold sscChartItems chartBody
  rw [paramsOf_append, paramsOf_append, paramsOf_serProps]
  rfl

theorem kvOf_notesParam (c : SSCChart) : kvOf (notesParam c) = (notesKey c, some (notesOf c)) := by
  unfold kvOf notesParam
  simp only [Param.key, List.headD_cons, upper_notesKey, loadedValue, Param.value, List.tail_cons,
    List.head?_cons, isMulti_notesKey]
  rfl

theorem isND_ndParam : isND ndParam = true := by decide

theorem isND_notesParam (c : SSCChart) : isND (notesParam c) = false := by
  unfold isND notesParam
  simp only [Param.key, List.headD_cons, upper_notesKey]
  exact decide_eq_false (notesKey_ne_ND c)

theorem isND_itemParam (kv : Str × Option Str) (hu : upper kv.1 = kv.1) (hn : kv.1 ≠ kNOTEDATA) :
    isND (itemParam kv) = false := by
  unfold isND itemParam
  rw [valueParam_key, hu]
  exact decide_eq_false hn

theorem isND_of_mem_props (d : Dict) (hu : ∀ k ∈ d.keys, upper k = k) (hn : ∀ k ∈ d.keys, k ≠ kNOTEDATA)
    (p : Param) (hp : p ∈ d.map itemParam) : isND p = false := by
  obtain ⟨kv, hkv, rfl⟩ := List.mem_map.mp hp
  have hk : kv.1 ∈ d.keys := List.mem_map.mpr ⟨kv, hkv, rfl⟩
  exact isND_itemParam kv (hu _ hk) (hn _ hk)

theorem keys_filter_subset (d : Dict) (f : Str × Option Str → Bool) :
    ∀ k ∈ Dict.keys (d.filter f), k ∈ Dict.keys d := by
  intro k hk
  obtain ⟨kv, hkv, rfl⟩ := List.mem_map.mp hk
  exact List.mem_map.mpr ⟨kv, (List.mem_filter.mp hkv).1, rfl⟩

theorem WF_filter (d : Dict) (f : Str × Option Str → Bool) (h : Dict.WF d) : Dict.WF (d.filter f) := by
  unfold Dict.WF Dict.keys at *
  exact List.Nodup.sublist (List.Sublist.map _ List.filter_sublist) h

theorem notesKey_not_mem_other (c : SSCChart) : notesKey c ∉ Dict.keys (otherProps c) := by
  intro hk
  obtain ⟨kv, hkv, he⟩ := List.mem_map.mp hk
  have := (List.mem_filter.mp hkv).2
  simp at this
  exact this he

theorem WF_notesLast_props (c : SSCChart) (v : Option Str) (h : Dict.WF c.props) :
    Dict.WF (otherProps c ++ [(notesKey c, v)]) := by
  have h1 := WF_filter c.props (fun kv => kv.1 ≠ notesKey c) h
  unfold Dict.WF at *
  rw [keys_append, List.nodup_append]
  refine ⟨h1, by simp [Dict.keys], ?_⟩
  intro a ha b hb
  simp [Dict.keys] at hb
  subst hb
  intro e; subst e
  exact notesKey_not_mem_other c ha

theorem notesLast_none (c : SSCChart) (h : c.props.get? (notesKey c) = none) : c.notesLast = c := by
  unfold SSCChart.notesLast
  simp only [h]

theorem notesLast_some (c : SSCChart) (v : Option Str) (h : c.props.get? (notesKey c) = some v) :
    c.notesLast = ⟨otherProps c ++ [(notesKey c, v)]⟩ := by
  unfold SSCChart.notesLast
  simp only [h]; rfl

theorem notesLast_eq (c : SSCChart) (n : Str) (h : c.props.get? (notesKey c) = some (some n)) :
    c.notesLast = ⟨otherProps c ++ [(notesKey c, some n)]⟩ := notesLast_some c _ h

theorem notesOf_eq (c : SSCChart) (n : Str) (h : c.props.get? (notesKey c) = some (some n)) :
    notesOf c = n := by
  unfold notesOf; simp only [h]

section
variable (c : SSCChart) (hwf : Dict.WF c.props) (hu : ∀ k ∈ c.props.keys, upper k = k)
  (hn : ∀ k ∈ c.props.keys, k ≠ kNOTEDATA) (n : Str) (hnotes : c.props.get? (notesKey c) = some (some n))
include hu hn

theorem isND_chartBody : ∀ p ∈ chartBody c, isND p = false := by
  intro p hp
  unfold chartBody at hp
  rcases List.mem_append.mp hp with hp | hp
  · exact isND_of_mem_props (otherProps c)
      (fun k hk => hu k (keys_filter_subset _ _ k hk))
      (fun k hk => hn k (keys_filter_subset _ _ k hk)) p hp
  · rw [List.mem_singleton] at hp; subst hp; exact isND_notesParam c

include hwf hnotes
omit hn in
/-- loading the body of a serialized chart gives the chart with its note data last -/
theorem dictOf_chartBody : (⟨dictOf (chartBody c)⟩ : SSCChart) = c.notesLast := by
  rw [notesLast_eq c n hnotes]
  congr 1
  unfold dictOf chartBody
  rw [List.map_append, map_kvOf_itemParam (otherProps c) (fun k hk => hu k (keys_filter_subset _ _ k hk))]
  simp only [List.map_cons, List.map_nil, kvOf_notesParam, notesOf_eq c n hnotes]
  exact setAll_rebuild_nil _ (WF_notesLast_props c _ hwf)

end

/-! ### notesLast -/

theorem get?_append_of_not_mem (d1 d2 : Dict) (k : Str) (h : k ∉ Dict.keys d1) :
    Dict.get? (d1 ++ d2) k = Dict.get? d2 k := by
  unfold Dict.get?
  rw [List.lookup_append]
  have : List.lookup k d1 = none := (get?_eq_none_iff d1 k).mpr h
  rw [this]; rfl

theorem contains_append (d1 d2 : Dict) (k : Str) :
    Dict.contains (d1 ++ d2) k = (Dict.contains d1 k || Dict.contains d2 k) := by
  unfold Dict.contains
  rw [List.lookup_append]
  cases List.lookup k d1 <;> simp

theorem contains_filter_ne (d : Dict) (k k' : Str) (h : k ≠ k') :
    Dict.contains (d.filter fun kv => kv.1 ≠ k') k = Dict.contains d k := by
  induction d with
  | nil => rfl
  | cons kv d ih =>
    obtain ⟨k₁, v₁⟩ := kv
    by_cases e : k₁ = k'
    · subst e
      rw [List.filter_cons]
      simp only [ne_eq, not_true_eq_false, decide_false]
      rw [show ((k₁, v₁) :: d) = [(k₁, v₁)] ++ d from rfl, contains_append]
      have : Dict.contains [(k₁, v₁)] k = false := by
        unfold Dict.contains
        rw [List.lookup_cons]
        have : (k == k₁) = false := by simpa using h
        rw [this]; rfl
      rw [this]; exact ih
    · rw [List.filter_cons]
      simp only [ne_eq, e, not_false_eq_true, decide_true, if_true]
      rw [show ((k₁, v₁) :: d) = [(k₁, v₁)] ++ d from rfl,
        show ((k₁, v₁) :: List.filter (fun kv => decide ¬kv.1 = k') d) =
          [(k₁, v₁)] ++ List.filter (fun kv => decide ¬kv.1 = k') d from rfl,
        contains_append, contains_append]
      have := ih
      simp only [ne_eq] at this
      rw [this]

theorem contains_singleton_self (k : Str) (v : Option Str) : Dict.contains [(k, v)] k = true := by
  unfold Dict.contains; rw [List.lookup_cons]; simp

theorem notesKey_notesLast (c : SSCChart) : notesKey c.notesLast = notesKey c := by
  cases hg : c.props.get? (notesKey c) with
  | none => rw [notesLast_none c hg]
  | some v =>
    rw [notesLast_some c v hg]
    have hc : c.props.contains (notesKey c) = true := by rw [contains_eq, hg]; rfl
    rcases notesKey_cases c with hk | hk
    · -- NOTES present
      rw [hk] at hc ⊢
      unfold notesKey
      simp only
      rw [contains_append, contains_singleton_self]; simp
    · -- NOTES absent, NOTES2 present
      have hno : c.props.contains kNOTES = false := by
        unfold notesKey at hk
        split at hk
        · rename_i h; simp at h; simpa using h.1
        · exact absurd hk (by decide)
      rw [hk] at hc ⊢
      unfold notesKey otherProps
      simp only
      rw [contains_append, contains_append, hk, contains_filter_ne _ _ _ (by decide), hno,
        contains_singleton_self]
      have h1 : Dict.contains [(kNOTES2, v)] kNOTES = false := by
        unfold Dict.contains; rw [List.lookup_cons]
        have : (kNOTES == kNOTES2) = false := by decide
        rw [this]; rfl
      rw [h1]; simp

theorem filter_filter_same (d : Dict) (k : Str) :
    (d.filter fun kv => kv.1 ≠ k).filter (fun kv => kv.1 ≠ k) = d.filter fun kv => kv.1 ≠ k := by
  rw [List.filter_filter]; simp

theorem otherProps_notesLast (c : SSCChart) : otherProps c.notesLast = otherProps c := by
  cases hg : c.props.get? (notesKey c) with
  | none => rw [notesLast_none c hg]
  | some v =>
    unfold otherProps
    rw [notesKey_notesLast, notesLast_some c v hg]
    unfold otherProps
    simp only
    rw [List.filter_append, filter_filter_same]
    simp

theorem get?_notesLast (c : SSCChart) :
    c.notesLast.props.get? (notesKey c) = c.props.get? (notesKey c) := by
  cases hg : c.props.get? (notesKey c) with
  | none => rw [notesLast_none c hg, hg]
  | some v =>
    rw [notesLast_some c v hg]
    simp only
    rw [get?_append_of_not_mem _ _ _ (notesKey_not_mem_other c), get?_cons_self]

theorem notesLast_notesLast (c : SSCChart) : c.notesLast.notesLast = c.notesLast := by
  cases hg : c.props.get? (notesKey c) with
  | none => rw [notesLast_none c hg, notesLast_none c hg]
  | some v =>
    have hg' := get?_notesLast c
    rw [hg, ← notesKey_notesLast c] at hg'
    rw [notesLast_some c.notesLast v hg', otherProps_notesLast, notesKey_notesLast, notesLast_some c v hg]

theorem serSSCChart_notesLast (c : SSCChart) : serSSCChart c.notesLast = serSSCChart c := by
  have h3 := otherProps_notesLast c
  unfold otherProps at h3
  rw [notesKey_notesLast] at h3
  unfold serSSCChart
  simp only [notesKey_notesLast, get?_notesLast, h3]

/-! ### mapM in `Except` -/

theorem mapM_ok {α β} (f : α → Except Err β) (g : α → β) (l : List α) (h : ∀ a ∈ l, f a = .ok (g a)) :
    l.mapM f = .ok (l.map g) := by
  induction l with
  | nil => rfl
  | cons a l ih =>
    rw [List.mapM_cons, h a List.mem_cons_self, ih (fun b hb => h b (List.mem_cons_of_mem _ hb))]
    rfl

theorem mapM_congr {α β} (f g : α → Except Err β) (l : List α) (h : ∀ a ∈ l, f a = g a) :
    l.mapM f = l.mapM g := by
  induction l with
  | nil => rfl
  | cons a l ih =>
    rw [List.mapM_cons, List.mapM_cons, h a List.mem_cons_self, ih (fun b hb => h b (List.mem_cons_of_mem _ hb))]

theorem mapM_map_congr {α β γ} (f : β → Except Err γ) (g : α → Except Err γ) (h : α → β) (l : List α)
    (hfg : ∀ a ∈ l, f (h a) = g a) : (l.map h).mapM f = l.mapM g := by
  induction l with
  | nil => rfl
  | cons a l ih =>
    rw [List.map_cons, List.mapM_cons, List.mapM_cons, hfg a List.mem_cons_self,
      ih (fun b hb => hfg b (List.mem_cons_of_mem _ hb))]

/-! ### serialization of SSC simfiles -/

/-- the items `serSSC` writes when every chart has note data -/
def sscItems (s : SSCSimfile) : List Item :=
  serProps s.props ++ [Item.text nl] ++ (s.charts.map fun c => sscChartItems c ++ [Item.text nl]).flatten

theorem serSSC_ok (s : SSCSimfile)
    (h : ∀ c ∈ s.charts, ∃ n, c.props.get? (notesKey c) = some (some n)) :
    serSSC s = .ok (sscItems s) := by
  unfold serSSC
  have : (s.charts.mapM fun c => do
      let is ← serSSCChart c
      pure (is ++ [Item.text nl])) = .ok (s.charts.map fun c => sscChartItems c ++ [Item.text nl]) := by
    apply mapM_ok
    intro c hc
    obtain ⟨n, hn⟩ := h c hc
    rw [serSSCChart_ok c n hn]; rfl
  rw [this]; rfl

theorem serSSC_notesLast (s : SSCSimfile) : serSSC s.notesLast = serSSC s := by
  unfold serSSC SSCSimfile.notesLast
  simp only
  rw [mapM_map_congr _ (fun c => do
      let is ← serSSCChart c
      pure (is ++ [Item.text nl])) SSCChart.notesLast s.charts
    (fun c _ => by simp only [serSSCChart_notesLast])]

theorem paramsOf_chartsItems (cs : List SSCChart) :
    paramsOf (cs.map fun c => sscChartItems c ++ [Item.text nl]).flatten =
      (cs.map fun c => ndParam :: chartBody c).flatten := by
  induction cs with
  | nil => rfl
  | cons c cs ih =>
    rw [List.map_cons, List.flatten_cons, paramsOf_append, ih, paramsOf_append, paramsOf_sscChartItems]
    simp [paramsOf]

theorem paramsOf_sscItems (s : SSCSimfile) :
    paramsOf (sscItems s) = s.props.map itemParam ++ (s.charts.map fun c => ndParam :: chartBody c).flatten := by
  unfold sscItems
  rw [paramsOf_append, paramsOf_append, paramsOf_serProps, paramsOf_chartsItems]
  simp [paramsOf]

theorem segs_charts (cs : List SSCChart) (h : ∀ c ∈ cs, ∀ p ∈ chartBody c, isND p = false) :
    segs (cs.map fun c => ndParam :: chartBody c).flatten = ([], cs.map chartBody) := by
  induction cs with
  | nil => rfl
  | cons c cs ih =>
    rw [List.map_cons, List.flatten_cons, List.cons_append, segs_cons_ND _ _ isND_ndParam,
      segs_append_of_noND _ _ (h c List.mem_cons_self), ih (fun c' hc' => h c' (List.mem_cons_of_mem _ hc'))]
    simp

theorem text_mem_sscChartItems (c : SSCChart) (t : Str) (h : Item.text t ∈ sscChartItems c) :
    isBlank t = true := by
  unfold sscChartItems at h
  rw [List.mem_append, List.mem_append] at h
  rcases h with (h | h) | h
  · simp at h; rw [h]; decide
  · rw [text_mem_serProps _ _ h]; decide
  · simp at h; rw [h]; decide

theorem text_mem_sscItems (s : SSCSimfile) (t : Str) (h : Item.text t ∈ sscItems s) : isBlank t = true := by
  unfold sscItems at h
  rw [List.mem_append, List.mem_append] at h
  rcases h with (h | h) | h
  · rw [text_mem_serProps _ _ h]; decide
  · simp at h; rw [h]; decide
  · rw [List.mem_flatten] at h
    obtain ⟨l, hl, ht⟩ := h
    obtain ⟨c, _, rfl⟩ := List.mem_map.mp hl
    rcases List.mem_append.mp ht with ht | ht
    · exact text_mem_sscChartItems c t ht
    · simp at ht; rw [ht]; decide

/-! ### `SSCChart.from_str` -/

def isNotesKey (p : Param) : Bool := decide (upper p.key = kNOTES ∨ upper p.key = kNOTES2)

theorem loadSSCChartBody_eq (pre : List Param) (last : Param) (d : Dict)
    (h : ∀ p ∈ pre, isNotesKey p = false) :
    loadSSCChartBody (pre ++ [last]) d = setAll d ((pre ++ [last]).map kvOf) := by
  induction pre generalizing d with
  | nil =>
    simp only [List.nil_append, loadSSCChartBody, List.map_cons, List.map_nil, setAll_cons, setAll_nil, kvOf]
    split <;> rfl
  | cons p pre ih =>
    have hp := h p List.mem_cons_self
    simp only [isNotesKey, decide_eq_false_iff_not] at hp
    rw [List.cons_append, loadSSCChartBody]
    simp only [hp, if_false]
    rw [ih _ (fun q hq => h q (List.mem_cons_of_mem _ hq))]
    rfl

theorem filter_ne_of_not_mem (d : Dict) (k : Str) (h : k ∉ Dict.keys d) :
    d.filter (fun kv => kv.1 ≠ k) = d := by
  rw [List.filter_eq_self]
  intro kv hkv
  have : kv.1 ≠ k := fun e => h (e ▸ List.mem_map.mpr ⟨kv, hkv, rfl⟩)
  simpa using this

/-- a chart whose last item is its note data is not changed by `notesLast` -/
theorem notesLast_of_last (c : SSCChart) (hwf : c.props.WF)
    (hl : c.props.getLast?.map (·.1) = some (notesKey c)) : c.notesLast = c := by
  generalize hk : notesKey c = nk at hl
  cases hd : c.props.getLast? with
  | none => simp [hd] at hl
  | some kv =>
    obtain ⟨k, v⟩ := kv
    simp only [hd, Option.map_some, Option.some.injEq] at hl
    subst hl
    obtain ⟨d', hd'⟩ : ∃ d', c.props = d' ++ [(k, v)] := by
      rw [List.getLast?_eq_some_iff] at hd; exact hd
    have hnot : k ∉ Dict.keys d' := by
      unfold Dict.WF at hwf
      rw [hd', keys_append, List.nodup_append] at hwf
      intro hm
      exact hwf.2.2 _ hm _ (by simp [Dict.keys]) rfl
    have hg : c.props.get? (notesKey c) = some v := by
      rw [hk, hd', get?_append_of_not_mem _ _ _ hnot, get?_cons_self]
    rw [notesLast_some c v hg]
    unfold otherProps
    rw [hk]
    obtain ⟨d⟩ := c
    simp only at hd'
    subst hd'
    congr 1
    rw [List.filter_append, filter_ne_of_not_mem _ _ hnot]
    simp

/-- every item of a chart is an item of the chart with its note data moved last -/
theorem mem_notesLast (c : SSCChart) (hwf : c.props.WF) (kv : Str × Option Str) (h : kv ∈ c.props) :
    kv ∈ c.notesLast.props := by
  cases hg : c.props.get? (notesKey c) with
  | none => rw [notesLast_none c hg]; exact h
  | some v =>
    rw [notesLast_some c v hg]
    simp only [List.mem_append, List.mem_singleton]
    by_cases e : kv.1 = notesKey c
    · right
      obtain ⟨k, w⟩ := kv
      simp only at e; subst e
      have := get?_of_mem_WF _ _ _ hwf h
      rw [hg] at this; cases this; rfl
    · left
      unfold otherProps
      rw [List.mem_filter]
      exact ⟨h, by simpa using e⟩

end Simfile.O
