/-
The parser model `MsdP.parseToks` on arbitrary token lists: strict versus lenient parsing.
-/
import Simfile.Model.MsdParser
namespace Simfile.MsdP

/-- a TEXT / ESCAPE token whose payload is not acceptable outside a parameter under strict parsing -/
def isStray : Tok → Bool
  | .text s => !strayOk s
  | .escape d => !strayOk [d]
  | _ => false

/-- how one token changes "inside a parameter" -/
def insideStep (i : Bool) : Tok → Bool
  | .start => true
  | .endp => false
  | _ => i

/-- after the tokens `pre`, starting outside a parameter: are we inside a parameter?
(the last START / END token of `pre`, if any, is a START) -/
def insideAfter (pre : List Tok) : Bool := pre.foldl insideStep false

/-- recursive form: some stray token occurs outside a parameter, starting with "inside" = `i` -/
def strayIn : List Tok → Bool → Bool
  | [], _ => false
  | t :: ts, i => (!i && isStray t) || strayIn ts (insideStep i t)

theorem strayIn_iff (toks : List Tok) : ∀ (i : Bool), strayIn toks i = true ↔
    ∃ pre tk post, toks = pre ++ tk :: post ∧ pre.foldl insideStep i = false ∧ isStray tk = true := by
  induction toks with
  | nil => intro i; simp [strayIn]
  | cons t ts ih =>
    intro i
    simp only [strayIn, Bool.or_eq_true, Bool.and_eq_true, Bool.not_eq_true', ih]
    constructor
    · rintro (⟨hi, ht⟩ | ⟨pre, tk, post, e, hp, hs⟩)
      · exact ⟨[], t, ts, rfl, hi, ht⟩
      · exact ⟨t :: pre, tk, post, by rw [e]; rfl, hp, hs⟩
    · rintro ⟨pre, tk, post, e, hp, hs⟩
      cases pre with
      | nil =>
        simp only [List.nil_append, List.cons.injEq] at e
        obtain ⟨rfl, rfl⟩ := e
        exact Or.inl ⟨hp, hs⟩
      | cons a pre =>
        simp only [List.cons_append, List.cons.injEq] at e
        obtain ⟨rfl, rfl⟩ := e
        exact Or.inr ⟨pre, tk, post, rfl, hp, hs⟩

theorem complete_cur (st : PState) : st.complete.cur = none := by
  unfold PState.complete; split <;> simp_all

theorem complete_out_prefix (st : PState) : st.out <+: st.complete.out := by
  unfold PState.complete; split <;> simp

/-- lenient parsing never reports stray text -/
theorem parseToks_false_stray (toks : List Tok) : ∀ st, (parseToks false toks st).strayError = false := by
  induction toks with
  | nil => intro st; rfl
  | cons t ts ih =>
    intro st
    cases t <;> simp only [parseToks] <;> (try split) <;> simp [ih]

/-- strict parsing stops with the error iff a stray token occurs outside a parameter -/
theorem parseToks_true_stray (toks : List Tok) :
    ∀ st, (parseToks true toks st).strayError = strayIn toks st.cur.isSome := by
  induction toks with
  | nil => intro st; rfl
  | cons t ts ih =>
    intro st
    obtain ⟨comps, cur, out⟩ := st
    cases t <;> cases cur <;>
      simp [parseToks, strayIn, isStray, insideStep, ih, PState.complete] <;>
      split <;> simp_all

/-- without stray tokens outside parameters strict and lenient parsing agree -/
theorem parseToks_true_eq_false (toks : List Tok) :
    ∀ st, strayIn toks st.cur.isSome = false → parseToks true toks st = parseToks false toks st := by
  induction toks with
  | nil => intro st _; rfl
  | cons t ts ih =>
    intro st h
    obtain ⟨comps, cur, out⟩ := st
    cases t <;> cases cur <;>
      simp_all [parseToks, strayIn, isStray, insideStep, PState.complete]

/-- the output only grows -/
theorem parseToks_out_prefix (strict : Bool) (toks : List Tok) :
    ∀ st, st.out <+: (parseToks strict toks st).params := by
  induction toks with
  | nil => intro st; exact complete_out_prefix st
  | cons t ts ih =>
    intro st
    obtain ⟨comps, cur, out⟩ := st
    cases t <;> cases cur <;> simp only [parseToks] <;> (try split) <;>
      first
      | exact List.prefix_refl _
      | (refine List.IsPrefix.trans ?_ (ih _)
         first
         | exact List.prefix_refl _
         | exact complete_out_prefix ⟨comps, _, out⟩)

/-- what strict parsing yields is a prefix of what lenient parsing yields -/
theorem parseToks_true_prefix_false (toks : List Tok) :
    ∀ st, (parseToks true toks st).params <+: (parseToks false toks st).params := by
  induction toks with
  | nil => intro st; exact List.prefix_refl _
  | cons t ts ih =>
    intro st
    obtain ⟨comps, cur, out⟩ := st
    cases t <;> cases cur <;> simp only [parseToks] <;> (try split) <;>
      first
      | exact ih _
      | exact parseToks_out_prefix false ts ⟨comps, _, out⟩
      | (simp only [Bool.false_and, Bool.false_eq_true, if_false]; exact ih _)
      | (simp only [Bool.false_and, Bool.false_eq_true, if_false]; exact parseToks_out_prefix false ts ⟨comps, _, out⟩)
end Simfile.MsdP
