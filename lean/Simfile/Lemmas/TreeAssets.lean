/-
`assetLookupT` (Model/Tree.lean) against `assetLookup` (Model/Dir.lean): the digestion of the property value into
(containing listing, file name, containing directory) that the test harness used to do in Python, done in Lean.
-/
import Simfile.Lemmas.TreeFs
import Simfile.Lemmas.DirAssets
namespace Simfile.AssetTL
open Simfile Simfile.Path Simfile.PathL Simfile.TreeL Simfile.AssetL

/-- what `assetLookup` is given about the named file -/
structure Digest where
  /-- the listing of the containing directory, `none` when it is not a directory -/
  containing : Option (List Str)
  /-- the last component of the joined path -/
  file : Str
  /-- the containing directory -/
  cdir : Str
deriving Repr, DecidableEq

/-- `full = join(simfile_dir, spec)`, `(cdir, file) = split(full)`, `containing = listdir(cdir) if isdir(cdir)` -/
def digest (t : Node) (d : Str) (spec : Option Str) : Except FsErr Digest :=
  match spec with
  | some (c :: cs) =>
    match Path.join d (c :: cs) with
    | none => .error .illegalBackReference
    | some full =>
      match isdir t (Path.split full).1 with
      | .error e => .error e
      | .ok false => .ok ⟨none, (Path.split full).2, (Path.split full).1⟩
      | .ok true =>
        match listdir t (Path.split full).1 with
        | .error e => .error e
        | .ok l => .ok ⟨some l, (Path.split full).2, (Path.split full).1⟩
  | _ => .ok ⟨none, [], []⟩

/-- `normpath` of a joined path, as an answer -/
def pathOut (tag : Str → Sum Str Str) (jp : Option Str) : Except LookupErr (Option (Sum Str Str)) :=
  match jp with
  | none => .error (.fs .illegalBackReference)
  | some p =>
    match Path.normpath p with
    | none => .error (.fs .illegalBackReference)
    | some q => .ok (some (tag q))

/-- the pattern branch of `assetLookupT` -/
def fallT (d kind : Str) (dirlist : List Str) : Except LookupErr (Option (Sum Str Str)) :=
  match dirlist.mapM (fun f => (assetMatches kind f).map fun b => (f, b)) with
  | none => .error .unmodelled
  | some fs =>
    match fs.find? (·.2) with
    | none => .ok none
    | some fb => pathOut .inr (Path.join d fb.1)

/-- the result of `assetLookup`, turned into paths -/
def lift (d cdir : Str) (r : Option (Option (Sum Str Str))) : Except LookupErr (Option (Sum Str Str)) :=
  match r with
  | none => .error .unmodelled
  | some none => .ok none
  | some (some (.inl item)) => pathOut .inl (Path.join cdir item)
  | some (some (.inr f)) => pathOut .inr (Path.join d f)

theorem lift_fall (d cdir kind : Str) (spec : Option Str) (containing : Option (List Str)) (file : Str)
    (dirlist : List Str) (h : viaSpec spec containing file = none) :
    lift d cdir (assetLookup kind spec containing file dirlist) = fallT d kind dirlist := by
  rw [assetLookup_eq, h]
  unfold fallT
  simp only
  cases dirlist.mapM (fun f => (assetMatches kind f).map fun b => (f, b)) with
  | none => rfl
  | some fs =>
    simp only
    cases fs.find? (·.2) with
    | none => rfl
    | some fb => rfl

theorem lift_spec (d cdir kind : Str) (spec : Option Str) (containing : Option (List Str)) (file item : Str)
    (dirlist : List Str) (h : viaSpec spec containing file = some item) :
    lift d cdir (assetLookup kind spec containing file dirlist) = pathOut .inl (Path.join cdir item) := by
  rw [assetLookup_eq, h]
  rfl

/-- the named-file branch of `assetLookupT` -/
def named (t : Node) (d : Str) (spec : Option Str) : Except FsErr (Option Str) :=
  match spec with
  | some (c :: cs) =>
    match Path.join d (c :: cs) with
    | none => .error .illegalBackReference
    | some full => caseInsensitivePathT t full
  | _ => .ok none

theorem assetLookupT_eq (t : Node) (d kind : Str) (spec : Option Str) (dirlist : List Str) :
    assetLookupT t d kind spec dirlist =
      match named t d spec with
      | .error e => .error (.fs e)
      | .ok (some p) => pathOut .inl (some p)
      | .ok none => fallT d kind dirlist := by
  unfold assetLookupT named
  rcases spec with _ | (_ | ⟨c, cs⟩)
  · rfl
  · rfl
  · simp only
    cases Path.join d (c :: cs) with
    | none => rfl
    | some full =>
      simp only
      cases caseInsensitivePathT t full with
      | error e => rfl
      | ok o => cases o <;> rfl

/-- `assetLookupT` is `assetLookup` on the digested input, with the answers turned into normalised paths -/
theorem assetLookupT_refines (t : Node) (d kind : Str) (spec : Option Str) (dirlist : List Str) :
    assetLookupT t d kind spec dirlist =
      match digest t d spec with
      | .error e => .error (.fs e)
      | .ok g => lift d g.cdir (assetLookup kind spec g.containing g.file dirlist) := by
  rw [assetLookupT_eq]
  rcases spec with _ | (_ | ⟨c, cs⟩)
  · exact (lift_fall d [] kind none none [] dirlist rfl).symm
  · exact (lift_fall d [] kind (some []) none [] dirlist rfl).symm
  · unfold digest named
    simp only
    cases hj : Path.join d (c :: cs) with
    | none => rfl
    | some full =>
      simp only
      unfold caseInsensitivePathT
      simp only
      cases hd : isdir t (Path.split full).1 with
      | error e => rfl
      | ok b =>
        cases b with
        | false =>
          simp only
          exact (lift_fall d _ kind _ none _ dirlist rfl).symm
        | true =>
          simp only
          cases hl : listdir t (Path.split full).1 with
          | error e => rfl
          | ok items =>
            simp only
            cases hf : items.find? (fun item => lower item = lower (Path.split full).2) with
            | none =>
              simp only
              exact (lift_fall d _ kind _ (some items) _ dirlist (by rw [viaSpec_some]; exact hf)).symm
            | some item =>
              simp only
              rw [lift_spec d _ kind _ (some items) _ item dirlist (by rw [viaSpec_some]; exact hf)]
              unfold joinE
              cases Path.join (Path.split full).1 item with
              | none => rfl
              | some p => rfl


/-! ### the containing directory of a normal path is normal -/

theorem split_render_snoc (abs : Bool) (cs : List Str) (hv : ∀ c ∈ cs, validName c = true) {f : Str}
    (hf : validName f = true) : Path.split (render abs (cs ++ [f])) = (render abs cs, f) := by
  rw [← childPath_render abs cs hv]
  exact split_childPath _ (validName_no_slash hf)

theorem split_normal {q : Str} (h : normpath q = some q) : normpath (Path.split q).1 = some (Path.split q).1 := by
  obtain ⟨abs, cs, hv, rfl⟩ := (normpath_fixed_iff q).mp h
  rcases List.eq_nil_or_concat cs with rfl | ⟨cs', f, rfl⟩
  · cases abs <;> decide
  · have hv' : ∀ c ∈ cs', validName c = true := fun c hc => hv c (by simp [hc])
    rw [List.concat_eq_append, split_render_snoc abs cs' hv' (hv f (by simp))]
    exact normpath_render abs cs' hv'

/-! ### the named file is found -/

theorem pathOut_normal (tag : Str → Sum Str Str) {p : Str} (h : normpath p = some p) :
    pathOut tag (some p) = .ok (some (tag p)) := by
  unfold pathOut
  simp only
  rw [h]

/-- the named-file branch succeeds: the containing directory (as written, resolved by the tree) exists, and `entry`
is its first entry equal to the file name up to `lower` -/
theorem named_hit {t : Node} {d kind spec full : Str} {dirlist : List Str} (hspec : spec ≠ [])
    (hj : Path.join d spec = some full) {es : List (Str × Node)}
    (hres : resolve t (Path.split full).1 = .ok (some (.dir es))) {pre post : List Str} {entry : Str}
    (hl : es.map (·.1) = pre ++ entry :: post) (heq : lower entry = lower (Path.split full).2)
    (hpre : ∀ x ∈ pre, lower x ≠ lower (Path.split full).2) (hv : validName entry = true) :
    assetLookupT t d kind (some spec) dirlist = .ok (some (.inl (childPath (Path.split full).1 entry))) := by
  have hcn : normpath (Path.split full).1 = some (Path.split full).1 := split_normal (join_normal hj)
  rw [assetLookupT_eq]
  cases spec with
  | nil => exact absurd rfl hspec
  | cons c cs =>
    have hnamed : named t d (some (c :: cs)) = .ok (some (childPath (Path.split full).1 entry)) := by
      unfold named
      simp only
      rw [hj]
      simp only
      unfold caseInsensitivePathT
      simp only
      rw [isdir_of_resolve hres]
      simp only [Option.map_some, Option.getD_some, Node.isDir]
      rw [listdir_of_resolve hres]
      simp only
      have hf : (es.map (·.1)).find? (fun item => lower item = lower (Path.split full).2) = some entry := by
        rw [List.find?_eq_some_iff_append]
        exact ⟨by simpa using heq, pre, post, hl, fun x hx => by simpa using hpre x hx⟩
      rw [hf]
      simp only
      unfold joinE
      rw [join_normal_valid hcn hv]
      rfl
    rw [hnamed]
    simp only
    obtain ⟨_, _, _, h3⟩ := components_childPath hcn hv
    exact pathOut_normal _ h3

/-- the named-file branch comes up empty: the pattern rule decides -/
theorem named_miss {t : Node} {d kind spec : Str} {dirlist : List Str}
    (h : named t d (some spec) = .ok none) :
    assetLookupT t d kind (some spec) dirlist = fallT d kind dirlist := by
  rw [assetLookupT_eq, h]

theorem named_none (t : Node) (d : Str) : named t d none = .ok none := rfl
theorem named_empty (t : Node) (d : Str) : named t d (some []) = .ok none := rfl

theorem named_of_not_dir {t : Node} {d spec full : Str} (hspec : spec ≠ []) (hj : Path.join d spec = some full)
    (h : isdir t (Path.split full).1 = .ok false) : named t d (some spec) = .ok none := by
  cases spec with
  | nil => exact absurd rfl hspec
  | cons c cs =>
    unfold named
    simp only
    rw [hj]
    simp only
    unfold caseInsensitivePathT
    simp only
    rw [h]

theorem named_of_no_entry {t : Node} {d spec full : Str} (hspec : spec ≠ []) (hj : Path.join d spec = some full)
    {l : List Str} (hl : listdir t (Path.split full).1 = .ok l)
    (hno : ∀ x ∈ l, lower x ≠ lower (Path.split full).2) : named t d (some spec) = .ok none := by
  obtain ⟨es, hr, rfl⟩ := listdir_ok hl
  cases spec with
  | nil => exact absurd rfl hspec
  | cons c cs =>
    unfold named
    simp only
    rw [hj]
    simp only
    unfold caseInsensitivePathT
    simp only
    rw [isdir_of_resolve hr]
    simp only [Option.map_some, Option.getD_some, Node.isDir]
    rw [hl]
    simp only
    have : (es.map (·.1)).find? (fun item => lower item = lower (Path.split full).2) = none := by
      rw [List.find?_eq_none]
      intro x hx
      simpa using hno x hx
    rw [this]

/-- the pattern branch for a kind of the table: the first entry of the listing matching the kind's patterns -/
theorem fallT_modelled {kind : Str} (hk : kindModelled kind = true) (d : Str) (dirlist : List Str) :
    fallT d kind dirlist =
      match dirlist.find? (fun f => assetMatches kind f = some true) with
      | none => .ok none
      | some f => pathOut .inr (Path.join d f) := by
  unfold fallT
  have h := mapM_total (fun f => (assetMatches kind f).map fun b => (f, b))
    (fun f => (f, (assetMatches kind f).getD false)) dirlist
    (fun f _ => by rw [assetMatches_of_modelled hk f]; rfl)
  rw [h]
  simp only [List.find?_map]
  have : ((fun (x : Str × Bool) => x.2) ∘ fun f => (f, (assetMatches kind f).getD false)) =
      fun f => decide (assetMatches kind f = some true) := by
    funext f
    simp only [Function.comp]
    rw [assetMatches_of_modelled hk f]
    cases (assetMatches kind f).getD false <;> simp
  rw [this]
  cases dirlist.find? (fun f => decide (assetMatches kind f = some true)) with
  | none => rfl
  | some f => rfl


/-! ### inversions: where an answer comes from -/

theorem isdir_true {t : Node} {p : Str} (h : isdir t p = .ok true) :
    ∃ es, resolve t p = .ok (some (.dir es)) := by
  unfold isdir at h
  cases hr : resolve t p with
  | error e => rw [hr] at h; cases h
  | ok r =>
    rw [hr] at h
    cases r with
    | none => cases h
    | some n =>
      cases n with
      | file c => cases h
      | dir es => exact ⟨es, rfl⟩

theorem named_some_inv {t : Node} {d : Str} {spec : Option Str} {p : Str} (h : named t d spec = .ok (some p)) :
    ∃ sp full es item, spec = some sp ∧ sp ≠ [] ∧ Path.join d sp = some full ∧
      resolve t (Path.split full).1 = .ok (some (.dir es)) ∧ item ∈ es.map (·.1) ∧
      lower item = lower (Path.split full).2 ∧ Path.join (Path.split full).1 item = some p := by
  rcases spec with _ | (_ | ⟨c, cs⟩)
  · cases h
  · cases h
  · unfold named at h
    simp only at h
    cases hj : Path.join d (c :: cs) with
    | none => rw [hj] at h; cases h
    | some full =>
      rw [hj] at h
      simp only at h
      unfold caseInsensitivePathT at h
      simp only at h
      cases hd : isdir t (Path.split full).1 with
      | error e => rw [hd] at h; cases h
      | ok b =>
        rw [hd] at h
        cases b with
        | false => cases h
        | true =>
          simp only at h
          obtain ⟨es, hres⟩ := isdir_true hd
          rw [listdir_of_resolve hres] at h
          simp only at h
          cases hf : (es.map (·.1)).find? (fun item => lower item = lower (Path.split full).2) with
          | none => rw [hf] at h; cases h
          | some item =>
            rw [hf] at h
            simp only at h
            unfold joinE at h
            cases hji : Path.join (Path.split full).1 item with
            | none => rw [hji] at h; cases h
            | some p' =>
              rw [hji] at h
              cases h
              exact ⟨c :: cs, full, es, item, rfl, by simp, hj, hres, List.mem_of_find?_eq_some hf,
                by simpa using List.find?_some hf, hji⟩

theorem pathOut_some_inv {tag : Str → Sum Str Str} {jp : Option Str} {a : Sum Str Str}
    (h : pathOut tag jp = .ok (some a)) : ∃ p q, jp = some p ∧ normpath p = some q ∧ a = tag q := by
  unfold pathOut at h
  cases jp with
  | none => cases h
  | some p =>
    simp only at h
    cases hn : normpath p with
    | none => rw [hn] at h; cases h
    | some q => rw [hn] at h; cases h; exact ⟨p, q, rfl, hn, rfl⟩

theorem fallT_some_inv {d kind : Str} {dirlist : List Str} {a : Sum Str Str}
    (h : fallT d kind dirlist = .ok (some a)) :
    ∃ f p q, f ∈ dirlist ∧ assetMatches kind f = some true ∧ Path.join d f = some p ∧ normpath p = some q ∧
      a = .inr q := by
  unfold fallT at h
  cases hm : dirlist.mapM (fun f => (assetMatches kind f).map fun b => (f, b)) with
  | none => rw [hm] at h; cases h
  | some fs =>
    rw [hm] at h
    simp only at h
    cases hf : fs.find? (·.2) with
    | none => rw [hf] at h; cases h
    | some fb =>
      rw [hf] at h
      simp only at h
      obtain ⟨p, q, h1, h2, h3⟩ := pathOut_some_inv h
      have hfs := scan_fst kind dirlist fs hm
      have hmem := List.mem_of_find?_eq_some hf
      have hb : fb.2 = true := by simpa using List.find?_some hf
      rw [hfs] at hmem
      obtain ⟨f, hfm, rfl⟩ := List.mem_map.mp hmem
      simp only at hb h1
      refine ⟨f, p, q, hfm, ?_, h1, h2, h3⟩
      cases hmf : assetMatches kind f with
      | none =>
        -- the kind would be unmodelled, but then `mapM` had failed
        have := mapM_eq_some _ _ _ hm
        have h4 : (assetMatches kind f).map (fun b => (f, b)) ∈ dirlist.map
            (fun f => (assetMatches kind f).map fun b => (f, b)) := List.mem_map.mpr ⟨f, hfm, rfl⟩
        rw [this, hmf] at h4
        simp at h4
      | some b =>
        rw [hmf] at hb
        simp only [Option.getD_some] at hb
        rw [hb]


/-! ### the pattern answer as a path -/

/-- the answer of the pattern rule: the first entry of the listing matching the kind, as a path below `nd` -/
def patternAnswer (nd kind : Str) (dirlist : List Str) : Option (Sum Str Str) :=
  (dirlist.find? fun f => assetMatches kind f = some true).map fun f => .inr (childPath nd f)


theorem fallT_valid {kind : Str} (hk : kindModelled kind = true) {d nd : Str}
    (hd : normpath d = some nd) {dirlist : List Str} (hv : ∀ f ∈ dirlist, validName f = true) :
    fallT d kind dirlist = .ok (patternAnswer nd kind dirlist) := by
  rw [fallT_modelled hk]
  unfold patternAnswer
  cases hf : dirlist.find? (fun f => assetMatches kind f = some true) with
  | none => rfl
  | some f =>
    have hvf := hv f (List.mem_of_find?_eq_some hf)
    simp only [Option.map_some]
    rw [join_of_normpath hd hvf]
    have hn := normpath_idem hd
    exact pathOut_normal _ (components_childPath hn hvf).choose_spec.2.2


end Simfile.AssetTL
