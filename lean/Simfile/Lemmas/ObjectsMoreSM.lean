/-
SM charts through serialize → load for ARBITRARY field dictionaries (any key order, missing fields, any
extradata): the exact result `smRT`, when it is `__eq__` to the original (`SMChart.pyEq`) and when it serializes
to the same parameter (C01-F1 of audit part A).
-/
import Simfile.Lemmas.ObjectsO
import Simfile.Lemmas.LoadRules
namespace Simfile.O
open Simfile

/-- what serialize → load makes of one SM chart -/
def smRT (c : SMChart) : SMChart := smChartOf (smChartParam c).comps.tail

theorem smRT_eq (c : SMChart) :
    smRT c =
      ⟨[(['S','T','E','P','S','T','Y','P','E'], some (strip (fmtAttr (c.fields.get? ['S','T','E','P','S','T','Y','P','E'])))),
        (['D','E','S','C','R','I','P','T','I','O','N'], some (strip (fmtAttr (c.fields.get? ['D','E','S','C','R','I','P','T','I','O','N'])))),
        (['D','I','F','F','I','C','U','L','T','Y'], some (strip (fmtAttr (c.fields.get? ['D','I','F','F','I','C','U','L','T','Y'])))),
        (['M','E','T','E','R'], some (strip (fmtAttr (c.fields.get? ['M','E','T','E','R'])))),
        (['R','A','D','A','R','V','A','L','U','E','S'], some (strip (fmtAttr (c.fields.get? ['R','A','D','A','R','V','A','L','U','E','S'])))),
        (['N','O','T','E','S'], some (strip (fmtAttr (c.fields.get? ['N','O','T','E','S']))))],
       if c.extradata.getD [] = [] then none else some (c.extradata.getD [])⟩ := by
  unfold smRT smChartParam
  simp only [List.cons_append, List.nil_append, List.tail_cons]
  rw [show ∀ (a b c d e f : Str) (r : List Str), a :: b :: c :: d :: e :: f :: r = [a, b, c, d, e, f] ++ r from
    fun _ _ _ _ _ _ _ => rfl]
  rw [smChartOf_six, strip_append_left _ _ smIndent_space, strip_append_left _ _ smIndent_space,
    strip_append_left _ _ smIndent_space, strip_append_left _ _ smIndent_space,
    strip_append_left _ _ smIndent_space, strip_surround _ _ _ nl_space nl_space]

/-- the six attribute views of the reloaded chart -/
theorem get?_smRT (c : SMChart) (k : Str) (hk : k ∈ T.smChartProperties) :
    (smRT c).fields.get? k = some (some (strip (fmtAttr (c.fields.get? k)))) := by
  rw [smRT_eq]
  simp only [T.smChartProperties, List.mem_cons, List.not_mem_nil, or_false] at hk
  rcases hk with rfl | rfl | rfl | rfl | rfl | rfl <;> simp [Dict.get?, List.lookup]

theorem extradata_smRT (c : SMChart) : (smRT c).extradata.getD [] = c.extradata.getD [] := by
  rw [smRT_eq]
  by_cases h : c.extradata.getD [] = []
  · simp [h]
  · simp [h]

/-- an attribute survives the round trip unchanged exactly when it is a string equal to its own `strip()` -/
theorem fmt_fix (x : Option (Option Str)) :
    x = some (some (strip (fmtAttr x))) ↔ ∃ v, x = some (some v) ∧ strip v = v := by
  cases x with
  | none => simp
  | some o =>
    cases o with
    | none => simp
    | some v =>
      simp only [fmtAttr, Option.some.injEq, exists_eq_left']
      exact ⟨fun h => h.symm, fun h => h.symm⟩

theorem strip_none : strip ['N', 'o', 'n', 'e'] = ['N', 'o', 'n', 'e'] := by decide

/-- the printed attribute is unchanged by `strip()` when it is absent, `None`, or a stripped string -/
theorem strip_fmtAttr (x : Option (Option Str)) (h : ∀ v, x = some (some v) → strip v = v) :
    strip (fmtAttr x) = fmtAttr x := by
  cases x with
  | none => exact strip_none
  | some o =>
    cases o with
    | none => exact strip_none
    | some v => exact h v rfl

/-- `__eq__` between a chart and its reloaded copy, field by field -/
theorem pyEq_smRT_iff (c : SMChart) :
    c.pyEq (smRT c) = true ↔ ∀ k ∈ T.smChartProperties, ∃ v, c.fields.get? k = some (some v) ∧ strip v = v := by
  unfold SMChart.pyEq
  rw [List.all_eq_true]
  constructor
  · intro h k hk
    have := h k hk
    rw [get?_smRT c k hk, beq_iff_eq] at this
    exact (fmt_fix _).mp this
  · intro h k hk
    rw [get?_smRT c k hk, beq_iff_eq]
    exact (fmt_fix _).mpr (h k hk)

theorem smChartParam_congr (a b : SMChart)
    (hf : ∀ k ∈ T.smChartProperties, fmtAttr (a.fields.get? k) = fmtAttr (b.fields.get? k))
    (he : a.extradata.getD [] = b.extradata.getD []) : smChartParam a = smChartParam b := by
  unfold smChartParam
  rw [hf ['S','T','E','P','S','T','Y','P','E'] (by decide), hf ['D','E','S','C','R','I','P','T','I','O','N'] (by decide),
    hf ['D','I','F','F','I','C','U','L','T','Y'] (by decide), hf ['M','E','T','E','R'] (by decide),
    hf ['R','A','D','A','R','V','A','L','U','E','S'] (by decide), hf ['N','O','T','E','S'] (by decide), he]

/-- the reloaded chart is written as the same NOTES parameter when every field that is a string is stripped
(absent fields and `None` print as "None" both times) -/
theorem smChartParam_smRT (c : SMChart)
    (h : ∀ k ∈ T.smChartProperties, ∀ v, c.fields.get? k = some (some v) → strip v = v) :
    smChartParam (smRT c) = smChartParam c := by
  apply smChartParam_congr _ _ _ (extradata_smRT c)
  intro k hk
  rw [get?_smRT c k hk]
  exact strip_fmtAttr _ (h k hk)

/-! ### whole simfiles -/

/-- serialize → load of an SM simfile whose simfile-level keys are distinct, upper-case and not NOTES: always
succeeds, same properties, every chart replaced by `smRT` -/
theorem loadSM_serSM (s : SMSimfile) (hwf : s.props.WF) (hu : ∀ k ∈ s.props.keys, upper k = k)
    (hn : ∀ k ∈ s.props.keys, k ≠ kNOTES) :
    loadSM (paramsOf (serSM s)) = .ok ⟨s.props, s.charts.map smRT⟩ := by
  rw [loadSM_closed, paramsOf_serSM, any_badChart_ser _ _ hu hn,
    filter_nonnotes_ser _ _ hu hn, filter_notes_ser _ _ hu hn,
    map_kvOf_itemParam _ hu, setAll_rebuild_nil _ hwf, List.map_map]
  rfl

theorem all_zip_map {α} (cs : List α) (f : α → α) (g : α × α → Bool) :
    (cs.zip (cs.map f)).all g = cs.all (fun c => g (c, f c)) := by
  induction cs with
  | nil => rfl
  | cons c cs ih => simp only [List.map_cons, List.zip_cons_cons, List.all_cons, ih]

theorem pyEq_map (props : Dict) (cs : List SMChart) (f : SMChart → SMChart) :
    (⟨props, cs⟩ : SMSimfile).pyEq ⟨props, cs.map f⟩ = cs.all (fun c => c.pyEq (f c)) := by
  unfold SMSimfile.pyEq
  simp only [List.length_map, beq_self_eq_true, Bool.true_and]
  exact all_zip_map cs f _

theorem serSM_map_congr (props : Dict) (cs : List SMChart) (f : SMChart → SMChart)
    (h : ∀ c ∈ cs, smChartParam (f c) = smChartParam c) : serSM ⟨props, cs.map f⟩ = serSM ⟨props, cs⟩ := by
  unfold serSM
  simp only
  congr 1
  induction cs with
  | nil => rfl
  | cons c cs ih =>
    rw [List.map_cons, List.flatMap_cons, List.flatMap_cons, h c List.mem_cons_self,
      ih (fun d hd => h d (List.mem_cons_of_mem _ hd))]

end Simfile.O
