/-
decode ∘ encode = id on sorted streams: the encoder output is the rendering of a well-formed chart
whose notes are the stream.
-/
import Simfile.Lemmas.NotesEncode
import Mathlib.Tactic.Ring
import Mathlib.Tactic.FieldSimp
namespace Simfile
open Simfile

/-! ### beats and row indices -/

/-- `beat % 4 * q` is an integer when the denominator divides `q` -/
theorem rowIndex_cast (q : Nat) (n : Note) (hd : n.beat.den ∣ q) :
    ((rowIndex q n : Int) : Rat) = pyMod n.beat 4 * (q : Rat) := by
  obtain ⟨k, rfl⟩ := hd
  have hb : n.beat * (n.beat.den : Rat) = (n.beat.num : Rat) := Rat.mul_den_eq_num n.beat
  have : pyMod n.beat 4 * ((n.beat.den * k : Nat) : Rat) =
      ((n.beat.num * k - 4 * (n.beat / 4).floor * (n.beat.den * k : Nat) : Int) : Rat) := by
    unfold pyMod
    push_cast
    rw [← hb]; ring
  unfold rowIndex
  rw [this, Rat.floor_intCast]

theorem beat_of_rowIndex (q M : Nat) (hq : 0 < q) (n : Note) (hd : n.beat.den ∣ q)
    (hM : measureIndex n = (M : Int)) :
    n.beat = ((4 * M * (4 * q) + 4 * (rowIndex q n).toNat : Nat) : Rat) / ((4 * q : Nat) : Rat) := by
  have h1 := rowIndex_cast q n hd
  have h0 := (Spec.rowIndex_range q hq n).1
  have h2 : (((rowIndex q n).toNat : Nat) : Rat) = ((rowIndex q n : Int) : Rat) := by
    have : (((rowIndex q n).toNat : Nat) : Int) = rowIndex q n := Int.toNat_of_nonneg h0
    exact_mod_cast this
  have hq' : (q : Rat) ≠ 0 := by exact_mod_cast Nat.pos_iff_ne_zero.mp hq
  have hpm : pyMod n.beat 4 = n.beat - 4 * (M : Rat) := by
    unfold pyMod
    unfold measureIndex at hM
    rw [hM]; push_cast; ring
  push_cast
  rw [h2, h1, hpm]
  field_simp
  ring

namespace Spec

/-! ### the notes of a written row -/

theorem listSet_append_right {α} (X Y : List α) (i : Nat) (v : α) (h : X.length ≤ i) :
    listSet (X ++ Y) i v = X ++ listSet Y (i - X.length) v := by
  induction X generalizing i with
  | nil => rfl
  | cons x xs ih =>
    obtain ⟨j, rfl⟩ : ∃ j, i = j + 1 := ⟨i - 1, by simp at h; omega⟩
    simp only [List.cons_append, listSet, List.length_cons, Nat.add_sub_add_right]
    rw [ih j (by simpa using h)]

/-- writing notes into cells whose first column is `off` -/
def setCellsFrom (off : Nat) (cells : List Cell) (row : List Note) : List Cell :=
  row.foldl (fun cells n => listSet cells (n.column - off) (cellOf n)) cells

theorem setCells_eq (cells : List Cell) (row : List Note) : setCells cells row = setCellsFrom 0 cells row := rfl

theorem setCellsFrom_append (X : List Cell) (row : List Note) : ∀ (off : Nat) (Y : List Cell),
    (∀ n ∈ row, off + X.length ≤ n.column) →
    setCellsFrom off (X ++ Y) row = X ++ setCellsFrom (off + X.length) Y row := by
  induction row with
  | nil => intro off Y _; rfl
  | cons n ns ih =>
    intro off Y h
    have hn := h n (by simp)
    simp only [setCellsFrom, List.foldl_cons] at ih ⊢
    rw [listSet_append_right X Y _ _ (by omega), ih off _ (fun x hx => h x (by simp [hx]))]
    congr 3
    omega

theorem noteOfCell_zero (p m sub l c : Nat) : noteOfCell p m sub l (c, zeroCell) = none := by
  simp [noteOfCell, zeroCell]

theorem filterMap_zero (p m sub l : Nat) (k : Nat) : ∀ (off : Nat),
    (enumFrom off (List.replicate k zeroCell)).filterMap (noteOfCell p m sub l) = [] := by
  induction k with
  | zero => intro off; rfl
  | succ k ih =>
    intro off
    rw [List.replicate_succ, enumFrom_cons, List.filterMap_cons, noteOfCell_zero]
    exact ih (off + 1)

/-- a note as it should come back from row `l` of measure `m` -/
def NoteAt (p m sub l : Nat) (n : Note) : Prop :=
  n.player = p ∧ n.beat = ((4 * m * sub + 4 * l : Nat) : Rat) / (sub : Rat) ∧ n.ntype ≠ '0'

theorem noteOfCell_cellOf {p m sub l : Nat} {n : Note} (h : NoteAt p m sub l n) :
    noteOfCell p m sub l (n.column, cellOf n) = some n := by
  obtain ⟨h1, h2, h3⟩ := h
  cases n
  simp only [noteOfCell, cellOf] at *
  simp [h3, h1, h2]

theorem filterMap_setCellsFrom (p m sub l : Nat) (row : List Note) : ∀ (off k : Nat),
    row.Pairwise (fun a b => a.column < b.column) →
    (∀ n ∈ row, off ≤ n.column ∧ n.column < off + k ∧ NoteAt p m sub l n) →
    (enumFrom off (setCellsFrom off (List.replicate k zeroCell) row)).filterMap (noteOfCell p m sub l) = row := by
  induction row with
  | nil => intro off k _ _; exact filterMap_zero p m sub l k off
  | cons n ns ih =>
    intro off k hpw h
    rw [List.pairwise_cons] at hpw
    obtain ⟨h1, h2, h3⟩ := h n (by simp)
    obtain ⟨d, hd⟩ : ∃ d, n.column = off + d := ⟨n.column - off, by omega⟩
    have hk : k = d + ((k - d - 1) + 1) := by omega
    have e1 : setCellsFrom off (List.replicate k zeroCell) (n :: ns) =
        setCellsFrom off (List.replicate d zeroCell ++ cellOf n :: List.replicate (k - d - 1) zeroCell) ns := by
      simp only [setCellsFrom, List.foldl_cons]
      congr 1
      have : n.column - off = (List.replicate d zeroCell).length := by simp; omega
      rw [this]
      conv => lhs; rw [hk, List.replicate_add, List.replicate_succ]
      rw [listSet_append_cons]
    have e2 : List.replicate d zeroCell ++ cellOf n :: List.replicate (k - d - 1) zeroCell =
        (List.replicate d zeroCell ++ [cellOf n]) ++ List.replicate (k - d - 1) zeroCell := by simp
    rw [e1, e2, setCellsFrom_append _ ns off _ (by
      intro x hx
      have := hpw.1 x hx
      simp; omega)]
    rw [enumFrom_append, List.filterMap_append, enumFrom_append, List.filterMap_append, filterMap_zero]
    simp only [List.length_replicate, List.length_append, List.length_cons, List.length_nil,
      enumFrom_cons, enumFrom_nil, List.filterMap_cons, List.filterMap_nil, List.nil_append]
    rw [← hd, noteOfCell_cellOf h3]
    simp only [List.cons_append, List.nil_append, List.cons.injEq, true_and]
    have := ih (off + (d + 1)) (k - d - 1) hpw.2 (by
      intro x hx
      have hx' := h x (by simp [hx])
      have := hpw.1 x hx
      exact ⟨by omega, by omega, hx'.2.2⟩)
    rw [Nat.zero_add] at *
    exact this

theorem notesOfRow_rowOf (cols p m sub l : Nat) (row : List Note)
    (hpw : row.Pairwise (fun a b => a.column < b.column))
    (h : ∀ n ∈ row, n.column < cols ∧ NoteAt p m sub l n) :
    notesOfRow p m sub l (rowOf cols row) = row := by
  rw [notesOfRow_eq]
  simp only [rowOf, rowCells, setCells_eq]
  apply filterMap_setCellsFrom p m sub l row 0 cols hpw
  intro n hn
  obtain ⟨h1, h2⟩ := h n hn
  exact ⟨Nat.zero_le _, by omega, h2⟩

theorem notesOfRow_zeroRow (cols p m sub l : Nat) : notesOfRow p m sub l (zeroRow cols) = [] :=
  notesOfRow_zero p m sub l cols

/-! ### the notes of a written measure -/

/-- notes of rows numbered from `l₀` -/
def notesRows (p m sub l₀ : Nat) (rows : List DRow) : List Note :=
  ((enumFrom l₀ rows).map fun (x : Nat × DRow) => notesOfRow p m sub x.1 x.2).flatten

theorem notesRows_append (p m sub l₀ : Nat) (a b : List DRow) :
    notesRows p m sub l₀ (a ++ b) = notesRows p m sub l₀ a ++ notesRows p m sub (l₀ + a.length) b := by
  simp [notesRows, enumFrom_append]

theorem notesRows_zero (cols p m sub : Nat) (k : Nat) : ∀ l₀, notesRows p m sub l₀ (List.replicate k (zeroRow cols)) = [] := by
  induction k with
  | zero => intro l₀; rfl
  | succ k ih =>
    intro l₀
    have := ih (l₀ + 1)
    simp only [notesRows, List.replicate_succ, enumFrom_cons, List.map_cons, List.flatten_cons,
      notesOfRow_zeroRow, List.nil_append] at this ⊢
    exact this

theorem notesOfMeasure_eq_notesRows (p m : Nat) (me : DMeasure) :
    Spec.notesOfMeasure p m me = notesRows p m me.rows.length 0 me.rows := rfl

/-- what a run of notes with the same row index must satisfy -/
def RowOK (cols p m sub : Nat) (g : Int × List Note) : Prop :=
  g.2.Pairwise (fun a b => a.column < b.column) ∧
  ∀ n ∈ g.2, n.column < cols ∧ NoteAt p m sub g.1.toNat n

theorem measureFold_notes (cols p m sub : Nat) (groups : List (Int × List Note)) :
    ∀ (rows : List DRow) (last : Int), (rows.length : Int) = last + 1 → (∀ g ∈ groups, last < g.1) →
      groups.Pairwise (fun g g' => g.1 < g'.1) → (∀ g ∈ groups, RowOK cols p m sub g) →
      notesRows p m sub 0 (groups.foldl (measureStep cols) (rows, last)).1 =
        notesRows p m sub 0 rows ++ (groups.map (·.2)).flatten := by
  induction groups with
  | nil => intro rows last _ _ _ _; simp
  | cons g gs ih =>
    intro rows last hlen hgt hpw hok
    rw [List.foldl_cons]
    rw [List.pairwise_cons] at hpw
    have hg := hgt g (by simp)
    obtain ⟨ok1, ok2⟩ := hok g (by simp)
    have hidx : 0 + (rows ++ List.replicate (g.1 - (last + 1)).toNat (zeroRow cols)).length = g.1.toNat := by
      simp only [List.length_append, List.length_replicate]; omega
    rw [ih (measureStep cols (rows, last) g).1 (measureStep cols (rows, last) g).2
      (by simp only [measureStep, List.length_append, List.length_replicate, List.length_cons,
            List.length_nil]; push_cast; omega)
      (fun g' hg' => hpw.1 g' hg') hpw.2 (fun g' hg' => hok g' (by simp [hg']))]
    simp only [measureStep, List.map_cons, List.flatten_cons]
    rw [notesRows_append, hidx, notesRows_append, notesRows_zero]
    simp only [notesRows, enumFrom_cons, enumFrom_nil, List.map_cons, List.map_nil, List.flatten_cons,
      List.flatten_nil, List.append_nil, List.append_assoc]
    rw [notesOfRow_rowOf cols p m sub g.1.toNat g.2 ok1 ok2]

theorem measureRows_notes (cols p m q : Nat) (hq : 0 < q) (groups : List (Int × List Note))
    (hpw : groups.Pairwise (fun g g' => g.1 < g'.1)) (hge : ∀ g ∈ groups, 0 ≤ g.1)
    (hlt : ∀ g ∈ groups, g.1 < ((q * 4 : Nat) : Int))
    (hok : ∀ g ∈ groups, RowOK cols p m (4 * q) g) :
    Spec.notesOfMeasure p m { rows := measureRows cols q groups } = (groups.map (·.2)).flatten := by
  rw [notesOfMeasure_eq_notesRows]
  simp only
  rw [measureRows_length cols q groups hpw hge hlt hq]
  have := measureFold_notes cols p m (4 * q) groups [] (-1) (by simp)
    (fun g hg => by have := hge g hg; omega) hpw hok
  rw [measureRows, notesRows_append, this, notesRows_zero]
  simp [notesRows]

/-! ### a measure's notes come back -/

/-- a run of notes that belongs to measure `M` of player `p` -/
structure MeasureOK (cols p M : Nat) (measure : List Note) : Prop where
  sorted : measure.Pairwise (fun a b => keyLt a.key b.key = true)
  player : ∀ n ∈ measure, n.player = p
  index : ∀ n ∈ measure, measureIndex n = (M : Int)
  column : ∀ n ∈ measure, n.column < cols
  char : ∀ n ∈ measure, isNoteChar n.ntype = true

/-- the rows written for a measure -/
def measureOf (cols : Nat) (measure : List Note) : List DRow :=
  measureRows cols (measureQ measure) (groupRuns (rowIndex (measureQ measure)) measure)

theorem pushMeasure_eq' (cols : Nat) (measure : List Note) (h : ∀ n ∈ measure, n.column < cols) :
    pushMeasure cols measure = .ok (rowsText (measureOf cols measure)) := pushMeasure_eq cols measure h

theorem pairwise_mem {α} {R : α → α → Prop} {l : List α} (h : l.Pairwise R) :
    l.Pairwise (fun a b => a ∈ l ∧ b ∈ l ∧ R a b) := by
  rw [List.pairwise_iff_forall_sublist] at h ⊢
  intro a b hab
  exact ⟨hab.subset (by simp), hab.subset (by simp), h hab⟩

theorem MeasureOK.beat_le {cols p M : Nat} {measure : List Note} (h : MeasureOK cols p M measure) :
    measure.Pairwise (fun a b => a.beat ≤ b.beat) := by
  apply (pairwise_mem h.sorted).imp
  rintro a b ⟨ha, hb, hab⟩
  rw [keyLt_iff] at hab
  simp only [Note.key] at hab
  rcases hab with h1 | ⟨_, h2 | ⟨h2, _⟩⟩
  · rw [h.player a ha, h.player b hb] at h1; exact absurd h1 (Nat.lt_irrefl _)
  · exact le_of_lt h2
  · exact le_of_eq h2

theorem MeasureOK.groups {cols p M : Nat} {measure : List Note} (h : MeasureOK cols p M measure) :
    (groupRuns (rowIndex (measureQ measure)) measure).Pairwise (fun g g' => g.1 < g'.1) ∧
    (∀ g ∈ groupRuns (rowIndex (measureQ measure)) measure, 0 ≤ g.1) ∧
    (∀ g ∈ groupRuns (rowIndex (measureQ measure)) measure, g.1 < ((measureQ measure * 4 : Nat) : Int)) :=
  rowGroups_props _ (measureQ_pos measure) measure h.beat_le
    (fun a ha b hb => by rw [h.index a ha, h.index b hb])

theorem MeasureOK.rowOK {cols p M : Nat} {measure : List Note} (h : MeasureOK cols p M measure) :
    ∀ g ∈ groupRuns (rowIndex (measureQ measure)) measure, RowOK cols p M (4 * measureQ measure) g := by
  intro g hg
  have hsub := groupRuns_run_sublist _ _ g hg
  obtain ⟨_, hkey⟩ := groupRuns_mem _ _ g hg
  have hbeat : ∀ n ∈ g.2, n.beat = ((4 * M * (4 * measureQ measure) + 4 * g.1.toNat : Nat) : Rat) /
      ((4 * measureQ measure : Nat) : Rat) := by
    intro n hn
    have hm := hsub.subset hn
    have := beat_of_rowIndex (measureQ measure) M (measureQ_pos measure) n (den_dvd_measureQ hm) (h.index n hm)
    rw [hkey n hn] at this
    exact this
  constructor
  · apply (pairwise_mem (h.sorted.sublist hsub)).imp
    rintro a b ⟨ha, hb, hab⟩
    rw [keyLt_iff] at hab
    simp only [Note.key] at hab
    rcases hab with h1 | ⟨_, h2 | ⟨_, h2⟩⟩
    · rw [h.player a (hsub.subset ha), h.player b (hsub.subset hb)] at h1
      exact absurd h1 (Nat.lt_irrefl _)
    · rw [hbeat a ha, hbeat b hb] at h2; exact absurd h2 (lt_irrefl _)
    · exact h2
  · intro n hn
    have hm := hsub.subset hn
    refine ⟨h.column n hm, h.player n hm, ?_, noteChar_ne_zero (h.char n hm)⟩
    have := hbeat n hn
    push_cast at this ⊢
    exact this

theorem measureOf_notes {cols p M : Nat} {measure : List Note} (h : MeasureOK cols p M measure) :
    Spec.notesOfMeasure p M { rows := measureOf cols measure } = measure := by
  obtain ⟨h1, h2, h3⟩ := h.groups
  rw [measureOf, measureRows_notes cols p M _ (measureQ_pos measure) _ h1 h2 h3 h.rowOK, groupRuns_flatten]

/-- rows that make a well-formed measure -/
def GoodRows (cols : Nat) (rows : List DRow) : Prop :=
  rows ≠ [] ∧ ∀ r ∈ rows, PlainRow cols r ∧ ∀ c ∈ r.cells, WfCell c

theorem measureOf_good {cols p M : Nat} {measure : List Note} (h : MeasureOK cols p M measure) :
    GoodRows cols (measureOf cols measure) := by
  obtain ⟨h1, h2, h3⟩ := h.groups
  constructor
  · intro e
    have := measureRows_length cols _ _ h1 h2 h3 (measureQ_pos measure)
    rw [measureOf] at e
    rw [e] at this
    have := measureQ_pos measure
    simp at *
    omega
  · apply measureRows_all cols _ (fun r => PlainRow cols r ∧ ∀ c ∈ r.cells, WfCell c)
    · exact ⟨plainRow_zero cols, wfCells_zeroRow cols⟩
    · intro g hg
      refine ⟨plainRow_rowOf cols g.2, wfCells_rowOf cols g.2 ?_⟩
      intro n hn
      exact h.char n ((groupRuns_run_sublist _ _ g hg).subset hn)

def blankRowsL (cols : Nat) : List DRow := List.replicate 4 (zeroRow cols)

theorem measureOf_nil (cols : Nat) : measureOf cols [] = blankRowsL cols := by
  simp [measureOf, measureQ, groupRuns, measureRows, blankRowsL]

theorem blankRowsL_good (cols : Nat) : GoodRows cols (blankRowsL cols) := by
  refine ⟨by simp [blankRowsL], ?_⟩
  intro r hr
  rw [List.eq_of_mem_replicate hr]
  exact ⟨plainRow_zero cols, wfCells_zeroRow cols⟩

theorem blankRowsL_notes (cols p m : Nat) : Spec.notesOfMeasure p m { rows := blankRowsL cols } = [] := by
  rw [notesOfMeasure_eq_notesRows]
  exact notesRows_zero cols p m _ 4 0

/-! ### generic fold: items filed under increasing indices, gaps filled with blanks -/

section Generic
variable {β : Type} (blank : β) (mk : List Note → β)

def stepFold (acc : List β × Int) (g : Int × List Note) : List β × Int :=
  (acc.1 ++ List.replicate (g.1 - (acc.2 + 1)).toNat blank ++ [mk g.2], g.1)

theorem stepFold_length (groups : List (Int × List Note)) :
    ∀ (xs : List β) (last : Int), (xs.length : Int) = last + 1 → (∀ g ∈ groups, last < g.1) →
      groups.Pairwise (fun g g' => g.1 < g'.1) →
      (((groups.foldl (stepFold blank mk) (xs, last)).1.length : Nat) : Int) =
        (groups.foldl (stepFold blank mk) (xs, last)).2 + 1 ∧
      last ≤ (groups.foldl (stepFold blank mk) (xs, last)).2 ∧
      (groups ≠ [] → last < (groups.foldl (stepFold blank mk) (xs, last)).2) := by
  induction groups with
  | nil => intro xs last h _ _; exact ⟨h, Int.le_refl _, fun h => absurd rfl h⟩
  | cons g gs ih =>
    intro xs last hlen hgt hpw
    rw [List.foldl_cons]
    rw [List.pairwise_cons] at hpw
    have hg := hgt g (by simp)
    have := ih (stepFold blank mk (xs, last) g).1 (stepFold blank mk (xs, last) g).2
      (by simp only [stepFold, List.length_append, List.length_replicate, List.length_cons,
            List.length_nil]; push_cast; omega)
      (fun g' hg' => hpw.1 g' hg') hpw.2
    simp only [stepFold] at this ⊢
    obtain ⟨t1, t2, _⟩ := this
    exact ⟨t1, by omega, fun _ => by omega⟩

theorem stepFold_all (P : β → Prop) (groups : List (Int × List Note))
    (hz : P blank) (hg : ∀ g ∈ groups, P (mk g.2)) :
    ∀ (xs : List β) (last : Int), (∀ r ∈ xs, P r) →
      ∀ r ∈ (groups.foldl (stepFold blank mk) (xs, last)).1, P r := by
  induction groups with
  | nil => intro xs last h; exact h
  | cons g gs ih =>
    intro xs last h
    rw [List.foldl_cons]
    apply ih (fun g' hg' => hg g' (by simp [hg']))
    intro r hr
    simp only [List.mem_append, List.mem_replicate, List.mem_singleton] at hr
    rcases hr with (hr | ⟨_, rfl⟩) | rfl
    · exact h r hr
    · exact hz
    · exact hg g (by simp)

/-- index-dependent meaning of a list of items -/
def semList (sem : Nat → β → List Note) (i₀ : Nat) (xs : List β) : List Note :=
  ((enumFrom i₀ xs).map fun (x : Nat × β) => sem x.1 x.2).flatten

theorem semList_append (sem : Nat → β → List Note) (i₀ : Nat) (a b : List β) :
    semList sem i₀ (a ++ b) = semList sem i₀ a ++ semList sem (i₀ + a.length) b := by
  simp [semList, enumFrom_append]

theorem semList_blank (sem : Nat → β → List Note) (hb : ∀ i, sem i blank = []) (k : Nat) :
    ∀ i₀, semList sem i₀ (List.replicate k blank) = [] := by
  induction k with
  | zero => intro i₀; rfl
  | succ k ih =>
    intro i₀
    have := ih (i₀ + 1)
    simp only [semList, List.replicate_succ, enumFrom_cons, List.map_cons, List.flatten_cons, hb,
      List.nil_append] at this ⊢
    exact this

theorem stepFold_sem (sem : Nat → β → List Note) (hb : ∀ i, sem i blank = [])
    (groups : List (Int × List Note)) :
    ∀ (xs : List β) (last : Int), (xs.length : Int) = last + 1 → (∀ g ∈ groups, last < g.1) →
      groups.Pairwise (fun g g' => g.1 < g'.1) → (∀ g ∈ groups, sem g.1.toNat (mk g.2) = g.2) →
      semList sem 0 (groups.foldl (stepFold blank mk) (xs, last)).1 =
        semList sem 0 xs ++ (groups.map (·.2)).flatten := by
  induction groups with
  | nil => intro xs last _ _ _ _; simp
  | cons g gs ih =>
    intro xs last hlen hgt hpw hok
    rw [List.foldl_cons]
    rw [List.pairwise_cons] at hpw
    have hg := hgt g (by simp)
    have hidx : 0 + (xs ++ List.replicate (g.1 - (last + 1)).toNat blank).length = g.1.toNat := by
      simp only [List.length_append, List.length_replicate]; omega
    rw [ih (stepFold blank mk (xs, last) g).1 (stepFold blank mk (xs, last) g).2
      (by simp only [stepFold, List.length_append, List.length_replicate, List.length_cons,
            List.length_nil]; push_cast; omega)
      (fun g' hg' => hpw.1 g' hg') hpw.2 (fun g' hg' => hok g' (by simp [hg']))]
    simp only [stepFold, List.map_cons, List.flatten_cons]
    rw [semList_append, hidx, semList_append, semList_blank blank sem hb]
    simp only [semList, enumFrom_cons, enumFrom_nil, List.map_cons, List.map_nil, List.flatten_cons,
      List.flatten_nil, List.append_nil, List.append_assoc]
    rw [hok g (by simp)]

end Generic

/-! ### `joinWith` with a two-character separator -/

theorem joinWith_append {s : Str} {A B : List Str} (hB : B ≠ []) :
    joinWith s (A ++ B) = joinWith s A ++ (if A = [] then [] else s) ++ joinWith s B := by
  induction A with
  | nil => simp
  | cons a as ih =>
    have hne : as ++ B ≠ [] := by simp [hB]
    rw [List.cons_append, joinWith_cons_of_ne_nil s a hne, ih]
    by_cases has : as = []
    · subst has; simp
    · rw [joinWith_cons_of_ne_nil s a has]; simp [has]

theorem joinWith_replicate_snoc (s b c : Str) (k : Nat) :
    joinWith s (List.replicate k b ++ [c]) = (List.replicate k (b ++ s)).flatten ++ c := by
  induction k with
  | zero => simp
  | succ k ih =>
    rw [List.replicate_succ, List.cons_append, joinWith_cons_of_ne_nil s b (by simp), ih]
    simp [List.replicate_succ]

/-- appending `k` blanks and one more part to a joined text -/
theorem joinWith_snoc_block (s b c : Str) (A : List Str) (k : Nat) :
    joinWith s (A ++ List.replicate k b ++ [c]) =
      joinWith s A ++ (if A = [] then [] else s) ++ (List.replicate k (b ++ s)).flatten ++ c := by
  rw [List.append_assoc, joinWith_append (by simp), joinWith_replicate_snoc]
  simp

theorem joinWith_two (c : Char) (s : Str) (b₀ : Str) (bs : List Str) :
    joinWith (c :: s) (b₀ :: bs) = joinWith [c] (b₀ :: bs.map (s ++ ·)) := by
  induction bs generalizing b₀ with
  | nil => rfl
  | cons b bs ih =>
    rw [joinWith_cons_cons, ih b, List.map_cons, joinWith_cons_cons]
    cases bs with
    | nil => simp
    | cons b' bs' =>
      rw [List.map_cons, joinWith_cons_cons, joinWith_cons_cons]
      simp

theorem joinWith_cons_append_left (s a b : Str) (rest : List Str) :
    joinWith s ((a ++ b) :: rest) = a ++ joinWith s (b :: rest) := by
  cases rest with
  | nil => rfl
  | cons r rs => rw [joinWith_cons_cons, joinWith_cons_cons]; simp

/-! ### one player -/

def playerStep (cols : Nat) := stepFold (blankRowsL cols) (measureOf cols)

/-- the measures (as lists of rows) written for one player's notes -/
def playerOf (cols : Nat) (notes : List Note) : List (List DRow) :=
  ((groupRuns measureIndex notes).foldl (playerStep cols) ([], -1)).1

def playerText (rowss : List (List DRow)) : Str := joinWith [',', '\n'] (rowss.map rowsText)

theorem pushPlayer_fold (cols : Nat) (groups : List (Int × List Note)) :
    ∀ (rowss : List (List DRow)) (last : Int), (rowss.length : Int) = last + 1 →
    (∀ g ∈ groups, last < g.1) → groups.Pairwise (fun g g' => g.1 < g'.1) →
    (∀ g ∈ groups, ∀ n ∈ g.2, n.column < cols) →
    groups.foldlM (fun (acc : Str × Int) (mm : Int × List Note) => do
      let (out, last) := acc
      let (m, measure) := mm
      let sep : Str := if last > -1 then [',', '\n'] else []
      let skipped := (m - (last + 1)).toNat
      let fill := (List.replicate skipped (rowsText (blankRowsL cols) ++ [',', '\n'])).flatten
      let body ← pushMeasure cols measure
      pure (out ++ sep ++ fill ++ body, m)) (playerText rowss, last) =
    Except.ok (playerText (groups.foldl (playerStep cols) (rowss, last)).1,
      (groups.foldl (playerStep cols) (rowss, last)).2) := by
  induction groups with
  | nil => intro rowss last _ _ _ _; rfl
  | cons g gs ih =>
    intro rowss last hlen hgt hpw hcol
    obtain ⟨m, measure⟩ := g
    rw [List.pairwise_cons] at hpw
    have hg := hgt (m, measure) (by simp)
    rw [List.foldlM_cons, List.foldl_cons]
    simp only [bind, Except.bind]
    rw [pushMeasure_eq' cols measure (hcol (m, measure) (by simp))]
    simp only [pure, Except.pure]
    have hsep : (if last > -1 then [',', '\n'] else ([] : Str)) =
        (if rowss.map rowsText = [] then [] else [',', '\n']) := by
      by_cases h : rowss = []
      · subst h; simp at hlen; simp; omega
      · have : 0 < rowss.length := List.length_pos_iff.mpr h
        simp [h]; omega
    have e : playerText rowss ++ (if last > -1 then [',', '\n'] else ([] : Str)) ++
        (List.replicate (m - (last + 1)).toNat (rowsText (blankRowsL cols) ++ [',', '\n'])).flatten ++
        rowsText (measureOf cols measure) =
        playerText (playerStep cols (rowss, last) (m, measure)).1 := by
      simp only [playerText, playerStep, stepFold, List.map_append, List.map_replicate, List.map_cons,
        List.map_nil]
      rw [joinWith_snoc_block, hsep]
    rw [e]
    exact ih _ _
      (by simp only [playerStep, stepFold, List.length_append, List.length_replicate, List.length_cons,
            List.length_nil]; push_cast; omega)
      (fun g' hg' => hpw.1 g' hg') hpw.2 (fun g' hg' => hcol g' (by simp [hg']))

theorem pushMeasure_nil (cols : Nat) : pushMeasure cols [] = .ok (rowsText (blankRowsL cols)) := by
  rw [pushMeasure_eq' cols [] (by simp), measureOf_nil]

/-- one player's notes -/
structure PlayerOK (cols p : Nat) (notes : List Note) : Prop where
  sorted : notes.Pairwise (fun a b => keyLt a.key b.key = true)
  player : ∀ n ∈ notes, n.player = p
  nonneg : ∀ n ∈ notes, 0 ≤ n.beat
  column : ∀ n ∈ notes, n.column < cols
  char : ∀ n ∈ notes, isNoteChar n.ntype = true

theorem measureIndex_mono {a b : Note} (h : a.beat ≤ b.beat) : measureIndex a ≤ measureIndex b := by
  unfold measureIndex
  apply Rat.floor_monotone
  linarith

theorem measureIndex_nonneg {a : Note} (h : 0 ≤ a.beat) : 0 ≤ measureIndex a := by
  unfold measureIndex
  rw [Rat.le_floor_iff]
  push_cast
  linarith

theorem PlayerOK.beat_le {cols p : Nat} {notes : List Note} (h : PlayerOK cols p notes) :
    notes.Pairwise (fun a b => a.beat ≤ b.beat) := by
  apply (pairwise_mem h.sorted).imp
  rintro a b ⟨ha, hb, hab⟩
  rw [keyLt_iff] at hab
  simp only [Note.key] at hab
  rcases hab with h1 | ⟨_, h2 | ⟨h2, _⟩⟩
  · rw [h.player a ha, h.player b hb] at h1; exact absurd h1 (Nat.lt_irrefl _)
  · exact le_of_lt h2
  · exact le_of_eq h2

theorem PlayerOK.groups {cols p : Nat} {notes : List Note} (h : PlayerOK cols p notes) :
    (groupRuns measureIndex notes).Pairwise (fun g g' => g.1 < g'.1) ∧
    (∀ g ∈ groupRuns measureIndex notes, (-1 : Int) < g.1) ∧
    (∀ g ∈ groupRuns measureIndex notes, MeasureOK cols p g.1.toNat g.2) := by
  refine ⟨?_, ?_, ?_⟩
  · apply groupRuns_keys_sorted measureIndex (fun (a b : Int) => a < b) (fun a b c => Int.lt_trans)
    apply h.beat_le.imp
    intro a b hab
    have := measureIndex_mono hab
    omega
  · intro g hg
    obtain ⟨hne, hall⟩ := groupRuns_mem _ _ g hg
    obtain ⟨y, hy⟩ := List.exists_mem_of_ne_nil _ hne
    have hsub := groupRuns_run_sublist _ _ g hg
    have := measureIndex_nonneg (h.nonneg y (hsub.subset hy))
    rw [hall y hy] at this
    omega
  · intro g hg
    obtain ⟨hne, hall⟩ := groupRuns_mem _ _ g hg
    have hsub := groupRuns_run_sublist _ _ g hg
    refine ⟨h.sorted.sublist hsub, fun n hn => h.player n (hsub.subset hn), ?_,
      fun n hn => h.column n (hsub.subset hn), fun n hn => h.char n (hsub.subset hn)⟩
    intro n hn
    have := measureIndex_nonneg (h.nonneg n (hsub.subset hn))
    rw [hall n hn] at this ⊢
    omega

theorem pushPlayer_eq {cols p : Nat} {notes : List Note} (h : PlayerOK cols p notes) :
    pushPlayer cols notes = .ok (playerText (playerOf cols notes)) := by
  obtain ⟨h1, h2, h3⟩ := h.groups
  unfold pushPlayer
  rw [pushMeasure_nil]
  simp only [bind, Except.bind]
  have := pushPlayer_fold cols (groupRuns measureIndex notes) [] (-1) (by simp) h2 h1
    (fun g hg n hn => (h3 g hg).column n hn)
  simp only [playerText, List.map_nil, joinWith_nil, bind, Except.bind] at this
  rw [this]
  rfl

/-- the notes of a list of measures given by their rows -/
def semMeasure (p : Nat) (m : Nat) (rows : List DRow) : List Note := Spec.notesOfMeasure p m { rows := rows }

theorem playerOf_notes {cols p : Nat} {notes : List Note} (h : PlayerOK cols p notes) :
    semList (semMeasure p) 0 (playerOf cols notes) = notes := by
  obtain ⟨h1, h2, h3⟩ := h.groups
  have := stepFold_sem (blankRowsL cols) (measureOf cols) (semMeasure p)
    (fun i => blankRowsL_notes cols p i) (groupRuns measureIndex notes) [] (-1) (by simp) h2 h1
    (fun g hg => measureOf_notes (h3 g hg))
  rw [playerOf, playerStep, this, groupRuns_flatten]
  simp [semList]

theorem playerOf_good {cols p : Nat} {notes : List Note} (h : PlayerOK cols p notes) :
    ∀ rows ∈ playerOf cols notes, GoodRows cols rows := by
  obtain ⟨h1, h2, h3⟩ := h.groups
  exact stepFold_all (blankRowsL cols) (measureOf cols) (GoodRows cols) _ (blankRowsL_good cols)
    (fun g hg => measureOf_good (h3 g hg)) [] (-1) (by simp)

theorem playerOf_ne_nil {cols p : Nat} {notes : List Note} (h : PlayerOK cols p notes) (hne : notes ≠ []) :
    playerOf cols notes ≠ [] := by
  obtain ⟨h1, h2, h3⟩ := h.groups
  have hg : groupRuns measureIndex notes ≠ [] := by
    intro e
    have := groupRuns_flatten measureIndex notes
    rw [e] at this
    exact hne (by simpa using this.symm)
  have := stepFold_length (blankRowsL cols) (measureOf cols) (groupRuns measureIndex notes) [] (-1)
    (by simp) h2 h1
  intro e
  rw [playerOf, playerStep] at e
  rw [e] at this
  have h3 := this.2.2 hg
  have h4 := this.1
  simp at h4
  omega

/-! ### all players -/

/-- a stream that `from_notes` accepts and `__iter__` gives back -/
structure StreamOK (cols : Nat) (ns : List Note) : Prop where
  sorted : ns.Pairwise (fun a b => keyLt a.key b.key = true)
  nonneg : ∀ n ∈ ns, 0 ≤ n.beat
  column : ∀ n ∈ ns, n.column < cols
  char : ∀ n ∈ ns, isNoteChar n.ntype = true

def blankPlayer (cols : Nat) : List (List DRow) := [blankRowsL cols]

def chartStep (cols : Nat) (acc : List (List (List DRow)) × Int) (g : Nat × List Note) :
    List (List (List DRow)) × Int :=
  stepFold (blankPlayer cols) (playerOf cols) acc ((g.1 : Int), g.2)

def chartText (players : List (List (List DRow))) : Str := joinWith ['&', '\n'] (players.map playerText)

theorem playerText_blank (cols : Nat) : playerText (blankPlayer cols) = rowsText (blankRowsL cols) := rfl

theorem StreamOK.groups {cols : Nat} {ns : List Note} (h : StreamOK cols ns) :
    (groupRuns (fun n : Note => n.player) ns).Pairwise (fun g g' => g.1 < g'.1) ∧
    (∀ g ∈ groupRuns (fun n : Note => n.player) ns, PlayerOK cols g.1 g.2) := by
  constructor
  · apply groupRuns_keys_sorted (fun n : Note => n.player) (fun (a b : Nat) => a < b) (fun a b c => Nat.lt_trans)
    apply h.sorted.imp
    intro a b hab
    rw [keyLt_iff] at hab
    simp only [Note.key] at hab
    rcases hab with h1 | ⟨h1, _⟩
    · exact Or.inr h1
    · exact Or.inl h1
  · intro g hg
    obtain ⟨_, hall⟩ := groupRuns_mem _ _ g hg
    have hsub := groupRuns_run_sublist _ _ g hg
    exact ⟨h.sorted.sublist hsub, hall, fun n hn => h.nonneg n (hsub.subset hn),
      fun n hn => h.column n (hsub.subset hn), fun n hn => h.char n (hsub.subset hn)⟩

theorem encode_fold (cols : Nat) (groups : List (Nat × List Note)) :
    ∀ (players : List (List (List DRow))) (last : Int), (players.length : Int) = last + 1 →
    (∀ g ∈ groups, last < (g.1 : Int)) → groups.Pairwise (fun g g' => g.1 < g'.1) →
    (∀ g ∈ groups, PlayerOK cols g.1 g.2) →
    groups.foldlM (fun (acc : Str × Int) (pp : Nat × List Note) => do
      let (out, last) := acc
      let (p, pnotes) := pp
      let (pre, last') : Str × Int :=
        if (p : Int) > last then
          ((if last > -1 then ['&', '\n'] else []) ++
           (List.replicate ((p : Int) - (last + 1)).toNat (rowsText (blankRowsL cols) ++ ['&', '\n'])).flatten, (p : Int))
        else ([], last)
      let body ← pushPlayer cols pnotes
      pure (out ++ pre ++ body, last')) (chartText players, last) =
    Except.ok (chartText (groups.foldl (chartStep cols) (players, last)).1,
      (groups.foldl (chartStep cols) (players, last)).2) := by
  induction groups with
  | nil => intro players last _ _ _ _; rfl
  | cons g gs ih =>
    intro players last hlen hgt hpw hok
    obtain ⟨p, pnotes⟩ := g
    rw [List.pairwise_cons] at hpw
    have hg : last < (p : Int) := hgt (p, pnotes) (by simp)
    rw [List.foldlM_cons, List.foldl_cons]
    simp only [bind, Except.bind]
    rw [pushPlayer_eq (hok (p, pnotes) (by simp))]
    simp only [pure, Except.pure]
    rw [if_pos hg]
    simp only
    have hsep : (if last > -1 then ['&', '\n'] else ([] : Str)) =
        (if players.map playerText = [] then [] else ['&', '\n']) := by
      by_cases h : players = []
      · subst h; simp at hlen; simp; omega
      · have : 0 < players.length := List.length_pos_iff.mpr h
        simp [h]; omega
    have e : chartText players ++ ((if last > -1 then ['&', '\n'] else ([] : Str)) ++
        (List.replicate ((p : Int) - (last + 1)).toNat (rowsText (blankRowsL cols) ++ ['&', '\n'])).flatten) ++
        playerText (playerOf cols pnotes) =
        chartText (chartStep cols (players, last) (p, pnotes)).1 := by
      simp only [chartText, chartStep, stepFold, List.map_append, List.map_replicate, List.map_cons,
        List.map_nil]
      rw [joinWith_snoc_block, hsep, playerText_blank]
      simp
    rw [e]
    exact ih _ _
      (by simp only [chartStep, stepFold, List.length_append, List.length_replicate, List.length_cons,
            List.length_nil]; push_cast; omega)
      (fun g' hg' => by have := hpw.1 g' hg'; omega) hpw.2
      (fun g' hg' => hok g' (by simp [hg']))

/-- the players written for a stream -/
def chartOf (cols : Nat) (ns : List Note) : List (List (List DRow)) :=
  if ((groupRuns (fun n : Note => n.player) ns).foldl (chartStep cols) ([], -1)).2 = -1 then
    ((groupRuns (fun n : Note => n.player) ns).foldl (chartStep cols) ([], -1)).1 ++ [blankPlayer cols]
  else ((groupRuns (fun n : Note => n.player) ns).foldl (chartStep cols) ([], -1)).1

theorem chartStep_foldl (cols : Nat) (groups : List (Nat × List Note)) (init : List (List (List DRow)) × Int) :
    groups.foldl (chartStep cols) init =
      (groups.map fun g => ((g.1 : Int), g.2)).foldl (stepFold (blankPlayer cols) (playerOf cols)) init := by
  rw [List.foldl_map]; rfl

theorem StreamOK.groups' {cols : Nat} {ns : List Note} (h : StreamOK cols ns) :
    ((groupRuns (fun n : Note => n.player) ns).map fun g => ((g.1 : Int), g.2)).Pairwise
      (fun g g' => g.1 < g'.1) ∧
    (∀ g ∈ (groupRuns (fun n : Note => n.player) ns).map fun g => ((g.1 : Int), g.2), (-1 : Int) < g.1) := by
  obtain ⟨h1, _⟩ := h.groups
  constructor
  · rw [List.pairwise_map]
    apply h1.imp
    intro a b hab
    show (a.1 : Int) < (b.1 : Int)
    exact_mod_cast hab
  · intro g hg
    simp only [List.mem_map] at hg
    obtain ⟨g', _, rfl⟩ := hg
    simp only
    omega

theorem encode_eq {cols : Nat} {ns : List Note} (h : StreamOK cols ns) :
    encode ns cols = .ok (chartText (chartOf cols ns)) := by
  obtain ⟨h1, h2⟩ := h.groups
  unfold encode
  rw [pushMeasure_nil]
  have := encode_fold cols (groupRuns (fun n : Note => n.player) ns) [] (-1) (by simp)
    (fun g _ => by omega) h1 h2
  simp only [chartText, List.map_nil, joinWith_nil, bind, Except.bind] at this
  simp only [bind, Except.bind]
  rw [this]
  simp only [pure, Except.pure, chartOf]
  have hlen := (stepFold_length (blankPlayer cols) (playerOf cols) _ [] (-1) (by simp)
    h.groups'.2 h.groups'.1).1
  rw [← chartStep_foldl] at hlen
  split
  · rename_i hl
    rw [hl] at hlen
    have : ((groupRuns (fun n : Note => n.player) ns).foldl (chartStep cols) ([], -1)).1 = [] := by
      apply List.eq_nil_of_length_eq_zero
      omega
    rw [this]
    rfl
  · rfl

/-! ### the chart behind the text -/

def semPlayer (p : Nat) (rowss : List (List DRow)) : List Note := semList (semMeasure p) 0 rowss

theorem semPlayer_blank (cols p : Nat) : semPlayer p (blankPlayer cols) = [] := by
  simp [semPlayer, semList, blankPlayer, semMeasure, blankRowsL_notes]

theorem chartOf_notes {cols : Nat} {ns : List Note} (h : StreamOK cols ns) :
    semList semPlayer 0 (chartOf cols ns) = ns := by
  obtain ⟨h1, h2⟩ := h.groups
  have := stepFold_sem (blankPlayer cols) (playerOf cols) semPlayer (fun i => semPlayer_blank cols i)
    _ [] (-1) (by simp) h.groups'.2 h.groups'.1 (by
      intro g hg
      simp only [List.mem_map] at hg
      obtain ⟨g', hg', rfl⟩ := hg
      simp only [Int.toNat_natCast]
      exact playerOf_notes (h2 g' hg'))
  rw [← chartStep_foldl] at this
  have hfl : ((groupRuns (fun n : Note => n.player) ns).map fun g => ((g.1 : Int), g.2)).map (·.2) =
      (groupRuns (fun n : Note => n.player) ns).map (·.2) := by
    rw [List.map_map]; rfl
  rw [hfl, groupRuns_flatten] at this
  unfold chartOf
  split
  · rw [semList_append, this]
    simp [semList, semPlayer_blank]
  · rw [this]; simp [semList]

theorem chartOf_good {cols : Nat} {ns : List Note} (h : StreamOK cols ns) :
    chartOf cols ns ≠ [] ∧ ∀ pl ∈ chartOf cols ns, pl ≠ [] ∧ ∀ rows ∈ pl, GoodRows cols rows := by
  obtain ⟨h1, h2⟩ := h.groups
  have hblank : blankPlayer cols ≠ [] ∧ ∀ rows ∈ blankPlayer cols, GoodRows cols rows := by
    refine ⟨by simp [blankPlayer], ?_⟩
    intro rows hr
    simp only [blankPlayer, List.mem_singleton] at hr
    subst hr
    exact blankRowsL_good cols
  have hall := stepFold_all (blankPlayer cols) (playerOf cols)
    (fun pl => pl ≠ [] ∧ ∀ rows ∈ pl, GoodRows cols rows)
    ((groupRuns (fun n : Note => n.player) ns).map fun g => ((g.1 : Int), g.2)) hblank (by
      intro g hg
      simp only [List.mem_map] at hg
      obtain ⟨g', hg', rfl⟩ := hg
      have hne : g'.2 ≠ [] := (groupRuns_mem _ _ g' hg').1
      exact ⟨playerOf_ne_nil (h2 g' hg') hne, playerOf_good (h2 g' hg')⟩) [] (-1) (by simp)
  rw [← chartStep_foldl] at hall
  have hlen := (stepFold_length (blankPlayer cols) (playerOf cols) _ [] (-1) (by simp)
    h.groups'.2 h.groups'.1).1
  rw [← chartStep_foldl] at hlen
  unfold chartOf
  split
  · refine ⟨by simp, ?_⟩
    intro pl hpl
    rcases List.mem_append.mp hpl with hpl | hpl
    · exact hall pl hpl
    · simp only [List.mem_singleton] at hpl; subst hpl; exact hblank
  · rename_i hl
    refine ⟨?_, hall⟩
    intro e
    rw [e] at hlen
    simp at hlen
    omega

/-! ### from lists of rows to a decorated chart -/

def mkMeasures (pre0 : Str) : List (List DRow) → List DMeasure
  | [] => []
  | r₀ :: rs => { pre := pre0, rows := r₀ } :: rs.map (fun rows => { pre := ['\n'], rows := rows })

def mkChart : List (List (List DRow)) → DChart
  | [] => []
  | p₀ :: ps => mkMeasures [] p₀ :: ps.map (mkMeasures ['\n'])

theorem renderMeasure_mk (pre : Str) (rows : List DRow) :
    renderMeasure { pre := pre, rows := rows } = pre ++ rowsText rows := by
  simp [renderMeasure, rowsText]

theorem renderPlayer_mkMeasures (pre0 : Str) (rowss : List (List DRow)) (h : rowss ≠ []) :
    renderPlayer (mkMeasures pre0 rowss) = pre0 ++ playerText rowss := by
  cases rowss with
  | nil => exact absurd rfl h
  | cons r₀ rs =>
    rw [playerText, List.map_cons, joinWith_two, renderPlayer, mkMeasures, List.map_cons, renderMeasure_mk,
      joinWith_cons_append_left]
    congr 3
    rw [List.map_map, List.map_map]
    apply List.map_congr_left
    intro r _
    simp [renderMeasure_mk]

theorem render_mkChart (players : List (List (List DRow))) (h : ∀ pl ∈ players, pl ≠ []) :
    render (mkChart players) = chartText players := by
  cases players with
  | nil => rfl
  | cons p₀ ps =>
    rw [chartText, List.map_cons, joinWith_two, render, mkChart, List.map_cons,
      renderPlayer_mkMeasures [] p₀ (h p₀ (by simp))]
    simp only [List.nil_append]
    congr 2
    rw [List.map_map, List.map_map]
    apply List.map_congr_left
    intro pl hpl
    simp [renderPlayer_mkMeasures _ pl (h pl (by simp [hpl]))]

theorem mkMeasures_rows (pre0 : Str) (rowss : List (List DRow)) :
    (mkMeasures pre0 rowss).map (·.rows) = rowss := by
  cases rowss with
  | nil => rfl
  | cons r₀ rs =>
    simp only [mkMeasures, List.map_cons, List.map_map, List.cons.injEq, true_and]
    conv => rhs; rw [← List.map_id rs]
    apply List.map_congr_left
    intro r _
    rfl

theorem mkChart_rows (players : List (List (List DRow))) :
    (mkChart players).map (fun ms => ms.map (·.rows)) = players := by
  cases players with
  | nil => rfl
  | cons p₀ ps =>
    simp only [mkChart, List.map_cons, mkMeasures_rows, List.map_map, List.cons.injEq, true_and]
    conv => rhs; rw [← List.map_id ps]
    apply List.map_congr_left
    intro pl _
    simp [mkMeasures_rows]

theorem notesOf_eq_semList (c : DChart) :
    notesOf c = semList semPlayer 0 (c.map (fun ms => ms.map (·.rows))) := by
  simp only [notesOf, semList, semPlayer, enumFrom_map, List.map_map]
  congr 2
  funext x
  simp only [Function.comp, enumFrom_map, List.map_map]
  rfl

theorem wfRows_of_good {cols : Nat} {rows : List DRow} (h : GoodRows cols rows) : wfRows cols rows = true := by
  obtain ⟨hne, hall⟩ := h
  have hrow : ∀ r ∈ rows, ∀ last, wfRow cols last r = true := by
    intro r hr last
    obtain ⟨⟨h1, h2, h3, h4⟩, h5⟩ := hall r hr
    rw [wfRow_iff]
    exact ⟨⟨h1, by rw [h2]; intro c hc; simp at hc, by rw [h3]; intro c hc; simp at hc, h5⟩,
      Or.inl (Or.inl h4)⟩
  clear hall
  induction rows with
  | nil => exact absurd rfl hne
  | cons r rs ih =>
    cases rs with
    | nil => simpa [wfRows] using hrow r (by simp) true
    | cons r₂ rs' =>
      rw [wfRows, Bool.and_eq_true]
      · exact ⟨hrow r (by simp) false, ih (by simp) (fun x hx => hrow x (by simp [hx]))⟩
      · simp

theorem wfMeasure_mk {cols : Nat} {pre : Str} {rows : List DRow} (hpre : ∀ c ∈ pre, pyIsSpace c = true)
    (h : GoodRows cols rows) : wfMeasure cols { pre := pre, rows := rows } = true := by
  rw [wfMeasure_iff]
  exact ⟨hpre, by simp, wfRows_of_good h⟩

theorem wfMeasures_mk {cols : Nat} {pre0 : Str} {rowss : List (List DRow)}
    (hpre : ∀ c ∈ pre0, pyIsSpace c = true) (h : ∀ rows ∈ rowss, GoodRows cols rows) :
    ∀ me ∈ mkMeasures pre0 rowss, wfMeasure cols me = true := by
  cases rowss with
  | nil => intro me hme; simp [mkMeasures] at hme
  | cons r₀ rs =>
    intro me hme
    simp only [mkMeasures, List.mem_cons, List.mem_map] at hme
    rcases hme with rfl | ⟨rows, hr, rfl⟩
    · exact wfMeasure_mk hpre (h r₀ (by simp))
    · exact wfMeasure_mk (by decide) (h rows (by simp [hr]))

theorem mkMeasures_ne_nil {pre0 : Str} {rowss : List (List DRow)} (h : rowss ≠ []) :
    mkMeasures pre0 rowss ≠ [] := by
  cases rowss with
  | nil => exact absurd rfl h
  | cons r₀ rs => simp [mkMeasures]

theorem cols_mkChart {cols : Nat} {players : List (List (List DRow))} (hne : players ≠ [])
    (h : ∀ pl ∈ players, pl ≠ [] ∧ ∀ rows ∈ pl, GoodRows cols rows) :
    Spec.cols (mkChart players) = cols := by
  cases players with
  | nil => exact absurd rfl hne
  | cons p₀ ps =>
    obtain ⟨h1, h2⟩ := h p₀ (by simp)
    cases p₀ with
    | nil => exact absurd rfl h1
    | cons r₀ rs =>
      obtain ⟨h3, h4⟩ := h2 r₀ (by simp)
      cases r₀ with
      | nil => exact absurd rfl h3
      | cons row rows =>
        simp only [mkChart, mkMeasures, Spec.cols]
        exact (h4 row (by simp)).1.1

theorem WF_mkChart {cols : Nat} (hpos : 0 < cols) {players : List (List (List DRow))} (hne : players ≠ [])
    (h : ∀ pl ∈ players, pl ≠ [] ∧ ∀ rows ∈ pl, GoodRows cols rows) :
    WF (mkChart players) = true := by
  rw [WF_iff, cols_mkChart hne h]
  refine ⟨hpos, ?_, ?_⟩
  · cases players with
    | nil => exact absurd rfl hne
    | cons p₀ ps => simp [mkChart]
  · intro ms hms
    cases players with
    | nil => exact absurd rfl hne
    | cons p₀ ps =>
      simp only [mkChart, List.mem_cons, List.mem_map] at hms
      rcases hms with rfl | ⟨pl, hpl, rfl⟩
      · obtain ⟨h1, h2⟩ := h p₀ (by simp)
        exact ⟨mkMeasures_ne_nil h1, wfMeasures_mk (by simp) h2⟩
      · obtain ⟨h1, h2⟩ := h pl (by simp [hpl])
        exact ⟨mkMeasures_ne_nil h1, wfMeasures_mk (by decide) h2⟩

/-- the text written for a sorted stream is the rendering of a well-formed chart with these notes -/
theorem encode_is_render {cols : Nat} (hpos : 0 < cols) {ns : List Note} (h : StreamOK cols ns) :
    ∃ c : DChart, encode ns cols = .ok (render c) ∧ WF c = true ∧ Spec.cols c = cols ∧ notesOf c = ns := by
  obtain ⟨hne, hgood⟩ := chartOf_good h
  refine ⟨mkChart (chartOf cols ns), ?_, WF_mkChart hpos hne hgood, cols_mkChart hne hgood, ?_⟩
  · rw [render_mkChart _ (fun pl hpl => (hgood pl hpl).1)]
    exact encode_eq h
  · rw [notesOf_eq_semList, mkChart_rows]
    exact chartOf_notes h

/-- decode ∘ encode = id -/
theorem decode_encode {cols : Nat} (hpos : 0 < cols) {ns : List Note} (h : StreamOK cols ns) :
    (encode ns cols).bind (fun t => decodeWith cols t) = .ok ns := by
  obtain ⟨c, h1, h2, h3, h4⟩ := encode_is_render hpos h
  rw [h1]
  simp only [Except.bind]
  rw [← h3, decodeWith_render c h2, h4]

theorem firstLineOk_mkChart {cols : Nat} {players : List (List (List DRow))}
    (h : ∀ pl ∈ players, pl ≠ [] ∧ ∀ rows ∈ pl, GoodRows cols rows) :
    C07.firstLineOk (mkChart players) = true := by
  cases players with
  | nil => rfl
  | cons p₀ ps =>
    cases p₀ with
    | nil => cases ps <;> rfl
    | cons r₀ rs =>
      cases rs with
      | cons r₁ rs' => cases ps <;> rfl
      | nil =>
        cases ps with
        | nil => rfl
        | cons p₁ ps' =>
          cases r₀ with
          | nil => rfl
          | cons r rest =>
            cases rest with
            | cons r' rest' => rfl
            | nil =>
              have := ((h [[r]] (by simp)).2 [r] (by simp)).2 r (by simp)
              have heol := this.1.2.2.2
              simp [mkChart, mkMeasures, C07.firstLineOk, heol]

/-- … also through the constructor's column count -/
theorem decode_encode_full {cols : Nat} (hpos : 0 < cols) {ns : List Note} (h : StreamOK cols ns) :
    (encode ns cols).bind decode = .ok (cols, ns) := by
  obtain ⟨hne, hgood⟩ := chartOf_good h
  have h1 : encode ns cols = .ok (render (mkChart (chartOf cols ns))) := by
    rw [render_mkChart _ (fun pl hpl => (hgood pl hpl).1)]
    exact encode_eq h
  rw [h1]
  simp only [Except.bind]
  rw [decode_render _ (WF_mkChart hpos hne hgood) (firstLineOk_mkChart hgood), cols_mkChart hne hgood,
    notesOf_eq_semList, mkChart_rows, chartOf_notes h]

/-- sorted by position with pairwise distinct positions = strictly sorted -/
theorem strict_of_sorted_nodup {ns : List Note}
    (hs : ns.Pairwise (fun a b => keyLe a.key b.key = true)) (hd : (ns.map Note.key).Nodup) :
    ns.Pairwise (fun a b => keyLt a.key b.key = true) := by
  rw [List.Nodup, List.pairwise_map] at hd
  apply (hs.and hd).imp
  rintro a b ⟨h1, h2⟩
  rw [keyLe_eq] at h1
  simpa [h2] using h1

end Spec

end Simfile
