/-
More lemmas about Python's round-half-even and rounding to the tick grid (C14, round 2):
the tie rule, "distance exactly one half iff tie", true nearest, idempotence.
-/
import Simfile.Lemmas.Round
import Mathlib.Tactic.Ring
import Mathlib.Tactic.Push
namespace Simfile

theorem ticks_eq_48 : ticks = 48 := by decide

theorem ticksQ : ((ticks : Nat) : Rat) = 48 := by rw [ticks_eq_48]; norm_num

/-- the tie rule: a half-integer goes to its even neighbour -/
theorem roundHalfEven_tie (k : Int) :
    roundHalfEven ((k : Rat) + 1 / 2) = if k % 2 = 0 then k else k + 1 := by
  have hf : ((k : Rat) + 1 / 2).floor = k :=
    floor_unique' _ k (by linarith) (by linarith)
  unfold roundHalfEven
  simp only [hf]
  have e : (k : Rat) + 1 / 2 - (k : Rat) = 1 / 2 := by ring
  rw [e, if_neg (lt_irrefl _), if_neg (lt_irrefl _)]

/-- the result of a tie is even -/
theorem roundHalfEven_tie_even (k : Int) : roundHalfEven ((k : Rat) + 1 / 2) % 2 = 0 := by
  rw [roundHalfEven_tie]
  split_ifs with h <;> omega

/-- the distance to the rounded value is exactly one half only at a tie -/
theorem roundHalfEven_dist_half_iff (x : Rat) :
    |((roundHalfEven x : Int) : Rat) - x| = 1 / 2 ↔ ∃ k : Int, x = (k : Rat) + 1 / 2 := by
  have h1 := floor_le' x
  have h2 := lt_floor_add_one' x
  constructor
  · intro h
    refine ⟨x.floor, ?_⟩
    unfold roundHalfEven at h
    simp only at h
    split_ifs at h with ha hb hc
    · rw [abs_of_nonpos (by linarith)] at h; linarith
    · rw [abs_of_nonneg (by push_cast; linarith)] at h; push_cast at h; linarith
    · have : x - (x.floor : Rat) = 1 / 2 := le_antisymm (not_lt.mp hb) (not_lt.mp ha)
      linarith
    · have : x - (x.floor : Rat) = 1 / 2 := le_antisymm (not_lt.mp hb) (not_lt.mp ha)
      linarith
  · rintro ⟨k, rfl⟩
    rw [roundHalfEven_tie]
    split_ifs
    · rw [abs_of_nonpos (by linarith)]; ring
    · rw [abs_of_nonneg (by push_cast; linarith)]; push_cast; ring

/-- no integer is closer to `x` than `roundHalfEven x` -/
theorem roundHalfEven_nearest (x : Rat) (m : Int) :
    |((roundHalfEven x : Int) : Rat) - x| ≤ |(m : Rat) - x| := by
  have hn := roundHalfEven_near x
  by_cases e : m = roundHalfEven x
  · rw [e]
  · have hd : (1 : Rat) ≤ |(m : Rat) - (roundHalfEven x : Rat)| := by
      have : (1 : Int) ≤ |m - roundHalfEven x| := Int.one_le_abs (sub_ne_zero.mpr e)
      have h' : ((1 : Int) : Rat) ≤ ((|m - roundHalfEven x| : Int) : Rat) := by exact_mod_cast this
      simpa using h'
    have tri : |(m : Rat) - (roundHalfEven x : Rat)| ≤ |(m : Rat) - x| + |((roundHalfEven x : Int) : Rat) - x| := by
      have := abs_sub_le (m : Rat) x (roundHalfEven x : Rat)
      rwa [abs_sub_comm x _] at this
    linarith

/-! ### on the tick grid -/

theorem roundToTick_eq (x : Rat) : roundToTick x = (roundHalfEven (x * 48) : Rat) / 48 := by
  unfold roundToTick; rw [ticksQ]

theorem onGrid_iff (x : Rat) : onGrid x ↔ ∃ n : Int, x = (n : Rat) / 48 := by
  unfold onGrid; rw [ticksQ]

theorem roundToTick_sub (x : Rat) : roundToTick x - x = ((roundHalfEven (x * 48) : Rat) - x * 48) / 48 := by
  rw [roundToTick_eq]; ring

theorem abs_roundToTick_sub (x : Rat) :
    |roundToTick x - x| = |(roundHalfEven (x * 48) : Rat) - x * 48| / 48 := by
  rw [roundToTick_sub, abs_div, abs_of_pos (by norm_num : (0 : Rat) < 48)]

/-- a value exactly half-way between the ticks `k/48` and `(k+1)/48` goes to the even one -/
theorem roundToTick_tie (x : Rat) (k : Int) (h : x * 48 = (k : Rat) + 1 / 2) :
    roundToTick x = ((if k % 2 = 0 then k else k + 1 : Int) : Rat) / 48 := by
  rw [roundToTick_eq, h, roundHalfEven_tie]

theorem roundToTick_near (x : Rat) : |roundToTick x - x| ≤ 1 / 96 := by
  rw [abs_roundToTick_sub, div_le_iff₀ (by norm_num)]
  have := roundHalfEven_near (x * 48)
  linarith

theorem roundToTick_dist_iff (x : Rat) :
    |roundToTick x - x| = 1 / 96 ↔ ∃ k : Int, x * 48 = (k : Rat) + 1 / 2 := by
  rw [← roundHalfEven_dist_half_iff, abs_roundToTick_sub]
  constructor
  · intro h; rw [div_eq_iff (by norm_num)] at h; rw [h]; norm_num
  · intro h; rw [h]; norm_num

/-- true nearest: no tick is closer -/
theorem roundToTick_nearest (x : Rat) (m : Int) : |roundToTick x - x| ≤ |(m : Rat) / 48 - x| := by
  have h := roundHalfEven_nearest (x * 48) m
  rw [abs_roundToTick_sub]
  have e : (m : Rat) / 48 - x = ((m : Rat) - x * 48) / 48 := by ring
  rw [e, abs_div, abs_of_pos (by norm_num : (0 : Rat) < 48)]
  exact div_le_div_of_nonneg_right h (by norm_num)

theorem roundToTick_of_grid (n : Int) : roundToTick ((n : Rat) / 48) = (n : Rat) / 48 := by
  rw [roundToTick_eq]
  have : (n : Rat) / 48 * 48 = (n : Rat) := by ring
  rw [this, roundHalfEven_int]

theorem roundToTick_onGrid (x : Rat) : onGrid (roundToTick x) := ⟨roundHalfEven (x * (ticks : Rat)), rfl⟩

theorem roundToTick_idem (x : Rat) : roundToTick (roundToTick x) = roundToTick x := by
  obtain ⟨n, hn⟩ := (onGrid_iff _).mp (roundToTick_onGrid x)
  rw [hn, roundToTick_of_grid]

theorem onGrid_iff_fixed (x : Rat) : onGrid x ↔ roundToTick x = x := by
  constructor
  · intro h
    obtain ⟨n, rfl⟩ := (onGrid_iff _).mp h
    exact roundToTick_of_grid n
  · intro h; rw [← h]; exact roundToTick_onGrid x

end Simfile
