/-
Lemmas for C09 (round 2): the EXACT refinement `joinHeadsToTails o F = Spec.joinSpec o F` under a
hypothesis weaker than `F.Nodup`: repeated notes are harmless unless orphaned heads are KEPT and a
hold/roll head occurs twice. This file re-does the buffer lemmas of Lemmas/GroupJoinBuf.lean with an
invariant that does not demand distinct notes.
-/
import Simfile.Lemmas.GroupJoinMain
namespace Simfile.JoinW
open Simfile Simfile.Spec Simfile.Join

/-- the abstract state is well formed: at most one open head per column; open entries are heads;
closed heads are joined or orphaned; and no closed entry shows a plain copy of an open head -/
structure GoodW (o : GOpts) (A : List AN) : Prop where
  cols : ((opens A).map (·.1)).Nodup
  heads : ∀ m, (m, none) ∈ A → isHead m.ntype = true
  cls : ∀ m k, (m, some k) ∈ A → isHead m.ntype = true → (k = .orphanHead ∨ ∃ tb, k = .joined tb)
  sep : ∀ m, (m, none) ∈ A → ∀ y ∈ A, y.2.isSome = true → GNote.plain m ∉ pimage o y

theorem goodW_nil (o : GOpts) : GoodW o [] :=
  ⟨List.nodup_nil, by simp, by simp, by simp⟩

theorem GoodW.append_right {o : GOpts} {A B : List AN} (g : GoodW o (A ++ B)) : GoodW o B := by
  refine ⟨?_, ?_, ?_, ?_⟩
  · have := g.cols
    rw [opens_append, List.map_append, List.nodup_append] at this
    exact this.2.1
  · intro m hm; exact g.heads m (List.mem_append_right _ hm)
  · intro m k hm; exact g.cls m k (List.mem_append_right _ hm)
  · intro m hm y hy; exact g.sep m (List.mem_append_right _ hm) y (List.mem_append_right _ hy)

theorem GoodW.tail {o : GOpts} {x : AN} {A : List AN} (g : GoodW o (x :: A)) : GoodW o A :=
  GoodW.append_right (A := [x]) g

/-- an operation that rewrites the first occurrence of the plain head `h` in the buffer is the
closing of `h`'s column in the abstract state -/
theorem rewriteFirst_spec (o : GOpts) (op : List GNote → Option (List GNote)) (h : Note) (cl : Cls)
    (hskip : ∀ L R, (∀ g ∈ L, g ≠ .plain h) → op (L ++ R) = (op R).map (L ++ ·))
    (hhit : ∀ R, op (.plain h :: R) = some (pimage o (h, some cl) ++ R)) :
    ∀ X : List AN, GoodW o X → (h, none) ∈ X →
      op (X.flatMap (pimage o)) = some ((closeCol h.column cl X).flatMap (pimage o)) := by
  intro X
  induction X with
  | nil => intro _ hm; simp at hm
  | cons x X ih =>
    intro g hm
    rcases x with ⟨m, k⟩
    by_cases hx : k = none ∧ m = h
    · obtain ⟨rfl, rfl⟩ := hx
      have hc := g.cols
      simp only [opens_cons_none, List.map_cons, List.nodup_cons] at hc
      have hno : hasOpen m.column X = false := by
        cases hh : hasOpen m.column X with
        | false => rfl
        | true =>
          exact absurd (mem_opens_cols.mpr (hasOpen_iff.mp hh)) hc.1
      have hid : closeCol m.column cl X = X := closeCol_id hno
      have : closeCol m.column cl ((m, none) :: X) = (m, some cl) :: X := by
        have h2 := hid
        simp only [closeCol, List.map_cons] at h2 ⊢
        rw [h2]; simp
      rw [this]
      simp only [List.flatMap_cons]
      have : pimage o (m, none) = [.plain m] := rfl
      rw [this]
      exact hhit _
    · have hm' : (h, none) ∈ X := by
        rcases List.mem_cons.mp hm with h1 | h1
        · obtain ⟨rfl, rfl⟩ := Prod.mk.inj h1
          exact absurd ⟨rfl, rfl⟩ hx
        · exact h1
      have hhead : ¬ (k = none ∧ m.column = h.column) := by
        rintro ⟨rfl, hcol⟩
        have hc := g.cols
        simp only [opens_cons_none, List.map_cons, List.nodup_cons] at hc
        exact hc.1 (mem_opens_cols.mpr ⟨h, hm', hcol.symm⟩)
      have : closeCol h.column cl ((m, k) :: X) = (m, k) :: closeCol h.column cl X := by
        simp only [closeCol, List.map_cons]
        rw [if_neg hhead]
      rw [this]
      simp only [List.flatMap_cons]
      rw [hskip, ih g.tail hm']
      · simp
      · intro g' hg' he
        subst he
        cases k with
        | none =>
          simp only [pimage, List.mem_singleton] at hg'
          exact hx ⟨rfl, (GNote.plain.inj hg').symm⟩
        | some k' =>
          exact g.sep h hm (m, some k') (by simp) rfl hg'

theorem attachTail_spec (o : GOpts) (h : Note) (tb : Rat) (X : List AN) (g : GoodW o X) (hm : (h, none) ∈ X) :
    attachTail (X.flatMap (pimage o)) h tb = some ((closeCol h.column (.joined tb) X).flatMap (pimage o)) := by
  apply rewriteFirst_spec o (fun b => attachTail b h tb) h (.joined tb) _ _ X g hm
  · intro L R hL; exact attachTail_skip h tb L R hL
  · intro R; simp [attachTail, pimage, image]

theorem removeFirst_spec (o : GOpts) (ho : o.orphanHead = .drop) (h : Note) (X : List AN) (g : GoodW o X)
    (hm : (h, none) ∈ X) :
    removeFirst (X.flatMap (pimage o)) h = some ((closeCol h.column .orphanHead X).flatMap (pimage o)) := by
  apply rewriteFirst_spec o (fun b => removeFirst b h) h .orphanHead _ _ X g hm
  · intro L R hL; exact removeFirst_skip h L R hL
  · intro R; simp [removeFirst, pimage, image, ho]

theorem popUntilHeld_spec (o : GOpts) (H : List (Nat × Note)) :
    ∀ X : List AN, (∀ m, (m, none) ∈ X → m ∈ H.map (·.2)) →
      (∀ y ∈ X, y.2.isSome = true → ∀ g ∈ pimage o y, H.any (fun cn => GNote.plain cn.2 = g) = false) →
      (∃ x ∈ X, x.2 = none) →
      popUntilHeld H (X.flatMap (pimage o)) =
        some ((X.takeWhile (·.2.isSome)).flatMap (pimage o), (X.dropWhile (·.2.isSome)).flatMap (pimage o)) := by
  intro X
  induction X with
  | nil => intro _ _ h; simp at h
  | cons x X ih =>
    intro ha hb hex
    rcases x with ⟨m, _ | k⟩
    · have hmH : m ∈ H.map (·.2) := ha m (by simp)
      have : H.any (fun cn => GNote.plain cn.2 = GNote.plain m) = true := by
        obtain ⟨cn, hcn, rfl⟩ := List.mem_map.mp hmH
        exact List.any_eq_true.mpr ⟨cn, hcn, by simp⟩
      simp only [pimage, List.flatMap_cons, List.cons_append, List.nil_append, popUntilHeld, this, if_true]
      simp [pimage]
    · have hex' : ∃ x ∈ X, x.2 = none := by
        obtain ⟨x, hx, hn⟩ := hex
        rcases List.mem_cons.mp hx with rfl | hx
        · simp at hn
        · exact ⟨x, hx, hn⟩
      have ih' := ih (fun m hm => ha m (List.mem_cons_of_mem _ hm))
        (fun y hy => hb y (List.mem_cons_of_mem _ hy)) hex'
      simp only [List.flatMap_cons, List.takeWhile_cons, List.dropWhile_cons, Option.isSome_some, if_true]
      rw [popUntilHeld_skip, ih']
      · simp
      · intro g hg
        exact hb (m, some k) (by simp) rfl g hg

theorem flushUntilHeld_spec (o : GOpts) (T X : List AN) (hT : ∀ x ∈ T, x.2.isSome = true) (g : GoodW o X) :
    (preState o T X).flushUntilHeld = some (stateOf o (T ++ X)) := by
  unfold JState.flushUntilHeld
  by_cases he : opens X = []
  · have hX : ∀ x ∈ X, x.2.isSome = true := (opens_eq_nil_iff X).mp he
    have hall : ∀ x ∈ T ++ X, x.2.isSome = true := by
      intro x hx
      rcases List.mem_append.mp hx with h | h
      · exact hT x h
      · exact hX x h
    have h1 : (T ++ X).takeWhile (·.2.isSome) = T ++ X := takeWhile_all hall
    have h2 : (T ++ X).dropWhile (·.2.isSome) = [] := dropWhile_all hall
    simp [preState, stateOf, he, JState.flush, h1, h2]
  · have hne : (preState o T X).held.isEmpty = false := by
      simp only [preState]
      cases hh : opens X with
      | nil => exact absurd hh he
      | cons _ _ => rfl
    rw [hne]
    simp only [Bool.false_eq_true, if_false]
    have hex : ∃ x ∈ X, x.2 = none := by
      cases hh : opens X with
      | nil => exact absurd hh he
      | cons cn _ =>
        have : cn ∈ opens X := by rw [hh]; simp
        exact ⟨(cn.2, none), (mem_opens (c := cn.1) (h := cn.2)).mp this |>.1, rfl⟩
    have hp := popUntilHeld_spec o (opens X) X
      (fun m hm => List.mem_map.mpr ⟨(m.column, m), mem_opens.mpr ⟨hm, rfl⟩, rfl⟩)
      (fun y hy hs gg hgg => by
        cases hany : (opens X).any (fun cn => GNote.plain cn.2 = gg) with
        | false => rfl
        | true =>
          exfalso
          obtain ⟨⟨c, m'⟩, hcm, he'⟩ := List.any_eq_true.mp hany
          have he' : GNote.plain m' = gg := by simpa using he'
          subst he'
          exact g.sep m' (mem_opens.mp hcm).1 y hy hs hgg)
      hex
    simp only [preState] at hp ⊢
    rw [hp]
    simp only [Option.map_some, stateOf, preState]
    rw [List.takeWhile_append_of_pos hT, List.dropWhile_append_of_pos hT, opens_dropWhile]
    simp

end Simfile.JoinW
