/-
Lemmas about `shouldCopy`, `copyProperties`, `convertWarps`, `convert` for C16 and C17.
-/
import Simfile.Model.Convert
import Simfile.Lemmas.Views
import Mathlib.Tactic.SplitIfs
import Batteries.Lean.Except
namespace Simfile.Cv
open Simfile Simfile.O Simfile.V

/-! ### behaviours -/

/-- the behaviour applied to a property kind: the caller's entry if present, else the generated default -/
def behaviourOf (beh : List (Nat × Nat)) (kind : Nat) : Nat :=
  match beh.find? (·.1 = kind) with
  | some x => x.2
  | none => ((T.invalidPropertyBehaviors.find? (·.1 = kind)).map (·.2)).getD 0

/-- code of a property kind by its name in the generated `propertyTypes` -/
def kindCode (name : Str) : Nat := ((T.propertyTypes.find? (·.1 = name)).map (·.2)).getD 0

theorem beh_codes : bCOPY = 1 ∧ bIGNORE = 2 ∧ bUNLESS = 3 ∧ bERROR = 4 := by decide

/-- first entry of an INVALID_PROPERTIES table that lists `k` -/
def listedIn (invalid : List (Nat × List Str)) (k : Str) : Option (Nat × List Str) :=
  invalid.find? (fun e => e.2.contains k)

theorem listedIn_some (invalid : List (Nat × List Str)) (k : Str) (e) (h : listedIn invalid k = some e) :
    e ∈ invalid ∧ k ∈ e.2 := by
  unfold listedIn at h
  exact ⟨List.mem_of_find?_eq_some h, by simpa using List.find?_some h⟩

theorem listedIn_none (invalid : List (Nat × List Str)) (k : Str) :
    listedIn invalid k = none ↔ ∀ e ∈ invalid, k ∉ e.2 := by
  unfold listedIn
  rw [List.find?_eq_none]
  simp

theorem shouldCopy_eq (k : Str) (v : Option Str) (invalid : List (Nat × List Str)) (beh : List (Nat × Nat)) :
    shouldCopy k v invalid beh =
      match listedIn invalid k with
      | none => .ok true
      | some e =>
        if behaviourOf beh e.1 = bCOPY then .ok true
        else if behaviourOf beh e.1 = bIGNORE then .ok false
        else if behaviourOf beh e.1 = bUNLESS then
          if strip (v.getD []) = defaultProperty k then .ok false else .error (.invalidProperty k)
        else .error (.invalidProperty k) := by
  unfold shouldCopy listedIn behaviourOf
  cases invalid.find? (fun e => e.2.contains k) with
  | none => rfl
  | some e => rfl

theorem shouldCopy_not_listed (k : Str) (v : Option Str) (invalid beh) (h : listedIn invalid k = none) :
    shouldCopy k v invalid beh = .ok true := by
  rw [shouldCopy_eq, h]

theorem shouldCopy_nil (k : Str) (v : Option Str) (beh : List (Nat × Nat)) : shouldCopy k v [] beh = .ok true := rfl

/-- the only error of `shouldCopy` -/
theorem shouldCopy_error (k : Str) (v : Option Str) (invalid beh) (e : CErr)
    (h : shouldCopy k v invalid beh = .error e) :
    e = .invalidProperty k := by
  rw [shouldCopy_eq] at h
  split at h
  · cases h
  · split_ifs at h <;> cases h <;> rfl

/-- a listed property whose behaviour is not COPY_ANYWAY is never accepted -/
theorem shouldCopy_listed_not_true (k : Str) (v : Option Str) (invalid beh) (e)
    (hl : listedIn invalid k = some e) (hb : behaviourOf beh e.1 ≠ bCOPY) :
    shouldCopy k v invalid beh ≠ .ok true := by
  rw [shouldCopy_eq, hl]
  simp only [hb, if_false]
  split_ifs <;> simp

/-! ### `copyProperties` -/

/-- one iteration of `_copy_properties` -/
def copyStep (sm : Bool) (invalid : List (Nat × List Str)) (beh : List (Nat × Nat)) (out : Dict)
    (kv : Str × Option Str) : Except CErr Dict :=
  match shouldCopy kv.1 kv.2 invalid beh with
  | .error e => .error e
  | .ok true => setItem sm out kv.1 kv.2
  | .ok false => .ok out

theorem copyProperties_nil (sm : Bool) (out : Dict) (invalid beh) :
    copyProperties sm [] out invalid beh = .ok out := rfl

theorem copyProperties_cons (sm : Bool) (kv) (rest : Dict) (out : Dict) (invalid beh) :
    copyProperties sm (kv :: rest) out invalid beh =
      match copyStep sm invalid beh out kv with
      | .error e => .error e
      | .ok out' => copyProperties sm rest out' invalid beh := by
  unfold copyProperties copyStep
  rw [List.foldlM_cons]
  cases h : shouldCopy kv.1 kv.2 invalid beh with
  | error e => rfl
  | ok b =>
    cases b with
    | false => rfl
    | true =>
      simp only [bind, Except.bind]
      cases setItem sm out kv.1 kv.2 <;> rfl

/-- the item is accepted by `shouldCopy` -/
def accepted (invalid : List (Nat × List Str)) (beh : List (Nat × Nat)) (kv : Str × Option Str) : Bool :=
  match shouldCopy kv.1 kv.2 invalid beh with
  | .ok true => true
  | _ => false

theorem setItem_ok (sm : Bool) (d : Dict) (k : Str) (v : Option Str)
    (h : sm = true → k ∈ T.smChartProperties) : setItem sm d k v = .ok (d.set k v) := by
  unfold setItem
  cases sm with
  | false => rfl
  | true => simp [h rfl]

theorem setItem_keyError (d : Dict) (k : Str) (v : Option Str) (h : k ∉ T.smChartProperties) :
    setItem true d k v = .error .keyError := by
  unfold setItem; simp [h]

/-- no item is rejected and no write is refused: the result is the fold of `Dict.set` over the accepted items -/
theorem copyProperties_ok (sm : Bool) (source output : Dict) (invalid beh)
    (h1 : ∀ kv ∈ source, ∃ b, shouldCopy kv.1 kv.2 invalid beh = .ok b)
    (h2 : sm = true → ∀ kv ∈ source, accepted invalid beh kv = true → kv.1 ∈ T.smChartProperties) :
    copyProperties sm source output invalid beh = .ok (setAll output (source.filter (accepted invalid beh))) := by
  induction source generalizing output with
  | nil => rfl
  | cons kv rest ih =>
    rw [copyProperties_cons]
    obtain ⟨b, hb⟩ := h1 kv List.mem_cons_self
    have ih' := fun out => ih out (fun x hx => h1 x (List.mem_cons_of_mem _ hx))
      (fun hs x hx => h2 hs x (List.mem_cons_of_mem _ hx))
    cases b with
    | false =>
      have ha : accepted invalid beh kv = false := by simp [accepted, hb]
      simp only [copyStep, hb, List.filter_cons, ha]
      exact ih' _
    | true =>
      have ha : accepted invalid beh kv = true := by simp [accepted, hb]
      simp only [copyStep, hb, List.filter_cons, ha, if_true]
      rw [setItem_ok sm output kv.1 kv.2 (fun hs => h2 hs kv List.mem_cons_self ha)]
      exact ih' _

/-- the first failing item decides the error -/
theorem copyProperties_first_error (sm : Bool) (pre post output : Dict) (kv : Str × Option Str) (invalid beh)
    (e : CErr)
    (h1 : ∀ x ∈ pre, ∃ b, shouldCopy x.1 x.2 invalid beh = .ok b)
    (h2 : sm = true → ∀ x ∈ pre, accepted invalid beh x = true → x.1 ∈ T.smChartProperties)
    (h3 : copyStep sm invalid beh (setAll output (pre.filter (accepted invalid beh))) kv = .error e) :
    copyProperties sm (pre ++ kv :: post) output invalid beh = .error e := by
  induction pre generalizing output with
  | nil =>
    rw [List.nil_append, copyProperties_cons]
    simp only [List.filter_nil, setAll_nil] at h3
    rw [h3]
  | cons x rest ih =>
    rw [List.cons_append, copyProperties_cons]
    obtain ⟨b, hb⟩ := h1 x List.mem_cons_self
    have ih' := fun out => ih out (fun y hy => h1 y (List.mem_cons_of_mem _ hy))
      (fun hs y hy => h2 hs y (List.mem_cons_of_mem _ hy))
    cases b with
    | false =>
      have ha : accepted invalid beh x = false := by simp [accepted, hb]
      simp only [List.filter_cons, ha] at h3
      simp only [copyStep, hb]
      exact ih' _ h3
    | true =>
      have ha : accepted invalid beh x = true := by simp [accepted, hb]
      simp only [List.filter_cons, ha, if_true, setAll_cons] at h3
      simp only [copyStep, hb]
      rw [setItem_ok sm output x.1 x.2 (fun hs => h2 hs x List.mem_cons_self ha)]
      exact ih' _ h3

/-- every error of `copyProperties` is the error of some item -/
theorem copyProperties_error (sm : Bool) (source output : Dict) (invalid beh) (e : CErr)
    (h : copyProperties sm source output invalid beh = .error e) :
    ∃ kv ∈ source, shouldCopy kv.1 kv.2 invalid beh = .error e ∨
      (shouldCopy kv.1 kv.2 invalid beh = .ok true ∧ sm = true ∧ kv.1 ∉ T.smChartProperties ∧ e = .keyError) := by
  induction source generalizing output with
  | nil => cases h
  | cons kv rest ih =>
    rw [copyProperties_cons] at h
    cases hs : copyStep sm invalid beh output kv with
    | error e' =>
      rw [hs] at h
      cases h
      refine ⟨kv, List.mem_cons_self, ?_⟩
      unfold copyStep at hs
      cases hc : shouldCopy kv.1 kv.2 invalid beh with
      | error e'' => rw [hc] at hs; cases hs; exact Or.inl rfl
      | ok b =>
        rw [hc] at hs
        cases b with
        | false => cases hs
        | true =>
          right
          simp only [] at hs
          unfold setItem at hs
          split at hs
          · rename_i hcond
            cases hs
            simp only [Bool.and_eq_true, Bool.not_eq_true', List.contains_eq_mem, decide_eq_false_iff_not] at hcond
            exact ⟨rfl, hcond.1, hcond.2, rfl⟩
          · cases hs
    | ok out' =>
      rw [hs] at h
      obtain ⟨x, hx, hh⟩ := ih out' h
      exact ⟨x, List.mem_cons_of_mem _ hx, hh⟩

/-! ### `mapM` in `Except` -/

theorem mapM_cons_except {α β ε} (f : α → Except ε β) (a : α) (l : List α) :
    (a :: l).mapM f = match f a with
      | .error e => .error e
      | .ok b => match l.mapM f with
        | .error e => .error e
        | .ok bs => .ok (b :: bs) := by
  rw [List.mapM_cons]
  cases f a with
  | error e => rfl
  | ok b =>
    simp only [bind, Except.bind]
    cases l.mapM f <;> rfl

theorem mapM_error {α β ε} (f : α → Except ε β) (l : List α) (e : ε) (h : l.mapM f = .error e) :
    ∃ a ∈ l, f a = .error e := by
  induction l with
  | nil => cases h
  | cons a l ih =>
    rw [mapM_cons_except] at h
    cases ha : f a with
    | error e' => rw [ha] at h; cases h; exact ⟨a, List.mem_cons_self, ha⟩
    | ok b =>
      rw [ha] at h
      cases hl : l.mapM f with
      | error e' =>
        rw [hl] at h; cases h
        obtain ⟨x, hx, hh⟩ := ih hl
        exact ⟨x, List.mem_cons_of_mem _ hx, hh⟩
      | ok bs => rw [hl] at h; cases h

theorem mapM_ok_of_forall {α β ε} (f : α → Except ε β) (g : α → β) (l : List α) (h : ∀ a ∈ l, f a = .ok (g a)) :
    l.mapM f = .ok (l.map g) := by
  induction l with
  | nil => rfl
  | cons a l ih =>
    rw [mapM_cons_except, h a List.mem_cons_self, ih (fun x hx => h x (List.mem_cons_of_mem _ hx))]
    rfl

/-! ### `convert` -/

/-- `deepcopy(template) or blank()` -/
def startOf (toSSC : Bool) (simTemplate : Option AnySimfile) : AnySimfile :=
  match simTemplate with
  | some t => if t.props.isEmpty then blankSimfile toSSC else t
  | none => blankSimfile toSSC

def chartStartOf (toSSC : Bool) (chartTemplate : Option (Dict × Option (List Str))) : Dict × Option (List Str) :=
  match chartTemplate with
  | some t => if t.1.isEmpty then blankChart toSSC else t
  | none => blankChart toSSC

def invSimOf (toSSC : Bool) : List (Nat × List Str) := if toSSC then T.invalidSSCSimfile else T.invalidSMSimfile
def invChartOf (toSSC : Bool) : List (Nat × List Str) := if toSSC then T.invalidSSCChart else T.invalidSMChart

/-- conversion of one chart -/
def convChart (toSSC : Bool) (chartTemplate : Option (Dict × Option (List Str))) (beh : List (Nat × Nat))
    (c : Dict × Option (List Str)) : Except CErr (Dict × Option (List Str)) := do
  let d ← copyProperties (!toSSC) c.1 (chartStartOf toSSC chartTemplate).1 (invChartOf toSSC) beh
  pure (d, (chartStartOf toSSC chartTemplate).2)

theorem convChart_eq (toSSC : Bool) (ct : Option (Dict × Option (List Str))) (beh : List (Nat × Nat))
    (c : Dict × Option (List Str)) :
    convChart toSSC ct beh c =
      match copyProperties (!toSSC) c.1 (chartStartOf toSSC ct).1 (invChartOf toSSC) beh with
      | .error e => .error e
      | .ok d => .ok (d, (chartStartOf toSSC ct).2) := by
  unfold convChart
  simp only [bind, Except.bind]
  cases copyProperties (!toSSC) c.1 (chartStartOf toSSC ct).1 (invChartOf toSSC) beh <;> rfl

theorem convert_do (src : AnySimfile) (toSSC : Bool) (st : Option AnySimfile)
    (ct : Option (Dict × Option (List Str))) (beh : List (Nat × Nat)) :
    convert src toSSC st ct beh = (do
      convertWarps src
      let props ← copyProperties false src.props (startOf toSSC st).props (invSimOf toSSC) beh
      let charts ← src.charts.mapM (convChart toSSC ct beh)
      pure { isSSC := toSSC, props := props, charts := (startOf toSSC st).charts ++ charts }) := rfl

theorem convert_eq (src : AnySimfile) (toSSC : Bool) (st : Option AnySimfile)
    (ct : Option (Dict × Option (List Str))) (beh : List (Nat × Nat)) :
    convert src toSSC st ct beh =
      match convertWarps src with
      | .error e => .error e
      | .ok _ =>
        match copyProperties false src.props (startOf toSSC st).props (invSimOf toSSC) beh with
        | .error e => .error e
        | .ok props =>
          match src.charts.mapM (convChart toSSC ct beh) with
          | .error e => .error e
          | .ok charts => .ok { isSSC := toSSC, props := props, charts := (startOf toSSC st).charts ++ charts } := by
  rw [convert_do]
  simp only [bind, Except.bind]
  cases convertWarps src with
  | error e => rfl
  | ok u =>
    simp only []
    cases copyProperties false src.props (startOf toSSC st).props (invSimOf toSSC) beh with
    | error e => rfl
    | ok props =>
      simp only []
      cases src.charts.mapM (convChart toSSC ct beh) <;> rfl

/-! ### `convertWarps` -/

theorem warps_table : T.sscSimfileProps.find? (·.1 = ['w','a','r','p','s']) =
    some (['w','a','r','p','s'], ['W','A','R','P','S'], none) := by decide +kernel

theorem attrGet_warps (d : Dict) :
    attrGet .sscSimfile d ['w','a','r','p','s'] = (d.get? ['W','A','R','P','S']).join :=
  attrGet_of_find .sscSimfile d _ _ none warps_table

theorem convertWarps_ssc (src : AnySimfile) (h : src.isSSC = true) :
    convertWarps src = match (src.props.get? ['W','A','R','P','S']).join with
      | some (_ :: _) => .error .notImplemented
      | _ => .ok () := by
  unfold convertWarps
  rw [h, attrGet_warps]
  rfl

theorem convertWarps_ssc_cases (src : AnySimfile) (h : src.isSSC = true) :
    convertWarps src = .ok () ∨ convertWarps src = .error .notImplemented := by
  rw [convertWarps_ssc src h]
  split
  · exact Or.inr rfl
  · exact Or.inl rfl

theorem convertWarps_sm (src : AnySimfile) (h : src.isSSC = false) :
    convertWarps src =
      match beatValuesFromStr (attrGet .smSimfile src.props ['b','p','m','s']),
            beatValuesFromStr (attrGet .smSimfile src.props ['s','t','o','p','s']) with
      | some b, some s =>
        if !(valuesParse b && valuesParse s) then .error .valueError
        else if hasNegative b || hasNegative s then .error .notImplemented else .ok ()
      | _, _ => .error .valueError := by
  unfold convertWarps
  rw [h]
  rfl

/-- a property is listed in an INVALID_PROPERTIES table -/
def Listed (invalid : List (Nat × List Str)) (k : Str) : Prop := ∃ e ∈ invalid, k ∈ e.2

instance (invalid : List (Nat × List Str)) (k : Str) : Decidable (Listed invalid k) := by
  unfold Listed; infer_instance

theorem listedIn_ne_none (invalid : List (Nat × List Str)) (k : Str) : listedIn invalid k ≠ none ↔ Listed invalid k := by
  rw [Ne, listedIn_none]; unfold Listed
  constructor
  · intro h
    apply Classical.byContradiction
    intro hc
    exact h (fun e he hk => hc ⟨e, he, hk⟩)
  · rintro ⟨e, he, hk⟩ h
    exact h e he hk

/-! ### conversion to SSC: nothing is invalid -/

theorem copyProperties_nil_invalid (source output : Dict) (beh : List (Nat × Nat)) :
    copyProperties false source output [] beh = .ok (setAll output source) := by
  induction source generalizing output with
  | nil => rfl
  | cons kv rest ih => rw [copyProperties_cons]; exact ih _

theorem hasNegative_of_mem (rows : List BVRow) (r : BVRow) (q : Rat) (hr : r ∈ rows)
    (hq : parseDecimal r.value = some q) (hn : q < 0) : hasNegative rows = true := by
  unfold hasNegative
  rw [List.any_eq_true]
  exact ⟨r, hr, by rw [hq]; simpa using hn⟩

theorem get?_setAll_of_mem_WF (d0 source : Dict) (kv : Str × Option Str) (hwf : Dict.WF source) (hm : kv ∈ source) :
    (setAll d0 source).get? kv.1 = some kv.2 := by
  obtain ⟨l1, l2, rfl⟩ := List.append_of_mem hm
  obtain ⟨k, v⟩ := kv
  apply get?_setAll_last
  intro x hx e
  unfold Dict.WF at hwf
  rw [keys_append, keys_cons, List.nodup_append] at hwf
  have := (List.nodup_cons.mp hwf.2.1).1
  exact this (e ▸ List.mem_map.mpr ⟨x, hx, rfl⟩)

end Simfile.Cv
