/-
Lemmas for C09: the join phase of group_notes (`joinHeadsToTails`) refines `Spec.joinSpec`.

The processed prefix `P` of the stream is abstracted by the annotated list `pcl P`: every note of `P`
with its class "as far as `P` knows" (`none` = a head that is still open). The machine state after
`P` is a function of that list (`stateOf`): `held` are the open heads in stream order, `buffer` is
the image of the part from the earliest open head on, `out` the image of the part before it.
-/
import Simfile.Spec.Group
namespace Simfile.Join
open Simfile Simfile.Spec

theorem snoc_induction {α} {motive : List α → Prop} (nil : motive [])
    (snoc : ∀ l a, motive l → motive (l ++ [a])) : ∀ l, motive l := by
  intro l
  have : ∀ r : List α, motive r.reverse := by
    intro r
    induction r with
    | nil => exact nil
    | cons a r ih => simpa using snoc _ a ih
  simpa using this l.reverse

theorem takeWhile_all {α} {p : α → Bool} {l : List α} (h : ∀ x ∈ l, p x = true) : l.takeWhile p = l := by
  have := List.takeWhile_append_of_pos (p := p) (l₁ := l) (l₂ := []) h
  simpa using this

theorem dropWhile_all {α} {p : α → Bool} {l : List α} (h : ∀ x ∈ l, p x = true) : l.dropWhile p = [] := by
  have := List.dropWhile_append_of_pos (p := p) (l₁ := l) (l₂ := []) h
  simpa using this

theorem of_mem_takeWhile {α} {p : α → Bool} {l : List α} {x : α} (h : x ∈ l.takeWhile p) : p x = true :=
  List.all_eq_true.mp (List.all_takeWhile (l := l) (p := p)) x h

/-! ### the abstract state -/

/-- a note with its class relative to a prefix; `none` = open head -/
abbrev AN := Note × Option Cls

def pimage (o : GOpts) (x : AN) : List GNote :=
  match x.2 with
  | none => [.plain x.1]
  | some c => image o (x.1, c)

/-- what an open head becomes when `n` arrives in its column -/
def closeCls (n : Note) : Cls := if n.ntype = cTAIL then .joined n.beat else .orphanHead

/-- close the open heads of column `c` with class `cl` -/
def closeCol (c : Nat) (cl : Cls) (A : List AN) : List AN :=
  A.map fun x => if x.2 = none ∧ x.1.column = c then (x.1, some cl) else x

def hasOpen (c : Nat) (A : List AN) : Bool := A.any fun x => x.2.isNone && decide (x.1.column = c)

/-- the open heads, as the `held_columns` dictionary -/
def opens (A : List AN) : List (Nat × Note) := (A.filter (·.2.isNone)).map fun x => (x.1.column, x.1)

@[simp] theorem opens_nil : opens [] = [] := rfl
@[simp] theorem opens_cons_none (m : Note) (A : List AN) :
    opens ((m, none) :: A) = (m.column, m) :: opens A := by simp [opens]
@[simp] theorem opens_cons_some (m : Note) (c : Cls) (A : List AN) :
    opens ((m, some c) :: A) = opens A := by simp [opens]
theorem opens_append (A B : List AN) : opens (A ++ B) = opens A ++ opens B := by simp [opens]

theorem opens_eq_nil_iff (A : List AN) : opens A = [] ↔ ∀ x ∈ A, x.2.isSome = true := by
  induction A with
  | nil => simp
  | cons x A ih =>
    rcases x with ⟨m, _ | c⟩
    · simp
    · simp [ih]

theorem mem_opens {A : List AN} {c : Nat} {h : Note} : (c, h) ∈ opens A ↔ (h, none) ∈ A ∧ c = h.column := by
  induction A with
  | nil => simp
  | cons x A ih =>
    rcases x with ⟨m, _ | k⟩
    · simp only [opens_cons_none, List.mem_cons, Prod.mk.injEq, ih]
      constructor
      · rintro (⟨rfl, rfl⟩ | ⟨h1, h2⟩)
        · simp
        · exact ⟨Or.inr h1, h2⟩
      · rintro ⟨(⟨rfl, -⟩ | h1), h2⟩
        · exact Or.inl ⟨h2, rfl⟩
        · exact Or.inr ⟨h1, h2⟩
    · simp [ih]

theorem mem_opens_cols {A : List AN} {c : Nat} :
    c ∈ (opens A).map (·.1) ↔ ∃ h, (h, none) ∈ A ∧ h.column = c := by
  constructor
  · intro hc
    obtain ⟨⟨c', h⟩, hm, rfl⟩ := List.mem_map.mp hc
    obtain ⟨h1, h2⟩ := mem_opens.mp hm
    exact ⟨h, h1, h2.symm⟩
  · rintro ⟨h, h1, rfl⟩
    exact List.mem_map.mpr ⟨(h.column, h), mem_opens.mpr ⟨h1, rfl⟩, rfl⟩

theorem hasOpen_iff {c : Nat} {A : List AN} : hasOpen c A = true ↔ ∃ h, (h, none) ∈ A ∧ h.column = c := by
  simp only [hasOpen, List.any_eq_true, Bool.and_eq_true, decide_eq_true_eq, Prod.exists]
  constructor
  · rintro ⟨m, k, hm, hk, hc⟩
    cases k with
    | none => exact ⟨m, hm, hc⟩
    | some _ => simp at hk
  · rintro ⟨h, hm, hc⟩
    exact ⟨h, none, hm, rfl, hc⟩

theorem closeCol_map_fst (c : Nat) (cl : Cls) (A : List AN) : (closeCol c cl A).map (·.1) = A.map (·.1) := by
  simp only [closeCol, List.map_map]
  apply List.map_congr_left
  intro x _
  simp only [Function.comp]
  split <;> rfl

theorem closeCol_append (c : Nat) (cl : Cls) (A B : List AN) :
    closeCol c cl (A ++ B) = closeCol c cl A ++ closeCol c cl B := by simp [closeCol]

theorem closeCol_id {c : Nat} {cl : Cls} {A : List AN} (h : hasOpen c A = false) : closeCol c cl A = A := by
  induction A with
  | nil => rfl
  | cons x A ih =>
    simp only [hasOpen, List.any_cons, Bool.or_eq_false_iff] at h
    have ih' := ih (by simpa [hasOpen] using h.2)
    simp only [closeCol, List.map_cons] at ih' ⊢
    rw [ih']
    rcases x with ⟨m, _ | k⟩
    · have : ¬ m.column = c := by simpa using h.1
      simp [this]
    · simp

theorem closeCol_of_allSome {c : Nat} {cl : Cls} {A : List AN} (h : ∀ x ∈ A, x.2.isSome = true) :
    closeCol c cl A = A := by
  apply closeCol_id
  cases hh : hasOpen c A with
  | false => rfl
  | true =>
    obtain ⟨m, hm, _⟩ := hasOpen_iff.mp hh
    simpa using h _ hm

theorem hasOpen_closeCol_same (c : Nat) (cl : Cls) (A : List AN) : hasOpen c (closeCol c cl A) = false := by
  induction A with
  | nil => rfl
  | cons x A ih =>
    simp only [hasOpen, closeCol, List.map_cons, List.any_cons, Bool.or_eq_false_iff] at ih ⊢
    refine ⟨?_, ih⟩
    rcases x with ⟨m, _ | k⟩
    · by_cases hc : m.column = c <;> simp [hc]
    · simp

theorem hasOpen_closeCol_other {c c' : Nat} (cl : Cls) (A : List AN) (hne : c' ≠ c) :
    hasOpen c (closeCol c' cl A) = hasOpen c A := by
  induction A with
  | nil => rfl
  | cons x A ih =>
    simp only [hasOpen, closeCol, List.map_cons, List.any_cons] at ih ⊢
    rw [ih]
    congr 1
    rcases x with ⟨m, _ | k⟩
    · by_cases hc : m.column = c'
      · simp [hc, hne]
      · simp [hc]
    · simp

theorem opens_closeCol (c : Nat) (cl : Cls) (A : List AN) :
    opens (closeCol c cl A) = (opens A).filter (·.1 ≠ c) := by
  induction A with
  | nil => rfl
  | cons x A ih =>
    simp only [closeCol, List.map_cons] at ih ⊢
    rcases x with ⟨m, _ | k⟩
    · by_cases hc : m.column = c
      · simp [hc, ih]
      · simp [hc, ih]
    · simp [ih]

theorem heldContains_opens (c : Nat) (A : List AN) : heldContains (opens A) c = hasOpen c A := by
  induction A with
  | nil => rfl
  | cons x A ih =>
    simp only [heldContains, hasOpen, List.any_cons] at ih ⊢
    rcases x with ⟨m, _ | k⟩
    · simp [ih]
    · simp [ih]

/-- the abstract state is well formed: notes pairwise distinct, at most one open head per column -/
structure Good (A : List AN) : Prop where
  nodup : (A.map (·.1)).Nodup
  cols : ((opens A).map (·.1)).Nodup

theorem Good.tail {x : AN} {A : List AN} (g : Good (x :: A)) : Good A := by
  refine ⟨(List.nodup_cons.mp g.nodup).2, ?_⟩
  have := g.cols
  rcases x with ⟨m, _ | k⟩
  · simp only [opens_cons_none, List.map_cons, List.nodup_cons] at this
    exact this.2
  · simpa using this

theorem Good.append_right {A B : List AN} (g : Good (A ++ B)) : Good B := by
  induction A with
  | nil => exact g
  | cons x A ih => exact ih g.tail

theorem Good.closed_unique {A : List AN} (g : Good A) {m : Note} {k : Option Cls} (hm : (m, k) ∈ A)
    {k' : Option Cls} (hm' : (m, k') ∈ A) : k = k' := by
  induction A with
  | nil => simp at hm
  | cons x A ih =>
    have hnd := List.nodup_cons.mp g.nodup
    rcases List.mem_cons.mp hm with rfl | h1 <;> rcases List.mem_cons.mp hm' with h2 | h2
    · exact (Prod.mk.inj h2).2.symm ▸ rfl
    · exact absurd (List.mem_map.mpr ⟨_, h2, rfl⟩) hnd.1
    · subst h2
      exact absurd (List.mem_map.mpr ⟨_, h1, rfl⟩) hnd.1
    · exact ih g.tail h1 h2

theorem mem_pimage {o : GOpts} {m : Note} {k : Option Cls} {g : GNote} (hg : g ∈ pimage o (m, k)) :
    g = .plain m ∨ ∃ tb, g = .withTail m tb := by
  cases k with
  | none => simp [pimage] at hg; exact Or.inl hg
  | some c =>
    cases c <;> simp only [pimage, image] at hg
    · simp at hg; exact Or.inr ⟨_, hg⟩
    · split at hg <;> simp at hg; exact Or.inl hg
    · simp at hg
    · split at hg <;> simp at hg; exact Or.inl hg
    · simp at hg; exact Or.inl hg

end Simfile.Join
