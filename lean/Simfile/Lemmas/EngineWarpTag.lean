/-
C12 helper: the WARP tag of `beat_at` (bisect_left) against the default tag (bisect_right):
at the time of an event the WARP tag gives the least beat whose last key is not before that time and
the default tag the greatest beat whose first key is not after it; on a coalesced warp segment these
are the two ends of the segment (when no pause lies inside).
-/
import Simfile.Lemmas.EngineClose
import Mathlib.Order.Bounds.Defs
namespace Simfile
open C11

variable {td : TimingData}

/-- B1. the WARP tag never answers a later beat than the default tag -/
theorem beatAt_warp_le_stop (hd : Dom td) (t : Rat) : beatAt td t .warp ≤ beatAt td t .stop := by
  obtain ⟨k₁, y₁, hy₁, hs₁, ha₁, hb₁⟩ := priorByTime_sel hd t .warp
  obtain ⟨k₂, y₂, hy₂, hs₂, ha₂, hb₂⟩ := priorByTime_sel hd t .stop
  have hw1 : decide ((.warp : Tag) = .warp) = true := by decide
  have hw2 : decide ((.stop : Tag) = .warp) = false := by decide
  rw [hw1] at ha₁ hb₁
  rw [hw2] at ha₂ hb₂
  rw [beatAt_eq, beatAt_eq, hs₁, hs₂]
  have hk : k₁ ≤ k₂ := by
    by_contra hc
    have hlt : k₂ < k₁ := by omega
    rcases ha₁ with ha₁ | ha₁
    · omega
    · have h1 : y₁.time < t := ha₁
      have h2 : t < y₁.time := hb₂ k₁ y₁ hlt hy₁
      linarith
  rcases Nat.lt_or_eq_of_le hk with hlt | heq
  · have hlen := states_lt_of_get hy₂
    obtain ⟨z, hz⟩ := states_get td (k₁ + 1) (by omega)
    have h1 := link hd true hy₁ hz ha₁ (hb₁ (k₁ + 1) z (Nat.lt_succ_self _) hz)
    have h2 : z.beat ≤ y₂.beat := beats_le hd hlt hz hy₂
    have h3 : 0 ≤ y₂.beatsUntil t := by
      rcases ha₂ with ha₂ | ha₂
      · omega
      · exact beatsUntil_nonneg (le_of_lt (state_bpm_pos hd hy₂)) (R1_le ha₂)
    linarith
  · subst heq
    rw [hy₁] at hy₂
    obtain rfl := Option.some.inj hy₂
    exact le_refl _

/-! ### spec-side facts -/

theorem timeSpec_neg (hd : Dom td) {b : Rat} (hb : b < 0) (g : Tag) :
    Spec.timeSpec td b g = -td.offset + b * 60 / (td.bpms.headD (0, 0)).2 := by
  rw [timeSpec_eq, paused_eq_K, pausedK_low hd (key_lt.2 (Or.inl hb))]
  unfold travel
  rw [if_pos hb]; ring

theorem timeSpec_neg_lt (hd : Dom td) {b : Rat} (hb : b < 0) (g : Tag) :
    Spec.timeSpec td b g < -td.offset := by
  rw [timeSpec_neg hd hb]
  have : b * 60 / (td.bpms.headD (0, 0)).2 < 0 := by
    apply div_neg_of_neg_of_pos _ (head_pos td hd)
    linarith
  linarith

theorem timeSpec_event_ge (hd : Dom td) {c : Rat} (hc : 0 ≤ c) (h : Tag) : -td.offset ≤ Spec.timeSpec td c h := by
  rw [← timeSpec_zero_warp hd]
  apply timeSpec_mono td hd
  apply key_le.2
  rcases lt_or_eq_of_le hc with h1 | h1
  · exact Or.inl h1
  · exact Or.inr ⟨h1, by simp⟩

/-- one tick outside the warps takes time, whatever the tag on the earlier beat -/
theorem timeSpec_strict_tick (hd : Dom td) {x : Rat} (hx : onGrid x) (h0 : 0 ≤ x)
    (hw : Spec.inWarp td x = false) (g : Tag) :
    Spec.timeSpec td x g < Spec.timeSpec td (x + 1 / 48) .warp := by
  rw [timeSpec_eq, timeSpec_eq, travel_tick hx h0 hw]
  have hp := paused_mono td hd (b₁ := x) (b₂ := x + 1 / 48) (g₁ := g) (g₂ := .warp)
    (key_le.2 (Or.inl (by linarith)))
  have hpos : 0 < (1 / 48 : Rat) * 60 / Spec.bpmOn td x := by
    have := bpmOn_pos td hd x
    positivity
  linarith

theorem inWarp_iff_segs (hd : Dom td) (x : Rat) :
    Spec.inWarp td x = true ↔ ∃ s ∈ segs td.warps, s.1 ≤ x ∧ x < s.2 := by
  obtain ⟨_, _, h3, _⟩ := segs_spec td.warps hd.warps_pos hd.warps_sorted
  unfold Spec.inWarp
  rw [List.any_eq_true, h3 x]
  simp only [Bool.and_eq_true, decide_eq_true_eq]

theorem tickSum_warp (td : TimingData) (n : Nat) : ∀ k : Nat, n ≤ k →
    (∀ m : Nat, n ≤ m → m < k → Spec.inWarp td ((m : Rat) / 48) = true) →
    Spec.tickSum td k = Spec.tickSum td n := by
  intro k hnk
  induction k, hnk using Nat.le_induction with
  | base => intro _; rfl
  | succ k hk ih =>
    intro hc
    show Spec.tickSum td k + Spec.tickTime td k = _
    rw [ih (fun m h1 h2 => hc m h1 (by omega))]
    have hw := hc k hk (by omega)
    unfold Spec.tickTime
    simp only [ticks_cast, hw, if_true, add_zero]

/-! ### at the time of an event -/

/-- the default tag at the time of an event: the greatest tick-aligned beat whose first key is not
after that time -/
theorem stop_at_event_time (hd : Dom td) {e : TEvent} (he : e ∈ events td) :
    IsGreatest {b : Rat | onGrid b ∧ Spec.timeSpec td b .warp ≤ Spec.timeSpec td e.beat e.tag}
      (beatAt td (Spec.timeSpec td e.beat e.tag) .stop) := by
  obtain ⟨y, hr, _, hcase⟩ := sel_window hd (Spec.timeSpec td e.beat e.tag) .stop
  have hw2 : decide ((.stop : Tag) = .warp) = false := by decide
  rw [hw2] at hcase
  rw [hr]
  rcases hcase with ⟨_, _, hall⟩ | ⟨hinv, hR1, hbr⟩
  · exact absurd (hall e he) (lt_irrefl _)
  · have hR1' : y.time ≤ Spec.timeSpec td e.beat e.tag := hR1
    have hmono : ∀ {κb : Rat} {κg : Tag}, ekey e ≤ key κb κg →
        Spec.timeSpec td e.beat e.tag ≤ Spec.timeSpec td κb κg := fun h => timeSpec_mono td hd h
    have hyt : y.time = Spec.timeSpec td e.beat e.tag := by
      apply le_antisymm hR1'
      rw [hinv.time]
      rcases hbr with ⟨z, _, hzinv, _, hR2, _, hsplit⟩ | hall
      · rcases hsplit e he with h | h
        · exact hmono h
        · exfalso
          have h1 : _ < z.time := hR2
          rw [hzinv.time] at h1
          have := timeSpec_mono td hd h
          linarith
      · exact hmono (hall e he)
    have hbeat : y.beat + y.beatsUntil (Spec.timeSpec td e.beat e.tag) = y.beat := by
      by_cases hp : y.tag = .stop ∨ y.tag = .delay
      · rw [beatsUntil_pause hp, add_zero]
      · rw [beatsUntil_run hp, hyt, sub_self, zero_div, zero_mul, roundToTick_zero, add_zero]
    rw [hbeat, ← hyt]
    constructor
    · refine ⟨hinv.grid, ?_⟩
      rw [hinv.time]
      exact timeSpec_mono td hd (key_le.2 (Or.inr ⟨rfl, by simp⟩))
    · rintro b ⟨_, hbt⟩
      by_contra hc
      have hyb : y.beat < b := not_le.1 hc
      have hle : skey y ≤ key b .warp := key_le.2 (Or.inl hyb)
      have hbpm : 0 < y.bpm := by rw [hinv.bpm]; exact bpmBefore_pos hd _
      -- the time at (b, WARP) is strictly after the state time
      have hfin : ∀ (hno : NoneBetween td (skey y) (key b .warp))
          (hp : ¬ (y.tag = .stop ∨ y.tag = .delay)) (hw : y.warp = false), False := by
        intro hno hp hw
        rw [timeSpec_from hd y hinv hp hw b .warp hle hno] at hbt
        have : 0 < (b - y.beat) * 60 / y.bpm := by
          apply div_pos _ hbpm
          linarith
        linarith
      rcases hbr with ⟨z, _, hzinv, hlt, hR2, _, hsplit⟩ | hall
      · have hR2' : y.time < z.time := by rw [hyt]; exact hR2
        by_cases hkz : skey z ≤ key b .warp
        · have := timeSpec_mono td hd (b₁ := z.beat) (g₁ := z.tag) hkz
          rw [← hzinv.time] at this
          linarith
        · have hkz' := not_le.1 hkz
          have hp : ¬ (y.tag = .stop ∨ y.tag = .delay) := by
            intro hp
            obtain ⟨e', he', h1, h2, _⟩ := pause_end_event y hinv hp
            rcases hsplit e' he' with h3 | h3
            · exact lt_irrefl _ (lt_of_lt_of_le h1 h3)
            · have := beat_le_of_key_lt (lt_of_lt_of_le hkz' h3)
              linarith
          cases hw : y.warp
          · exact hfin (window_none hsplit (le_of_lt hkz')) hp hw
          · have := timeSpec_from_warp hd y hinv hp hw z.beat z.tag (le_of_lt hlt)
              (window_none hsplit (le_refl _))
            rw [← hzinv.time] at this
            linarith
      · have hp : ¬ (y.tag = .stop ∨ y.tag = .delay) := by
          intro hp
          obtain ⟨e', he', h1, _, _⟩ := pause_end_event y hinv hp
          exact lt_irrefl _ (lt_of_lt_of_le h1 (hall e' he'))
        cases hw : y.warp
        · exact hfin (last_none hall _) hp hw
        · obtain ⟨e', he', h1⟩ := warp_end_event y hinv hw
          exact lt_irrefl _ (lt_of_lt_of_le h1 (hall e' he'))

/-- the WARP tag at the time of an event: the least tick-aligned beat whose last key is not before
that time -/
theorem warp_at_event_time (hd : Dom td) {e : TEvent} (he : e ∈ events td) :
    IsLeast {b : Rat | onGrid b ∧ Spec.timeSpec td e.beat e.tag ≤ Spec.timeSpec td b .stopEnd}
      (beatAt td (Spec.timeSpec td e.beat e.tag) .warp) := by
  obtain ⟨y, hr, _, hcase⟩ := sel_window hd (Spec.timeSpec td e.beat e.tag) .warp
  have hw1 : decide ((.warp : Tag) = .warp) = true := by decide
  rw [hw1] at hcase
  rw [hr]
  have hge := timeSpec_event_ge hd (event_beat_ok hd he).1 e.tag
  rcases hcase with ⟨rfl, hle, _⟩ | ⟨hinv, hR1, hbr⟩
  · -- the time is the initial time
    have ht : Spec.timeSpec td e.beat e.tag = -td.offset := le_antisymm hle hge
    have hbeat : (initState td).beat + (initState td).beatsUntil (Spec.timeSpec td e.beat e.tag) = 0 := by
      rw [beatsUntil_run (by simp [initState]), ht]
      show 0 + roundToTick ((-td.offset - -td.offset) / 60 * _) = 0
      rw [sub_self, zero_div, zero_mul, roundToTick_zero, add_zero]
    rw [hbeat, ht]
    constructor
    · exact ⟨onGrid_zero, timeSpec_event_ge hd (le_refl _) _⟩
    · rintro b ⟨_, hbt⟩
      by_contra hc
      have := timeSpec_neg_lt hd (not_le.1 hc) .stopEnd
      linarith
  · have hR1' : y.time < Spec.timeSpec td e.beat e.tag := hR1
    have hbpm : 0 < y.bpm := by rw [hinv.bpm]; exact bpmBefore_pos hd _
    rcases hbr with ⟨z, _, hzinv, hlt, hR2, _, hsplit⟩ | hall
    · have hR2' : Spec.timeSpec td e.beat e.tag ≤ z.time := hR2
      have hzt : z.time = Spec.timeSpec td e.beat e.tag := by
        apply le_antisymm _ hR2'
        rcases hsplit e he with h | h
        · exfalso
          have := timeSpec_mono td hd h
          rw [← hinv.time] at this
          linarith
        · rw [hzinv.time]; exact timeSpec_mono td hd h
      have hyz : y.beat ≤ z.beat := beat_le_of_key_lt hlt
      have hnone := window_none hsplit (le_refl (skey z))
      -- either the state is a pause on the beat of the next state, or it runs outside the warps
      have hkind : ((y.tag = .stop ∨ y.tag = .delay) ∧ z.beat = y.beat) ∨
          (¬ (y.tag = .stop ∨ y.tag = .delay) ∧ y.warp = false ∧
            z.time = y.time + (z.beat - y.beat) * 60 / y.bpm) := by
        by_cases hp : y.tag = .stop ∨ y.tag = .delay
        · left
          refine ⟨hp, ?_⟩
          obtain ⟨e', he', h1, h2, _⟩ := pause_end_event y hinv hp
          rcases hsplit e' he' with h3 | h3
          · exact absurd (lt_of_lt_of_le h1 h3) (lt_irrefl _)
          · have := beat_le_of_key_le h3
            linarith
        · right
          cases hw : y.warp
          · refine ⟨hp, rfl, ?_⟩
            rw [hzinv.time]
            exact timeSpec_from hd y hinv hp hw z.beat z.tag (le_of_lt hlt) hnone
          · exfalso
            have := timeSpec_from_warp hd y hinv hp hw z.beat z.tag (le_of_lt hlt) hnone
            rw [← hzinv.time] at this
            linarith
      have hbeat : y.beat + y.beatsUntil (Spec.timeSpec td e.beat e.tag) = z.beat := by
        rcases hkind with ⟨hp, hzb⟩ | ⟨hp, _, hzt'⟩
        · rw [beatsUntil_pause hp, add_zero, hzb]
        · rw [beatsUntil_run hp, ← hzt, hzt']
          have : (y.time + (z.beat - y.beat) * 60 / y.bpm - y.time) / 60 * y.bpm = z.beat - y.beat := by
            field_simp
            ring
          rw [this, roundToTick_grid (onGrid_sub hzinv.grid hinv.grid)]
          ring
      rw [hbeat, ← hzt]
      constructor
      · refine ⟨hzinv.grid, ?_⟩
        rw [hzinv.time]
        exact timeSpec_mono td hd (key_le.2 (Or.inr ⟨rfl, Tag.val_le_six _ |>.trans (by simp)⟩))
      · rintro b ⟨_, hbt⟩
        by_contra hc
        have hbz : b < z.beat := not_le.1 hc
        have hkz : key b .stopEnd < skey z := key_lt.2 (Or.inl hbz)
        by_cases hky : key b .stopEnd ≤ skey y
        · have := timeSpec_mono td hd (b₂ := y.beat) (g₂ := y.tag) hky
          rw [← hinv.time] at this
          linarith
        · have hky' := not_le.1 hky
          rcases hkind with ⟨_, hzb⟩ | ⟨hp, hw, hzt'⟩
          · have := beat_le_of_key_lt hky'
            linarith
          · rw [timeSpec_from hd y hinv hp hw b .stopEnd (le_of_lt hky')
              (window_none hsplit (le_of_lt hkz)), hzt'] at hbt
            have : (b - y.beat) * 60 / y.bpm < (z.beat - y.beat) * 60 / y.bpm := by
              apply div_lt_div_of_pos_right _ hbpm
              linarith
            linarith
    · exfalso
      have := timeSpec_mono td hd (hall e he)
      rw [← hinv.time] at this
      linarith

/-! ### on a coalesced warp segment -/

/-- a coalesced segment: its ends are tick-aligned, non-negative, and just outside the warp union -/
theorem seg_facts (hd : Dom td) {sg : Rat × Rat} (hsg : sg ∈ segs td.warps) :
    0 ≤ sg.1 ∧ sg.1 < sg.2 ∧ onGrid sg.1 ∧ onGrid sg.2 ∧ Spec.inWarp td sg.2 = false ∧
      (0 < sg.1 → Spec.inWarp td (sg.1 - 1 / 48) = false) := by
  obtain ⟨s1, s2, s3⟩ := segs_facts hd
  obtain ⟨h0, hg1, hg2⟩ := s3 sg hsg
  have hlt := s2 sg hsg
  refine ⟨h0, hlt, hg1, hg2, ?_, ?_⟩
  · cases hw : Spec.inWarp td sg.2
    · rfl
    · exfalso
      obtain ⟨s', hs', h1, h2⟩ := (inWarp_iff_segs hd _).1 hw
      rcases pairwise_trichotomy s1 hs' hsg with h | h | h
      · rw [h] at h2; exact lt_irrefl _ h2
      · have := s2 s' hs'; linarith
      · linarith
  · intro hpos
    cases hw : Spec.inWarp td (sg.1 - 1 / 48)
    · rfl
    · exfalso
      obtain ⟨s', hs', h1, h2⟩ := (inWarp_iff_segs hd _).1 hw
      rcases pairwise_trichotomy s1 hs' hsg with h | h | h
      · rw [h] at h1; linarith
      · have := grid_gap (s3 s' hs').2.2 hg1 h
        linarith
      · linarith

/-- the least tick-aligned beat whose last key is not before the start of the segment is its start -/
theorem seg_lo (hd : Dom td) {sg : Rat × Rat} (hsg : sg ∈ segs td.warps) :
    IsLeast {b : Rat | onGrid b ∧ Spec.timeSpec td sg.1 .warp ≤ Spec.timeSpec td b .stopEnd} sg.1 := by
  obtain ⟨h0, _, hg1, _, _, hbefore⟩ := seg_facts hd hsg
  constructor
  · exact ⟨hg1, timeSpec_mono td hd (key_le.2 (Or.inr ⟨rfl, by simp⟩))⟩
  · rintro b ⟨hbg, hbt⟩
    by_contra hc
    have hb : b < sg.1 := not_le.1 hc
    by_cases hneg : b < 0
    · have h1 := timeSpec_neg_lt hd hneg .stopEnd
      have h2 := timeSpec_event_ge hd h0 .warp
      linarith
    · have hb0 : 0 ≤ b := not_lt.1 hneg
      have hgap := grid_gap hbg hg1 hb
      have hx0 : 0 ≤ sg.1 - 1 / 48 := by linarith
      have hxg : onGrid (sg.1 - 1 / 48) := onGrid_sub hg1 ⟨1, by rw [ticks_cast]; norm_num⟩
      have h1 := timeSpec_strict_tick hd hxg hx0 (hbefore (by linarith)) .stopEnd
      rw [sub_add_cancel] at h1
      have h2 : Spec.timeSpec td b .stopEnd ≤ Spec.timeSpec td (sg.1 - 1 / 48) .stopEnd := by
        apply timeSpec_mono td hd
        apply key_le.2
        rcases lt_or_eq_of_le (show b ≤ sg.1 - 1 / 48 by linarith) with h | h
        · exact Or.inl h
        · exact Or.inr ⟨h, le_refl _⟩
      linarith

/-- every tick-aligned beat after the end of the segment has its first key after the segment's start time -/
theorem seg_hi_upper (hd : Dom td) {sg : Rat × Rat} (hsg : sg ∈ segs td.warps) {b : Rat} (hbg : onGrid b)
    (hbt : Spec.timeSpec td b .warp ≤ Spec.timeSpec td sg.1 .warp) : b ≤ sg.2 := by
  obtain ⟨h0, hlt, _, hg2, hend, _⟩ := seg_facts hd hsg
  by_contra hc
  have h1 := timeSpec_strict_beat hd hg2 (by linarith) hend .warp hbg (not_le.1 hc)
  have h2 : Spec.timeSpec td sg.1 .warp ≤ Spec.timeSpec td sg.2 .stop :=
    timeSpec_mono td hd (key_le.2 (Or.inl hlt))
  linarith

/-- with no pause inside the segment the whole segment elapses at its start time -/
theorem seg_time_eq (hd : Dom td) {sg : Rat × Rat} (hsg : sg ∈ segs td.warps)
    (hstops : ∀ e ∈ td.stops, ¬ (sg.1 ≤ e.1 ∧ e.1 < sg.2))
    (hdelays : ∀ e ∈ td.delays, ¬ (sg.1 ≤ e.1 ∧ e.1 < sg.2)) :
    Spec.timeSpec td sg.2 .warp = Spec.timeSpec td sg.1 .warp := by
  obtain ⟨h0, hlt, hg1, hg2, _, _⟩ := seg_facts hd hsg
  have hle : key sg.1 .warp ≤ key sg.2 .warp := key_le.2 (Or.inl hlt)
  rw [timeSpec_eq, timeSpec_eq, paused_eq_K, paused_eq_K]
  have hp : pausedK td (key sg.1 .warp) = pausedK td (key sg.2 .warp) := by
    apply pausedK_congr td hle
    intro e he htag hh
    have hb1 : sg.1 ≤ e.beat := beat_le_of_key_lt hh.1
    have hb2 : e.beat < sg.2 := by
      rcases key_le.1 hh.2 with h | h
      · exact h
      · exfalso
        have := h.2
        rcases htag with htag | htag <;> rw [htag] at this <;> simp at this
    rcases htag with htag | htag
    · exact hdelays _ (events_delayEnd he htag) ⟨hb1, hb2⟩
    · exact hstops _ (events_stopEnd he htag) ⟨hb1, hb2⟩
  have ht : travel td sg.2 = travel td sg.1 := by
    obtain ⟨n, hn⟩ := onGrid_nat hg1 h0
    obtain ⟨k, hk⟩ := onGrid_nat hg2 (by linarith)
    have hnk : n ≤ k := by
      have : (n : Rat) / 48 < (k : Rat) / 48 := by rw [← hn, ← hk]; exact hlt
      have h1 : (n : Rat) < (k : Rat) := (div_lt_div_iff_of_pos_right (by norm_num : (0 : Rat) < 48)).1 this
      have h2 : n < k := by exact_mod_cast h1
      omega
    rw [hn, hk, travel_grid, travel_grid]
    apply tickSum_warp td n k hnk
    intro m h1 h2
    apply (inWarp_iff_segs hd _).2
    refine ⟨sg, hsg, ?_, ?_⟩
    · rw [hn]
      apply div_le_div_of_nonneg_right _ (by norm_num)
      exact_mod_cast h1
    · rw [hk]
      apply div_lt_div_of_pos_right _ (by norm_num)
      exact_mod_cast h2
  rw [hp, ht]

/-- the WARP tag at the start time of a coalesced segment answers the start of the segment -/
theorem beatAt_warp_seg (hd : Dom td) {sg : Rat × Rat} (hsg : sg ∈ segs td.warps) :
    beatAt td (Spec.timeSpec td sg.1 .warp) .warp = sg.1 := by
  have h := warp_at_event_time hd (ev_warp hsg)
  dsimp only at h
  exact h.unique (seg_lo hd hsg)

/-- the default tag at the start time of a coalesced segment answers the furthest beat whose first key
is reached at that time; it is at most the end of the segment -/
theorem beatAt_stop_seg (hd : Dom td) {sg : Rat × Rat} (hsg : sg ∈ segs td.warps) :
    IsGreatest {b : Rat | onGrid b ∧ Spec.timeSpec td b .warp ≤ Spec.timeSpec td sg.1 .warp}
      (beatAt td (Spec.timeSpec td sg.1 .warp) .stop) := by
  have h := stop_at_event_time hd (ev_warp hsg)
  dsimp only at h
  exact h

/-- with no pause inside the segment the default tag answers the end of the segment -/
theorem beatAt_stop_seg_no_pause (hd : Dom td) {sg : Rat × Rat} (hsg : sg ∈ segs td.warps)
    (hstops : ∀ e ∈ td.stops, ¬ (sg.1 ≤ e.1 ∧ e.1 < sg.2))
    (hdelays : ∀ e ∈ td.delays, ¬ (sg.1 ≤ e.1 ∧ e.1 < sg.2)) :
    beatAt td (Spec.timeSpec td sg.1 .warp) .stop = sg.2 := by
  obtain ⟨_, _, _, hg2, _, _⟩ := seg_facts hd hsg
  apply (beatAt_stop_seg hd hsg).unique
  constructor
  · exact ⟨hg2, le_of_eq (seg_time_eq hd hsg hstops hdelays)⟩
  · rintro b ⟨hbg, hbt⟩
    exact seg_hi_upper hd hsg hbg hbt

end Simfile
