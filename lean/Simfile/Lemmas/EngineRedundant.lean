/-
C12 helper (redundant BPM rows, part 3): `beat_at` is unchanged by inserting a redundant BPM row,
unless the time is an exact half tick away from a state (where ties-to-even rounding from a different
origin may give the neighbouring tick); in every case the two answers are at most one tick apart.
-/
import Simfile.Lemmas.EngineRedundantStates
import Simfile.Lemmas.EngineEval
namespace Simfile
open C11

theorem advance_time_warp (y : TState) (e : TEvent) (hp : ¬ (y.tag = .stop ∨ y.tag = .delay))
    (hw : y.warp = true) : (advance y e).time = y.time := by
  show y.time + y.timeUntil e.beat e.tag = y.time
  unfold TState.timeUntil
  rw [if_pos hw, if_neg (fun h => hp h.1)]
  ring

theorem advance_time_run (y : TState) (e : TEvent) (hp : ¬ (y.tag = .stop ∨ y.tag = .delay))
    (hw : ¬ y.warp = true) : (advance y e).time = y.time + (e.beat - y.beat) * 60 / y.bpm := by
  show y.time + y.timeUntil e.beat e.tag = _
  unfold TState.timeUntil
  rw [if_neg hw, if_neg (fun h => hp h.1)]
  ring

/-- Step C: either the same answer, or both answers extrapolate from the same state of `td`, the second
one from an origin shifted by a grid distance `d` -/
theorem beatAt_withBpm_cases (td : TimingData) (h : Dom td) (x : Rat) (hx : onGrid x) (hpos : 0 < x)
    (hnew : ∀ e ∈ td.bpms, e.1 ≠ x) (t : Rat) (g : Tag) :
    beatAt (withBpm td x) t g = beatAt td t g ∨
    ∃ s ∈ states td, ∃ d, onGrid d ∧
      beatAt td t g = s.beat + roundToTick ((t - s.time) / 60 * s.bpm) ∧
      beatAt (withBpm td x) t g = s.beat + d + roundToTick ((t - s.time) / 60 * s.bpm - d) := by
  have hd' := dom_withBpm td h x hx hpos hnew
  obtain ⟨A0, y, post, hL, hL', hinv, hnp, hbpm, hbeat, hwarp⟩ := states_withBpm td h x hx hpos hnew
  obtain ⟨k, yk, hyk, hsel, h1, h2⟩ := priorByTime_sel h t g
  obtain ⟨k', y', hyk', hsel', h1', h2'⟩ := priorByTime_sel hd' t g
  have S : Sel (A0 ++ y :: run y post) (decide (g = .warp)) t k yk := by
    rw [← hL]; exact ⟨hyk, h1, h2⟩
  have S' : Sel (A0 ++ y :: advance y (exEv td x) :: run y post) (decide (g = .warp)) t k' y' := by
    rw [← hL']; exact ⟨hyk', h1', h2'⟩
  have hs : ∀ j z, j ≤ A0.length → (A0 ++ y :: advance y (exEv td x) :: run y post)[j]? = some z →
      z.time ≤ (advance y (exEv td x)).time := by
    intro j z hj hz
    rw [← hL'] at hz
    exact times_le hd' (by omega : j ≤ A0.length + 1) hz (by rw [hL']; exact ins_get_mid)
  rw [beatAt_eq, beatAt_eq, hsel, hsel']
  rcases sel_insert hs S with ⟨k'', S''⟩ | ⟨rfl, hk, S'', hR1, hnR2⟩
  · left; rw [sel_unique S' S'']
  · right
    have hy' : y' = advance yk (exEv td x) := sel_unique S' S''
    have hmem : yk ∈ states td := by rw [hL]; simp
    have hnw : ¬ yk.warp = true := by
      intro hw
      obtain ⟨e, es, hpost⟩ := List.exists_cons_of_ne_nil (hwarp hw)
      have hz : (A0 ++ yk :: run yk post)[A0.length + 1]? = some (advance yk e) := by
        rw [hpost, List.getElem?_append_right (by omega)]; simp [run]
      have hR2 := S.2.2 (A0.length + 1) _ (by omega) hz
      rw [advance_time_warp yk e hnp hw, ← advance_time_warp yk (exEv td x) hnp hw] at hR2
      exact hnR2 hR2
    have hp : 0 < yk.bpm := by rw [hinv.bpm]; exact bpmBefore_pos h _
    refine ⟨yk, hmem, x - yk.beat, onGrid_sub hx hinv.grid, ?_, ?_⟩
    · rw [beatsUntil_run hnp]
    · rw [hy']
      have hnp' : ¬ ((advance yk (exEv td x)).tag = .stop ∨ (advance yk (exEv td x)).tag = .delay) := by
        rintro (hc | hc) <;> cases hc
      rw [beatsUntil_run hnp']
      have hb : (advance yk (exEv td x)).bpm = yk.bpm := hbpm.symm
      have hbt : (advance yk (exEv td x)).beat = x := rfl
      have htm : (advance yk (exEv td x)).time = yk.time + (x - yk.beat) * 60 / yk.bpm :=
        advance_time_run yk (exEv td x) hnp hnw
      rw [hb, hbt, htm]
      have e2 : (t - (yk.time + (x - yk.beat) * 60 / yk.bpm)) / 60 * yk.bpm =
          (t - yk.time) / 60 * yk.bpm - (x - yk.beat) := by
        field_simp
        ring
      rw [e2]
      ring

theorem beatAt_withBpm_of_no_tie (td : TimingData) (h : C11.Dom td) (x : Rat) (hx : onGrid x) (hpos : 0 < x)
    (hnew : ∀ e ∈ td.bpms, e.1 ≠ x) (t : Rat) (g : Tag)
    (hnt : ∀ s ∈ states td, ¬ halfTick ((t - s.time) / 60 * s.bpm)) :
    beatAt (withBpm td x) t g = beatAt td t g := by
  rcases beatAt_withBpm_cases td h x hx hpos hnew t g with he | ⟨s, hs, d, hd, e1, e2⟩
  · exact he
  · rw [e1, e2, roundToTick_sub_grid (hnt s hs) hd]
    ring

theorem beatAt_withBpm_near (td : TimingData) (h : C11.Dom td) (x : Rat) (hx : onGrid x) (hpos : 0 < x)
    (hnew : ∀ e ∈ td.bpms, e.1 ≠ x) (t : Rat) (g : Tag) :
    |beatAt (withBpm td x) t g - beatAt td t g| ≤ 1 / 48 := by
  rcases beatAt_withBpm_cases td h x hx hpos hnew t g with he | ⟨s, hs, d, hd, e1, e2⟩
  · rw [he, sub_self, abs_zero]
    norm_num
  · rw [e1, e2]
    have := roundToTick_sub_grid_near ((t - s.time) / 60 * s.bpm) hd
    have e : s.beat + d + roundToTick ((t - s.time) / 60 * s.bpm - d) -
        (s.beat + roundToTick ((t - s.time) / 60 * s.bpm)) =
        roundToTick ((t - s.time) / 60 * s.bpm - d) - (roundToTick ((t - s.time) / 60 * s.bpm) - d) := by
      ring
    rw [e]
    exact this

/-- non-vacuity: the hypotheses of `beatAt_withBpm_of_no_tie` hold for the timing data of the tie
counter-example (`cex_tie`) at the time `1/24` s (two ticks), and fail there only at the half tick `3/96` -/
example : C11.Dom tieTd ∧ onGrid (1/48 : Rat) ∧ (0 : Rat) < 1/48 ∧ (∀ e ∈ tieTd.bpms, e.1 ≠ 1/48) ∧
    (∀ s ∈ states tieTd, ¬ halfTick ((1/24 - s.time) / 60 * s.bpm)) ∧
    (∃ s ∈ states tieTd, halfTick ((3/96 - s.time) / 60 * s.bpm)) := by
  refine ⟨tieTd_dom, tie_hyps.1, tie_hyps.2.1, tie_hyps.2.2, ?_, ?_⟩
  · intro s hs
    rw [states_tieTd, List.mem_singleton] at hs
    subst hs
    rintro ⟨m, hm⟩
    have h2 : ((2 * m : Int) : Rat) = ((3 : Int) : Rat) := by push_cast; norm_num at hm; linarith
    have h3 : 2 * m = 3 := by exact_mod_cast h2
    omega
  · refine ⟨_, by rw [states_tieTd]; exact List.mem_singleton_self _, 1, ?_⟩
    norm_num

end Simfile
