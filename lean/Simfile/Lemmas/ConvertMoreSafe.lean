/-
MSD-safety of the document `sm_to_ssc(sm)` writes, from a condition on the SM source alone: no key or value contains
'#' or "///". Lemmas behind `C16More.reload_text_blank_plain`.
-/
import Simfile.Lemmas.ConvertTiming
import Simfile.Lemmas.ConvertBack
import Simfile.Lemmas.MsdLexDoc
import Simfile.Props.C02
namespace Simfile.Cv
open Simfile Simfile.O Simfile.V Simfile.CT Simfile.MsdP

/-! ### plain strings -/

/-- no '#' and no "///" -/
def plain (s : Str) : Bool := !s.contains '#' && !containsSub s ['/', '/', '/']

theorem containsSub_iff_infix (s p : Str) : containsSub s p = true ↔ p <:+: s := by
  induction s with
  | nil =>
    unfold containsSub
    cases p <;> simp
  | cons c cs ih =>
    unfold containsSub
    rw [Bool.or_eq_true, ih, List.infix_cons_iff, List.isPrefixOf_iff_prefix]

/-- the first piece is a prefix, every piece an infix -/
theorem splitOn_pieces (sep : Char) (s : Str) :
    (∃ p ps, splitOn sep s = p :: ps ∧ p <+: s) ∧ ∀ q ∈ splitOn sep s, q <:+: s := by
  induction s with
  | nil => exact ⟨⟨[], [], rfl, List.prefix_refl _⟩, by simp [splitOn]⟩
  | cons c cs ih =>
    obtain ⟨⟨p, ps, hp, hpre⟩, hall⟩ := ih
    unfold splitOn
    split_ifs with hc
    · refine ⟨⟨[], _, rfl, List.nil_prefix⟩, ?_⟩
      intro q hq
      rcases List.mem_cons.mp hq with rfl | hq
      · exact List.nil_infix
      · exact (hall q hq).trans (List.infix_cons (List.infix_refl _))
    · rw [hp]
      simp only []
      refine ⟨⟨c :: p, ps, rfl, (List.prefix_cons_inj c).mpr hpre⟩, ?_⟩
      intro q hq
      rcases List.mem_cons.mp hq with rfl | hq
      · exact ((List.prefix_cons_inj c).mpr hpre).isInfix
      · exact (hall q (by rw [hp]; exact List.mem_cons_of_mem _ hq)).trans (List.infix_cons (List.infix_refl _))

theorem plain_of_infix (q s : Str) (h : q <:+: s) (hs : plain s = true) : plain q = true := by
  unfold plain at *
  simp only [Bool.and_eq_true, Bool.not_eq_true', List.contains_eq_mem, decide_eq_false_iff_not] at *
  refine ⟨fun hq => hs.1 (h.subset hq), ?_⟩
  cases hc : containsSub q ['/', '/', '/'] with
  | false => rfl
  | true =>
    have := (containsSub_iff_infix s _).mpr (((containsSub_iff_infix q _).mp hc).trans h)
    rw [hs.2] at this; cases this

theorem plain_splitOn (sep : Char) (s : Str) (hs : plain s = true) : ∀ q ∈ splitOn sep s, plain q = true :=
  fun q hq => plain_of_infix q s ((splitOn_pieces sep s).2 q hq) hs

/-! ### a parameter of plain components is safe -/

theorem scanComp_isSome (c : Str) (bit : Bool) (h : '#' ∉ c) : (scanComp c bit).isSome = true := by
  fun_induction scanComp c bit with
  | case1 bit => simp
  | case2 cs bit ih => exact ih (fun hh => h (List.mem_cons_of_mem _ (List.mem_cons_of_mem _ hh)))
  | case3 c cs bit h1 h2 ih => exact ih (fun hh => h (List.mem_cons_of_mem _ hh))
  | case4 cs bit h1 h2 ih => exact ih (fun hh => h (List.mem_cons_of_mem _ hh))
  | case5 cs h1 h2 h3 => exact absurd List.mem_cons_self h
  | case6 cs bit hb h1 h2 h3 ih => exact absurd List.mem_cons_self h
  | case7 c cs bit h1 h2 h3 h4 ih => exact ih (fun hh => h (List.mem_cons_of_mem _ hh))

theorem scanComps_isSome (cs : List Str) (bit : Bool) (h : ∀ c ∈ cs, '#' ∉ c) :
    (scanComps cs bit).isSome = true := by
  induction cs generalizing bit with
  | nil => rfl
  | cons c cs ih =>
    unfold scanComps
    obtain ⟨b, hb⟩ := Option.isSome_iff_exists.mp (scanComp_isSome c bit (h c List.mem_cons_self))
    rw [hb]
    exact ih b (fun x hx => h x (List.mem_cons_of_mem _ hx))

/-- every component of the parameter is plain, and there is at least one -/
def PlainParam (p : Param) : Prop := p.comps ≠ [] ∧ ∀ c ∈ p.comps, plain c = true

theorem plain_no_hash (c : Str) (h : plain c = true) : '#' ∉ c := by
  unfold plain at h
  simp only [Bool.and_eq_true, Bool.not_eq_true', List.contains_eq_mem, decide_eq_false_iff_not] at h
  exact h.1

theorem safeParams_of_plain (ps : List Param) (bit : Bool) (h : ∀ p ∈ ps, PlainParam p) :
    safeParams ps bit = true := by
  induction ps generalizing bit with
  | nil => rfl
  | cons p ps ih =>
    obtain ⟨hne, hp⟩ := h p List.mem_cons_self
    unfold safeParams
    have hkey : p.key.contains '#' = false := by
      unfold Param.key
      cases hc : p.comps with
      | nil => exact absurd hc hne
      | cons k ks =>
        simp only [List.headD_cons, List.contains_eq_mem, decide_eq_false_iff_not]
        exact plain_no_hash k (hp k (by rw [hc]; exact List.mem_cons_self))
    have hsub : (p.comps.all fun c => !containsSub c ['/', '/', '/']) = true := by
      rw [List.all_eq_true]
      intro c hc
      have := hp c hc
      unfold plain at this
      simp only [Bool.and_eq_true] at this
      exact this.2
    obtain ⟨b, hb⟩ := Option.isSome_iff_exists.mp
      (scanComps_isSome p.comps bit (fun c hc => plain_no_hash c (hp c hc)))
    rw [hkey, hsub, hb]
    simp only [Bool.not_false, Bool.and_self, Bool.true_and]
    exact ih true (fun q hq => h q (List.mem_cons_of_mem _ hq))

theorem safeDoc_of_plain (is : List Item) (h : ∀ p ∈ paramsOf is, PlainParam p) : safeDoc is = true := by
  unfold safeDoc
  rw [Bool.and_eq_true, List.all_eq_true]
  refine ⟨fun p hp => ?_, safeParams_of_plain _ _ h⟩
  have := (h p hp).1
  cases hc : p.comps with
  | nil => exact absurd hc this
  | cons _ _ => rfl

/-! ### dictionaries of plain keys and values -/

def PlainDict (d : Dict) : Prop := ∀ kv ∈ d, plain kv.1 = true ∧ ∀ s, kv.2 = some s → plain s = true

instance (d : Dict) : Decidable (PlainDict d) := by unfold PlainDict; infer_instance

theorem mem_setAll' (d0 kvs : Dict) (x : Str × Option Str) (h : x ∈ setAll d0 kvs) : x ∈ kvs ∨ x ∈ d0 := by
  induction kvs generalizing d0 with
  | nil => exact Or.inr h
  | cons kv kvs ih =>
    rw [setAll_cons] at h
    rcases ih _ h with h | h
    · exact Or.inl (List.mem_cons_of_mem _ h)
    · rcases mem_set _ _ _ _ h with h | h
      · left; rw [h]; exact List.mem_cons_self
      · exact Or.inr h

theorem plainDict_setAll (d0 src : Dict) (h0 : PlainDict d0) (h : PlainDict src) : PlainDict (setAll d0 src) := by
  intro x hx
  rcases mem_setAll' _ _ _ hx with hx | hx
  · exact h x hx
  · exact h0 x hx

theorem plainParam_itemParam (kv : Str × Option Str) (hk : plain kv.1 = true)
    (hv : ∀ s, kv.2 = some s → plain s = true) : PlainParam (itemParam kv) := by
  unfold itemParam valueParam
  obtain ⟨k, v⟩ := kv
  cases v with
  | none => exact ⟨by simp, by simpa using hk⟩
  | some s =>
    simp only []
    split_ifs
    · refine ⟨by simp, ?_⟩
      intro c hc
      rcases List.mem_cons.mp hc with rfl | hc
      · exact hk
      · exact plain_splitOn ':' s (hv s rfl) c hc
    · refine ⟨by simp, ?_⟩
      intro c hc
      simp only [List.mem_cons, List.not_mem_nil, or_false] at hc
      rcases hc with rfl | rfl
      · exact hk
      · exact hv _ rfl

theorem blank_plain : PlainDict T.blankSSCSimfile ∧ PlainDict T.blankSSCChart := by
  constructor <;> decide +kernel

theorem plainParam_chart (c : SSCChart) (h : PlainDict c.props) :
    ∀ p ∈ ndParam :: chartBody c, PlainParam p := by
  intro p hp
  rcases List.mem_cons.mp hp with rfl | hp
  · exact ⟨by decide, by decide⟩
  · unfold chartBody at hp
    rcases List.mem_append.mp hp with hp | hp
    · obtain ⟨kv, hkv, rfl⟩ := List.mem_map.mp hp
      have hm : kv ∈ c.props := (List.mem_filter.mp hkv).1
      exact plainParam_itemParam kv (h kv hm).1 (h kv hm).2
    · simp only [List.mem_singleton] at hp
      subst hp
      refine ⟨by simp [notesParam], ?_⟩
      intro s hs
      simp only [notesParam, List.mem_cons, List.not_mem_nil, or_false] at hs
      rcases hs with rfl | rfl
      · rcases notesKey_cases c with e | e <;> rw [e] <;> decide
      · unfold notesOf
        split
        · rename_i n hn
          exact (h _ (mem_of_get? _ _ _ hn)).2 n rfl
        · decide

/-- the document written for an SSC simfile with plain keys and values is MSD-safe -/
theorem safeDoc_sscItems (s : SSCSimfile) (hp : PlainDict s.props) (hc : ∀ c ∈ s.charts, PlainDict c.props) :
    safeDoc (sscItems s) = true := by
  apply safeDoc_of_plain
  rw [paramsOf_sscItems]
  intro p hp'
  rcases List.mem_append.mp hp' with hp' | hp'
  · obtain ⟨kv, hkv, rfl⟩ := List.mem_map.mp hp'
    exact plainParam_itemParam kv (hp kv hkv).1 (hp kv hkv).2
  · obtain ⟨l, hl, hpl⟩ := List.mem_flatten.mp hp'
    obtain ⟨c, hcm, rfl⟩ := List.mem_map.mp hl
    exact plainParam_chart c (hc c hcm) p hpl

end Simfile.Cv
