/-
C13 (round 2) helpers: `timeNotes` described from `hittable` and `timeAt` alone — what each note
becomes (`emitted`), generic `filterMap` facts (positions, filters), and the per-option consequences.
No domain hypothesis is needed anywhere in this file.
-/
import Simfile.Lemmas.EngineHit
import Mathlib.Order.Monotone.Basic
namespace Simfile

/-! ### what one note becomes -/

/-- the note `time_notes` emits for the source note `n`, if any — defined from `hittable` only -/
def emitted (td : TimingData) (opt : Unhittable) (n : Note) : Option Note :=
  if hittable td n.beat = true then some n
  else match opt with
    | .keepNote => some n
    | .dropNote => none
    | .tapToFake => if n.ntype = cTAP then some { n with ntype := cFAKE } else none

/-- the source of an output note of the TAP_TO_FAKE option: a fake standing on an unhittable beat was a tap -/
def unfake (td : TimingData) (m : Note) : Note :=
  if hittable td m.beat = true then m else { m with ntype := cTAP }

theorem timeNotes_eq_emitted (td : TimingData) (opt : Unhittable) (notes : List Note) :
    timeNotes td opt notes =
      notes.filterMap fun n => (emitted td opt n).map fun m => (timeAt td n.beat, m) := by
  unfold timeNotes
  dsimp only
  congr 1
  funext n
  have h1 : (mkEngine td).hittable n.beat = hittable td n.beat := rfl
  have h2 : (mkEngine td).timeAt n.beat = timeAt td n.beat := rfl
  rw [h1, h2]
  unfold emitted
  cases hittable td n.beat <;> cases opt <;> simp

theorem emitted_hittable {td : TimingData} {n : Note} (opt : Unhittable) (h : hittable td n.beat = true) :
    emitted td opt n = some n := by
  unfold emitted; rw [if_pos h]

theorem emitted_keep (td : TimingData) (n : Note) : emitted td .keepNote n = some n := by
  unfold emitted; split_ifs <;> rfl

theorem emitted_drop (td : TimingData) (n : Note) :
    emitted td .dropNote n = if hittable td n.beat = true then some n else none := rfl

theorem emitted_fake (td : TimingData) (n : Note) :
    emitted td .tapToFake n = if hittable td n.beat = true then some n
      else if n.ntype = cTAP then some { n with ntype := cFAKE } else none := rfl

theorem emitted_eq_some_iff (td : TimingData) (opt : Unhittable) (n m : Note) :
    emitted td opt n = some m ↔
      (hittable td n.beat = true ∧ m = n) ∨
      (hittable td n.beat = false ∧ opt = .keepNote ∧ m = n) ∨
      (hittable td n.beat = false ∧ opt = .tapToFake ∧ n.ntype = cTAP ∧ m = { n with ntype := cFAKE }) := by
  unfold emitted
  cases hh : hittable td n.beat <;> cases opt <;> simp [eq_comm]

/-- every field but the type is the source's -/
theorem emitted_fields {td : TimingData} {opt : Unhittable} {n m : Note} (h : emitted td opt n = some m) :
    m.beat = n.beat ∧ m.column = n.column ∧ m.player = n.player ∧ m.keysound = n.keysound := by
  rcases (emitted_eq_some_iff td opt n m).1 h with ⟨_, rfl⟩ | ⟨_, _, rfl⟩ | ⟨_, _, _, rfl⟩ <;>
    exact ⟨rfl, rfl, rfl, rfl⟩

theorem emitted_isSome (td : TimingData) (opt : Unhittable) (n : Note) :
    (emitted td opt n).isSome =
      (hittable td n.beat || decide (opt = .keepNote) || (decide (opt = .tapToFake) && decide (n.ntype = cTAP))) := by
  unfold emitted
  cases hh : hittable td n.beat <;> cases opt <;> simp
  split_ifs <;> simp_all

theorem unfake_emitted {td : TimingData} {n m : Note} (h : emitted td .tapToFake n = some m) :
    unfake td m = n := by
  rcases (emitted_eq_some_iff td _ n m).1 h with ⟨hh, rfl⟩ | ⟨_, h2, _⟩ | ⟨hh, _, ht, rfl⟩
  · unfold unfake; rw [if_pos hh]
  · cases h2
  · unfold unfake
    have : hittable td ({ n with ntype := cFAKE } : Note).beat = false := hh
    rw [this]
    cases n
    simp only at ht
    simp [ht]

/-! ### generic `filterMap` facts -/

/-- positions: the outputs of a `filterMap` sit, in order, at the inputs that produce something -/
theorem filterMap_index {α β} (f : α → Option β) (l : List α) :
    ∃ g : Nat → Nat, StrictMono g ∧
      (∀ i r, (l.filterMap f)[i]? = some r → ∃ a, l[g i]? = some a ∧ f a = some r) ∧
      (∀ j a, l[j]? = some a → (f a).isSome = true → ∃ i, i < (l.filterMap f).length ∧ g i = j) := by
  induction l with
  | nil =>
    refine ⟨id, strictMono_id, ?_, ?_⟩
    · intro i r h; simp at h
    · intro j a h; simp at h
  | cons x l ih =>
    obtain ⟨g, hg, h1, h2⟩ := ih
    cases hfx : f x with
    | none =>
      rw [List.filterMap_cons_none hfx]
      refine ⟨fun i => g i + 1, ?_, ?_, ?_⟩
      · intro a b hab; exact Nat.succ_lt_succ (hg hab)
      · intro i r h
        obtain ⟨a, ha, hfa⟩ := h1 i r h
        exact ⟨a, by simpa using ha, hfa⟩
      · intro j a hj hs
        cases j with
        | zero =>
          simp only [List.getElem?_cons_zero, Option.some.injEq] at hj
          subst hj; rw [hfx] at hs; cases hs
        | succ j =>
          obtain ⟨i, hi, hgi⟩ := h2 j a (by simpa using hj) hs
          exact ⟨i, hi, by simp [hgi]⟩
    | some y =>
      rw [List.filterMap_cons_some hfx]
      refine ⟨fun i => match i with | 0 => 0 | i + 1 => g i + 1, ?_, ?_, ?_⟩
      · apply strictMono_nat_of_lt_succ
        intro n
        cases n with
        | zero => exact Nat.succ_pos _
        | succ n => exact Nat.succ_lt_succ (hg (Nat.lt_succ_self n))
      · intro i r h
        cases i with
        | zero =>
          simp only [List.getElem?_cons_zero, Option.some.injEq] at h
          subst h
          exact ⟨x, by simp, hfx⟩
        | succ i =>
          obtain ⟨a, ha, hfa⟩ := h1 i r (by simpa using h)
          exact ⟨a, by simpa using ha, hfa⟩
      · intro j a hj hs
        cases j with
        | zero => exact ⟨0, by simp, rfl⟩
        | succ j =>
          obtain ⟨i, hi, hgi⟩ := h2 j a (by simpa using hj) hs
          exact ⟨i + 1, by simpa using hi, by simp [hgi]⟩

/-- filtering the outputs by a test that is a function of the input -/
theorem filter_filterMap_of {α β} (f : α → Option β) (p : β → Bool) (q : α → Bool)
    (h : ∀ a b, f a = some b → p b = q a) (l : List α) :
    (l.filterMap f).filter p = (l.filter q).filterMap f := by
  induction l with
  | nil => rfl
  | cons a l ih =>
    cases hfa : f a with
    | none =>
      rw [List.filterMap_cons_none hfa, ih]
      by_cases hq : q a = true
      · rw [List.filter_cons_of_pos hq, List.filterMap_cons_none hfa]
      · rw [List.filter_cons_of_neg hq]
    | some b =>
      rw [List.filterMap_cons_some hfa]
      have hpb := h a b hfa
      by_cases hq : q a = true
      · rw [List.filter_cons_of_pos hq, List.filterMap_cons_some hfa, List.filter_cons_of_pos (by rw [hpb]; exact hq), ih]
      · rw [List.filter_cons_of_neg hq, List.filter_cons_of_neg (by rw [hpb]; exact hq), ih]

/-- a `filterMap` that is total on the list is a `map` -/
theorem filterMap_eq_map_of {α β} (f : α → Option β) (g : α → β) (l : List α)
    (h : ∀ a ∈ l, f a = some (g a)) : l.filterMap f = l.map g := by
  induction l with
  | nil => rfl
  | cons a l ih =>
    rw [List.filterMap_cons_some (h a List.mem_cons_self), List.map_cons,
      ih (fun b hb => h b (List.mem_cons_of_mem _ hb))]

/-- a pointwise smaller `filterMap` gives a sublist, modulo a back-translation of the larger outputs -/
theorem filterMap_sublist_filterMap {α β γ} (f : α → Option β) (f' : α → Option γ) (u : γ → β)
    (h : ∀ a b, f a = some b → ∃ c, f' a = some c ∧ u c = b) (l : List α) :
    List.Sublist (l.filterMap f) ((l.filterMap f').map u) := by
  induction l with
  | nil => exact List.Sublist.slnil
  | cons a l ih =>
    cases hfa : f a with
    | none =>
      rw [List.filterMap_cons_none hfa]
      cases hfa' : f' a with
      | none => rw [List.filterMap_cons_none hfa']; exact ih
      | some c => rw [List.filterMap_cons_some hfa', List.map_cons]; exact List.Sublist.cons _ ih
    | some b =>
      obtain ⟨c, hc, huc⟩ := h a b hfa
      rw [List.filterMap_cons_some hfa, List.filterMap_cons_some hc, List.map_cons, huc]
      exact List.Sublist.cons_cons _ ih

/-! ### `timeNotes`, option by option -/

theorem timeNotes_nil (td : TimingData) (opt : Unhittable) : timeNotes td opt [] = [] := rfl

theorem timeNotes_append (td : TimingData) (opt : Unhittable) (l₁ l₂ : List Note) :
    timeNotes td opt (l₁ ++ l₂) = timeNotes td opt l₁ ++ timeNotes td opt l₂ := by
  unfold timeNotes
  exact List.filterMap_append

theorem timeNotes_singleton (td : TimingData) (opt : Unhittable) (n : Note) :
    timeNotes td opt [n] = ((emitted td opt n).map fun m => (timeAt td n.beat, m)).toList := by
  rw [timeNotes_eq_emitted]
  cases he : emitted td opt n with
  | none => rw [List.filterMap_cons_none (by rw [he]; rfl)]; rfl
  | some m => rw [List.filterMap_cons_some (by rw [he]; rfl)]; rfl

theorem timeNotes_keep (td : TimingData) (notes : List Note) :
    timeNotes td .keepNote notes = notes.map fun n => (timeAt td n.beat, n) := by
  rw [timeNotes_eq_emitted]
  apply filterMap_eq_map_of
  intro n _
  rw [emitted_keep]; rfl

theorem timeNotes_drop (td : TimingData) (notes : List Note) :
    timeNotes td .dropNote notes =
      (notes.filter fun n => hittable td n.beat).map fun n => (timeAt td n.beat, n) := by
  rw [timeNotes_eq_emitted, ← List.filterMap_eq_map, List.filterMap_filter]
  congr 1
  funext n
  rw [emitted_drop]
  cases hittable td n.beat <;> simp

theorem timeNotes_fake (td : TimingData) (notes : List Note) :
    timeNotes td .tapToFake notes = notes.filterMap fun n =>
      if hittable td n.beat = true then some (timeAt td n.beat, n)
      else if n.ntype = cTAP then some (timeAt td n.beat, { n with ntype := cFAKE })
      else none := by
  rw [timeNotes_eq_emitted]
  congr 1
  funext n
  rw [emitted_fake]
  split_ifs <;> rfl

/-- the hittable part of the output is the hittable part of the input, whatever the option -/
theorem timeNotes_filter_hittable (td : TimingData) (opt : Unhittable) (notes : List Note) :
    (timeNotes td opt notes).filter (fun r => hittable td r.2.beat) =
      (notes.filter fun n => hittable td n.beat).map fun n => (timeAt td n.beat, n) := by
  rw [timeNotes_eq_emitted,
    filter_filterMap_of _ (fun r : Rat × Note => hittable td r.2.beat) (fun n : Note => hittable td n.beat)]
  · apply filterMap_eq_map_of
    intro n hn
    rw [emitted_hittable opt (by simpa using (List.mem_filter.1 hn).2)]
    rfl
  · intro n r hr
    obtain ⟨m, hm, rfl⟩ := Option.map_eq_some_iff.1 hr
    show hittable td m.beat = hittable td n.beat
    rw [(emitted_fields hm).1]

/-- the unhittable part of the output -/
theorem timeNotes_filter_unhittable (td : TimingData) (opt : Unhittable) (notes : List Note) :
    (timeNotes td opt notes).filter (fun r => !hittable td r.2.beat) =
      match opt with
      | .dropNote => []
      | .keepNote => (notes.filter fun n => !hittable td n.beat).map fun n => (timeAt td n.beat, n)
      | .tapToFake => (notes.filter fun n => !hittable td n.beat && decide (n.ntype = cTAP)).map
          fun n => (timeAt td n.beat, { n with ntype := cFAKE }) := by
  cases opt with
  | dropNote =>
    rw [timeNotes_drop]
    apply List.filter_eq_nil_iff.2
    intro r hr
    obtain ⟨n, hn, rfl⟩ := List.mem_map.1 hr
    simpa using (List.mem_filter.1 hn).2
  | keepNote =>
    show List.filter _ _ = List.map _ _
    rw [timeNotes_keep, List.filter_map]
    rfl
  | tapToFake =>
    show List.filter _ _ = List.map _ _
    rw [timeNotes_eq_emitted,
      filter_filterMap_of _ (fun r : Rat × Note => !hittable td r.2.beat) (fun n : Note => !hittable td n.beat)]
    · rw [← List.filterMap_eq_map, List.filterMap_filter, List.filterMap_filter]
      congr 1
      funext n
      rw [emitted_fake]
      cases hittable td n.beat <;> by_cases ht : n.ntype = cTAP <;> simp [ht]
    · intro n r hr
      obtain ⟨m, hm, rfl⟩ := Option.map_eq_some_iff.1 hr
      show (!hittable td m.beat) = !hittable td n.beat
      rw [(emitted_fields hm).1]

theorem timeNotes_mem_iff (td : TimingData) (opt : Unhittable) (notes : List Note) (r : Rat × Note) :
    r ∈ timeNotes td opt notes ↔
      ∃ n ∈ notes, r.1 = timeAt td n.beat ∧ emitted td opt n = some r.2 := by
  rw [timeNotes_eq_emitted, List.mem_filterMap]
  constructor
  · rintro ⟨n, hn, h⟩
    obtain ⟨m, hm, rfl⟩ := Option.map_eq_some_iff.1 h
    exact ⟨n, hn, rfl, hm⟩
  · rintro ⟨n, hn, h1, h2⟩
    refine ⟨n, hn, ?_⟩
    rw [h2]
    cases r
    simp only at h1
    simp [h1]

/-- positions, for every option -/
theorem timeNotes_index (td : TimingData) (opt : Unhittable) (notes : List Note) :
    ∃ g : Nat → Nat, StrictMono g ∧
      (∀ i r, (timeNotes td opt notes)[i]? = some r →
        ∃ n, notes[g i]? = some n ∧ r.1 = timeAt td n.beat ∧ emitted td opt n = some r.2) ∧
      (∀ j n, notes[j]? = some n → (emitted td opt n).isSome = true →
        ∃ i, i < (timeNotes td opt notes).length ∧ g i = j) := by
  rw [timeNotes_eq_emitted]
  obtain ⟨g, hg, h1, h2⟩ :=
    filterMap_index (fun n => (emitted td opt n).map fun m => (timeAt td n.beat, m)) notes
  refine ⟨g, hg, ?_, ?_⟩
  · intro i r hr
    obtain ⟨n, hn, hf⟩ := h1 i r hr
    obtain ⟨m, hm, rfl⟩ := Option.map_eq_some_iff.1 hf
    exact ⟨n, hn, rfl, hm⟩
  · intro j n hj hs
    exact h2 j n hj (by simpa using hs)

/-! ### the chain DROP ⊆ TAP_TO_FAKE ⊆ KEEP -/

theorem timeNotes_drop_sublist_fake (td : TimingData) (notes : List Note) :
    List.Sublist (timeNotes td .dropNote notes) (timeNotes td .tapToFake notes) := by
  rw [timeNotes_drop, ← timeNotes_filter_hittable td .tapToFake]
  exact List.filter_sublist

theorem timeNotes_fake_sublist_keep (td : TimingData) (notes : List Note) :
    List.Sublist ((timeNotes td .tapToFake notes).map fun r => (r.1, unfake td r.2))
      (timeNotes td .keepNote notes) := by
  rw [timeNotes_keep, timeNotes_eq_emitted, List.map_filterMap]
  have := filterMap_sublist_filterMap
    (fun n => Option.map (fun r : Rat × Note => (r.1, unfake td r.2))
      (Option.map (fun m => (timeAt td n.beat, m)) (emitted td .tapToFake n)))
    (fun n : Note => some (timeAt td n.beat, n)) id
    (by
      intro n b hb
      refine ⟨_, rfl, ?_⟩
      obtain ⟨r, hr, rfl⟩ := Option.map_eq_some_iff.1 hb
      obtain ⟨m, hm, rfl⟩ := Option.map_eq_some_iff.1 hr
      show (timeAt td n.beat, n) = (timeAt td n.beat, unfake td m)
      rw [unfake_emitted hm]) notes
  rw [List.map_id] at this
  rw [← List.filterMap_eq_map]
  exact this

/-- the sources of the TAP_TO_FAKE output -/
theorem timeNotes_fake_sources (td : TimingData) (notes : List Note) :
    (timeNotes td .tapToFake notes).map (fun r => unfake td r.2) =
      notes.filter fun n => hittable td n.beat || decide (n.ntype = cTAP) := by
  rw [timeNotes_eq_emitted, List.map_filterMap]
  induction notes with
  | nil => rfl
  | cons n l ih =>
    cases he : emitted td .tapToFake n with
    | none =>
      have hs := emitted_isSome td .tapToFake n
      rw [he] at hs
      rw [List.filterMap_cons_none (by rw [he]; rfl), ih, List.filter_cons_of_neg]
      simp at hs
      simp [hs]
    | some m =>
      have hs := emitted_isSome td .tapToFake n
      rw [he] at hs
      rw [List.filterMap_cons_some (b := n) (by rw [he]; simp [unfake_emitted he]), ih,
        List.filter_cons_of_pos]
      simp at hs
      simpa [or_comm] using hs

end Simfile
