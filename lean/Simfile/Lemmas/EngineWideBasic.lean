/-
C11 under the wider domain `Simfile.C11.Dom0` (zero-length stops, delays and warps allowed).
Part 1: the domain and the declarative side (positivity of the BPM in force, monotonicity of `timeSpec`).
The lemmas are the `Dom` lemmas of Simfile/Lemmas/EngineSpec.lean re-proved from the weaker hypothesis;
they live in namespace `Simfile.Wide` under the names of the originals.
-/
import Simfile.Lemmas.EngineSpec
namespace Simfile

namespace C11

/-- The wider domain: `Dom` with stop and delay lengths `≥ 0` and warp lengths that round to `≥ 0` ticks
(so zero-length stops, delays and warps are inside the domain). -/
structure Dom0 (td : TimingData) : Prop where
  bpms_ne : td.bpms ≠ []
  bpms_head : (td.bpms.headD (0, 0)).1 = 0
  bpms_pos : ∀ e ∈ td.bpms, 0 < e.2
  bpms_sorted : (td.bpms.map (·.1)).Pairwise (· < ·)
  bpms_grid : ∀ e ∈ td.bpms, 0 ≤ e.1 ∧ onGrid e.1
  stops_nonneg : ∀ e ∈ td.stops, 0 ≤ e.2
  stops_sorted : (td.stops.map (·.1)).Pairwise (· < ·)
  stops_grid : ∀ e ∈ td.stops, 0 ≤ e.1 ∧ onGrid e.1
  delays_nonneg : ∀ e ∈ td.delays, 0 ≤ e.2
  delays_sorted : (td.delays.map (·.1)).Pairwise (· < ·)
  delays_grid : ∀ e ∈ td.delays, 0 ≤ e.1 ∧ onGrid e.1
  warps_nonneg : ∀ e ∈ td.warps, 0 ≤ roundToTick e.2
  warps_sorted : (td.warps.map (·.1)).Pairwise (· < ·)
  warps_grid : ∀ e ∈ td.warps, 0 ≤ e.1 ∧ onGrid e.1

/-- the old domain is included in the wider one -/
theorem Dom.toDom0 {td : TimingData} (h : Dom td) : Dom0 td where
  bpms_ne := h.bpms_ne
  bpms_head := h.bpms_head
  bpms_pos := h.bpms_pos
  bpms_sorted := h.bpms_sorted
  bpms_grid := h.bpms_grid
  stops_nonneg := fun e he => le_of_lt (h.stops_pos e he)
  stops_sorted := h.stops_sorted
  stops_grid := h.stops_grid
  delays_nonneg := fun e he => le_of_lt (h.delays_pos e he)
  delays_sorted := h.delays_sorted
  delays_grid := h.delays_grid
  warps_nonneg := fun e he => le_of_lt (h.warps_pos e he)
  warps_sorted := h.warps_sorted
  warps_grid := h.warps_grid

end C11

namespace Wide
open C11

theorem head_pos (td : TimingData) (h : Dom0 td) : 0 < (td.bpms.headD (0, 0)).2 := by
  have hne := h.bpms_ne
  have hp := h.bpms_pos
  cases hb : td.bpms with
  | nil => exact absurd hb hne
  | cons e l =>
    rw [hb] at hp
    exact hp e List.mem_cons_self

theorem bpmOn_pos (td : TimingData) (h : Dom0 td) (x : Rat) : 0 < Spec.bpmOn td x := by
  rw [bpmOn_eq]
  exact foldl_bstep_pos x _ _ (head_pos td h) h.bpms_pos

/-! ### pauses are monotone in the key -/
/-! ### pauses are monotone in the key -/

theorem foldl_guard_mono (P Q : Rat → Bool) : ∀ (l : List (Rat × Rat)) (a a' : Rat),
    (∀ d ∈ l, 0 ≤ d.2) → (∀ d ∈ l, P d.1 = true → Q d.1 = true) → a ≤ a' →
    l.foldl (fun acc d => if P d.1 then acc + d.2 else acc) a ≤
      l.foldl (fun acc d => if Q d.1 then acc + d.2 else acc) a'
  | [], a, a', _, _, h => h
  | d :: l, a, a', hp, hpq, h => by
    rw [List.foldl_cons, List.foldl_cons]
    apply foldl_guard_mono P Q l
    · intro e he; exact hp e (List.mem_cons_of_mem _ he)
    · intro e he; exact hpq e (List.mem_cons_of_mem _ he)
    · have hd := hp d List.mem_cons_self
      have himp := hpq d List.mem_cons_self
      by_cases h1 : P d.1 = true
      · rw [if_pos h1, if_pos (himp h1)]; linarith
      · rw [if_neg h1]
        split
        · linarith
        · exact h

theorem paused_mono (td : TimingData) (h : Dom0 td) {b₁ b₂ : Rat} {g₁ g₂ : Tag}
    (hk : key b₁ g₁ ≤ key b₂ g₂) : Spec.paused td b₁ g₁ ≤ Spec.paused td b₂ g₂ := by
  unfold Spec.paused
  apply add_le_add
  · exact foldl_guard_mono (fun x => Spec.keyLE (x, .delayEnd) (b₁, g₁))
      (fun x => Spec.keyLE (x, .delayEnd) (b₂, g₂)) td.delays 0 0 h.delays_nonneg
      (fun d _ hd => (keyLE_iff _ _ _ _).2 (le_trans ((keyLE_iff _ _ _ _).1 hd) hk)) le_rfl
  · exact foldl_guard_mono (fun x => Spec.keyLE (x, .stopEnd) (b₁, g₁))
      (fun x => Spec.keyLE (x, .stopEnd) (b₂, g₂)) td.stops 0 0 h.stops_nonneg
      (fun d _ hd => (keyLE_iff _ _ _ _).2 (le_trans ((keyLE_iff _ _ _ _).1 hd) hk)) le_rfl

/-! ### the travelled part is monotone in the beat -/

theorem tickTime_nonneg (td : TimingData) (h : Dom0 td) (k : Nat) : 0 ≤ Spec.tickTime td k := by
  unfold Spec.tickTime
  simp only
  split
  · exact le_rfl
  · have := bpmOn_pos td h ((k : Rat) / (ticks : Rat))
    rw [ticks_cast] at *
    positivity

theorem tickSum_mono (td : TimingData) (h : Dom0 td) {k m : Nat} (hkm : k ≤ m) :
    Spec.tickSum td k ≤ Spec.tickSum td m := by
  induction m, hkm using Nat.le_induction with
  | base => exact le_rfl
  | succ m _ ih =>
    show _ ≤ Spec.tickSum td m + Spec.tickTime td m
    have := tickTime_nonneg td h m
    linarith

theorem tickSum_nonneg (td : TimingData) (h : Dom0 td) (k : Nat) : 0 ≤ Spec.tickSum td k :=
  tickSum_mono td h (Nat.zero_le k)

theorem travel_ge (td : TimingData) (h : Dom0 td) {b : Rat} (hb : 0 ≤ b) :
    Spec.tickSum td (tk b) ≤ travel td b := by
  rw [travel_of_nonneg td hb]
  have hs := (tk_spec hb).1
  have hp := bpmOn_pos td h ((tk b : Rat) / (ticks : Rat))
  split
  · linarith
  · have : 0 ≤ (b - (tk b : Rat) / (ticks : Rat)) * 60 / Spec.bpmOn td ((tk b : Rat) / (ticks : Rat)) := by
      apply div_nonneg _ (le_of_lt hp)
      nlinarith
    linarith

theorem travel_le (td : TimingData) (h : Dom0 td) {b : Rat} (hb : 0 ≤ b) :
    travel td b ≤ Spec.tickSum td (tk b + 1) := by
  rw [travel_of_nonneg td hb]
  show _ ≤ Spec.tickSum td (tk b) + Spec.tickTime td (tk b)
  apply add_le_add le_rfl
  unfold Spec.tickTime
  simp only
  have hs := (tk_spec hb).2
  have hp := bpmOn_pos td h ((tk b : Rat) / (ticks : Rat))
  split
  · exact le_rfl
  · apply div_le_div_of_nonneg_right _ (le_of_lt hp)
    rw [ticks_cast] at *
    linarith

theorem travel_mono (td : TimingData) (h : Dom0 td) {b₁ b₂ : Rat} (hb : b₁ ≤ b₂) :
    travel td b₁ ≤ travel td b₂ := by
  have hh := head_pos td h
  by_cases h1 : b₁ < 0
  · have e1 : travel td b₁ = b₁ * 60 / (td.bpms.headD (0, 0)).2 := by
      unfold travel; rw [if_pos h1]
    by_cases h2 : b₂ < 0
    · have e2 : travel td b₂ = b₂ * 60 / (td.bpms.headD (0, 0)).2 := by
        unfold travel; rw [if_pos h2]
      rw [e1, e2]
      apply div_le_div_of_nonneg_right _ (le_of_lt hh)
      linarith
    · have h2' := not_lt.1 h2
      have := travel_ge td h h2'
      have := tickSum_nonneg td h (tk b₂)
      have : travel td b₁ ≤ 0 := by
        rw [e1]
        apply div_nonpos_of_nonpos_of_nonneg _ (le_of_lt hh)
        linarith
      linarith
  · have h1' := not_lt.1 h1
    have h2' : 0 ≤ b₂ := le_trans h1' hb
    have hk := tk_mono hb
    rcases Nat.lt_or_eq_of_le hk with hlt | heq
    · have a := travel_le td h h1'
      have b := tickSum_mono td h (Nat.succ_le_of_lt hlt)
      have c := travel_ge td h h2'
      exact le_trans a (le_trans b c)
    · rw [travel_of_nonneg td h1', travel_of_nonneg td h2', heq]
      apply add_le_add le_rfl
      have hp := bpmOn_pos td h ((tk b₂ : Rat) / (ticks : Rat))
      split
      · exact le_rfl
      · apply div_le_div_of_nonneg_right _ (le_of_lt hp)
        linarith

/-- the declarative time is monotone in the key (lexicographic order of (beat, tag value)) -/
theorem timeSpec_mono (td : TimingData) (h : Dom0 td) {b₁ b₂ : Rat} {g₁ g₂ : Tag}
    (hk : key b₁ g₁ ≤ key b₂ g₂) : Spec.timeSpec td b₁ g₁ ≤ Spec.timeSpec td b₂ g₂ := by
  rw [timeSpec_eq, timeSpec_eq]
  have h1 := paused_mono td h hk
  have h2 := travel_mono td h (beat_le_of_key_le hk)
  linarith

/-! ### inserting a redundant BPM change -/

end Wide
end Simfile
