/-
C12 on the wider domain `Dom0` (zero-length stops, delays and warps): the state list by index, the state
times never decrease, the state selected by the searches on the times, tick alignment and monotonicity of
`beat_at`, and the pause lemma. These are the `Dom` lemmas of Simfile/Lemmas/EngineIndex.lean, EngineBeat.lean
and EngineBeatMono.lean re-proved from `Dom0` (none of them used the positivity of the lengths).
-/
import Simfile.Lemmas.EngineBeatMono
import Simfile.Lemmas.EngineWideRun
namespace Simfile.Wide
open Simfile C11

variable {td : TimingData}

/-- the state at index `j+1` is the one appended for event `j` -/
theorem states_event (hd : Dom0 td) (j : Nat) (hj : j < (events td).length) :
    ∃ z, (states td)[j + 1]? = some z ∧ StInv td z ∧ z.beat = (events td)[j].beat ∧
      z.tag = (events td)[j].tag ∧ z.value = (events td)[j].value ∧ skey z = ekey (events td)[j] := by
  obtain ⟨y, hy⟩ := states_get td j (by omega)
  have hz := states_succ td j y hy hj
  refine ⟨_, hz, ?_, rfl, rfl, rfl, rfl⟩
  apply states_inv hd
  rw [states_eq_run, List.getElem?_cons_succ] at hz
  exact List.mem_of_getElem? hz

/-- a state at a positive index is an event state -/
theorem states_pos (hd : Dom0 td) (k : Nat) (y : TState) (hy : (states td)[k + 1]? = some y) :
    ∃ hk : k < (events td).length, StInv td y ∧ y.beat = (events td)[k].beat ∧
      y.tag = (events td)[k].tag ∧ y.value = (events td)[k].value ∧ skey y = ekey (events td)[k] := by
  have hk : k < (events td).length := by have := states_lt_of_get hy; omega
  obtain ⟨z, hz, h1, h2, h3, h4, h5⟩ := states_event hd k hk
  rw [hy] at hz
  obtain rfl := Option.some.inj hz
  exact ⟨hk, h1, h2, h3, h4, h5⟩

theorem events_key_lt (hd : Dom0 td) {i j : Nat} (hi : i < (events td).length) (hj : j < (events td).length)
    (h : i < j) : ekey (events td)[i] < ekey (events td)[j] :=
  List.pairwise_iff_getElem.1 (ssorted_events td hd) i j hi hj h

theorem events_key_le (hd : Dom0 td) {i j : Nat} (hi : i < (events td).length) (hj : j < (events td).length)
    (h : i ≤ j) : ekey (events td)[i] ≤ ekey (events td)[j] := by
  rcases Nat.lt_or_eq_of_le h with h | rfl
  · exact le_of_lt (events_key_lt hd hi hj h)
  · exact le_refl _

theorem events_idx_lt (hd : Dom0 td) {i j : Nat} (hi : i < (events td).length) (hj : j < (events td).length)
    (h : ekey (events td)[i] < ekey (events td)[j]) : i < j := by
  by_contra hc
  exact lt_irrefl _ (lt_of_lt_of_le h (events_key_le hd hj hi (by omega)))

/-! ### the state times never decrease -/

theorem timeSpec_zero_warp (hd : Dom0 td) : Spec.timeSpec td 0 .warp = -td.offset := by
  rw [timeSpec_eq, paused_eq_K, pausedK_low hd (key_lt.2 (Or.inr ⟨rfl, by simp⟩)), travel_zero]
  ring

theorem init_time_le (hd : Dom0 td) (s : TState) (hs : StInv td s) : (initState td).time ≤ s.time := by
  rw [hs.time]
  show -td.offset ≤ _
  rw [← timeSpec_zero_warp hd]
  apply timeSpec_mono td hd
  apply key_le.2
  rcases lt_or_eq_of_le hs.nonneg with h | h
  · exact Or.inl h
  · exact Or.inr ⟨h, by simp⟩

theorem run_keys_sorted (hd : Dom0 td) :
    (run (initState td) (events td)).Pairwise (fun a b => skey a < skey b) := by
  have h := ssorted_events td hd
  unfold SSorted at h
  rw [← List.pairwise_map (f := ekey) (R := (· < ·)), ← run_keys (initState td), List.pairwise_map] at h
  exact h

theorem times_sorted (hd : Dom0 td) : (states td).Pairwise (fun a b => a.time ≤ b.time) := by
  rw [states_eq_run, List.pairwise_cons]
  have hinv := states_inv hd
  constructor
  · intro s hs; exact init_time_le hd s (hinv s hs)
  · apply (run_keys_sorted hd).imp_of_mem
    intro a b ha hb hab
    rw [(hinv a ha).time, (hinv b hb).time]
    exact timeSpec_mono td hd (le_of_lt hab)

theorem times_le (hd : Dom0 td) {i j : Nat} {a b : TState} (hij : i ≤ j) (ha : (states td)[i]? = some a)
    (hb : (states td)[j]? = some b) : a.time ≤ b.time := by
  obtain ⟨hi, rfl⟩ := List.getElem?_eq_some_iff.1 ha
  obtain ⟨hj, rfl⟩ := List.getElem?_eq_some_iff.1 hb
  rcases Nat.lt_or_eq_of_le hij with h | h
  · exact List.pairwise_iff_getElem.1 (times_sorted hd) i j hi hj h
  · subst h; exact le_refl _

theorem beats_le (hd : Dom0 td) {i j : Nat} {a b : TState} (hij : i ≤ j) (ha : (states td)[i]? = some a)
    (hb : (states td)[j]? = some b) : a.beat ≤ b.beat := by
  cases j with
  | zero =>
    have : i = 0 := by omega
    subst this
    rw [ha] at hb; rw [Option.some.inj hb]
  | succ j =>
    obtain ⟨hj, hinvb, _, _, _, hkb⟩ := states_pos hd j b hb
    cases i with
    | zero =>
      rw [states_zero] at ha
      rw [← Option.some.inj ha]
      exact hinvb.nonneg
    | succ i =>
      obtain ⟨hi, _, _, _, _, hka⟩ := states_pos hd i a ha
      have := events_key_le hd hi hj (by omega)
      rw [← hka, ← hkb] at this
      exact beat_le_of_key_le this

/-- the selected state by index: at index `k`, at or before `t` unless `k = 0`, and every later state
is after `t` -/
theorem priorByTime_sel (hd : Dom0 td) (t : Rat) (g : Tag) :
    ∃ k y, (states td)[k]? = some y ∧ (mkEngine td).priorByTime t g = y ∧
      (k = 0 ∨ R1 (decide (g = .warp)) y.time t) ∧
      ∀ j z, k < j → (states td)[j]? = some z → R2 (decide (g = .warp)) t z.time := by
  rw [priorByTime_eq]
  obtain ⟨h1, h2, h3⟩ := bisect_boundary (timeTest (decide (g = .warp)) t) (states td)
  generalize bisectRightLoop (timeTest (decide (g = .warp)) t) (states td).toArray
        ((states td).toArray.size + 1) 0 (states td).toArray.size = r at h1 h2 h3 ⊢
  have hlen := states_length td
  cases r with
  | zero =>
    refine ⟨0, initState td, states_zero td, by rw [states_zero]; rfl, Or.inl rfl, ?_⟩
    intro j z hj hz
    rcases h3 with h3 | ⟨y, hy, hlt⟩
    · omega
    · rw [states_zero] at hy
      obtain rfl := Option.some.inj hy
      exact R2_mono (timeTest_true.1 hlt) (times_le hd (Nat.zero_le j) (states_zero td) hz)
  | succ k =>
    obtain ⟨y, hy⟩ := states_get td k (by omega)
    refine ⟨k, y, hy, by simp [hy], ?_, ?_⟩
    · rcases h2 with h2 | ⟨y', hy', hnlt⟩
      · omega
      · simp only [Nat.add_sub_cancel] at hy'
        rw [hy] at hy'
        obtain rfl := Option.some.inj hy'
        exact Or.inr (timeTest_false.1 hnlt)
    · intro j z hj hz
      rcases h3 with h3 | ⟨y', hy', hlt⟩
      · have := states_lt_of_get hz; omega
      · exact R2_mono (timeTest_true.1 hlt) (times_le hd (by omega) hy' hz)

theorem bpmBefore_pos (hd : Dom0 td) (κ : K) : 0 < bpmBefore td κ := by
  unfold bpmBefore
  exact foldSel_pos _ _ (head_pos td hd) (fun e he => hd.bpms_pos e (List.mem_of_mem_tail he))

theorem state_bpm_pos (hd : Dom0 td) {k : Nat} {y : TState} (hy : (states td)[k]? = some y) : 0 < y.bpm := by
  cases k with
  | zero =>
    rw [states_zero] at hy
    rw [← Option.some.inj hy]
    exact head_pos td hd
  | succ k =>
    obtain ⟨_, hinv, _⟩ := states_pos hd k y hy
    rw [hinv.bpm]; exact bpmBefore_pos hd _

theorem state_beat_grid (hd : Dom0 td) {k : Nat} {y : TState} (hy : (states td)[k]? = some y) :
    onGrid y.beat := by
  cases k with
  | zero =>
    rw [states_zero] at hy
    rw [← Option.some.inj hy]
    exact onGrid_zero
  | succ k =>
    obtain ⟨_, hinv, _⟩ := states_pos hd k y hy
    exact hinv.grid

/-- 7. `beat_at` is tick-aligned -/
theorem beatAt_grid (hd : Dom0 td) (t : Rat) (g : Tag) : onGrid (beatAt td t g) := by
  obtain ⟨k, y, hy, hsel, _, _⟩ := priorByTime_sel hd t g
  rw [beatAt_eq, hsel]
  exact onGrid_add (state_beat_grid hd hy) (beatsUntil_grid y t)

/-- extrapolating from a state never passes the beat of the next state, for the times the search
assigns to that state -/
theorem link (hd : Dom0 td) (w : Bool) {k : Nat} {y z : TState} (hy : (states td)[k]? = some y)
    (hz : (states td)[k + 1]? = some z) {t : Rat} (h1 : k = 0 ∨ R1 w y.time t) (h2 : R2 w t z.time) :
    y.beat + y.beatsUntil t ≤ z.beat := by
  have hk : k < (events td).length := by have := states_lt_of_get hz; omega
  have hz' := states_succ td k y hy hk
  rw [hz] at hz'
  have hzeq := Option.some.inj hz'
  have hbeat : y.beat ≤ z.beat := beats_le hd (Nat.le_succ k) hy hz
  by_cases hp : y.tag = .stop ∨ y.tag = .delay
  · rw [beatsUntil_pause hp]; simpa using hbeat
  · rw [beatsUntil_run hp]
    have hbpm := state_bpm_pos hd hy
    have htime : z.time = y.time + y.timeUntil z.beat z.tag := by rw [hzeq]; rfl
    have hadd : ¬ ((y.tag = .stop ∨ y.tag = .delay) ∧ (z.tag = .stopEnd ∨ z.tag = .delayEnd)) :=
      fun h => hp h.1
    unfold TState.timeUntil at htime
    rw [if_neg hadd, add_zero] at htime
    by_cases hw : y.warp = true
    · rw [if_pos hw, add_zero] at htime
      exfalso
      rcases h1 with h1 | h1
      · subst h1
        rw [states_zero] at hy
        rw [← Option.some.inj hy] at hw
        exact absurd hw (by simp [initState])
      · rw [htime] at h2
        exact R12_contra h1 (le_refl t) h2
    · rw [if_neg hw] at htime
      have ht := R2_le h2
      have hle : (t - y.time) / 60 * y.bpm ≤ z.beat - y.beat := by
        have h3 : t - y.time ≤ (z.beat - y.beat) * 60 / y.bpm := by linarith
        have h4 : (t - y.time) / 60 * y.bpm ≤ (z.beat - y.beat) * 60 / y.bpm / 60 * y.bpm := by
          apply mul_le_mul_of_nonneg_right _ (le_of_lt hbpm)
          exact div_le_div_of_nonneg_right h3 (by norm_num)
        have h5 : (z.beat - y.beat) * 60 / y.bpm / 60 * y.bpm = z.beat - y.beat := by
          field_simp
        linarith
      have := roundToTick_mono hle
      rw [roundToTick_grid (onGrid_sub (state_beat_grid hd hz) (state_beat_grid hd hy))] at this
      linarith

/-- 8. `beat_at` is monotone in the time, for each tag -/
theorem beatAt_mono (hd : Dom0 td) (g : Tag) {t₁ t₂ : Rat} (h : t₁ ≤ t₂) : beatAt td t₁ g ≤ beatAt td t₂ g := by
  obtain ⟨k₁, y₁, hy₁, hs₁, ha₁, hb₁⟩ := priorByTime_sel hd t₁ g
  obtain ⟨k₂, y₂, hy₂, hs₂, ha₂, hb₂⟩ := priorByTime_sel hd t₂ g
  rw [beatAt_eq, beatAt_eq, hs₁, hs₂]
  have hk : k₁ ≤ k₂ := by
    by_contra hc
    have hlt : k₂ < k₁ := by omega
    rcases ha₁ with ha₁ | ha₁
    · omega
    · exact R12_contra ha₁ h (hb₂ k₁ y₁ hlt hy₁)
  rcases Nat.lt_or_eq_of_le hk with hlt | heq
  · have hlen := states_lt_of_get hy₂
    obtain ⟨z, hz⟩ := states_get td (k₁ + 1) (by omega)
    have h1 := link hd _ hy₁ hz ha₁ (hb₁ (k₁ + 1) z (Nat.lt_succ_self _) hz)
    have h2 : z.beat ≤ y₂.beat := beats_le hd hlt hz hy₂
    have h3 : 0 ≤ y₂.beatsUntil t₂ := by
      rcases ha₂ with ha₂ | ha₂
      · omega
      · exact beatsUntil_nonneg (le_of_lt (state_bpm_pos hd hy₂)) (R1_le ha₂)
    linarith
  · subst heq
    rw [hy₁] at hy₂
    obtain rfl := Option.some.inj hy₂
    have := beatsUntil_mono (s := y₁) (le_of_lt (state_bpm_pos hd hy₁)) h
    linarith

/-- the END key of a pause is `L` seconds after its start key -/
theorem timeSpec_pause (hd : Dom0 td) (g0 g1 : Tag) (hadj : g1.val = g0.val + 1)
    (hg0 : g0 = .stop ∨ g0 = .delay) (b L : Rat) (he : (⟨b, L, g0⟩ : TEvent) ∈ events td) :
    Spec.timeSpec td b g1 = Spec.timeSpec td b g0 + L := by
  obtain ⟨j, hj, hej⟩ := event_index he
  obtain ⟨z, _, hinv, hzb, hzt, hzv, hzk⟩ := states_event hd j hj
  rw [hej] at hzb hzt hzv hzk
  simp only at hzb hzt hzv
  have hg1 : g1 = .stopEnd ∨ g1 = .delayEnd := by
    rcases hg0 with rfl | rfl
    · left; apply Tag.val_inj; rw [hadj]; simp
    · right; apply Tag.val_inj; rw [hadj]; simp
  have hle : skey z ≤ key b g1 := by
    rw [hzk]; exact key_le.2 (Or.inr ⟨rfl, by simp only; omega⟩)
  have hno : NoneBetween td (skey z) (key b g1) := by
    intro e _ hh
    rw [hzk] at hh
    have h1 := key_squeeze (le_of_lt hh.1) (le_of_lt hh.2)
    rcases key_lt.1 hh.1 with h2 | h2
    · exact absurd h1.1.symm (ne_of_lt h2)
    · rcases key_lt.1 hh.2 with h3 | h3
      · exact absurd h1.1 (ne_of_lt h3)
      · have := h2.2; have := h3.2; simp only at *; omega
  have hst := step_time hd z hinv b g1 hle hno
  have ht0 : z.time = Spec.timeSpec td b g0 := by rw [hinv.time, hzb, hzt]
  rw [← hst, ← ht0]
  unfold TState.timeUntil
  have hc : (g0 = .stop ∨ g0 = .delay) ∧ (g1 = .stopEnd ∨ g1 = .delayEnd) := ⟨hg0, hg1⟩
  rw [hzb, hzt, hzv, if_pos hc]
  split <;> simp

/-- between the start key and the END key of a pause every search returns the beat of the pause -/
theorem beatAt_pause (hd : Dom0 td) (g0 g1 : Tag) (hadj : g1.val = g0.val + 1)
    (hg0 : g0 = .stop ∨ g0 = .delay) (b L : Rat) (he0 : (⟨b, L, g0⟩ : TEvent) ∈ events td)
    (he1 : (⟨b, L, g1⟩ : TEvent) ∈ events td) (t : Rat) (h1 : Spec.timeSpec td b g0 < t)
    (h2 : t < Spec.timeSpec td b g0 + L) (g : Tag) : beatAt td t g = b := by
  obtain ⟨j, hj, hej⟩ := event_index he0
  obtain ⟨j', hj', hej'⟩ := event_index he1
  obtain ⟨z, hz, hinv, hzb, hzt, _, hzk⟩ := states_event hd j hj
  obtain ⟨z', hz', hinv', hzb', hzt', _, hzk'⟩ := states_event hd j' hj'
  rw [hej] at hzb hzt hzk
  rw [hej'] at hzb' hzt' hzk'
  simp only at hzb hzt hzb' hzt'
  have hzt0 : z.time = Spec.timeSpec td b g0 := by rw [hinv.time, hzb, hzt]
  have hzt1 : z'.time = Spec.timeSpec td b g0 + L := by
    rw [hinv'.time, hzb', hzt', timeSpec_pause hd g0 g1 hadj hg0 b L he0]
  obtain ⟨k, y, hy, hsel, ha, hb⟩ := priorByTime_sel hd t g
  rw [beatAt_eq, hsel]
  have hk1 : j + 1 ≤ k := by
    by_contra hc
    have := R2_le (hb (j + 1) z (by omega) hz)
    rw [hzt0] at this
    linarith
  cases k with
  | zero => omega
  | succ i =>
    have hyt : y.time ≤ t := by
      rcases ha with ha | ha
      · omega
      · exact R1_le ha
    have hk2 : i < j' := by
      by_contra hc
      have := times_le hd (show j' + 1 ≤ i + 1 by omega) hz' hy
      rw [hzt1] at this
      linarith
    obtain ⟨hi, _, _, _, _, hyk⟩ := states_pos hd i y hy
    have hlow := events_key_le hd hj hi (show j ≤ i by omega)
    have hhigh := events_key_lt hd hi hj' hk2
    rw [hej, ← hyk] at hlow
    rw [hej', ← hyk] at hhigh
    unfold ekey at hlow hhigh
    simp only at hlow hhigh
    obtain ⟨hb', hv1, _⟩ := key_squeeze hlow (le_of_lt hhigh)
    have htag : y.tag = g0 := by
      apply Tag.val_inj
      rcases key_lt.1 hhigh with h3 | h3
      · exact absurd hb' (ne_of_lt h3)
      · have := h3.2; omega
    rw [beatsUntil_pause (htag ▸ hg0), hb', add_zero]

end Simfile.Wide
