/-
Lemmas for C10, same-beat mode JOIN_BY_NOTE_TYPE: the rows are rearrangements of the rows of the
joined stream, the joined stream of a position-sorted single-player stream is weakly ordered in the
sense of `Ungroup.Weak`, and so is every row-wise rearrangement of it.
-/
import Simfile.Lemmas.UngroupWeak
import Simfile.Lemmas.GroupJoinMain
namespace Simfile.Ungroup
open Simfile Simfile.Spec

/-! ### `add_row` with JOIN_BY_NOTE_TYPE rearranges the row -/

/-- classes of a Nodup list of keys covering the list partition it -/
theorem flatMap_filter_perm {α κ} [DecidableEq κ] (f : α → κ) : ∀ (T : List κ) (row : List α), T.Nodup →
    (∀ g ∈ row, f g ∈ T) → (T.flatMap fun k => row.filter fun g => f g = k).Perm row := by
  intro T
  induction T with
  | nil =>
    intro row _ h
    cases row with
    | nil => exact List.Perm.refl _
    | cons g r => exact absurd (h g (by simp)) (by simp)
  | cons k T ih =>
    intro row hnd h
    have hnd' := List.nodup_cons.mp hnd
    rw [List.flatMap_cons]
    have hrest : (T.flatMap fun k' => row.filter fun g => f g = k') =
        (T.flatMap fun k' => (row.filter fun g => !decide (f g = k)).filter fun g => f g = k') := by
      apply List.flatMap_congr
      intro k' hk'
      rw [List.filter_filter]
      apply List.filter_congr
      intro g _
      by_cases hg : f g = k'
      · have : f g ≠ k := fun e => hnd'.1 (e ▸ hg ▸ hk')
        subst hg
        simp [this]
      · simp [hg]
    rw [hrest]
    have ih' := ih (row.filter fun g => !decide (f g = k)) hnd'.2 (by
      intro g hg
      obtain ⟨hg1, hg2⟩ := List.mem_filter.mp hg
      have hne : f g ≠ k := by simpa using hg2
      rcases List.mem_cons.mp (h g hg1) with e | e
      · exact absurd e hne
      · exact e)
    exact (List.Perm.append_left _ ih').trans (List.filter_append_perm _ row)

def addTypes (T : List Char) (l : List GNote) : List Char :=
  l.foldl (fun T g => if T.contains g.ntype then T else T ++ [g.ntype]) T

theorem addTypes_spec : ∀ (l : List GNote) (T : List Char), T.Nodup →
    (addTypes T l).Nodup ∧ (∀ k ∈ T, k ∈ addTypes T l) ∧ (∀ g ∈ l, g.ntype ∈ addTypes T l) := by
  intro l
  induction l with
  | nil => intro T h; exact ⟨h, fun _ hk => hk, by simp⟩
  | cons g l ih =>
    intro T h
    simp only [addTypes, List.foldl_cons]
    by_cases hc : T.contains g.ntype = true
    · rw [if_pos hc]
      obtain ⟨h1, h2, h3⟩ := ih T h
      refine ⟨h1, h2, ?_⟩
      intro x hx
      rcases List.mem_cons.mp hx with rfl | hx
      · exact h2 _ (by simpa using hc)
      · exact h3 x hx
    · rw [if_neg hc]
      have hnm : g.ntype ∉ T := by simpa using hc
      obtain ⟨h1, h2, h3⟩ := ih (T ++ [g.ntype]) (by
        rw [List.nodup_append]
        exact ⟨h, by simp, fun a ha b hb => by simp at hb; subst hb; exact fun e => hnm (e ▸ ha)⟩)
      refine ⟨h1, fun k hk => h2 k (by simp [hk]), ?_⟩
      intro x hx
      rcases List.mem_cons.mp hx with rfl | hx
      · exact h2 _ (by simp)
      · exact h3 x hx

theorem addRow_byType_foldl (row0 : List GNote) : ∀ (l : List GNote) (T : List Char),
    l.foldl (fun (acc : List Char × List (List GNote)) g =>
      if acc.1.contains g.ntype then acc
      else (acc.1 ++ [g.ntype], acc.2 ++ [row0.filter fun h => h.ntype = g.ntype]))
      (T, T.map fun k => row0.filter fun h => h.ntype = k) =
    (addTypes T l, (addTypes T l).map fun k => row0.filter fun h => h.ntype = k) := by
  intro l
  induction l with
  | nil => intro T; rfl
  | cons g l ih =>
    intro T
    simp only [List.foldl_cons, addTypes]
    by_cases hc : T.contains g.ntype = true
    · simp only [hc, if_true]; exact ih T
    · simp only [hc, Bool.false_eq_true, if_false]
      have := ih (T ++ [g.ntype])
      simp only [List.map_append, List.map_cons, List.map_nil] at this
      exact this

theorem addRow_byType_perm (row : List GNote) : (addRow .joinByType row).flatten.Perm row := by
  have h := addRow_byType_foldl row row []
  simp only [List.map_nil] at h
  simp only [addRow, h]
  obtain ⟨h1, _, h3⟩ := addTypes_spec row [] List.nodup_nil
  rw [← List.flatMap_def]
  exact flatMap_filter_perm GNote.ntype _ row h1 h3

/-! ### the rows and the stream -/

theorem flatten_flatMap' {α β} (l : List α) (f : α → List (List β)) :
    (l.flatMap f).flatten = l.flatMap fun x => (f x).flatten := by
  induction l with
  | nil => rfl
  | cons a l ih => simp [ih]

/-- every element of a run has the run's key -/
theorem groupRuns_key {α κ} [DecidableEq κ] (key : α → κ) (l : List α) :
    ∀ r ∈ groupRuns key l, ∀ x ∈ r.2, key x = r.1 := by
  induction l with
  | nil => intro r hr; simp [groupRuns] at hr
  | cons a l ih =>
    rw [Runs.groupRuns_cons]
    cases h : groupRuns key l with
    | nil => intro r hr x hx; simp at hr; subst hr; simp at hx; subst hx; rfl
    | cons r0 rest =>
      rcases r0 with ⟨k, run⟩
      rw [h] at ih
      by_cases hk : key a = k
      · simp only [hk, if_true]
        intro r hr x hx
        rcases List.mem_cons.mp hr with rfl | hr
        · rcases List.mem_cons.mp hx with rfl | hx
          · exact hk
          · exact ih (k, run) (by simp) x hx
        · exact ih r (by simp [hr]) x hx
      · simp only [hk, if_false]
        intro r hr x hx
        rcases List.mem_cons.mp hr with rfl | hr
        · simp at hx; subst hx; rfl
        · exact ih r hr x hx

theorem map_eq_of_perm_const {α β} (f : α → β) {l1 l2 : List α} (hp : l1.Perm l2) (b : β)
    (h : ∀ x ∈ l2, f x = b) : l1.map f = l2.map f := by
  have e2 : l2.map f = List.replicate l2.length b := by
    rw [List.eq_replicate_iff]; simp only [List.length_map, true_and]
    intro y hy; obtain ⟨x, hx, rfl⟩ := List.mem_map.mp hy; exact h x hx
  have e1 : l1.map f = List.replicate l1.length b := by
    rw [List.eq_replicate_iff]; simp only [List.length_map, true_and]
    intro y hy; obtain ⟨x, hx, rfl⟩ := List.mem_map.mp hy; exact h x (hp.mem_iff.mp hx)
  rw [e1, e2, hp.length_eq]

/-- the groups made with JOIN_BY_NOTE_TYPE, concatenated -/
def byType (S : List GNote) : List GNote :=
  ((groupRuns GNote.beat S).flatMap fun (_, row) => addRow .joinByType row).flatten

theorem byType_perm_beats (S : List GNote) :
    (byType S).Perm S ∧ (byType S).map GNote.beat = S.map GNote.beat := by
  unfold byType
  rw [flatten_flatMap']
  have hflat := Runs.groupRuns_flatten GNote.beat S
  have hkey := groupRuns_key GNote.beat S
  generalize groupRuns GNote.beat S = runs at hflat hkey
  subst hflat
  induction runs with
  | nil => exact ⟨List.Perm.refl _, rfl⟩
  | cons r runs ih =>
    obtain ⟨ih1, ih2⟩ := ih (fun r' hr' => hkey r' (by simp [hr']))
    simp only [List.flatMap_cons, List.map_append]
    have hp := addRow_byType_perm r.2
    refine ⟨List.Perm.append hp ih1, ?_⟩
    rw [ih2, map_eq_of_perm_const GNote.beat hp r.1 (hkey r (by simp))]

/-! ### the joined stream of a sorted single-player stream -/

theorem mem_image_cases {o : GOpts} {n : Note} {cl : Cls} {g : GNote} (h : g ∈ image o (n, cl)) :
    (g = .plain n ∧ ∀ tb, cl ≠ .joined tb) ∨ (∃ tb, g = .withTail n tb ∧ cl = .joined tb) := by
  cases cl <;> simp only [image] at h
  · simp at h; exact Or.inr ⟨_, h, rfl⟩
  · split at h <;> simp at h; exact Or.inl ⟨h, by intro tb; simp⟩
  · simp at h
  · split at h <;> simp at h; exact Or.inl ⟨h, by intro tb; simp⟩
  · simp at h; exact Or.inl ⟨h, by intro tb; simp⟩

theorem image_consumed (o : GOpts) (n : Note) : image o (n, .consumed) = [] := rfl

/-- a head joined to a tail: the tail is the next note of the column -/
theorem classify_joined {B R : List Note} {n : Note} {tb : Rat} (h : classify B n R = .joined tb) :
    isHead n.ntype = true ∧ ∃ t, R.find? (·.column = n.column) = some t ∧ t.ntype = cTAIL ∧ t.beat = tb := by
  unfold classify at h
  split at h
  · rename_i hh
    refine ⟨hh, ?_⟩
    split at h
    · rename_i t ht
      split at h
      · rename_i htt
        simp only [Cls.joined.injEq] at h
        exact ⟨t, ht, htt, h⟩
      · cases h
    · cases h
  · split at h
    · split at h
      · split at h <;> cases h
      · cases h
    · cases h

/-- the items of a column whose next note is a tail closing an open head all lie after that tail -/
theorem after_tail (o : GOpts) (c : Nat) (t : Note) : ∀ (R B : List Note), Sorted R →
    R.find? (·.column = c) = some t → t.ntype = cTAIL → headOpen B c = true →
    ∀ g ∈ (classifyAll B R).flatMap (image o), g.column = c → toK t.key < toK g.key := by
  intro R
  induction R with
  | nil => intro B _ hf; simp at hf
  | cons x R ih =>
    intro B hs hf ht ho g hg hc
    simp only [classifyAll, List.flatMap_cons, List.mem_append] at hg
    by_cases hx : x.column = c
    · have hxt : x = t := by simpa [List.find?_cons, hx] using hf
      subst hxt
      have hcl : classify B x R = .consumed := by
        unfold headOpen at ho
        simp only [classify, ht, isHead_tail, Bool.false_eq_true, if_false, if_true]
        rw [hx]
        cases hb : B.find? (·.column = c) with
        | none => rw [hb] at ho; simp at ho
        | some h => rw [hb] at ho; simp at ho; simp [ho]
      rcases hg with hg | hg
      · rw [hcl, image_consumed] at hg; simp at hg
      · obtain ⟨m, hm, hk⟩ := mem_S_key o R (x :: B) g hg
        rw [hk]; exact (keyLt_iff _ _).mp (hs.head_lt hm)
    · have hf' : R.find? (·.column = c) = some t := by simpa [List.find?_cons, hx] using hf
      rcases hg with hg | hg
      · have hk := mem_image_key hg
        have : g.column = x.column := by
          have := congrArg (fun k => k.2.2) hk
          rw [GNote.key_eq g] at this
          exact this
        exact absurd (this.symm.trans hc) hx
      · exact ih (x :: B) hs.tail hf' ht (by rw [headOpen_cons, if_neg hx]; exact ho) g hg hc

theorem recon_key (h : Note) (tb : Rat) : (recon h tb).key = (h.player, tb, h.column) := rfl

/-- position order, tails after their heads, and the positional never-inside property of the joined stream -/
theorem spec_stream (o : GOpts) : ∀ (R B : List Note), Sorted R → (∀ a ∈ R, ∀ b ∈ R, a.player = b.player) →
    (((classifyAll B R).flatMap (image o)).Pairwise fun a g =>
      toK a.key < toK g.key ∧
      ∀ h tb, a = .withTail h tb → g.column = h.column → toK (recon h tb).key < toK g.key) ∧
    (∀ h tb, GNote.withTail h tb ∈ (classifyAll B R).flatMap (image o) → h.beat ≤ tb) := by
  intro R
  induction R with
  | nil => intro B _ _; simp [classifyAll]
  | cons n R ih =>
    intro B hs hpl
    obtain ⟨ih1, ih2⟩ := ih (n :: B) hs.tail (fun a ha b hb => hpl a (by simp [ha]) b (by simp [hb]))
    -- what a joined head `n` knows about its tail
    have hjoin : ∀ tb, classify B n R = .joined tb → ∃ t ∈ R, R.find? (·.column = n.column) = some t ∧
        t.ntype = cTAIL ∧ t.beat = tb ∧ t.key = (recon n tb).key ∧ isHead n.ntype = true := by
      intro tb hcl
      obtain ⟨hh, t, hf, htt, htb⟩ := classify_joined hcl
      have htR : t ∈ R := List.mem_of_find?_eq_some hf
      have htc : t.column = n.column := by simpa using List.find?_some hf
      refine ⟨t, htR, hf, htt, htb, ?_, hh⟩
      rw [recon_key, ← htb, ← htc, ← hpl t (by simp [htR]) n (by simp)]
      rfl
    simp only [classifyAll, List.flatMap_cons]
    constructor
    · rw [List.pairwise_append]
      refine ⟨?_, ih1, ?_⟩
      · -- the image has at most one element
        cases hcl : classify B n R <;> simp only [image] <;> (try split) <;> simp
      · intro a ha g hg
        have hak := mem_image_key ha
        obtain ⟨m, hm, hk⟩ := mem_S_key o R (n :: B) g hg
        refine ⟨by rw [hak, hk]; exact (keyLt_iff _ _).mp (hs.head_lt hm), ?_⟩
        intro h tb hae hc
        rcases mem_image_cases ha with ⟨hpn, _⟩ | ⟨tb', hwt, hcl⟩
        · rw [hpn] at hae; cases hae
        · rw [hwt] at hae
          simp only [GNote.withTail.injEq] at hae
          obtain ⟨rfl, rfl⟩ := hae
          obtain ⟨t, _, hf, htt, _, htk, hh⟩ := hjoin _ hcl
          rw [← htk]
          exact after_tail o n.column t R (n :: B) hs.tail hf htt
            (by rw [headOpen_cons, if_pos rfl]; exact hh) g hg hc
    · intro h tb hm
      rcases List.mem_append.mp hm with hm | hm
      · rcases mem_image_cases hm with ⟨hpn, _⟩ | ⟨tb', hwt, hcl⟩
        · cases hpn
        · simp only [GNote.withTail.injEq] at hwt
          obtain ⟨rfl, rfl⟩ := hwt
          obtain ⟨t, htR, _, _, htb, _, _⟩ := hjoin _ hcl
          rw [← htb]
          exact beat_le_of_toK_le (le_of_lt ((keyLt_iff _ _).mp (hs.head_lt htR)))
            (hpl h (by simp) t (by simp [htR]))
      · exact ih2 h tb hm

/-- every rearrangement with the same beat sequence of the joined stream is weakly ordered -/
theorem weak_of_perm (o : GOpts) (F : List Note) (hs : Sorted F) (p0 : Nat) (hpl : ∀ a ∈ F, a.player = p0)
    (L : List GNote) (hperm : L.Perm ((classifyAll [] F).flatMap (image o)))
    (hbeats : L.map GNote.beat = ((classifyAll [] F).flatMap (image o)).map GNote.beat) : Weak p0 L := by
  obtain ⟨h1, h2⟩ := spec_stream o F [] hs (fun a ha b hb => (hpl a ha).trans (hpl b hb).symm)
  generalize hS : (classifyAll [] F).flatMap (image o) = S at *
  have hplS : ∀ g ∈ S, g.key.1 = p0 := by
    intro g hg
    rw [← hS] at hg
    obtain ⟨m, hm, hk⟩ := mem_S_key o F [] g hg
    rw [hk]; exact hpl m hm
  have hSbeats : (S.map GNote.beat).Pairwise (· ≤ ·) := by
    rw [List.pairwise_map]
    refine h1.imp_of_mem ?_
    intro a g ha hg hag
    have := beat_le_of_toK_le (le_of_lt hag.1) ((hplS a ha).trans (hplS g hg).symm)
    rw [GNote.key_eq a, GNote.key_eq g] at this
    exact this
  have hplL : ∀ g ∈ L, g.key.1 = p0 := fun g hg => hplS g (hperm.mem_iff.mp hg)
  have hLb : L.Pairwise fun a g => a.beat ≤ g.beat := by
    have : (L.map GNote.beat).Pairwise (· ≤ ·) := by rw [hbeats]; exact hSbeats
    exact List.pairwise_map.mp this
  have hLk : L.Pairwise fun a g => a.key ≠ g.key := by
    have hSk : S.Pairwise fun a g => a.key ≠ g.key :=
      h1.imp fun {a g} hag e => by rw [e] at hag; exact lt_irrefl _ hag.1
    exact (hperm.pairwise_iff (fun {a b} hab e => hab e.symm)).mpr hSk
  refine ⟨by rw [hbeats]; exact hSbeats, hplL, fun h tb hm => h2 h tb (hperm.mem_iff.mp hm), ?_⟩
  refine (hLb.and hLk).imp_of_mem ?_
  intro a g ha hg ⟨hab, hak⟩ h tb hae hc
  subst hae
  have haS := hperm.mem_iff.mp ha
  have hgS := hperm.mem_iff.mp hg
  have hpeq : (GNote.withTail h tb).key.1 = g.key.1 := (hplL _ ha).trans (hplL g hg).symm
  -- the head is strictly before `g` in position order
  have hlt : toK (GNote.withTail h tb).key < toK g.key := by
    rcases lt_or_eq_of_le hab with hb | hb
    · apply toK_lt_of_beat_lt hpeq
      rw [GNote.key_eq g]; exact hb
    · exfalso
      apply hak
      rw [GNote.key_eq g, GNote.key_eq (GNote.withTail h tb), hpeq, hc]
      have hb' : h.beat = g.beat := hb
      simp only [GNote.beat, GNote.column, hb']
  rcases pairwise_trichotomy h1 haS hgS with e | hr | hr
  · rw [e] at hlt; exact absurd hlt (lt_irrefl _)
  · exact hr.2 h tb rfl hc
  · exact absurd hlt (not_lt.mpr (le_of_lt hr.1))

/-! ### the round trip with JOIN_BY_NOTE_TYPE -/

theorem beats_sorted_of_sorted {F : List Note} (hs : Sorted F) {p0 : Nat} (hpl : ∀ a ∈ F, a.player = p0) :
    (F.map (·.beat)).Pairwise (· ≤ ·) := by
  rw [List.pairwise_map]
  refine hs.imp_of_mem ?_
  intro a b ha hb hab
  exact beat_le_of_toK_le (le_of_lt ((keyLt_iff _ _).mp hab)) ((hpl a ha).trans (hpl b hb).symm)

theorem flatMap_notesOf_plain (F : List Note) : (F.map GNote.plain).flatMap notesOf = F := by
  induction F with
  | nil => rfl
  | cons n F ih => simp [notesOf, ih]

/-- joining off -/
theorem ungroup_byType_plain (p : Orphan) (F : List Note) (hs : Sorted F) (p0 : Nat) (hpl : ∀ a ∈ F, a.player = p0)
    (groups : List (List GNote)) (hg : groups.flatten = byType (F.map GNote.plain)) :
    ∃ out, ungroupNotes p groups = .ok out ∧ out.Perm F ∧ (out.map (·.beat)).Pairwise (· ≤ ·) := by
  obtain ⟨hperm, hbeats⟩ := byType_perm_beats (F.map GNote.plain)
  have hplain : ∀ g ∈ byType (F.map GNote.plain), ∃ n ∈ F, g = .plain n := by
    intro g hg
    obtain ⟨n, hn, e⟩ := List.mem_map.mp (hperm.mem_iff.mp hg)
    exact ⟨n, hn, e.symm⟩
  have hw : Weak p0 groups.flatten := by
    rw [hg]
    refine ⟨?_, ?_, ?_, ?_⟩
    · rw [hbeats, List.map_map]
      exact beats_sorted_of_sorted hs hpl
    · intro g hg
      obtain ⟨n, hn, rfl⟩ := hplain g hg
      exact hpl n hn
    · intro h tb hm
      obtain ⟨n, _, e⟩ := hplain _ hm
      cases e
    · refine (List.pairwise_of_forall (l := byType (F.map GNote.plain)) (R := fun _ _ => True)
        (fun _ _ => trivial)).imp_of_mem ?_
      intro a g ha _ _ h tb hae
      obtain ⟨n, _, e⟩ := hplain _ ha
      rw [e] at hae; cases hae
  obtain ⟨out, h1, h2, h3⟩ := ungroup_weak p groups hw
  refine ⟨out, h1, ?_, h3⟩
  rw [hg] at h2
  exact h2.trans ((hperm.flatMap_right _).trans (by rw [flatMap_notesOf_plain]))

/-- joining on: the groups made from the specification's joined stream -/
theorem ungroup_byType_joinSpec (o : GOpts) (p : Orphan) (F : List Note) (S : List GNote) (hs : Sorted F)
    (p0 : Nat) (hpl : ∀ a ∈ F, a.player = p0) (hks : ∀ n ∈ F, n.ntype = cTAIL → n.keysound = none)
    (hS : joinSpec o F = .ok S) (groups : List (List GNote)) (hg : groups.flatten = byType S) :
    ∃ out, ungroupNotes p groups = .ok out ∧ out.Perm ((classifyAll [] F).filterMap (survF o)) ∧
      (out.map (·.beat)).Pairwise (· ≤ ·) := by
  have hpl2 : ∀ a ∈ F, ∀ b ∈ F, a.player = b.player := fun a ha b hb => (hpl a ha).trans (hpl b hb).symm
  -- the stream in order: what `run_spec` returns is a rearrangement of its notes and tails
  have hsurv := ungroup_joinSpec o p F S hs hpl2 hks hS .joinAll (by decide)
  unfold joinSpec at hS
  simp only at hS
  split at hS
  · cases hS
  · have hS' : (classifyAll [] F).flatMap (image o) = S := Except.ok.inj hS
    have hwS : Weak p0 S := by
      rw [← hS']; exact weak_of_perm o F hs p0 hpl _ (List.Perm.refl _) rfl
    obtain ⟨out0, h01, h02, _⟩ := ungroup_weak p [S] (by simpa using hwS)
    have hsurv' : ungroupNotes p [S] = .ok ((classifyAll [] F).filterMap (survF o)) := by
      rw [ungroupNotes_eq] at hsurv ⊢
      rw [rows_flatten .joinAll (by decide)] at hsurv
      simpa using hsurv
    rw [hsurv'] at h01
    have e0 := Except.ok.inj h01
    simp only [List.flatten_cons, List.flatten_nil, List.append_nil] at h02
    -- the rearranged stream
    obtain ⟨hperm, hbeats⟩ := byType_perm_beats S
    have hw : Weak p0 groups.flatten := by
      rw [hg]
      exact weak_of_perm o F hs p0 hpl _ (by rw [hS']; exact hperm) (by rw [hS']; exact hbeats)
    obtain ⟨out, h1, h2, h3⟩ := ungroup_weak p groups hw
    refine ⟨out, h1, ?_, h3⟩
    rw [hg] at h2
    rw [e0]
    exact h2.trans ((hperm.flatMap_right _).trans h02.symm)

/-! ### every output of `group_notes` on a sorted single-player stream is weakly ordered -/

theorem rows_perm_beats (mode : SameBeat) (S : List GNote) :
    (((groupRuns GNote.beat S).flatMap fun (_, row) => addRow mode row).flatten).Perm S ∧
    (((groupRuns GNote.beat S).flatMap fun (_, row) => addRow mode row).flatten).map GNote.beat =
      S.map GNote.beat := by
  by_cases hm : mode = .joinByType
  · subst hm; exact byType_perm_beats S
  · rw [rows_flatten mode hm]; exact ⟨List.Perm.refl _, rfl⟩

theorem weak_plain (F : List Note) (hs : Sorted F) (p0 : Nat) (hpl : ∀ a ∈ F, a.player = p0)
    (L : List GNote) (hperm : L.Perm (F.map GNote.plain))
    (hbeats : L.map GNote.beat = (F.map GNote.plain).map GNote.beat) : Weak p0 L := by
  have hplain : ∀ g ∈ L, ∃ n ∈ F, g = .plain n := by
    intro g hg
    obtain ⟨n, hn, e⟩ := List.mem_map.mp (hperm.mem_iff.mp hg)
    exact ⟨n, hn, e.symm⟩
  refine ⟨?_, ?_, ?_, ?_⟩
  · rw [hbeats, List.map_map]
    exact beats_sorted_of_sorted hs hpl
  · intro g hg
    obtain ⟨n, hn, rfl⟩ := hplain g hg
    exact hpl n hn
  · intro h tb hm
    obtain ⟨n, _, e⟩ := hplain _ hm
    cases e
  · refine (List.pairwise_of_forall (l := L) (R := fun _ _ => True) (fun _ _ => trivial)).imp_of_mem ?_
    intro a g ha _ _ h tb hae
    obtain ⟨n, _, e⟩ := hplain _ ha
    rw [e] at hae; cases hae

theorem groups_weak (o : GOpts) (ns : List Note) (hs : Sorted ns) (p0 : Nat) (hpl : ∀ a ∈ ns, a.player = p0)
    (g : List (List GNote)) (hg : groupNotes o ns = .ok g) : Weak p0 g.flatten := by
  have hnd : ns.Nodup := hs.imp fun {a b} h e => by
    subst e; rw [keyLt_irrefl] at h; cases h
  have hsF : Sorted (ns.filter fun n => o.incl.contains n.ntype) := hs.sublist List.filter_sublist
  have hplF : ∀ a ∈ ns.filter fun n => o.incl.contains n.ntype, a.player = p0 :=
    fun a ha => hpl a (List.mem_of_mem_filter ha)
  unfold groupNotes at hg
  cases hj : o.join with
  | false =>
    simp only [hj, Bool.false_eq_true, if_false, bind, Except.bind, pure, Except.pure] at hg
    have hg' := Except.ok.inj hg
    rw [← hg']
    obtain ⟨h1, h2⟩ := rows_perm_beats o.sameBeat ((ns.filter fun n => o.incl.contains n.ntype).map GNote.plain)
    exact weak_plain _ hsF p0 hplF _ h1 h2
  | true =>
    simp only [hj, if_true] at hg
    rw [Join.join_refines_spec o _ (List.Nodup.sublist List.filter_sublist hnd)] at hg
    cases hS : joinSpec o (ns.filter fun n => o.incl.contains n.ntype) with
    | error e => rw [hS] at hg; cases hg
    | ok S =>
      rw [hS] at hg
      simp only [bind, Except.bind, pure, Except.pure] at hg
      have hg' := Except.ok.inj hg
      rw [← hg']
      obtain ⟨h1, h2⟩ := rows_perm_beats o.sameBeat S
      unfold joinSpec at hS
      simp only at hS
      split at hS
      · cases hS
      · have hS' := Except.ok.inj hS
        rw [← hS'] at h1 h2 ⊢
        exact weak_of_perm o _ hsF p0 hplF _ h1 h2

end Simfile.Ungroup
