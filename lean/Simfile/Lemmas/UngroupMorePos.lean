/-
More lemmas for C10 (round 2): the orphan check of `ungroup_notes` stated POSITIONALLY, on the input
sequence of grouped items, without the heap: which earlier joined items still have their tail pending
when an item is met (`InsideP`, `insideGen`; for position-sorted input `insideOf`), what the DROP
policy leaves out (`expandDrop`), and the order of the output.
-/
import Simfile.Lemmas.UngroupMoreRun
import Mathlib.Data.List.Nodup
namespace Simfile.UngroupPos
open Simfile Simfile.Spec Simfile.Ungroup

/-! ### the heap, as a set -/

theorem mem_popReached_snd {k : Nat × Rat × Nat} {pd : List Note} (hs : PSorted pd) {t : Note} :
    t ∈ (popReached k pd).2 ↔ t ∈ pd ∧ keyLt t.key k = false := by
  constructor
  · intro h
    refine ⟨?_, (keyLt_false_iff _ _).mpr (popReached_snd_ge k pd hs t h)⟩
    rw [← popReached_append k pd]; simp [h]
  · rintro ⟨hm, hk⟩
    rw [← popReached_append k pd, List.mem_append] at hm
    rcases hm with hm | hm
    · have := (keyLt_iff _ _).mpr (popReached_fst_lt k pd t hm)
      rw [this] at hk; cases hk
    · exact hm

theorem inside_iff {pd : List Note} (hs : PSorted pd) (n : Note) :
    inside pd n = true ↔ ∃ t ∈ pd, keyLt t.key n.key = false ∧ t.column = n.column := by
  unfold inside
  rw [List.any_eq_true]
  constructor
  · rintro ⟨t, ht, hc⟩
    obtain ⟨h1, h2⟩ := (mem_popReached_snd hs).mp ht
    exact ⟨t, h1, h2, by simpa using hc⟩
  · rintro ⟨t, h1, h2, hc⟩
    exact ⟨t, (mem_popReached_snd hs).mpr ⟨h1, h2⟩, by simpa using hc⟩

theorem mem_nextPend {pd : List Note} (hs : PSorted pd) (g : GNote) {t : Note} :
    t ∈ nextPend pd g ↔ (t ∈ pd ∧ keyLt t.key g.key = false) ∨ t ∈ tailOf g := by
  cases g with
  | plain n => simp [nextPend, tailOf, GNote.key, mem_popReached_snd hs]
  | withTail hd tb =>
    simp only [nextPend, tailOf, GNote.key, mem_heapInsert, mem_popReached_snd hs, List.mem_singleton]
    tauto

/-- the heap after the items `A`: the tails left from the start that no item of `A` lies after, and
the rebuilt tails of the joined items of `A` that no later item of `A` lies after -/
theorem mem_fold_nextPend : ∀ (A : List GNote) (pd : List Note), PSorted pd → ∀ t : Note,
    (t ∈ A.foldl nextPend pd ↔
      (t ∈ pd ∧ ∀ g ∈ A, keyLt t.key g.key = false) ∨
      ∃ A1 a A2, A = A1 ++ a :: A2 ∧ t ∈ tailOf a ∧ ∀ g ∈ A2, keyLt t.key g.key = false) := by
  intro A
  induction A with
  | nil => intro pd _ t; simp
  | cons g A ih =>
    intro pd hs t
    rw [List.foldl_cons, ih _ (nextPend_sorted pd g hs), mem_nextPend hs]
    constructor
    · rintro (⟨(⟨h1, h2⟩ | h1), h3⟩ | ⟨A1, a, A2, hA, h1, h2⟩)
      · left
        refine ⟨h1, ?_⟩
        intro g' hg'
        rcases List.mem_cons.mp hg' with rfl | hg'
        · exact h2
        · exact h3 g' hg'
      · right; exact ⟨[], g, A, rfl, h1, h3⟩
      · right; exact ⟨g :: A1, a, A2, by rw [hA]; rfl, h1, h2⟩
    · rintro (⟨h1, h2⟩ | ⟨A1, a, A2, hA, h1, h2⟩)
      · left; exact ⟨Or.inl ⟨h1, h2 g (by simp)⟩, fun g' hg' => h2 g' (by simp [hg'])⟩
      · cases A1 with
        | nil =>
          simp only [List.nil_append, List.cons.injEq] at hA
          obtain ⟨rfl, rfl⟩ := hA
          left; exact ⟨Or.inr h1, h2⟩
        | cons b A1 =>
          simp only [List.cons_append, List.cons.injEq] at hA
          obtain ⟨rfl, rfl⟩ := hA
          right; exact ⟨A1, a, A2, rfl, h1, h2⟩

/-! ### inside a joined hold, positionally -/

/-- `x`, met after the items `A`, lies inside a joined hold of its column: an earlier joined item
`.withTail h tb` on `x`'s column whose rebuilt tail (position `tailKey h tb`) lies before none of the
items that follow it, up to and including `x` -/
def InsideP (A : List GNote) (x : GNote) : Prop :=
  ∃ A1 h tb A2, A = A1 ++ .withTail h tb :: A2 ∧ x.column = h.column ∧
    ∀ g ∈ A2 ++ [x], keyLt (tailKey h tb) g.key = false

theorem inside_fold_iff (A : List GNote) (x : GNote) :
    inside (A.foldl nextPend []) (headOf x) = true ↔ InsideP A x := by
  rw [inside_iff (fold_nextPend_sorted A [] List.Pairwise.nil), headOf_key, headOf_column]
  constructor
  · rintro ⟨t, ht, hk, hc⟩
    rcases (mem_fold_nextPend A [] List.Pairwise.nil t).mp ht with ⟨h, _⟩ | ⟨A1, a, A2, hA, h1, h2⟩
    · simp at h
    · cases a with
      | plain n => simp [tailOf] at h1
      | withTail hd tb =>
        simp only [tailOf, List.mem_singleton] at h1
        subst h1
        refine ⟨A1, hd, tb, A2, hA, hc.symm, ?_⟩
        intro g hg
        rcases List.mem_append.mp hg with hg | hg
        · exact h2 g hg
        · simp only [List.mem_singleton] at hg; subst hg; exact hk
  · rintro ⟨A1, hd, tb, A2, hA, hc, hall⟩
    refine ⟨recon hd tb, ?_, hall x (by simp), hc.symm⟩
    rw [mem_fold_nextPend A [] List.Pairwise.nil]
    right
    exact ⟨A1, .withTail hd tb, A2, hA, by simp [tailOf], fun g hg => hall g (by simp [hg])⟩

/-- the same as a Boolean function -/
def insideGen : List GNote → GNote → Bool
  | [], _ => false
  | .plain _ :: A, x => insideGen A x
  | .withTail h tb :: A, x =>
    (decide (x.column = h.column) && (A ++ [x]).all fun g => !keyLt (tailKey h tb) g.key) || insideGen A x

theorem insideGen_iff : ∀ (A : List GNote) (x : GNote), insideGen A x = true ↔ InsideP A x := by
  intro A
  induction A with
  | nil => intro x; simp [insideGen, InsideP]
  | cons a A ih =>
    intro x
    have hcons : InsideP (a :: A) x ↔
        (∃ h tb, a = .withTail h tb ∧ x.column = h.column ∧ ∀ g ∈ A ++ [x], keyLt (tailKey h tb) g.key = false) ∨
          InsideP A x := by
      constructor
      · rintro ⟨A1, h, tb, A2, hA, hc, hall⟩
        cases A1 with
        | nil =>
          simp only [List.nil_append, List.cons.injEq] at hA
          obtain ⟨rfl, rfl⟩ := hA
          exact Or.inl ⟨h, tb, rfl, hc, hall⟩
        | cons b A1 =>
          simp only [List.cons_append, List.cons.injEq] at hA
          obtain ⟨rfl, rfl⟩ := hA
          exact Or.inr ⟨A1, h, tb, A2, rfl, hc, hall⟩
      · rintro (⟨h, tb, rfl, hc, hall⟩ | ⟨A1, h, tb, A2, rfl, hc, hall⟩)
        · exact ⟨[], h, tb, A, rfl, hc, hall⟩
        · exact ⟨a :: A1, h, tb, A2, rfl, hc, hall⟩
    rw [hcons, ← ih]
    cases a with
    | plain n => simp [insideGen]
    | withTail h tb =>
      simp only [insideGen, Bool.or_eq_true, Bool.and_eq_true, decide_eq_true_eq, List.all_eq_true,
        Bool.not_eq_true', GNote.withTail.injEq]
      constructor
      · rintro (⟨hc, hall⟩ | h2)
        · exact Or.inl ⟨h, tb, ⟨rfl, rfl⟩, hc, hall⟩
        · exact Or.inr h2
      · rintro (⟨h', tb', ⟨rfl, rfl⟩, hc, hall⟩ | h2)
        · exact Or.inl ⟨hc, hall⟩
        · exact Or.inr h2

theorem inside_fold_eq (A : List GNote) (x : GNote) :
    inside (A.foldl nextPend []) (headOf x) = insideGen A x := by
  rw [Bool.eq_iff_iff, inside_fold_iff, insideGen_iff]

/-- `a` is a joined item on `x`'s column whose rebuilt tail does not lie before `x` -/
def covers (a x : GNote) : Bool :=
  match a with
  | .withTail h tb => decide (x.column = h.column) && !keyLt (tailKey h tb) x.key
  | .plain _ => false

/-- for a position-sorted sequence: some earlier joined item covers `x` -/
def insideOf (A : List GNote) (x : GNote) : Bool := A.any (covers · x)

theorem insideOf_iff (A : List GNote) (x : GNote) :
    insideOf A x = true ↔
      ∃ h tb, .withTail h tb ∈ A ∧ x.column = h.column ∧ keyLt (tailKey h tb) x.key = false := by
  unfold insideOf
  rw [List.any_eq_true]
  constructor
  · rintro ⟨a, ha, hcv⟩
    cases a with
    | plain n => simp [covers] at hcv
    | withTail h tb =>
      simp only [covers, Bool.and_eq_true, decide_eq_true_eq, Bool.not_eq_true'] at hcv
      exact ⟨h, tb, ha, hcv.1, hcv.2⟩
  · rintro ⟨h, tb, ha, hc, hk⟩
    exact ⟨_, ha, by simp [covers, hc, hk]⟩

/-- sorted by position (weakly) -/
def GSorted (L : List GNote) : Prop := L.Pairwise fun a b => toK a.key ≤ toK b.key

theorem gsorted_of_keyLe {L : List GNote} (h : L.Pairwise fun a b => keyLe a.key b.key = true) : GSorted L :=
  h.imp fun h => (keyLe_iff _ _).mp h

/-- in a position-sorted sequence only the item itself has to be looked at -/
theorem insideP_sorted {A : List GNote} {x : GNote} (hs : GSorted (A ++ [x])) :
    InsideP A x ↔ insideOf A x = true := by
  rw [insideOf_iff]
  constructor
  · rintro ⟨A1, h, tb, A2, rfl, hc, hall⟩
    exact ⟨h, tb, by simp, hc, hall x (by simp)⟩
  · rintro ⟨h, tb, ha, hc, hk⟩
    obtain ⟨A1, A2, rfl⟩ := List.append_of_mem ha
    refine ⟨A1, h, tb, A2, rfl, hc, ?_⟩
    intro g hg
    rcases List.mem_append.mp hg with hg | hg
    · have hgx : toK g.key ≤ toK x.key := by
        have h1 := (List.pairwise_append.mp hs).2.2 g (by simp [hg]) x (by simp)
        exact h1
      have hxt : toK x.key ≤ toK (tailKey h tb) := (keyLt_false_iff _ _).mp hk
      exact (keyLt_false_iff _ _).mpr (le_trans hgx hxt)
    · simp only [List.mem_singleton] at hg; subst hg; exact hk

theorem insideGen_sorted {A : List GNote} {x : GNote} (hs : GSorted (A ++ [x])) :
    insideGen A x = insideOf A x := by
  rw [Bool.eq_iff_iff, insideGen_iff, insideP_sorted hs]

/-! ### what DROP leaves out, positionally -/

/-- the expansion of the items `L` (met after the items `A`), without the heads that lie inside a
joined hold according to `ins`; the tail of such a head is still rebuilt -/
def expandDrop (ins : List GNote → GNote → Bool) : List GNote → List GNote → List Note
  | _, [] => []
  | A, x :: B => (if ins A x then tailOf x else notesOf x) ++ expandDrop ins (A ++ [x]) B

theorem expandSt_true : ∀ (L A : List GNote),
    expandSt true (A.foldl nextPend []) L = expandDrop insideGen A L := by
  intro L
  induction L with
  | nil => intro A; rfl
  | cons x L ih =>
    intro A
    have hf : nextPend (A.foldl nextPend []) x = (A ++ [x]).foldl nextPend [] := by
      rw [List.foldl_append]; rfl
    simp only [expandSt, expandDrop, hf, ih, kept, Bool.true_and, inside_fold_eq, notesOf_eq]
    cases insideGen A x <;> simp

theorem expandDrop_sorted : ∀ (L A : List GNote), GSorted (A ++ L) →
    expandDrop insideGen A L = expandDrop insideOf A L := by
  intro L
  induction L with
  | nil => intro A _; rfl
  | cons x L ih =>
    intro A hs
    have hs1 : GSorted (A ++ [x]) := by
      have : (A ++ [x]).Sublist (A ++ x :: L) := by
        exact List.Sublist.append (List.Sublist.refl _) (by simp)
      exact hs.sublist this
    have hs2 : GSorted ((A ++ [x]) ++ L) := by simpa using hs
    simp only [expandDrop, insideGen_sorted hs1, ih _ hs2]

theorem expandDrop_sublist (ins : List GNote → GNote → Bool) : ∀ (L A : List GNote),
    (expandDrop ins A L).Sublist (L.flatMap notesOf) := by
  intro L
  induction L with
  | nil => intro A; exact List.Sublist.refl _
  | cons x L ih =>
    intro A
    simp only [expandDrop, List.flatMap_cons]
    refine List.Sublist.append ?_ (ih _)
    split
    · rw [notesOf_eq]; exact List.sublist_cons_self _ _
    · exact List.Sublist.refl _

/-- nothing lies inside a hold: nothing is left out -/
theorem expandDrop_none (ins : List GNote → GNote → Bool) : ∀ (L A : List GNote),
    (∀ A1 x B, A ++ L = A1 ++ x :: B → A.length ≤ A1.length → ins A1 x = false) →
    expandDrop ins A L = L.flatMap notesOf := by
  intro L
  induction L with
  | nil => intro A _; rfl
  | cons x L ih =>
    intro A h
    have h1 := h A x L rfl (Nat.le_refl _)
    have h2 : expandDrop ins (A ++ [x]) L = L.flatMap notesOf := by
      apply ih
      intro A1 y B hsplit hlen
      apply h A1 y B (by simpa using hsplit)
      simp at hlen; omega
    simp [expandDrop, h1, h2]

/-! ### the order of the output -/

theorem psorted_of_keyLe {l : List Note} (h : l.Pairwise fun a b => keyLe a.key b.key = true) : PSorted l :=
  h.imp fun h => (keyLe_iff _ _).mp h

theorem keyLe_of_psorted {l : List Note} (h : PSorted l) : l.Pairwise fun a b => keyLe a.key b.key = true :=
  h.imp fun h => (keyLe_iff _ _).mpr h

/-- tails do not lie before their heads -/
def TailAfter (L : List GNote) : Prop := ∀ h tb, GNote.withTail h tb ∈ L → h.beat ≤ tb

theorem head_le_recon {h : Note} {tb : Rat} (hb : h.beat ≤ tb) : toK h.key ≤ toK (recon h tb).key := by
  simp only [toK, Note.key, recon, Prod.Lex.toLex_le_toLex]
  right
  refine ⟨trivial, ?_⟩
  rcases lt_or_eq_of_le hb with h1 | h1
  · exact Or.inl h1
  · exact Or.inr ⟨h1, le_refl _⟩

theorem mem_notesOf_ge {g : GNote} {L : List GNote} (hta : TailAfter L) (hg : g ∈ L) {y : Note}
    (hy : y ∈ notesOf g) : toK g.key ≤ toK y.key := by
  cases g with
  | plain n => simp only [notesOf, List.mem_singleton] at hy; subst hy; exact le_refl _
  | withTail h tb =>
    simp only [notesOf, List.mem_cons, List.not_mem_nil, or_false] at hy
    rcases hy with rfl | rfl
    · exact le_refl _
    · exact head_le_recon (hta h tb hg)

/-- with position-sorted input whose tails do not lie before their heads, KEEP yields the notes in
position order (whatever was pending at the start, as long as that was sorted) -/
theorem keep_sorted : ∀ (L : List GNote) (pd : List Note), PSorted pd → GSorted L → TailAfter L →
    PSorted (emit false pd L ++ L.foldl nextPend pd) := by
  intro L
  induction L with
  | nil => intro pd hp _ _; simpa [emit] using hp
  | cons g L ih =>
    intro pd hp hs hta
    have hs' := List.pairwise_cons.mp hs
    have hta' : TailAfter L := fun h tb hm => hta h tb (by simp [hm])
    have hT := ih (nextPend pd g) (nextPend_sorted pd g hp) hs'.2 hta'
    have hsplit := popReached_append g.key pd
    have hp' : PSorted ((popReached g.key pd).1 ++ (popReached g.key pd).2) := by rw [hsplit]; exact hp
    have hreach : PSorted (popReached g.key pd).1 := (List.pairwise_append.mp hp').1
    -- everything still to come lies at or after `g`
    have hlow : ∀ y ∈ emit false (nextPend pd g) L ++ L.foldl nextPend (nextPend pd g),
        toK g.key ≤ toK y.key := by
      intro y hy
      have hy' := (emit_perm false L (nextPend pd g)).subset hy
      rw [expandSt_false, List.mem_append] at hy'
      rcases hy' with hy' | hy'
      · rcases (mem_nextPend hp g).mp hy' with ⟨_, hk⟩ | hk
        · exact (keyLt_false_iff _ _).mp hk
        · exact mem_notesOf_ge hta (by simp) (by rw [notesOf_eq]; simp [hk])
      · obtain ⟨g', hg', hy''⟩ := List.mem_flatMap.mp hy'
        exact le_trans (hs'.1 g' hg') (mem_notesOf_ge hta' hg' hy'')
    simp only [emit, kept, Bool.false_and, Bool.false_eq_true, if_false, List.foldl_cons, List.append_assoc,
      List.singleton_append]
    refine List.pairwise_append.mpr ⟨hreach, ?_, ?_⟩
    · refine List.pairwise_cons.mpr ⟨?_, hT⟩
      intro y hy
      rw [headOf_key]; exact hlow y hy
    · intro a ha b hb
      have hlt := popReached_fst_lt g.key pd a ha
      rcases List.mem_cons.mp hb with rfl | hb
      · rw [headOf_key]; exact le_of_lt hlt
      · exact le_trans (le_of_lt hlt) (hlow b hb)

/-! ### THE sorted list -/

/-- insertion sort by position -/
def insertByKey (t : Note) : List Note → List Note
  | [] => [t]
  | x :: xs => if keyLe t.key x.key then t :: x :: xs else x :: insertByKey t xs

def sortByKey (l : List Note) : List Note := l.foldr insertByKey []

theorem insertByKey_perm (t : Note) (l : List Note) : (insertByKey t l).Perm (t :: l) := by
  induction l with
  | nil => exact List.Perm.refl _
  | cons x xs ih =>
    simp only [insertByKey]
    split
    · exact List.Perm.refl _
    · exact (List.Perm.cons x ih).trans (List.Perm.swap t x xs)

theorem insertByKey_sorted (t : Note) (l : List Note) (hs : PSorted l) : PSorted (insertByKey t l) := by
  induction l with
  | nil => simp [insertByKey, PSorted]
  | cons x xs ih =>
    have hs' := List.pairwise_cons.mp hs
    simp only [insertByKey]
    split
    · rename_i hle
      have hle' : toK t.key ≤ toK x.key := (keyLe_iff _ _).mp hle
      refine List.pairwise_cons.mpr ⟨?_, hs⟩
      intro y hy
      rcases List.mem_cons.mp hy with rfl | hy
      · exact hle'
      · exact le_trans hle' (hs'.1 y hy)
    · rename_i hle
      have hge : toK x.key ≤ toK t.key := by
        rcases le_total (toK x.key) (toK t.key) with h | h
        · exact h
        · exact absurd ((keyLe_iff _ _).mpr h) hle
      refine List.pairwise_cons.mpr ⟨?_, ih hs'.2⟩
      intro y hy
      rcases List.mem_cons.mp ((insertByKey_perm t xs).subset hy) with rfl | hy
      · exact hge
      · exact hs'.1 y hy

theorem sortByKey_perm (l : List Note) : (sortByKey l).Perm l := by
  induction l with
  | nil => exact List.Perm.refl _
  | cons x xs ih => exact (insertByKey_perm x _).trans (List.Perm.cons x ih)

theorem sortByKey_sorted (l : List Note) : PSorted (sortByKey l) := by
  induction l with
  | nil => exact List.Pairwise.nil
  | cons x xs ih => exact insertByKey_sorted x _ ih

/-- a list with pairwise distinct positions has one arrangement in position order -/
theorem eq_sortByKey {out l : List Note} (hp : out.Perm l) (hs : PSorted out) (hnd : (l.map Note.key).Nodup) :
    out = sortByKey l := by
  refine List.Perm.eq_of_pairwise (le := fun (a b : Note) => toK a.key ≤ toK b.key) ?_ hs (sortByKey_sorted l)
    (hp.trans (sortByKey_perm l).symm)
  intro a b ha hb h1 h2
  have hk : a.key = b.key := toK_injective (le_antisymm h1 h2)
  exact List.inj_on_of_nodup_map hnd (hp.subset ha) ((sortByKey_perm l).subset hb) hk

/-! ### the check in beats -/

/-- for an item `x` of the head's column that follows the head `h` in position order: the rebuilt tail
does not lie before `x` iff `x` belongs to the head's player and its beat is at most the tail's -/
theorem covers_beats {h : Note} {tb : Rat} {x : GNote} (hle : toK h.key ≤ toK x.key) (hc : x.column = h.column) :
    keyLt (tailKey h tb) x.key = false ↔ x.key.1 = h.player ∧ x.beat ≤ tb := by
  rw [keyLt_false_iff]
  rw [GNote.key_eq x] at hle ⊢
  simp only [toK, tailKey, Note.key, Prod.Lex.toLex_le_toLex] at hle ⊢
  constructor
  · rintro (h1 | ⟨h1, h2⟩)
    · rcases hle with h' | ⟨h', _⟩ <;> omega
    · refine ⟨h1, ?_⟩
      rcases h2 with h2 | ⟨h2, _⟩
      · exact le_of_lt h2
      · exact le_of_eq h2
  · rintro ⟨h1, h2⟩
    refine Or.inr ⟨h1, ?_⟩
    rcases lt_or_eq_of_le h2 with h3 | h3
    · exact Or.inl h3
    · exact Or.inr ⟨h3, le_of_eq hc⟩

theorem expandDrop_split (ins : List GNote → GNote → Bool) : ∀ (P A : List GNote) (x : GNote) (S : List GNote),
    expandDrop ins A (P ++ x :: S) =
      expandDrop ins A P ++ (if ins (A ++ P) x then tailOf x else notesOf x) ++ expandDrop ins (A ++ P ++ [x]) S := by
  intro P
  induction P with
  | nil => intro A x S; simp [expandDrop]
  | cons p P ih => intro A x S; simp [expandDrop, ih]

end Simfile.UngroupPos
