/-
More lemmas about SSC serialization and loading (C02 / C04, round 2): charts whose note data is stored as
`None` (a key-only `#NOTES;` was loaded). The note-data parameter of a chart is the parameter of the item
`(notesKey c, v)` like any other item, so the parameters of a serialized chart are NOTEDATA followed by the
parameters of the items of `c.notesLast`.
-/
import Simfile.Lemmas.ObjectsSSC
import Simfile.Lemmas.LoadRules
namespace Simfile.O
open Simfile

/-- the value stored under the note-data key (`none` also when the chart has no note data at all) -/
def notesVal (c : SSCChart) : Option Str := (c.props.get? (notesKey c)).getD none

theorem notesVal_of_get? (c : SSCChart) (v : Option Str) (h : c.props.get? (notesKey c) = some v) :
    notesVal c = v := by
  unfold notesVal; rw [h]; rfl

/-- the parameter `SSCChart.serialize` writes for the note data is the ordinary item parameter -/
theorem notesParam_eq_itemParam (c : SSCChart) (v : Option Str) :
    (match v with
      | none => (⟨[notesKey c]⟩ : Param)
      | some n => ⟨[notesKey c, n]⟩) = itemParam (notesKey c, v) := by
  cases v with
  | none => rfl
  | some n =>
    unfold itemParam valueParam
    simp only [isMulti_notesKey]
    rfl

/-- the items `serSSCChart` writes for a chart that has note data (of either kind) -/
def sscChartItemsG (c : SSCChart) : List Item :=
  [Item.param ndParam, Item.text nl] ++ serProps (otherProps c) ++
    [Item.param (itemParam (notesKey c, notesVal c)), Item.text (nl ++ nl)]

theorem serSSCChart_some (c : SSCChart) (v : Option Str) (h : c.props.get? (notesKey c) = some v) :
    serSSCChart c = .ok (sscChartItemsG c) := by
  unfold serSSCChart
  simp only [h]
  unfold sscChartItemsG otherProps ndParam
  rw [notesVal_of_get? c v h]
  cases v with
  | none => rfl
  | some n => rw [← notesParam_eq_itemParam c (some n)]

theorem serSSCChart_none (c : SSCChart) (h : c.props.get? (notesKey c) = none) :
    serSSCChart c = .error .keyError := by
  unfold serSSCChart
  simp only [h]

/-- the parameters of a serialized chart after its NOTEDATA parameter -/
def chartBodyG (c : SSCChart) : List Param :=
  (otherProps c ++ [(notesKey c, notesVal c)]).map itemParam

theorem paramsOf_sscChartItemsG (c : SSCChart) : paramsOf (sscChartItemsG c) = ndParam :: chartBodyG c := by
  unfold sscChartItemsG chartBodyG
  rw [paramsOf_append, paramsOf_append, paramsOf_serProps, List.map_append]
  rfl

theorem chartBodyG_eq (c : SSCChart) (v : Option Str) (h : c.props.get? (notesKey c) = some v) :
    chartBodyG c = c.notesLast.props.map itemParam := by
  unfold chartBodyG
  rw [notesLast_some c v h, notesVal_of_get? c v h]

theorem keys_notesLast_props (c : SSCChart) (v : Option Str) :
    ∀ k ∈ Dict.keys (otherProps c ++ [(notesKey c, v)]), k ∈ Dict.keys c.props ∨ k = notesKey c := by
  intro k hk
  rw [keys_append, List.mem_append] at hk
  rcases hk with hk | hk
  · exact Or.inl (keys_filter_subset _ _ k hk)
  · right; simpa [Dict.keys] using hk

section
variable (c : SSCChart) (hu : ∀ k ∈ c.props.keys, upper k = k)
include hu

theorem upper_keys_notesLast (v : Option Str) :
    ∀ k ∈ Dict.keys (otherProps c ++ [(notesKey c, v)]), upper k = k := by
  intro k hk
  rcases keys_notesLast_props c v k hk with h | h
  · exact hu k h
  · rw [h]; exact upper_notesKey c

theorem isND_chartBodyG (hn : ∀ k ∈ c.props.keys, k ≠ kNOTEDATA) : ∀ p ∈ chartBodyG c, isND p = false := by
  intro p hp
  unfold chartBodyG at hp
  refine isND_of_mem_props _ (upper_keys_notesLast c hu _) ?_ p hp
  intro k hk
  rcases keys_notesLast_props c _ k hk with h | h
  · exact hn k h
  · rw [h]; exact notesKey_ne_ND c

/-- loading the body of a serialized chart gives the chart with its note data last; the note data may be `None` -/
theorem dictOf_chartBodyG (hwf : Dict.WF c.props) (v : Option Str) (h : c.props.get? (notesKey c) = some v) :
    (⟨dictOf (chartBodyG c)⟩ : SSCChart) = c.notesLast := by
  rw [notesLast_some c v h]
  congr 1
  unfold dictOf chartBodyG
  rw [notesVal_of_get? c v h, map_kvOf_itemParam _ (upper_keys_notesLast c hu v)]
  exact setAll_rebuild_nil _ (WF_notesLast_props c _ hwf)

end

/-! ### whole simfiles -/

/-- the items `serSSC` writes when every chart has note data (string or `None`) -/
def sscItemsG (s : SSCSimfile) : List Item :=
  serProps s.props ++ [Item.text nl] ++ (s.charts.map fun c => sscChartItemsG c ++ [Item.text nl]).flatten

theorem serSSC_okG (s : SSCSimfile) (h : ∀ c ∈ s.charts, ∃ v, c.props.get? (notesKey c) = some v) :
    serSSC s = .ok (sscItemsG s) := by
  unfold serSSC
  have : (s.charts.mapM fun c => do
      let is ← serSSCChart c
      pure (is ++ [Item.text nl])) = .ok (s.charts.map fun c => sscChartItemsG c ++ [Item.text nl]) := by
    apply mapM_ok
    intro c hc
    obtain ⟨v, hv⟩ := h c hc
    rw [serSSCChart_some c v hv]; rfl
  rw [this]; rfl

theorem mapM_error_of_mem {α β} (f : α → Except Err β) (l : List α) (a : α) (ha : a ∈ l)
    (hf : ∃ e, f a = .error e) : ∃ e, l.mapM f = .error e := by
  induction l with
  | nil => cases ha
  | cons b l ih =>
    rw [List.mapM_cons]
    cases hb : f b with
    | error e => exact ⟨e, rfl⟩
    | ok y =>
      rcases List.mem_cons.mp ha with rfl | ha
      · obtain ⟨e, he⟩ := hf; rw [he] at hb; cases hb
      · obtain ⟨e, he⟩ := ih ha
        rw [he]; exact ⟨e, rfl⟩

theorem mapM_error_mem {α β} (f : α → Except Err β) (l : List α) (e : Err) (h : l.mapM f = .error e) :
    ∃ a ∈ l, f a = .error e := by
  induction l with
  | nil => cases h
  | cons b l ih =>
    rw [List.mapM_cons] at h
    cases hb : f b with
    | error e' =>
      rw [hb] at h
      have : e' = e := Except.error.inj h
      exact ⟨b, List.mem_cons_self, by rw [hb, this]⟩
    | ok y =>
      rw [hb] at h
      cases hl : l.mapM f with
      | error e' =>
        rw [hl] at h
        have : e' = e := Except.error.inj h
        obtain ⟨a, ha, hfa⟩ := ih (by rw [hl, this])
        exact ⟨a, List.mem_cons_of_mem _ ha, hfa⟩
      | ok ys => rw [hl] at h; cases h

/-- the only way `serSSC` fails: a chart without note data, reported as `KeyError` -/
theorem serSSC_error (s : SSCSimfile) (e : Err) (h : serSSC s = .error e) :
    e = .keyError ∧ ∃ c ∈ s.charts, c.props.get? (notesKey c) = none := by
  unfold serSSC at h
  cases hm : (s.charts.mapM fun c => do
      let is ← serSSCChart c
      pure (is ++ [Item.text nl])) with
  | ok cs => rw [hm] at h; cases h
  | error e' =>
    rw [hm] at h
    have he : e' = e := Except.error.inj h
    subst he
    obtain ⟨c, hc, hf⟩ := mapM_error_mem _ _ _ hm
    cases hg : c.props.get? (notesKey c) with
    | none =>
      rw [serSSCChart_none c hg] at hf
      exact ⟨(Except.error.inj hf).symm, c, hc, hg⟩
    | some v => rw [serSSCChart_some c v hg] at hf; cases hf

theorem serSSC_error_of_mem (s : SSCSimfile) (c : SSCChart) (hc : c ∈ s.charts)
    (hg : c.props.get? (notesKey c) = none) : serSSC s = .error .keyError := by
  have : ∃ e, (s.charts.mapM fun c => do
      let is ← serSSCChart c
      pure (is ++ [Item.text nl])) = .error e :=
    mapM_error_of_mem _ _ c hc ⟨.keyError, by rw [serSSCChart_none c hg]; rfl⟩
  obtain ⟨e, he⟩ := this
  have h2 : serSSC s = .error e := by unfold serSSC; rw [he]; rfl
  rw [h2, (serSSC_error s e h2).1]

/-- the note-data key is absent exactly when the chart has neither NOTES nor NOTES2 -/
theorem get?_notesKey_none_iff (c : SSCChart) :
    c.props.get? (notesKey c) = none ↔ kNOTES ∉ c.props.keys ∧ kNOTES2 ∉ c.props.keys := by
  rw [get?_eq_none_iff]
  constructor
  · intro h
    by_cases h1 : kNOTES ∈ c.props.keys
    · exfalso; apply h
      have : notesKey c = kNOTES := by
        unfold notesKey; rw [(contains_iff _ _).mpr h1]; rfl
      rw [this]; exact h1
    · refine ⟨h1, fun h2 => h ?_⟩
      have hc : c.props.contains kNOTES = false := by
        rw [Bool.eq_false_iff]; intro hc; exact h1 ((contains_iff _ _).mp hc)
      have : notesKey c = kNOTES2 := by
        unfold notesKey; rw [hc, (contains_iff _ _).mpr h2]; rfl
      rw [this]; exact h2
  · rintro ⟨h1, h2⟩ h
    rcases notesKey_cases c with e | e <;> rw [e] at h
    · exact h1 h
    · exact h2 h

theorem paramsOf_chartsItemsG (cs : List SSCChart) :
    paramsOf (cs.map fun c => sscChartItemsG c ++ [Item.text nl]).flatten =
      (cs.map fun c => ndParam :: chartBodyG c).flatten := by
  induction cs with
  | nil => rfl
  | cons c cs ih =>
    rw [List.map_cons, List.flatten_cons, paramsOf_append, ih, paramsOf_append, paramsOf_sscChartItemsG]
    simp [paramsOf]

theorem paramsOf_sscItemsG (s : SSCSimfile) :
    paramsOf (sscItemsG s) = s.props.map itemParam ++ (s.charts.map fun c => ndParam :: chartBodyG c).flatten := by
  unfold sscItemsG
  rw [paramsOf_append, paramsOf_append, paramsOf_serProps, paramsOf_chartsItemsG]
  simp [paramsOf]

theorem segs_chartsG (cs : List SSCChart) (h : ∀ c ∈ cs, ∀ p ∈ chartBodyG c, isND p = false) :
    segs (cs.map fun c => ndParam :: chartBodyG c).flatten = ([], cs.map chartBodyG) := by
  induction cs with
  | nil => rfl
  | cons c cs ih =>
    rw [List.map_cons, List.flatten_cons, List.cons_append, segs_cons_ND _ _ isND_ndParam,
      segs_append_of_noND _ _ (h c List.mem_cons_self), ih (fun c' hc' => h c' (List.mem_cons_of_mem _ hc'))]
    simp

theorem text_mem_sscChartItemsG (c : SSCChart) (t : Str) (h : Item.text t ∈ sscChartItemsG c) :
    isBlank t = true := by
  unfold sscChartItemsG at h
  rw [List.mem_append, List.mem_append] at h
  rcases h with (h | h) | h
  · simp at h; rw [h]; decide
  · rw [text_mem_serProps _ _ h]; decide
  · simp at h; rw [h]; decide

theorem text_mem_sscItemsG (s : SSCSimfile) (t : Str) (h : Item.text t ∈ sscItemsG s) : isBlank t = true := by
  unfold sscItemsG at h
  rw [List.mem_append, List.mem_append] at h
  rcases h with (h | h) | h
  · rw [text_mem_serProps _ _ h]; decide
  · simp at h; rw [h]; decide
  · rw [List.mem_flatten] at h
    obtain ⟨l, hl, ht⟩ := h
    obtain ⟨c, _, rfl⟩ := List.mem_map.mp hl
    rcases List.mem_append.mp ht with ht | ht
    · exact text_mem_sscChartItemsG c t ht
    · simp at ht; rw [ht]; decide

/-- loading the parameters of the serialized simfile: the simfile with every chart's note data moved last -/
theorem load_sscItemsG (s : SSCSimfile) (hwf : s.props.WF) (hu : ∀ k ∈ s.props.keys, upper k = k)
    (hn : ∀ k ∈ s.props.keys, k ≠ kNOTEDATA)
    (hc : ∀ c ∈ s.charts, c.props.WF ∧ (∀ k ∈ c.props.keys, upper k = k) ∧ (∀ k ∈ c.props.keys, k ≠ kNOTEDATA) ∧
      ∃ v, c.props.get? (notesKey c) = some v) :
    loadSSC (paramsOf (sscItemsG s)) = s.notesLast := by
  rw [loadSSC_closed, paramsOf_sscItemsG,
    segs_append_of_noND _ _ (isND_of_mem_props s.props hu hn),
    segs_chartsG _ (fun c h => isND_chartBodyG c (hc c h).2.1 (hc c h).2.2.1)]
  simp only [List.append_nil, List.map_map]
  unfold SSCSimfile.notesLast
  congr 1
  · unfold dictOf
    rw [map_kvOf_itemParam _ hu, setAll_rebuild_nil _ hwf]
  · apply List.map_congr_left
    intro c h
    obtain ⟨hw, hcu, _, v, hv⟩ := hc c h
    exact dictOf_chartBodyG c hcu hw v hv

end Simfile.O
