/-
Lemmas for C09 (round 2): counting holds / rolls. The length of the join specification's output as a
sum over the classes of the notes, and the classes on a well-formed chart (column by column).
-/
import Simfile.Lemmas.GroupJoinMain
import Simfile.Lemmas.GroupRuns
namespace Simfile.GroupMore
open Simfile Simfile.Spec

/-! ### the classes and the length of the emitted stream -/

def isJoined : Cls → Bool
  | .joined _ => true
  | _ => false

/-- heads joined to their tails -/
def nJoined (cs : List (Note × Cls)) : Nat := cs.countP fun p => isJoined p.2
/-- heads interrupted or never closed -/
def nOrphanHead (cs : List (Note × Cls)) : Nat := cs.countP fun p => p.2 = .orphanHead
/-- tails with no open head -/
def nOrphanTail (cs : List (Note × Cls)) : Nat := cs.countP fun p => p.2 = .orphanTail
/-- notes that are neither heads nor tails -/
def nPlain (cs : List (Note × Cls)) : Nat := cs.countP fun p => p.2 = .plain

theorem length_flatMap_image (o : GOpts) (cs : List (Note × Cls)) :
    (cs.flatMap (image o)).length =
      nJoined cs + nPlain cs + (if o.orphanHead = .keep then nOrphanHead cs else 0) +
        (if o.orphanTail = .keep then nOrphanTail cs else 0) := by
  induction cs with
  | nil => simp [nJoined, nPlain, nOrphanHead, nOrphanTail]
  | cons p cs ih =>
    rcases p with ⟨n, cl⟩
    simp only [List.flatMap_cons, List.length_append, ih, nJoined, nPlain, nOrphanHead, nOrphanTail,
      List.countP_cons]
    cases cl <;> simp only [image, isJoined] <;> (repeat' split) <;> simp_all <;> omega

theorem any_iff_pos (cs : List (Note × Cls)) (k : Cls) :
    (cs.any (·.2 = k) = true) ↔ 0 < cs.countP fun p => p.2 = k := by
  rw [List.countP_pos_iff, List.any_eq_true]

/-- the length of the specification's stream, class by class -/
theorem joinSpec_length (o : GOpts) (F : List Note) :
    (joinSpec o F).map List.length =
      let cs := classifyAll [] F
      if (o.orphanHead = .raise ∧ 0 < nOrphanHead cs) ∨ (o.orphanTail = .raise ∧ 0 < nOrphanTail cs)
      then .error .orphaned
      else .ok (nJoined cs + nPlain cs + (if o.orphanHead = .keep then nOrphanHead cs else 0) +
        (if o.orphanTail = .keep then nOrphanTail cs else 0)) := by
  unfold joinSpec
  simp only [any_iff_pos]
  unfold nOrphanHead nOrphanTail
  split
  · rfl
  · simp only [Except.map]
    rw [length_flatMap_image]
    rfl

theorem holdsSpec_eq (ns : List Note) (head : Char) (oh ot : Orphan) :
    holdsSpec ns head oh ot =
      (joinSpec { incl := [head, cTAIL], join := true, orphanHead := oh, orphanTail := ot }
        (ns.filter fun n => [head, cTAIL].contains n.ntype)).map List.length := by
  unfold holdsSpec
  simp only [bind, Except.bind, pure, Except.pure]
  cases joinSpec _ _ <;> rfl

/-! ### membership in `classifyAll` -/

theorem mem_classifyAll {p : Note × Cls} : ∀ {F before : List Note}, p ∈ classifyAll before F →
    ∃ b a, p.1 ∈ F ∧ p.2 = classify b p.1 a := by
  intro F
  induction F with
  | nil => intro before h; simp [classifyAll] at h
  | cons n F ih =>
    intro before h
    simp only [classifyAll, List.mem_cons] at h
    rcases h with rfl | h
    · exact ⟨before, F, by simp, rfl⟩
    · obtain ⟨b, a, h1, h2⟩ := ih h
      exact ⟨b, a, by simp [h1], h2⟩

theorem classify_plain {b a : List Note} {n : Note} (h : classify b n a = .plain) :
    isHead n.ntype = false ∧ n.ntype ≠ cTAIL := by
  unfold classify at h
  by_cases h1 : isHead n.ntype = true
  · rw [if_pos h1] at h
    split at h
    · split at h <;> cases h
    · cases h
  · rw [if_neg h1] at h
    by_cases h2 : n.ntype = cTAIL
    · rw [if_pos h2] at h
      split at h
      · split at h <;> cases h
      · cases h
    · exact ⟨by simpa using h1, h2⟩

theorem isHead_tail' : isHead cTAIL = false := by decide

/-- a stream of heads (of one head type) and tails has no plain class -/
theorem nPlain_zero (head : Char) (hh : isHead head = true) (F before : List Note)
    (hF : ∀ n ∈ F, [head, cTAIL].contains n.ntype = true) : nPlain (classifyAll before F) = 0 := by
  unfold nPlain
  rw [List.countP_eq_zero]
  intro p hp hpl
  obtain ⟨b, a, h1, h2⟩ := mem_classifyAll hp
  have hpl' : p.2 = .plain := by simpa using hpl
  rw [hpl'] at h2
  obtain ⟨h3, h4⟩ := classify_plain h2.symm
  have := hF p.1 h1
  simp only [List.contains_cons, List.contains_nil, Bool.or_false, Bool.or_eq_true, beq_iff_eq] at this
  rcases this with e | e
  · rw [e, hh] at h3; cases h3
  · exact h4 e

/-! ### classification is local to the column -/

theorem find_col_filter (c : Nat) (l : List Note) :
    (l.filter fun n => n.column = c).find? (fun n => n.column = c) = l.find? fun n => n.column = c := by
  rw [List.find?_filter]
  congr 1
  funext a
  simp

theorem classify_local (b : List Note) (n : Note) (a : List Note) :
    classify b n a =
      classify (b.filter fun m => m.column = n.column) n (a.filter fun m => m.column = n.column) := by
  unfold classify
  rw [find_col_filter, find_col_filter]

theorem classifyAll_filter_col (c : Nat) : ∀ (F before : List Note),
    (classifyAll before F).filter (fun p => p.1.column = c) =
      classifyAll (before.filter fun m => m.column = c) (F.filter fun m => m.column = c) := by
  intro F
  induction F with
  | nil => intro before; rfl
  | cons n F ih =>
    intro before
    by_cases hc : n.column = c
    · simp only [classifyAll, List.filter_cons, hc, decide_true, if_true]
      rw [ih (n :: before)]
      simp only [List.filter_cons, hc, decide_true, if_true]
      congr 2
      rw [classify_local, hc]
    · simp only [classifyAll, List.filter_cons, hc, decide_false, Bool.false_eq_true, if_false]
      rw [ih (n :: before)]
      simp only [List.filter_cons, hc, decide_false, Bool.false_eq_true, if_false]

/-! ### counting column by column -/

theorem filter_ne_filter_eq {α} (col : α → Nat) (c c' : Nat) (l : List α) (h : c' ≠ c) :
    (l.filter fun a => !decide (col a = c)).filter (fun a => col a = c') = l.filter fun a => col a = c' := by
  rw [List.filter_filter]
  apply List.filter_congr
  intro a _
  by_cases ha : col a = c'
  · simp [ha, h]
  · simp [ha]

theorem filter_ne_filter_self {α} (col : α → Nat) (c : Nat) (l : List α) :
    (l.filter fun a => !decide (col a = c)).filter (fun a => col a = c) = [] := by
  rw [List.filter_filter]
  apply List.filter_eq_nil_iff.mpr
  intro a _
  by_cases ha : col a = c <;> simp [ha]

/-- two counts that agree column by column agree -/
theorem countP_columnwise {α β} (c1 : α → Nat) (c2 : β → Nat) (p1 : α → Bool) (p2 : β → Bool) :
    ∀ (n : Nat) (l1 : List α) (l2 : List β), l1.length + l2.length ≤ n →
      (∀ c, (l1.filter fun a => c1 a = c).countP p1 = (l2.filter fun b => c2 b = c).countP p2) →
      l1.countP p1 = l2.countP p2 := by
  intro n
  induction n with
  | zero =>
    intro l1 l2 hlen _
    have h1 : l1 = [] := List.eq_nil_of_length_eq_zero (by omega)
    have h2 : l2 = [] := List.eq_nil_of_length_eq_zero (by omega)
    subst h1; subst h2; rfl
  | succ n ih =>
    intro l1 l2 hlen h
    have key : ∀ c, (l1.filter fun a => !decide (c1 a = c)).length +
        (l2.filter fun b => !decide (c2 b = c)).length ≤ n → l1.countP p1 = l2.countP p2 := by
      intro c hn
      rw [List.countP_eq_countP_filter_add l1 p1 (fun a => c1 a = c),
        List.countP_eq_countP_filter_add l2 p2 (fun b => c2 b = c), h c]
      congr 1
      apply ih _ _ hn
      intro c'
      by_cases hc : c' = c
      · subst hc
        rw [filter_ne_filter_self, filter_ne_filter_self]; rfl
      · rw [filter_ne_filter_eq c1 c c' l1 hc, filter_ne_filter_eq c2 c c' l2 hc]
        exact h c'
    cases l1 with
    | nil =>
      cases l2 with
      | nil => rfl
      | cons b l2 =>
        apply key (c2 b)
        have : ((b :: l2).filter fun x => !decide (c2 x = c2 b)).length ≤ l2.length := by
          simp only [List.filter_cons, decide_true, Bool.not_true, Bool.false_eq_true, if_false]
          exact List.length_filter_le _ _
        simp only [List.filter_nil, List.length_nil, Nat.zero_add]
        simp only [List.length_cons, List.length_nil] at hlen
        omega
    | cons a l1 =>
      apply key (c1 a)
      have h1 : ((a :: l1).filter fun x => !decide (c1 x = c1 a)).length ≤ l1.length := by
        simp only [List.filter_cons, decide_true, Bool.not_true, Bool.false_eq_true, if_false]
        exact List.length_filter_le _ _
      have h2 : (l2.filter fun b => !decide (c2 b = c1 a)).length ≤ l2.length := List.length_filter_le _ _
      simp only [List.length_cons] at hlen
      omega

/-! ### one column of a well-formed chart -/

/-- hold head, roll head or tail -/
def isHT (n : Note) : Bool := isHead n.ntype || n.ntype = cTAIL

/-- head, tail, head, tail, … ending on a tail -/
def alternates : List Note → Bool
  | [] => true
  | h :: t :: rest => isHead h.ntype && decide (t.ntype = cTAIL) && alternates rest
  | [_] => false

/-- the heads of the other head type -/
def otherHead (head : Char) (n : Note) : Bool := isHead n.ntype && !decide (n.ntype = head)

theorem classifyAll_column (head : Char) (hh : isHead head = true) (c : Nat) :
    ∀ (L before : List Note), (∀ n ∈ L, n.column = c) → (∀ n ∈ before, n.column = c) →
      (∀ t ∈ before.head?, isHead t.ntype = false) → alternates L = true →
      nJoined (classifyAll before (L.filter fun n => [head, cTAIL].contains n.ntype)) =
          L.countP (fun n => n.ntype = head) ∧
      nOrphanHead (classifyAll before (L.filter fun n => [head, cTAIL].contains n.ntype)) = 0 ∧
      nOrphanTail (classifyAll before (L.filter fun n => [head, cTAIL].contains n.ntype)) =
          L.countP (otherHead head) := by
  intro L
  induction L using alternates.induct with
  | case1 => intro before _ _ _ _; simp [classifyAll, nJoined, nOrphanHead, nOrphanTail]
  | case3 x => intro before _ _ _ h; simp [alternates] at h
  | case2 h t rest ih =>
    intro before hL hB hb halt
    simp only [alternates, Bool.and_eq_true, decide_eq_true_eq] at halt
    obtain ⟨⟨hhd, htl⟩, hrest⟩ := halt
    have hhc : h.column = c := hL h (by simp)
    have htc : t.column = c := hL t (by simp)
    have hLr : ∀ n ∈ rest, n.column = c := fun n hn => hL n (by simp [hn])
    have htin : [head, cTAIL].contains t.ntype = true := by simp [htl]
    have hnt : isHead t.ntype = false := by rw [htl]; exact isHead_tail'
    have hhne : h.ntype ≠ cTAIL := by
      intro e; rw [e, isHead_tail'] at hhd; cases hhd
    by_cases hty : h.ntype = head
    · -- a head of the counted type: joined, its tail consumed
      have hhin : [head, cTAIL].contains h.ntype = true := by simp [hty]
      have ih' := ih (t :: h :: before) hLr
        (by intro n hn; simp only [List.mem_cons] at hn; rcases hn with rfl | rfl | hn
            · exact htc
            · exact hhc
            · exact hB n hn)
        (by intro x hx; simp at hx; subst hx; exact hnt) hrest
      have e1 : classify before h (t :: rest.filter fun n => [head, cTAIL].contains n.ntype) = .joined t.beat := by
        unfold classify
        simp [hhd, htc, hhc, htl]
      have e2 : classify (h :: before) t (rest.filter fun n => [head, cTAIL].contains n.ntype) = .consumed := by
        unfold classify
        rw [if_neg (by simp [hnt]), if_pos htl]
        simp [htc, hhc, hhd]
      simp only [List.filter_cons, hhin, htin, if_true, classifyAll, e1, e2]
      obtain ⟨i1, i2, i3⟩ := ih'
      simp only [nJoined, nOrphanHead, nOrphanTail, List.countP_cons, isJoined] at i1 i2 i3 ⊢
      simp only [otherHead] at i3 ⊢
      rw [i1, i2, i3]
      simp [hty, htl]
      have hth : ¬ cTAIL = head := fun e => by rw [← e, isHead_tail'] at hh; cases hh
      have hth2 : isHead cTAIL = true → cTAIL = head := fun e => by rw [isHead_tail'] at e; cases e
      exact ⟨hth, hth2⟩
    · -- a head of the other type: filtered out, its tail is an orphan
      have hhin : [head, cTAIL].contains h.ntype = false := by
        simp only [List.contains_cons, List.contains_nil, Bool.or_false, Bool.or_eq_false_iff, beq_eq_false_iff_ne]
        exact ⟨hty, hhne⟩
      have ih' := ih (t :: before) hLr
        (by intro n hn; simp only [List.mem_cons] at hn; rcases hn with rfl | hn
            · exact htc
            · exact hB n hn)
        (by intro x hx; simp at hx; subst hx; exact hnt) hrest
      have e1 : classify before t (rest.filter fun n => [head, cTAIL].contains n.ntype) = .orphanTail := by
        unfold classify
        rw [if_neg (by simp [hnt]), if_pos htl]
        cases before with
        | nil => rfl
        | cons b0 bs =>
          have hb0 : b0.column = c := hB b0 (by simp)
          have hb0' : isHead b0.ntype = false := hb b0 (by simp)
          simp [hb0, htc, hb0']
      simp only [List.filter_cons, hhin, htin, if_true, Bool.false_eq_true, if_false, classifyAll, e1]
      obtain ⟨i1, i2, i3⟩ := ih'
      simp only [nJoined, nOrphanHead, nOrphanTail, List.countP_cons, isJoined] at i1 i2 i3 ⊢
      simp only [otherHead] at i3 ⊢
      rw [i1, i2, i3]
      simp [hty, htl, hhd]
      have hth : ¬ cTAIL = head := fun e => by rw [← e, isHead_tail'] at hh; cases hh
      have hth2 : isHead cTAIL = true → cTAIL = head := fun e => by rw [isHead_tail'] at e; cases e
      exact ⟨hth, hth2⟩

/-! ### the whole chart -/

theorem filter_comm' {α} (p q : α → Bool) (l : List α) : (l.filter p).filter q = (l.filter q).filter p := by
  rw [List.filter_filter, List.filter_filter]
  apply List.filter_congr
  intro a _
  exact Bool.and_comm _ _

/-- classes on a chart whose every column alternates head, tail, head, tail, …: every head of the
counted type is joined, no head is orphaned, and the orphan tails are exactly as many as the heads
of the other type (the filter runs before the join, so their tails lose their heads) -/
theorem wellformed_counts (head : Char) (hh : isHead head = true) (W : List Note)
    (hwf : ∀ c, alternates (W.filter fun n => n.column = c) = true) :
    nJoined (classifyAll [] (W.filter fun n => [head, cTAIL].contains n.ntype)) =
        W.countP (fun n => n.ntype = head) ∧
    nOrphanHead (classifyAll [] (W.filter fun n => [head, cTAIL].contains n.ntype)) = 0 ∧
    nOrphanTail (classifyAll [] (W.filter fun n => [head, cTAIL].contains n.ntype)) =
        W.countP (otherHead head) := by
  have col : ∀ c,
      ((classifyAll [] (W.filter fun n => [head, cTAIL].contains n.ntype)).filter fun p => p.1.column = c) =
        classifyAll [] ((W.filter fun n => n.column = c).filter fun n => [head, cTAIL].contains n.ntype) := by
    intro c
    rw [classifyAll_filter_col, filter_comm']
    rfl
  have hcol := fun c => classifyAll_column head hh c (W.filter fun n => n.column = c) []
    (fun n hn => by simpa using (List.mem_filter.mp hn).2) (by simp) (by simp) (hwf c)
  refine ⟨?_, ?_, ?_⟩
  · exact countP_columnwise (fun p : Note × Cls => p.1.column) (fun n : Note => n.column) _ _ _ _ _
      (Nat.le_refl _) (fun c => by rw [col c]; exact (hcol c).1)
  · have := countP_columnwise (fun p : Note × Cls => p.1.column) (fun n : Note => n.column)
      (fun p => p.2 = .orphanHead) (fun _ => false) _ _ W (Nat.le_refl _)
      (fun c => by
        rw [col c]
        have h0 := (hcol c).2.1
        unfold nOrphanHead at h0
        rw [h0]; simp)
    unfold nOrphanHead
    rw [this]; simp
  · exact countP_columnwise (fun p : Note × Cls => p.1.column) (fun n : Note => n.column) _ _ _ _ _
      (Nat.le_refl _) (fun c => by rw [col c]; exact (hcol c).2.2)

end Simfile.GroupMore
