/-
`removeStray`: the text with its stray text deleted, and what strict parsing makes of it.
-/
import Simfile.Lemmas.MsdTextRemove
namespace Simfile.MsdP

/-- the initial parser state -/
abbrev pInit : PState := { comps := [], cur := none, out := [] }

/-- The text with the stray text removed: lex it, drop the TEXT tokens that lie outside a parameter and are neither
blank nor a lone byte order mark (exactly the tokens `parse_msd(ignore_stray_text=True)` discards), and write the
remaining tokens back. A text the lexer rejects (unpaired final backslash) is left alone. -/
def removeStray (t : Str) : Str :=
  match lex (t.length + 1) t false false with
  | .ok toks => render (cleanToks toks false)
  | .error _ => t

theorem removeStray_of_lex {t : Str} {toks : List Tok} (h : lex (t.length + 1) t false false = .ok toks) :
    removeStray t = render (cleanToks toks false) := by
  simp [removeStray, h]

theorem parse_of_lex (strict : Bool) {t : Str} {toks : List Tok} (h : lex (t.length + 1) t false false = .ok toks) :
    parse strict t = some (parseToks strict toks pInit) := by
  simp [parse, h]

theorem render_clean_sublist (ts : List Tok) : ∀ i, (render (cleanToks ts i)).Sublist (render ts) := by
  induction ts with
  | nil => intro i; exact List.Sublist.refl _
  | cons t ts ih =>
    intro i
    unfold cleanToks
    split
    · rw [render_cons]
      exact List.sublist_append_of_sublist_right (ih i)
    · rw [render_cons, render_cons]
      exact List.Sublist.append (List.Sublist.refl _) (ih _)

/-- only deletions: the cleaned text is a subsequence of the text -/
theorem removeStray_sublist (t : Str) : (removeStray t).Sublist t := by
  unfold removeStray
  split
  · rename_i toks h
    have := render_clean_sublist toks false
    rwa [lexF_concat _ t (Nat.le_refl _) false false toks h] at this
  · exact List.Sublist.refl _

/-- F1 at text level, under the side conditions -/
theorem parse_true_removeStray (t : Str) (toks : List Tok) (h : lex (t.length + 1) t false false = .ok toks)
    (hrm : removable toks false .other false false = true) :
    parse true (removeStray t) = parse false t := by
  rw [removeStray_of_lex h, parse_of_lex false h, parse_eq_go]
  exact sim _ t (Nat.le_refl _) false false false toks .other [] none [] h hrm rfl

/-- when nothing is stray, nothing is removed -/
theorem removeStray_of_not_strayIn (t : Str) (toks : List Tok) (h : lex (t.length + 1) t false false = .ok toks)
    (hs : strayIn toks false = false) : removeStray t = t := by
  rw [removeStray_of_lex h, cleanToks_of_not_strayIn _ _ hs]
  exact lexF_concat _ t (Nat.le_refl _) false false toks h

/-- without a stray token nothing is dropped, and the side conditions hold -/
theorem removable_of_not_strayIn (ts : List Tok) : ∀ (i : Bool) (p : Prev) (b : Bool), p ≠ .stray →
    strayIn ts i = false → removable ts i p b b = true := by
  induction ts with
  | nil => intro i p b _ _; rfl
  | cons t ts ih =>
    intro i p b hp h
    simp only [strayIn, Bool.or_eq_false_iff] at h
    cases t with
    | text s =>
      cases i with
      | true =>
        rw [removable_text_in]
        simp [ih true .other (endsNl s) (by simp) (by simpa [insideStep] using h.2)]
      | false =>
        have hso : strayOk s = true := by simpa [isStray] using h.1
        by_cases hb : s = [bomC]
        · subst hb
          rw [removable_text_bom]
          simp [hp, ih false .bom false (by simp) (by simpa [insideStep] using h.2)]
        · rw [removable_text_blank _ _ _ _ _ hso hb]
          exact ih false .other _ (by simp) (by simpa [insideStep] using h.2)
    | start =>
      rw [removable_start]
      simp [ih true .other b (by simp) (by simpa [insideStep] using h.2)]
    | endp =>
      rw [removable_endp]
      exact ih false .other b (by simp) (by simpa [insideStep] using h.2)
    | next =>
      rw [removable_next]
      exact ih i .other b (by simp) (by simpa [insideStep] using h.2)
    | escape c =>
      have hk : (!i && isStray (Tok.escape c)) = false := h.1
      rw [removable.eq_def]
      simp only [hk, Bool.false_eq_true, if_false]
      exact ih i .other b (by simp) (by simpa [insideStep] using h.2)
    | comment s =>
      rw [removable_comment]
      exact ih i _ b (by cases i <;> simp) (by simpa [insideStep] using h.2)

end Simfile.MsdP
