/-
Removing stray text, on the token list: `cleanToks` drops exactly the TEXT / ESCAPE tokens that lie outside a
parameter and fail `strayOk` (what `parse_msd(ignore_stray_text=True)` discards). Strict parsing of the cleaned
token list = lenient parsing of the original one, for ARBITRARY token lists.
-/
import Simfile.Lemmas.MsdLexParse
import Simfile.Lemmas.MsdTextConcat
namespace Simfile.MsdP

/-- drop the stray tokens (non-blank TEXT / ESCAPE outside a parameter); `i` = "inside a parameter" at the start -/
def cleanToks : List Tok → Bool → List Tok
  | [], _ => []
  | t :: ts, i => if (!i && isStray t) = true then cleanToks ts i else t :: cleanToks ts (insideStep i t)

theorem cleanToks_nil (i : Bool) : cleanToks [] i = [] := rfl

theorem cleanToks_drop {t : Tok} (ts : List Tok) (h : isStray t = true) :
    cleanToks (t :: ts) false = cleanToks ts false := by
  simp [cleanToks, h]

theorem cleanToks_keep {t : Tok} (ts : List Tok) (i : Bool) (h : (!i && isStray t) = false) :
    cleanToks (t :: ts) i = t :: cleanToks ts (insideStep i t) := by
  simp [cleanToks, h]

theorem cleanToks_keep_in (t : Tok) (ts : List Tok) :
    cleanToks (t :: ts) true = t :: cleanToks ts (insideStep true t) := by
  simp [cleanToks]

theorem insideStep_of_isStray {t : Tok} (h : isStray t = true) (i : Bool) : insideStep i t = i := by
  cases t <;> simp_all [isStray, insideStep]

/-- the cleaned list is a sublist: nothing is added or reordered -/
theorem cleanToks_sublist (ts : List Tok) : ∀ i, (cleanToks ts i).Sublist ts := by
  induction ts with
  | nil => intro i; exact List.Sublist.refl _
  | cons t ts ih =>
    intro i
    unfold cleanToks
    split
    · exact (ih i).cons _
    · exact (ih _).cons_cons _

/-- the cleaned list has no stray token outside a parameter -/
theorem strayIn_cleanToks (ts : List Tok) : ∀ i, strayIn (cleanToks ts i) i = false := by
  induction ts with
  | nil => intro i; rfl
  | cons t ts ih =>
    intro i
    unfold cleanToks
    split
    · exact ih i
    · rename_i h
      simp only [strayIn, ih, Bool.or_false]
      simpa using h

/-- a list without stray tokens outside parameters is left alone -/
theorem cleanToks_of_not_strayIn (ts : List Tok) : ∀ i, strayIn ts i = false → cleanToks ts i = ts := by
  induction ts with
  | nil => intro i _; rfl
  | cons t ts ih =>
    intro i h
    simp only [strayIn, Bool.or_eq_false_iff] at h
    rw [cleanToks_keep ts i h.1, ih _ h.2]

/-- lenient parsing ignores exactly the tokens `cleanToks` drops -/
theorem parseToks_false_clean (ts : List Tok) :
    ∀ st, parseToks false (cleanToks ts st.cur.isSome) st = parseToks false ts st := by
  induction ts with
  | nil => intro st; rfl
  | cons t ts ih =>
    intro st
    obtain ⟨comps, cur, out⟩ := st
    cases cur with
    | some c =>
      simp only [Option.isSome_some, cleanToks_keep_in]
      cases t <;> simp only [parseToks, insideStep] <;>
        first
        | exact ih ⟨_, some _, _⟩
        | (have := ih (PState.complete ⟨comps, some c, out⟩); rw [complete_cur] at this; exact this)
        | exact ih { (PState.complete ⟨comps, some c, out⟩) with cur := some [] }
    | none =>
      simp only [Option.isSome_none]
      by_cases hs : isStray t = true
      · rw [cleanToks_drop ts hs]
        have := ih ⟨comps, none, out⟩
        simp only [Option.isSome_none] at this
        cases t <;> simp_all [isStray, parseToks]
      · have hs' : (!false && isStray t) = false := by simpa using hs
        rw [cleanToks_keep ts false hs']
        cases t <;> simp only [parseToks, insideStep, Bool.false_and, Bool.false_eq_true, if_false] <;>
          first
          | exact ih ⟨comps, none, out⟩
          | exact ih { (PState.complete ⟨comps, none, out⟩) with cur := some [] }
          | (have := ih (PState.complete ⟨comps, none, out⟩); rw [complete_cur] at this; exact this)

/-- F1 on tokens: strict parsing of the cleaned token list gives what lenient parsing of the original gives -/
theorem parseToks_true_clean (ts : List Tok) (st : PState) :
    parseToks true (cleanToks ts st.cur.isSome) st = parseToks false ts st := by
  rw [parseToks_true_eq_false _ _ (strayIn_cleanToks ts _), parseToks_false_clean]

/-- the tokens the lexer yields outside a parameter are never ESCAPE tokens (a backslash pair outside a
parameter is a TEXT token): a stray token of a lexed text is a TEXT token -/
theorem lexF_stray_is_text : ∀ (n : Nat) (s : Str), s.length ≤ n → ∀ (i l : Bool) (ts pre post : List Tok) (tk : Tok),
    lexF s i l = .ok ts → ts = pre ++ tk :: post → pre.foldl insideStep i = false → isStray tk = true →
    ∃ x, tk = .text x := by
  intro n
  induction n with
  | zero =>
    intro s hs i l ts pre post tk h e _ _
    have : s = [] := by simpa using hs
    subst this
    rw [lexF_nil] at h
    cases h
    simp at e
  | succ n ih =>
    intro s hs i l ts pre post tk h e hp hst
    cases s with
    | nil => rw [lexF_nil] at h; cases h; simp at e
    | cons c cs =>
      cases pre with
      | cons a pre' =>
        obtain ⟨tok, r, i', l', rest, rfl, hr, _, _, hlen, hi'⟩ := lexF_step c cs i l ts h
        simp only [List.cons_append, List.cons.injEq] at e
        obtain ⟨rfl, rfl⟩ := e
        subst hi'
        exact ih r (by simp only [List.length_cons] at hs hlen; omega) _ l' _ pre' post tk hr rfl
          (by simpa using hp) hst
      | nil =>
        simp only [List.nil_append] at e
        subst e
        simp only [List.foldl_nil] at hp
        subst hp
        rw [lexF_cons] at h
        repeat' split at h
        all_goals first
          | (simp at h; done)
          | (obtain ⟨rest', _, e'⟩ := map_ok_inv h
             simp only [List.cons.injEq] at e'
             obtain ⟨rfl, rfl⟩ := e'
             first
               | exact ⟨_, rfl⟩
               | (simp [isStray] at hst; done)
               | (simp_all; done))

end Simfile.MsdP
