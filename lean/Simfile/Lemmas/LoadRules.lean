/-
The key/value rules of the dictionaries built by the loaders, for arbitrary parameter lists (C03, C04).
-/
import Simfile.Lemmas.ObjectsSSC
namespace Simfile.O
open Simfile

theorem dictOf_nil : dictOf [] = [] := rfl

theorem keys_dictOf (l : List Param) : Dict.keys (dictOf l) = (l.map fun p => upper p.key).eraseDups := by
  unfold dictOf
  rw [keys_setAll_nil, List.map_map]
  rfl

theorem WF_dictOf (l : List Param) : Dict.WF (dictOf l) := WF_setAll _ _ WF_nil

theorem get?_setAll_kvOf (d0 : Dict) (l : List Param) (k : Str) :
    (setAll d0 (l.map kvOf)).get? k =
      ((l.reverse.find? fun p => upper p.key == k).map (loadedValue k)).or (d0.get? k) := by
  induction l generalizing d0 with
  | nil => simp [setAll_nil]
  | cons p l ih =>
    rw [List.map_cons, setAll_cons, ih, List.reverse_cons, List.find?_append]
    cases hf : List.find? (fun p => upper p.key == k) l.reverse with
    | some q => simp
    | none =>
      simp only [Option.none_or, Option.map_none, List.find?_cons, List.find?_nil]
      by_cases e : upper p.key = k
      · subst e
        simp [kvOf, get?_set_self]
      · have : (upper p.key == k) = false := by simpa using e
        simp only [this, Option.map_none, Option.none_or]
        exact get?_set_ne _ _ _ _ (fun e' => e e'.symm)

/-- the value stored under `k` comes from the last parameter whose upper-cased key is `k` -/
theorem get?_dictOf (l : List Param) (k : Str) :
    (dictOf l).get? k = (l.reverse.find? fun p => upper p.key == k).map (loadedValue k) := by
  unfold dictOf
  rw [get?_setAll_kvOf]
  simp [get?_nil]

theorem find?_reverse_last (l1 l2 : List Param) (p : Param) (f : Param → Bool) (hp : f p = true)
    (h2 : ∀ q ∈ l2, f q = false) : (l1 ++ p :: l2).reverse.find? f = some p := by
  rw [List.reverse_append, List.reverse_cons, List.append_assoc, List.find?_append]
  have : List.find? f l2.reverse = none := by
    rw [List.find?_eq_none]; intro q hq; rw [h2 q (List.mem_reverse.mp hq)]; simp
  rw [this]
  simp [hp]

theorem get?_dictOf_last (l1 l2 : List Param) (p : Param) (h2 : ∀ q ∈ l2, upper q.key ≠ upper p.key) :
    (dictOf (l1 ++ p :: l2)).get? (upper p.key) = some (loadedValue (upper p.key) p) := by
  rw [get?_dictOf, find?_reverse_last l1 l2 p _ (by simp) (fun q hq => by simpa using h2 q hq)]
  rfl

/-! ### the SM loader -/

theorem loadSM_ok (ps : List Param) (s : SMSimfile) (h : loadSM ps = .ok s) :
    ps.any badChart = false ∧
    s = { props := dictOf (ps.filter fun p => !isNotes p),
          charts := (ps.filter isNotes).map fun p => smChartOf p.comps.tail } := by
  rw [loadSM_closed] at h
  split at h
  · cases h
  · rename_i hb
    exact ⟨by simpa using hb, (Except.ok.inj h).symm⟩

theorem loadSM_cases (ps : List Param) :
    (ps.any badChart = true ∧ loadSM ps = .error .valueError) ∨
    (ps.any badChart = false ∧ ∃ s, loadSM ps = .ok s) := by
  rw [loadSM_closed]
  by_cases hb : ps.any badChart = true
  · left; exact ⟨hb, by rw [if_pos hb]⟩
  · right; exact ⟨by simpa using hb, _, by rw [if_neg hb]⟩

theorem find?_congr' {α} (l : List α) (f g : α → Bool) (h : ∀ a ∈ l, f a = g a) :
    l.find? f = l.find? g := by
  induction l with
  | nil => rfl
  | cons a l ih =>
    rw [List.find?_cons, List.find?_cons, h a List.mem_cons_self,
      ih (fun b hb => h b (List.mem_cons_of_mem _ hb))]

theorem find?_reverse_filter_nonNotes (ps : List Param) (k : Str) (hk : k ≠ kNOTES) :
    (ps.filter fun p => !isNotes p).reverse.find? (fun p => upper p.key == k) =
      ps.reverse.find? (fun p => upper p.key == k) := by
  rw [← List.filter_reverse, List.find?_filter]
  apply find?_congr'
  intro p _
  by_cases e : upper p.key = k
  · have : isNotes p = false := by
      unfold isNotes; exact decide_eq_false (by rw [e]; exact hk)
    simp [this, e]
  · have : (upper p.key == k) = false := by simpa using e
    simp [this]

/-! ### what the loaders produce is in the serializers' domain -/

theorem mem_keys_dictOf (l : List Param) (k : Str) (h : k ∈ Dict.keys (dictOf l)) :
    ∃ p ∈ l, upper p.key = k := by
  rw [keys_dictOf, List.mem_eraseDups, List.mem_map] at h
  exact h

theorem upper_of_mem_keys_dictOf (l : List Param) (k : Str) (h : k ∈ Dict.keys (dictOf l)) : upper k = k := by
  obtain ⟨p, _, rfl⟩ := mem_keys_dictOf l k h
  exact upper_upper _

theorem six_le_length (values : List Str) (h : 6 ≤ values.length) :
    ∃ x1 x2 x3 x4 x5 x6 rest, values = [x1, x2, x3, x4, x5, x6] ++ rest := by
  rcases values with _ | ⟨x1, _ | ⟨x2, _ | ⟨x3, _ | ⟨x4, _ | ⟨x5, _ | ⟨x6, rest⟩⟩⟩⟩⟩⟩ <;>
    simp at h
  exact ⟨x1, x2, x3, x4, x5, x6, rest, rfl⟩

/-- a loaded SM chart: the six keys in order, stripped string values, extradata absent or non-empty -/
theorem smChartOf_dom (values : List Str) (h : ¬ values.length < T.smChartProperties.length) :
    (smChartOf values).fields.keys = T.smChartProperties ∧
    (∀ kv ∈ (smChartOf values).fields, ∃ v, kv.2 = some v ∧ strip v = v) ∧
    ((smChartOf values).extradata = none ∨ ∃ l, (smChartOf values).extradata = some l ∧ l ≠ []) := by
  have h6 : T.smChartProperties.length = 6 := rfl
  obtain ⟨x1, x2, x3, x4, x5, x6, rest, rfl⟩ := six_le_length values (by omega)
  rw [smChartOf_six]
  refine ⟨rfl, ?_, ?_⟩
  · intro kv hkv
    simp only [List.mem_cons, List.not_mem_nil, or_false] at hkv
    rcases hkv with rfl | rfl | rfl | rfl | rfl | rfl <;> exact ⟨_, rfl, strip_strip _⟩
  · by_cases hr : rest = []
    · left; simp [hr]
    · right; exact ⟨rest, by simp [hr], hr⟩

theorem segs_fst_noND (ps : List Param) : ∀ p ∈ (segs ps).1, isND p = false := by
  induction ps with
  | nil => intro p hp; cases hp
  | cons q ps ih =>
    unfold segs
    by_cases hq : isND q = true
    · rw [if_pos hq]; intro p hp; cases hp
    · rw [if_neg hq]
      intro p hp
      rcases List.mem_cons.mp hp with rfl | hp
      · simpa using hq
      · exact ih p hp

theorem segs_snd_noND (ps : List Param) : ∀ g ∈ (segs ps).2, ∀ p ∈ g, isND p = false := by
  induction ps with
  | nil => intro g hg; cases hg
  | cons q ps ih =>
    unfold segs
    by_cases hq : isND q = true
    · rw [if_pos hq]
      intro g hg
      rcases List.mem_cons.mp hg with rfl | hg
      · exact segs_fst_noND ps
      · exact ih g hg
    · rw [if_neg hq]; exact ih

theorem ne_ND_of_mem_keys_dictOf (l : List Param) (hl : ∀ p ∈ l, isND p = false) (k : Str)
    (h : k ∈ Dict.keys (dictOf l)) : k ≠ kNOTEDATA := by
  obtain ⟨p, hp, rfl⟩ := mem_keys_dictOf l k h
  have := hl p hp
  simpa [isND] using this

/-! ### the segmentation of an SSC parameter list -/

theorem segs_blocks (nds : List Param) (gs : List (List Param)) (hlen : nds.length = gs.length)
    (hnd : ∀ p ∈ nds, isND p = true) (hg : ∀ g ∈ gs, ∀ p ∈ g, isND p = false) :
    segs (List.zipWith (· :: ·) nds gs).flatten = ([], gs) := by
  induction nds generalizing gs with
  | nil =>
    cases gs with
    | nil => rfl
    | cons g gs => simp at hlen
  | cons n nds ih =>
    cases gs with
    | nil => simp at hlen
    | cons g gs =>
      simp only [List.length_cons, Nat.add_right_cancel_iff] at hlen
      rw [List.zipWith_cons_cons, List.flatten_cons, List.cons_append,
        segs_cons_ND _ _ (hnd n List.mem_cons_self),
        segs_append_of_noND _ _ (hg g List.mem_cons_self),
        ih gs hlen (fun p hp => hnd p (List.mem_cons_of_mem _ hp))
          (fun g' hg' => hg g' (List.mem_cons_of_mem _ hg'))]
      simp

theorem segs_unique (pre nds : List Param) (gs : List (List Param)) (hlen : nds.length = gs.length)
    (hpre : ∀ p ∈ pre, isND p = false)
    (hnd : ∀ p ∈ nds, isND p = true) (hg : ∀ g ∈ gs, ∀ p ∈ g, isND p = false) :
    segs (pre ++ (List.zipWith (· :: ·) nds gs).flatten) = (pre, gs) := by
  rw [segs_append_of_noND _ _ hpre, segs_blocks nds gs hlen hnd hg]
  simp

theorem segs_decomp (ps : List Param) :
    ∃ nds, nds.length = (segs ps).2.length ∧ (∀ p ∈ nds, isND p = true) ∧
      ps = (segs ps).1 ++ (List.zipWith (· :: ·) nds (segs ps).2).flatten := by
  induction ps with
  | nil => exact ⟨[], rfl, by simp, rfl⟩
  | cons p ps ih =>
    obtain ⟨nds, hlen, hnd, hps⟩ := ih
    unfold segs
    by_cases hp : isND p = true
    · rw [if_pos hp]
      refine ⟨p :: nds, by simp [hlen], ?_, ?_⟩
      · intro q hq
        rcases List.mem_cons.mp hq with rfl | hq
        · exact hp
        · exact hnd q hq
      · simp only [List.nil_append, List.zipWith_cons_cons, List.flatten_cons, List.cons_append]
        rw [← hps]
    · rw [if_neg hp]
      refine ⟨nds, hlen, hnd, ?_⟩
      simp only [List.cons_append]
      rw [← hps]

end Simfile.O
