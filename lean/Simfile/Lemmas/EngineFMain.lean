/-
C11 (float): the float engine against the exact engine — forward error bound, exactness for `fl = id`,
vanishing and non-negativity of the bound.
-/
import Simfile.Lemmas.EngineFStep
import Simfile.Lemmas.EngineFEval
import Simfile.Lemmas.EngineStates
import Simfile.Lemmas.EngineBisect
namespace Simfile
open C11

/-! ### the state lists -/

theorem go_cons (s : TState) (e : TEvent) (es : List TEvent) :
    states.go s (e :: es) = s :: states.go (advance s e) es := by
  simp only [states.go]

theorem go_nil (s : TState) : states.go s [] = [s] := by
  simp only [states.go]

/-- the two state lists agree up to the times -/
theorem statesFGo_stripT (R : Fl) : ∀ (evs : List TEvent) (a s : TState), stripT a = stripT s →
    (statesFGo R a evs).map stripT = (states.go s evs).map stripT := by
  intro evs
  induction evs with
  | nil => intro a s h; simp only [statesFGo, go_nil, List.map_cons, List.map_nil, h]
  | cons e es ih =>
    intro a s h
    simp only [statesFGo, go_cons, List.map_cons, h, ih _ _ (advanceF_stripT R h e)]

theorem statesFGo_length (R : Fl) : ∀ (evs : List TEvent) (a : TState), (statesFGo R a evs).length = evs.length + 1 := by
  intro evs
  induction evs with
  | nil => intro a; rfl
  | cons e es ih => intro a; simp only [statesFGo, List.length_cons, ih]

theorem go_length : ∀ (evs : List TEvent) (s : TState), (states.go s evs).length = evs.length + 1 := by
  intro evs
  induction evs with
  | nil => intro a; simp [go_nil]
  | cons e es ih => intro a; simp only [go_cons, List.length_cons, ih]

theorem errStatesGo_length (u : Rat) : ∀ (evs : List TEvent) (s : TState) (e : Rat),
    (errStatesGo u s e evs).length = evs.length + 1 := by
  intro evs
  induction evs with
  | nil => intro s e; rfl
  | cons ev es ih => intro s e; simp only [errStatesGo, List.length_cons, ih]

section Err
variable (R : Fl) (u : Rat) (hu0 : 0 ≤ u) (hu1 : u < 1) (hR : ∀ x : Rat, |R.fl x - x| ≤ u * |x|)
include hu0 hu1 hR

/-- the k-th states correspond, with the k-th error bound -/
theorem statesFGo_error : ∀ (evs : List TEvent) (a s : TState) (e : Rat), stripT a = stripT s → 0 < s.bpm →
    (∀ ev ∈ evs, ev.tag = .bpm → 0 < ev.value) → |a.time - s.time| ≤ e →
    ∀ k, k < evs.length + 1 → ∃ xF x ex, (statesFGo R a evs)[k]? = some xF ∧ (states.go s evs)[k]? = some x ∧
      (errStatesGo u s e evs)[k]? = some ex ∧ stripT xF = stripT x ∧ 0 < x.bpm ∧ |xF.time - x.time| ≤ ex := by
  intro evs
  induction evs with
  | nil =>
    intro a s e h hb _ he k hk
    have : k = 0 := by simpa using hk
    subst this
    exact ⟨a, s, e, by simp [statesFGo], by simp [go_nil], by simp [errStatesGo], h, hb, he⟩
  | cons ev es ih =>
    intro a s e h hb hpos he k hk
    cases k with
    | zero => exact ⟨a, s, e, by simp [statesFGo], by simp [go_cons], by simp [errStatesGo], h, hb, he⟩
    | succ k =>
      have hb' : 0 < (advance s ev).bpm := by
        simp only [advance]
        split_ifs with ht
        · exact hpos ev (List.mem_cons_self) ht
        · exact hb
      have he' : |(advanceF R a ev).time - (advance s ev).time| ≤
          eFl u (s.time + s.timeUntil ev.beat ev.tag) (e + errTimeUntil u s ev.beat ev.tag) :=
        step_error R u hu0 hu1 hR h hb he ev.beat ev.tag
      have hk' : k < es.length + 1 := by simpa using hk
      obtain ⟨xF, x, ex, h1, h2, h3, h4⟩ := ih _ _ _ (advanceF_stripT R h ev) hb'
        (fun ev' hm => hpos ev' (List.mem_cons_of_mem _ hm)) he' k hk'
      refine ⟨xF, x, ex, ?_, ?_, ?_, h4⟩
      · simpa [statesFGo] using h1
      · simpa [go_cons] using h2
      · simpa [errStatesGo] using h3

end Err

/-! ### the initial states and the events -/

theorem initStateF_stripT (R : Fl) (td : TimingData) : stripT (initStateF R td) = stripT (initState td) := rfl

theorem initState_bpm_pos {td : TimingData} (hd : Dom td) : 0 < (initState td).bpm := by
  have hne := hd.bpms_ne
  have hp := hd.bpms_pos
  unfold initState
  cases hl : td.bpms with
  | nil => exact absurd hl hne
  | cons x xs =>
    simp only [List.headD_cons]
    exact hp x (by rw [hl]; exact List.mem_cons_self)

theorem events_bpm_pos {td : TimingData} (hd : Dom td) : ∀ ev ∈ events td, ev.tag = .bpm → 0 < ev.value := by
  intro ev hev ht
  have hm := events_bpm hev ht
  exact hd.bpms_pos (ev.beat, ev.value) (List.mem_of_mem_tail hm)

/-- the search finds the same index in both state lists -/
theorem bisect_statesF (R : Fl) (td : TimingData) (b : Rat) (g : Tag) (fuel lo hi : Nat) :
    bisectRightLoop (fun (s : TState) => keyLT (b, g) (s.beat, s.tag)) (statesF R td).toArray fuel lo hi =
    bisectRightLoop (fun (s : TState) => keyLT (b, g) (s.beat, s.tag)) (states td).toArray fuel lo hi := by
  have hm : (statesF R td).map stripT = (states td).map stripT :=
    statesFGo_stripT R (events td) _ _ (initStateF_stripT R td)
  have e1 := bisectRightLoop_map stripT (fun (s : TState) => keyLT (b, g) (s.beat, s.tag)) (statesF R td).toArray fuel lo hi
  have e2 := bisectRightLoop_map stripT (fun (s : TState) => keyLT (b, g) (s.beat, s.tag)) (states td).toArray fuel lo hi
  rw [List.map_toArray] at e1 e2
  rw [hm] at e1
  exact (e1.symm.trans e2)

theorem statesF_length (R : Fl) (td : TimingData) : (statesF R td).length = (states td).length := by
  rw [statesF, statesFGo_length, states, go_length]

section Main
variable (R : Fl) (u : Rat) (hu0 : 0 ≤ u) (hu1 : u < 1) (hR : ∀ x : Rat, |R.fl x - x| ≤ u * |x|)
include hu0 hu1 hR

/-- the states selected by the same index correspond -/
theorem sel_error (td : TimingData) (hd : Dom td) (k : Nat) :
    stripT ((statesF R td).toArray.getD k (initStateF R td)) = stripT ((states td).toArray.getD k (initState td)) ∧
    0 < ((states td).toArray.getD k (initState td)).bpm ∧
    |((statesF R td).toArray.getD k (initStateF R td)).time - ((states td).toArray.getD k (initState td)).time| ≤
      (errStates u td).getD k (eFl u (-td.offset) 0) := by
  have h0 : |(initStateF R td).time - (initState td).time| ≤ eFl u (-td.offset) 0 := fl_err0 R u hu0 hR _
  simp only [Array.getD_eq_getD_getElem?, List.getElem?_toArray, List.getD_eq_getElem?_getD]
  by_cases hk : k < (events td).length + 1
  · obtain ⟨xF, x, ex, h1, h2, h3, h4, h5, h6⟩ := statesFGo_error R u hu0 hu1 hR (events td) _ _ _
      (initStateF_stripT R td) (initState_bpm_pos hd) (events_bpm_pos hd) h0 k hk
    have h1' : (statesF R td)[k]? = some xF := h1
    have h2' : (states td)[k]? = some x := h2
    have h3' : (errStates u td)[k]? = some ex := h3
    rw [h1', h2', h3']
    exact ⟨h4, h5, h6⟩
  · have hk' : (events td).length + 1 ≤ k := not_lt.mp hk
    have h1 : (statesF R td)[k]? = none := by
      apply List.getElem?_eq_none; rw [statesF, statesFGo_length]; exact hk'
    have h2 : (states td)[k]? = none := by
      apply List.getElem?_eq_none; rw [states, go_length]; exact hk'
    have h3 : (errStates u td)[k]? = none := by
      apply List.getElem?_eq_none; rw [errStates, errStatesGo_length]; exact hk'
    rw [h1, h2, h3]
    exact ⟨initStateF_stripT R td, initState_bpm_pos hd, h0⟩

theorem timeAtF_error (td : TimingData) (h : C11.Dom td) (b : Rat) (g : Tag) :
    |timeAtF R td b g - timeAt td b g| ≤ errTimeAt u td b g := by
  obtain ⟨h1, h2, h3⟩ := sel_error R u hu0 hu1 hR td h
    (bisectRightLoop (fun (s : TState) => keyLT (b, g) (s.beat, s.tag)) (states td).toArray
      ((states td).toArray.size + 1) 0 (states td).toArray.size - 1)
  have := step_error R u hu0 hu1 hR h1 h2 h3 b g
  simp only [timeAtF, timeAt, Engine.timeAt, Engine.priorState, errTimeAt, errTimeAtWith, mkEngine,
    bisect_statesF, List.size_toArray, statesF_length]
  simpa only [List.size_toArray] using this

end Main

/-! ### exact arithmetic -/

theorem timeUntilF_id (s : TState) (b : Rat) (g : Tag) : s.timeUntilF ⟨id⟩ b g = s.timeUntil b g := by
  unfold TState.timeUntilF TState.timeUntil
  by_cases hc : (s.tag = .stop ∨ s.tag = .delay) ∧ (g = .stopEnd ∨ g = .delayEnd)
  · simp only [hc, and_self, if_true, id]
  · simp only [hc, if_false, id, add_zero]

theorem advanceF_id (s : TState) (e : TEvent) : advanceF ⟨id⟩ s e = advance s e := by
  simp only [advanceF, advance, timeUntilF_id, id]

theorem statesFGo_id : ∀ (evs : List TEvent) (s : TState), statesFGo ⟨id⟩ s evs = states.go s evs := by
  intro evs
  induction evs with
  | nil => intro s; simp only [statesFGo, go_nil]
  | cons e es ih => intro s; simp only [statesFGo, go_cons, advanceF_id, ih]

theorem initStateF_id (td : TimingData) : initStateF ⟨id⟩ td = initState td := rfl

theorem statesF_id (td : TimingData) : statesF ⟨id⟩ td = states td := by
  rw [statesF, initStateF_id, statesFGo_id, states]

theorem timeAtF_id (td : TimingData) (b : Rat) (g : Tag) : timeAtF ⟨id⟩ td b g = timeAt td b g := by
  simp only [timeAtF, timeAt, Engine.timeAt, Engine.priorState, mkEngine, statesF_id, initStateF_id,
    timeUntilF_id, id]

/-! ### the bound at u = 0 -/

theorem errTimeUntil_zero (s : TState) (b : Rat) (g : Tag) : errTimeUntil 0 s b g = 0 := by
  unfold errTimeUntil
  simp only [eFl_zero, mul_zero, zero_mul, add_zero, zero_div, ite_self]

theorem errStatesGo_zero : ∀ (evs : List TEvent) (s : TState), ∀ x ∈ errStatesGo 0 s 0 evs, x = 0 := by
  intro evs
  induction evs with
  | nil => intro s x hx; simpa [errStatesGo] using hx
  | cons ev es ih =>
    intro s x hx
    simp only [errStatesGo, eFl_zero, errTimeUntil_zero, add_zero, List.mem_cons] at hx
    rcases hx with hx | hx
    · exact hx
    · exact ih _ x hx

theorem errTimeAt_zero (td : TimingData) (b : Rat) (g : Tag) : errTimeAt 0 td b g = 0 := by
  simp only [errTimeAt, errTimeAtWith, eFl_zero, errTimeUntil_zero, add_zero, List.getD_eq_getElem?_getD]
  generalize hk : bisectRightLoop (fun (s : TState) => keyLT (b, g) (s.beat, s.tag)) (mkEngine td).arr
    ((mkEngine td).arr.size + 1) 0 (mkEngine td).arr.size - 1 = k
  cases hx : (errStates 0 td)[k]? with
  | none => rfl
  | some x =>
    have hm : x ∈ errStates 0 td := List.mem_of_getElem? hx
    have h0 : eFl 0 (-td.offset) 0 = 0 := eFl_zero _ _
    rw [errStates, h0] at hm
    simpa using errStatesGo_zero _ _ x hm

/-! ### the bound is non-negative -/

section Nonneg
variable (u : Rat) (hu0 : 0 ≤ u) (hu1 : u < 1)
include hu0 hu1

theorem errTimeUntil_nonneg (s : TState) (hb : 0 < s.bpm) (b : Rat) (g : Tag) : 0 ≤ errTimeUntil u s b g := by
  have he1 : 0 ≤ eFl u (b - s.beat) 0 := eFl_nonneg hu0 (le_refl _)
  have he2 : 0 ≤ eFl u ((b - s.beat) * 60) (60 * eFl u (b - s.beat) 0) := eFl_nonneg hu0 (by linarith)
  have heb : 0 ≤ eFl u s.bpm 0 := eFl_nonneg hu0 (le_refl _)
  have heb' : eFl u s.bpm 0 < s.bpm := by
    rw [eFl_eq, abs_of_pos hb]
    have : u * s.bpm < 1 * s.bpm := mul_lt_mul_of_pos_right hu1 hb
    linarith
  have hden : 0 < s.bpm * (s.bpm - eFl u s.bpm 0) := mul_pos hb (by linarith)
  have hnum : 0 ≤ eFl u ((b - s.beat) * 60) (60 * eFl u (b - s.beat) 0) * s.bpm +
      absR ((b - s.beat) * 60) * eFl u s.bpm 0 := by
    rw [absR_eq]
    have := mul_nonneg (abs_nonneg ((b - s.beat) * 60)) heb
    have := mul_nonneg he2 (le_of_lt hb)
    linarith
  have hq : 0 ≤ (eFl u ((b - s.beat) * 60) (60 * eFl u (b - s.beat) 0) * s.bpm + absR ((b - s.beat) * 60) * eFl u s.bpm 0) /
      (s.bpm * (s.bpm - eFl u s.bpm 0)) := div_nonneg hnum (le_of_lt hden)
  have he3 := eFl_nonneg (a := (b - s.beat) * 60 / s.bpm) hu0 hq
  have hbase : 0 ≤ (if s.warp = true then 0 else eFl u ((b - s.beat) * 60 / s.bpm)
      ((eFl u ((b - s.beat) * 60) (60 * eFl u (b - s.beat) 0) * s.bpm + absR ((b - s.beat) * 60) * eFl u s.bpm 0) /
        (s.bpm * (s.bpm - eFl u s.bpm 0)))) := by
    split_ifs
    · exact le_refl _
    · exact he3
  have hv : 0 ≤ eFl u s.value 0 := eFl_nonneg hu0 (le_refl _)
  unfold errTimeUntil
  simp only []
  split_ifs with hc hw hw
  · exact eFl_nonneg hu0 (by simpa using hv)
  · apply eFl_nonneg hu0
    linarith
  · exact le_refl _
  · exact he3

theorem errStatesGo_nonneg : ∀ (evs : List TEvent) (s : TState) (e : Rat), 0 ≤ e → 0 < s.bpm →
    (∀ ev ∈ evs, ev.tag = .bpm → 0 < ev.value) → ∀ x ∈ errStatesGo u s e evs, 0 ≤ x := by
  intro evs
  induction evs with
  | nil => intro s e he _ _ x hx; simp only [errStatesGo, List.mem_singleton] at hx; rw [hx]; exact he
  | cons ev es ih =>
    intro s e he hb hpos x hx
    simp only [errStatesGo, List.mem_cons] at hx
    rcases hx with hx | hx
    · rw [hx]; exact he
    · have hb' : 0 < (advance s ev).bpm := by
        simp only [advance]
        split_ifs with ht
        · exact hpos ev (List.mem_cons_self) ht
        · exact hb
      have htu := errTimeUntil_nonneg u hu0 hu1 s hb ev.beat ev.tag
      exact ih _ _ (eFl_nonneg hu0 (by linarith)) hb' (fun ev' hm => hpos ev' (List.mem_cons_of_mem _ hm)) x hx

end Nonneg

theorem go_bpm_pos : ∀ (evs : List TEvent) (s : TState), 0 < s.bpm →
    (∀ ev ∈ evs, ev.tag = .bpm → 0 < ev.value) → ∀ x ∈ states.go s evs, 0 < x.bpm := by
  intro evs
  induction evs with
  | nil => intro s hb _ x hx; simp only [go_nil, List.mem_singleton] at hx; rw [hx]; exact hb
  | cons ev es ih =>
    intro s hb hpos x hx
    simp only [go_cons, List.mem_cons] at hx
    rcases hx with hx | hx
    · rw [hx]; exact hb
    · have hb' : 0 < (advance s ev).bpm := by
        simp only [advance]
        split_ifs with ht
        · exact hpos ev (List.mem_cons_self) ht
        · exact hb
      exact ih _ hb' (fun ev' hm => hpos ev' (List.mem_cons_of_mem _ hm)) x hx

theorem errTimeAt_nonneg (u : Rat) (hu0 : 0 ≤ u) (hu1 : u < 1) (td : TimingData) (h : C11.Dom td) (b : Rat) (g : Tag) :
    0 ≤ errTimeAt u td b g := by
  simp only [errTimeAt, errTimeAtWith]
  generalize hk : bisectRightLoop (fun (s : TState) => keyLT (b, g) (s.beat, s.tag)) (mkEngine td).arr
    ((mkEngine td).arr.size + 1) 0 (mkEngine td).arr.size - 1 = k
  have h0 : 0 ≤ eFl u (-td.offset) 0 := eFl_nonneg hu0 (le_refl _)
  have hes : 0 ≤ (errStates u td).getD k (eFl u (-(mkEngine td).td.offset) 0) := by
    rw [List.getD_eq_getElem?_getD]
    cases hx : (errStates u td)[k]? with
    | none => exact h0
    | some x =>
      have hm : x ∈ errStates u td := List.mem_of_getElem? hx
      exact errStatesGo_nonneg u hu0 hu1 _ _ _ h0 (initState_bpm_pos h) (events_bpm_pos h) x hm
  have hb : 0 < ((mkEngine td).arr.getD k (mkEngine td).init).bpm := by
    simp only [mkEngine, Array.getD_eq_getD_getElem?, List.getElem?_toArray]
    cases hx : (states td)[k]? with
    | none => exact initState_bpm_pos h
    | some x =>
      have hm : x ∈ states td := List.mem_of_getElem? hx
      exact go_bpm_pos _ _ (initState_bpm_pos h) (events_bpm_pos h) x hm
  have htu := errTimeUntil_nonneg u hu0 hu1 _ hb b g
  exact eFl_nonneg hu0 (by linarith)

end Simfile
