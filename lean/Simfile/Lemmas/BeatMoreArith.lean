/-
Laws of the model's `floorDiv` / `pyMod` (Python `//` and `%` on Fractions), closure of the tick grid under the
beat operators, and a model of `Beat`'s type-preserving operator wrappers (C14 round 2).
-/
import Simfile.Lemmas.BeatMoreRound
import Mathlib.Tactic.Positivity
namespace Simfile

/-! ### floor division and remainder -/

theorem floorDiv_eq_floor (a b : Rat) : floorDiv a b = ⌊a / b⌋ := rfl

/-- `a == (a // b) * b + a % b` (for `b = 0`, where Python raises, the model gives quotient 0, remainder `a`) -/
theorem floorDiv_pyMod (a b : Rat) : a = (floorDiv a b : Rat) * b + pyMod a b := by
  unfold floorDiv pyMod; ring

theorem pyMod_nonneg (a b : Rat) (hb : 0 < b) : 0 ≤ pyMod a b := by
  have h := floor_le' (a / b)
  have : b * ((a / b).floor : Rat) ≤ a := by
    have := mul_le_mul_of_nonneg_left h hb.le
    rwa [mul_div_cancel₀ a hb.ne'] at this
  unfold pyMod; linarith

theorem pyMod_lt (a b : Rat) (hb : 0 < b) : pyMod a b < b := by
  have h := lt_floor_add_one' (a / b)
  have : a < b * (((a / b).floor : Rat) + 1) := by
    have := mul_lt_mul_of_pos_left h hb
    rwa [mul_div_cancel₀ a hb.ne'] at this
  unfold pyMod; linarith

theorem pyMod_nonpos (a b : Rat) (hb : b < 0) : pyMod a b ≤ 0 := by
  have h := floor_le' (a / b)
  have : a ≤ b * ((a / b).floor : Rat) := by
    have := mul_le_mul_of_nonpos_left h hb.le
    rwa [mul_div_cancel₀ a hb.ne] at this
  unfold pyMod; linarith

theorem pyMod_gt (a b : Rat) (hb : b < 0) : b < pyMod a b := by
  have h := lt_floor_add_one' (a / b)
  have : b * (((a / b).floor : Rat) + 1) < a := by
    have := mul_lt_mul_of_neg_left h hb
    rwa [mul_div_cancel₀ a hb.ne] at this
  unfold pyMod; linarith

/-- quotient and remainder are determined by the division equation and the range of the remainder -/
theorem floorDiv_unique (a b : Rat) (q : Int) (r : Rat) (hb : 0 < b) (h : a = (q : Rat) * b + r)
    (h0 : 0 ≤ r) (h1 : r < b) : floorDiv a b = q ∧ pyMod a b = r := by
  have hq : floorDiv a b = q := by
    apply floor_unique'
    · rw [le_div_iff₀ hb]; linarith
    · rw [div_lt_iff₀ hb]; linarith
  refine ⟨hq, ?_⟩
  have := floorDiv_pyMod a b
  rw [hq] at this
  linarith

theorem floorDiv_unique_neg (a b : Rat) (q : Int) (r : Rat) (hb : b < 0) (h : a = (q : Rat) * b + r)
    (h0 : r ≤ 0) (h1 : b < r) : floorDiv a b = q ∧ pyMod a b = r := by
  have hq : floorDiv a b = q := by
    apply floor_unique'
    · rw [le_div_iff_of_neg hb]; linarith
    · rw [div_lt_iff_of_neg hb]; linarith
  refine ⟨hq, ?_⟩
  have := floorDiv_pyMod a b
  rw [hq] at this
  linarith

/-- the remainder of an integer division of integers is the integer remainder (`Int.emod`/`Int.fmod` agree for a
positive divisor): the row index `pyMod beat 4` of C08 on whole beats -/
theorem pyMod_int (m n : Int) (hn : 0 < n) : pyMod (m : Rat) (n : Rat) = ((m % n : Int) : Rat) := by
  have hn' : (0 : Rat) < (n : Rat) := by exact_mod_cast hn
  refine (floorDiv_unique (m : Rat) (n : Rat) (m / n) ((m % n : Int) : Rat) hn' ?_ ?_ ?_).2
  · have := Int.mul_ediv_add_emod m n
    have h' : ((n * (m / n) + m % n : Int) : Rat) = (m : Rat) := by rw [this]
    push_cast at h'; linarith
  · exact_mod_cast Int.emod_nonneg m hn.ne'
  · exact_mod_cast Int.emod_lt_of_pos m hn

/-! ### the tick grid under the operators -/

theorem onGrid_add {a b : Rat} (ha : onGrid a) (hb : onGrid b) : onGrid (a + b) := by
  rw [onGrid_iff] at *
  obtain ⟨m, rfl⟩ := ha; obtain ⟨n, rfl⟩ := hb
  exact ⟨m + n, by push_cast; ring⟩

theorem onGrid_sub {a b : Rat} (ha : onGrid a) (hb : onGrid b) : onGrid (a - b) := by
  rw [onGrid_iff] at *
  obtain ⟨m, rfl⟩ := ha; obtain ⟨n, rfl⟩ := hb
  exact ⟨m - n, by push_cast; ring⟩

theorem onGrid_neg {a : Rat} (ha : onGrid a) : onGrid (-a) := by
  rw [onGrid_iff] at *
  obtain ⟨m, rfl⟩ := ha
  exact ⟨-m, by push_cast; ring⟩

theorem onGrid_abs {a : Rat} (ha : onGrid a) : onGrid |a| := by
  rcases abs_choice a with h | h <;> rw [h]
  · exact ha
  · exact onGrid_neg ha

theorem onGrid_int (k : Int) : onGrid (k : Rat) := by
  rw [onGrid_iff]; exact ⟨48 * k, by push_cast; ring⟩

theorem onGrid_int_mul (k : Int) {a : Rat} (ha : onGrid a) : onGrid ((k : Rat) * a) := by
  rw [onGrid_iff] at *
  obtain ⟨m, rfl⟩ := ha
  exact ⟨k * m, by push_cast; ring⟩

theorem onGrid_mul_int (k : Int) {a : Rat} (ha : onGrid a) : onGrid (a * (k : Rat)) := by
  rw [mul_comm]; exact onGrid_int_mul k ha

/-- the remainder of a grid beat by a grid beat (of either sign, even 0) is on the grid -/
theorem onGrid_pyMod {a b : Rat} (ha : onGrid a) (hb : onGrid b) : onGrid (pyMod a b) := by
  have : pyMod a b = a - ((a / b).floor : Rat) * b := by unfold pyMod; ring
  rw [this]
  exact onGrid_sub ha (onGrid_int_mul _ hb)

theorem onGrid_of_den {x : Rat} (n : Int) (h : x = (n : Rat) / 48) : onGrid x := (onGrid_iff x).mpr ⟨n, h⟩

/-- `x` is on the grid iff `48 x` is an integer -/
theorem onGrid_iff_int (x : Rat) : onGrid x ↔ ∃ n : Int, x * 48 = (n : Rat) := by
  rw [onGrid_iff]
  constructor
  · rintro ⟨n, rfl⟩; exact ⟨n, by ring⟩
  · rintro ⟨n, h⟩; exact ⟨n, by rw [← h]; ring⟩

theorem not_onGrid_of_between {x : Rat} (k : Int) (h1 : (k : Rat) < x * 48) (h2 : x * 48 < (k : Rat) + 1) :
    ¬ onGrid x := by
  rw [onGrid_iff_int]
  rintro ⟨n, hn⟩
  rw [hn] at h1 h2
  have a : k < n := by exact_mod_cast h1
  have b : n < k + 1 := by exact_mod_cast h2
  omega

/-! ### NEW DEFINITIONS — a model of `Beat`'s operator wrappers (simfile/timing/__init__.py:85-138).

These definitions are NEW in round 2 and are NOT yet tied to the implementation by differential testing.

Python: every wrapped dunder is `Beat(super().__op__(other))`; `super()` is `fractions.Fraction`, whose operators on
`int` / `Fraction` / `Beat` operands return a `Fraction` (a `Rational` instance), and `Beat.__new__` returns a
`Rational` argument unchanged (`mkBeat (.frac q)`: no rounding). Wrapped: `__abs__ __neg__ __pos__ __add__ __sub__
__mul__ __truediv__ __mod__ __divmod__ __pow__` and the reflected `__radd__ __rsub__ __rmul__ __rtruediv__ __rmod__
__rdivmod__ __rpow__`. NOT wrapped: `__floordiv__`/`__rfloordiv__` (Fraction's returns a plain `int`).
`none` models `ZeroDivisionError`.

Left out on purpose: a `float` operand (Fraction's operators then return a `float`, and `Beat(float)` snaps to the
grid: `Beat(1,3) + 0.1 == Beat(7,16)`), and `**` with a non-integer exponent (`Fraction.__pow__` goes through
`float`: `Beat(2) ** Fraction(1,2) == Beat(17,12)`; `2 ** Beat(1,2)` and `Fraction(1,2) ** Beat(1,2)` do not even
terminate: `Beat.__rpow__` → `Fraction.__rpow__` → `Fraction ** Beat` → `Beat.__rpow__` … RecursionError). -/

/-- the binary operators whose result is wrapped in `Beat(...)` -/
inductive BeatBinOp | add | sub | mul | truediv | mod
deriving Repr, DecidableEq

/-- NEW (untied): `Fraction.__op__(a, b)` on rational operands; `none` = ZeroDivisionError -/
def fractionBin : BeatBinOp → Rat → Rat → Option Rat
  | .add, a, b => some (a + b)
  | .sub, a, b => some (a - b)
  | .mul, a, b => some (a * b)
  | .truediv, a, b => if b = 0 then none else some (a / b)
  | .mod, a, b => if b = 0 then none else some (pyMod a b)

/-- NEW (untied): `Beat.__op__(self, other)` = `Beat(super().__op__(other))` -/
def beatBin (op : BeatBinOp) (self other : Rat) : Option Rat :=
  (fractionBin op self other).map fun q => mkBeat (.frac q)

/-- NEW (untied): the reflected `Beat.__rop__(self, other)` = `Beat(super().__rop__(other))` = `other op self` -/
def beatRBin (op : BeatBinOp) (self other : Rat) : Option Rat :=
  (fractionBin op other self).map fun q => mkBeat (.frac q)

/-- NEW (untied): `Beat.__divmod__`: `(quotient, Beat(remainder))`, the quotient a plain `int` -/
def beatDivmod (self other : Rat) : Option (Int × Rat) :=
  if other = 0 then none else some (floorDiv self other, mkBeat (.frac (pyMod self other)))

/-- NEW (untied): `self // other` — inherited, NOT wrapped: a plain `int` -/
def beatFloorDiv (self other : Rat) : Option Int :=
  if other = 0 then none else some (floorDiv self other)

/-- NEW (untied): `-self`, `+self`, `abs(self)` -/
def beatNeg (self : Rat) : Rat := mkBeat (.frac (-self))
def beatPos (self : Rat) : Rat := mkBeat (.frac self)
def beatAbs (self : Rat) : Rat := mkBeat (.frac |self|)

/-- NEW (untied): `self ** n` for an INTEGER exponent (int, or a Fraction/Beat with denominator 1): exact;
`0 ** negative` raises -/
def beatPowInt (self : Rat) (n : Int) : Option Rat :=
  if self = 0 ∧ n < 0 then none else some (mkBeat (.frac (self ^ n)))

end Simfile
