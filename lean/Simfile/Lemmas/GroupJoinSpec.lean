/-
Lemmas for C09: the prefix classification `pcl` (the abstract state reached after a prefix), its
snoc equation `pcl (P ++ [n]) = absStep (pcl P) n`, and its agreement with `Spec.classifyAll` at the
end of the stream.
-/
import Simfile.Lemmas.GroupJoinStep
namespace Simfile.Join
open Simfile Simfile.Spec

/-! ### classification of a prefix, in the style of the specification -/

/-- `Spec.classify`, except that a head with no later note in its column is open -/
def pclassify (before : List Note) (n : Note) (after : List Note) : Option Cls :=
  if isHead n.ntype then
    match after.find? (·.column = n.column) with
    | some t => some (if t.ntype = cTAIL then .joined t.beat else .orphanHead)
    | none => none
  else if n.ntype = cTAIL then
    match before.find? (·.column = n.column) with
    | some h => some (if isHead h.ntype then .consumed else .orphanTail)
    | none => some .orphanTail
  else some .plain

def pclassifyAll : List Note → List Note → List AN
  | _, [] => []
  | before, n :: after => (n, pclassify before n after) :: pclassifyAll (n :: before) after

/-- at the end of the stream the open heads are orphans -/
def fin (x : AN) : Note × Cls := (x.1, x.2.getD .orphanHead)

theorem fin_pclassify (b : List Note) (n : Note) (a : List Note) :
    (pclassify b n a).getD .orphanHead = classify b n a := by
  unfold pclassify classify
  by_cases hh : isHead n.ntype = true
  · simp only [hh, if_true]
    cases a.find? (·.column = n.column) with
    | none => rfl
    | some t => by_cases ht : t.ntype = cTAIL <;> simp [ht]
  · simp only [hh]
    by_cases ht : n.ntype = cTAIL
    · simp only [ht, if_true]
      cases b.find? (·.column = n.column) with
      | none => rfl
      | some h => by_cases h2 : isHead h.ntype = true <;> simp [h2]
    · simp [ht]

theorem map_fin_pclassifyAll (b P : List Note) : (pclassifyAll b P).map fin = classifyAll b P := by
  induction P generalizing b with
  | nil => rfl
  | cons n P ih => simp [pclassifyAll, classifyAll, fin, fin_pclassify, ih]

theorem pclassify_snoc (b : List Note) (x : Note) (P : List Note) (n : Note) :
    pclassify b x (P ++ [n]) =
      if pclassify b x P = none ∧ x.column = n.column then some (closeCls n) else pclassify b x P := by
  unfold pclassify
  by_cases hh : isHead x.ntype = true
  · simp only [hh, if_true, List.find?_append]
    cases P.find? (·.column = x.column) with
    | some t => simp
    | none =>
      by_cases hc : n.column = x.column
      · simp [hc, closeCls]
      · have hc' : ¬ x.column = n.column := fun h => hc h.symm
        simp [hc, hc']
  · simp only [hh]
    by_cases ht : x.ntype = cTAIL
    · simp only [ht, if_true]
      cases b.find? (·.column = x.column) <;> simp
    · simp [ht]

theorem pclassifyAll_snoc (b P : List Note) (n : Note) :
    pclassifyAll b (P ++ [n]) =
      closeCol n.column (closeCls n) (pclassifyAll b P) ++ [(n, pclassify (P.reverse ++ b) n [])] := by
  induction P generalizing b with
  | nil => rfl
  | cons x P ih =>
    simp only [List.cons_append, pclassifyAll, ih, pclassify_snoc, closeCol, List.map_cons,
      List.reverse_cons, List.append_assoc, List.nil_append]
    split <;> rfl

/-- the annotated prefix -/
def pcl (P : List Note) : List AN := pclassifyAll [] P

theorem pcl_map_fst (P : List Note) : (pcl P).map (·.1) = P := by
  unfold pcl
  generalize ([] : List Note) = b
  induction P generalizing b with
  | nil => rfl
  | cons n P ih => simp [pclassifyAll, ih]

theorem pclassify_nil_isNone (b : List Note) (n : Note) : (pclassify b n []).isNone = isHead n.ntype := by
  unfold pclassify
  by_cases hh : isHead n.ntype = true
  · simp [hh]
  · have hh' : isHead n.ntype = false := by simpa using hh
    simp only [hh', Bool.false_eq_true, if_false]
    by_cases ht : n.ntype = cTAIL
    · simp only [ht, if_true]
      cases b.find? (·.column = n.column) <;> rfl
    · simp [ht]

theorem hasOpen_pcl (c : Nat) (P : List Note) :
    hasOpen c (pcl P) = (P.reverse.find? (·.column = c)).any (fun h => isHead h.ntype) := by
  induction P using snoc_induction with
  | nil => rfl
  | snoc P n ih =>
    unfold pcl at ih ⊢
    rw [pclassifyAll_snoc]
    have happ : ∀ X Y : List AN, hasOpen c (X ++ Y) = (hasOpen c X || hasOpen c Y) := by
      intro X Y; simp [hasOpen]
    rw [happ]
    simp only [List.reverse_append, List.reverse_cons, List.reverse_nil, List.nil_append,
      List.singleton_append, List.find?_cons]
    by_cases hc : n.column = c
    · subst hc
      rw [hasOpen_closeCol_same]
      simp [hasOpen, pclassify_nil_isNone]
    · rw [hasOpen_closeCol_other _ _ hc, ih]
      simp [hasOpen, hc]

theorem newCls_pcl (P : List Note) (n : Note) : newCls (pcl P) n = pclassify (P.reverse ++ []) n [] := by
  unfold newCls pclassify
  by_cases hh : isHead n.ntype = true
  · simp [hh]
  · simp only [hh]
    by_cases ht : n.ntype = cTAIL
    · simp only [ht, if_true, hasOpen_pcl, List.append_nil]
      cases P.reverse.find? (·.column = n.column) with
      | none => rfl
      | some h => by_cases h2 : isHead h.ntype = true <;> simp [h2]
    · simp [ht]

theorem pcl_snoc (P : List Note) (n : Note) : pcl (P ++ [n]) = absStep (pcl P) n := by
  rw [absStep, newCls_pcl]
  exact pclassifyAll_snoc [] P n

theorem classifyAll_eq (F : List Note) : classifyAll [] F = (pcl F).map fin :=
  (map_fin_pclassifyAll [] F).symm

end Simfile.Join
