/-
C11 under the wider domain, part 5: redundant BPM rows (one, then any number), a decidable sufficient
test for `Dom0` (used by the non-vacuity examples), and which tags matter for `timeSpec`.
-/
import Simfile.Lemmas.EngineWideRun
namespace Simfile.Wide
open Simfile C11

theorem head_withBpm (td : TimingData) (h : Dom0 td) (x : Rat) (hpos : 0 < x) :
    (withBpm td x).bpms.headD (0, 0) = td.bpms.headD (0, 0) :=
  head_insertBpm x _ td.bpms h.bpms_ne h.bpms_head hpos


theorem dom_withBpm (td : TimingData) (h : Dom0 td) (x : Rat) (hx : onGrid x) (hpos : 0 < x)
    (hnew : ∀ e ∈ td.bpms, e.1 ≠ x) : Dom0 (withBpm td x) where
  bpms_ne := insertBpm_ne_nil _ _ _
  bpms_head := by rw [head_withBpm td h x hpos]; exact h.bpms_head
  bpms_pos := by
    intro e he
    rcases (mem_insertBpm _ _ e td.bpms).1 he with rfl | he
    · exact bpmOn_pos td h x
    · exact h.bpms_pos e he
  bpms_sorted := sorted_insertBpm _ _ td.bpms h.bpms_sorted hnew
  bpms_grid := by
    intro e he
    rcases (mem_insertBpm _ _ e td.bpms).1 he with rfl | he
    · exact ⟨le_of_lt hpos, hx⟩
    · exact h.bpms_grid e he
  stops_nonneg := h.stops_nonneg
  stops_sorted := h.stops_sorted
  stops_grid := h.stops_grid
  delays_nonneg := h.delays_nonneg
  delays_sorted := h.delays_sorted
  delays_grid := h.delays_grid
  warps_nonneg := h.warps_nonneg
  warps_sorted := h.warps_sorted
  warps_grid := h.warps_grid

theorem bpmOn_withBpm (td : TimingData) (h : Dom0 td) (x : Rat) (hpos : 0 < x)
    (hnew : ∀ e ∈ td.bpms, e.1 ≠ x) (y : Rat) : Spec.bpmOn (withBpm td x) y = Spec.bpmOn td y := by
  rw [bpmOn_eq, head_withBpm td h x hpos, bpmOn_eq]
  show (insertBpm x (Spec.bpmOn td x) td.bpms).foldl (bstep y) _ = _
  rw [bpmOn_eq]
  exact foldl_insertBpm x y td.bpms _ _ (fun _ => rfl) h.bpms_sorted hnew

theorem tickTime_withBpm (td : TimingData) (h : Dom0 td) (x : Rat) (hpos : 0 < x)
    (hnew : ∀ e ∈ td.bpms, e.1 ≠ x) (k : Nat) :
    Spec.tickTime (withBpm td x) k = Spec.tickTime td k := by
  unfold Spec.tickTime
  simp only [inWarp_withBpm, bpmOn_withBpm td h x hpos hnew]

theorem tickSum_withBpm (td : TimingData) (h : Dom0 td) (x : Rat) (hpos : 0 < x)
    (hnew : ∀ e ∈ td.bpms, e.1 ≠ x) : ∀ k : Nat,
    Spec.tickSum (withBpm td x) k = Spec.tickSum td k
  | 0 => rfl
  | k + 1 => by
    show Spec.tickSum (withBpm td x) k + Spec.tickTime (withBpm td x) k = _
    rw [tickSum_withBpm td h x hpos hnew k, tickTime_withBpm td h x hpos hnew k]
    rfl

theorem timeSpec_withBpm (td : TimingData) (h : Dom0 td) (x : Rat) (hpos : 0 < x)
    (hnew : ∀ e ∈ td.bpms, e.1 ≠ x) (b : Rat) (g : Tag) :
    Spec.timeSpec (withBpm td x) b g = Spec.timeSpec td b g := by
  unfold Spec.timeSpec
  simp only [inWarp_withBpm, paused_withBpm, bpmOn_withBpm td h x hpos hnew,
    tickSum_withBpm td h x hpos hnew, head_withBpm td h x hpos]
  rfl


/-! ### any number of redundant rows -/

/-- `td` with the redundant rows at the beats `xs` inserted one after the other -/
def withBpms (td : TimingData) (xs : List Rat) : TimingData := xs.foldl withBpm td

theorem withBpms_cons (td : TimingData) (x : Rat) (xs : List Rat) :
    withBpms td (x :: xs) = withBpms (withBpm td x) xs := rfl

theorem insertBpm_perm (x v : Rat) : ∀ l : List (Rat × Rat), (insertBpm x v l).Perm ((x, v) :: l)
  | [] => List.Perm.refl _
  | a :: l => by
    unfold insertBpm
    split
    · exact List.Perm.refl _
    · exact ((insertBpm_perm x v l).cons a).trans (List.Perm.swap _ _ _)

theorem withBpms_fields (td : TimingData) (xs : List Rat) :
    (withBpms td xs).stops = td.stops ∧ (withBpms td xs).delays = td.delays ∧
    (withBpms td xs).warps = td.warps ∧ (withBpms td xs).offset = td.offset := by
  induction xs generalizing td with
  | nil => exact ⟨rfl, rfl, rfl, rfl⟩
  | cons x xs ih => rw [withBpms_cons]; exact ih (withBpm td x)

/-- the invariant of the repeated insertion -/
theorem withBpms_ok (xs : List Rat) : ∀ (td : TimingData), Dom0 td →
    (∀ x ∈ xs, onGrid x ∧ 0 < x ∧ ∀ e ∈ td.bpms, e.1 ≠ x) → xs.Nodup →
    Dom0 (withBpms td xs) ∧
    (∀ b g, Spec.timeSpec (withBpms td xs) b g = Spec.timeSpec td b g) ∧
    (∀ y, Spec.bpmOn (withBpms td xs) y = Spec.bpmOn td y) ∧
    (withBpms td xs).bpms.headD (0, 0) = td.bpms.headD (0, 0) ∧
    (withBpms td xs).bpms.Perm (td.bpms ++ xs.map fun x => (x, Spec.bpmOn td x)) := by
  induction xs with
  | nil =>
    intro td h _ _
    exact ⟨h, fun _ _ => rfl, fun _ => rfl, rfl, by simp [withBpms]⟩
  | cons x xs ih =>
    intro td h hx hnd
    obtain ⟨hxg, hxpos, hxnew⟩ := hx x List.mem_cons_self
    rw [List.nodup_cons] at hnd
    have h' := dom_withBpm td h x hxg hxpos hxnew
    have hrest : ∀ y ∈ xs, onGrid y ∧ 0 < y ∧ ∀ e ∈ (withBpm td x).bpms, e.1 ≠ y := by
      intro y hy
      obtain ⟨hyg, hypos, hynew⟩ := hx y (List.mem_cons_of_mem _ hy)
      refine ⟨hyg, hypos, ?_⟩
      intro e he
      rcases (mem_insertBpm _ _ e td.bpms).1 he with rfl | he
      · intro heq
        have heq' : x = y := heq
        exact hnd.1 (heq' ▸ hy)
      · exact hynew e he
    obtain ⟨i1, i2, i3, i4, i5⟩ := ih (withBpm td x) h' hrest hnd.2
    rw [withBpms_cons]
    refine ⟨i1, ?_, ?_, ?_, ?_⟩
    · intro b g; rw [i2, timeSpec_withBpm td h x hxpos hxnew]
    · intro y; rw [i3, bpmOn_withBpm td h x hxpos hxnew]
    · rw [i4, head_withBpm td h x hxpos]
    · have hm : (xs.map fun y => (y, Spec.bpmOn (withBpm td x) y)) =
          xs.map fun y => (y, Spec.bpmOn td y) := by
        apply List.map_congr_left
        intro y _
        rw [bpmOn_withBpm td h x hxpos hxnew]
      rw [hm] at i5
      refine i5.trans ?_
      have hp : (withBpm td x).bpms.Perm ((x, Spec.bpmOn td x) :: td.bpms) := insertBpm_perm _ _ _
      refine (hp.append_right _).trans ?_
      rw [List.map_cons]
      exact (List.perm_middle).symm

/-! ### which tags matter for the declarative time -/

theorem paused_tag (td : TimingData) (b : Rat) (g g' : Tag)
    (hdel : (∃ e ∈ td.delays, e.1 = b) → (Tag.val .delayEnd ≤ g.val ↔ Tag.val .delayEnd ≤ g'.val))
    (hst : (∃ e ∈ td.stops, e.1 = b) → (Tag.val .stopEnd ≤ g.val ↔ Tag.val .stopEnd ≤ g'.val)) :
    Spec.paused td b g = Spec.paused td b g' := by
  unfold Spec.paused
  congr 1
  · apply foldSum_congr (P := fun β => Spec.keyLE (β, .delayEnd) (b, g) = true)
      (Q := fun β => Spec.keyLE (β, .delayEnd) (b, g') = true)
    intro d hd
    rw [keyLE_iff, keyLE_iff, key_le, key_le]
    constructor
    · rintro (h | ⟨h1, h2⟩)
      · exact Or.inl h
      · exact Or.inr ⟨h1, (hdel ⟨d, hd, h1⟩).1 h2⟩
    · rintro (h | ⟨h1, h2⟩)
      · exact Or.inl h
      · exact Or.inr ⟨h1, (hdel ⟨d, hd, h1⟩).2 h2⟩
  · apply foldSum_congr (P := fun β => Spec.keyLE (β, .stopEnd) (b, g) = true)
      (Q := fun β => Spec.keyLE (β, .stopEnd) (b, g') = true)
    intro d hd
    rw [keyLE_iff, keyLE_iff, key_le, key_le]
    constructor
    · rintro (h | ⟨h1, h2⟩)
      · exact Or.inl h
      · exact Or.inr ⟨h1, (hst ⟨d, hd, h1⟩).1 h2⟩
    · rintro (h | ⟨h1, h2⟩)
      · exact Or.inl h
      · exact Or.inr ⟨h1, (hst ⟨d, hd, h1⟩).2 h2⟩

theorem timeSpec_tag (td : TimingData) (b : Rat) (g g' : Tag)
    (hdel : (∃ e ∈ td.delays, e.1 = b) → (Tag.val .delayEnd ≤ g.val ↔ Tag.val .delayEnd ≤ g'.val))
    (hst : (∃ e ∈ td.stops, e.1 = b) → (Tag.val .stopEnd ≤ g.val ↔ Tag.val .stopEnd ≤ g'.val)) :
    Spec.timeSpec td b g = Spec.timeSpec td b g' := by
  rw [timeSpec_eq, timeSpec_eq, paused_tag td b g g' hdel hst]

theorem stopEnd_le_iff (g : Tag) : Tag.val .stopEnd ≤ g.val ↔ g = .stopEnd := by
  cases g <;> simp

/-! ### zero-length pauses add nothing -/

theorem foldSum_congr0 {P Q : Rat → Prop} [DecidablePred P] [DecidablePred Q] :
    ∀ (l : List (Rat × Rat)) (a : Rat), (∀ d ∈ l, (P d.1 ↔ Q d.1) ∨ d.2 = 0) → foldSum P l a = foldSum Q l a := by
  intro l
  induction l with
  | nil => intro _ _; rfl
  | cons d l ih =>
    intro a h
    rw [foldSum_cons, foldSum_cons]
    have hd := h d List.mem_cons_self
    have : (if P d.1 then a + d.2 else a) = (if Q d.1 then a + d.2 else a) := by
      rcases hd with hd | hd
      · by_cases hp : P d.1
        · rw [if_pos hp, if_pos (hd.1 hp)]
        · rw [if_neg hp, if_neg (fun hq => hp (hd.2 hq))]
      · rw [hd]; simp
    rw [this]
    exact ih _ (fun d' hd' => h d' (List.mem_cons_of_mem _ hd'))

theorem row_unique' {l : List (Rat × Rat)} (hpw : (l.map (·.1)).Pairwise (· < ·)) {e : Rat × Rat} {b v : Rat}
    (he : e ∈ l) (hb : e.1 = b) (hm : (b, v) ∈ l) : e.2 = v := by
  subst hb
  exact row_unique hpw (show (e.1, e.2) ∈ l from he) hm

theorem timeSpec_zero_stop (td : TimingData) (b : Rat) (hu : ∀ e ∈ td.stops, e.1 = b → e.2 = 0) :
    Spec.timeSpec td b .stopEnd = Spec.timeSpec td b .stop := by
  rw [timeSpec_eq, timeSpec_eq, paused_eq_K, paused_eq_K]
  unfold pausedK
  have h1 : foldSum (fun β => key β .delayEnd ≤ key b .stopEnd) td.delays 0 =
      foldSum (fun β => key β .delayEnd ≤ key b .stop) td.delays 0 := by
    apply foldSum_congr
    intro d _
    rw [key_le, key_le]
    simp
  have h2 : foldSum (fun β => key β .stopEnd ≤ key b .stopEnd) td.stops 0 =
      foldSum (fun β => key β .stopEnd ≤ key b .stop) td.stops 0 := by
    apply foldSum_congr0
    intro d hd
    by_cases hb : d.1 = b
    · exact Or.inr (hu d hd hb)
    · left
      rw [key_le, key_le]
      simp [hb]
  rw [h1, h2]

theorem timeSpec_zero_delay (td : TimingData) (b : Rat) (hu : ∀ e ∈ td.delays, e.1 = b → e.2 = 0) :
    Spec.timeSpec td b .delayEnd = Spec.timeSpec td b .delay := by
  rw [timeSpec_eq, timeSpec_eq, paused_eq_K, paused_eq_K]
  unfold pausedK
  have h1 : foldSum (fun β => key β .delayEnd ≤ key b .delayEnd) td.delays 0 =
      foldSum (fun β => key β .delayEnd ≤ key b .delay) td.delays 0 := by
    apply foldSum_congr0
    intro d hd
    by_cases hb : d.1 = b
    · exact Or.inr (hu d hd hb)
    · left
      rw [key_le, key_le]
      simp [hb]
  have h2 : foldSum (fun β => key β .stopEnd ≤ key b .delayEnd) td.stops 0 =
      foldSum (fun β => key β .stopEnd ≤ key b .delay) td.stops 0 := by
    apply foldSum_congr
    intro d _
    rw [key_le, key_le]
    simp
  rw [h1, h2]

/-! ### a decidable sufficient test for `Dom0` -/

theorem onGrid_of_B {x : Rat} (h : onGridB x = true) : onGrid x := by
  have hden : (x * (ticks : Rat)).den = 1 := by simpa [onGridB] using h
  refine ⟨(x * (ticks : Rat)).num, ?_⟩
  have h1 : ((x * (ticks : Rat)).num : Rat) = x * (ticks : Rat) := Rat.coe_int_num_of_den_eq_one hden
  rw [h1, ticks_cast]
  ring

def rowsCheck (l : List (Rat × Rat)) : Bool :=
  decide ((l.map (·.1)).Pairwise (· < ·)) && l.all fun e => decide (0 ≤ e.1) && onGridB e.1

theorem rowsCheck_ok {l : List (Rat × Rat)} (h : rowsCheck l = true) :
    (l.map (·.1)).Pairwise (· < ·) ∧ ∀ e ∈ l, 0 ≤ e.1 ∧ onGrid e.1 := by
  simp only [rowsCheck, Bool.and_eq_true, decide_eq_true_eq, List.all_eq_true] at h
  exact ⟨h.1, fun e he => ⟨(h.2 e he).1, onGrid_of_B (h.2 e he).2⟩⟩

/-- a Boolean test that implies `Dom0` -/
def dom0Check (td : TimingData) : Bool :=
  decide (td.bpms ≠ []) && decide ((td.bpms.headD (0, 0)).1 = 0) &&
  (td.bpms.all fun e => decide (0 < e.2)) && rowsCheck td.bpms &&
  (td.stops.all fun e => decide (0 ≤ e.2)) && rowsCheck td.stops &&
  (td.delays.all fun e => decide (0 ≤ e.2)) && rowsCheck td.delays &&
  (td.warps.all fun e => decide (0 ≤ roundToTick e.2)) && rowsCheck td.warps

theorem dom0_of_check {td : TimingData} (h : dom0Check td = true) : Dom0 td := by
  simp only [dom0Check, Bool.and_eq_true, decide_eq_true_eq, List.all_eq_true] at h
  obtain ⟨⟨⟨⟨⟨⟨⟨⟨⟨h1, h2⟩, h3⟩, h4⟩, h5⟩, h6⟩, h7⟩, h8⟩, h9⟩, h10⟩ := h
  exact ⟨h1, h2, h3, (rowsCheck_ok h4).1, (rowsCheck_ok h4).2, h5, (rowsCheck_ok h6).1, (rowsCheck_ok h6).2,
    h7, (rowsCheck_ok h8).1, (rowsCheck_ok h8).2, h9, (rowsCheck_ok h10).1, (rowsCheck_ok h10).2⟩

end Simfile.Wide
