/-
Lexer followed by parser, `go`, and its one-step equations inside and outside a parameter.
-/
import Simfile.Lemmas.MsdLexFuel
namespace Simfile.MsdP

/-- the parser run on a lexer result -/
def run (strict : Bool) (r : Except LexErr (List Tok)) (st : PState) : Option Tokens :=
  match r with
  | .ok toks => some (parseToks strict toks st)
  | .error _ => none

/-- lexer (canonical fuel) then parser -/
def go (strict : Bool) (s : Str) (inside lastNl : Bool) (st : PState) : Option Tokens :=
  run strict (lexF s inside lastNl) st

theorem parse_eq_go (strict : Bool) (text : Str) :
    parse strict text = go strict text false false { comps := [], cur := none, out := [] } := by
  unfold parse go run lexF
  split <;> simp_all

theorem run_text_in (strict : Bool) (r) (s : Str) (comps : List Str) (c : Str) (out : List Param) :
    run strict (Except.map (Tok.text s :: ·) r) ⟨comps, some c, out⟩ = run strict r ⟨comps, some (c ++ s), out⟩ := by
  cases r <;> simp [run, Except.map, parseToks]

theorem run_escape_in (strict : Bool) (r) (d : Char) (comps : List Str) (c : Str) (out : List Param) :
    run strict (Except.map (Tok.escape d :: ·) r) ⟨comps, some c, out⟩ =
      run strict r ⟨comps, some (c ++ [d]), out⟩ := by
  cases r <;> simp [run, Except.map, parseToks]

theorem run_next_in (strict : Bool) (r) (comps : List Str) (c : Str) (out : List Param) :
    run strict (Except.map (Tok.next :: ·) r) ⟨comps, some c, out⟩ =
      run strict r ⟨comps ++ [c], some [], out⟩ := by
  cases r <;> simp [run, Except.map, parseToks]

theorem run_endp_in (strict : Bool) (r) (comps : List Str) (c : Str) (out : List Param) :
    run strict (Except.map (Tok.endp :: ·) r) ⟨comps, some c, out⟩ =
      run strict r ⟨[], none, out ++ [⟨comps ++ [c]⟩]⟩ := by
  cases r <;> simp [run, Except.map, parseToks, PState.complete]

theorem run_start_out (strict : Bool) (r) (comps : List Str) (out : List Param) :
    run strict (Except.map (Tok.start :: ·) r) ⟨comps, none, out⟩ =
      run strict r ⟨comps, some [], out⟩ := by
  cases r <;> simp [run, Except.map, parseToks, PState.complete]

theorem run_text_out (strict : Bool) (r) (s : Str) (hs : strayOk s = true) (comps : List Str) (out : List Param) :
    run strict (Except.map (Tok.text s :: ·) r) ⟨comps, none, out⟩ = run strict r ⟨comps, none, out⟩ := by
  cases r <;> simp [run, Except.map, parseToks, hs]

theorem go_nil_out (strict : Bool) (i l : Bool) (comps : List Str) (out : List Param) :
    go strict [] i l ⟨comps, none, out⟩ = some { params := out, strayError := false } := by
  simp [go, lexF_nil, run, parseToks, PState.complete]

/-- inside a parameter a plain character can be consumed on its own: the parser concatenates TEXT payloads, and
the flag after a run of plain characters only depends on its last character -/
theorem go_plain_in (strict : Bool) {c : Char} (hc : isPlain c = true) (cs : Str) (l : Bool)
    (comps : List Str) (x : Str) (out : List Param) :
    go strict (c :: cs) true l ⟨comps, some x, out⟩ = go strict cs true (isNl c) ⟨comps, some (x ++ [c]), out⟩ := by
  unfold go
  rw [lexF_plain hc, run_text_in]
  cases cs with
  | nil => simp [endsNl]
  | cons c' cs' =>
    by_cases hc' : isPlain c' = true
    · rw [lexF_plain hc', run_text_in]
      simp only [List.takeWhile_cons, List.dropWhile_cons, hc', if_true]
      simp [endsNl]
    · simp only [List.takeWhile_cons, List.dropWhile_cons, hc']
      simp [endsNl]

end Simfile.MsdP
