/-
More lemmas for C10 (round 2): `Spec.survivors` made explicit — the classified stream is the stream,
survivors is a sublist of it, equal to it unless an orphan policy is DROP.
-/
import Simfile.Lemmas.UngroupJoin
namespace Simfile.UngroupPos
open Simfile Simfile.Spec Simfile.Ungroup

theorem classifyAll_map_fst : ∀ (F B : List Note), (classifyAll B F).map (·.1) = F := by
  intro F
  induction F with
  | nil => intro B; rfl
  | cons n F ih => intro B; simp [classifyAll, ih]

/-- the classified stream, positionally: the note at each position with the class computed from the
notes before it (nearest first) and after it -/
theorem mem_classifyAll : ∀ (F B0 : List Note) (n : Note) (c : Cls),
    (n, c) ∈ classifyAll B0 F ↔ ∃ P A, F = P ++ n :: A ∧ c = classify (P.reverse ++ B0) n A := by
  intro F
  induction F with
  | nil => intro B0 n c; simp [classifyAll]
  | cons m F ih =>
    intro B0 n c
    simp only [classifyAll, List.mem_cons, Prod.mk.injEq, ih]
    constructor
    · rintro (⟨rfl, rfl⟩ | ⟨P, A, rfl, rfl⟩)
      · exact ⟨[], F, rfl, rfl⟩
      · exact ⟨m :: P, A, rfl, by simp⟩
    · rintro ⟨P, A, hF, hc⟩
      cases P with
      | nil =>
        simp only [List.nil_append, List.cons.injEq] at hF
        obtain ⟨rfl, rfl⟩ := hF
        exact Or.inl ⟨rfl, by simpa using hc⟩
      | cons p P =>
        simp only [List.cons_append, List.cons.injEq] at hF
        obtain ⟨rfl, rfl⟩ := hF
        exact Or.inr ⟨P, A, rfl, by simpa using hc⟩

theorem filterMap_eq_map_of {α β} (f : α → Option β) (g : α → β) : ∀ l : List α,
    (∀ x ∈ l, f x = some (g x)) → l.filterMap f = l.map g := by
  intro l
  induction l with
  | nil => intro _; rfl
  | cons a l ih =>
    intro h
    rw [List.filterMap_cons, h a (by simp), List.map_cons, ih (fun x hx => h x (by simp [hx]))]

theorem filterMap_sublist_map {α β} (f : α → Option β) (g : α → β) : ∀ l : List α,
    (∀ x ∈ l, f x = some (g x) ∨ f x = none) → (l.filterMap f).Sublist (l.map g) := by
  intro l
  induction l with
  | nil => intro _; exact List.Sublist.refl _
  | cons a l ih =>
    intro h
    have ih' := ih (fun x hx => h x (by simp [hx]))
    rw [List.filterMap_cons, List.map_cons]
    rcases h a (by simp) with h1 | h1 <;> rw [h1]
    · exact ih'.cons_cons _
    · exact ih'.cons _

/-- the orphan of this class is dropped by `group_notes` -/
def droppedCls (o : GOpts) (c : Cls) : Prop :=
  (c = .orphanHead ∧ o.orphanHead = .drop) ∨ (c = .orphanTail ∧ o.orphanTail = .drop)

theorem survF_cases (o : GOpts) (n : Note) (c : Cls) :
    (survF o (n, c) = some n ∧ ¬ droppedCls o c) ∨ (survF o (n, c) = none ∧ droppedCls o c) := by
  unfold droppedCls
  cases c <;> simp only [survF]
  · simp
  · by_cases h : o.orphanHead = .drop <;> simp [h]
  · simp
  · by_cases h : o.orphanTail = .drop <;> simp [h]
  · simp

theorem survivors_join_off (o : GOpts) (ns : List Note) (hj : o.join = false) :
    survivors o ns = ns.filter fun n => o.incl.contains n.ntype := by
  simp [survivors, hj]

theorem survivors_keep (o : GOpts) (ns : List Note) (hh : o.orphanHead ≠ .drop) (ht : o.orphanTail ≠ .drop) :
    survivors o ns = ns.filter fun n => o.incl.contains n.ntype := by
  cases hj : o.join with
  | false => exact survivors_join_off o ns hj
  | true =>
    rw [survivors_eq o ns hj, filterMap_eq_map_of (survF o) (·.1), classifyAll_map_fst]
    rintro ⟨n, c⟩ _
    rcases survF_cases o n c with ⟨h, _⟩ | ⟨_, h⟩
    · exact h
    · rcases h with ⟨_, h⟩ | ⟨_, h⟩
      · exact absurd h hh
      · exact absurd h ht

theorem survivors_sublist (o : GOpts) (ns : List Note) :
    (survivors o ns).Sublist (ns.filter fun n => o.incl.contains n.ntype) := by
  cases hj : o.join with
  | false => rw [survivors_join_off o ns hj]
  | true =>
    rw [survivors_eq o ns hj]
    have := filterMap_sublist_map (survF o) (·.1)
      (classifyAll [] (ns.filter fun n => o.incl.contains n.ntype)) (by
        rintro ⟨n, c⟩ _
        rcases survF_cases o n c with ⟨h, _⟩ | ⟨h, _⟩
        · exact Or.inl h
        · exact Or.inr h)
    rwa [classifyAll_map_fst] at this

theorem mem_survivors (o : GOpts) (ns : List Note) (hj : o.join = true) (n : Note) :
    n ∈ survivors o ns ↔
      ∃ P A, (ns.filter fun n => o.incl.contains n.ntype) = P ++ n :: A ∧
        ¬ droppedCls o (classify P.reverse n A) := by
  rw [survivors_eq o ns hj, List.mem_filterMap]
  constructor
  · rintro ⟨⟨m, c⟩, hm, hs⟩
    obtain ⟨P, A, hF, hc⟩ := (mem_classifyAll _ [] m c).mp hm
    rcases survF_cases o m c with ⟨h, hd⟩ | ⟨h, _⟩
    · rw [h] at hs
      cases hs
      exact ⟨P, A, hF, by simpa [hc] using hd⟩
    · rw [h] at hs; cases hs
  · rintro ⟨P, A, hF, hd⟩
    refine ⟨(n, classify P.reverse n A), (mem_classifyAll _ [] n _).mpr ⟨P, A, hF, by simp⟩, ?_⟩
    rcases survF_cases o n (classify P.reverse n A) with ⟨h, _⟩ | ⟨_, h⟩
    · exact h
    · exact absurd h hd

end Simfile.UngroupPos
