/-
The decoder on rendered charts: `extractKeysounds`, `notesOfLine`, `notesOfMeasure`, `decodeWith`,
`getColumns` applied to `Spec.render`.
-/
import Simfile.Lemmas.StrLemmas
import Simfile.Lemmas.NotesSpec
namespace Simfile
open Simfile

/-! ### character classes -/

theorem isNoteChar_mem {c : Char} (h : isNoteChar c = true) :
    c ∈ ['1', '2', '3', '4', 'A', 'F', 'K', 'L', 'M'] := by
  simp only [isNoteChar, T.noteTypes, List.any_cons, List.any_nil, Bool.or_false, Bool.or_eq_true,
    decide_eq_true_eq] at h
  simp only [List.mem_cons, List.not_mem_nil, or_false]
  rcases h with h | h | h | h | h | h | h | h | h <;> simp [← h]

/-- characters of a cell proper: a note character or '0' -/
def cellChar (c : Char) : Prop := isNoteChar c = true ∨ c = '0'

theorem cellChar_props {c : Char} (h : cellChar c) :
    pyIsSpace c = false ∧ pyIsLineBreak c = false ∧ c ≠ '[' ∧ c ≠ ']' ∧ c ≠ ',' ∧ c ≠ '&' := by
  rcases h with h | h
  · have := isNoteChar_mem h
    simp only [List.mem_cons, List.not_mem_nil, or_false] at this
    rcases this with rfl | rfl | rfl | rfl | rfl | rfl | rfl | rfl | rfl <;> decide
  · subst h; decide

theorem digit_props {c : Char} (h : c.isDigit = true) :
    pyIsSpace c = false ∧ pyIsLineBreak c = false ∧ c ≠ '[' ∧ c ≠ ']' ∧ c ≠ ',' ∧ c ≠ '&' := by
  simp only [Char.isDigit, Bool.and_eq_true, decide_eq_true_eq] at h
  have h1 : 48 ≤ c.toNat := by have := h.1; simpa [UInt32.le_iff_toNat_le] using this
  have h2 : c.toNat ≤ 57 := by have := h.2; simpa [UInt32.le_iff_toNat_le] using this
  refine ⟨?_, ?_, ?_, ?_, ?_, ?_⟩
  · simp only [pyIsSpace]; simp; omega
  · simp only [pyIsLineBreak]; simp; omega
  all_goals (rintro rfl; simp at h1 h2)

theorem space_props {c : Char} (h : pyIsSpace c = true) : c ≠ '[' ∧ c ≠ ']' ∧ c ≠ ',' ∧ c ≠ '&' := by
  refine ⟨?_, ?_, ?_, ?_⟩ <;> (rintro rfl; revert h; decide)

/-! ### `listSet` -/

theorem listSet_length {α} (l : List α) (i : Nat) (v : α) : (listSet l i v).length = l.length := by
  induction l generalizing i with
  | nil => rfl
  | cons x xs ih => cases i <;> simp [listSet, ih]

theorem listSet_append_cons {α} (pre : List α) (x : α) (xs : List α) (v : α) :
    listSet (pre ++ x :: xs) pre.length v = pre ++ v :: xs := by
  induction pre with
  | nil => rfl
  | cons y ys ih => simp [listSet, ih]

/-! ### `extractKeysounds` on a rendered row -/

namespace Spec

def cellsText (cells : List Cell) : Str := (cells.map cellStr).flatten

/-- the keysound list after reading the cells `cells` whose first column is `off` -/
def applyKs (ks : List (Option Nat)) (off : Nat) : List Cell → List (Option Nat)
  | [] => ks
  | c :: cs => applyKs (match c.ks with | some k => listSet ks off (some k) | none => ks) (off + 1) cs

theorem applyKs_length (ks : List (Option Nat)) (off : Nat) (cells : List Cell) :
    (applyKs ks off cells).length = ks.length := by
  induction cells generalizing ks off with
  | nil => rfl
  | cons c cs ih =>
    rw [applyKs, ih]
    cases c.ks <;> simp [listSet_length]

theorem applyKs_replicate (pre : List (Option Nat)) (k : Nat) (cells : List Cell) (h : cells.length ≤ k) :
    applyKs (pre ++ List.replicate k none) pre.length cells =
      pre ++ cells.map (·.ks) ++ List.replicate (k - cells.length) none := by
  induction cells generalizing pre k with
  | nil => simp [applyKs]
  | cons c cs ih =>
    obtain ⟨k', rfl⟩ : ∃ k', k = k' + 1 := ⟨k - 1, by simp at h; omega⟩
    have h' : cs.length ≤ k' := by simpa using h
    have key : (match c.ks with
        | some v => listSet (pre ++ List.replicate (k' + 1) none) pre.length (some v)
        | none => pre ++ List.replicate (k' + 1) none) = (pre ++ [c.ks]) ++ List.replicate k' none := by
      cases hc : c.ks with
      | none => simp [List.replicate_succ]
      | some v => simp [List.replicate_succ, listSet_append_cons]
    rw [applyKs, key]
    have := ih (pre ++ [c.ks]) k' h'
    simp only [List.length_append, List.length_cons, List.length_nil] at this
    rw [this]
    simp

theorem applyKs_full (cells : List Cell) :
    applyKs (List.replicate cells.length none) 0 cells = cells.map (·.ks) := by
  have := applyKs_replicate [] cells.length cells (Nat.le_refl _)
  simpa using this

theorem cellsText_cons (c : Cell) (cs : List Cell) : cellsText (c :: cs) = cellStr c ++ cellsText cs := rfl

theorem length_cellsText_ge (cells : List Cell) : cells.length ≤ (cellsText cells).length := by
  induction cells with
  | nil => simp [cellsText]
  | cons c cs ih =>
    rw [cellsText_cons]
    simp only [List.length_cons, List.length_append, cellStr]
    omega

theorem extractKeysounds_cells (record : Bool) (rest : List Cell) :
    ∀ (fuel : Nat) (done : Str) (ks : List (Option Nat)),
      rest.length ≤ fuel →
      (∀ c ∈ done, c ≠ '[' ∧ c ≠ ']') →
      (∀ cell ∈ rest, cell.ch ≠ '[' ∧ cell.ch ≠ ']') →
      (record = true → ks.length = done.length + rest.length) →
      extractKeysounds record fuel (done ++ cellsText rest) ks =
        .ok (done ++ rest.map (·.ch), applyKs ks done.length rest) := by
  induction rest with
  | nil =>
    intro fuel done ks _ hd _ _
    have hnot : '[' ∉ done := fun h => (hd _ h).1 rfl
    simp only [cellsText, List.map_nil, List.flatten_nil, List.append_nil, applyKs]
    cases fuel with
    | zero =>
      simp [extractKeysounds, hnot]
    | succ f => simp [extractKeysounds, findIdx_eq_none hnot]
  | cons c cs ih =>
    intro fuel done ks hf hd hr hk
    have hc := hr c (by simp)
    have hd' : ∀ x ∈ done ++ [c.ch], x ≠ '[' ∧ x ≠ ']' := by
      intro x hx
      rcases List.mem_append.mp hx with hx | hx
      · exact hd x hx
      · simp only [List.mem_singleton] at hx; subst hx; exact hc
    have hr' : ∀ cell ∈ cs, cell.ch ≠ '[' ∧ cell.ch ≠ ']' := fun x hx => hr x (by simp [hx])
    cases hks : c.ks with
    | none =>
      have e : done ++ cellsText (c :: cs) = (done ++ [c.ch]) ++ cellsText cs := by
        simp [cellsText_cons, cellStr, hks]
      rw [e, ih fuel (done ++ [c.ch]) ks (by simp at hf; omega) hd' hr'
        (by intro h; rw [hk h]; simp; omega)]
      simp [applyKs, hks]
    | some k =>
      obtain ⟨f, rfl⟩ : ∃ f, fuel = f + 1 := ⟨fuel - 1, by simp at hf; omega⟩
      have hdig : ∀ x ∈ natDigits k, x ≠ '[' ∧ x ≠ ']' := by
        intro x hx
        have := digit_props (isDigit_of_mem_natDigits hx)
        exact ⟨this.2.2.1, this.2.2.2.1⟩
      have e : done ++ cellsText (c :: cs) =
          (done ++ [c.ch]) ++ '[' :: (natDigits k ++ ']' :: cellsText cs) := by
        simp [cellsText_cons, cellStr, hks]
      have e2 : done ++ cellsText (c :: cs) =
          ((done ++ [c.ch]) ++ '[' :: natDigits k) ++ ']' :: cellsText cs := by
        simp [cellsText_cons, cellStr, hks]
      have hi : findIdx '[' (done ++ cellsText (c :: cs)) = some (done.length + 1) := by
        rw [e, findIdx_append (fun h => (hd' _ h).1 rfl)]; simp
      have hj : findIdx ']' (done ++ cellsText (c :: cs)) = some (done.length + 1 + 1 + (natDigits k).length) := by
        rw [e2, findIdx_append]
        · simp; omega
        · intro h
          rcases List.mem_append.mp h with h | h
          · exact (hd' _ h).2 rfl
          · rcases List.mem_cons.mp h with h | h
            · exact absurd h (by decide)
            · exact (hdig _ h).2 rfl
      have hmid : ((done ++ cellsText (c :: cs)).drop (done.length + 1 + 1)).take
          (done.length + 1 + 1 + (natDigits k).length - (done.length + 1 + 1)) = natDigits k := by
        rw [e]
        have : done.length + 1 + 1 = (done ++ [c.ch] ++ ['[']).length := by simp
        rw [show (done ++ [c.ch]) ++ '[' :: (natDigits k ++ ']' :: cellsText cs) =
          (done ++ [c.ch] ++ ['[']) ++ (natDigits k ++ ']' :: cellsText cs) by simp]
        rw [this, List.drop_left]
        simp
      have htake : (done ++ cellsText (c :: cs)).take (done.length + 1) = done ++ [c.ch] := by
        rw [e]
        have : done.length + 1 = (done ++ [c.ch]).length := by simp
        rw [this, List.take_left]
      have hdrop : (done ++ cellsText (c :: cs)).drop (done.length + 1 + 1 + (natDigits k).length + 1) =
          cellsText cs := by
        rw [e2]
        have : done.length + 1 + 1 + (natDigits k).length + 1 =
            ((done ++ [c.ch]) ++ '[' :: natDigits k ++ [']']).length := by simp; omega
        rw [show ((done ++ [c.ch]) ++ '[' :: natDigits k) ++ ']' :: cellsText cs =
          ((done ++ [c.ch]) ++ '[' :: natDigits k ++ [']']) ++ cellsText cs by simp]
        rw [this, List.drop_left]
      have hrec : (record && decide (ks.length ≤ done.length + 1 - 1)) = false := by
        cases record with
        | false => rfl
        | true =>
          have := hk rfl
          simp only [List.length_cons] at this
          simp; omega
      rw [extractKeysounds, hi, hj]
      simp only
      rw [if_neg (by omega), hmid, parseNat_natDigits]
      simp only
      rw [if_neg (by simp), hrec]
      simp only [Bool.false_eq_true, if_false]
      rw [htake, hdrop, Nat.add_sub_cancel]
      rw [ih f (done ++ [c.ch]) (listSet ks done.length (some k)) (by simp at hf; omega) hd' hr'
        (by intro h; rw [listSet_length, hk h]; simp; omega)]
      simp [applyKs, hks]

/-- reading the keysounds off a rendered row: bare cell characters and the list of keysounds -/
theorem extractKeysounds_row (cells : List Cell) (h : ∀ cell ∈ cells, cell.ch ≠ '[' ∧ cell.ch ≠ ']') :
    extractKeysounds true (cellsText cells).length (cellsText cells) (List.replicate cells.length none) =
      .ok (cells.map (·.ch), cells.map (·.ks)) := by
  have := extractKeysounds_cells true cells (cellsText cells).length [] (List.replicate cells.length none)
    (length_cellsText_ge cells) (by simp) h (by simp)
  simpa [applyKs_full] using this

theorem extractKeysounds_row_norecord (cells : List Cell) (h : ∀ cell ∈ cells, cell.ch ≠ '[' ∧ cell.ch ≠ ']') :
    ∃ ks, extractKeysounds false (cellsText cells).length (cellsText cells) [] =
      .ok (cells.map (·.ch), ks) := by
  have := extractKeysounds_cells false cells (cellsText cells).length [] []
    (length_cellsText_ge cells) (by simp) h (by simp)
  exact ⟨_, by simpa using this⟩

/-! ### one line -/

/-- a well-formed cell: '0' without keysound, or a note character -/
def WfCell (c : Cell) : Prop := (c.ch = '0' ∧ c.ks = none) ∨ (c.ch ≠ '0' ∧ isNoteChar c.ch = true)

theorem WfCell.cellChar {c : Cell} (h : WfCell c) : cellChar c.ch := by
  rcases h with h | h
  · exact Or.inr h.1
  · exact Or.inl h.2

/-- the note of cell `cell` in column `c` -/
def noteOfCell (p m sub l : Nat) (x : Nat × Cell) : Option Note :=
  if x.2.ch = '0' then none
  else some { beat := ((4 * m * sub + 4 * l : Nat) : Rat) / (sub : Rat), column := x.1, ntype := x.2.ch,
              player := p, keysound := x.2.ks }

theorem notesOfRow_eq (p m sub l : Nat) (r : DRow) :
    notesOfRow p m sub l r = (enumFrom 0 r.cells).filterMap (noteOfCell p m sub l) := rfl

theorem notesOfLine_go (cols p m sub l : Nat) (ksAll : List (Option Nat)) (cells : List Cell) :
    ∀ (off : Nat), (∀ c ∈ cells, WfCell c) → off + cells.length ≤ cols →
      (∀ j cell, cells[j]? = some cell → ksAll.getD (off + j) none = cell.ks) →
      notesOfLine.go cols p m sub l ksAll off (cells.map (·.ch)) =
        .ok ((enumFrom off cells).filterMap (noteOfCell p m sub l)) := by
  induction cells with
  | nil => intro off _ _ _; simp [notesOfLine.go]
  | cons c cs ih =>
    intro off hw hlen hks
    have ih' := ih (off + 1) (fun x hx => hw x (by simp [hx])) (by simp at hlen; omega)
      (fun j cell hj => by
        have := hks (j + 1) cell (by simpa using hj)
        rw [← this]; congr 1; omega)
    simp only [List.map_cons, enumFrom_cons, List.filterMap_cons]
    rw [notesOfLine.go]
    rcases hw c (by simp) with ⟨h0, _⟩ | ⟨h0, hn⟩
    · rw [if_pos h0, ih']; simp [noteOfCell, h0]
    · rw [if_neg h0]
      simp only [hn, Bool.not_true, Bool.false_eq_true, if_false]
      rw [if_neg (by simp at hlen; omega), ih']
      have hk := hks 0 c (by simp)
      simp only [Nat.add_zero] at hk
      have hb : m * 4 * sub + l * 4 = 4 * m * sub + 4 * l := by ring
      have hk' : ksAll[off]?.getD none = c.ks := by simpa [List.getD] using hk
      simp [noteOfCell, h0, bind, Except.bind, pure, Except.pure, hk', hb]

theorem cellStr_ne_nil (c : Cell) : cellStr c ≠ [] := by simp [cellStr]

theorem cellStr_head? (c : Cell) : (cellStr c).head? = some c.ch := by simp [cellStr]

theorem cellStr_getLast? (c : Cell) : (cellStr c).getLast? = some c.ch ∨ (cellStr c).getLast? = some ']' := by
  cases h : c.ks with
  | none => left; simp [cellStr, h]
  | some k =>
    right
    have : cellStr c = (c.ch :: '[' :: natDigits k) ++ [']'] := by simp [cellStr, h]
    rw [this, List.getLast?_append]; simp

theorem cellsText_ne_nil {cells : List Cell} (h : cells ≠ []) : cellsText cells ≠ [] := by
  cases cells with
  | nil => exact absurd rfl h
  | cons c cs => simp [cellsText_cons, cellStr]

theorem cellsText_append (a b : List Cell) : cellsText (a ++ b) = cellsText a ++ cellsText b := by
  simp [cellsText]

/-- a rendered row starts and ends with a non-white character -/
theorem cellsText_trimmed {cells : List Cell} (hw : ∀ c ∈ cells, WfCell c) : Trimmed (cellsText cells) := by
  constructor
  · cases cells with
    | nil => simp [cellsText]
    | cons c cs =>
      intro x hx
      rw [cellsText_cons, List.head?_append_of_ne_nil _ (cellStr_ne_nil c), cellStr_head?] at hx
      simp only [Option.mem_def, Option.some.injEq] at hx
      subst hx
      exact (cellChar_props (hw c (by simp)).cellChar).1
  · rcases List.eq_nil_or_concat cells with rfl | ⟨init, last, rfl⟩
    · simp [cellsText]
    · intro x hx
      rw [List.concat_eq_append] at hw
      rw [List.concat_eq_append, cellsText_append] at hx
      have e : cellsText [last] = cellStr last := by simp [cellsText]
      rw [e, List.getLast?_append_of_ne_nil _ (cellStr_ne_nil last)] at hx
      rcases cellStr_getLast? last with h | h <;> rw [h] at hx <;>
        simp only [Option.mem_def, Option.some.injEq] at hx <;> subst hx
      · exact (cellChar_props (hw last (by simp)).cellChar).1
      · decide

theorem notesOfLine_line (cols p m sub l : Nat) (r : DRow) (a b : Str)
    (ha : ∀ c ∈ a, pyIsSpace c = true) (hb : ∀ c ∈ b, pyIsSpace c = true)
    (hw : ∀ c ∈ r.cells, WfCell c) (hn : r.cells.length = cols) :
    notesOfLine cols p m sub l (a ++ cellsText r.cells ++ b) = .ok (notesOfRow p m sub l r) := by
  have hbr : ∀ cell ∈ r.cells, cell.ch ≠ '[' ∧ cell.ch ≠ ']' := fun cell hc =>
    let h := cellChar_props (hw cell hc).cellChar; ⟨h.2.2.1, h.2.2.2.1⟩
  unfold notesOfLine
  simp only
  rw [strip_sandwich ha hb (cellsText_trimmed hw), ← hn, extractKeysounds_row r.cells hbr]
  simp only [bind, Except.bind]
  rw [notesOfRow_eq]
  apply notesOfLine_go _ _ _ _ _ _ _ 0 hw (by omega)
  intro j cell hj
  simp [List.getD, hj]

/-! ### one measure -/

/-- characters inside a rendered row -/
def innerChar (x : Char) : Prop := cellChar x ∨ x = '[' ∨ x = ']' ∨ x.isDigit = true

theorem innerChar_props {x : Char} (h : innerChar x) :
    pyIsLineBreak x = false ∧ x ≠ ',' ∧ x ≠ '&' := by
  rcases h with h | rfl | rfl | h
  · have := cellChar_props h; exact ⟨this.2.1, this.2.2.2.2.1, this.2.2.2.2.2⟩
  · decide
  · decide
  · have := digit_props h; exact ⟨this.2.1, this.2.2.2.2.1, this.2.2.2.2.2⟩

theorem cellsText_chars {cells : List Cell} (hw : ∀ c ∈ cells, WfCell c) :
    ∀ x ∈ cellsText cells, innerChar x := by
  intro x hx
  simp only [cellsText, List.mem_flatten, List.mem_map] at hx
  obtain ⟨_, ⟨c, hc, rfl⟩, hx⟩ := hx
  have hcc := (hw c hc).cellChar
  simp only [cellStr, List.mem_append, List.mem_singleton] at hx
  rcases hx with rfl | hx
  · exact Or.inl hcc
  · cases hk : c.ks with
    | none => simp [hk] at hx
    | some k =>
      simp only [hk, List.mem_append, List.mem_singleton] at hx
      rcases hx with (rfl | hx) | rfl
      · exact Or.inr (Or.inl rfl)
      · exact Or.inr (Or.inr (Or.inr (isDigit_of_mem_natDigits hx)))
      · exact Or.inr (Or.inr (Or.inl rfl))

/-- inline blank: white but not a line break -/
def Inline (s : Str) : Prop := ∀ c ∈ s, pyIsSpace c = true ∧ pyIsLineBreak c = false

structure WfRowP (n : Nat) (r : DRow) : Prop where
  len : r.cells.length = n
  lead : Inline r.lead
  trail : Inline r.trail
  cells : ∀ c ∈ r.cells, WfCell c

theorem isEol_iff (s : Str) : isEol s = true ↔ IsEol s := by
  simp [isEol, IsEol]

theorem IsEol.space {e : Str} (h : IsEol e) : ∀ c ∈ e, pyIsSpace c = true := by
  rcases h with rfl | rfl <;> decide

theorem wfRow_iff (n : Nat) (last : Bool) (r : DRow) :
    wfRow n last r = true ↔ WfRowP n r ∧ (IsEol r.eol ∨ (last = true ∧ r.eol = [])) := by
  simp only [wfRow, Bool.and_eq_true, decide_eq_true_eq, List.all_eq_true, Bool.or_eq_true, isEol_iff,
    isInlineBlank, Bool.not_eq_true', ne_eq]
  constructor
  · rintro ⟨⟨⟨⟨h1, h2⟩, h3⟩, h4⟩, h5⟩
    refine ⟨⟨h1, h2, h3, ?_⟩, h4⟩
    intro c hc
    rcases h5 c hc with h | h
    · exact Or.inl h
    · exact Or.inr h
  · rintro ⟨⟨h1, h2, h3, h5⟩, h4⟩
    exact ⟨⟨⟨⟨h1, h2⟩, h3⟩, h4⟩, fun c hc => h5 c hc⟩

theorem renderRow_eq (r : DRow) : renderRow r = r.lead ++ cellsText r.cells ++ r.trail ++ r.eol := rfl

theorem Inline.space {s : Str} (h : Inline s) : ∀ c ∈ s, pyIsSpace c = true := fun c hc => (h c hc).1
theorem Inline.noLB {s : Str} (h : Inline s) : NoLB s := fun c hc => (h c hc).2

theorem cellsText_noLB {cells : List Cell} (hw : ∀ c ∈ cells, WfCell c) : NoLB (cellsText cells) :=
  fun x hx => (innerChar_props (cellsText_chars hw x hx)).1

theorem noLB_append {a b : Str} (ha : NoLB a) (hb : NoLB b) : NoLB (a ++ b) := by
  intro c hc
  rcases List.mem_append.mp hc with h | h
  · exact ha c h
  · exact hb c h

theorem getLast?_lead_cells {lead : Str} {cells : List Cell} (hne : cells ≠ [])
    (hw : ∀ c ∈ cells, WfCell c) : ∀ c ∈ (lead ++ cellsText cells).getLast?, pyIsSpace c = false := by
  rw [List.getLast?_append_of_ne_nil _ (cellsText_ne_nil hne)]
  exact (cellsText_trimmed hw).2

/-- the lines of a stripped measure, read row by row. `lead'` stands for the blanks before the first
row that `lstrip` has (partly) removed. -/
theorem go_rows (cols p m : Nat) (hpos : 0 < cols) (post : Str) (hpost : ∀ c ∈ post, pyIsSpace c = true) :
    ∀ (rs : List DRow) (r : DRow) (lead' : Str) (l : Nat), wfRows cols (r :: rs) = true → Inline lead' →
      rstrip (lead' ++ cellsText r.cells ++ r.trail ++ r.eol ++ ((rs.map renderRow).flatten ++ post)) ≠ [] ∧
      (splitLines (rstrip (lead' ++ cellsText r.cells ++ r.trail ++ r.eol ++
        ((rs.map renderRow).flatten ++ post)))).length = rs.length + 1 ∧
      ∀ sub, notesOfMeasure.go cols p m sub l (splitLines (rstrip (lead' ++ cellsText r.cells ++ r.trail ++
        r.eol ++ ((rs.map renderRow).flatten ++ post)))) =
        .ok (((enumFrom l (r :: rs)).map fun (x : Nat × DRow) => notesOfRow p m sub x.1 x.2).flatten) := by
  intro rs
  induction rs with
  | nil =>
    intro r lead' l hwf hlead
    simp only [wfRows, wfRow_iff] at hwf
    obtain ⟨hr, heol⟩ := hwf
    have hne : r.cells ≠ [] := by
      intro e; have := hr.len; rw [e] at this; simp at this; omega
    have hsp : ∀ c ∈ r.trail ++ r.eol ++ post, pyIsSpace c = true := by
      intro c hc
      simp only [List.mem_append] at hc
      rcases hc with (hc | hc) | hc
      · exact hr.trail.space c hc
      · rcases heol with he | ⟨_, he⟩
        · exact IsEol.space he c hc
        · rw [he] at hc; simp at hc
      · exact hpost c hc
    have e : lead' ++ cellsText r.cells ++ r.trail ++ r.eol ++ ((List.map renderRow []).flatten ++ post) =
        (lead' ++ cellsText r.cells) ++ (r.trail ++ r.eol ++ post) := by simp
    have hT : rstrip (lead' ++ cellsText r.cells ++ r.trail ++ r.eol ++
        ((List.map renderRow []).flatten ++ post)) = lead' ++ cellsText r.cells := by
      rw [e, rstrip_append_of_getLast (getLast?_lead_cells hne hr.cells), rstrip_all_space hsp]; simp
    have hTne : lead' ++ cellsText r.cells ≠ [] := by
      simp [cellsText_ne_nil hne]
    have hlines : splitLines (lead' ++ cellsText r.cells) = [lead' ++ cellsText r.cells] :=
      splitLines_noLB (noLB_append hlead.noLB (cellsText_noLB hr.cells)) hTne
    rw [hT, hlines]
    refine ⟨hTne, rfl, ?_⟩
    intro sub
    have := notesOfLine_line cols p m sub l r lead' [] hlead.space (by simp) hr.cells hr.len
    simp only [List.append_nil] at this
    simp [notesOfMeasure.go, this, bind, Except.bind, pure, Except.pure]
  | cons r₂ rs' ih =>
    intro r lead' l hwf hlead
    rw [wfRows, Bool.and_eq_true, wfRow_iff] at hwf
    · obtain ⟨⟨hr, heol⟩, hwf₂⟩ := hwf
      have heol' : IsEol r.eol := by
        rcases heol with h | ⟨h, _⟩
        · exact h
        · exact absurd h (by decide)
      have hne : r.cells ≠ [] := by
        intro e; have := hr.len; rw [e] at this; simp at this; omega
      have hlead₂ : Inline r₂.lead := by
        cases rs' with
        | nil => simp only [wfRows, wfRow_iff] at hwf₂; exact hwf₂.1.lead
        | cons r₃ rs'' =>
          rw [wfRows, Bool.and_eq_true, wfRow_iff] at hwf₂
          · exact hwf₂.1.1.lead
          · simp
      obtain ⟨ih1, ih2, ih3⟩ := ih r₂ r₂.lead (l + 1) hwf₂ hlead₂
      generalize hB : r₂.lead ++ cellsText r₂.cells ++ r₂.trail ++ r₂.eol ++
        ((rs'.map renderRow).flatten ++ post) = B at ih1 ih2 ih3
      have e : lead' ++ cellsText r.cells ++ r.trail ++ r.eol ++
          (((r₂ :: rs').map renderRow).flatten ++ post) =
          (lead' ++ cellsText r.cells) ++ ((r.trail ++ r.eol) ++ B) := by
        rw [← hB]; simp [renderRow_eq]
      have hT : rstrip (lead' ++ cellsText r.cells ++ r.trail ++ r.eol ++
          (((r₂ :: rs').map renderRow).flatten ++ post)) =
          (lead' ++ cellsText r.cells ++ r.trail) ++ r.eol ++ rstrip B := by
        rw [e, rstrip_append_of_getLast (getLast?_lead_cells hne hr.cells),
          rstrip_append_of_rstrip_ne_nil ih1]
        simp
      have hbody : NoLB (lead' ++ cellsText r.cells ++ r.trail) :=
        noLB_append (noLB_append hlead.noLB (cellsText_noLB hr.cells)) hr.trail.noLB
      rw [hT, splitLines_body_eol hbody heol']
      refine ⟨by simp [cellsText_ne_nil hne], by simp [ih2], ?_⟩
      intro sub
      have hline := notesOfLine_line cols p m sub l r lead' r.trail hlead.space hr.trail.space hr.cells hr.len
      rw [notesOfMeasure.go, hline, ih3 sub]
      simp [bind, Except.bind, pure, Except.pure]
    · simp

theorem wfRows_ne_nil {n : Nat} {rows : List DRow} (h : wfRows n rows = true) : rows ≠ [] := by
  rintro rfl; simp [wfRows] at h

theorem wfRows_head {n : Nat} {r : DRow} {rs : List DRow} (h : wfRows n (r :: rs) = true) :
    WfRowP n r ∧ (rs ≠ [] → IsEol r.eol) ∧ (IsEol r.eol ∨ r.eol = []) := by
  cases rs with
  | nil =>
    simp only [wfRows, wfRow_iff] at h
    refine ⟨h.1, fun h' => absurd rfl h', ?_⟩
    rcases h.2 with h | h
    · exact Or.inl h
    · exact Or.inr h.2
  | cons r₂ rs' =>
    rw [wfRows, Bool.and_eq_true, wfRow_iff] at h
    · have : IsEol r.eol := by
        rcases h.1.2 with h | ⟨h, _⟩
        · exact h
        · exact absurd h (by decide)
      exact ⟨h.1.1, fun _ => this, Or.inl this⟩
    · simp

theorem wfMeasure_iff (n : Nat) (me : DMeasure) : wfMeasure n me = true ↔
    (∀ c ∈ me.pre, pyIsSpace c = true) ∧ (∀ c ∈ me.post, pyIsSpace c = true) ∧ wfRows n me.rows = true := by
  simp [wfMeasure, and_assoc]

/-- the decoder reads a rendered, stripped measure as the notes it denotes -/
theorem notesOfMeasure_render (cols p m : Nat) (hpos : 0 < cols) (me : DMeasure)
    (h : wfMeasure cols me = true) :
    Simfile.notesOfMeasure cols p m (strip (renderMeasure me)) = .ok (Spec.notesOfMeasure p m me) := by
  rw [wfMeasure_iff] at h
  obtain ⟨hpre, hpost, hrows⟩ := h
  obtain ⟨r, rs, hrs⟩ : ∃ r rs, me.rows = r :: rs := by
    cases hm : me.rows with
    | nil => exact absurd hm (wfRows_ne_nil hrows)
    | cons r rs => exact ⟨r, rs, rfl⟩
  rw [hrs] at hrows
  obtain ⟨hr, _, _⟩ := wfRows_head hrows
  have hne : r.cells ≠ [] := by
    intro e; have := hr.len; rw [e] at this; simp at this; omega
  have e : renderMeasure me = (me.pre ++ r.lead) ++ (cellsText r.cells ++
      (r.trail ++ r.eol ++ ((rs.map renderRow).flatten ++ me.post))) := by
    simp [renderMeasure, hrs, renderRow_eq]
  have hws : ∀ c ∈ me.pre ++ r.lead, pyIsSpace c = true := by
    intro c hc
    rcases List.mem_append.mp hc with h | h
    · exact hpre c h
    · exact hr.lead.space c h
  have hstrip : strip (renderMeasure me) = rstrip ([] ++ cellsText r.cells ++ r.trail ++ r.eol ++
      ((rs.map renderRow).flatten ++ me.post)) := by
    rw [e, strip, lstrip_append_left hws,
      lstrip_append_of_head (cellsText_ne_nil hne) (cellsText_trimmed hr.cells).1]
    simp
  obtain ⟨_, g2, g3⟩ := go_rows cols p m hpos me.post hpost rs r [] 0 hrows (by intro c hc; simp at hc)
  rw [Simfile.notesOfMeasure, hstrip]
  rw [g2, g3]
  simp [Spec.notesOfMeasure, hrs]

/-! ### players and the whole text -/

theorem mapM_map_ok {α α' β ε} (f : α' → Except ε β) (h : α → α') (g : α → β) (l : List α)
    (hl : ∀ x ∈ l, f (h x) = .ok (g x)) : (l.map h).mapM f = .ok (l.map g) := by
  induction l with
  | nil => rfl
  | cons x xs ih =>
    rw [List.map_cons, List.mapM_cons, hl x (by simp), ih (fun y hy => hl y (by simp [hy]))]
    rfl

theorem enumFrom_map {α β} (f : α → β) (k : Nat) (l : List α) :
    enumFrom k (l.map f) = (enumFrom k l).map (fun x => (x.1, f x.2)) := by
  induction l generalizing k with
  | nil => rfl
  | cons x xs ih => simp [ih]

theorem mem_joinWith {sep : Str} {parts : List Str} {c : Char} (h : c ∈ joinWith sep parts) :
    c ∈ sep ∨ ∃ p ∈ parts, c ∈ p := by
  induction parts with
  | nil => simp at h
  | cons p rest ih =>
    cases rest with
    | nil => right; exact ⟨p, by simp, by simpa using h⟩
    | cons q r =>
      rw [joinWith_cons_cons] at h
      simp only [List.mem_append] at h
      rcases h with (h | h) | h
      · right; exact ⟨p, by simp, h⟩
      · left; exact h
      · rcases ih h with h | ⟨x, hx, hc⟩
        · left; exact h
        · right; exact ⟨x, by simp only [List.mem_cons] at hx ⊢; right; exact hx, hc⟩

/-- every character of a rendered row is white or an inner character -/
theorem renderRow_chars {n : Nat} {last : Bool} {r : DRow} (h : wfRow n last r = true) :
    ∀ x ∈ renderRow r, pyIsSpace x = true ∨ innerChar x := by
  rw [wfRow_iff] at h
  obtain ⟨hr, heol⟩ := h
  intro x hx
  simp only [renderRow_eq, List.mem_append] at hx
  rcases hx with ((hx | hx) | hx) | hx
  · exact Or.inl (hr.lead.space x hx)
  · exact Or.inr (cellsText_chars hr.cells x hx)
  · exact Or.inl (hr.trail.space x hx)
  · rcases heol with he | ⟨_, he⟩
    · exact Or.inl (IsEol.space he x hx)
    · rw [he] at hx; simp at hx

theorem wfRows_all {n : Nat} {rows : List DRow} (h : wfRows n rows = true) :
    ∀ r ∈ rows, ∃ last, wfRow n last r = true := by
  induction rows with
  | nil => simp
  | cons r rs ih =>
    cases rs with
    | nil =>
      intro x hx
      simp only [List.mem_singleton] at hx; subst hx
      exact ⟨true, by simpa [wfRows] using h⟩
    | cons r₂ rs' =>
      rw [wfRows, Bool.and_eq_true] at h
      · intro x hx
        rcases List.mem_cons.mp hx with rfl | hx
        · exact ⟨false, h.1⟩
        · exact ih h.2 x hx
      · simp

theorem renderMeasure_chars {n : Nat} {me : DMeasure} (h : wfMeasure n me = true) :
    ∀ x ∈ renderMeasure me, pyIsSpace x = true ∨ innerChar x := by
  rw [wfMeasure_iff] at h
  obtain ⟨hpre, hpost, hrows⟩ := h
  intro x hx
  simp only [renderMeasure, List.mem_append, List.mem_flatten, List.mem_map] at hx
  rcases hx with (hx | ⟨_, ⟨r, hr, rfl⟩, hx⟩) | hx
  · exact Or.inl (hpre x hx)
  · obtain ⟨last, hl⟩ := wfRows_all hrows r hr
    exact renderRow_chars hl x hx
  · exact Or.inl (hpost x hx)

theorem renderMeasure_no_sep {n : Nat} {me : DMeasure} (h : wfMeasure n me = true) :
    ',' ∉ renderMeasure me ∧ '&' ∉ renderMeasure me := by
  constructor <;> intro hx <;> rcases renderMeasure_chars h _ hx with h' | h'
  · exact (space_props h').2.2.1 rfl
  · exact (innerChar_props h').2.1 rfl
  · exact (space_props h').2.2.2 rfl
  · exact (innerChar_props h').2.2 rfl

theorem renderPlayer_no_amp {n : Nat} {ms : List DMeasure} (h : ∀ me ∈ ms, wfMeasure n me = true) :
    '&' ∉ renderPlayer ms := by
  intro hx
  rcases mem_joinWith hx with h' | ⟨p, hp, hc⟩
  · simp at h'
  · simp only [List.mem_map] at hp
    obtain ⟨me, hme, rfl⟩ := hp
    exact (renderMeasure_no_sep (h me hme)).2 hc

theorem WF_iff (c : DChart) : WF c = true ↔
    1 ≤ cols c ∧ c ≠ [] ∧ ∀ ms ∈ c, ms ≠ [] ∧ ∀ me ∈ ms, wfMeasure (cols c) me = true := by
  simp only [WF, Bool.and_eq_true, decide_eq_true_eq, List.all_eq_true, ge_iff_le, and_assoc]
  constructor
  · rintro ⟨h1, h2, h3⟩
    refine ⟨h1, ?_, fun ms hms => ⟨?_, (h3 ms hms).2⟩⟩
    · rintro rfl; simp at h2
    · have := (h3 ms hms).1; rintro rfl; simp at this
  · rintro ⟨h1, h2, h3⟩
    refine ⟨h1, ?_, fun ms hms => ⟨?_, (h3 ms hms).2⟩⟩
    · cases c with
      | nil => exact absurd rfl h2
      | cons x xs => simp
    · have := (h3 ms hms).1
      cases ms with
      | nil => exact absurd rfl this
      | cons x xs => simp

/-- one player's text -/
theorem decodePlayer_render (n p : Nat) (hpos : 0 < n) (ms : List DMeasure) (hne : ms ≠ [])
    (h : ∀ me ∈ ms, wfMeasure n me = true) :
    (enumFrom 0 (splitOn ',' (renderPlayer ms))).mapM (fun (x : Nat × Str) =>
        Simfile.notesOfMeasure n p x.1 (strip x.2)) =
      .ok ((enumFrom 0 ms).map fun (x : Nat × DMeasure) => Spec.notesOfMeasure p x.1 x.2) := by
  rw [renderPlayer, splitOn_joinWith (by simpa using hne), enumFrom_map]
  · apply mapM_map_ok
    intro x hx
    have := (mem_enumFrom.mp hx).2
    exact notesOfMeasure_render n p x.1 hpos x.2 (h x.2 (List.mem_of_getElem? this))
  · intro q hq
    simp only [List.mem_map] at hq
    obtain ⟨me, hme, rfl⟩ := hq
    exact (renderMeasure_no_sep (h me hme)).1

/-- `decodeWith` on a rendered well-formed chart, for the column count of the chart -/
theorem decodeWith_render (c : DChart) (h : WF c = true) :
    decodeWith (cols c) (render c) = .ok (notesOf c) := by
  rw [WF_iff] at h
  obtain ⟨hpos, hne, hall⟩ := h
  unfold decodeWith
  rw [render, splitOn_joinWith (by simpa using hne), enumFrom_map]
  · rw [mapM_map_ok _ _ (fun (x : Nat × List DMeasure) =>
      ((enumFrom 0 x.2).map fun (y : Nat × DMeasure) => Spec.notesOfMeasure x.1 y.1 y.2).flatten)]
    · rfl
    · intro x hx
      have hm := List.mem_of_getElem? (mem_enumFrom.mp hx).2
      obtain ⟨h1, h2⟩ := hall x.2 hm
      simp only
      rw [decodePlayer_render (cols c) x.1 hpos x.2 h1 h2]
      rfl
  · intro q hq
    simp only [List.mem_map] at hq
    obtain ⟨ms, hms, rfl⟩ := hq
    exact renderPlayer_no_amp (hall ms hms).2

/-! ### `getColumns` -/

/-- the part of the text `getColumns` looks at -/
def firstMeasure (notes : Str) : Str :=
  match findIdx ',' notes with
  | some (i + 1) => notes.take (i + 1)
  | _ => notes

def getColumnsOf (fm : Str) : Except NErr Nat :=
  match splitLines (strip fm) with
  | [] => .error .indexError
  | l :: _ =>
    match extractKeysounds false (strip l).length (strip l) [] with
    | .ok (line', _) => .ok line'.length
    | .error e => .error e

theorem getColumns_eq (notes : Str) : getColumns notes = getColumnsOf (firstMeasure notes) := rfl

/-- `getColumns` on a text that starts (after blanks) with a rendered row, followed by blanks `W`
and then anything `Z`, provided the first line ends before the non-blank part of `Z` -/
theorem getColumns_core (ws : Str) (cells : List Cell) (W Z : Str)
    (hws : ∀ c ∈ ws, pyIsSpace c = true) (hne : cells ≠ []) (hw : ∀ c ∈ cells, WfCell c)
    (hW : ∀ c ∈ W, pyIsSpace c = true)
    (hZ : Z.takeWhile (fun d => d != ',') = [] ∨ ∃ x ∈ W, pyIsLineBreak x = true) :
    getColumns (ws ++ cellsText cells ++ W ++ Z) = .ok cells.length := by
  have hct := cellsText_trimmed hw
  have hcne := cellsText_ne_nil hne
  -- the first measure
  have hA : ∀ a ∈ ws ++ cellsText cells ++ W, (a != ',') = true := by
    intro a ha
    simp only [List.mem_append] at ha
    simp only [bne_iff_ne, ne_eq]
    rcases ha with (ha | ha) | ha
    · exact (space_props (hws a ha)).2.2.1
    · exact (innerChar_props (cellsText_chars hw a ha)).2.1
    · exact (space_props (hW a ha)).2.2.1
  have hfm : firstMeasure (ws ++ cellsText cells ++ W ++ Z) =
      ws ++ cellsText cells ++ W ++ Z.takeWhile (fun d => d != ',') := by
    unfold firstMeasure
    have h1 := findIdx_takeWhile ',' (ws ++ cellsText cells ++ W ++ Z)
    rw [List.takeWhile_append_of_pos hA] at h1
    rw [← h1]
    cases hf : findIdx ',' (ws ++ cellsText cells ++ W ++ Z) with
    | none => rfl
    | some i =>
      cases i with
      | succ j => rfl
      | zero =>
        exfalso
        have := (findIdx_eq_some hf).2
        obtain ⟨x, xs, hx⟩ : ∃ x xs, cellsText cells = x :: xs := by
          cases hc : cellsText cells with
          | nil => exact absurd hc hcne
          | cons x xs => exact ⟨x, xs, rfl⟩
        have hmem : (',' : Char) ∈ ws ++ cellsText cells ++ W := by
          cases ws with
          | nil =>
            rw [hx] at this ⊢
            simp only [List.nil_append, List.cons_append, List.getElem?_cons_zero, Option.some.injEq] at this
            simp [this]
          | cons y ys =>
            simp only [List.cons_append, List.getElem?_cons_zero, Option.some.injEq] at this
            simp [this]
        have := hA _ hmem
        simp at this
  rw [getColumns_eq, hfm]
  unfold getColumnsOf
  generalize Z.takeWhile (fun d => d != ',') = Z' at hZ
  have e : ws ++ cellsText cells ++ W ++ Z' = ws ++ cellsText cells ++ (W ++ Z') := by simp
  rw [e, strip_prefix_block hws hcne hct]
  obtain ⟨sp, hsp, _⟩ := rstrip_decomp (W ++ Z')
  have hZ' : Z' = [] ∨ ∃ x ∈ W, (fun c => !pyIsLineBreak c) x = false := by
    rcases hZ with h | ⟨x, hx, hlb⟩
    · exact Or.inl h
    · exact Or.inr ⟨x, hx, by simp [hlb]⟩
  have hS : ∀ c ∈ (rstrip (W ++ Z')).takeWhile (fun c => !pyIsLineBreak c), pyIsSpace c = true :=
    fun c hc => hW c (mem_takeWhile_of_prefix hZ' hsp.symm c hc)
  have hhead := head?_splitLines (cellsText cells ++ rstrip (W ++ Z'))
  rw [if_neg (by simp [hcne])] at hhead
  have hnolb : ∀ a ∈ cellsText cells, (fun c => !pyIsLineBreak c) a = true := by
    intro a ha; simp [(cellsText_noLB hw) a ha]
  rw [List.takeWhile_append_of_pos hnolb] at hhead
  generalize (rstrip (W ++ Z')).takeWhile (fun c => !pyIsLineBreak c) = S at hS hhead
  cases hl : splitLines (cellsText cells ++ rstrip (W ++ Z')) with
  | nil => rw [hl] at hhead; simp at hhead
  | cons line rest =>
    rw [hl] at hhead
    simp only [List.head?_cons, Option.some.injEq] at hhead
    subst hhead
    simp only
    have hstrip : strip (cellsText cells ++ S) = cellsText cells := by
      have := strip_sandwich (ws₁ := []) (by simp) hS hct
      simpa using this
    rw [hstrip]
    have hbr : ∀ cell ∈ cells, cell.ch ≠ '[' ∧ cell.ch ≠ ']' := fun cell hc =>
      let h := cellChar_props (hw cell hc).cellChar; ⟨h.2.2.1, h.2.2.2.1⟩
    obtain ⟨ks, hks⟩ := extractKeysounds_row_norecord cells hbr
    rw [hks]
    simp

/-- extra condition needed by `getColumns`: it cuts the first measure at the first ',' only, so when
the first player consists of a single measure with a single row that is not terminated by a line
break (neither in `eol` nor in `post`) and another player follows, the first line would run through
the '&'. -/
def _root_.Simfile.C07.firstLineOk : DChart → Bool
  | [me] :: _ :: _ =>
    (match me.rows with
     | [r] => !(r.eol = ([] : Str)) || me.post.any pyIsLineBreak
     | _ => true)
  | _ => true

theorem joinWith_cons_decomp (sep : Char) (p : Str) (rest : List Str) :
    ∃ Z, joinWith [sep] (p :: rest) = p ++ Z ∧ (rest = [] → Z = []) ∧ (rest ≠ [] → ∃ t, Z = sep :: t) := by
  cases rest with
  | nil => exact ⟨[], by simp, fun _ => rfl, fun h => absurd rfl h⟩
  | cons q r =>
    refine ⟨sep :: joinWith [sep] (q :: r), ?_, fun h => absurd h (by simp), fun _ => ⟨_, rfl⟩⟩
    rw [joinWith_cons_cons]; simp

theorem getColumns_render (c : DChart) (h : WF c = true) (hf : C07.firstLineOk c = true) :
    getColumns (render c) = .ok (cols c) := by
  rw [WF_iff] at h
  obtain ⟨hpos, hne, hall⟩ := h
  obtain ⟨pl, ps', rfl⟩ : ∃ pl ps', c = pl :: ps' := by
    cases c with
    | nil => exact absurd rfl hne
    | cons a b => exact ⟨a, b, rfl⟩
  obtain ⟨hplne, hpl⟩ := hall pl (by simp)
  obtain ⟨me, ms', rfl⟩ : ∃ me ms', pl = me :: ms' := by
    cases pl with
    | nil => exact absurd rfl hplne
    | cons a b => exact ⟨a, b, rfl⟩
  have hme := hpl me (by simp)
  rw [wfMeasure_iff] at hme
  obtain ⟨hpre, hpost, hrows⟩ := hme
  obtain ⟨r, rs, hrs⟩ : ∃ r rs, me.rows = r :: rs := by
    cases hm : me.rows with
    | nil => exact absurd hm (wfRows_ne_nil hrows)
    | cons r rs => exact ⟨r, rs, rfl⟩
  have hcols : cols ((me :: ms') :: ps') = r.cells.length := by simp [cols, hrs]
  rw [hrs] at hrows
  obtain ⟨hr, heol1, heol2⟩ := wfRows_head hrows
  rw [hcols] at hr hpos ⊢
  have hcne : r.cells ≠ [] := by intro e; rw [e] at hpos; simp at hpos
  obtain ⟨Zc, hZc, hZc1, _⟩ := joinWith_cons_decomp '&' (renderPlayer (me :: ms')) (ps'.map renderPlayer)
  obtain ⟨Zp, hZp, hZp1, hZp2⟩ := joinWith_cons_decomp ',' (renderMeasure me) (ms'.map renderMeasure)
  have hws : ∀ c ∈ me.pre ++ r.lead, pyIsSpace c = true := by
    intro c hc
    rcases List.mem_append.mp hc with h | h
    · exact hpre c h
    · exact hr.lead.space c h
  have hrender : render ((me :: ms') :: ps') = renderMeasure me ++ Zp ++ Zc := by
    rw [render, List.map_cons, hZc, renderPlayer, List.map_cons, hZp]
  rcases heol2 with he | he
  · -- the first row ends with a line break
    have e : render ((me :: ms') :: ps') = (me.pre ++ r.lead) ++ cellsText r.cells ++ (r.trail ++ r.eol) ++
        ((rs.map renderRow).flatten ++ me.post ++ Zp ++ Zc) := by
      rw [hrender]; simp [renderMeasure, hrs, renderRow_eq]
    rw [e]
    apply getColumns_core _ _ _ _ hws hcne hr.cells
    · intro c hc
      rcases List.mem_append.mp hc with h | h
      · exact hr.trail.space c h
      · exact IsEol.space he c h
    · right
      refine ⟨'\n', ?_, by decide⟩
      rcases he with he | he <;> simp [he]
  · -- a single row without line end
    have hrs' : rs = [] := by
      by_contra hne'
      have := heol1 hne'
      rw [he] at this
      rcases this with h | h <;> simp at h
    subst hrs'
    have e : render ((me :: ms') :: ps') = (me.pre ++ r.lead) ++ cellsText r.cells ++ (r.trail ++ me.post) ++
        (Zp ++ Zc) := by
      rw [hrender]; simp [renderMeasure, hrs, renderRow_eq, he]
    rw [e]
    apply getColumns_core _ _ _ _ hws hcne hr.cells
    · intro c hc
      rcases List.mem_append.mp hc with h | h
      · exact hr.trail.space c h
      · exact hpost c h
    · cases ms' with
      | cons m₂ ms'' =>
        obtain ⟨t, ht⟩ := hZp2 (by simp)
        left; rw [ht]; simp
      | nil =>
        have hZp0 := hZp1 rfl
        cases ps' with
        | nil =>
          left; rw [hZp0, hZc1 rfl]; simp
        | cons p₂ ps'' =>
          right
          simp only [C07.firstLineOk, hrs, he, decide_true, Bool.not_true, Bool.false_or, List.any_eq_true] at hf
          obtain ⟨x, hx, hlb⟩ := hf
          exact ⟨x, by simp [hx], hlb⟩

/-- the main theorem: the decoder reads a rendered well-formed chart as its columns and notes -/
theorem decode_render (c : DChart) (h : WF c = true) (hf : C07.firstLineOk c = true) :
    decode (render c) = .ok (cols c, notesOf c) := by
  unfold decode
  rw [getColumns_render c h hf]
  simp only [bind, Except.bind]
  rw [decodeWith_render c h]
  rfl

end Spec

end Simfile
