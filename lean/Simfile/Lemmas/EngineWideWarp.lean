/-
C11 under the wider domain, part 2: `coalesceWarps` on warps whose rounded length may be zero — the
segments are chronological, disjoint (not even touching), possibly empty (`s.1 ≤ s.2`), and their union
is the union of the warp intervals. Same fold invariant as Simfile/Lemmas/EngineWarp.lean with `≤`.
-/
import Simfile.Lemmas.EngineWarp
namespace Simfile.Wide
open Simfile

/-- what one step preserves and adds -/
structure StepOK (acc : List (Rat × Rat)) (p : Rat × Rat) (r : List (Rat × Rat)) : Prop where
  pw : r.Pairwise (fun a b => b.2 < a.1)
  ne : ∀ s ∈ r, s.1 ≤ s.2
  le : ∀ s ∈ r, s.1 ≤ p.1
  cov : ∀ x : Rat, (∃ s ∈ r, s.1 ≤ x ∧ x < s.2) ↔ (∃ s ∈ acc, s.1 ≤ x ∧ x < s.2) ∨ (p.1 ≤ x ∧ x < p.2)
  prov : ∀ s ∈ r, (s.1 = p.1 ∨ ∃ a ∈ acc, s.1 = a.1) ∧ (s.2 = p.2 ∨ ∃ a ∈ acc, s.2 = a.2)

theorem stepOK_nil (p : Rat × Rat) (hp : p.1 ≤ p.2) : StepOK [] p [p] where
  pw := List.pairwise_singleton _ _
  ne := by intro s hs; rw [List.mem_singleton] at hs; subst hs; exact hp
  le := by intro s hs; rw [List.mem_singleton] at hs; subst hs; exact le_refl _
  cov := by intro x; simp
  prov := by intro s hs; rw [List.mem_singleton] at hs; subst hs; exact ⟨Or.inl rfl, Or.inl rfl⟩

theorem stepOK_merge {ls le : Rat} {tl : List (Rat × Rat)} {p : Rat × Rat}
    (hpw : ((ls, le) :: tl).Pairwise (fun a b => b.2 < a.1))
    (hne : ∀ s ∈ (ls, le) :: tl, s.1 ≤ s.2)
    (hlt : ∀ s ∈ (ls, le) :: tl, s.1 < p.1)
    (h1 : p.1 ≤ le) (h2 : le < p.2) : StepOK ((ls, le) :: tl) p ((ls, p.2) :: tl) := by
  rw [List.pairwise_cons] at hpw
  rw [List.forall_mem_cons] at hne hlt
  obtain ⟨hhd, htl⟩ := hpw
  obtain ⟨hls, hne'⟩ := hne
  obtain ⟨hlsp, hlt'⟩ := hlt
  simp only at hls hlsp
  refine ⟨List.pairwise_cons.2 ⟨hhd, htl⟩, ?_, ?_, ?_, ?_⟩
  · rw [List.forall_mem_cons]
    exact ⟨by simp only; linarith, hne'⟩
  · rw [List.forall_mem_cons]
    exact ⟨le_of_lt hlsp, fun s hs => le_of_lt (hlt' s hs)⟩
  · intro x
    rw [covers_cons, covers_cons]
    simp only
    constructor
    · rintro (⟨ha, hb⟩ | hc)
      · rcases lt_or_ge x le with hx | hx
        · exact Or.inl (Or.inl ⟨ha, hx⟩)
        · exact Or.inr ⟨le_trans h1 hx, hb⟩
      · exact Or.inl (Or.inr hc)
    · rintro ((⟨ha, hb⟩ | hc) | ⟨ha, hb⟩)
      · exact Or.inl ⟨ha, lt_trans hb h2⟩
      · exact Or.inr hc
      · exact Or.inl ⟨le_trans (le_of_lt hlsp) ha, hb⟩
  · rw [List.forall_mem_cons]
    refine ⟨⟨Or.inr ⟨(ls, le), List.mem_cons_self, rfl⟩, Or.inl rfl⟩, ?_⟩
    intro s hs
    exact ⟨Or.inr ⟨s, List.mem_cons_of_mem _ hs, rfl⟩, Or.inr ⟨s, List.mem_cons_of_mem _ hs, rfl⟩⟩

theorem stepOK_skip {ls le : Rat} {tl : List (Rat × Rat)} {p : Rat × Rat}
    (hpw : ((ls, le) :: tl).Pairwise (fun a b => b.2 < a.1))
    (hne : ∀ s ∈ (ls, le) :: tl, s.1 ≤ s.2)
    (hlt : ∀ s ∈ (ls, le) :: tl, s.1 < p.1)
    (_h1 : p.1 ≤ le) (h2 : ¬ le < p.2) : StepOK ((ls, le) :: tl) p ((ls, le) :: tl) := by
  have h2' : p.2 ≤ le := not_lt.1 h2
  have hlsp : ls < p.1 := hlt _ List.mem_cons_self
  refine ⟨hpw, hne, fun s hs => le_of_lt (hlt s hs), ?_, ?_⟩
  · intro x
    constructor
    · exact Or.inl
    · rintro (h | ⟨ha, hb⟩)
      · exact h
      · exact ⟨(ls, le), List.mem_cons_self, le_trans (le_of_lt hlsp) ha, lt_of_lt_of_le hb h2'⟩
  · intro s hs
    exact ⟨Or.inr ⟨s, hs, rfl⟩, Or.inr ⟨s, hs, rfl⟩⟩

theorem stepOK_push {ls le : Rat} {tl : List (Rat × Rat)} {p : Rat × Rat}
    (hpw : ((ls, le) :: tl).Pairwise (fun a b => b.2 < a.1))
    (hne : ∀ s ∈ (ls, le) :: tl, s.1 ≤ s.2)
    (hlt : ∀ s ∈ (ls, le) :: tl, s.1 < p.1)
    (hp : p.1 ≤ p.2)
    (h1 : ¬ p.1 ≤ le) : StepOK ((ls, le) :: tl) p (p :: (ls, le) :: tl) := by
  have h1' : le < p.1 := not_le.1 h1
  have hhd : ∀ b ∈ tl, b.2 < ls := (List.pairwise_cons.1 hpw).1
  have hls : ls ≤ le := hne _ List.mem_cons_self
  refine ⟨List.pairwise_cons.2 ⟨?_, hpw⟩, ?_, ?_, ?_, ?_⟩
  · rw [List.forall_mem_cons]
    refine ⟨h1', fun b hb => ?_⟩
    have := hhd b hb
    linarith
  · rw [List.forall_mem_cons]
    exact ⟨hp, hne⟩
  · rw [List.forall_mem_cons]
    exact ⟨le_refl _, fun s hs => le_of_lt (hlt s hs)⟩
  · intro x
    rw [covers_cons]
    exact Or.comm
  · rw [List.forall_mem_cons]
    refine ⟨⟨Or.inl rfl, Or.inl rfl⟩, fun s hs => ?_⟩
    exact ⟨Or.inr ⟨s, hs, rfl⟩, Or.inr ⟨s, hs, rfl⟩⟩

theorem coStepP_ok (acc : List (Rat × Rat)) (p : Rat × Rat)
    (hpw : acc.Pairwise (fun a b => b.2 < a.1))
    (hne : ∀ s ∈ acc, s.1 ≤ s.2)
    (hlt : ∀ s ∈ acc, s.1 < p.1)
    (hp : p.1 ≤ p.2) : StepOK acc p (coStepP acc p) := by
  cases acc with
  | nil => exact stepOK_nil p hp
  | cons a tl =>
    obtain ⟨ls, le⟩ := a
    by_cases h1 : p.1 ≤ le
    · by_cases h2 : le < p.2
      · rw [coStepP_merge h1 h2]; exact stepOK_merge hpw hne hlt h1 h2
      · rw [coStepP_skip h1 h2]; exact stepOK_skip hpw hne hlt h1 h2
    · rw [coStepP_push h1]; exact stepOK_push hpw hne hlt hp h1

/-- the invariant of the whole fold -/
structure FoldOK (acc ws r : List (Rat × Rat)) : Prop where
  pw : r.Pairwise (fun a b => b.2 < a.1)
  ne : ∀ s ∈ r, s.1 ≤ s.2
  cov : ∀ x : Rat, (∃ s ∈ r, s.1 ≤ x ∧ x < s.2) ↔
    (∃ s ∈ acc, s.1 ≤ x ∧ x < s.2) ∨ (∃ w ∈ ws, w.1 ≤ x ∧ x < w.1 + roundToTick w.2)
  prov : ∀ s ∈ r, ((∃ a ∈ acc, s.1 = a.1) ∨ (∃ w ∈ ws, s.1 = w.1)) ∧
    ((∃ a ∈ acc, s.2 = a.2) ∨ (∃ w ∈ ws, s.2 = w.1 + roundToTick w.2))

theorem foldl_coStep_ok (ws : List (Rat × Rat)) : ∀ acc : List (Rat × Rat),
    acc.Pairwise (fun a b => b.2 < a.1) →
    (∀ s ∈ acc, s.1 ≤ s.2) →
    (∀ s ∈ acc, ∀ w ∈ ws, s.1 < w.1) →
    (∀ w ∈ ws, 0 ≤ roundToTick w.2) →
    (ws.map (·.1)).Pairwise (· < ·) →
    FoldOK acc ws (ws.foldl coStep acc) := by
  induction ws with
  | nil =>
    intro acc hpw hne _ _ _
    exact ⟨hpw, hne, fun x => by simp, fun s hs => ⟨Or.inl ⟨s, hs, rfl⟩, Or.inl ⟨s, hs, rfl⟩⟩⟩
  | cons w ws ih =>
    intro acc hpw hne hlt hpos hsorted
    rw [List.map_cons, List.pairwise_cons] at hsorted
    obtain ⟨hw, hsorted'⟩ := hsorted
    have hwpos : 0 ≤ roundToTick w.2 := hpos w List.mem_cons_self
    have hp : (wIv w).1 ≤ (wIv w).2 := by simp only [wIv]; linarith
    have st := coStepP_ok acc (wIv w) hpw hne (fun s hs => hlt s hs w List.mem_cons_self) hp
    have hlt2 : ∀ s ∈ coStep acc w, ∀ w' ∈ ws, s.1 < w'.1 := by
      intro s hs w' hw'
      have h1 : s.1 ≤ w.1 := st.le s hs
      have h2 : w.1 < w'.1 := hw w'.1 (List.mem_map_of_mem hw')
      exact lt_of_le_of_lt h1 h2
    have r := ih (coStep acc w) st.pw st.ne hlt2 (fun w' hw' => hpos w' (List.mem_cons_of_mem _ hw')) hsorted'
    rw [List.foldl_cons]
    refine ⟨r.pw, r.ne, ?_, ?_⟩
    · intro x
      have h2 : (∃ s ∈ coStep acc w, s.1 ≤ x ∧ x < s.2) ↔
          (∃ s ∈ acc, s.1 ≤ x ∧ x < s.2) ∨ (w.1 ≤ x ∧ x < w.1 + roundToTick w.2) := st.cov x
      rw [r.cov x, h2, covers_cons' w ws x]
      exact or_assoc
    · intro s hs
      obtain ⟨p1, p2⟩ := r.prov s hs
      constructor
      · rcases p1 with ⟨a, ha, e⟩ | ⟨w', hw', e⟩
        · rcases (st.prov a ha).1 with e' | ⟨b, hb, e'⟩
          · exact Or.inr ⟨w, List.mem_cons_self, e.trans e'⟩
          · exact Or.inl ⟨b, hb, e.trans e'⟩
        · exact Or.inr ⟨w', List.mem_cons_of_mem _ hw', e⟩
      · rcases p2 with ⟨a, ha, e⟩ | ⟨w', hw', e⟩
        · rcases (st.prov a ha).2 with e' | ⟨b, hb, e'⟩
          · exact Or.inr ⟨w, List.mem_cons_self, e.trans e'⟩
          · exact Or.inl ⟨b, hb, e.trans e'⟩
        · exact Or.inr ⟨w', List.mem_cons_of_mem _ hw', e⟩

theorem segs_spec (ws : List (Rat × Rat)) (hpos : ∀ w ∈ ws, 0 ≤ roundToTick w.2)
    (hsorted : (ws.map (·.1)).Pairwise (· < ·)) :
    (segs ws).Pairwise (fun a b => a.2 < b.1) ∧
    (∀ s ∈ segs ws, s.1 ≤ s.2) ∧
    (∀ x : Rat, (∃ s ∈ segs ws, s.1 ≤ x ∧ x < s.2) ↔ (∃ w ∈ ws, w.1 ≤ x ∧ x < w.1 + roundToTick w.2)) ∧
    (∀ s ∈ segs ws, (∃ w ∈ ws, s.1 = w.1) ∧ (∃ w ∈ ws, s.2 = w.1 + roundToTick w.2)) := by
  have r := foldl_coStep_ok ws [] List.Pairwise.nil (by simp) (by simp) hpos hsorted
  rw [segs_eq_fold]
  refine ⟨List.pairwise_reverse.2 r.pw, ?_, ?_, ?_⟩
  · intro s hs; exact r.ne s (List.mem_reverse.1 hs)
  · intro x
    have := r.cov x
    simp only [List.not_mem_nil, false_and, exists_false, false_or] at this
    rw [← this]
    simp only [List.mem_reverse]
  · intro s hs
    obtain ⟨p1, p2⟩ := r.prov s (List.mem_reverse.1 hs)
    simp only [List.not_mem_nil, false_and, exists_false, false_or] at p1 p2
    exact ⟨p1, p2⟩

/-- non-vacuity: zero-length warps alone, touching the end of another warp, inside another warp, and on
beat 0 -/
example :
    (∀ w ∈ [((0 : Rat), (0 : Rat)), (1, 1), (3/2, 0), (2, 0), (3, 1/1000)], 0 ≤ roundToTick w.2) ∧
    ([((0 : Rat), (0 : Rat)), (1, 1), (3/2, 0), (2, 0), (3, 1/1000)].map (·.1)).Pairwise (· < ·) ∧
    segs [(0, 0), (1, 1), (3/2, 0), (2, 0), (3, 1/1000)] = [(0, 0), (1, 2), (3, 3)] := by decide +kernel

end Simfile.Wide
