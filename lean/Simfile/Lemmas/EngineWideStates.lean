/-
C11 under the wider domain, part 3: the merged event list is still strictly sorted by (beat, tag) — a
zero-length warp contributes `(b, WARP) < (b, WARP_END)`, a zero-length stop `(b, STOP) < (b, STOP_END)` —
the key-indexed forms of the spec's ingredients, and the step lemma. These are the `Dom` lemmas of
Simfile/Lemmas/EngineEvents.lean, EngineFold.lean, EngineStates.lean and EngineStep.lean re-proved from `Dom0`.
-/
import Simfile.Lemmas.EngineStep
import Simfile.Lemmas.EngineWideBasic
import Simfile.Lemmas.EngineWideWarp
namespace Simfile.Wide
open Simfile C11

theorem segs_starts_sorted (td : TimingData) (hd : Dom0 td) :
    ((startRows td).map (·.1)).Pairwise (· < ·) := by
  obtain ⟨h1, h2, _, _⟩ := segs_spec td.warps hd.warps_nonneg hd.warps_sorted
  unfold startRows
  rw [List.map_map, List.pairwise_map]
  exact h1.imp_of_mem (fun {a b} ha _ hab => lt_of_le_of_lt (h2 a ha) hab)

theorem segs_ends_sorted (td : TimingData) (hd : Dom0 td) :
    ((endRows td).map (·.1)).Pairwise (· < ·) := by
  obtain ⟨h1, h2, _, _⟩ := segs_spec td.warps hd.warps_nonneg hd.warps_sorted
  unfold endRows
  rw [List.map_map, List.pairwise_map]
  exact h1.imp_of_mem (fun {a b} _ hb hab => lt_of_lt_of_le hab (h2 b hb))

theorem ssorted_events (td : TimingData) (hd : Dom0 td) : SSorted (events td) := by
  rw [events_eq']
  apply ssorted_foldl_merge2
  · exact List.Pairwise.nil
  · intro l hl
    rw [List.mem_map] at hl
    obtain ⟨p, hp, rfl⟩ := hl
    apply ssorted_mkEv
    simp only [tagged, List.mem_cons, List.not_mem_nil, or_false] at hp
    rcases hp with rfl | rfl | rfl | rfl | rfl | rfl | rfl
    · exact segs_starts_sorted td hd
    · exact segs_ends_sorted td hd
    · have := hd.bpms_sorted
      rw [List.map_tail]
      exact this.tail
    · exact hd.delays_sorted
    · exact hd.delays_sorted
    · exact hd.stops_sorted
    · exact hd.stops_sorted
  · intro x hx; exact absurd hx List.not_mem_nil
  · rw [List.pairwise_map]
    have : ((tagged td).map (·.1)).Pairwise (· ≠ ·) := by
      simp only [tagged, List.map_cons, List.map_nil]; decide
    rw [List.pairwise_map] at this
    refine this.imp ?_
    intro p p' hne x hx y hy
    rw [(mem_mkEv.1 hx).1, (mem_mkEv.1 hy).1]
    exact hne

theorem bpmOn_eq_before (td : TimingData) (hd : Dom0 td) (x : Rat) (g : Tag) (hg : 2 ≤ g.val) :
    Spec.bpmOn td x = bpmBefore td (key x g) := by
  rw [bpmOn_eq_foldSel, foldSel_head _ _ hd.bpms_ne]
  apply foldSel_congr
  intro e _
  rw [key_le, val_bpm]
  constructor
  · intro h
    rcases lt_or_eq_of_le h with h | h
    · exact Or.inl h
    · exact Or.inr ⟨h, hg⟩
  · rintro (h | h)
    · exact le_of_lt h
    · exact le_of_eq h.1

theorem inWarp_iff_before (td : TimingData) (hd : Dom0 td) (x : Rat) (g : Tag) (hg : 1 ≤ g.val) :
    Spec.inWarp td x = true ↔ warpBefore td (key x g) := by
  obtain ⟨_, _, h3, _⟩ := segs_spec td.warps hd.warps_nonneg hd.warps_sorted
  unfold Spec.inWarp warpBefore
  rw [List.any_eq_true]
  simp only [Bool.and_eq_true, decide_eq_true_eq]
  rw [← h3 x]
  constructor
  · rintro ⟨s, hs, h1, h2⟩
    exact ⟨s, hs, key_le.2 (by
      rcases lt_or_eq_of_le h1 with h | h
      · exact Or.inl h
      · exact Or.inr ⟨h, by simp⟩), key_lt.2 (Or.inl h2)⟩
  · rintro ⟨s, hs, h1, h2⟩
    refine ⟨s, hs, beat_le_of_key_le h1, ?_⟩
    rcases key_lt.1 h2 with h | h
    · exact h
    · have := h.2; simp at this; omega

variable {td : TimingData}

theorem segs_facts (hd : Dom0 td) :
    (segs td.warps).Pairwise (fun a b => a.2 < b.1) ∧ (∀ s ∈ segs td.warps, s.1 ≤ s.2) ∧
    (∀ s ∈ segs td.warps, 0 ≤ s.1 ∧ onGrid s.1 ∧ onGrid s.2) := by
  obtain ⟨h1, h2, _, h4⟩ := segs_spec td.warps hd.warps_nonneg hd.warps_sorted
  refine ⟨h1, h2, ?_⟩
  intro s hs
  obtain ⟨⟨w, hw, e1⟩, ⟨w', hw', e2⟩⟩ := h4 s hs
  have g1 := hd.warps_grid w hw
  have g2 := hd.warps_grid w' hw'
  refine ⟨e1 ▸ g1.1, e1 ▸ g1.2, e2 ▸ onGrid_add g2.2 (onGrid_roundToTick _)⟩

theorem tail_beats_pos (hd : Dom0 td) : ∀ e ∈ td.bpms.tail, 0 < e.1 := by
  have h1 := hd.bpms_head
  have h2 := hd.bpms_sorted
  cases hb : td.bpms with
  | nil => intro e he; simp at he
  | cons x l =>
    rw [hb] at h1 h2
    simp only [List.headD_cons] at h1
    rw [List.map_cons, List.pairwise_cons] at h2
    intro e he
    have := h2.1 e.1 (List.mem_map.2 ⟨e, he, rfl⟩)
    rw [h1] at this
    exact this

theorem tail_sorted (hd : Dom0 td) : td.bpms.tail.Pairwise (fun a b => a.1 < b.1) := by
  have := hd.bpms_sorted
  rw [List.pairwise_map] at this
  exact this.tail

theorem event_beat_ok (hd : Dom0 td) {e : TEvent} (he : e ∈ events td) : 0 ≤ e.beat ∧ onGrid e.beat := by
  obtain ⟨_, s2, s3⟩ := segs_facts hd
  cases ht : e.tag
  · obtain ⟨sg, hsg, h⟩ := events_warp he ht
    rw [← h]; exact ⟨(s3 sg hsg).1, (s3 sg hsg).2.1⟩
  · obtain ⟨sg, hsg, h⟩ := events_warpEnd he ht
    rw [← h]; exact ⟨le_trans (s3 sg hsg).1 (s2 sg hsg), (s3 sg hsg).2.2⟩
  · exact hd.bpms_grid _ (List.mem_of_mem_tail (events_bpm he ht))
  · exact hd.delays_grid _ (events_delay he ht)
  · exact hd.delays_grid _ (events_delayEnd he ht)
  · exact hd.stops_grid _ (events_stop he ht)
  · exact hd.stops_grid _ (events_stopEnd he ht)

theorem step_travel (hd : Dom0 td) (s : TState) (hs : StInv td s) (c : Rat) (h : Tag)
    (hle : skey s ≤ key c h) (hno : NoneBetween td (skey s) (key c h)) :
    travel td c = travel td s.beat + (if s.warp then 0 else (c - s.beat) * 60 / s.bpm) := by
  obtain ⟨n, hn⟩ := onGrid_nat hs.grid hs.nonneg
  apply travel_step td s.warp s.bpm s.beat c n hn (beat_le_of_key_le hle)
  intro m hm hmc
  have hbx : s.beat ≤ (m : Rat) / 48 := by
    rw [hn]
    apply div_le_div_of_nonneg_right _ (by norm_num)
    exact_mod_cast hm
  have hκx : skey s ≤ key ((m : Rat) / 48) .stopEnd := by
    apply key_le.2
    rcases lt_or_eq_of_le hbx with h1 | h1
    · exact Or.inl h1
    · exact Or.inr ⟨h1, by rw [val_stopEnd]; exact Tag.val_le_six _⟩
  have hxq : key ((m : Rat) / 48) .stopEnd < key c h := key_lt.2 (Or.inl hmc)
  have hno' : ∀ e ∈ events td, ¬ (skey s < ekey e ∧ ekey e ≤ key ((m : Rat) / 48) .stopEnd) :=
    fun e he hh => hno e he ⟨hh.1, lt_of_le_of_lt hh.2 hxq⟩
  constructor
  · have h1 := inWarp_iff_before td hd ((m : Rat) / 48) .stopEnd (by simp)
    have h2 := warpBefore_congr td hκx (fun e he _ => hno' e he)
    have h3 := hs.warp
    rw [Bool.eq_iff_iff, h1, ← h2, ← h3]
  · rw [bpmOn_eq_before td hd _ .stopEnd (by simp), ← bpmBefore_congr td hκx (fun e he _ => hno' e he),
      hs.bpm]

/-- the two keys `(c, g0)` and `(c, g1)` with adjacent tags: between them the selection of END rows of
the other kind does not change, and exactly the row on beat `c` of this kind is added -/
theorem step_paused (hd : Dom0 td) (s : TState) (hs : StInv td s) (c : Rat) (h : Tag)
    (hle : skey s ≤ key c h) (hno : NoneBetween td (skey s) (key c h)) :
    pausedK td (key c h) = pausedK td (skey s) +
      (if (s.tag = .stop ∨ s.tag = .delay) ∧ (h = .stopEnd ∨ h = .delayEnd) then s.value else 0) := by
  rcases eq_or_lt_of_le hle with heq | hlt
  · have htag : s.tag = h := (key_eq.1 heq).2
    rw [← heq, if_neg, add_zero]
    rintro ⟨h1 | h1, h2 | h2⟩ <;> rw [← htag, h1] at h2 <;> cases h2
  · by_cases hB : h = .stopEnd ∧ ∃ v, (c, v) ∈ td.stops
    · obtain ⟨rfl, v, hv⟩ := hB
      have h1 : key c .stop ≤ skey s := by
        by_contra hh
        exact hno _ (ev_stop hv) ⟨not_le.1 hh, key_lt.2 (Or.inr ⟨rfl, by simp⟩)⟩
      obtain ⟨hb, ht1, ht2⟩ := key_squeeze h1 (le_of_lt hlt)
      have ht : s.tag = .stop := by
        rcases key_lt.1 hlt with h3 | h3
        · exact absurd hb (ne_of_lt h3)
        · apply Tag.val_inj
          have := h3.2
          simp only [val_stop, val_stopEnd] at *
          omega
      have hval : s.value = v := row_unique hd.stops_sorted (hb ▸ hs.stop ht) hv
      rw [if_pos ⟨Or.inl ht, Or.inl rfl⟩, hval]
      have hsk : skey s = key c .stop := by unfold skey; rw [hb, ht]
      rw [hsk]
      unfold pausedK
      have hdel : foldSum (fun β => key β .delayEnd ≤ key c .stopEnd) td.delays 0 =
          foldSum (fun β => key β .delayEnd ≤ key c .stop) td.delays 0 :=
        foldSum_congr _ _ (fun d _ => by rw [key_le, key_le]; simp)
      have hst : foldSum (fun β => key β .stopEnd ≤ key c .stopEnd) td.stops 0 =
          foldSum (fun β => key β .stopEnd ≤ key c .stop) td.stops 0 + v := by
        have hpw := hd.stops_sorted
        rw [List.pairwise_map] at hpw
        apply foldSum_add_one c v _ 0 hpw hv
        · intro d _ hne
          rw [key_le, key_le]
          simp only [val_stopEnd, val_stop]
          constructor
          · rintro (h3 | h3)
            · exact Or.inl h3
            · omega
          · rintro (h3 | h3)
            · exact Or.inl h3
            · exact absurd h3.1 hne
        · rw [key_le]; simp
        · rw [key_le]; simp
      rw [hdel, hst]; ring
    · by_cases hC : h = .delayEnd ∧ ∃ v, (c, v) ∈ td.delays
      · obtain ⟨rfl, v, hv⟩ := hC
        have h1 : key c .delay ≤ skey s := by
          by_contra hh
          exact hno _ (ev_delay hv) ⟨not_le.1 hh, key_lt.2 (Or.inr ⟨rfl, by simp⟩)⟩
        obtain ⟨hb, ht1, ht2⟩ := key_squeeze h1 (le_of_lt hlt)
        have ht : s.tag = .delay := by
          rcases key_lt.1 hlt with h3 | h3
          · exact absurd hb (ne_of_lt h3)
          · apply Tag.val_inj
            have := h3.2
            simp only [val_delay, val_delayEnd] at *
            omega
        have hval : s.value = v := row_unique hd.delays_sorted (hb ▸ hs.delay ht) hv
        rw [if_pos ⟨Or.inr ht, Or.inr rfl⟩, hval]
        have hsk : skey s = key c .delay := by unfold skey; rw [hb, ht]
        rw [hsk]
        unfold pausedK
        have hst : foldSum (fun β => key β .stopEnd ≤ key c .delayEnd) td.stops 0 =
            foldSum (fun β => key β .stopEnd ≤ key c .delay) td.stops 0 :=
          foldSum_congr _ _ (fun d _ => by rw [key_le, key_le]; simp)
        have hdel : foldSum (fun β => key β .delayEnd ≤ key c .delayEnd) td.delays 0 =
            foldSum (fun β => key β .delayEnd ≤ key c .delay) td.delays 0 + v := by
          have hpw := hd.delays_sorted
          rw [List.pairwise_map] at hpw
          apply foldSum_add_one c v _ 0 hpw hv
          · intro d _ hne
            rw [key_le, key_le]
            simp only [val_delayEnd, val_delay]
            constructor
            · rintro (h3 | h3)
              · exact Or.inl h3
              · omega
            · rintro (h3 | h3)
              · exact Or.inl h3
              · exact absurd h3.1 hne
          · rw [key_le]; simp
          · rw [key_le]; simp
        rw [hdel, hst]; ring
      · -- the target key is not an END event
        have hcongr : pausedK td (skey s) = pausedK td (key c h) := by
          apply pausedK_congr td hle
          intro e he htag hh
          rcases eq_or_lt_of_le hh.2 with heq | hlt2
          · obtain ⟨hbeat, htg⟩ := key_eq.1 heq
            rcases htag with htag | htag
            · exact hC ⟨htg ▸ htag, e.value, hbeat ▸ events_delayEnd he htag⟩
            · exact hB ⟨htg ▸ htag, e.value, hbeat ▸ events_stopEnd he htag⟩
          · exact hno e he ⟨hh.1, hlt2⟩
        rw [← hcongr, if_neg, add_zero]
        rintro ⟨hg, hh⟩
        rcases hg with hg | hg
        · have hev := ev_stopEnd (hs.stop hg)
          have hlt1 : skey s < key s.beat .stopEnd := key_lt.2 (Or.inr ⟨rfl, by rw [hg]; simp⟩)
          have h2 : key c h ≤ key s.beat .stopEnd := by
            by_contra hh2
            exact hno _ hev ⟨hlt1, not_le.1 hh2⟩
          have h1 : key s.beat .stop ≤ key c h := by rw [← hg]; exact hle
          obtain ⟨hb, ht1, ht2⟩ := key_squeeze h1 h2
          have : h = .stopEnd := by
            rcases hh with hh | hh
            · exact hh
            · rw [hh] at ht1; simp at ht1
          exact hB ⟨this, s.value, hb ▸ hs.stop hg⟩
        · have hev := ev_delayEnd (hs.delay hg)
          have hlt1 : skey s < key s.beat .delayEnd := key_lt.2 (Or.inr ⟨rfl, by rw [hg]; simp⟩)
          have h2 : key c h ≤ key s.beat .delayEnd := by
            by_contra hh2
            exact hno _ hev ⟨hlt1, not_le.1 hh2⟩
          have h1 : key s.beat .delay ≤ key c h := by rw [← hg]; exact hle
          obtain ⟨hb, ht1, ht2⟩ := key_squeeze h1 h2
          have : h = .delayEnd := by
            rcases hh with hh | hh
            · rw [hh] at ht2; simp at ht2
            · exact hh
          exact hC ⟨this, s.value, hb ▸ hs.delay hg⟩

/-- the step lemma: extrapolating from a state to a later key with nothing strictly in between gives
the declarative time -/
theorem step_time (hd : Dom0 td) (s : TState) (hs : StInv td s) (c : Rat) (h : Tag)
    (hle : skey s ≤ key c h) (hno : NoneBetween td (skey s) (key c h)) :
    s.time + s.timeUntil c h = Spec.timeSpec td c h := by
  rw [timeSpec_eq, paused_eq_K, step_paused hd s hs c h hle hno, step_travel hd s hs c h hle hno,
    hs.time, timeSpec_eq, paused_eq_K]
  unfold TState.timeUntil skey
  ring

end Simfile.Wide
