/-
`WFText`: a lenient, purely syntactic well-formedness predicate on raw note-data text. Every line of
every measure must tokenise into cells `ch` / `ch[digits]`, every non-'0' cell must be a known note
character in a column below `cols`, every keysound must sit in a column below `cols`. Allowed: empty
measures (trailing comma), ragged rows, blank lines inside a measure, any Python line break, blanks
anywhere around lines, keysounds on '0' cells, digits with leading zeros, any number of players.
-/
import Simfile.Lemmas.NotesAnyTokens
import Simfile.Lemmas.NotesAnyStream
namespace Simfile
namespace Any
open Simfile

def tokOKB (cols : Nat) (x : Nat × Tok) : Bool :=
  (x.2.ch = '0' || (isNoteChar x.2.ch && decide (x.1 < cols))) && (x.2.ks.isNone || decide (x.1 < cols))

/-- the cells of a line (none if the line does not tokenise) -/
def lineToks (line : Str) : List Tok := (tokenize (strip line)).getD []

def lineOKB (cols : Nat) (line : Str) : Bool :=
  match tokenize (strip line) with
  | some toks => (enumFrom 0 toks).all (tokOKB cols)
  | none => false

/-- lenient well-formedness of raw text for `cols` columns (decidable, syntactic) -/
def WFText (cols : Nat) (t : Str) : Bool :=
  (splitOn '&' t).all fun sec => (splitOn ',' sec).all fun mt => (splitLines (strip mt)).all (lineOKB cols)

/-- the note of token `x.2` in column `x.1` -/
def tokNote (p m sub l : Nat) (x : Nat × Tok) : Option Note :=
  if x.2.ch = '0' then none
  else some ⟨((m * 4 * sub + l * 4 : Nat) : Rat) / (sub : Rat), x.1, x.2.ch, p, tokKs x.2⟩

/-- number of non-'0' cells of the text -/
def tokCount (t : Str) : Nat :=
  ((splitOn '&' t).map fun sec =>
    ((splitOn ',' sec).map fun mt =>
      ((splitLines (strip mt)).map fun line => (lineToks line).countP (fun tok => tok.ch != '0')).sum).sum).sum

theorem lineOKB_iff {cols : Nat} {line : Str} : lineOKB cols line = true ↔
    ∃ toks, tokenize (strip line) = some toks ∧ ∀ c tok, toks[c]? = some tok →
      (tok.ch ≠ '0' → isNoteChar tok.ch = true ∧ c < cols) ∧ (tok.ks ≠ none → c < cols) := by
  unfold lineOKB
  cases h : tokenize (strip line) with
  | none => simp
  | some toks =>
    simp only [List.all_eq_true, Option.some.injEq, exists_eq_left']
    constructor
    · intro hall c tok hc
      have := hall (c, tok) (mem_enumFrom.mpr ⟨Nat.zero_le _, by simpa using hc⟩)
      simp only [tokOKB, Bool.and_eq_true, Bool.or_eq_true, decide_eq_true_eq, Option.isNone_iff_eq_none] at this
      refine ⟨fun hne => ?_, fun hne => ?_⟩
      · rcases this.1 with h0 | h1
        · exact absurd h0 hne
        · exact h1
      · rcases this.2 with h0 | h1
        · exact absurd h0 hne
        · exact h1
    · intro hall x hx
      obtain ⟨c, tok⟩ := x
      have hc := (mem_enumFrom.mp hx).2
      obtain ⟨h1, h2⟩ := hall c tok (by simpa using hc)
      simp only [tokOKB, Bool.and_eq_true, Bool.or_eq_true, decide_eq_true_eq, Option.isNone_iff_eq_none]
      refine ⟨?_, ?_⟩
      · by_cases h0 : tok.ch = '0'
        · exact Or.inl h0
        · exact Or.inr (h1 h0)
      · by_cases h0 : tok.ks = none
        · exact Or.inl h0
        · exact Or.inr (h2 h0)

/-- what the decoder reads off a line that passes `lineOKB` -/
theorem lineCells_of_toks {cols : Nat} {line : Str} {toks : List Tok} (ht : tokenize (strip line) = some toks)
    (hk : ∀ c tok, toks[c]? = some tok → tok.ks ≠ none → c < cols) :
    lineCells cols line = .ok (toks.map (·.ch), applyT (List.replicate cols none) 0 toks) := by
  obtain ⟨e, hok⟩ := tokenize_spec ht
  unfold lineCells
  rw [e]
  have := extract_toks toks (tokText toks).length [] (List.replicate cols none)
    (length_tokText_ge toks) (by simp) hok
    (by intro j tok hj hne; simpa using hk j tok hj hne)
  simpa using this

theorem keysound_of_toks {cols : Nat} {toks : List Tok}
    (hk : ∀ c tok, toks[c]? = some tok → tok.ks ≠ none → c < cols)
    {c : Nat} {tok : Tok} (hc : toks[c]? = some tok) (hlt : c < cols) :
    (applyT (List.replicate cols none) 0 toks).getD c none = tokKs tok := by
  have := applyT_getElem? toks (List.replicate cols none) 0
    (by intro j tok hj hne; simpa using hk j tok hj hne) c
  rw [List.getD_eq_getElem?_getD, this]
  simp only [Nat.zero_le, Nat.sub_zero, true_and, hc, Option.some.injEq, exists_eq_left']
  by_cases hks : tok.ks = none
  · rw [if_neg (by simp [hks])]
    simp [hlt, tokKs, hks]
  · rw [if_pos hks]; rfl

theorem lineNotes_of_toks {cols p m sub l : Nat} {line : Str} {toks : List Tok}
    (ht : tokenize (strip line) = some toks)
    (hall : ∀ c tok, toks[c]? = some tok →
      (tok.ch ≠ '0' → isNoteChar tok.ch = true ∧ c < cols) ∧ (tok.ks ≠ none → c < cols)) :
    lineNotes cols p m sub l line = (enumFrom 0 toks).filterMap (tokNote p m sub l) := by
  have hk : ∀ c tok, toks[c]? = some tok → tok.ks ≠ none → c < cols := fun c tok h => (hall c tok h).2
  unfold lineNotes
  rw [lineCells_of_toks ht hk]
  simp only
  rw [Spec.enumFrom_map, List.filterMap_map]
  apply List.filterMap_congr
  intro x hx
  obtain ⟨c, tok⟩ := x
  have hc : toks[c]? = some tok := by simpa using (mem_enumFrom.mp hx).2
  simp only [Function.comp, cellNote, tokNote]
  by_cases h0 : tok.ch = '0'
  · simp [h0]
  · rw [if_neg h0, if_neg h0, keysound_of_toks hk hc ((hall c tok hc).1 h0).2]

theorem lineOK_of_lineOKB {cols : Nat} {line : Str} (h : lineOKB cols line = true) : LineOK cols line := by
  obtain ⟨toks, ht, hall⟩ := lineOKB_iff.mp h
  refine ⟨_, _, lineCells_of_toks ht (fun c tok h => (hall c tok h).2), ?_⟩
  intro x hx hne
  obtain ⟨c, ch⟩ := x
  have hc := (mem_enumFrom.mp hx).2
  simp only [Nat.sub_zero, List.getElem?_map, Option.map_eq_some_iff] at hc
  obtain ⟨tok, htok, rfl⟩ := hc
  exact (hall c tok htok).1 hne

theorem WFText_iff {cols : Nat} {t : Str} : WFText cols t = true ↔
    ∀ sec ∈ splitOn '&' t, ∀ mt ∈ splitOn ',' sec, ∀ line ∈ splitLines (strip mt), lineOKB cols line = true := by
  simp [WFText, List.all_eq_true]

theorem accepts_of_WFText {cols : Nat} {t : Str} (h : WFText cols t = true) : Accepts cols t :=
  fun sec hs mt hm line hl => lineOK_of_lineOKB (WFText_iff.mp h sec hs mt hm line hl)

/-! ### membership and count in terms of tokens -/

theorem mem_lineNotes_toks {cols p m sub l : Nat} {line : Str} (h : lineOKB cols line = true) {n : Note} :
    n ∈ lineNotes cols p m sub l line ↔
      ∃ toks c tok, tokenize (strip line) = some toks ∧ toks[c]? = some tok ∧ tok.ch ≠ '0' ∧
        n = ⟨((m * 4 * sub + l * 4 : Nat) : Rat) / (sub : Rat), c, tok.ch, p, tokKs tok⟩ := by
  obtain ⟨toks, ht, hall⟩ := lineOKB_iff.mp h
  rw [lineNotes_of_toks ht hall, List.mem_filterMap]
  constructor
  · rintro ⟨⟨c, tok⟩, hx, hn⟩
    have hc : toks[c]? = some tok := by simpa using (mem_enumFrom.mp hx).2
    simp only [tokNote] at hn
    split at hn
    · cases hn
    · rename_i hne
      exact ⟨toks, c, tok, ht, hc, hne, by simpa using hn.symm⟩
  · rintro ⟨toks', c, tok, ht', hc, hne, rfl⟩
    rw [ht] at ht'; cases ht'
    exact ⟨(c, tok), mem_enumFrom.mpr ⟨Nat.zero_le _, by simpa using hc⟩, by simp [tokNote, hne]⟩

theorem lineCount_of_lineOKB {cols : Nat} {line : Str} (h : lineOKB cols line = true) :
    lineCount cols line = (lineToks line).countP (fun tok => tok.ch != '0') := by
  obtain ⟨toks, ht, hall⟩ := lineOKB_iff.mp h
  unfold lineCount lineToks
  rw [lineCells_of_toks ht (fun c tok h => (hall c tok h).2), ht]
  simp only [Option.getD_some, List.countP_map]
  rfl

theorem sum_map_congr {α} (f g : α → Nat) (xs : List α) (h : ∀ x ∈ xs, f x = g x) :
    (xs.map f).sum = (xs.map g).sum := by
  rw [List.map_congr_left h]

theorem textCount_of_WFText {cols : Nat} {t : Str} (h : WFText cols t = true) :
    textCount cols t = tokCount t := by
  rw [WFText_iff] at h
  unfold textCount tokCount
  apply sum_map_congr
  intro sec hs
  apply sum_map_congr
  intro mt hm
  apply sum_map_congr
  intro line hl
  exact lineCount_of_lineOKB (h sec hs mt hm line hl)

end Any
end Simfile
