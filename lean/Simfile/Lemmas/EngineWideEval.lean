/-
C11 / C12 on the wider domain: the two sample inputs of the non-vacuity examples, evaluated in stages
(`merge2` is defined by well-founded recursion, so the event lists are computed by `norm_num`; the rest by
kernel evaluation).
-/
import Simfile.Lemmas.EngineWideBpm
import Simfile.Lemmas.EngineEval
namespace Simfile.Wide
open Simfile C11

/-- Sample A: a zero-length stop on a zero-length delay on beat 1/2 INSIDE the warp `[0, 2)` (which starts on
beat 0, with a BPM change inside); a zero-length stop on beat 3 OUTSIDE every warp; a zero-length warp alone
on beat 4; a zero-length warp under a positive stop on beat 5; a zero-length delay on beat 6. -/
def sampleA : TimingData :=
  { bpms := [(0, 120), (1, 240)], stops := [(1/2, 0), (3, 0), (5, 1/4)], delays := [(1/2, 0), (6, 0)],
    warps := [(0, 2), (4, 0), (5, 0)], offset := 1/100 }

/-- Sample B: a zero-length warp and a zero-length stop on beat 0 — the events `(0, WARP)` and
`(0, WARP_END)` both sort before the key `(0, BPM)` of the engine's initial state -/
def sampleB : TimingData :=
  { bpms := [(0, 60)], stops := [(0, 0)], delays := [], warps := [(0, 0), (1, 0)], offset := 0 }

theorem sampleA_dom0 : Dom0 sampleA := dom0_of_check (by decide +kernel)
theorem sampleB_dom0 : Dom0 sampleB := dom0_of_check (by decide +kernel)

theorem coalesce_sampleA : coalesceWarps sampleA.warps = ([0, 4, 5], [2, 4, 5]) := by decide +kernel
theorem coalesce_sampleB : coalesceWarps sampleB.warps = ([0, 1], [0, 1]) := by decide +kernel

theorem events_sampleA : events sampleA =
    [⟨0, 0, .warp⟩, ⟨1/2, 0, .delay⟩, ⟨1/2, 0, .delayEnd⟩, ⟨1/2, 0, .stop⟩, ⟨1/2, 0, .stopEnd⟩, ⟨1, 240, .bpm⟩,
     ⟨2, 0, .warpEnd⟩, ⟨3, 0, .stop⟩, ⟨3, 0, .stopEnd⟩, ⟨4, 0, .warp⟩, ⟨4, 0, .warpEnd⟩, ⟨5, 0, .warp⟩,
     ⟨5, 0, .warpEnd⟩, ⟨5, 1/4, .stop⟩, ⟨5, 1/4, .stopEnd⟩, ⟨6, 0, .delay⟩, ⟨6, 0, .delayEnd⟩] := by
  have h := coalesce_sampleA
  simp only [sampleA] at h
  norm_num [events, sampleA, h, merge2, merge2_nil_right, TEvent.lt, keyLT]

theorem events_sampleB : events sampleB =
    [⟨0, 0, .warp⟩, ⟨0, 0, .warpEnd⟩, ⟨0, 0, .stop⟩, ⟨0, 0, .stopEnd⟩, ⟨1, 0, .warp⟩, ⟨1, 0, .warpEnd⟩] := by
  have h := coalesce_sampleB
  simp only [sampleB] at h
  norm_num [events, sampleB, h, merge2, merge2_nil_right, TEvent.lt, keyLT]

theorem states_sampleA : states sampleA =
    [⟨0, 120, .bpm, -1/100, 120, false⟩, ⟨0, 0, .warp, -1/100, 120, true⟩,
     ⟨1/2, 0, .delay, -1/100, 120, true⟩, ⟨1/2, 0, .delayEnd, -1/100, 120, true⟩,
     ⟨1/2, 0, .stop, -1/100, 120, true⟩, ⟨1/2, 0, .stopEnd, -1/100, 120, true⟩,
     ⟨1, 240, .bpm, -1/100, 240, true⟩, ⟨2, 0, .warpEnd, -1/100, 240, false⟩,
     ⟨3, 0, .stop, 6/25, 240, false⟩, ⟨3, 0, .stopEnd, 6/25, 240, false⟩,
     ⟨4, 0, .warp, 49/100, 240, true⟩, ⟨4, 0, .warpEnd, 49/100, 240, false⟩,
     ⟨5, 0, .warp, 37/50, 240, true⟩, ⟨5, 0, .warpEnd, 37/50, 240, false⟩,
     ⟨5, 1/4, .stop, 37/50, 240, false⟩, ⟨5, 1/4, .stopEnd, 99/100, 240, false⟩,
     ⟨6, 0, .delay, 31/25, 240, false⟩, ⟨6, 0, .delayEnd, 31/25, 240, false⟩] := by
  rw [states, events_sampleA]
  decide +kernel

theorem states_sampleB : states sampleB =
    [⟨0, 60, .bpm, 0, 60, false⟩, ⟨0, 0, .warp, 0, 60, true⟩, ⟨0, 0, .warpEnd, 0, 60, false⟩,
     ⟨0, 0, .stop, 0, 60, false⟩, ⟨0, 0, .stopEnd, 0, 60, false⟩, ⟨1, 0, .warp, 1, 60, true⟩,
     ⟨1, 0, .warpEnd, 1, 60, false⟩] := by
  rw [states, events_sampleB]
  decide +kernel

/-- values of the engine on sample A, computed from the state list with the bisect loop (the Python library
returns the same numbers): the zero-length stop inside the warp (beat 1/2) and the one outside (beat 3) add
nothing, under every tag -/
theorem values_sampleA :
    Tag.all.map (fun g => timeAt sampleA (1/2) g) = List.replicate 7 (-1/100 : Rat) ∧
    Tag.all.map (fun g => timeAt sampleA 3 g) = List.replicate 7 (6/25 : Rat) ∧
    Tag.all.map (fun g => timeAt sampleA 4 g) = List.replicate 7 (49/100 : Rat) ∧
    timeAt sampleA 5 .stop = 37/50 ∧ timeAt sampleA 5 .stopEnd = 99/100 ∧ timeAt sampleA 7 .stop = 149/100 := by
  simp only [timeAt, Engine.timeAt, Engine.priorState, mkEngine, states_sampleA]
  decide +kernel

/-- on sample A the zero-length stop on beat 1/2 inside the warp `[0, 2)` does not hold the beat -/
theorem values_sampleA_beat :
    timeAt sampleA (1/2) .stop = -1/100 ∧ beatAt sampleA (-1/100) .stop = 2 ∧ beatAt sampleA (-1/100) .warp = 0 := by
  simp only [timeAt, Engine.timeAt, Engine.priorState, beatAt, Engine.beatAt, Engine.priorByTime, mkEngine,
    states_sampleA]
  decide +kernel

/-- values of the engine on sample B: the queries `(0, WARP)` and `(0, WARP_END)` fall on the unsorted head
`(0,BPM), (0,WARP), (0,WARP_END)` of the key list -/
theorem values_sampleB :
    Tag.all.map (fun g => timeAt sampleB 0 g) = List.replicate 7 (0 : Rat) ∧ timeAt sampleB (-1) .warp = -1 ∧
    timeAt sampleB 1 .warp = 1 ∧ timeAt sampleB (3/2) .stop = 3/2 := by
  simp only [timeAt, Engine.timeAt, Engine.priorState, mkEngine, states_sampleB]
  decide +kernel

/-! ### a decidable sufficient test for the old domain -/

def domCheck (td : TimingData) : Bool :=
  dom0Check td && (td.stops.all fun e => decide (0 < e.2)) && (td.delays.all fun e => decide (0 < e.2)) &&
    (td.warps.all fun e => decide (0 < roundToTick e.2))

theorem dom_of_check {td : TimingData} (h : domCheck td = true) : Dom td := by
  simp only [domCheck, Bool.and_eq_true, decide_eq_true_eq, List.all_eq_true] at h
  obtain ⟨⟨⟨h0, h1⟩, h2⟩, h3⟩ := h
  have h' := dom0_of_check h0
  exact { bpms_ne := h'.bpms_ne, bpms_head := h'.bpms_head, bpms_pos := h'.bpms_pos,
          bpms_sorted := h'.bpms_sorted, bpms_grid := h'.bpms_grid,
          stops_pos := h1, stops_sorted := h'.stops_sorted, stops_grid := h'.stops_grid,
          delays_pos := h2, delays_sorted := h'.delays_sorted, delays_grid := h'.delays_grid,
          warps_pos := h3, warps_sorted := h'.warps_sorted, warps_grid := h'.warps_grid }

/-- Sample C: a delay (and no stop) on beat 5 inside the warp `[4, 8)` — beat 5 is hittable -/
def sampleC : TimingData := { bpms := [(0, 60)], stops := [], delays := [(5, 1)], warps := [(4, 4)], offset := 0 }

theorem sampleC_dom : Dom sampleC := dom_of_check (by decide +kernel)

theorem events_sampleC :
    events sampleC = [⟨4, 0, .warp⟩, ⟨5, 1, .delay⟩, ⟨5, 1, .delayEnd⟩, ⟨8, 0, .warpEnd⟩] := by
  norm_num [events, sampleC, coalesce_cex, merge2, merge2_nil_right, TEvent.lt, keyLT]

theorem states_sampleC : states sampleC =
    [⟨0, 60, .bpm, 0, 60, false⟩, ⟨4, 0, .warp, 4, 60, true⟩, ⟨5, 1, .delay, 4, 60, true⟩,
     ⟨5, 1, .delayEnd, 5, 60, true⟩, ⟨8, 0, .warpEnd, 5, 60, false⟩] := by
  rw [states, events_sampleC]
  decide +kernel

/-- on sample C the default-tag round trip of the hittable beat 5 lands on the end of the warp, the WARP tag
returns to beat 5, and asking at the DELAY key returns to beat 5 under the default tag -/
theorem values_sampleC : timeAt sampleC 5 .stop = 5 ∧ beatAt sampleC 5 .stop = 8 ∧ beatAt sampleC 5 .warp = 5 ∧
    timeAt sampleC 5 .delay = 4 ∧ beatAt sampleC 4 .stop = 5 ∧ beatAt sampleC 4 .warp = 4 := by
  simp only [timeAt, Engine.timeAt, Engine.priorState, beatAt, Engine.beatAt, Engine.priorByTime, mkEngine,
    states_sampleC]
  decide +kernel

end Simfile.Wide
