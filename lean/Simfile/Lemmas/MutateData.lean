/-
Helper definitions and lemmas about the data-carrying model of `mutate` (Simfile/Model/MutateData.lean):
file maps, detection over real decode functions, the write script under faults, and the case analysis of `mutateD`.
-/
import Simfile.Model.MutateData
import Simfile.Lemmas.Mutate
namespace Simfile
namespace MD
open Simfile.Mut

/-! ### file maps -/

theorem fsGet_fsSet_self (fs : FS) (p : Str) (v : Bytes) : fsGet (fsSet fs p v) p = some v := by
  unfold fsGet fsSet
  rw [List.find?_append]
  have : List.find? (fun x => decide (x.1 = p)) (List.filter (fun x => decide (x.1 ≠ p)) fs) = none := by
    rw [List.find?_eq_none]
    intro x hx
    have := (List.mem_filter.mp hx).2
    simpa using this
  rw [this]
  simp

theorem fsGet_fsSet_ne (fs : FS) {p q : Str} (v : Bytes) (h : q ≠ p) : fsGet (fsSet fs p v) q = fsGet fs q := by
  unfold fsGet fsSet
  rw [List.find?_append]
  have h1 : List.find? (fun x => decide (x.1 = q)) [(p, v)] = none := by
    simp [List.find?, Ne.symm h]
  rw [h1, Option.or_none, List.find?_filter]
  congr 2
  funext x
  by_cases hx : x.1 = q
  · simp [hx, h]
  · simp [hx]

/-- setting a file twice: the second value wins, the map is the same as setting once -/
theorem fsSet_fsSet (fs : FS) (p : Str) (v w : Bytes) : fsSet (fsSet fs p v) p w = fsSet fs p w := by
  unfold fsSet
  rw [List.filter_append, List.filter_filter]
  simp

/-- the paths of a file map -/
def fsPaths (fs : FS) : List Str := fs.map (·.1)

theorem fsPaths_fsSet (fs : FS) (p : Str) (v : Bytes) : ∀ q ∈ fsPaths (fsSet fs p v), q ∈ fsPaths fs ∨ q = p := by
  intro q hq
  simp only [fsPaths, fsSet, List.map_append, List.mem_append, List.mem_map] at hq
  rcases hq with ⟨x, hx, rfl⟩ | ⟨x, hx, rfl⟩
  · left
    exact List.mem_map.mpr ⟨x, (List.mem_filter.mp hx).1, rfl⟩
  · right
    simp at hx
    rw [hx]

theorem fsGet_eq_none_iff (fs : FS) (p : Str) : fsGet fs p = none ↔ p ∉ fsPaths fs := by
  unfold fsGet fsPaths
  rw [Option.map_eq_none_iff, List.find?_eq_none]
  constructor
  · intro h hp
    obtain ⟨x, hx, rfl⟩ := List.mem_map.mp hp
    exact absurd (h x hx) (by simp)
  · intro h x hx he
    apply h
    have : x.1 = p := by simpa using he
    exact List.mem_map.mpr ⟨x, hx, this⟩

/-! ### detection over real decode functions -/

theorem detectD_nil (cod : Str → Codec) (b : Bytes) : detectD cod [] b = none := rfl

theorem detectD_cons (cod : Str → Codec) (e : Str) (rest : List Str) (b : Bytes) :
    detectD cod (e :: rest) b =
      match (cod e).decode b with
      | some t => some (e, t)
      | none => detectD cod rest b := rfl

theorem detectD_some_iff (cod : Str → Codec) (encs : List Str) (b : Bytes) (e t : Str) :
    detectD cod encs b = some (e, t) ↔
      ∃ pre post, encs = pre ++ e :: post ∧ (∀ x ∈ pre, (cod x).decode b = none) ∧ (cod e).decode b = some t := by
  induction encs with
  | nil => simp [detectD_nil]
  | cons x rest ih =>
    rw [detectD_cons]
    cases hx : (cod x).decode b with
    | some t' =>
      simp only
      constructor
      · intro h
        cases h
        exact ⟨[], rest, rfl, by simp, hx⟩
      · rintro ⟨pre, post, h, hpre, hd⟩
        cases pre with
        | nil =>
          simp only [List.nil_append, List.cons.injEq] at h
          obtain ⟨rfl, _⟩ := h
          rw [hx] at hd
          cases hd
          rfl
        | cons y pre =>
          simp only [List.cons_append, List.cons.injEq] at h
          have := hpre y (by simp)
          rw [← h.1, hx] at this
          cases this
    | none =>
      simp only
      rw [ih]
      constructor
      · rintro ⟨pre, post, h, hpre, hd⟩
        refine ⟨x :: pre, post, by simp [h], ?_, hd⟩
        intro y hy
        rcases List.mem_cons.mp hy with rfl | hy
        · exact hx
        · exact hpre y hy
      · rintro ⟨pre, post, h, hpre, hd⟩
        cases pre with
        | nil =>
          simp only [List.nil_append, List.cons.injEq] at h
          obtain ⟨rfl, _⟩ := h
          rw [hx] at hd
          cases hd
        | cons y pre =>
          simp only [List.cons_append, List.cons.injEq] at h
          exact ⟨pre, post, h.2, fun z hz => hpre z (by simp [hz]), hd⟩

theorem detectD_none_iff (cod : Str → Codec) (encs : List Str) (b : Bytes) :
    detectD cod encs b = none ↔ ∀ x ∈ encs, (cod x).decode b = none := by
  induction encs with
  | nil => simp [detectD_nil]
  | cons x rest ih =>
    rw [detectD_cons]
    cases hx : (cod x).decode b with
    | some t' => simp [hx]
    | none => simp [hx, ih]

/-- the decode results as the boolean list the symbolic model takes as input -/
def triesOf (cod : Str → Codec) (encs : List Str) (b : Bytes) : List (Str × Bool) :=
  encs.map fun e => (e, ((cod e).decode b).isSome)

theorem detectEncoding_triesOf (cod : Str → Codec) (encs : List Str) (b : Bytes) :
    detectEncoding (triesOf cod encs b) = (detectD cod encs b).map (·.1) := by
  induction encs with
  | nil => rfl
  | cons x rest ih =>
    unfold triesOf at ih ⊢
    rw [List.map_cons, detect_cons, detectD_cons, ih]
    cases (cod x).decode b <;> rfl

theorem readsD_forget (cod : Str → Codec) (input : Str) (encs : List Str) (b : Bytes) :
    (readsD cod input encs b).map OpD.forget = readOps input (triesOf cod encs b) := by
  induction encs with
  | nil => rfl
  | cons x rest ih =>
    unfold triesOf at ih ⊢
    rw [List.map_cons]
    unfold readsD readOps
    cases h : (cod x).decode b with
    | some t => simp [OpD.forget]
    | none => simpa [OpD.forget] using ih

/-- whether a call only reads -/
def OpD.isRead : OpD → Bool
  | .openR _ _ => true
  | _ => false

theorem readsD_all_read (cod : Str → Codec) (input : Str) (encs : List Str) (b : Bytes) :
    ∀ op ∈ readsD cod input encs b, ∃ e, op = OpD.openR input e := by
  induction encs with
  | nil => simp [readsD]
  | cons x rest ih =>
    intro op hop
    unfold readsD at hop
    rcases List.mem_cons.mp hop with rfl | hop
    · exact ⟨x, rfl⟩
    · cases h : (cod x).decode b with
      | some t => rw [h] at hop; simp at hop
      | none => rw [h] at hop; exact ih op hop

/-! ### the write script -/

theorem runD_nil (fs : FS) (cut : Nat) (k : Option Nat) : runD fs cut [] k = fs := by
  cases k with
  | none => rfl
  | some k => cases k <;> rfl

theorem runD_cons_none (fs : FS) (cut : Nat) (op : OpD) (rest : List OpD) :
    runD fs cut (op :: rest) none = runD (applyD fs op) cut rest none := rfl

theorem runD_succ (fs : FS) (cut : Nat) (op : OpD) (rest : List OpD) (k : Nat) :
    runD fs cut (op :: rest) (some (k + 1)) = runD (applyD fs op) cut rest (some k) := rfl

theorem runD_append_none (cut : Nat) (o1 o2 : List OpD) :
    ∀ fs, runD fs cut (o1 ++ o2) none = runD (runD fs cut o1 none) cut o2 none := by
  induction o1 with
  | nil => intro fs; rfl
  | cons op o1 ih => intro fs; simp only [List.cons_append, runD_cons_none, ih]

/-- a fault inside the first part: the second part is never reached -/
theorem runD_append_lt (cut : Nat) (o1 o2 : List OpD) :
    ∀ (fs : FS) (k : Nat), k < o1.length → runD fs cut (o1 ++ o2) (some k) = runD fs cut o1 (some k) := by
  induction o1 with
  | nil => intro fs k h; simp at h
  | cons op o1 ih =>
    intro fs k h
    cases k with
    | zero => cases op <;> rfl
    | succ k =>
      rw [List.cons_append, runD_succ, runD_succ]
      exact ih _ k (by simpa using h)

/-- a fault after the first part: the first part runs fault-free -/
theorem runD_append_ge (cut : Nat) (o1 o2 : List OpD) :
    ∀ (fs : FS) (k : Nat), o1.length ≤ k →
      runD fs cut (o1 ++ o2) (some k) = runD (runD fs cut o1 none) cut o2 (some (k - o1.length)) := by
  induction o1 with
  | nil => intro fs k _; simp [runD_nil]
  | cons op o1 ih =>
    intro fs k h
    cases k with
    | zero => simp at h
    | succ k =>
      rw [List.cons_append, runD_succ, runD_cons_none, ih _ k (by simpa using h)]
      congr 2
      simp

/-- a fault index beyond the script is no fault -/
theorem runD_ge_length (cut : Nat) (ops : List OpD) :
    ∀ (fs : FS) (k : Nat), ops.length ≤ k → runD fs cut ops (some k) = runD fs cut ops none := by
  induction ops with
  | nil => intro fs k _; rw [runD_nil, runD_nil]
  | cons op ops ih =>
    intro fs k h
    cases k with
    | zero => simp at h
    | succ k => rw [runD_succ, runD_cons_none]; exact ih _ k (by simpa using h)

/-- the path an op acts on -/
def OpD.path : OpD → Str
  | .openR p _ => p
  | .openW p _ => p
  | .write p _ => p
  | .close p _ => p

theorem fsGet_applyD_ne (fs : FS) (op : OpD) (q : Str) (h : op.path ≠ q) : fsGet (applyD fs op) q = fsGet fs q := by
  cases op with
  | openR p e => rfl
  | close p d => rfl
  | openW p e => exact fsGet_fsSet_ne _ _ (Ne.symm h)
  | write p d => exact fsGet_fsSet_ne _ _ (Ne.symm h)

/-- frame: a path no call of the script acts on keeps its bytes, whatever the fault -/
theorem runD_frame (cut : Nat) (q : Str) (ops : List OpD) :
    (∀ op ∈ ops, op.path ≠ q) → ∀ (fs : FS) (k : Option Nat), fsGet (runD fs cut ops k) q = fsGet fs q := by
  induction ops with
  | nil => intro _ fs k; rw [runD_nil]
  | cons op rest ih =>
    intro h fs k
    have hrest : ∀ op ∈ rest, op.path ≠ q := fun o ho => h o (by simp [ho])
    have hop : op.path ≠ q := h op (by simp)
    cases k with
    | none => rw [runD_cons_none, ih hrest, fsGet_applyD_ne _ _ _ hop]
    | some k =>
      cases k with
      | succ k => rw [runD_succ, ih hrest, fsGet_applyD_ne _ _ _ hop]
      | zero =>
        cases op with
        | openR p e => rfl
        | openW p e => rfl
        | write p d => exact fsGet_fsSet_ne _ _ (Ne.symm hop)
        | close p d => exact fsGet_fsSet_ne _ _ (Ne.symm hop)

/-- no stray files: every path of the final map was there before or is the path of a call of the script -/
theorem runD_paths (cut : Nat) (ops : List OpD) :
    ∀ (fs : FS) (k : Option Nat), ∀ q ∈ fsPaths (runD fs cut ops k),
      q ∈ fsPaths fs ∨ ∃ op ∈ ops, op.isRead = false ∧ op.path = q := by
  induction ops with
  | nil => intro fs k q hq; rw [runD_nil] at hq; exact Or.inl hq
  | cons op rest ih =>
    intro fs k q hq
    have papply : ∀ q ∈ fsPaths (applyD fs op), q ∈ fsPaths fs ∨ (op.isRead = false ∧ op.path = q) := by
      intro q hq
      cases op with
      | openR p e => exact Or.inl hq
      | close p d => exact Or.inl hq
      | openW p e =>
        rcases fsPaths_fsSet _ _ _ q hq with h | h
        · exact Or.inl h
        · exact Or.inr ⟨rfl, h.symm⟩
      | write p d =>
        rcases fsPaths_fsSet _ _ _ q hq with h | h
        · exact Or.inl h
        · exact Or.inr ⟨rfl, h.symm⟩
    have lift : (q ∈ fsPaths (applyD fs op) ∨ ∃ o ∈ rest, o.isRead = false ∧ o.path = q) →
        q ∈ fsPaths fs ∨ ∃ o ∈ op :: rest, o.isRead = false ∧ o.path = q := by
      rintro (h | ⟨o, ho, h⟩)
      · rcases papply q h with h | h
        · exact Or.inl h
        · exact Or.inr ⟨op, by simp, h⟩
      · exact Or.inr ⟨o, by simp [ho], h⟩
    cases k with
    | none => rw [runD_cons_none] at hq; exact lift (ih _ _ q hq)
    | some k =>
      cases k with
      | succ k => rw [runD_succ] at hq; exact lift (ih _ _ q hq)
      | zero =>
        cases op with
        | openR p e => exact Or.inl hq
        | openW p e => exact Or.inl hq
        | write p d =>
          rcases fsPaths_fsSet _ _ _ q hq with h | h
          · exact Or.inl h
          · exact Or.inr ⟨OpD.write p d, by simp, rfl, h.symm⟩
        | close p d =>
          rcases fsPaths_fsSet _ _ _ q hq with h | h
          · exact Or.inl h
          · exact Or.inr ⟨OpD.close p d, by simp, rfl, h.symm⟩

/-! ### one block = open / write / close of one file -/

theorem blockD_length (p enc : Str) (d : Bytes) : (blockD p enc d).length = 3 := rfl

theorem blockD_path (p enc : Str) (d : Bytes) : ∀ op ∈ blockD p enc d, op.path = p := by
  intro op h
  simp only [blockD, List.mem_cons, List.not_mem_nil, or_false] at h
  rcases h with rfl | rfl | rfl <;> rfl

theorem blockD_not_read (p enc : Str) (d : Bytes) : ∀ op ∈ blockD p enc d, op.isRead = false := by
  intro op h
  simp only [blockD, List.mem_cons, List.not_mem_nil, or_false] at h
  rcases h with rfl | rfl | rfl <;> rfl

/-- the file written by a block, for every fault index -/
theorem fsGet_run_blockD (fs : FS) (cut : Nat) (p enc : Str) (d : Bytes) (k : Option Nat) :
    fsGet (runD fs cut (blockD p enc d) k) p =
      match k with
      | some 0 => fsGet fs p                    -- open failed
      | some 1 => some (d.take cut)             -- write failed
      | some 2 => some (d.take cut)             -- close failed
      | _ => some d := by
  rcases k with _ | _ | _ | _ | k
  · exact fsGet_fsSet_self _ _ _
  · rfl
  · exact fsGet_fsSet_self _ _ _
  · exact fsGet_fsSet_self _ _ _
  · exact fsGet_fsSet_self _ _ _

/-- a block leaves every other path alone, whatever the fault -/
theorem fsGet_run_blockD_ne (fs : FS) (cut : Nat) (p enc : Str) (d : Bytes) (k : Option Nat) {q : Str} (h : p ≠ q) :
    fsGet (runD fs cut (blockD p enc d) k) q = fsGet fs q := by
  apply runD_frame
  intro op hop
  rw [blockD_path p enc d op hop]
  exact h

theorem saveScriptD_some {c : MutateCfg} {b : Str} (hb : given c.backup = some b) (enc : Str) (bb ob : Bytes) :
    saveScriptD c enc bb ob = blockD b enc bb ++ blockD c.outPath enc ob := by
  simp [saveScriptD, hb]

theorem saveScriptD_none {c : MutateCfg} (hb : given c.backup = none) (enc : Str) (bb ob : Bytes) :
    saveScriptD c enc bb ob = blockD c.outPath enc ob := by
  simp [saveScriptD, hb]

theorem saveScriptD_forget (c : MutateCfg) (enc : Str) (bb ob : Bytes) :
    (saveScriptD c enc bb ob).map OpD.forget = saveOps c enc := by
  unfold saveScriptD saveOps
  cases given c.backup <;> rfl

theorem saveScriptD_path (c : MutateCfg) (enc : Str) (bb ob : Bytes) :
    ∀ op ∈ saveScriptD c enc bb ob, op.path = c.outPath ∨ given c.backup = some op.path := by
  intro op hop
  cases hb : given c.backup with
  | none =>
    rw [saveScriptD_none hb] at hop
    exact Or.inl (blockD_path _ _ _ op hop)
  | some b =>
    rw [saveScriptD_some hb, List.mem_append] at hop
    rcases hop with h | h
    · right; rw [blockD_path _ _ _ op h]
    · left; exact blockD_path _ _ _ op h

/-! ### `clash` and `NoClash` -/

theorem clash_false_iff (c : MutateCfg) : clash c = false ↔ NoClash c := by
  unfold clash NoClash
  cases hb : given c.backup with
  | none => simp
  | some b =>
    simp only [Bool.or_eq_false_iff, decide_eq_false_iff_not, Option.some.injEq]
    constructor
    · intro h b' hb'; cases hb'; exact h
    · intro h; exact h b rfl

theorem clash_true_iff (c : MutateCfg) :
    clash c = true ↔ ∃ b, given c.backup = some b ∧ (b = c.input ∨ some b = c.output) := by
  unfold clash
  cases hb : given c.backup with
  | none => simp
  | some b => simp

/-! ### the case analysis of `mutateD` -/

/-- the run reaches the save: no name clash, the input exists and decodes, loads, the block returns, both texts
serialize and encode. All fields are about the inputs of `mutateD`. -/
structure Saves {Sim : Type} (W : World Sim) (c : MutateCfg) (encs : List Str) (body : Sim → BodyResult Sim)
    (fs : FS) (b₀ : Bytes) (enc t₀ : Str) (s₀ : Sim) (bt : Str) (s₁ : Sim) (ot : Str) (bb ob : Bytes) : Prop where
  noClash : NoClash c
  input : fsGet fs c.input = some b₀
  det : detectD W.codec encs b₀ = some (enc, t₀)
  load : W.load t₀ = .ok s₀
  entry : entryText W c s₀ = .ok bt
  body : body s₀ = .returns s₁
  ser : W.ser s₁ = .ok ot
  encB : (W.codec enc).encode bt = some bb
  encO : (W.codec enc).encode ot = some ob

theorem encs_ne_nil_of_det {cod : Str → Codec} {encs : List Str} {b : Bytes} {x : Str × Str}
    (h : detectD cod encs b = some x) : ∃ e rest, encs = e :: rest := by
  cases encs with
  | nil => cases h
  | cons e rest => exact ⟨e, rest, rfl⟩

/-- the result of a run that reaches the save -/
theorem mutateDWith_saves {Sim : Type} (hs : List (Catch × Action)) {W : World Sim} {c : MutateCfg}
    {encs : List Str} {body : Sim → BodyResult Sim} {fs : FS} {b₀ : Bytes} {enc t₀ : Str} {s₀ : Sim} {bt : Str}
    {s₁ : Sim} {ot : Str} {bb ob : Bytes} (h : Saves W c encs body fs b₀ enc t₀ s₀ bt s₁ ot bb ob)
    (k : Option Nat) (cut : Nat) :
    mutateDWith hs W c encs body fs k cut =
      ⟨(match faultFires (saveScriptD c enc bb ob) k with | some n => .ioError n | none => .returned),
       runD fs cut (saveScriptD c enc bb ob) k,
       readsD W.codec c.input encs b₀ ++ madeD (saveScriptD c enc bb ob) k, some (enc, t₀), some s₀⟩ := by
  obtain ⟨e, rest, rfl⟩ := encs_ne_nil_of_det h.det
  unfold mutateDWith
  simp only [(clash_false_iff c).mpr h.noClash, Bool.false_eq_true, if_false, h.input, h.det, h.load, h.entry,
    h.body, h.ser, h.encB, h.encO]
  rfl

/-- every run either leaves the filesystem exactly as it was, having made only open-for-reading calls, or reaches
the save -/
theorem mutateDWith_cases {Sim : Type} (hs : List (Catch × Action)) (W : World Sim) (c : MutateCfg)
    (encs : List Str) (body : Sim → BodyResult Sim) (fs : FS) (k : Option Nat) (cut : Nat) :
    ((mutateDWith hs W c encs body fs k cut).fs = fs ∧
      ∀ op ∈ (mutateDWith hs W c encs body fs k cut).trace, ∃ e, op = OpD.openR c.input e) ∨
    ∃ b₀ enc t₀ s₀ bt s₁ ot bb ob, Saves W c encs body fs b₀ enc t₀ s₀ bt s₁ ot bb ob := by
  by_cases hcl : clash c = true
  · left; unfold mutateDWith; simp [hcl]
  have hnc : NoClash c := (clash_false_iff c).mp (by simpa using hcl)
  cases encs with
  | nil => left; unfold mutateDWith; simp [hcl]
  | cons e₀ rest =>
  cases hin : fsGet fs c.input with
  | none => left; unfold mutateDWith; simp [hcl, hin]
  | some b₀ =>
  have hr := readsD_all_read W.codec c.input (e₀ :: rest) b₀
  cases hdet : detectD W.codec (e₀ :: rest) b₀ with
  | none => left; unfold mutateDWith; simp only [hcl, hin, hdet]; exact ⟨rfl, hr⟩
  | some x =>
  obtain ⟨enc, t₀⟩ := x
  cases hload : W.load t₀ with
  | error er => left; unfold mutateDWith; simp only [hcl, hin, hdet, hload]; exact ⟨rfl, hr⟩
  | ok s₀ =>
  cases hentry : entryText W c s₀ with
  | error er => left; unfold mutateDWith; simp only [hcl, hin, hdet, hload, hentry]; exact ⟨rfl, hr⟩
  | ok bt =>
  cases hbody : body s₀ with
  | raises x => left; unfold mutateDWith; simp only [hcl, hin, hdet, hload, hentry, hbody]; exact ⟨rfl, hr⟩
  | returns s₁ =>
  cases hser : W.ser s₁ with
  | error er => left; unfold mutateDWith; simp only [hcl, hin, hdet, hload, hentry, hbody, hser]; exact ⟨rfl, hr⟩
  | ok ot =>
  cases hbb : (W.codec enc).encode bt with
  | none =>
    left; unfold mutateDWith; simp only [hcl, hin, hdet, hload, hentry, hbody, hser, hbb]; exact ⟨rfl, hr⟩
  | some bb =>
  cases hob : (W.codec enc).encode ot with
  | none =>
    left; unfold mutateDWith; simp only [hcl, hin, hdet, hload, hentry, hbody, hser, hbb, hob]; exact ⟨rfl, hr⟩
  | some ob =>
    right
    exact ⟨b₀, enc, t₀, s₀, bt, s₁, ot, bb, ob, ⟨hnc, hin, hdet, hload, hentry, hbody, hser, hbb, hob⟩⟩

end MD
end Simfile
