/-
`packSimfileDirs` (Model/Tree.lean) on a directory whose entry names are valid and distinct: what each round of the
loop yields, and the whole result as a filter of the entries.
-/
import Simfile.Lemmas.TreeFs
import Simfile.Lemmas.Dir
namespace Simfile.TreeL
open Simfile Simfile.Path Simfile.PathL

theorem mapM_except_cons {ε α β} (g : α → Except ε β) (a : α) (l : List α) :
    (a :: l).mapM g =
      match g a with
      | .error e => .error e
      | .ok b => match l.mapM g with
        | .error e => .error e
        | .ok bs => .ok (b :: bs) := by
  rw [List.mapM_cons]
  cases g a with
  | error e => rfl
  | ok b => cases l.mapM g <;> rfl

/-- is this entry of the pack directory reported: a directory with a simfile name directly in it -/
def reported (e : Str × Node) : Bool := e.2.isDir && hasSimfile e.2.names

/-- one round of the loop, for an entry of the pack directory -/
theorem packItem_entry {t : Node} {nd : Str} (hn : normpath nd = some nd) {es : List (Str × Node)}
    (hr : resolve t nd = .ok (some (.dir es))) (hok : NamesOk es) {e : Str × Node} (he : e ∈ es) :
    packItem t nd e.1 = .ok (if reported e then some (childPath nd e.1) else none) := by
  obtain ⟨name, k⟩ := e
  have hv : validName name = true := hok.1 _ he
  have hres : resolve t (childPath nd name) = .ok (some k) := by
    rw [resolve_childPath hn hv hr]
    simp only [Option.bind_some]
    rw [child_of_mem hok.2 he]
  unfold packItem reported
  rw [join_normal_valid hn hv]
  simp only
  rw [isdir_of_resolve hres]
  cases k with
  | file c => rfl
  | dir sub =>
    simp only [Option.map_some, Option.getD_some, Node.isDir]
    rw [listdir_of_resolve hres]
    rfl

theorem packItems {t : Node} {nd : Str} (hn : normpath nd = some nd) {es : List (Str × Node)}
    (hr : resolve t nd = .ok (some (.dir es))) (hok : NamesOk es) :
    ∀ (sub : List (Str × Node)), (∀ e ∈ sub, e ∈ es) →
      (sub.map (·.1)).mapM (packItem t nd) =
        .ok (sub.map fun e => if reported e then some (childPath nd e.1) else none) := by
  intro sub
  induction sub with
  | nil => intro _; rfl
  | cons e rest ih =>
    intro h
    rw [List.map_cons, mapM_except_cons, packItem_entry hn hr hok (h e (by simp)),
      ih (fun x hx => h x (by simp [hx]))]
    rfl

theorem filterMap_ite {α β} (p : α → Bool) (f : α → β) (l : List α) :
    (l.map fun a => if p a then some (f a) else none).filterMap id = (l.filter p).map f := by
  induction l with
  | nil => rfl
  | cons a l ih =>
    rw [List.map_cons, List.filterMap_cons, List.filter_cons]
    cases p a with
    | true => simp [ih]
    | false => simp [ih]

/-- the result on a normal pack path -/
theorem packSimfileDirs_normal {t : Node} {nd : Str} (hn : normpath nd = some nd) {es : List (Str × Node)}
    (hr : resolve t nd = .ok (some (.dir es))) (hok : NamesOk es) :
    packSimfileDirs t nd = .ok ((es.filter reported).map fun e => childPath nd e.1) := by
  unfold packSimfileDirs
  rw [hn]
  simp only
  rw [listdir_of_resolve hr]
  simp only
  rw [packItems hn hr hok es (fun _ h => h)]
  simp only
  rw [filterMap_ite]

/-- the result on any pack path that resolves to a directory -/
theorem packSimfileDirs_eq {t : Node} {p : Str} {es : List (Str × Node)}
    (hr : resolve t p = .ok (some (.dir es))) (hok : NamesOk es) :
    ∃ nd, normpath p = some nd ∧
      packSimfileDirs t p = .ok ((es.filter reported).map fun e => childPath nd e.1) := by
  obtain ⟨nd, h1, h2, h3⟩ := resolve_normpath hr
  refine ⟨nd, h1, ?_⟩
  have := packSimfileDirs_normal h2 h3 hok
  unfold packSimfileDirs at this ⊢
  rw [h2] at this
  rw [h1]
  exact this

theorem packDirs_packEntries (es : List (Str × Node)) :
    packDirs (Node.packEntries (.dir es)) = (es.filter reported).map (·.1) := by
  unfold packDirs Node.packEntries
  rw [List.filter_map, List.map_map]
  rfl


theorem names_of_packEntries (es : List (Str × Node)) :
    (Node.packEntries (.dir es)).map (·.name) = es.map (·.1) := by
  unfold Node.packEntries
  rw [List.map_map]
  rfl


theorem childPath_length (nd f : Str) (hf : f ≠ []) : nd.length < (childPath nd f).length := by
  have hpos : 0 < f.length := List.length_pos_iff.mpr hf
  unfold childPath
  split
  · rename_i h; subst h; exact hpos
  · split
    · rename_i h; subst h; simp; omega
    · simp


/-! ### `SimfileDirectory` paths -/

theorem joinE_entry {p nd : Str} (hp : normpath p = some nd) {f : Str} (hf : validName f = true) :
    joinE p f = .ok (childPath nd f) := by
  unfold joinE
  rw [join_of_normpath hp hf]

theorem mapM_joinE {p nd : Str} (hp : normpath p = some nd) (o : Option Str)
    (hv : ∀ x, o = some x → validName x = true) :
    o.mapM (joinE p) = .ok (o.map (childPath nd)) := by
  cases o with
  | none => rfl
  | some x =>
    simp only [Option.mapM, Option.map_some]
    rw [joinE_entry hp (hv x rfl)]
    rfl


end Simfile.TreeL
