/-
C11 helper: `coalesceWarps` characterised as a list of disjoint, chronological, non-empty segments whose
union is the union of the warp intervals.
-/
import Simfile.Lemmas.EngineBasic
namespace Simfile

/-- the coalesced warp segments as pairs (start, end), chronological -/
def segs (ws : List (Rat × Rat)) : List (Rat × Rat) := (coalesceWarps ws).1.zip (coalesceWarps ws).2

/-- one step of the coalescing fold on a single reversed list of intervals `(start, end)` -/
def coStepP (acc : List (Rat × Rat)) (p : Rat × Rat) : List (Rat × Rat) :=
  match acc with
  | [] => [p]
  | (ls, le) :: tl =>
    if p.1 ≤ le then (if p.2 > le then (ls, p.2) :: tl else (ls, le) :: tl)
    else p :: (ls, le) :: tl

/-- the interval of a warp row -/
def wIv (w : Rat × Rat) : Rat × Rat := (w.1, w.1 + roundToTick w.2)

def coStep (acc : List (Rat × Rat)) (w : Rat × Rat) : List (Rat × Rat) := coStepP acc (wIv w)

/-- the model's step function, verbatim -/
def mStep : List Rat × List Rat → Rat × Rat → List Rat × List Rat :=
  fun (acc : List Rat × List Rat) w =>
    let (starts, ends) := acc    -- both reversed
    let wEnd := w.1 + roundToTick w.2
    match ends with
    | [] => (w.1 :: starts, wEnd :: ends)
    | lastEnd :: endsTl =>
      if w.1 ≤ lastEnd then
        (if wEnd > lastEnd then (starts, wEnd :: endsTl) else (starts, ends))
      else (w.1 :: starts, wEnd :: ends)

theorem coalesceWarps_eq_mStep (ws : List (Rat × Rat)) :
    coalesceWarps ws = ((ws.foldl mStep ([], [])).1.reverse, (ws.foldl mStep ([], [])).2.reverse) := rfl

theorem mStep_map (acc : List (Rat × Rat)) (w : Rat × Rat) :
    mStep (acc.map (·.1), acc.map (·.2)) w = ((coStep acc w).map (·.1), (coStep acc w).map (·.2)) := by
  cases acc with
  | nil => simp [mStep, coStep, coStepP, wIv]
  | cons a tl =>
    obtain ⟨ls, le⟩ := a
    simp only [mStep, coStep, coStepP, wIv, List.map_cons]
    by_cases h1 : w.1 ≤ le
    · by_cases h2 : w.1 + roundToTick w.2 > le
      · simp [h1, h2]
      · simp [h1, h2]
    · simp [h1]

theorem foldl_mStep_map (ws : List (Rat × Rat)) : ∀ acc : List (Rat × Rat),
    ws.foldl mStep (acc.map (·.1), acc.map (·.2)) =
      ((ws.foldl coStep acc).map (·.1), (ws.foldl coStep acc).map (·.2)) := by
  induction ws with
  | nil => intro acc; rfl
  | cons w ws ih => intro acc; rw [List.foldl_cons, mStep_map, ih, List.foldl_cons]

theorem zip_map_fst_snd (l : List (Rat × Rat)) : (l.map (·.1)).zip (l.map (·.2)) = l := by
  induction l with
  | nil => rfl
  | cons a tl ih => simp [ih]

theorem coalesceWarps_eq_fold (ws : List (Rat × Rat)) :
    coalesceWarps ws =
      ((ws.foldl coStep []).reverse.map (·.1), (ws.foldl coStep []).reverse.map (·.2)) := by
  have h := foldl_mStep_map ws []
  simp only [List.map_nil] at h
  rw [coalesceWarps_eq_mStep, h, List.map_reverse, List.map_reverse]

theorem segs_eq_fold (ws : List (Rat × Rat)) : segs ws = (ws.foldl coStep []).reverse := by
  rw [segs, coalesceWarps_eq_fold, zip_map_fst_snd]

theorem coalesce_eq (ws : List (Rat × Rat)) :
    coalesceWarps ws = ((segs ws).map (·.1), (segs ws).map (·.2)) := by
  rw [segs_eq_fold, coalesceWarps_eq_fold]

/-! ### the invariant of the fold -/

theorem covers_cons (a : Rat × Rat) (l : List (Rat × Rat)) (x : Rat) :
    (∃ s ∈ a :: l, s.1 ≤ x ∧ x < s.2) ↔ (a.1 ≤ x ∧ x < a.2) ∨ ∃ s ∈ l, s.1 ≤ x ∧ x < s.2 := by
  simp

theorem coStepP_nil (p : Rat × Rat) : coStepP [] p = [p] := rfl

theorem coStepP_merge {ls le : Rat} {tl : List (Rat × Rat)} {p : Rat × Rat} (h1 : p.1 ≤ le) (h2 : le < p.2) :
    coStepP ((ls, le) :: tl) p = (ls, p.2) :: tl := by
  simp [coStepP, h1, h2]

theorem coStepP_skip {ls le : Rat} {tl : List (Rat × Rat)} {p : Rat × Rat} (h1 : p.1 ≤ le) (h2 : ¬ le < p.2) :
    coStepP ((ls, le) :: tl) p = (ls, le) :: tl := by
  simp [coStepP, h1, h2]

theorem coStepP_push {ls le : Rat} {tl : List (Rat × Rat)} {p : Rat × Rat} (h1 : ¬ p.1 ≤ le) :
    coStepP ((ls, le) :: tl) p = p :: (ls, le) :: tl := by
  simp [coStepP, h1]

theorem covers_cons' (w : Rat × Rat) (l : List (Rat × Rat)) (x : Rat) :
    (∃ v ∈ w :: l, v.1 ≤ x ∧ x < v.1 + roundToTick v.2) ↔
      (w.1 ≤ x ∧ x < w.1 + roundToTick w.2) ∨ ∃ v ∈ l, v.1 ≤ x ∧ x < v.1 + roundToTick v.2 := by
  simp

/-- what one step preserves and adds -/
structure StepOK (acc : List (Rat × Rat)) (p : Rat × Rat) (r : List (Rat × Rat)) : Prop where
  pw : r.Pairwise (fun a b => b.2 < a.1)
  ne : ∀ s ∈ r, s.1 < s.2
  le : ∀ s ∈ r, s.1 ≤ p.1
  cov : ∀ x : Rat, (∃ s ∈ r, s.1 ≤ x ∧ x < s.2) ↔ (∃ s ∈ acc, s.1 ≤ x ∧ x < s.2) ∨ (p.1 ≤ x ∧ x < p.2)
  prov : ∀ s ∈ r, (s.1 = p.1 ∨ ∃ a ∈ acc, s.1 = a.1) ∧ (s.2 = p.2 ∨ ∃ a ∈ acc, s.2 = a.2)

theorem stepOK_nil (p : Rat × Rat) (hp : p.1 < p.2) : StepOK [] p [p] where
  pw := List.pairwise_singleton _ _
  ne := by intro s hs; rw [List.mem_singleton] at hs; subst hs; exact hp
  le := by intro s hs; rw [List.mem_singleton] at hs; subst hs; exact le_refl _
  cov := by intro x; simp
  prov := by intro s hs; rw [List.mem_singleton] at hs; subst hs; exact ⟨Or.inl rfl, Or.inl rfl⟩

theorem stepOK_merge {ls le : Rat} {tl : List (Rat × Rat)} {p : Rat × Rat}
    (hpw : ((ls, le) :: tl).Pairwise (fun a b => b.2 < a.1))
    (hne : ∀ s ∈ (ls, le) :: tl, s.1 < s.2)
    (hlt : ∀ s ∈ (ls, le) :: tl, s.1 < p.1)
    (h1 : p.1 ≤ le) (h2 : le < p.2) : StepOK ((ls, le) :: tl) p ((ls, p.2) :: tl) := by
  rw [List.pairwise_cons] at hpw
  rw [List.forall_mem_cons] at hne hlt
  obtain ⟨hhd, htl⟩ := hpw
  obtain ⟨hls, hne'⟩ := hne
  obtain ⟨hlsp, hlt'⟩ := hlt
  simp only at hls hlsp
  refine ⟨List.pairwise_cons.2 ⟨hhd, htl⟩, ?_, ?_, ?_, ?_⟩
  · rw [List.forall_mem_cons]
    exact ⟨by simp only; linarith, hne'⟩
  · rw [List.forall_mem_cons]
    exact ⟨le_of_lt hlsp, fun s hs => le_of_lt (hlt' s hs)⟩
  · intro x
    rw [covers_cons, covers_cons]
    simp only
    constructor
    · rintro (⟨ha, hb⟩ | hc)
      · rcases lt_or_ge x le with hx | hx
        · exact Or.inl (Or.inl ⟨ha, hx⟩)
        · exact Or.inr ⟨le_trans h1 hx, hb⟩
      · exact Or.inl (Or.inr hc)
    · rintro ((⟨ha, hb⟩ | hc) | ⟨ha, hb⟩)
      · exact Or.inl ⟨ha, lt_trans hb h2⟩
      · exact Or.inr hc
      · exact Or.inl ⟨le_trans (le_of_lt hlsp) ha, hb⟩
  · rw [List.forall_mem_cons]
    refine ⟨⟨Or.inr ⟨(ls, le), List.mem_cons_self, rfl⟩, Or.inl rfl⟩, ?_⟩
    intro s hs
    exact ⟨Or.inr ⟨s, List.mem_cons_of_mem _ hs, rfl⟩, Or.inr ⟨s, List.mem_cons_of_mem _ hs, rfl⟩⟩

theorem stepOK_skip {ls le : Rat} {tl : List (Rat × Rat)} {p : Rat × Rat}
    (hpw : ((ls, le) :: tl).Pairwise (fun a b => b.2 < a.1))
    (hne : ∀ s ∈ (ls, le) :: tl, s.1 < s.2)
    (hlt : ∀ s ∈ (ls, le) :: tl, s.1 < p.1)
    (_h1 : p.1 ≤ le) (h2 : ¬ le < p.2) : StepOK ((ls, le) :: tl) p ((ls, le) :: tl) := by
  have h2' : p.2 ≤ le := not_lt.1 h2
  have hlsp : ls < p.1 := hlt _ List.mem_cons_self
  refine ⟨hpw, hne, fun s hs => le_of_lt (hlt s hs), ?_, ?_⟩
  · intro x
    constructor
    · exact Or.inl
    · rintro (h | ⟨ha, hb⟩)
      · exact h
      · exact ⟨(ls, le), List.mem_cons_self, le_trans (le_of_lt hlsp) ha, lt_of_lt_of_le hb h2'⟩
  · intro s hs
    exact ⟨Or.inr ⟨s, hs, rfl⟩, Or.inr ⟨s, hs, rfl⟩⟩

theorem stepOK_push {ls le : Rat} {tl : List (Rat × Rat)} {p : Rat × Rat}
    (hpw : ((ls, le) :: tl).Pairwise (fun a b => b.2 < a.1))
    (hne : ∀ s ∈ (ls, le) :: tl, s.1 < s.2)
    (hlt : ∀ s ∈ (ls, le) :: tl, s.1 < p.1)
    (hp : p.1 < p.2)
    (h1 : ¬ p.1 ≤ le) : StepOK ((ls, le) :: tl) p (p :: (ls, le) :: tl) := by
  have h1' : le < p.1 := not_le.1 h1
  have hhd : ∀ b ∈ tl, b.2 < ls := (List.pairwise_cons.1 hpw).1
  have hls : ls < le := hne _ List.mem_cons_self
  refine ⟨List.pairwise_cons.2 ⟨?_, hpw⟩, ?_, ?_, ?_, ?_⟩
  · rw [List.forall_mem_cons]
    refine ⟨h1', fun b hb => ?_⟩
    have := hhd b hb
    linarith
  · rw [List.forall_mem_cons]
    exact ⟨hp, hne⟩
  · rw [List.forall_mem_cons]
    exact ⟨le_refl _, fun s hs => le_of_lt (hlt s hs)⟩
  · intro x
    rw [covers_cons]
    exact Or.comm
  · rw [List.forall_mem_cons]
    refine ⟨⟨Or.inl rfl, Or.inl rfl⟩, fun s hs => ?_⟩
    exact ⟨Or.inr ⟨s, hs, rfl⟩, Or.inr ⟨s, hs, rfl⟩⟩

theorem coStepP_ok (acc : List (Rat × Rat)) (p : Rat × Rat)
    (hpw : acc.Pairwise (fun a b => b.2 < a.1))
    (hne : ∀ s ∈ acc, s.1 < s.2)
    (hlt : ∀ s ∈ acc, s.1 < p.1)
    (hp : p.1 < p.2) : StepOK acc p (coStepP acc p) := by
  cases acc with
  | nil => exact stepOK_nil p hp
  | cons a tl =>
    obtain ⟨ls, le⟩ := a
    by_cases h1 : p.1 ≤ le
    · by_cases h2 : le < p.2
      · rw [coStepP_merge h1 h2]; exact stepOK_merge hpw hne hlt h1 h2
      · rw [coStepP_skip h1 h2]; exact stepOK_skip hpw hne hlt h1 h2
    · rw [coStepP_push h1]; exact stepOK_push hpw hne hlt hp h1

/-- the invariant of the whole fold -/
structure FoldOK (acc ws r : List (Rat × Rat)) : Prop where
  pw : r.Pairwise (fun a b => b.2 < a.1)
  ne : ∀ s ∈ r, s.1 < s.2
  cov : ∀ x : Rat, (∃ s ∈ r, s.1 ≤ x ∧ x < s.2) ↔
    (∃ s ∈ acc, s.1 ≤ x ∧ x < s.2) ∨ (∃ w ∈ ws, w.1 ≤ x ∧ x < w.1 + roundToTick w.2)
  prov : ∀ s ∈ r, ((∃ a ∈ acc, s.1 = a.1) ∨ (∃ w ∈ ws, s.1 = w.1)) ∧
    ((∃ a ∈ acc, s.2 = a.2) ∨ (∃ w ∈ ws, s.2 = w.1 + roundToTick w.2))

theorem foldl_coStep_ok (ws : List (Rat × Rat)) : ∀ acc : List (Rat × Rat),
    acc.Pairwise (fun a b => b.2 < a.1) →
    (∀ s ∈ acc, s.1 < s.2) →
    (∀ s ∈ acc, ∀ w ∈ ws, s.1 < w.1) →
    (∀ w ∈ ws, 0 < roundToTick w.2) →
    (ws.map (·.1)).Pairwise (· < ·) →
    FoldOK acc ws (ws.foldl coStep acc) := by
  induction ws with
  | nil =>
    intro acc hpw hne _ _ _
    exact ⟨hpw, hne, fun x => by simp, fun s hs => ⟨Or.inl ⟨s, hs, rfl⟩, Or.inl ⟨s, hs, rfl⟩⟩⟩
  | cons w ws ih =>
    intro acc hpw hne hlt hpos hsorted
    rw [List.map_cons, List.pairwise_cons] at hsorted
    obtain ⟨hw, hsorted'⟩ := hsorted
    have hwpos : 0 < roundToTick w.2 := hpos w List.mem_cons_self
    have hp : (wIv w).1 < (wIv w).2 := by simp only [wIv]; linarith
    have st := coStepP_ok acc (wIv w) hpw hne (fun s hs => hlt s hs w List.mem_cons_self) hp
    have hlt2 : ∀ s ∈ coStep acc w, ∀ w' ∈ ws, s.1 < w'.1 := by
      intro s hs w' hw'
      have h1 : s.1 ≤ w.1 := st.le s hs
      have h2 : w.1 < w'.1 := hw w'.1 (List.mem_map_of_mem hw')
      exact lt_of_le_of_lt h1 h2
    have r := ih (coStep acc w) st.pw st.ne hlt2 (fun w' hw' => hpos w' (List.mem_cons_of_mem _ hw')) hsorted'
    rw [List.foldl_cons]
    refine ⟨r.pw, r.ne, ?_, ?_⟩
    · intro x
      have h2 : (∃ s ∈ coStep acc w, s.1 ≤ x ∧ x < s.2) ↔
          (∃ s ∈ acc, s.1 ≤ x ∧ x < s.2) ∨ (w.1 ≤ x ∧ x < w.1 + roundToTick w.2) := st.cov x
      rw [r.cov x, h2, covers_cons' w ws x]
      exact or_assoc
    · intro s hs
      obtain ⟨p1, p2⟩ := r.prov s hs
      constructor
      · rcases p1 with ⟨a, ha, e⟩ | ⟨w', hw', e⟩
        · rcases (st.prov a ha).1 with e' | ⟨b, hb, e'⟩
          · exact Or.inr ⟨w, List.mem_cons_self, e.trans e'⟩
          · exact Or.inl ⟨b, hb, e.trans e'⟩
        · exact Or.inr ⟨w', List.mem_cons_of_mem _ hw', e⟩
      · rcases p2 with ⟨a, ha, e⟩ | ⟨w', hw', e⟩
        · rcases (st.prov a ha).2 with e' | ⟨b, hb, e'⟩
          · exact Or.inr ⟨w, List.mem_cons_self, e.trans e'⟩
          · exact Or.inl ⟨b, hb, e.trans e'⟩
        · exact Or.inr ⟨w', List.mem_cons_of_mem _ hw', e⟩

theorem segs_spec (ws : List (Rat × Rat)) (hpos : ∀ w ∈ ws, 0 < roundToTick w.2)
    (hsorted : (ws.map (·.1)).Pairwise (· < ·)) :
    (segs ws).Pairwise (fun a b => a.2 < b.1) ∧
    (∀ s ∈ segs ws, s.1 < s.2) ∧
    (∀ x : Rat, (∃ s ∈ segs ws, s.1 ≤ x ∧ x < s.2) ↔ (∃ w ∈ ws, w.1 ≤ x ∧ x < w.1 + roundToTick w.2)) ∧
    (∀ s ∈ segs ws, (∃ w ∈ ws, s.1 = w.1) ∧ (∃ w ∈ ws, s.2 = w.1 + roundToTick w.2)) := by
  have r := foldl_coStep_ok ws [] List.Pairwise.nil (by simp) (by simp) hpos hsorted
  rw [segs_eq_fold]
  refine ⟨List.pairwise_reverse.2 r.pw, ?_, ?_, ?_⟩
  · intro s hs; exact r.ne s (List.mem_reverse.1 hs)
  · intro x
    have := r.cov x
    simp only [List.not_mem_nil, false_and, exists_false, false_or] at this
    rw [← this]
    simp only [List.mem_reverse]
  · intro s hs
    obtain ⟨p1, p2⟩ := r.prov s (List.mem_reverse.1 hs)
    simp only [List.not_mem_nil, false_and, exists_false, false_or] at p1 p2
    exact ⟨p1, p2⟩

/-- non-vacuity: an input meeting both hypotheses that exercises the merge, skip and push steps -/
example :
    (∀ w ∈ [((0 : Rat), (1 : Rat)), (1/2, 1), (1, 1/4), (4, 2)], 0 < roundToTick w.2) ∧
    ([((0 : Rat), (1 : Rat)), (1/2, 1), (1, 1/4), (4, 2)].map (·.1)).Pairwise (· < ·) ∧
    segs [(0, 1), (1/2, 1), (1, 1/4), (4, 2)] = [(0, 3/2), (4, 6)] := by decide +kernel

end Simfile
