/-
The lexer model loses nothing: every token carries its source characters (`Tok.src`), and the sources of the
tokens `MsdP.lex` produces concatenate back to the text (msdparser's documented lexer guarantee "Concatenating all
of the tokenized strings together will produce the original input"). The model's ESCAPE token keeps only the
escaped character (the backslash is reconstructed), its COMMENT token keeps the whole "//…" text.
-/
import Simfile.Lemmas.MsdLexFuel
import Simfile.Lemmas.MsdLexParse
namespace Simfile.MsdP

/-- the source characters of a token (the `str` of msdparser's `(MSDToken, str)` pair) -/
def Tok.src : Tok → Str
  | .text s => s
  | .start => ['#']
  | .next => [':']
  | .endp => [';']
  | .escape d => ['\\', d]
  | .comment s => s

/-- the text a token list stands for -/
def render (ts : List Tok) : Str := (ts.map Tok.src).flatten

theorem render_nil : render [] = [] := rfl
theorem render_cons (t : Tok) (ts : List Tok) : render (t :: ts) = t.src ++ render ts := by
  simp [render]
theorem render_append (a b : List Tok) : render (a ++ b) = render a ++ render b := by
  simp [render]

theorem map_ok_inv {ε α} {r : Except ε (List α)} {a : α} {ts : List α}
    (h : r.map (a :: ·) = .ok ts) : ∃ rest, r = .ok rest ∧ ts = a :: rest := by
  cases r with
  | error e => simp [Except.map] at h
  | ok rest =>
    simp only [Except.map, Except.ok.injEq] at h
    exact ⟨rest, rfl, h.symm⟩

theorem not_plain_cases {c : Char} (h : ¬ isPlain c = true) (h1 : ¬ c = '#') (h2 : ¬ c = ':') (h3 : ¬ c = ';')
    (h4 : ¬ c = '\\') : c = '/' := by
  apply Classical.byContradiction
  intro hc
  exact h (by simp [isPlain, h1, h2, h3, h4, hc])

/-- one step of the lexer: the first token, the remaining text and the lexer state after it; the token's source
followed by the remaining text is the text -/
theorem lexF_step (c : Char) (cs : Str) (i l : Bool) (ts : List Tok) (h : lexF (c :: cs) i l = .ok ts) :
    ∃ tok r i' l' rest, ts = tok :: rest ∧ lexF r i' l' = .ok rest ∧ c :: cs = tok.src ++ r ∧
      tok.src.head? = some c ∧ r.length < (c :: cs).length ∧ i' = insideStep i tok := by
  rw [lexF_cons] at h
  have hd := length_dropWhile_le isPlain cs
  have hd2 := length_dropWhile_le (fun x => !isNl x) cs
  split at h
  · obtain ⟨rest, hr, rfl⟩ := map_ok_inv h
    exact ⟨_, _, _, _, rest, rfl, hr, by simp [Tok.src], by simp [Tok.src], by simp only [List.length_cons]; omega, rfl⟩
  split at h
  · subst c
    split at h
    · obtain ⟨rest, hr, rfl⟩ := map_ok_inv h
      exact ⟨_, _, _, _, rest, rfl, hr, by simp [Tok.src], by simp [Tok.src], by simp, by simp_all [insideStep]⟩
    · obtain ⟨rest, hr, rfl⟩ := map_ok_inv h
      exact ⟨_, _, _, _, rest, rfl, hr, by simp [Tok.src], by simp [Tok.src], by simp, by simp_all [insideStep]⟩
  split at h
  · subst c
    split at h
    · obtain ⟨rest, hr, rfl⟩ := map_ok_inv h
      exact ⟨_, _, _, _, rest, rfl, hr, by simp [Tok.src], by simp [Tok.src], by simp, by simp_all [insideStep]⟩
    · obtain ⟨rest, hr, rfl⟩ := map_ok_inv h
      exact ⟨_, _, _, _, rest, rfl, hr, by simp [Tok.src], by simp [Tok.src], by simp, by simp_all [insideStep]⟩
  split at h
  · subst c
    split at h
    · obtain ⟨rest, hr, rfl⟩ := map_ok_inv h
      exact ⟨_, _, _, _, rest, rfl, hr, by simp [Tok.src], by simp [Tok.src], by simp, by simp_all [insideStep]⟩
    · obtain ⟨rest, hr, rfl⟩ := map_ok_inv h
      exact ⟨_, _, _, _, rest, rfl, hr, by simp [Tok.src], by simp [Tok.src], by simp, by simp_all [insideStep]⟩
  split at h
  · subst c
    split at h
    · simp at h
    · split at h
      · obtain ⟨rest, hr, rfl⟩ := map_ok_inv h
        exact ⟨_, _, _, _, rest, rfl, hr, by simp [Tok.src], by simp [Tok.src], by simp; omega, by simp_all [insideStep]⟩
      · obtain ⟨rest, hr, rfl⟩ := map_ok_inv h
        exact ⟨_, _, _, _, rest, rfl, hr, by simp [Tok.src], by simp [Tok.src], by simp; omega, by simp_all [insideStep]⟩
  · have hc : c = '/' := not_plain_cases (by assumption) (by assumption) (by assumption) (by assumption) (by assumption)
    subst hc
    split at h
    · obtain ⟨rest, hr, rfl⟩ := map_ok_inv h
      exact ⟨_, _, _, _, rest, rfl, hr, by simp [Tok.src], by simp [Tok.src],
        by simp only [List.length_cons] at hd2 ⊢; omega, rfl⟩
    · obtain ⟨rest, hr, rfl⟩ := map_ok_inv h
      exact ⟨_, _, _, _, rest, rfl, hr, by simp [Tok.src], by simp [Tok.src], by simp, by simp_all [insideStep]⟩

/-- the lexer loses nothing, from any lexer state -/
theorem lexF_concat : ∀ (n : Nat) (s : Str), s.length ≤ n → ∀ (i l : Bool) (ts : List Tok),
    lexF s i l = .ok ts → render ts = s := by
  intro n
  induction n with
  | zero =>
    intro s hs i l ts h
    have : s = [] := by simpa using hs
    subst this
    rw [lexF_nil] at h
    cases h; rfl
  | succ n ih =>
    intro s hs i l ts h
    cases s with
    | nil => rw [lexF_nil] at h; cases h; rfl
    | cons c cs =>
      obtain ⟨tok, r, i', l', rest, rfl, hr, hsrc, _, hlen, _⟩ := lexF_step c cs i l ts h
      rw [render_cons, ih r (by simp only [List.length_cons] at hs hlen; omega) i' l' rest hr, hsrc]

end Simfile.MsdP
