/-
Lemmas about the attribute / key views (`attrKey`, `attrGet`, `vstep`, `vrun`) for C18 (also used by C15–C17).
-/
import Simfile.Model.Views
import Simfile.Lemmas.DictV
namespace Simfile.V
open Simfile Simfile.O

/-! ### `nameOrAlias` -/

theorem nameOrAlias_none (d : Dict) (key : Str) : nameOrAlias d key none = key := rfl

theorem nameOrAlias_key (d : Dict) (key : Str) (alias : Option Str) (h : d.contains key = true) :
    nameOrAlias d key alias = key := by
  cases alias with
  | none => rfl
  | some al => simp [nameOrAlias, h]

theorem nameOrAlias_alias (d : Dict) (key al : Str) (h : d.contains key = false) (h' : d.contains al = true) :
    nameOrAlias d key (some al) = al := by
  simp [nameOrAlias, h, h']

theorem nameOrAlias_neither (d : Dict) (key : Str) (alias : Option Str)
    (h' : ∀ al, alias = some al → d.contains al = false) : nameOrAlias d key alias = key := by
  cases alias with
  | none => rfl
  | some al => simp [nameOrAlias, h' al rfl]

theorem nameOrAlias_cases (d : Dict) (key : Str) (alias : Option Str) :
    nameOrAlias d key alias = key ∨
      ∃ al, alias = some al ∧ d.contains key = false ∧ d.contains al = true ∧ nameOrAlias d key alias = al := by
  cases alias with
  | none => exact Or.inl rfl
  | some al =>
    by_cases h : d.contains key = true
    · exact Or.inl (nameOrAlias_key d key _ h)
    · have h : d.contains key = false := by simpa using h
      by_cases h' : d.contains al = true
      · exact Or.inr ⟨al, rfl, h, h', nameOrAlias_alias d key al h h'⟩
      · exact Or.inl (nameOrAlias_neither d key _ (by intro al' e; cases e; simpa using h'))

/-- writing under the resolved key does not change the resolution -/
theorem nameOrAlias_set (d : Dict) (key : Str) (alias : Option Str) (v : Option Str) :
    nameOrAlias (d.set (nameOrAlias d key alias) v) key alias = nameOrAlias d key alias := by
  rcases nameOrAlias_cases d key alias with h | ⟨al, rfl, hk, ha, h⟩
  · rw [h]; exact nameOrAlias_key _ _ _ (contains_set_self d key v)
  · rw [h]
    have hne : key ≠ al := by intro e; rw [e, ha] at hk; cases hk
    exact nameOrAlias_alias _ _ _ (by rw [contains_set_ne _ _ _ _ hne, hk]) (contains_set_self d al v)

/-! ### `attrKey`, `attrGet` -/

theorem attrKey_of_find (k : Kind) (d : Dict) (a key : Str) (alias : Option Str)
    (h : (propsTable k).find? (·.1 = a) = some (a, key, alias)) :
    attrKey k d a = some (nameOrAlias d key alias) := by
  unfold attrKey; rw [h]; rfl

theorem attrKey_some (k : Kind) (d : Dict) (a key' : Str) (h : attrKey k d a = some key') :
    ∃ key alias, (propsTable k).find? (·.1 = a) = some (a, key, alias) ∧ key' = nameOrAlias d key alias := by
  unfold attrKey at h
  cases hf : (propsTable k).find? (·.1 = a) with
  | none => rw [hf] at h; cases h
  | some e =>
    obtain ⟨a', key, alias⟩ := e
    have ha : a' = a := by simpa using List.find?_some hf
    subst ha
    rw [hf] at h
    exact ⟨key, alias, rfl, by simpa using h.symm⟩

theorem attrKey_none (k : Kind) (d d' : Dict) (a : Str) (h : attrKey k d a = none) : attrKey k d' a = none := by
  unfold attrKey at *
  cases hf : (propsTable k).find? (·.1 = a) with
  | none => rfl
  | some e => rw [hf] at h; cases h

theorem attrGet_of_key (k : Kind) (d : Dict) (a key : Str) (h : attrKey k d a = some key) :
    attrGet k d a = (d.get? key).join := by
  unfold attrGet; rw [h]

theorem attrGet_of_find (k : Kind) (d : Dict) (a key : Str) (alias : Option Str)
    (h : (propsTable k).find? (·.1 = a) = some (a, key, alias)) :
    attrGet k d a = (d.get? (nameOrAlias d key alias)).join :=
  attrGet_of_key k d a _ (attrKey_of_find k d a key alias h)

/-- after a write under the resolved key, the attribute resolves to the same key -/
theorem attrKey_set (k : Kind) (d : Dict) (a key : Str) (v : Option Str) (h : attrKey k d a = some key) :
    attrKey k (d.set key v) a = some key := by
  obtain ⟨key0, alias, hf, rfl⟩ := attrKey_some k d a key h
  rw [attrKey_of_find k _ a key0 alias hf, nameOrAlias_set]

/-! ### `vstep`, one equation per operation -/

theorem vstep_getAttr (k : Kind) (d : Dict) (a : Str) :
    vstep k d (.getAttr a) = match attrKey k d a with
      | some _ => (d, .value (attrGet k d a))
      | none => (d, .attributeError) := rfl
theorem vstep_setAttr (k : Kind) (d : Dict) (a v : Str) :
    vstep k d (.setAttr a v) = match attrKey k d a with
      | some key =>
        if k = .smChart && !T.smChartProperties.contains key then (d, .keyError) else (d.set key (some v), .done)
      | none => (d, .attributeError) := rfl
theorem vstep_delAttr (k : Kind) (d : Dict) (a : Str) :
    vstep k d (.delAttr a) = match attrKey k d a with
      | some key =>
        if k = .smChart then (d, .notImplemented)
        else if d.contains key then (d.erase key, .done) else (d, .keyError)
      | none => (d, .attributeError) := rfl
theorem vstep_getKey (k : Kind) (d : Dict) (key : Str) :
    vstep k d (.getKey key) =
      if k = .smChart then
        if T.smChartProperties.contains key then (d, .value (attrGet .smChart d (lower key))) else (d, .keyError)
      else match d.get? key with
        | some v => (d, .value v)
        | none => (d, .keyError) := rfl
theorem vstep_setKey (k : Kind) (d : Dict) (key v : Str) :
    vstep k d (.setKey key v) =
      if k = .smChart && !T.smChartProperties.contains key then (d, .keyError) else (d.set key (some v), .done) := rfl
theorem vstep_delKey (k : Kind) (d : Dict) (key : Str) :
    vstep k d (.delKey key) =
      if k = .smChart then (d, .notImplemented)
      else if d.contains key then (d.erase key, .done) else (d, .keyError) := rfl
theorem vstep_contains (k : Kind) (d : Dict) (key : Str) :
    vstep k d (.contains key) = (d, .bool (d.contains key)) := rfl
theorem vstep_items (k : Kind) (d : Dict) :
    vstep k d .items =
      if k = .smChart then (d, .items (d.map fun kv =>
        (kv.1, if T.smChartProperties.contains kv.1 then attrGet .smChart d (lower kv.1) else kv.2)))
      else (d, .items d) := rfl
theorem vstep_pop (k : Kind) (d : Dict) (key : Str) :
    vstep k d (.pop key) =
      if k = .smChart then (d, .notImplemented)
      else match d.get? key with
        | some v => (d.erase key, .value v)
        | none => (d, .value none) := rfl
theorem vstep_popitem (k : Kind) (d : Dict) :
    vstep k d .popitem =
      if k = .smChart then (d, .notImplemented)
      else match d.reverse with
        | [] => (d, .keyError)
        | kv :: rest => (rest.reverse, .items [kv]) := rfl
theorem vstep_update (k : Kind) (d : Dict) (key v : Str) :
    vstep k d (.update key v) =
      if k = .smChart then (d, .notImplemented) else (d.set key (some v), .done) := rfl

/-! ### the key an operation acts on -/

/-- the one key an operation may touch (`none`: the operation never changes the mapping) -/
def effKey (k : Kind) (d : Dict) : VOp → Option Str
  | .getAttr _ => none
  | .setAttr a _ => attrKey k d a
  | .delAttr a => attrKey k d a
  | .getKey _ => none
  | .setKey key _ => some key
  | .delKey key => some key
  | .contains _ => none
  | .items => none
  | .pop key => some key
  | .popitem => d.getLast?.map (·.1)
  | .update key _ => some key

/-- what one step can do to the mapping: nothing, a write under the effective key, the removal of the
effective key, or the removal of the last item (whose key is the effective key) -/
theorem vstep_dict (k : Kind) (d : Dict) (op : VOp) :
    (vstep k d op).1 = d ∨
    (∃ key v, effKey k d op = some key ∧ (vstep k d op).1 = d.set key (some v)) ∨
    (∃ key, effKey k d op = some key ∧ (vstep k d op).1 = d.erase key) ∨
    (∃ kv, effKey k d op = some kv.1 ∧ d = (vstep k d op).1 ++ [kv]) := by
  cases op with
  | getAttr a => left; rw [vstep_getAttr]; split <;> rfl
  | setAttr a v =>
    rw [vstep_setAttr]
    cases h : attrKey k d a with
    | none => left; rfl
    | some key =>
      simp only []
      split
      · left; rfl
      · right; left; exact ⟨key, v, h, rfl⟩
  | delAttr a =>
    rw [vstep_delAttr]
    cases h : attrKey k d a with
    | none => left; rfl
    | some key =>
      simp only []
      split
      · left; rfl
      · split
        · right; right; left; exact ⟨key, h, rfl⟩
        · left; rfl
  | getKey key =>
    left; rw [vstep_getKey]
    split
    · split <;> rfl
    · split <;> rfl
  | setKey key v =>
    rw [vstep_setKey]
    split
    · left; rfl
    · right; left; exact ⟨key, v, rfl, rfl⟩
  | delKey key =>
    rw [vstep_delKey]
    split
    · left; rfl
    · split
      · right; right; left; exact ⟨key, rfl, rfl⟩
      · left; rfl
  | contains key => left; rfl
  | items => left; rw [vstep_items]; split <;> rfl
  | pop key =>
    rw [vstep_pop]
    split
    · left; rfl
    · split
      · right; right; left; exact ⟨key, rfl, rfl⟩
      · left; rfl
  | popitem =>
    rw [vstep_popitem]
    split
    · left; rfl
    · split
      · left; rfl
      · rename_i kv rest hr
        right; right; right
        have hd := reverse_eq_cons d kv rest hr
        refine ⟨kv, ?_, hd⟩
        simp only [effKey]
        rw [hd]; simp
  | update key v =>
    rw [vstep_update]
    split
    · left; rfl
    · right; left; exact ⟨key, v, rfl, rfl⟩

theorem vstep_get?_ne (k : Kind) (d : Dict) (op : VOp) (k' : Str) (h : effKey k d op ≠ some k') :
    (vstep k d op).1.get? k' = d.get? k' := by
  rcases vstep_dict k d op with e | ⟨key, v, he, e⟩ | ⟨key, he, e⟩ | ⟨kv, he, e⟩
  · rw [e]
  · rw [e, get?_set_ne]; intro c; subst c; exact h he
  · rw [e, get?_erase_ne]; intro c; subst c; exact h he
  · obtain ⟨k₁, v₁⟩ := kv
    conv => rhs; rw [e]
    rw [get?_append_ne]; intro c; subst c; exact h he

theorem filter_ne_append_self (l : List Str) (key : Str) :
    (l ++ [key]).filter (fun x => x ≠ key) = l.filter (fun x => x ≠ key) := by
  rw [List.filter_append]; simp

theorem vstep_keys_filter (k : Kind) (d : Dict) (op : VOp) (key : Str) (h : effKey k d op = some key) :
    (Dict.keys (vstep k d op).1).filter (fun x => x ≠ key) = (Dict.keys d).filter (fun x => x ≠ key) := by
  rcases vstep_dict k d op with e | ⟨key', v, he, e⟩ | ⟨key', he, e⟩ | ⟨kv, he, e⟩
  · rw [e]
  · rw [h] at he; cases he
    rw [e, keys_set]
    split
    · rfl
    · exact filter_ne_append_self _ _
  · rw [h] at he; cases he
    rw [e, keys_erase, List.filter_filter]; simp
  · rw [h] at he; cases he
    conv => rhs; rw [e, keys_append]
    exact (filter_ne_append_self _ _).symm

theorem vstep_keys_none (k : Kind) (d : Dict) (op : VOp) (h : effKey k d op = none) : (vstep k d op).1 = d := by
  rcases vstep_dict k d op with e | ⟨key', v, he, e⟩ | ⟨key', he, e⟩ | ⟨kv, he, e⟩
  · exact e
  all_goals (rw [h] at he; cases he)

theorem vstep_WF (k : Kind) (d : Dict) (op : VOp) (h : Dict.WF d) : Dict.WF (vstep k d op).1 := by
  rcases vstep_dict k d op with e | ⟨key', v, he, e⟩ | ⟨key', he, e⟩ | ⟨kv, he, e⟩
  · rw [e]; exact h
  · rw [e]; exact WF_set _ _ _ h
  · rw [e]; exact WF_erase _ _ h
  · unfold Dict.WF at *
    rw [e, keys_append] at h
    exact (List.nodup_append.mp h).1

theorem vrun_cons (k : Kind) (d : Dict) (op : VOp) (ops : List VOp) :
    vrun k d (op :: ops) = ((vrun k (vstep k d op).1 ops).1, (vstep k d op).2 :: (vrun k (vstep k d op).1 ops).2) := rfl

theorem vrun_WF (k : Kind) (d : Dict) (ops : List VOp) (h : Dict.WF d) : Dict.WF (vrun k d ops).1 := by
  induction ops generalizing d with
  | nil => exact h
  | cons op ops ih => rw [vrun_cons]; exact ih _ (vstep_WF k d op h)

/-! ### writes -/

/-- the value an operation writes (`none`: not a write) -/
def written : VOp → Option Str
  | .setAttr _ v => some v
  | .setKey _ v => some v
  | .update _ v => some v
  | _ => none

/-- a successful write stores the value under the effective key -/
theorem vstep_written (k : Kind) (d : Dict) (op : VOp) (key v : Str) (hv : written op = some v)
    (hd : (vstep k d op).2 = .done) (he : effKey k d op = some key) :
    (vstep k d op).1 = d.set key (some v) := by
  cases op with
  | setAttr a v' =>
    simp only [written, Option.some.injEq] at hv; subst hv
    simp only [effKey] at he
    rw [vstep_setAttr, he] at hd ⊢
    simp only [] at hd ⊢
    split at hd
    · cases hd
    · rename_i hc; rw [if_neg hc]
  | setKey key' v' =>
    simp only [written, Option.some.injEq] at hv; subst hv
    simp only [effKey, Option.some.injEq] at he; subst he
    rw [vstep_setKey] at hd ⊢
    split at hd
    · cases hd
    · rename_i hc; rw [if_neg hc]
  | update key' v' =>
    simp only [written, Option.some.injEq] at hv; subst hv
    simp only [effKey, Option.some.injEq] at he; subst he
    rw [vstep_update] at hd ⊢
    split at hd
    · cases hd
    · rename_i hc; rw [if_neg hc]
  | _ => cases hv

/-! ### SM charts: facts read off the generated table -/

theorem smChart_table_keys :
    ∀ key ∈ T.smChartProperties, T.smChartProps.find? (·.1 = lower key) = some (lower key, key, none) := by
  decide +kernel

theorem smChart_table_entries :
    ∀ e ∈ T.smChartProps, e.2.2 = none ∧ lower e.2.1 = e.1 ∧ e.2.1 ∈ T.smChartProperties := by
  decide +kernel

theorem smChart_attrKey (d : Dict) (a key : Str) (h : attrKey .smChart d a = some key) :
    T.smChartProps.find? (·.1 = a) = some (a, key, none) ∧ lower key = a ∧ key ∈ T.smChartProperties := by
  obtain ⟨key0, alias, hf, rfl⟩ := attrKey_some _ d a key h
  have hm := List.mem_of_find?_eq_some hf
  obtain ⟨h1, h2, h3⟩ := smChart_table_entries _ hm
  simp only at h1 h2 h3
  subst h1
  exact ⟨hf, h2, h3⟩

theorem smChart_attrKey_of_mem (d : Dict) (key : Str) (h : key ∈ T.smChartProperties) :
    attrKey .smChart d (lower key) = some key :=
  attrKey_of_find .smChart d (lower key) key none (smChart_table_keys key h)

theorem smChart_vstep_keys (d : Dict) (op : VOp) (h : Dict.keys d = T.smChartProperties) :
    Dict.keys (vstep .smChart d op).1 = T.smChartProperties := by
  have hmem : ∀ key, T.smChartProperties.contains key = true → key ∈ Dict.keys d := by
    intro key hk; rw [h]; simpa using hk
  cases op with
  | getAttr a => rw [vstep_getAttr]; split <;> exact h
  | setAttr a v =>
    rw [vstep_setAttr]
    split
    · split
      · exact h
      · rename_i key _ hc
        have : T.smChartProperties.contains key = true := by simpa using hc
        simp only []
        rw [keys_set_of_mem _ _ _ (hmem key this)]; exact h
    · exact h
  | delAttr a => rw [vstep_delAttr]; split <;> simp [h]
  | getKey key => rw [vstep_getKey]; simp only [if_true]; split <;> exact h
  | setKey key v =>
    rw [vstep_setKey]
    split
    · exact h
    · rename_i hc
      have : T.smChartProperties.contains key = true := by simpa using hc
      simp only []
      rw [keys_set_of_mem _ _ _ (hmem key this)]; exact h
  | delKey key => rw [vstep_delKey]; simp [h]
  | contains key => exact h
  | items => rw [vstep_items]; simp [h]
  | pop key => rw [vstep_pop]; simp [h]
  | popitem => rw [vstep_popitem]; simp [h]
  | update key v => rw [vstep_update]; simp [h]

theorem smChart_vrun_keys (d : Dict) (ops : List VOp) (h : Dict.keys d = T.smChartProperties) :
    Dict.keys (vrun .smChart d ops).1 = T.smChartProperties := by
  induction ops generalizing d with
  | nil => exact h
  | cons op ops ih => rw [vrun_cons]; exact ih _ (smChart_vstep_keys d op h)

end Simfile.V
