/-
One escaped component inside a parameter: the lexer/parser appends exactly the component to the current one,
and the missing-semicolon-recovery flag follows `scanComp`.
-/
import Simfile.Lemmas.MsdLexRun
namespace Simfile.MsdP

def slashes3 : Str := ['/', '/', '/']

theorem containsSub_tail {c : Char} {cs p : Str} (h : containsSub (c :: cs) p = false) : containsSub cs p = false := by
  simp only [containsSub, Bool.or_eq_false_iff] at h
  exact h.2

theorem head_of_noTriple {cs : Str} (h : containsSub ('/' :: '/' :: cs) slashes3 = false) :
    cs.head? ≠ some '/' := by
  cases cs with
  | nil => simp
  | cons c cs =>
    simp only [containsSub, Bool.or_eq_false_iff, slashes3] at h
    intro hc
    simp only [List.head?_cons, Option.some.injEq] at hc
    subst hc
    simp [List.isPrefixOf] at h

theorem escapeComp_head (cs : Str) (d : Char) (tail : Str) (h : cs.head? ≠ some '/') (hd : d ≠ '/') :
    (escapeComp cs ++ d :: tail).head? ≠ some '/' := by
  unfold escapeComp
  split <;> simp_all

theorem scanComp_bs (cs : Str) (l : Bool) : scanComp ('\\' :: cs) l = scanComp cs l := by
  simp [scanComp]
theorem scanComp_colon (cs : Str) (l : Bool) : scanComp (':' :: cs) l = scanComp cs l := by
  simp [scanComp]
theorem scanComp_semi (cs : Str) (l : Bool) : scanComp (';' :: cs) l = scanComp cs l := by
  simp [scanComp]
theorem scanComp_ss (cs : Str) (l : Bool) : scanComp ('/' :: '/' :: cs) l = scanComp cs false := by
  simp [scanComp]
theorem scanComp_other (c : Char) (cs : Str) (l : Bool) (h1 : c ≠ '\\')
    (h2 : ∀ (cs_1 : List Char), c = '/' → cs = '/' :: cs_1 → False) (h3 : c ≠ ':') (h4 : c ≠ ';') :
    scanComp (c :: cs) l =
      if c = '/' then scanComp cs false
      else if c = '#' then (if l then none else scanComp cs false)
      else scanComp cs (isNl c) := by
  conv => lhs; unfold scanComp
  split
  · simp_all
  · rename_i heq
    simp at heq
    simp_all
  · rename_i heq
    simp at heq
    obtain ⟨rfl, rfl⟩ := heq
    simp_all [isNl]

theorem isPlain_of_ne {c : Char} (h1 : c ≠ '\\') (h2 : c ≠ '/') (h3 : c ≠ ':') (h4 : c ≠ ';') (h5 : c ≠ '#') :
    isPlain c = true := by
  simp [isPlain, *]

theorem go_comp (strict : Bool) (comp : Str) :
    ∀ (l l' : Bool) (x : Str) (comps : List Str) (out : List Param) (d : Char) (tail : Str),
    containsSub comp slashes3 = false → (d = ':' ∨ d = ';') → scanComp comp l = some l' →
    go strict (escapeComp comp ++ d :: tail) true l ⟨comps, some x, out⟩ =
      go strict (d :: tail) true l' ⟨comps, some (x ++ comp), out⟩ := by
  fun_induction escapeComp comp with
  | case1 =>
    intro l l' x comps out d tail _ _ h
    simp only [scanComp, Option.some.injEq] at h
    subst h
    simp
  | case2 cs ih =>
    intro l l' x comps out d tail h3 hd h
    rw [scanComp_bs] at h
    have := ih l l' (x ++ ['\\']) comps out d tail (containsSub_tail h3) hd h
    simp only [List.cons_append, go, lexF_bs_in, run_escape_in]
    simpa [go] using this
  | case3 cs ih =>
    intro l l' x comps out d tail h3 hd h
    rw [scanComp_ss] at h
    have hh := head_of_noTriple h3
    have hd' : d ≠ '/' := by rcases hd with rfl | rfl <;> decide
    have := ih false l' (x ++ ['/', '/']) comps out d tail (containsSub_tail (containsSub_tail h3)) hd h
    simp only [List.cons_append, go, lexF_bs_in, run_escape_in,
      lexF_slash_text _ _ _ (escapeComp_head cs d tail hh hd'), run_text_in]
    simpa [go] using this
  | case4 cs ih =>
    intro l l' x comps out d tail h3 hd h
    rw [scanComp_colon] at h
    have := ih l l' (x ++ [':']) comps out d tail (containsSub_tail h3) hd h
    simp only [List.cons_append, go, lexF_bs_in, run_escape_in]
    simpa [go] using this
  | case5 cs ih =>
    intro l l' x comps out d tail h3 hd h
    rw [scanComp_semi] at h
    have := ih l l' (x ++ [';']) comps out d tail (containsSub_tail h3) hd h
    simp only [List.cons_append, go, lexF_bs_in, run_escape_in]
    simpa [go] using this
  | case6 c cs h1 h2 h3 h4 ih =>
    intro l l' x comps out d tail ht hd h
    rw [scanComp_other c cs l h1 h2 h3 h4] at h
    have hd' : d ≠ '/' := by rcases hd with rfl | rfl <;> decide
    by_cases hs : c = '/'
    · subst hs
      rw [if_pos rfl] at h
      have hh : cs.head? ≠ some '/' := by
        cases cs with
        | nil => simp
        | cons c' cs' =>
          intro hc
          simp only [List.head?_cons, Option.some.injEq] at hc
          exact h2 cs' rfl (by rw [hc])
      have := ih false l' (x ++ ['/']) comps out d tail (containsSub_tail ht) hd h
      simp only [List.cons_append, go, 
        lexF_slash_text _ _ _ (escapeComp_head cs d tail hh hd'), run_text_in]
      simpa [go] using this
    · rw [if_neg hs] at h
      by_cases hh : c = '#'
      · subst hh
        rw [if_pos rfl] at h
        cases l with
        | true => simp at h
        | false =>
          simp only [Bool.false_eq_true, if_false] at h
          have := ih false l' (x ++ ['#']) comps out d tail (containsSub_tail ht) hd h
          simp only [List.cons_append, go, lexF_hash_text, run_text_in]
          simpa [go] using this
      · rw [if_neg hh] at h
        have hp := isPlain_of_ne h1 hs h3 h4 hh
        have := ih (isNl c) l' (x ++ [c]) comps out d tail (containsSub_tail ht) hd h
        rw [List.cons_append, go_plain_in strict hp]
        simpa using this

end Simfile.MsdP

namespace Simfile.MsdP

/-- the components of one parameter, up to and including its ';' -/
theorem go_comps (strict : Bool) (cs : List Str) :
    ∀ (c1 : Str) (l l' : Bool) (done : List Str) (out : List Param) (tail : Str),
    (∀ c ∈ c1 :: cs, containsSub c slashes3 = false) → scanComps (c1 :: cs) l = some l' →
    go strict (joinWith [':'] ((c1 :: cs).map escapeComp) ++ ';' :: tail) true l ⟨done, some [], out⟩ =
      go strict tail false l' ⟨[], none, out ++ [⟨done ++ c1 :: cs⟩]⟩ := by
  induction cs with
  | nil =>
    intro c1 l l' done out tail h3 hs
    simp only [scanComps, Option.bind_eq_some_iff] at hs
    obtain ⟨l1, h1, h2⟩ := hs
    simp only [Option.some.injEq] at h2
    subst h2
    simp only [List.map_cons, List.map_nil, joinWith]
    rw [go_comp strict c1 l l1 [] done out ';' tail (h3 c1 (by simp)) (Or.inr rfl) h1]
    simp only [go, lexF_semi_in, run_endp_in, List.nil_append]
  | cons c2 cs ih =>
    intro c1 l l' done out tail h3 hs
    rw [scanComps, Option.bind_eq_some_iff] at hs
    obtain ⟨l1, h1, h2⟩ := hs
    simp only [List.map_cons, joinWith, List.append_assoc, List.cons_append]
    rw [go_comp strict c1 l l1 [] done out ':' _ (h3 c1 (by simp)) (Or.inl rfl) h1]
    have := ih c2 l1 l' (done ++ [c1]) out tail (fun c hc => h3 c (List.mem_cons_of_mem _ hc)) h2
    simp only [go, lexF_colon_in, run_next_in, List.nil_append]
    simpa [go] using this

/-- one rendered parameter read from outside a parameter -/
theorem go_param (strict : Bool) (p : Param) (hne : p.comps ≠ []) (l l' : Bool) (out : List Param) (tail : Str)
    (h3 : ∀ c ∈ p.comps, containsSub c slashes3 = false) (hs : scanComps p.comps l = some l') :
    go strict (renderParam p ++ tail) false l ⟨[], none, out⟩ = go strict tail false l' ⟨[], none, out ++ [p]⟩ := by
  obtain ⟨comps⟩ := p
  cases comps with
  | nil => exact absurd rfl hne
  | cons c1 cs =>
    have := go_comps strict cs c1 l l' [] out tail h3 hs
    simp only [renderParam, List.append_assoc, List.cons_append, List.nil_append]
    simp only [go, lexF_hash_start _ false l rfl, run_start_out]
    simpa [go] using this

end Simfile.MsdP
