/-
A closed toy setting for the non-vacuity examples of C05Data / C06Data: two codecs (ASCII, Latin-1) where the
second one is needed, a non-ASCII SM file, a backup, an editing body.
-/
import Simfile.Lemmas.MutateDataCodec
namespace Simfile
namespace MD
namespace Toy

/-- Latin-1: every byte decodes to the character with that code; characters below 256 encode -/
def latin1 : Codec where
  decode b := some (b.map fun x => Char.ofNat x.toNat)
  encode t := if t.all (fun ch => ch.toNat < 256) then some (t.map fun ch => ch.toNat.toUInt8) else none

def cod : Str → Codec := codecsOf [("ascii".toList, Cd.asciiCodec), ("latin1".toList, latin1)]

def encs : List Str := ["ascii".toList, "latin1".toList]

/-- SM files, the modelled msdparser, strict -/
def W : World SMSimfile := smWorld MsdP.msd cod true

/-- input a.sm, written back in place, backup a.bak -/
def cfg : MutateCfg := ⟨"a.sm".toList, none, some "a.bak".toList⟩

/-- the same with a separate output file -/
def cfgOut : MutateCfg := ⟨"a.sm".toList, some "b.sm".toList, some "a.bak".toList⟩

/-- "#TITLE:é;\n\n" in Latin-1 (0xE9 does not decode as ASCII) -/
def b₀ : Bytes := [35, 84, 73, 84, 76, 69, 58, 0xE9, 59, 10, 10]

def t₀ : Str := "#TITLE:é;\n\n".toList

def fs₀ : FS := [("a.sm".toList, b₀), ("other".toList, [1, 2, 3])]

def s₀ : SMSimfile := ⟨[("TITLE".toList, some "é".toList)], []⟩

/-- the simfile at exit: an artist was added -/
def s₁ : SMSimfile := ⟨[("TITLE".toList, some "é".toList), ("ARTIST".toList, some "ü".toList)], []⟩

/-- the body adds an artist with another non-ASCII character -/
def edit : SMSimfile → BodyResult SMSimfile :=
  fun s => .returns ⟨s.props.set "ARTIST".toList (some "ü".toList), s.charts⟩

/-- a body that adds a character Latin-1 cannot encode -/
def editBad : SMSimfile → BodyResult SMSimfile :=
  fun s => .returns ⟨s.props.set "ARTIST".toList (some "あ".toList), s.charts⟩

def raising {Sim : Type} (e : Exn) : Sim → BodyResult Sim := fun _ => .raises e

def cancel : Exn := ⟨"CancelMutation".toList, true, false⟩
def cancelSub : Exn := ⟨"MyCancel(CancelMutation, Exception)".toList, true, true⟩
def valueErr : Exn := ⟨"ValueError".toList, false, true⟩
def keyboardInterrupt : Exn := ⟨"KeyboardInterrupt".toList, false, false⟩

def ot : Str := "#TITLE:é;\n#ARTIST:ü;\n\n".toList

/-- the backup bytes: the entry serialization in Latin-1 (here the same as the input) -/
def bb : Bytes := b₀

/-- the output bytes: "#TITLE:é;\n#ARTIST:ü;\n\n" in Latin-1 -/
def ob : Bytes := [35, 84, 73, 84, 76, 69, 58, 0xE9, 59, 10, 35, 65, 82, 84, 73, 83, 84, 58, 0xFC, 59, 10, 10]

/-- the law at one text follows from evaluating encode and decode there -/
theorem lawAt_of_eval {c : Codec} {t : Str} {b : Bytes} (h1 : c.encode t = some b) (h2 : c.decode b = some t) :
    LawAt c t := by
  intro b' hb'
  rw [h1] at hb'
  cases hb'
  exact h2

/-- the run of `edit` on the toy filesystem reaches the save, with these payloads -/
theorem saves : Saves W cfg encs edit fs₀ b₀ "latin1".toList t₀ s₀ t₀ s₁ ot bb ob :=
  ⟨by decide +kernel, by decide +kernel, by decide +kernel, by decide +kernel, by decide +kernel,
   by decide +kernel, by decide +kernel, by decide +kernel, by decide +kernel⟩

/-- the same with a separate output file -/
theorem savesOut : Saves W cfgOut encs edit fs₀ b₀ "latin1".toList t₀ s₀ t₀ s₁ ot bb ob :=
  ⟨by decide +kernel, by decide +kernel, by decide +kernel, by decide +kernel, by decide +kernel,
   by decide +kernel, by decide +kernel, by decide +kernel, by decide +kernel⟩

/-! an SSC file whose chart has no note-data key at all: it loads, but cannot be serialized (KeyError) -/

def sscW : World SSCSimfile := sscWorld MsdP.msd cod true
def cfgSSC : MutateCfg := ⟨"a.ssc".toList, none, some "a.bak".toList⟩
def bSSC : Bytes := "#VERSION:0.83;\n#NOTEDATA:;\n#STEPSTYPE:x;\n".toList.map fun ch => ch.toNat.toUInt8
def fsSSC : FS := [("a.ssc".toList, bSSC)]

/-! an SSC file whose chart has key-only note data (`#NOTES;`, loaded as `None`): it loads AND serializes -/

def bKeyOnly : Bytes := "#VERSION:0.83;\n#NOTEDATA:;\n#NOTES;\n".toList.map fun ch => ch.toNat.toUInt8
def fsKeyOnly : FS := [("a.ssc".toList, bKeyOnly)]
def sKeyOnly : SSCSimfile := ⟨[("VERSION".toList, some "0.83".toList)], [⟨[("NOTES".toList, none)]⟩]⟩

end Toy
end MD
end Simfile
