/-
SM charts under the whole OrderedDict interface (`vstepX .smChart`): the six keys are an invariant up to order,
every operation is classified (assignment to one of the six / move of one of the six / refused / read), and the
value found under a key after a history is the last one assigned to it (C18, second round).
-/
import Simfile.Lemmas.ViewsMore
namespace Simfile.VX
open Simfile Simfile.O Simfile.V

/-- the mapping holds exactly the six SM chart keys, in some order -/
def Six (d : Dict) : Prop := List.Perm (Dict.keys d) T.smChartProperties

theorem six_nodup : T.smChartProperties.Nodup := by decide

theorem Six.WF {d : Dict} (h : Six d) : Dict.WF d := (List.Perm.nodup_iff h).mpr six_nodup

theorem Six.mem {d : Dict} (h : Six d) (key : Str) : key ∈ Dict.keys d ↔ key ∈ T.smChartProperties :=
  List.Perm.mem_iff h

theorem Six.get?_some {d : Dict} (h : Six d) (key : Str) (hk : key ∈ T.smChartProperties) :
    ∃ v, d.get? key = some v := by
  cases hg : d.get? key with
  | none => exact absurd ((h.mem key).mpr hk) ((get?_eq_none_iff d key).mp hg)
  | some v => exact ⟨v, rfl⟩

theorem Six.get?_none {d : Dict} (h : Six d) (key : Str) (hk : key ∉ T.smChartProperties) :
    d.get? key = none :=
  (get?_eq_none_iff d key).mpr (fun hm => hk ((h.mem key).mp hm))

theorem Six.contains {d : Dict} (h : Six d) (key : Str) :
    d.contains key = T.smChartProperties.contains key := by
  by_cases hk : key ∈ T.smChartProperties
  · obtain ⟨v, hv⟩ := h.get?_some key hk
    rw [contains_eq, hv]; simpa using hk
  · rw [contains_eq, h.get?_none key hk]; simpa using hk

theorem Six.set {d : Dict} (h : Six d) (key : Str) (hk : key ∈ T.smChartProperties) (v : Option Str) :
    Dict.keys (d.set key v) = Dict.keys d := keys_set_of_mem d key v ((h.mem key).mpr hk)

theorem Six.move {d : Dict} (h : Six d) (key : Str) (v : Option Str) (last : Bool) (hg : d.get? key = some v) :
    Six (move d key v last) :=
  (keys_perm (move_perm d key v last h.WF hg)).trans h

/-! ### attributes of an SM chart -/

theorem sm_attrKey_iff (d : Dict) (a key : Str) :
    attrKey .smChart d a = some key ↔ key ∈ T.smChartProperties ∧ lower key = a := by
  constructor
  · intro h; obtain ⟨_, h2, h3⟩ := smChart_attrKey d a key h; exact ⟨h3, h2⟩
  · rintro ⟨hm, rfl⟩; exact smChart_attrKey_of_mem d key hm

theorem sm_attrKey_none_iff (d : Dict) (a : Str) :
    attrKey .smChart d a = none ↔ ∀ key ∈ T.smChartProperties, lower key ≠ a := by
  constructor
  · intro h key hm e
    rw [(sm_attrKey_iff d a key).mpr ⟨hm, e⟩] at h; cases h
  · intro h
    cases hk : attrKey .smChart d a with
    | none => rfl
    | some key => obtain ⟨hm, e⟩ := (sm_attrKey_iff d a key).mp hk; exact absurd e (h key hm)

theorem sm_attrKey_indep (d d' : Dict) (a : Str) : attrKey .smChart d a = attrKey .smChart d' a := by
  cases hk : attrKey .smChart d a with
  | none => exact (attrKey_none _ d d' a hk).symm
  | some key => exact ((sm_attrKey_iff d' a key).mpr ((sm_attrKey_iff d a key).mp hk)).symm

/-- `lower` separates the six keys (read off the generated table) -/
theorem lower_inj_six (k1 k2 : Str) (h1 : k1 ∈ T.smChartProperties) (h2 : k2 ∈ T.smChartProperties)
    (e : lower k1 = lower k2) : k1 = k2 := by
  have a := smChart_attrKey_of_mem [] k1 h1
  have b := smChart_attrKey_of_mem [] k2 h2
  rw [e, b] at a
  exact (Option.some.inj a).symm

theorem sm_attrGet (d : Dict) (key : Str) (hk : key ∈ T.smChartProperties) :
    attrGet .smChart d (lower key) = (d.get? key).join :=
  attrGet_of_key _ _ _ key (smChart_attrKey_of_mem d key hk)

/-! ### classification of the whole interface -/

/-- what an operation is for an SM chart, read off the operation alone -/
inductive SmClass
  | assign (key v : Str)
  | move (key : Str) (last : Bool)
  | notImpl
  | keyErr
  | attrErr
  | read
deriving DecidableEq

def smClass : VOpX → SmClass
  | .base (.getAttr a) => match attrKey .smChart [] a with | some _ => .read | none => .attrErr
  | .base (.setAttr a v) => match attrKey .smChart [] a with | some key => .assign key v | none => .attrErr
  | .base (.delAttr a) => match attrKey .smChart [] a with | some _ => .notImpl | none => .attrErr
  | .base (.getKey key) => if key ∈ T.smChartProperties then .read else .keyErr
  | .base (.setKey key v) => if key ∈ T.smChartProperties then .assign key v else .keyErr
  | .base (.delKey _) => .notImpl
  | .base (.contains _) => .read
  | .base .items => .read
  | .base (.pop _) => .notImpl
  | .base .popitem => .notImpl
  | .base (.update _ _) => .notImpl
  | .clear => .notImpl
  | .setDefault key _ => if key ∈ T.smChartProperties then .read else .keyErr
  | .moveToEnd key last => if key ∈ T.smChartProperties then .move key last else .keyErr

def IsRead (o : VOut) : Prop := (∃ r, o = .value r) ∨ (∃ b, o = .bool b) ∨ (∃ l, o = .items l)

/-- what `vstepX .smChart d op` must be, for each class -/
def SmSpec (d : Dict) (op : VOpX) : SmClass → Prop
  | .assign key v => key ∈ T.smChartProperties ∧ vstepX .smChart d op = (d.set key (some v), .done)
  | .move key last => key ∈ T.smChartProperties ∧
      ∃ v, d.get? key = some v ∧ vstepX .smChart d op = (VX.move d key v last, .done)
  | .notImpl => vstepX .smChart d op = (d, .notImplemented)
  | .keyErr => vstepX .smChart d op = (d, .keyError)
  | .attrErr => vstepX .smChart d op = (d, .attributeError)
  | .read => (vstepX .smChart d op).1 = d ∧ IsRead (vstepX .smChart d op).2

theorem smClass_spec (d : Dict) (h : Six d) (op : VOpX) : SmSpec d op (smClass op) := by
  cases op with
  | base b =>
    cases b with
    | getAttr a =>
      simp only [smClass]
      have hi := sm_attrKey_indep d [] a
      cases hk : attrKey .smChart [] a with
      | none =>
        rw [hk] at hi
        show vstepX .smChart d (.base (.getAttr a)) = _
        rw [vstepX_base, vstep_getAttr, hi]
      | some key =>
        rw [hk] at hi
        show (vstepX .smChart d (.base (.getAttr a))).1 = d ∧ IsRead (vstepX .smChart d (.base (.getAttr a))).2
        rw [vstepX_base, vstep_getAttr, hi]
        exact ⟨rfl, Or.inl ⟨_, rfl⟩⟩
    | setAttr a v =>
      simp only [smClass]
      have hi := sm_attrKey_indep d [] a
      cases hk : attrKey .smChart [] a with
      | none =>
        rw [hk] at hi
        show vstepX .smChart d (.base (.setAttr a v)) = _
        rw [vstepX_base, vstep_setAttr, hi]
      | some key =>
        rw [hk] at hi
        have hm := ((sm_attrKey_iff d a key).mp hi).1
        refine ⟨hm, ?_⟩
        rw [vstepX_base, vstep_setAttr, hi]
        simp [hm]
    | delAttr a =>
      simp only [smClass]
      have hi := sm_attrKey_indep d [] a
      cases hk : attrKey .smChart [] a with
      | none =>
        rw [hk] at hi
        show vstepX .smChart d (.base (.delAttr a)) = _
        rw [vstepX_base, vstep_delAttr, hi]
      | some key =>
        rw [hk] at hi
        show vstepX .smChart d (.base (.delAttr a)) = _
        rw [vstepX_base, vstep_delAttr, hi]
        rfl
    | getKey key =>
      simp only [smClass]
      by_cases hm : key ∈ T.smChartProperties
      · rw [if_pos hm]
        show (vstepX .smChart d (.base (.getKey key))).1 = d ∧ IsRead (vstepX .smChart d (.base (.getKey key))).2
        rw [vstepX_base, vstep_getKey]
        simp only [if_true]
        rw [if_pos (by simpa using hm)]
        exact ⟨rfl, Or.inl ⟨_, rfl⟩⟩
      · rw [if_neg hm]
        show vstepX .smChart d (.base (.getKey key)) = _
        rw [vstepX_base, vstep_getKey]
        simp [hm]
    | setKey key v =>
      simp only [smClass]
      by_cases hm : key ∈ T.smChartProperties
      · rw [if_pos hm]
        refine ⟨hm, ?_⟩
        rw [vstepX_base, vstep_setKey]; simp [hm]
      · rw [if_neg hm]
        show vstepX .smChart d (.base (.setKey key v)) = _
        rw [vstepX_base, vstep_setKey]; simp [hm]
    | delKey key => exact rfl
    | contains key => exact ⟨rfl, Or.inr (Or.inl ⟨_, rfl⟩)⟩
    | items => exact ⟨rfl, Or.inr (Or.inr ⟨_, rfl⟩)⟩
    | pop key => exact rfl
    | popitem => exact rfl
    | update key v => exact rfl
  | clear => exact rfl
  | setDefault key v =>
    simp only [smClass]
    by_cases hm : key ∈ T.smChartProperties
    · rw [if_pos hm]
      show (vstepX .smChart d (.setDefault key v)).1 = d ∧ IsRead (vstepX .smChart d (.setDefault key v)).2
      have hc : d.contains key = true := by rw [h.contains]; simpa using hm
      rw [vstepX_setDefault, if_pos hc]
      simp only [if_true]
      rw [if_pos (by simpa using hm)]
      exact ⟨rfl, Or.inl ⟨_, rfl⟩⟩
    · rw [if_neg hm]
      show vstepX .smChart d (.setDefault key v) = _
      have hc : ¬ d.contains key = true := by rw [h.contains]; simpa using hm
      rw [vstepX_setDefault, if_neg hc]
      simp [hm]
  | moveToEnd key last =>
    simp only [smClass]
    by_cases hm : key ∈ T.smChartProperties
    · rw [if_pos hm]
      obtain ⟨v, hv⟩ := h.get?_some key hm
      exact ⟨hm, v, hv, vstepX_moveToEnd_some _ d key last v hv⟩
    · rw [if_neg hm]
      exact vstepX_moveToEnd_none _ d key last (h.get?_none key hm)

end Simfile.VX
