/-
C12 helper: `beat_at` answers a beat whose declarative times enclose the asked time, up to half a
tick at the slower of the BPMs in force on the tick before the answer and on the tick from it.
-/
import Simfile.Lemmas.EngineClose
import Simfile.Props.C14
namespace Simfile
open C11

variable {td : TimingData}

/-- half a tick at the slowest BPM in force around the beat `r` -/
def halfTickTime (td : TimingData) (r : Rat) : Rat :=
  (1 / 96) * 60 / min (Spec.bpmOn td r) (Spec.bpmOn td (r - 1 / 48))

/-! ### arithmetic -/

theorem roundToTick_near (x : Rat) : |roundToTick x - x| ≤ 1 / 96 := C14.round_nearest x

theorem half_le_min {a b p : Rat} (ha : 0 < a) (hb : 0 < b) (hp : p = a ∨ p = b) :
    (1 / 96 : Rat) * 60 / p ≤ (1 / 96) * 60 / min a b := by
  have hm : 0 < min a b := lt_min ha hb
  have hle : min a b ≤ p := by
    rcases hp with rfl | rfl
    · exact min_le_left _ _
    · exact min_le_right _ _
  exact div_le_div_of_nonneg_left (by norm_num) hm hle

theorem halfTick_ge_left (hd : Dom td) (r : Rat) :
    (1 / 96 : Rat) * 60 / Spec.bpmOn td r ≤ halfTickTime td r :=
  half_le_min (bpmOn_pos td hd _) (bpmOn_pos td hd _) (Or.inl rfl)

theorem halfTick_ge_right (hd : Dom td) (r : Rat) :
    (1 / 96 : Rat) * 60 / Spec.bpmOn td (r - 1 / 48) ≤ halfTickTime td r :=
  half_le_min (bpmOn_pos td hd _) (bpmOn_pos td hd _) (Or.inr rfl)

theorem halfTick_nonneg (hd : Dom td) (r : Rat) : 0 ≤ halfTickTime td r := by
  unfold halfTickTime
  exact div_nonneg (by norm_num) (le_of_lt (lt_min (bpmOn_pos td hd _) (bpmOn_pos td hd _)))

theorem scale_le {x p : Rat} (hp : 0 < p) (hx : x ≤ 1 / 96) : x * 60 / p ≤ (1 / 96) * 60 / p :=
  div_le_div_of_nonneg_right (by linarith) (le_of_lt hp)

theorem close_arith {a d u p : Rat} (hp : 0 < p) (h : |d - u| ≤ 1 / 96) :
    a + d * 60 / p - (1 / 96) * 60 / p ≤ a + u * 60 / p ∧
    a + u * 60 / p ≤ a + d * 60 / p + (1 / 96) * 60 / p := by
  rw [abs_le] at h
  have h1 := scale_le (x := d - u) hp h.2
  have h2 := scale_le (x := u - d) hp (by linarith)
  have e1 : (d - u) * 60 / p = d * 60 / p - u * 60 / p := by ring
  have e2 : (u - d) * 60 / p = u * 60 / p - d * 60 / p := by ring
  constructor <;> linarith

theorem time_back {t a p : Rat} (hp : 0 < p) : t = a + (t - a) / 60 * p * 60 / p := by
  have : p ≠ 0 := ne_of_gt hp
  field_simp
  ring

/-! ### the window after the selected state -/

/-- what `sel_window` says of the next state, for the answer `r` -/
def Win (td : TimingData) (w : Bool) (y : TState) (t r : Rat) : Prop :=
  (∃ z ∈ states td, StInv td z ∧ skey y < skey z ∧ R2 w t z.time ∧ r ≤ z.beat ∧
      ∀ e ∈ events td, ekey e ≤ skey y ∨ skey z ≤ ekey e) ∨
  (∀ e ∈ events td, ekey e ≤ skey y)

/-! ### case (i): at or before the initial time -/

theorem close_init (hd : Dom td) {t r : Rat} (ht : t ≤ -td.offset)
    (hr : r = roundToTick ((t - -td.offset) / 60 * (td.bpms.headD (0, 0)).2)) :
    Spec.timeSpec td r .warp - halfTickTime td r ≤ t ∧
    t ≤ Spec.timeSpec td r .stopEnd + halfTickTime td r := by
  have hp0 := head_pos td hd
  have hu : (t - -td.offset) / 60 * (td.bpms.headD (0, 0)).2 ≤ 0 := by
    apply mul_nonpos_of_nonpos_of_nonneg _ (le_of_lt hp0)
    apply div_nonpos_of_nonpos_of_nonneg _ (by norm_num)
    linarith
  have hr0 : r ≤ 0 := by
    rw [hr]
    exact le_trans (roundToTick_mono hu) (le_of_eq roundToTick_zero)
  have hH : halfTickTime td r = (1 / 96) * 60 / (td.bpms.headD (0, 0)).2 := by
    unfold halfTickTime
    rw [bpmOn_nonpos hd hr0, bpmOn_nonpos hd (show r - 1 / 48 ≤ 0 by linarith), min_self]
  obtain ⟨h1, h2⟩ := timeSpec_nonpos hd hr0
  have hnear := roundToTick_near ((t - -td.offset) / 60 * (td.bpms.headD (0, 0)).2)
  rw [← hr] at hnear
  obtain ⟨a1, a2⟩ := close_arith (a := -td.offset) hp0 hnear
  have hback := time_back (t := t) (a := -td.offset) hp0
  rw [hH, h1]
  constructor <;> linarith

/-! ### case (ii), the selected state is a pause -/

theorem close_pause (hd : Dom td) {w : Bool} {t : Rat} (y : TState) (hinv : StInv td y)
    (hp : y.tag = .stop ∨ y.tag = .delay) (h1 : y.time ≤ t) (hwin : Win td w y t y.beat) :
    Spec.timeSpec td y.beat .warp - halfTickTime td y.beat ≤ t ∧
    t ≤ Spec.timeSpec td y.beat .stopEnd + halfTickTime td y.beat := by
  have hH := halfTick_nonneg hd y.beat
  constructor
  · have : Spec.timeSpec td y.beat .warp ≤ Spec.timeSpec td y.beat y.tag :=
      timeSpec_mono td hd (key_le.2 (Or.inr ⟨rfl, by simp⟩))
    rw [← hinv.time] at this
    linarith
  · obtain ⟨e, he, hlt, _, hle⟩ := pause_end_event y hinv hp
    rcases hwin with ⟨z, _, hzinv, _, hR2, _, hsplit⟩ | hall
    · have hze : skey z ≤ ekey e := by
        rcases hsplit e he with h | h
        · exact absurd hlt (not_lt.2 h)
        · exact h
      have := timeSpec_mono td hd (show key z.beat z.tag ≤ key y.beat .stopEnd from le_trans hze hle)
      have ht := R2_le hR2
      rw [hzinv.time] at ht
      linarith
    · exact absurd hlt (not_lt.2 (hall e he))

/-! ### case (ii), a running state inside a warp is never selected -/

theorem win_not_warp (hd : Dom td) {w : Bool} {t r : Rat} (y : TState) (hinv : StInv td y)
    (hp : ¬ (y.tag = .stop ∨ y.tag = .delay)) (hw : y.warp = true) (h1 : R1 w y.time t)
    (hwin : Win td w y t r) : False := by
  obtain ⟨e, he, hlt⟩ := warp_end_event y hinv hw
  rcases hwin with ⟨z, _, hzinv, hyz, hR2, _, hsplit⟩ | hall
  · have h2 := timeSpec_from_warp hd y hinv hp hw z.beat z.tag (le_of_lt hyz)
      (window_none hsplit (le_refl _))
    rw [← hzinv.time] at h2
    have := window_time_lt h1 hR2
    linarith
  · exact absurd hlt (not_lt.2 (hall e he))

/-! ### case (ii), a running state outside the warps -/

/-- the two bounds from a running state `y` to a key on the answer `r = y.beat + d` with no event
strictly in between, once the BPM of the state is known to be one of the two of `halfTickTime` -/
theorem close_run_aux (hd : Dom td) {t d r : Rat} (y : TState) (hinv : StInv td y)
    (hp : ¬ (y.tag = .stop ∨ y.tag = .delay)) (hw : y.warp = false)
    (hd' : d = roundToTick ((t - y.time) / 60 * y.bpm)) (hr : r = y.beat + d) (h : Tag)
    (hle : skey y ≤ key r h) (hno : NoneBetween td (skey y) (key r h))
    (hH : (1 / 96 : Rat) * 60 / y.bpm ≤ halfTickTime td r) :
    Spec.timeSpec td r h - halfTickTime td r ≤ t ∧ t ≤ Spec.timeSpec td r h + halfTickTime td r := by
  have hpos : 0 < y.bpm := by rw [hinv.bpm]; exact bpmBefore_pos hd _
  have hts := timeSpec_from hd y hinv hp hw r h hle hno
  have hrd : r - y.beat = d := by rw [hr]; ring
  rw [hrd] at hts
  have hnear := roundToTick_near ((t - y.time) / 60 * y.bpm)
  rw [← hd'] at hnear
  obtain ⟨a1, a2⟩ := close_arith (a := y.time) hpos hnear
  have hback := time_back (t := t) (a := y.time) hpos
  rw [hts]
  constructor <;> linarith

theorem close_run_lower (hd : Dom td) {w : Bool} {t d r : Rat} (y : TState) (hinv : StInv td y)
    (hp : ¬ (y.tag = .stop ∨ y.tag = .delay)) (hw : y.warp = false) (h1 : y.time ≤ t)
    (hd' : d = roundToTick ((t - y.time) / 60 * y.bpm)) (hr : r = y.beat + d)
    (hwin : Win td w y t r) :
    Spec.timeSpec td r .warp - halfTickTime td r ≤ t := by
  have hpos : 0 < y.bpm := by rw [hinv.bpm]; exact bpmBefore_pos hd _
  have hd0 : 0 ≤ d := by
    rw [hd', ← roundToTick_zero]
    apply roundToTick_mono
    apply mul_nonneg _ (le_of_lt hpos)
    apply div_nonneg _ (by norm_num)
    linarith
  rcases eq_or_lt_of_le hd0 with hz | hdpos
  · have hry : r = y.beat := by rw [hr, ← hz, add_zero]
    have hH := halfTick_nonneg hd r
    have : Spec.timeSpec td r .warp ≤ Spec.timeSpec td y.beat y.tag :=
      timeSpec_mono td hd (key_le.2 (Or.inr ⟨hry, by simp⟩))
    rw [← hinv.time] at this
    linarith
  · have hlt : y.beat < r := by rw [hr]; linarith
    have hk : skey y < key r .warp := show key y.beat y.tag < key r .warp from key_lt.2 (Or.inl hlt)
    have hnone : NoneBetween td (skey y) (key r .warp) := by
      rcases hwin with ⟨z, _, _, _, _, hrz, hsplit⟩ | hall
      · apply window_none hsplit
        show key r .warp ≤ key z.beat z.tag
        apply key_le.2
        rcases lt_or_eq_of_le hrz with h | h
        · exact Or.inl h
        · exact Or.inr ⟨h, by simp⟩
      · exact last_none hall _
    have hgrid : onGrid r := by
      rw [hr, hd']; exact onGrid_add hinv.grid (onGrid_roundToTick _)
    have hgap := grid_gap hinv.grid hgrid hlt
    have hle : skey y ≤ key (r - 1 / 48) .stopEnd := by
      show key y.beat y.tag ≤ key (r - 1 / 48) .stopEnd
      apply key_le.2
      rcases lt_or_eq_of_le (show y.beat ≤ r - 1 / 48 by linarith) with h | h
      · exact Or.inl h
      · exact Or.inr ⟨h, by rw [val_stopEnd]; exact Tag.val_le_six _⟩
    have hno : ∀ e ∈ events td, ¬ (skey y < ekey e ∧ ekey e ≤ key (r - 1 / 48) .stopEnd) :=
      fun e he hh => hnone e he ⟨hh.1, lt_of_le_of_lt hh.2 (key_lt.2 (Or.inl (by linarith)))⟩
    have hbpm := bpmOn_from hd y hinv hle hno
    have hH : (1 / 96 : Rat) * 60 / y.bpm ≤ halfTickTime td r := by
      rw [← hbpm]; exact halfTick_ge_right hd r
    exact (close_run_aux hd y hinv hp hw hd' hr .warp (le_of_lt hk) hnone hH).1

theorem close_run_upper (hd : Dom td) {w : Bool} {t d r : Rat} (y : TState) (hinv : StInv td y)
    (hp : ¬ (y.tag = .stop ∨ y.tag = .delay)) (hw : y.warp = false) (h1 : y.time ≤ t)
    (hd' : d = roundToTick ((t - y.time) / 60 * y.bpm)) (hr : r = y.beat + d)
    (hwin : Win td w y t r) :
    t ≤ Spec.timeSpec td r .stopEnd + halfTickTime td r := by
  have hpos : 0 < y.bpm := by rw [hinv.bpm]; exact bpmBefore_pos hd _
  have hd0 : 0 ≤ d := by
    rw [hd', ← roundToTick_zero]
    apply roundToTick_mono
    apply mul_nonneg _ (le_of_lt hpos)
    apply div_nonneg _ (by norm_num)
    linarith
  have hyr : y.beat ≤ r := by rw [hr]; linarith
  have hle : skey y ≤ key r .stopEnd := by
    show key y.beat y.tag ≤ key r .stopEnd
    apply key_le.2
    rcases lt_or_eq_of_le hyr with h | h
    · exact Or.inl h
    · exact Or.inr ⟨h, by rw [val_stopEnd]; exact Tag.val_le_six _⟩
  -- it is enough that no event lies in `(skey y, key r .stopEnd]`
  have hfin : (∀ e ∈ events td, ¬ (skey y < ekey e ∧ ekey e ≤ key r .stopEnd)) →
      t ≤ Spec.timeSpec td r .stopEnd + halfTickTime td r := by
    intro hno
    have hnone : NoneBetween td (skey y) (key r .stopEnd) :=
      fun e he hh => hno e he ⟨hh.1, le_of_lt hh.2⟩
    have hbpm := bpmOn_from hd y hinv hle hno
    have hH : (1 / 96 : Rat) * 60 / y.bpm ≤ halfTickTime td r := by
      rw [← hbpm]; exact halfTick_ge_left hd r
    exact (close_run_aux hd y hinv hp hw hd' hr .stopEnd hle hnone hH).2
  rcases hwin with ⟨z, _, hzinv, _, hR2, hrz, hsplit⟩ | hall
  · rcases eq_or_lt_of_le hrz with heq | hlt
    · have hH := halfTick_nonneg hd r
      have := timeSpec_mono td hd (show key z.beat z.tag ≤ key r .stopEnd from
        key_le.2 (Or.inr ⟨heq.symm, by rw [val_stopEnd]; exact Tag.val_le_six _⟩))
      have ht := R2_le hR2
      rw [hzinv.time] at ht
      linarith
    · apply hfin
      intro e he hh
      rcases hsplit e he with h | h
      · exact absurd hh.1 (not_lt.2 h)
      · have := beat_le_of_key_le (show key z.beat z.tag ≤ key r .stopEnd from le_trans h hh.2)
        linarith
  · apply hfin
    intro e he hh
    exact absurd hh.1 (not_lt.2 (hall e he))

/-! ### the theorem -/

/-- The answer `r` of `beat_at` is such that the asked time lies between the declarative time of the
first key `(r, WARP)` and of the last key `(r, STOP_END)` on that beat, up to half a tick's duration
at the slower of the BPMs in force on the tick before `r` and on the tick from `r`. -/
theorem beatAt_close (td : TimingData) (hd : Dom td) (t : Rat) (g : Tag) :
    Spec.timeSpec td (beatAt td t g) .warp - halfTickTime td (beatAt td t g) ≤ t ∧
    t ≤ Spec.timeSpec td (beatAt td t g) .stopEnd + halfTickTime td (beatAt td t g) := by
  obtain ⟨y, hr, _, hcase⟩ := sel_window hd t g
  rw [hr]
  rcases hcase with ⟨rfl, ht, _⟩ | ⟨hinv, hR1, hwin⟩
  · have hp : ¬ ((initState td).tag = .stop ∨ (initState td).tag = .delay) := by
      simp [initState]
    rw [beatsUntil_run hp]
    apply close_init hd ht
    show 0 + roundToTick ((t - -td.offset) / 60 * (td.bpms.headD (0, 0)).2) = _
    exact zero_add _
  · have hwin' : Win td (decide (g = .warp)) y t (y.beat + y.beatsUntil t) := hwin
    by_cases hp : y.tag = .stop ∨ y.tag = .delay
    · rw [beatsUntil_pause hp, add_zero] at hwin' ⊢
      exact close_pause hd y hinv hp (R1_le hR1) hwin'
    · cases hw : y.warp with
      | true => exact absurd (win_not_warp hd y hinv hp hw hR1 hwin') id
      | false =>
        rw [beatsUntil_run hp] at hwin' ⊢
        exact ⟨close_run_lower hd y hinv hp hw (R1_le hR1) rfl rfl hwin',
          close_run_upper hd y hinv hp hw (R1_le hR1) rfl rfl hwin'⟩

end Simfile
