/-
Lemmas for C09 (round 2): the stream handed to the rows phase has non-decreasing beats when the note
stream has.
-/
import Simfile.Lemmas.GroupMoreW3
import Simfile.Lemmas.GroupMoreRows
namespace Simfile.GroupMore
open Simfile Simfile.Spec

/-- the stream the specification hands to the rows phase: the included notes, classified and joined
when `join_heads_to_tails` is set -/
def specStream (o : GOpts) (ns : List Note) : Except GErr (List GNote) :=
  let F := ns.filter fun n => o.incl.contains n.ntype
  if o.join then joinSpec o F else .ok (F.map GNote.plain)

theorem image_beats (o : GOpts) (n : Note) (c : Cls) :
    ((image o (n, c)).map GNote.beat).Sublist [n.beat] := by
  cases c <;> simp only [image] <;> (try split) <;> simp [GNote.beat]

theorem classifyAll_beats (o : GOpts) : ∀ (F b : List Note),
    (((classifyAll b F).flatMap (image o)).map GNote.beat).Sublist (F.map (·.beat)) := by
  intro F
  induction F with
  | nil => intro b; simp [classifyAll]
  | cons n F ih =>
    intro b
    simp only [classifyAll, List.flatMap_cons, List.map_append, List.map_cons]
    exact List.Sublist.append (l₂ := [n.beat]) (image_beats o n _) (ih (n :: b))

theorem specStream_beats (o : GOpts) (ns : List Note) (items : List GNote)
    (h : specStream o ns = .ok items) : (items.map GNote.beat).Sublist (ns.map (·.beat)) := by
  unfold specStream at h
  have hF : ((ns.filter fun n => o.incl.contains n.ntype).map (·.beat)).Sublist (ns.map (·.beat)) :=
    List.filter_sublist.map _
  cases hj : o.join with
  | false =>
    simp only [hj, Bool.false_eq_true, if_false] at h
    cases h
    rw [List.map_map]
    exact hF
  | true =>
    simp only [hj, if_true] at h
    unfold joinSpec at h
    simp only at h
    split at h
    · cases h
    · cases h
      exact (classifyAll_beats o _ []).trans hF

theorem joinedStream_eq_spec (o : GOpts) (ns : List Note) (hk : JoinW.HeadsOK o ns) :
    joinedStream o ns = specStream o ns := by
  unfold joinedStream specStream
  cases hj : o.join with
  | false => rfl
  | true =>
    simp only [if_true]
    exact JoinW.join_refines_spec o _ (fun h => List.Nodup.sublist (List.filter_sublist.filter _) (hk h))

end Simfile.GroupMore
