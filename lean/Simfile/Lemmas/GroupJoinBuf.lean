/-
Lemmas for C09: the buffer operations (`attachTail`, `removeFirst`, `popUntilHeld`,
`flushUntilHeld`) in terms of the abstract state of Simfile/Lemmas/GroupJoin.lean.
-/
import Simfile.Lemmas.GroupJoin
namespace Simfile.Join
open Simfile Simfile.Spec

theorem attachTail_skip (h : Note) (tb : Rat) (L R : List GNote) (hL : ∀ g ∈ L, g ≠ .plain h) :
    attachTail (L ++ R) h tb = (attachTail R h tb).map (L ++ ·) := by
  induction L with
  | nil => simp
  | cons g L ih =>
    have hg : g ≠ .plain h := hL g (by simp)
    simp only [List.cons_append, attachTail, if_neg hg]
    rw [ih (fun g' hg' => hL g' (by simp [hg']))]
    cases attachTail R h tb <;> simp

theorem removeFirst_skip (h : Note) (L R : List GNote) (hL : ∀ g ∈ L, g ≠ .plain h) :
    removeFirst (L ++ R) h = (removeFirst R h).map (L ++ ·) := by
  induction L with
  | nil => simp
  | cons g L ih =>
    have hg : g ≠ .plain h := hL g (by simp)
    simp only [List.cons_append, removeFirst, if_neg hg]
    rw [ih (fun g' hg' => hL g' (by simp [hg']))]
    cases removeFirst R h <;> simp

/-- an operation that rewrites the first occurrence of the plain head `h` in the buffer is the
closing of `h`'s column in the abstract state -/
theorem rewriteFirst_spec (o : GOpts) (op : List GNote → Option (List GNote)) (h : Note) (cl : Cls)
    (hskip : ∀ L R, (∀ g ∈ L, g ≠ .plain h) → op (L ++ R) = (op R).map (L ++ ·))
    (hhit : ∀ R, op (.plain h :: R) = some (pimage o (h, some cl) ++ R)) :
    ∀ X : List AN, Good X → (h, none) ∈ X →
      op (X.flatMap (pimage o)) = some ((closeCol h.column cl X).flatMap (pimage o)) := by
  intro X
  induction X with
  | nil => intro _ hm; simp at hm
  | cons x X ih =>
    intro g hm
    rcases x with ⟨m, k⟩
    have hnd := List.nodup_cons.mp g.nodup
    by_cases hmh : m = h
    · subst hmh
      have hk : k = none := g.closed_unique (List.mem_cons_self) hm
      subst hk
      have hc := g.cols
      simp only [opens_cons_none, List.map_cons, List.nodup_cons] at hc
      have hno : hasOpen m.column X = false := by
        cases hh : hasOpen m.column X with
        | false => rfl
        | true =>
          exact absurd (mem_opens_cols.mpr (hasOpen_iff.mp hh)) hc.1
      have hid : closeCol m.column cl X = X := closeCol_id hno
      have : closeCol m.column cl ((m, none) :: X) = (m, some cl) :: X := by
        have h2 := hid
        simp only [closeCol, List.map_cons] at h2 ⊢
        rw [h2]; simp
      rw [this]
      simp only [List.flatMap_cons]
      have : pimage o (m, none) = [.plain m] := rfl
      rw [this]
      exact hhit _
    · have hm' : (h, none) ∈ X := by
        rcases List.mem_cons.mp hm with h1 | h1
        · exact absurd (Prod.mk.inj h1).1.symm hmh
        · exact h1
      have hhead : ¬ (k = none ∧ m.column = h.column) := by
        rintro ⟨rfl, hcol⟩
        have hc := g.cols
        simp only [opens_cons_none, List.map_cons, List.nodup_cons] at hc
        exact hc.1 (mem_opens_cols.mpr ⟨h, hm', hcol.symm⟩)
      have : closeCol h.column cl ((m, k) :: X) = (m, k) :: closeCol h.column cl X := by
        simp only [closeCol, List.map_cons]
        rw [if_neg hhead]
      rw [this]
      simp only [List.flatMap_cons]
      rw [hskip, ih g.tail hm']
      · simp
      · intro g' hg'
        rcases mem_pimage hg' with rfl | ⟨tb, rfl⟩
        · intro he; exact hmh (GNote.plain.inj he)
        · intro he; cases he

theorem attachTail_spec (o : GOpts) (h : Note) (tb : Rat) (X : List AN) (g : Good X) (hm : (h, none) ∈ X) :
    attachTail (X.flatMap (pimage o)) h tb = some ((closeCol h.column (.joined tb) X).flatMap (pimage o)) := by
  apply rewriteFirst_spec o (fun b => attachTail b h tb) h (.joined tb) _ _ X g hm
  · intro L R hL; exact attachTail_skip h tb L R hL
  · intro R; simp [attachTail, pimage, image]

theorem removeFirst_spec (o : GOpts) (ho : o.orphanHead = .drop) (h : Note) (X : List AN) (g : Good X)
    (hm : (h, none) ∈ X) :
    removeFirst (X.flatMap (pimage o)) h = some ((closeCol h.column .orphanHead X).flatMap (pimage o)) := by
  apply rewriteFirst_spec o (fun b => removeFirst b h) h .orphanHead _ _ X g hm
  · intro L R hL; exact removeFirst_skip h L R hL
  · intro R; simp [removeFirst, pimage, image, ho]

/-- keeping an interrupted head: the buffer does not change -/
theorem keep_spec (o : GOpts) (ho : o.orphanHead = .keep) (c : Nat) (X : List AN) :
    (closeCol c .orphanHead X).flatMap (pimage o) = X.flatMap (pimage o) := by
  induction X with
  | nil => rfl
  | cons x X ih =>
    simp only [closeCol, List.map_cons, List.flatMap_cons] at ih ⊢
    rw [ih]
    congr 1
    rcases x with ⟨m, _ | k⟩
    · by_cases hc : m.column = c <;> simp [hc, pimage, image, ho]
    · simp

/-! ### flush_until_held_note -/

theorem popUntilHeld_skip (H : List (Nat × Note)) (L R : List GNote)
    (hL : ∀ g ∈ L, H.any (fun cn => GNote.plain cn.2 = g) = false) :
    popUntilHeld H (L ++ R) = (popUntilHeld H R).map fun p => (L ++ p.1, p.2) := by
  induction L with
  | nil => simp
  | cons g L ih =>
    have hg := hL g (by simp)
    simp only [List.cons_append, popUntilHeld, hg]
    rw [ih (fun g' hg' => hL g' (by simp [hg']))]
    cases popUntilHeld H R <;> simp

theorem popUntilHeld_spec (o : GOpts) (H : List (Nat × Note)) :
    ∀ X : List AN, (∀ m, (m, none) ∈ X → m ∈ H.map (·.2)) →
      (∀ m k, (m, some k) ∈ X → m ∉ H.map (·.2)) → (∃ x ∈ X, x.2 = none) →
      popUntilHeld H (X.flatMap (pimage o)) =
        some ((X.takeWhile (·.2.isSome)).flatMap (pimage o), (X.dropWhile (·.2.isSome)).flatMap (pimage o)) := by
  intro X
  induction X with
  | nil => intro _ _ h; simp at h
  | cons x X ih =>
    intro ha hb hex
    rcases x with ⟨m, _ | k⟩
    · have hmH : m ∈ H.map (·.2) := ha m (by simp)
      have : H.any (fun cn => GNote.plain cn.2 = GNote.plain m) = true := by
        obtain ⟨cn, hcn, rfl⟩ := List.mem_map.mp hmH
        exact List.any_eq_true.mpr ⟨cn, hcn, by simp⟩
      simp only [pimage, List.flatMap_cons, List.cons_append, List.nil_append, popUntilHeld, this, if_true]
      simp [pimage]
    · have hex' : ∃ x ∈ X, x.2 = none := by
        obtain ⟨x, hx, hn⟩ := hex
        rcases List.mem_cons.mp hx with rfl | hx
        · simp at hn
        · exact ⟨x, hx, hn⟩
      have ih' := ih (fun m hm => ha m (List.mem_cons_of_mem _ hm))
        (fun m k hm => hb m k (List.mem_cons_of_mem _ hm)) hex'
      simp only [List.flatMap_cons, List.takeWhile_cons, List.dropWhile_cons, Option.isSome_some, if_true]
      rw [popUntilHeld_skip, ih']
      · simp
      · intro g hg
        have hmH : m ∉ H.map (·.2) := hb m k (by simp)
        cases hany : H.any (fun cn => GNote.plain cn.2 = g) with
        | false => rfl
        | true =>
          exfalso
          obtain ⟨cn, hcn, he⟩ := List.any_eq_true.mp hany
          have he : GNote.plain cn.2 = g := by simpa using he
          rcases mem_pimage hg with rfl | ⟨tb, rfl⟩
          · exact hmH (List.mem_map.mpr ⟨cn, hcn, GNote.plain.inj he⟩)
          · cases he

/-- the machine state before `flush_until_held_note` re-establishes the buffer invariant:
`T` (no open heads) has been yielded, `X` is buffered -/
def preState (o : GOpts) (T X : List AN) : JState :=
  { held := opens X, buffer := X.flatMap (pimage o), out := T.flatMap (pimage o) }

/-- the machine state after the prefix described by `A` -/
def stateOf (o : GOpts) (A : List AN) : JState :=
  preState o (A.takeWhile (·.2.isSome)) (A.dropWhile (·.2.isSome))

theorem opens_dropWhile (X : List AN) : opens (X.dropWhile (·.2.isSome)) = opens X := by
  conv => rhs; rw [← List.takeWhile_append_dropWhile (p := (·.2.isSome)) (l := X)]
  rw [opens_append]
  have : opens (X.takeWhile (·.2.isSome)) = [] := by
    rw [opens_eq_nil_iff]
    intro x hx
    exact of_mem_takeWhile (p := fun x : AN => x.2.isSome) hx
  rw [this]; rfl

theorem flushUntilHeld_spec (o : GOpts) (T X : List AN) (hT : ∀ x ∈ T, x.2.isSome = true) (g : Good X) :
    (preState o T X).flushUntilHeld = some (stateOf o (T ++ X)) := by
  unfold JState.flushUntilHeld
  by_cases he : opens X = []
  · have hX : ∀ x ∈ X, x.2.isSome = true := (opens_eq_nil_iff X).mp he
    have hall : ∀ x ∈ T ++ X, x.2.isSome = true := by
      intro x hx
      rcases List.mem_append.mp hx with h | h
      · exact hT x h
      · exact hX x h
    have h1 : (T ++ X).takeWhile (·.2.isSome) = T ++ X := takeWhile_all hall
    have h2 : (T ++ X).dropWhile (·.2.isSome) = [] := dropWhile_all hall
    simp [preState, stateOf, he, JState.flush, h1, h2]
  · have hne : (preState o T X).held.isEmpty = false := by
      simp only [preState]
      cases hh : opens X with
      | nil => exact absurd hh he
      | cons _ _ => rfl
    rw [hne]
    simp only [Bool.false_eq_true, if_false]
    have hex : ∃ x ∈ X, x.2 = none := by
      cases hh : opens X with
      | nil => exact absurd hh he
      | cons cn _ =>
        have : cn ∈ opens X := by rw [hh]; simp
        exact ⟨(cn.2, none), (mem_opens (c := cn.1) (h := cn.2)).mp this |>.1, rfl⟩
    have hp := popUntilHeld_spec o (opens X) X
      (fun m hm => List.mem_map.mpr ⟨(m.column, m), mem_opens.mpr ⟨hm, rfl⟩, rfl⟩)
      (fun m k hm hmem => by
        obtain ⟨⟨c, m'⟩, hcm, rfl⟩ := List.mem_map.mp hmem
        have := g.closed_unique hm (mem_opens.mp hcm).1
        cases this)
      hex
    simp only [preState] at hp ⊢
    rw [hp]
    simp only [Option.map_some, stateOf, preState]
    rw [List.takeWhile_append_of_pos hT, List.dropWhile_append_of_pos hT, opens_dropWhile]
    simp

end Simfile.Join
