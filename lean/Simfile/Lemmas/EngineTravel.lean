/-
C11 helper lemmas on the declarative side: tick sums are linear where nothing changes
(`tickSum_const`), hence so is `travel` from a tick-aligned beat (`travel_step`).
-/
import Simfile.Lemmas.EngineSpec
namespace Simfile

theorem tk_grid (n : Nat) : tk ((n : Rat) / 48) = n := by
  unfold tk
  rw [ticks_cast]
  have h : (n : Rat) / 48 * 48 = ((n : Int) : Rat) := by
    rw [div_mul_cancel₀ _ (by norm_num : (48 : Rat) ≠ 0)]; simp
  rw [h]
  have : (((n : Int) : Rat)).floor = (n : Int) := floor_unique' _ _ le_rfl (by linarith)
  rw [this]; simp

theorem tickSum_const (td : TimingData) (w : Bool) (p : Rat) (n : Nat) :
    ∀ k : Nat, n ≤ k →
    (∀ m : Nat, n ≤ m → m < k →
      Spec.inWarp td ((m : Rat) / 48) = w ∧ Spec.bpmOn td ((m : Rat) / 48) = p) →
    Spec.tickSum td k = Spec.tickSum td n + ((k : Rat) - (n : Rat)) * (if w then 0 else (60 / 48) / p) := by
  intro k hnk
  induction k, hnk using Nat.le_induction with
  | base => intro _; simp
  | succ k hk ih =>
    intro hc
    have ih' := ih (fun m h1 h2 => hc m h1 (by omega))
    obtain ⟨hw, hp⟩ := hc k hk (by omega)
    show Spec.tickSum td k + Spec.tickTime td k = _
    rw [ih']
    unfold Spec.tickTime
    simp only [ticks_cast, hw, hp]
    push_cast
    cases w
    · simp; ring
    · simp

theorem travel_grid (td : TimingData) (n : Nat) : travel td ((n : Rat) / 48) = Spec.tickSum td n := by
  have h0 : (0 : Rat) ≤ (n : Rat) / 48 := by positivity
  rw [travel_of_nonneg td h0, tk_grid, ticks_cast]
  split <;> simp

/-- from a tick-aligned beat `b = n/48`, as long as warp flag and BPM are constant on the grid points
of `[b, c)`, the travelled time is linear -/
theorem travel_step (td : TimingData) (w : Bool) (p : Rat) (b c : Rat) (n : Nat)
    (hb : b = (n : Rat) / 48) (hbc : b ≤ c)
    (hc : ∀ m : Nat, n ≤ m → (m : Rat) / 48 < c →
      Spec.inWarp td ((m : Rat) / 48) = w ∧ Spec.bpmOn td ((m : Rat) / 48) = p) :
    travel td c = travel td b + (if w then 0 else (c - b) * 60 / p) := by
  subst hb
  have h0 : (0 : Rat) ≤ (n : Rat) / 48 := by positivity
  have hc0 : 0 ≤ c := le_trans h0 hbc
  rw [travel_grid, travel_of_nonneg td hc0]
  have hnk : n ≤ tk c := by
    have := tk_mono hbc
    rwa [tk_grid] at this
  obtain ⟨hk1, hk2⟩ := tk_spec hc0
  rw [ticks_cast] at hk1 hk2 ⊢
  have hsum := tickSum_const td w p n (tk c) hnk (fun m h1 h2 => hc m h1 (by
    have : (m : Rat) + 1 ≤ (tk c : Rat) := by exact_mod_cast h2
    have : (m : Rat) / 48 < (tk c : Rat) / 48 := by
      apply div_lt_div_of_pos_right _ (by norm_num); linarith
    linarith))
  rw [hsum]
  rcases eq_or_lt_of_le hk1 with heq | hlt
  · have hz : c - (tk c : Rat) / 48 = 0 := by linarith
    rw [hz]
    have hcn : c = (tk c : Rat) / 48 := heq.symm
    have : (if Spec.inWarp td ((tk c : Rat) / 48) = true then (0 : Rat)
        else 0 * 60 / Spec.bpmOn td ((tk c : Rat) / 48)) = 0 := by split <;> simp
    rw [this]
    cases w
    · simp only [Bool.false_eq_true, if_false]; conv_rhs => rw [hcn]
      ring
    · simp
  · obtain ⟨hw, hp⟩ := hc (tk c) hnk hlt
    rw [hw, hp]
    cases w
    · simp only [Bool.false_eq_true, if_false]; ring
    · simp

end Simfile
