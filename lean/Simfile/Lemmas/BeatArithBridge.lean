/- the executable operator model of the driver equals the one the C14 theorems are stated about -/
import Simfile.Model.BeatArith
import Simfile.Lemmas.BeatMoreArith
namespace Simfile.ArithM

def toOp : Op → BeatBinOp
  | .add => .add | .sub => .sub | .mul => .mul | .truediv => .truediv | .mod => .mod

theorem fractionBin_eq (op : Op) (a b : Rat) : fractionBin op a b = Simfile.fractionBin (toOp op) a b := by
  cases op <;> rfl
theorem beatBin_eq (op : Op) (a b : Rat) : beatBin op a b = Simfile.beatBin (toOp op) a b := by
  unfold beatBin Simfile.beatBin; rw [fractionBin_eq]
theorem beatRBin_eq (op : Op) (a b : Rat) : beatRBin op a b = Simfile.beatRBin (toOp op) a b := by
  unfold beatRBin Simfile.beatRBin; rw [fractionBin_eq]
theorem beatDivmod_eq (a b : Rat) : beatDivmod a b = Simfile.beatDivmod a b := rfl
theorem beatFloorDiv_eq (a b : Rat) : beatFloorDiv a b = Simfile.beatFloorDiv a b := rfl
theorem beatNeg_eq (a : Rat) : beatNeg a = Simfile.beatNeg a := rfl
theorem beatAbs_eq (a : Rat) : beatAbs a = Simfile.beatAbs a := by
  unfold beatAbs Simfile.beatAbs
  congr 2
  split
  · rename_i h; exact (abs_of_neg h).symm
  · rename_i h; exact (abs_of_nonneg (not_lt.mp h)).symm
theorem beatPowInt_eq (a : Rat) (n : Int) : beatPowInt a n = Simfile.beatPowInt a n := by
  unfold beatPowInt Simfile.beatPowInt
  split
  · rfl
  · congr 3
    split
    · rename_i h
      conv_rhs => rw [← Int.toNat_of_nonneg h]
      exact (zpow_natCast a n.toNat).symm
    · rename_i h
      have hn : n = -((-n).toNat : Int) := by omega
      conv_rhs => rw [hn]
      rw [zpow_neg, zpow_natCast]

end Simfile.ArithM
