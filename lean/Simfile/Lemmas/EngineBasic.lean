/-
Foundations for C11: the tag table, the lexicographic key order as a Mathlib linear order,
and the domain hypothesis `Simfile.C11.Dom`.
-/
import Simfile.Spec.Timeline
import Simfile.Lemmas.Round
import Mathlib.Data.Prod.Lex
import Mathlib.Tactic.Linarith
import Mathlib.Tactic.NormNum
namespace Simfile

theorem tag_vals : Tag.val .warp = 0 ∧ Tag.val .warpEnd = 1 ∧ Tag.val .bpm = 2 ∧ Tag.val .delay = 3 ∧
    Tag.val .delayEnd = 4 ∧ Tag.val .stop = 5 ∧ Tag.val .stopEnd = 6 := by decide

@[simp] theorem val_warp : Tag.val .warp = 0 := tag_vals.1
@[simp] theorem val_warpEnd : Tag.val .warpEnd = 1 := tag_vals.2.1
@[simp] theorem val_bpm : Tag.val .bpm = 2 := tag_vals.2.2.1
@[simp] theorem val_delay : Tag.val .delay = 3 := tag_vals.2.2.2.1
@[simp] theorem val_delayEnd : Tag.val .delayEnd = 4 := tag_vals.2.2.2.2.1
@[simp] theorem val_stop : Tag.val .stop = 5 := tag_vals.2.2.2.2.2.1
@[simp] theorem val_stopEnd : Tag.val .stopEnd = 6 := tag_vals.2.2.2.2.2.2

theorem Tag.val_le_six (g : Tag) : g.val ≤ 6 := by cases g <;> simp
theorem Tag.val_inj {g h : Tag} (e : g.val = h.val) : g = h := by
  cases g <;> cases h <;> simp at e <;> rfl

theorem ticks_eq : ticks = 48 := by decide
theorem ticks_cast : ((ticks : Nat) : Rat) = 48 := by rw [ticks_eq]; norm_num

/-- keys as elements of the lexicographic linear order `ℚ ×ₗ ℕ` -/
abbrev K := ℚ ×ₗ ℕ
def key (b : Rat) (g : Tag) : K := toLex (b, g.val)

theorem key_lt {b c : Rat} {g h : Tag} : key b g < key c h ↔ b < c ∨ (b = c ∧ g.val < h.val) :=
  Prod.Lex.toLex_lt_toLex
theorem key_le {b c : Rat} {g h : Tag} : key b g ≤ key c h ↔ b < c ∨ (b = c ∧ g.val ≤ h.val) :=
  Prod.Lex.toLex_le_toLex

theorem key_eq {b c : Rat} {g h : Tag} : key b g = key c h ↔ b = c ∧ g = h := by
  constructor
  · intro e
    have := congrArg ofLex e
    simp only [key, ofLex_toLex, Prod.mk.injEq] at this
    exact ⟨this.1, Tag.val_inj this.2⟩
  · rintro ⟨rfl, rfl⟩; rfl

theorem keyLT_iff (b c : Rat) (g h : Tag) : keyLT (b, g) (c, h) = true ↔ key b g < key c h := by
  rw [key_lt]; simp [keyLT]
theorem keyLE_iff (b c : Rat) (g h : Tag) : Spec.keyLE (b, g) (c, h) = true ↔ key b g ≤ key c h := by
  rw [key_le]; simp [Spec.keyLE]

theorem key_lt_of_beat_lt {b c : Rat} (g h : Tag) (hbc : b < c) : key b g < key c h :=
  key_lt.2 (Or.inl hbc)
theorem beat_le_of_key_le {b c : Rat} {g h : Tag} (hk : key b g ≤ key c h) : b ≤ c := by
  rcases key_le.1 hk with h1 | h1
  · exact le_of_lt h1
  · exact le_of_eq h1.1
theorem beat_le_of_key_lt {b c : Rat} {g h : Tag} (hk : key b g < key c h) : b ≤ c :=
  beat_le_of_key_le (le_of_lt hk)

namespace C11

/-- Domain of the refinement theorem: the well-formed timing data. -/
structure Dom (td : TimingData) : Prop where
  bpms_ne : td.bpms ≠ []
  bpms_head : (td.bpms.headD (0, 0)).1 = 0
  bpms_pos : ∀ e ∈ td.bpms, 0 < e.2
  bpms_sorted : (td.bpms.map (·.1)).Pairwise (· < ·)
  bpms_grid : ∀ e ∈ td.bpms, 0 ≤ e.1 ∧ onGrid e.1
  stops_pos : ∀ e ∈ td.stops, 0 < e.2
  stops_sorted : (td.stops.map (·.1)).Pairwise (· < ·)
  stops_grid : ∀ e ∈ td.stops, 0 ≤ e.1 ∧ onGrid e.1
  delays_pos : ∀ e ∈ td.delays, 0 < e.2
  delays_sorted : (td.delays.map (·.1)).Pairwise (· < ·)
  delays_grid : ∀ e ∈ td.delays, 0 ≤ e.1 ∧ onGrid e.1
  warps_pos : ∀ e ∈ td.warps, 0 < roundToTick e.2
  warps_sorted : (td.warps.map (·.1)).Pairwise (· < ·)
  warps_grid : ∀ e ∈ td.warps, 0 ≤ e.1 ∧ onGrid e.1

end C11

theorem onGrid_add {x y : Rat} (hx : onGrid x) (hy : onGrid y) : onGrid (x + y) := by
  obtain ⟨n, rfl⟩ := hx; obtain ⟨m, rfl⟩ := hy
  exact ⟨n + m, by push_cast; ring⟩

theorem onGrid_roundToTick (x : Rat) : onGrid (roundToTick x) := ⟨_, rfl⟩

theorem onGrid_zero : onGrid 0 := ⟨0, by simp⟩

/-- a non-negative grid point is `n/48` for a natural `n` -/
theorem onGrid_nat {x : Rat} (hx : onGrid x) (h0 : 0 ≤ x) : ∃ n : Nat, x = (n : Rat) / 48 := by
  obtain ⟨n, rfl⟩ := hx
  rw [ticks_cast] at *
  have hn : 0 ≤ n := by
    by_contra hneg
    have hneg := not_le.mp hneg
    have : (n : Rat) < 0 := by exact_mod_cast hneg
    have : (n : Rat) / 48 < 0 := by
      apply div_neg_of_neg_of_pos this; norm_num
    linarith
  exact ⟨n.toNat, by rw [← Int.cast_natCast, Int.toNat_of_nonneg hn]⟩

end Simfile
