import Simfile.Spec.Notes
import Mathlib.Tactic.Linarith
namespace Simfile
open Simfile

theorem keyLt_iff (a b : Nat × Rat × Nat) :
    keyLt a b = true ↔ (a.1 < b.1 ∨ (a.1 = b.1 ∧ (a.2.1 < b.2.1 ∨ (a.2.1 = b.2.1 ∧ a.2.2 < b.2.2)))) := by
  simp [keyLt]

theorem keyLe_iff (a b : Nat × Rat × Nat) :
    keyLe a b = true ↔ (a.1 < b.1 ∨ (a.1 = b.1 ∧ (a.2.1 < b.2.1 ∨ (a.2.1 = b.2.1 ∧ a.2.2 ≤ b.2.2)))) := by
  simp [keyLe]

theorem keyLt_irrefl (a : Nat × Rat × Nat) : keyLt a a = false := by
  simp [keyLt]

theorem keyLt_trans {a b c : Nat × Rat × Nat} (h1 : keyLt a b = true) (h2 : keyLt b c = true) : keyLt a c = true := by
  rw [keyLt_iff] at *
  obtain ⟨a1, a2, a3⟩ := a
  obtain ⟨b1, b2, b3⟩ := b
  obtain ⟨c1, c2, c3⟩ := c
  simp only at *
  rcases h1 with h1 | ⟨rfl, h1 | ⟨rfl, h1⟩⟩ <;> rcases h2 with h2 | ⟨rfl, h2 | ⟨rfl, h2⟩⟩
  all_goals first | (left; omega) | (right; refine ⟨rfl, ?_⟩; first | (left; linarith) | (right; exact ⟨rfl, by omega⟩))

theorem keyLt_total (a b : Nat × Rat × Nat) : keyLt a b = true ∨ a = b ∨ keyLt b a = true := by
  simp only [keyLt_iff]
  obtain ⟨a1, a2, a3⟩ := a
  obtain ⟨b1, b2, b3⟩ := b
  simp only [Prod.mk.injEq]
  rcases Nat.lt_trichotomy a1 b1 with h | h | h
  · left; left; exact h
  · subst h
    rcases lt_trichotomy a2 b2 with h | h | h
    · left; right; exact ⟨rfl, Or.inl h⟩
    · subst h
      rcases Nat.lt_trichotomy a3 b3 with h | h | h
      · left; right; exact ⟨rfl, Or.inr ⟨rfl, h⟩⟩
      · right; left; exact ⟨rfl, rfl, h⟩
      · right; right; right; exact ⟨rfl, Or.inr ⟨rfl, h⟩⟩
    · right; right; right; exact ⟨rfl, Or.inl h⟩
  · right; right; left; exact h

theorem keyLe_eq (a b : Nat × Rat × Nat) : keyLe a b = (keyLt a b || decide (a = b)) := by
  rw [Bool.eq_iff_iff]
  simp only [Bool.or_eq_true, keyLt_iff, keyLe_iff, decide_eq_true_eq]
  obtain ⟨a1, a2, a3⟩ := a
  obtain ⟨b1, b2, b3⟩ := b
  simp only [Prod.mk.injEq]
  constructor
  · rintro (h | ⟨rfl, h | ⟨rfl, h⟩⟩)
    · left; left; exact h
    · left; right; exact ⟨rfl, Or.inl h⟩
    · rcases Nat.lt_or_eq_of_le h with h | h
      · left; right; exact ⟨rfl, Or.inr ⟨rfl, h⟩⟩
      · right; exact ⟨rfl, rfl, h⟩
  · rintro ((h | ⟨rfl, h | ⟨rfl, h⟩⟩) | ⟨rfl, rfl, rfl⟩)
    · left; exact h
    · right; exact ⟨rfl, Or.inl h⟩
    · right; exact ⟨rfl, Or.inr ⟨rfl, Nat.le_of_lt h⟩⟩
    · right; exact ⟨rfl, Or.inr ⟨rfl, Nat.le_refl _⟩⟩

theorem keyLt_asymm {a b : Nat × Rat × Nat} (h : keyLt a b = true) : keyLt b a = false := by
  cases h' : keyLt b a
  · rfl
  · have := keyLt_trans h h'
    rw [keyLt_irrefl] at this
    exact absurd this (by decide)

end Simfile
