/-
C11 helper (L1, first half): the merged event list is strictly sorted by (beat, tag) and contains
exactly the tagged events.
-/
import Simfile.Lemmas.EngineWarp
namespace Simfile

/-- the key of an event in the linear order of keys -/
def ekey (e : TEvent) : K := key e.beat e.tag

theorem lt_iff_ekey (a b : TEvent) : a.lt b = true ↔ ekey a < ekey b := by
  simp only [TEvent.lt, keyLT_iff, ekey]

theorem mem_merge2 (a : TEvent) (xs ys : List TEvent) : a ∈ merge2 xs ys ↔ a ∈ xs ∨ a ∈ ys := by
  fun_induction merge2 xs ys <;> simp_all <;> tauto

/-- strictly sorted by key -/
def SSorted (l : List TEvent) : Prop := l.Pairwise (fun a b => ekey a < ekey b)

theorem ssorted_merge2 (xs ys : List TEvent) (hx : SSorted xs) (hy : SSorted ys)
    (hxy : ∀ x ∈ xs, ∀ y ∈ ys, ekey x ≠ ekey y) : SSorted (merge2 xs ys) := by
  unfold SSorted at *
  fun_induction merge2 xs ys with
  | case1 ys => exact hy
  | case2 xs _ => exact hx
  | case3 x xs y ys hlt ih =>
    rw [lt_iff_ekey] at hlt
    have hx' := List.pairwise_cons.1 hx
    rw [List.pairwise_cons] at hy ⊢
    refine ⟨?_, ih hx hy.2 (fun a ha b hb => hxy a ha b (List.mem_cons_of_mem _ hb))⟩
    intro a ha
    rw [mem_merge2] at ha
    rcases ha with ha | ha
    · rcases List.mem_cons.1 ha with rfl | ha'
      · exact hlt
      · exact lt_trans hlt (hx'.1 a ha')
    · exact hy.1 a ha
  | case4 x xs y ys hlt ih =>
    rw [lt_iff_ekey, not_lt] at hlt
    have hlt' : ekey x < ekey y :=
      lt_of_le_of_ne hlt (hxy x List.mem_cons_self y List.mem_cons_self)
    have hy' := List.pairwise_cons.1 hy
    rw [List.pairwise_cons] at hx ⊢
    refine ⟨?_, ih hx.2 hy (fun a ha b hb => hxy a (List.mem_cons_of_mem _ ha) b hb)⟩
    intro a ha
    rw [mem_merge2] at ha
    rcases ha with ha | ha
    · exact hx.1 a ha
    · rcases List.mem_cons.1 ha with rfl | ha'
      · exact hlt'
      · exact lt_trans hlt' (hy'.1 a ha')

theorem mem_foldl_merge2 (a : TEvent) : ∀ (ls : List (List TEvent)) (acc : List TEvent),
    a ∈ ls.foldl merge2 acc ↔ a ∈ acc ∨ ∃ l ∈ ls, a ∈ l := by
  intro ls
  induction ls with
  | nil => intro acc; simp
  | cons l ls ih =>
    intro acc
    rw [List.foldl_cons, ih, mem_merge2]
    simp only [List.mem_cons, exists_eq_or_imp]
    tauto

theorem ssorted_foldl_merge2 : ∀ (ls : List (List TEvent)) (acc : List TEvent),
    SSorted acc → (∀ l ∈ ls, SSorted l) →
    (∀ x ∈ acc, ∀ l ∈ ls, ∀ y ∈ l, x.tag ≠ y.tag) →
    ls.Pairwise (fun l l' => ∀ x ∈ l, ∀ y ∈ l', x.tag ≠ y.tag) →
    SSorted (ls.foldl merge2 acc) := by
  intro ls
  induction ls with
  | nil => intro acc h _ _ _; exact h
  | cons l ls ih =>
    intro acc hacc hls hal hpw
    rw [List.foldl_cons]
    rw [List.pairwise_cons] at hpw
    apply ih
    · apply ssorted_merge2 _ _ hacc (hls l List.mem_cons_self)
      intro x hx y hy he
      have := (key_eq.1 he).2
      exact hal x hx l List.mem_cons_self y hy this
    · intro l' hl'; exact hls l' (List.mem_cons_of_mem _ hl')
    · intro x hx l' hl' y hy
      rw [mem_merge2] at hx
      rcases hx with hx | hx
      · exact hal x hx l' (List.mem_cons_of_mem _ hl') y hy
      · exact hpw.1 l' hl' x hx y hy
    · exact hpw.2

/-! ### the seven tagged lists -/

/-- tagged events of a row list -/
def mkEv (tag : Tag) (l : List (Rat × Rat)) : List TEvent := l.map fun e => ⟨e.1, e.2, tag⟩

theorem mem_mkEv {tag : Tag} {l : List (Rat × Rat)} {a : TEvent} :
    a ∈ mkEv tag l ↔ a.tag = tag ∧ (a.beat, a.value) ∈ l := by
  unfold mkEv
  rw [List.mem_map]
  constructor
  · rintro ⟨e, he, rfl⟩; exact ⟨rfl, he⟩
  · rintro ⟨rfl, h⟩; exact ⟨_, h, rfl⟩

theorem ssorted_mkEv (tag : Tag) (l : List (Rat × Rat)) (h : (l.map (·.1)).Pairwise (· < ·)) :
    SSorted (mkEv tag l) := by
  unfold SSorted mkEv
  rw [List.pairwise_map] at h ⊢
  exact h.imp (fun hab => key_lt.2 (Or.inl hab))

/-- rows carrying the coalesced starts, resp. ends -/
def startRows (td : TimingData) : List (Rat × Rat) := (segs td.warps).map fun s => (s.1, 0)
def endRows (td : TimingData) : List (Rat × Rat) := (segs td.warps).map fun s => (s.2, 0)

theorem events_eq (td : TimingData) :
    events td = [mkEv .warp (startRows td), mkEv .warpEnd (endRows td), mkEv .bpm td.bpms.tail,
      mkEv .delay td.delays, mkEv .delayEnd td.delays, mkEv .stop td.stops, mkEv .stopEnd td.stops].foldl
        merge2 [] := by
  unfold events
  rw [coalesce_eq]
  simp only [mkEv, startRows, endRows, List.map_map]
  rfl

theorem mem_events (td : TimingData) (a : TEvent) : a ∈ events td ↔
    (a.tag = .warp ∧ (a.beat, a.value) ∈ startRows td) ∨
    (a.tag = .warpEnd ∧ (a.beat, a.value) ∈ endRows td) ∨
    (a.tag = .bpm ∧ (a.beat, a.value) ∈ td.bpms.tail) ∨
    (a.tag = .delay ∧ (a.beat, a.value) ∈ td.delays) ∨
    (a.tag = .delayEnd ∧ (a.beat, a.value) ∈ td.delays) ∨
    (a.tag = .stop ∧ (a.beat, a.value) ∈ td.stops) ∨
    (a.tag = .stopEnd ∧ (a.beat, a.value) ∈ td.stops) := by
  rw [events_eq, mem_foldl_merge2]
  simp only [List.not_mem_nil, false_or, List.mem_cons, exists_eq_or_imp, mem_mkEv, or_false,
    exists_eq_left]

/-- the seven lists with their tags -/
def tagged (td : TimingData) : List (Tag × List (Rat × Rat)) :=
  [(.warp, startRows td), (.warpEnd, endRows td), (.bpm, td.bpms.tail), (.delay, td.delays),
   (.delayEnd, td.delays), (.stop, td.stops), (.stopEnd, td.stops)]

theorem events_eq' (td : TimingData) :
    events td = ((tagged td).map fun p => mkEv p.1 p.2).foldl merge2 [] := events_eq td

theorem segs_starts_sorted (td : TimingData) (hd : C11.Dom td) :
    ((startRows td).map (·.1)).Pairwise (· < ·) := by
  obtain ⟨h1, h2, _, _⟩ := segs_spec td.warps hd.warps_pos hd.warps_sorted
  unfold startRows
  rw [List.map_map, List.pairwise_map]
  exact h1.imp_of_mem (fun {a b} ha _ hab => lt_trans (h2 a ha) hab)

theorem segs_ends_sorted (td : TimingData) (hd : C11.Dom td) :
    ((endRows td).map (·.1)).Pairwise (· < ·) := by
  obtain ⟨h1, h2, _, _⟩ := segs_spec td.warps hd.warps_pos hd.warps_sorted
  unfold endRows
  rw [List.map_map, List.pairwise_map]
  exact h1.imp_of_mem (fun {a b} _ hb hab => lt_trans hab (h2 b hb))

theorem ssorted_events (td : TimingData) (hd : C11.Dom td) : SSorted (events td) := by
  rw [events_eq']
  apply ssorted_foldl_merge2
  · exact List.Pairwise.nil
  · intro l hl
    rw [List.mem_map] at hl
    obtain ⟨p, hp, rfl⟩ := hl
    apply ssorted_mkEv
    simp only [tagged, List.mem_cons, List.not_mem_nil, or_false] at hp
    rcases hp with rfl | rfl | rfl | rfl | rfl | rfl | rfl
    · exact segs_starts_sorted td hd
    · exact segs_ends_sorted td hd
    · have := hd.bpms_sorted
      rw [List.map_tail]
      exact this.tail
    · exact hd.delays_sorted
    · exact hd.delays_sorted
    · exact hd.stops_sorted
    · exact hd.stops_sorted
  · intro x hx; exact absurd hx List.not_mem_nil
  · rw [List.pairwise_map]
    have : ((tagged td).map (·.1)).Pairwise (· ≠ ·) := by
      simp only [tagged, List.map_cons, List.map_nil]; decide
    rw [List.pairwise_map] at this
    refine this.imp ?_
    intro p p' hne x hx y hy
    rw [(mem_mkEv.1 hx).1, (mem_mkEv.1 hy).1]
    exact hne

end Simfile
