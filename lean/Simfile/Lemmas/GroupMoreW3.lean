/-
Lemmas for C09 (round 2): the exact refinement of the join phase under the weak hypothesis `HeadsOK`
(re-doing Lemmas/GroupJoinMain.lean with the invariant `GoodW`).
-/
import Simfile.Lemmas.GroupMoreW2
namespace Simfile.JoinW
open Simfile Simfile.Spec Simfile.Join

/-- the hypothesis of the exact refinement: if orphaned heads are KEPT, no hold/roll head occurs twice
in the stream. Nothing is asked under RAISE or DROP, and nothing about taps, mines, tails, … -/
def HeadsOK (o : GOpts) (F : List Note) : Prop :=
  o.orphanHead = .keep → (F.filter fun n => isHead n.ntype).Nodup

instance (o : GOpts) (F : List Note) : Decidable (HeadsOK o F) := by unfold HeadsOK; infer_instance

theorem HeadsOK.snoc {o : GOpts} {P : List Note} {n : Note} (h : HeadsOK o (P ++ [n])) :
    HeadsOK o P ∧ Fresh o (pcl P) n := by
  constructor
  · intro hk
    have := h hk
    rw [List.filter_append] at this
    exact (List.nodup_append.mp this).1
  · intro hh hk
    have := h hk
    rw [List.filter_append, List.nodup_append] at this
    rw [pcl_map_fst]
    intro hmem
    have h1 : n ∈ P.filter fun n => isHead n.ntype := List.mem_filter.mpr ⟨hmem, hh⟩
    have h2 : n ∈ [n].filter fun n => isHead n.ntype := List.mem_filter.mpr ⟨by simp, hh⟩
    exact this.2.2 n h1 n h2 rfl

theorem pcl_good (o : GOpts) : ∀ P : List Note, HeadsOK o P → GoodW o (pcl P) := by
  intro P
  induction P using snoc_induction with
  | nil => intro _; exact goodW_nil o
  | snoc P n ih =>
    intro hP
    obtain ⟨h1, h2⟩ := hP.snoc
    rw [pcl_snoc]
    exact (ih h1).absStep n h2

theorem fold_spec (o : GOpts) : ∀ P : List Note, HeadsOK o P →
    P.foldlM (joinStep o) { held := [], buffer := [], out := [] } =
      if raised o (pcl P) then .error .orphaned else .ok (stateOf o (pcl P)) := by
  intro P
  induction P using snoc_induction with
  | nil =>
    intro _
    have h1 : pcl [] = [] := rfl
    rw [h1, raised_nil]
    rfl
  | snoc P n ih =>
    intro hP
    obtain ⟨hP1, _⟩ := hP.snoc
    rw [List.foldlM_append, ih hP1, pcl_snoc]
    cases hr : raised o (pcl P) with
    | true =>
      rw [raised_mono o _ n hr]
      rfl
    | false =>
      simp only [Bool.false_eq_true, if_false]
      have := joinStep_spec o (pcl P) (pcl_good o P hP1) n hr
      simp only [bind, Except.bind, List.foldlM_cons, List.foldlM_nil, this]
      cases raised o (absStep (pcl P) n) <;> rfl

theorem cleanup_spec (o : GOpts) : ∀ (H : List (Nat × Note)) (D : List AN), GoodW o D → opens D = H →
    H.foldlM (fun buf cn => joinHeadToTail o buf (some cn.2) none) (D.flatMap (pimage o)) =
      if o.orphanHead = .raise ∧ H ≠ [] then .error .orphaned
      else .ok ((D.map fin).flatMap (image o)) := by
  intro H
  induction H with
  | nil =>
    intro D _ hD
    simp only [List.foldlM_nil, ne_eq, not_true_eq_false, and_false, if_false]
    rw [flatMap_image_fin o D ((opens_eq_nil_iff D).mp hD)]
    rfl
  | cons ch H ih =>
    intro D g hD
    rcases ch with ⟨c, h⟩
    have hmem : (c, h) ∈ opens D := by rw [hD]; simp
    obtain ⟨hm, hc⟩ := mem_opens.mp hmem
    subst hc
    have hcols := g.cols
    rw [hD] at hcols
    simp only [List.map_cons, List.nodup_cons] at hcols
    have hD1 : opens (closeCol h.column .orphanHead D) = H := by
      rw [opens_closeCol, hD]
      simp only [ne_eq, decide_not, List.filter_cons, decide_true, Bool.not_true, Bool.false_eq_true, if_false]
      apply List.filter_eq_self.mpr
      intro x hx
      have : x.1 ≠ h.column := fun he => hcols.1 (List.mem_map.mpr ⟨x, hx, he⟩)
      simp [this]
    have ih' := ih (closeCol h.column .orphanHead D) (g.closeCol _ _ (Or.inl rfl)) hD1
    rw [map_fin_closeCol] at ih'
    simp only [List.foldlM_cons]
    cases hoh : o.orphanHead with
    | raise =>
      rw [jht_end_raise o _ h hoh]
      simp [bind, Except.bind]
    | keep =>
      rw [jht_end_keep o _ h hoh]
      simp only [bind, Except.bind]
      rw [← keep_spec o hoh h.column D, ih', hoh]
      simp
    | drop =>
      rw [jht_end_drop o _ _ h hoh (removeFirst_spec o hoh h D g hm)]
      simp only [bind, Except.bind]
      rw [ih', hoh]
      simp

/-- the join phase computes its specification EXACTLY (same items, same order, same exception) on
every stream in which, if orphaned heads are kept, no hold/roll head occurs twice -/
theorem join_refines_spec (o : GOpts) (F : List Note) (hF : HeadsOK o F) :
    joinHeadsToTails o F = joinSpec o F := by
  unfold joinHeadsToTails joinSpec
  rw [fold_spec o F hF, classifyAll_eq]
  simp only [any_fin]
  cases hr : raised o (pcl F) with
  | true =>
    have : (o.orphanHead = .raise ∧ anyCls .orphanHead (pcl F) = true) ∨
        (o.orphanTail = .raise ∧ anyCls .orphanTail (pcl F) = true) := by
      simpa [raised] using hr
    rcases this with ⟨h1, h2⟩ | ⟨h1, h2⟩
    · simp [h1, h2, bind, Except.bind]
    · simp [h1, h2, bind, Except.bind]
  | false =>
    simp only [Bool.false_eq_true, if_false, bind, Except.bind]
    rw [stateOf_eq]
    simp only
    have hcl := cleanup_spec o (opens (pcl F)) ((pcl F).dropWhile (·.2.isSome)) (pcl_good o F hF).dropWhile
      (opens_dropWhile _)
    rw [hcl]
    have hr1 : o.orphanHead = .raise → anyCls .orphanHead (pcl F) = false := by
      intro h
      have := hr
      simp only [raised, h, decide_true, Bool.true_and, Bool.or_eq_false_iff] at this
      exact this.1
    have hr2 : o.orphanTail = .raise → anyCls .orphanTail (pcl F) = false := by
      intro h
      have := hr
      simp only [raised, h, decide_true, Bool.true_and, Bool.or_eq_false_iff] at this
      exact this.2
    by_cases hc : o.orphanHead = .raise ∧ opens (pcl F) ≠ []
    · have : (opens (pcl F)).isEmpty = false := by
        cases hh : opens (pcl F) with
        | nil => exact absurd hh hc.2
        | cons _ _ => rfl
      simp [hc, this]
    · have hcond : ¬ (o.orphanHead = Orphan.raise ∧
            (anyCls Cls.orphanHead (pcl F) || decide True && !(opens (pcl F)).isEmpty) = true ∨
          o.orphanTail = Orphan.raise ∧
            (anyCls Cls.orphanTail (pcl F) || decide (Cls.orphanTail = Cls.orphanHead) && !(opens (pcl F)).isEmpty) =
              true) := by
        rintro (⟨h1, h2⟩ | ⟨h1, h2⟩)
        · have he : opens (pcl F) = [] := Classical.byContradiction fun hne => hc ⟨h1, hne⟩
          simp [hr1 h1, he] at h2
        · simp [hr2 h1] at h2
      rw [if_neg hc, if_neg hcond]
      simp only [pure, Except.pure]
      rw [flatMap_image_fin o _ (fun x hx => of_mem_takeWhile (p := fun x : AN => x.2.isSome) hx),
        ← List.flatMap_append, ← List.map_append, List.takeWhile_append_dropWhile]

end Simfile.JoinW
