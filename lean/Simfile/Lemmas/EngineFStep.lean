/-
C11 (float) helper: the error of `time_until` and of one step `time + time_until` of the float engine.
-/
import Simfile.Lemmas.EngineFBasic
namespace Simfile

/-- a state with its time forgotten -/
def stripT (s : TState) : TState := { s with time := 0 }

theorem stripT_fields {a b : TState} (h : stripT a = stripT b) :
    a.beat = b.beat ∧ a.value = b.value ∧ a.tag = b.tag ∧ a.bpm = b.bpm ∧ a.warp = b.warp := by
  cases a; cases b
  simp only [stripT, TState.mk.injEq] at h
  simp only
  tauto

theorem timeUntilF_stripT (R : Fl) (s : TState) (b : Rat) (g : Tag) :
    s.timeUntilF R b g = (stripT s).timeUntilF R b g := rfl

theorem timeUntilF_congr (R : Fl) {a s : TState} (h : stripT a = stripT s) (b : Rat) (g : Tag) :
    a.timeUntilF R b g = s.timeUntilF R b g := by
  rw [timeUntilF_stripT R a, h, ← timeUntilF_stripT]

theorem advanceF_stripT (R : Fl) {a s : TState} (h : stripT a = stripT s) (e : TEvent) :
    stripT (advanceF R a e) = stripT (advance s e) := by
  obtain ⟨_, _, _, h4, h5⟩ := stripT_fields h
  simp only [stripT, advanceF, advance, h4, h5]

section Err
variable (R : Fl) (u : Rat) (hu0 : 0 ≤ u) (hu1 : u < 1) (hR : ∀ x : Rat, |R.fl x - x| ≤ u * |x|)
include hu0 hu1 hR

/-- the unwarped part of `time_until` -/
theorem base_err (s : TState) (hb : 0 < s.bpm) (b : Rat) :
    |R.fl (R.fl (R.fl (b - s.beat) * 60) / R.fl s.bpm) - (b - s.beat) * 60 / s.bpm| ≤
      eFl u ((b - s.beat) * 60 / s.bpm)
        ((eFl u ((b - s.beat) * 60) (60 * eFl u (b - s.beat) 0) * s.bpm + absR ((b - s.beat) * 60) * eFl u s.bpm 0) /
          (s.bpm * (s.bpm - eFl u s.bpm 0))) := by
  have h1 : |R.fl (b - s.beat) - (b - s.beat)| ≤ eFl u (b - s.beat) 0 := fl_err0 R u hu0 hR _
  have h1' : |R.fl (b - s.beat) * 60 - (b - s.beat) * 60| ≤ 60 * eFl u (b - s.beat) 0 := by
    rw [← sub_mul, abs_mul]
    have : |(60 : Rat)| = 60 := abs_of_pos (by norm_num)
    rw [this]
    linarith
  have h2 := fl_err R u hu0 hR h1'
  have hbq : |R.fl s.bpm - s.bpm| ≤ eFl u s.bpm 0 := fl_err0 R u hu0 hR _
  have heb : eFl u s.bpm 0 < s.bpm := by
    rw [eFl_eq, abs_of_pos hb]
    have : u * s.bpm < 1 * s.bpm := mul_lt_mul_of_pos_right hu1 hb
    linarith
  have hq := quot_err hb heb h2 hbq
  rw [absR_eq]
  exact fl_err R u hu0 hR hq

theorem timeUntilF_error (s : TState) (hb : 0 < s.bpm) (b : Rat) (g : Tag) :
    |s.timeUntilF R b g - s.timeUntil b g| ≤ errTimeUntil u s b g := by
  have hbase := base_err R u hu0 hu1 hR s hb b
  have hv : |R.fl s.value - s.value| ≤ eFl u s.value 0 := fl_err0 R u hu0 hR _
  unfold TState.timeUntilF TState.timeUntil errTimeUntil
  by_cases hw : s.warp = true
  · by_cases hc : (s.tag = .stop ∨ s.tag = .delay) ∧ (g = .stopEnd ∨ g = .delayEnd)
    · simp only [hw, if_true, hc, and_self]
      apply fl_err R u hu0 hR
      rw [zero_add, zero_add, zero_add]
      exact hv
    · simp [hw, hc]
  · by_cases hc : (s.tag = .stop ∨ s.tag = .delay) ∧ (g = .stopEnd ∨ g = .delayEnd)
    · simp only [hw, hc, and_self, if_true, Bool.false_eq_true, if_false]
      apply fl_err R u hu0 hR
      have : R.fl (R.fl (R.fl (b - s.beat) * 60) / R.fl s.bpm) + R.fl s.value - ((b - s.beat) * 60 / s.bpm + s.value)
          = (R.fl (R.fl (R.fl (b - s.beat) * 60) / R.fl s.bpm) - (b - s.beat) * 60 / s.bpm) + (R.fl s.value - s.value) := by
        ring
      rw [this]
      exact le_trans (abs_add_le _ _) (add_le_add hbase hv)
    · simp only [hw, hc, if_false, add_zero, Bool.false_eq_true]
      exact hbase

/-- one step `fl (time + time_until)` from a state whose time carries the error `e` -/
theorem step_error {a s : TState} (h : stripT a = stripT s) (hb : 0 < s.bpm) {e : Rat} (he : |a.time - s.time| ≤ e)
    (b : Rat) (g : Tag) :
    |R.fl (a.time + a.timeUntilF R b g) - (s.time + s.timeUntil b g)| ≤
      eFl u (s.time + s.timeUntil b g) (e + errTimeUntil u s b g) := by
  apply fl_err R u hu0 hR
  rw [timeUntilF_congr R h]
  have htu := timeUntilF_error R u hu0 hu1 hR s hb b g
  have : a.time + s.timeUntilF R b g - (s.time + s.timeUntil b g)
      = (a.time - s.time) + (s.timeUntilF R b g - s.timeUntil b g) := by ring
  rw [this]
  exact le_trans (abs_add_le _ _) (add_le_add he htu)

end Err

end Simfile
