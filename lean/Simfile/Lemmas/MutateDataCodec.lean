/-
The codec law at ONE text (instead of the global `Codec.Law`, which CPython's cp932 does not satisfy), and the
"what is written reads back" lemmas of C05 under it.
-/
import Simfile.Lemmas.MutateData
import Simfile.Props.C05
import Simfile.Props.C02More
import Simfile.Props.C04More
namespace Simfile
namespace MD
open Simfile

/-- `decode (encode t) = t` at the single text `t` -/
def LawAt (c : Codec) (t : Str) : Prop := ∀ b, c.encode t = some b → c.decode b = some t

theorem LawAt.of_law {c : Codec} (h : c.Law) (t : Str) : LawAt c t := fun b hb => h t b hb

/-- C05.output_parses_back_sm with the law required only at the written text -/
theorem readSM_of_lawAt (M : Msd) (hM : M.Contract) (c : Codec) (s : SMSimfile)
    (hlaw : LawAt c (M.renderDoc (serSM s))) (h : C01.DomSM s) (hs : safeDoc (serSM s) = true)
    (b : Bytes) (hw : c.encode (M.renderDoc (serSM s)) = some b) : readSM M c b = some s := by
  rw [Cd.readSM_of_decode M c b _ _ (hlaw b hw) (hM.roundtrip (serSM s) true (C01.texts_blank s) hs),
    C01.roundtrip_params s h]

/-- C05.output_parses_back_ssc with the law required only at the written text, on the domain `C02More.DomSSC'`
(a chart's note data may be a string or `None`) -/
theorem readSSC_of_lawAt (M : Msd) (hM : M.Contract) (c : Codec) (s : SSCSimfile) (is : List Item)
    (hser : serSSC s = .ok is) (hlaw : LawAt c (M.renderDoc is)) (h : C02More.DomSSC' s) (hs : safeDoc is = true)
    (b : Bytes) (hw : c.encode (M.renderDoc is) = some b) : readSSC M c b = some s.notesLast := by
  have hser' := C02More.serSSC_eq s h
  rw [hser] at hser'
  cases hser'
  rw [Cd.readSSC_of_decode M c b _ _ (hlaw b hw)
    (hM.roundtrip (O.sscItemsG s) true (O.text_mem_sscItemsG s) hs), C02More.load_sscItemsG s h]

theorem mapM_ok_all {α β : Type} (f : α → Except Err β) :
    ∀ (l : List α) (r : List β), l.mapM f = .ok r → ∀ a ∈ l, ∃ b, f a = .ok b := by
  intro l
  induction l with
  | nil => intro r _ a ha; cases ha
  | cons x l ih =>
    intro r h a ha
    rw [List.mapM_cons] at h
    cases hx : f x with
    | error e => rw [hx] at h; cases h
    | ok b =>
      rw [hx] at h
      cases hl : l.mapM f with
      | error e => rw [hl] at h; cases h
      | ok bs =>
        rcases List.mem_cons.mp ha with rfl | ha
        · exact ⟨b, hx⟩
        · exact ih bs hl a ha

/-- a simfile that serializes has a note-data key (NOTES, or NOTES2) in every chart; its value may be `None` -/
theorem serSSC_ok_notes (s : SSCSimfile) (is : List Item) (h : serSSC s = .ok is) :
    ∀ c ∈ s.charts, ∃ v, c.props.get? (notesKey c) = some v := by
  intro c hc
  cases hg : c.props.get? (notesKey c) with
  | none => rw [O.serSSC_error_of_mem s c hc hg] at h; cases h
  | some v => exact ⟨v, rfl⟩

/-- what the SM world loads is in the round-trip domain (C04) -/
theorem smWorld_loaded_dom (M : Msd) (cod : Str → Codec) (strict : Bool) (t : Str) (s : SMSimfile)
    (h : (smWorld M cod strict).load t = .ok s) : C01.DomSM s := by
  have hl : (M.tokenize strict t).bind loadSM = .ok s := h
  cases ht : M.tokenize strict t with
  | error e => rw [ht] at hl; cases hl
  | ok ps => rw [ht] at hl; exact C04.loaded_in_dom_sm ps s hl

/-- an SSC simfile that was loaded and serializes is in the round-trip domain `C02More.DomSSC'` (C04More), and its
`str` is the rendering of its serialization -/
theorem sscWorld_loaded_dom (M : Msd) (cod : Str → Codec) (strict : Bool) (t : Str) (s : SSCSimfile) (bt : Str)
    (h : (sscWorld M cod strict).load t = .ok s) (hser : (sscWorld M cod strict).ser s = .ok bt) :
    C02More.DomSSC' s ∧ ∃ is, serSSC s = .ok is ∧ bt = M.renderDoc is := by
  have hl : (M.tokenize strict t).map loadSSC = .ok s := h
  have hser' : (serSSC s).map M.renderDoc = .ok bt := hser
  cases ht : M.tokenize strict t with
  | error e => rw [ht] at hl; cases hl
  | ok ps =>
    rw [ht] at hl
    have hs₀ : loadSSC ps = s := Except.ok.inj hl
    cases hse : serSSC s with
    | error e => rw [hse] at hser'; cases hser'
    | ok is =>
      rw [hse] at hser'
      have hbt : bt = M.renderDoc is := (Except.ok.inj hser').symm
      have hnotes : C04More.HasNotes ps := by
        unfold C04More.HasNotes
        rw [hs₀]
        exact serSSC_ok_notes s is hse
      have hdom : C02More.DomSSC' s := by rw [← hs₀]; exact C04More.loaded_in_dom_ssc ps hnotes
      exact ⟨hdom, is, rfl, hbt⟩

/-- reading a file back: decode with the codec of `enc`, load -/
def readBack {Sim : Type} (W : World Sim) (enc : Str) (fs : FS) (p : Str) : Option Sim :=
  (fsGet fs p).bind fun b => ((W.codec enc).decode b).bind fun t => (W.load t).toOption

theorem readBack_of {Sim : Type} (W : World Sim) (enc : Str) (fs : FS) (p : Str) (b : Bytes) (t : Str) (s : Sim)
    (hb : fsGet fs p = some b) (hd : (W.codec enc).decode b = some t) (hl : W.load t = .ok s) :
    readBack W enc fs p = some s := by
  unfold readBack
  rw [hb, Option.bind_some, hd, Option.bind_some, hl]
  rfl

end MD
end Simfile
