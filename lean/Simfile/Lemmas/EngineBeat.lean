/-
C12 helper: `beat_at` — rounding facts, the extrapolation `beatsUntil`, the link between consecutive
states, and the consequences (tick alignment, monotonicity, pauses, inverse on the grid).
-/
import Simfile.Lemmas.EngineIndex
import Mathlib.Tactic.FieldSimp
namespace Simfile
open C11

variable {td : TimingData}

/-! ### rounding -/

theorem roundHalfEven_mono {x y : Rat} (h : x ≤ y) : roundHalfEven x ≤ roundHalfEven y := by
  by_contra hc
  have hc' : roundHalfEven y + 1 ≤ roundHalfEven x := by omega
  have hx := roundHalfEven_near x
  have hy := roundHalfEven_near y
  rw [abs_le] at hx hy
  have h1 : ((roundHalfEven y : Int) : Rat) + 1 ≤ ((roundHalfEven x : Int) : Rat) := by exact_mod_cast hc'
  have : x = y := le_antisymm h (by linarith)
  subst this
  omega

theorem roundToTick_mono {x y : Rat} (h : x ≤ y) : roundToTick x ≤ roundToTick y := by
  unfold roundToTick
  rw [ticks_cast]
  apply div_le_div_of_nonneg_right _ (by norm_num)
  have : roundHalfEven (x * 48) ≤ roundHalfEven (y * 48) := roundHalfEven_mono (by linarith)
  exact_mod_cast this

theorem roundToTick_grid {b : Rat} (hb : onGrid b) : roundToTick b = b := by
  obtain ⟨n, rfl⟩ := hb
  unfold roundToTick
  rw [ticks_cast]
  have : (n : Rat) / 48 * 48 = (n : Rat) := by field_simp
  rw [this, roundHalfEven_int]

theorem roundToTick_zero : roundToTick 0 = 0 := roundToTick_grid onGrid_zero

theorem onGrid_neg {x : Rat} (hx : onGrid x) : onGrid (-x) := by
  obtain ⟨n, rfl⟩ := hx
  exact ⟨-n, by push_cast; ring⟩

theorem onGrid_sub {x y : Rat} (hx : onGrid x) (hy : onGrid y) : onGrid (x - y) := by
  rw [sub_eq_add_neg]; exact onGrid_add hx (onGrid_neg hy)

/-- two grid points in strict order are at least one tick apart -/
theorem grid_gap {b c : Rat} (hb : onGrid b) (hc : onGrid c) (h : b < c) : b + 1 / 48 ≤ c := by
  obtain ⟨n, rfl⟩ := hb
  obtain ⟨m, rfl⟩ := hc
  rw [ticks_cast] at *
  have h1 : (n : Rat) < (m : Rat) := by
    have := (div_lt_div_iff_of_pos_right (by norm_num : (0 : Rat) < 48)).1 h
    exact this
  have h2 : n + 1 ≤ m := by exact_mod_cast h1
  have h3 : (n : Rat) + 1 ≤ (m : Rat) := by exact_mod_cast h2
  rw [← add_div]
  exact div_le_div_of_nonneg_right h3 (by norm_num)

/-! ### `beatsUntil` -/

theorem beatsUntil_pause {s : TState} (h : s.tag = .stop ∨ s.tag = .delay) (t : Rat) :
    s.beatsUntil t = 0 := by
  simp [TState.beatsUntil, TState.beatsUntilRaw, h]

theorem beatsUntil_run {s : TState} (h : ¬ (s.tag = .stop ∨ s.tag = .delay)) (t : Rat) :
    s.beatsUntil t = roundToTick ((t - s.time) / 60 * s.bpm) := by
  simp [TState.beatsUntil, TState.beatsUntilRaw, h]

theorem beatsUntil_grid (s : TState) (t : Rat) : onGrid (s.beatsUntil t) := by
  by_cases h : s.tag = .stop ∨ s.tag = .delay
  · rw [beatsUntil_pause h]; exact onGrid_zero
  · rw [beatsUntil_run h]; exact onGrid_roundToTick _

theorem beatsUntil_mono {s : TState} (hb : 0 ≤ s.bpm) {t₁ t₂ : Rat} (h : t₁ ≤ t₂) :
    s.beatsUntil t₁ ≤ s.beatsUntil t₂ := by
  by_cases hp : s.tag = .stop ∨ s.tag = .delay
  · rw [beatsUntil_pause hp, beatsUntil_pause hp]
  · rw [beatsUntil_run hp, beatsUntil_run hp]
    apply roundToTick_mono
    apply mul_le_mul_of_nonneg_right _ hb
    apply div_le_div_of_nonneg_right _ (by norm_num)
    linarith

theorem beatsUntil_nonneg {s : TState} (hb : 0 ≤ s.bpm) {t : Rat} (h : s.time ≤ t) :
    0 ≤ s.beatsUntil t := by
  by_cases hp : s.tag = .stop ∨ s.tag = .delay
  · rw [beatsUntil_pause hp]
  · rw [beatsUntil_run hp, ← roundToTick_zero]
    apply roundToTick_mono
    apply mul_nonneg _ hb
    apply div_nonneg _ (by norm_num)
    linarith

theorem beatAt_eq (td : TimingData) (t : Rat) (g : Tag) :
    beatAt td t g = ((mkEngine td).priorByTime t g).beat + ((mkEngine td).priorByTime t g).beatsUntil t := rfl

/-! ### facts on every state -/

theorem foldSel_pos {P : Rat → Prop} [DecidablePred P] : ∀ (l : List (Rat × Rat)) (init : Rat),
    0 < init → (∀ e ∈ l, 0 < e.2) → 0 < foldSel P init l := by
  intro l
  induction l with
  | nil => intro init h _; exact h
  | cons e l ih =>
    intro init h hl
    rw [foldSel_cons]
    apply ih
    · split
      · exact hl e List.mem_cons_self
      · exact h
    · intro e' he'; exact hl e' (List.mem_cons_of_mem _ he')

theorem bpmBefore_pos (hd : Dom td) (κ : K) : 0 < bpmBefore td κ := by
  unfold bpmBefore
  exact foldSel_pos _ _ (head_pos td hd) (fun e he => hd.bpms_pos e (List.mem_of_mem_tail he))

theorem state_bpm_pos (hd : Dom td) {k : Nat} {y : TState} (hy : (states td)[k]? = some y) : 0 < y.bpm := by
  cases k with
  | zero =>
    rw [states_zero] at hy
    rw [← Option.some.inj hy]
    exact head_pos td hd
  | succ k =>
    obtain ⟨_, hinv, _⟩ := states_pos hd k y hy
    rw [hinv.bpm]; exact bpmBefore_pos hd _

theorem state_beat_grid (hd : Dom td) {k : Nat} {y : TState} (hy : (states td)[k]? = some y) :
    onGrid y.beat := by
  cases k with
  | zero =>
    rw [states_zero] at hy
    rw [← Option.some.inj hy]
    exact onGrid_zero
  | succ k =>
    obtain ⟨_, hinv, _⟩ := states_pos hd k y hy
    exact hinv.grid

/-- 7. `beat_at` is tick-aligned -/
theorem beatAt_grid (hd : Dom td) (t : Rat) (g : Tag) : onGrid (beatAt td t g) := by
  obtain ⟨k, y, hy, hsel, _, _⟩ := priorByTime_sel hd t g
  rw [beatAt_eq, hsel]
  exact onGrid_add (state_beat_grid hd hy) (beatsUntil_grid y t)

end Simfile
