/-
Lemmas about the PyFilesystem path functions of `Simfile/Model/Path.lean`: the normal form (`render abs cs` with
valid components), `normpath` idempotent, `join` with a relative second argument, `split` of a child path.
-/
import Simfile.Model.Path
import Simfile.Lemmas.StrLemmas
import Simfile.Lemmas.StrO
namespace Simfile.PathL
open Simfile Simfile.Path

/-! ### valid names -/

theorem validName_iff (n : Str) :
    validName n = true ↔ n ≠ [] ∧ '/' ∉ n ∧ n ≠ ['.'] ∧ n ≠ ['.', '.'] := by
  unfold validName
  cases n with
  | nil => simp
  | cons c cs => simp [and_assoc]

theorem validName_ne_nil {n : Str} (h : validName n = true) : n ≠ [] := ((validName_iff n).mp h).1
theorem validName_no_slash {n : Str} (h : validName n = true) : '/' ∉ n := ((validName_iff n).mp h).2.1

theorem validName_not_abs {n : Str} (h : validName n = true) : isAbs n = false := by
  have h2 := validName_no_slash h
  cases n with
  | nil => rfl
  | cons c cs =>
    by_cases hc : c = '/'
    · subst hc; simp at h2
    · unfold isAbs
      split
      · rename_i heq; cases heq; exact absurd rfl hc
      · rfl

/-! ### the loop of `normpath` as a stack machine -/

/-- `normLoop` without the final reversal -/
def stk : List Str → List Str → Option (List Str)
  | acc, [] => some acc
  | acc, c :: cs =>
    if c = [] ∨ c = ['.'] then stk acc cs
    else if c = ['.', '.'] then
      match acc with
      | [] => none
      | _ :: acc' => stk acc' cs
    else stk (c :: acc) cs

theorem stk_cons (acc : List Str) (c : Str) (cs : List Str) :
    stk acc (c :: cs) =
      if c = [] ∨ c = ['.'] then stk acc cs
      else if c = ['.', '.'] then
        match acc with
        | [] => none
        | _ :: acc' => stk acc' cs
      else stk (c :: acc) cs := rfl

theorem normLoop_cons (acc : List Str) (c : Str) (cs : List Str) :
    normLoop acc (c :: cs) =
      if c = [] ∨ c = ['.'] then normLoop acc cs
      else if c = ['.', '.'] then
        match acc with
        | [] => none
        | _ :: acc' => normLoop acc' cs
      else normLoop (c :: acc) cs := rfl

theorem normLoop_eq (acc xs : List Str) : normLoop acc xs = (stk acc xs).map List.reverse := by
  induction xs generalizing acc with
  | nil => rfl
  | cons c cs ih =>
    rw [normLoop_cons, stk_cons]
    split
    · exact ih acc
    · split
      · cases acc with
        | nil => rfl
        | cons a acc' => exact ih acc'
      · exact ih (c :: acc)

theorem stk_append (acc xs ys : List Str) : stk acc (xs ++ ys) = (stk acc xs).bind (stk · ys) := by
  induction xs generalizing acc with
  | nil => rfl
  | cons c cs ih =>
    rw [List.cons_append, stk_cons, stk_cons]
    split
    · exact ih acc
    · split
      · cases acc with
        | nil => rfl
        | cons a acc' => exact ih acc'
      · exact ih (c :: acc)

theorem stk_skip {c : Str} (h : c = [] ∨ c = ['.']) (acc cs : List Str) : stk acc (c :: cs) = stk acc cs := by
  rw [stk_cons, if_pos h]

theorem stk_valid {c : Str} (h : validName c = true) (acc cs : List Str) :
    stk acc (c :: cs) = stk (c :: acc) cs := by
  obtain ⟨h1, _, h3, h4⟩ := (validName_iff c).mp h
  rw [stk_cons, if_neg (by rintro (h | h) <;> contradiction), if_neg h4]

theorem stk_all_valid (cs : List Str) (h : ∀ c ∈ cs, validName c = true) (acc : List Str) :
    stk acc cs = some (cs.reverse ++ acc) := by
  induction cs generalizing acc with
  | nil => rfl
  | cons c cs ih =>
    rw [stk_valid (h c (by simp)), ih (fun x hx => h x (by simp [hx]))]
    simp

/-- what the loop keeps are valid names -/
theorem stk_out_valid (xs : List Str) (hx : ∀ c ∈ xs, '/' ∉ c) :
    ∀ (acc r : List Str), (∀ c ∈ acc, validName c = true) → stk acc xs = some r → ∀ c ∈ r, validName c = true := by
  induction xs with
  | nil =>
    intro acc r ha h
    cases h
    exact ha
  | cons c cs ih =>
    intro acc r ha h
    have hcs : ∀ c ∈ cs, '/' ∉ c := fun x hx' => hx x (by simp [hx'])
    rw [stk_cons] at h
    split at h
    · exact ih hcs acc r ha h
    · rename_i h1
      split at h
      · cases acc with
        | nil => cases h
        | cons a acc' => exact ih hcs acc' r (fun x hx' => ha x (by simp [hx'])) h
      · rename_i h2
        refine ih hcs (c :: acc) r ?_ h
        intro x hx'
        rcases List.mem_cons.mp hx' with rfl | hx'
        · rw [validName_iff]
          exact ⟨fun e => h1 (Or.inl e), hx x (by simp), fun e => h1 (Or.inr e), h2⟩
        · exact ha x hx'

theorem components_eq (p : Str) : components p = (stk [] (splitOn '/' p)).map List.reverse := normLoop_eq _ _

theorem components_valid {p : Str} {cs : List Str} (h : components p = some cs) : ∀ c ∈ cs, validName c = true := by
  rw [components_eq] at h
  cases hs : stk [] (splitOn '/' p) with
  | none => rw [hs] at h; cases h
  | some r =>
    rw [hs] at h
    cases h
    intro c hc
    exact stk_out_valid _ (fun x hx => not_mem_of_mem_splitOn hx) [] r (by simp) hs c (by simpa using hc)

/-! ### splitting and joining on '/' -/

theorem splitOn_append (a b : Str) : splitOn '/' (a ++ '/' :: b) = splitOn '/' a ++ splitOn '/' b := by
  induction a with
  | nil => rw [List.nil_append, splitOn_cons_sep]; rfl
  | cons c cs ih =>
    rw [List.cons_append]
    by_cases hc : c = '/'
    · subst hc
      rw [splitOn_cons_sep, splitOn_cons_sep, ih]; rfl
    · rw [splitOn_cons_ne hc, splitOn_cons_ne hc, ih]
      cases hs : splitOn '/' cs with
      | nil => exact absurd hs (splitOn_ne_nil _ _)
      | cons p ps => rfl

theorem joinWith_snoc (cs : List Str) (h : cs ≠ []) (f : Str) :
    joinWith ['/'] (cs ++ [f]) = joinWith ['/'] cs ++ '/' :: f := by
  induction cs with
  | nil => exact absurd rfl h
  | cons c cs ih =>
    cases cs with
    | nil => simp [joinWith]
    | cons d ds =>
      rw [List.cons_append, List.cons_append, joinWith_cons_cons, ← List.cons_append, ih (by simp),
        joinWith_cons_cons]
      simp

/-! ### the normal form -/

theorem render_nil (abs : Bool) : render abs [] = if abs then ['/'] else [] := by
  unfold render; simp

theorem joinWith_valid_ne_nil {c : Str} {cs : List Str} (h : validName c = true) :
    ∃ x rest, joinWith ['/'] (c :: cs) = x :: rest ∧ x ≠ '/' := by
  have h1 := validName_ne_nil h
  have h2 := validName_no_slash h
  cases c with
  | nil => exact absurd rfl h1
  | cons x xs =>
    refine ⟨x, joinWith ['/'] (xs :: cs), joinWith_consChar _ _ _ _, ?_⟩
    rintro rfl
    simp at h2
where
  joinWith_consChar (sep : Str) (c : Char) (p : Str) (ps : List Str) :
      joinWith sep ((c :: p) :: ps) = c :: joinWith sep (p :: ps) := by
    cases ps with
    | nil => rfl
    | cons q rest => simp [joinWith]

theorem isAbs_render (abs : Bool) (cs : List Str) (h : ∀ c ∈ cs, validName c = true) :
    isAbs (render abs cs) = abs := by
  cases abs with
  | true => rfl
  | false =>
    cases cs with
    | nil => rfl
    | cons c cs =>
      obtain ⟨x, rest, he, hx⟩ := joinWith_valid_ne_nil (cs := cs) (h c (by simp))
      unfold render
      simp only [Bool.false_eq_true, if_false, List.nil_append]
      rw [he]
      unfold isAbs
      split
      · rename_i heq; cases heq; exact absurd rfl hx
      · rfl

theorem stk_splitOn_joinWith (cs : List Str) (h : ∀ c ∈ cs, validName c = true) (acc : List Str) :
    stk acc (splitOn '/' (joinWith ['/'] cs)) = some (cs.reverse ++ acc) := by
  cases cs with
  | nil => rfl
  | cons c cs =>
    rw [splitOn_joinWith (by simp) (fun p hp => validName_no_slash (h p hp))]
    exact stk_all_valid _ h acc

theorem stk_splitOn_render (abs : Bool) (cs : List Str) (h : ∀ c ∈ cs, validName c = true) (acc : List Str) :
    stk acc (splitOn '/' (render abs cs)) = some (cs.reverse ++ acc) := by
  cases abs with
  | false =>
    unfold render
    simp only [Bool.false_eq_true, if_false, List.nil_append]
    exact stk_splitOn_joinWith cs h acc
  | true =>
    unfold render
    simp only [if_true, List.singleton_append]
    rw [splitOn_cons_sep, stk_skip (Or.inl rfl)]
    exact stk_splitOn_joinWith cs h acc

theorem components_render (abs : Bool) (cs : List Str) (h : ∀ c ∈ cs, validName c = true) :
    components (render abs cs) = some cs := by
  rw [components_eq, stk_splitOn_render abs cs h]
  simp

/-- a rendered list of valid components is its own normal form -/
theorem normpath_render (abs : Bool) (cs : List Str) (h : ∀ c ∈ cs, validName c = true) :
    normpath (render abs cs) = some (render abs cs) := by
  unfold normpath
  rw [components_render abs cs h, isAbs_render abs cs h]
  rfl

theorem normpath_eq_some {p q : Str} (h : normpath p = some q) :
    ∃ cs, components p = some cs ∧ (∀ c ∈ cs, validName c = true) ∧ q = render (isAbs p) cs := by
  unfold normpath at h
  cases hc : components p with
  | none => rw [hc] at h; cases h
  | some cs =>
    rw [hc] at h
    cases h
    exact ⟨cs, rfl, components_valid hc, rfl⟩

/-- `normpath` is idempotent -/
theorem normpath_idem {p q : Str} (h : normpath p = some q) : normpath q = some q := by
  obtain ⟨cs, _, hv, rfl⟩ := normpath_eq_some h
  exact normpath_render _ cs hv

theorem components_of_normpath {p q : Str} (h : normpath p = some q) : components q = components p := by
  obtain ⟨cs, hc, hv, rfl⟩ := normpath_eq_some h
  rw [hc]
  exact components_render _ cs hv

theorem isAbs_of_normpath {p q : Str} (h : normpath p = some q) : isAbs q = isAbs p := by
  obtain ⟨cs, _, hv, rfl⟩ := normpath_eq_some h
  exact isAbs_render _ cs hv

theorem abspath_of_normpath {p q : Str} (h : normpath p = some q) (ha : isAbs p = true) : abspath q = q := by
  unfold abspath
  rw [isAbs_of_normpath h, ha]
  rfl

/-- a path is normal iff it is the rendering of valid components -/
theorem normpath_fixed_iff (q : Str) :
    normpath q = some q ↔ ∃ abs cs, (∀ c ∈ cs, validName c = true) ∧ q = render abs cs := by
  constructor
  · intro h
    obtain ⟨cs, _, hv, he⟩ := normpath_eq_some h
    exact ⟨_, cs, hv, he⟩
  · rintro ⟨abs, cs, hv, rfl⟩
    exact normpath_render abs cs hv

/-! ### the path of an entry of a directory -/

/-- the path of entry `f` of the directory whose normal path is `nd` -/
def childPath (nd f : Str) : Str :=
  if nd = [] then f else if nd = ['/'] then '/' :: f else nd ++ '/' :: f

theorem render_cons_ne (abs : Bool) {c : Str} (cs : List Str) (h : validName c = true) :
    render abs (c :: cs) ≠ [] ∧ render abs (c :: cs) ≠ ['/'] := by
  obtain ⟨x, rest, he, hx⟩ := joinWith_valid_ne_nil (cs := cs) h
  unfold render
  rw [he]
  cases abs with
  | true => simp
  | false =>
    simp only [Bool.false_eq_true, if_false, List.nil_append]
    refine ⟨by simp, ?_⟩
    intro e
    cases e
    exact hx rfl

theorem childPath_render (abs : Bool) (cs : List Str) (h : ∀ c ∈ cs, validName c = true) (f : Str) :
    childPath (render abs cs) f = render abs (cs ++ [f]) := by
  cases cs with
  | nil =>
    cases abs <;> rfl
  | cons c cs =>
    obtain ⟨h1, h2⟩ := render_cons_ne abs cs (h c (by simp))
    unfold childPath
    rw [if_neg h1, if_neg h2]
    unfold render
    rw [joinWith_snoc _ (by simp)]
    simp

theorem components_childPath {nd : Str} (hn : normpath nd = some nd) {f : Str} (hf : validName f = true) :
    ∃ cs, components nd = some cs ∧ components (childPath nd f) = some (cs ++ [f]) ∧
      normpath (childPath nd f) = some (childPath nd f) := by
  obtain ⟨cs, hc, hv, he⟩ := normpath_eq_some hn
  refine ⟨cs, hc, ?_⟩
  have hv' : ∀ c ∈ cs ++ [f], validName c = true := by
    intro c hc'
    rcases List.mem_append.mp hc' with h | h
    · exact hv c h
    · simp at h; subst h; exact hf
  rw [he, childPath_render _ cs hv]
  exact ⟨components_render _ _ hv', normpath_render _ _ hv'⟩

/-! ### `join` -/

theorem isAbs_cons (c : Char) (p : Str) : isAbs (c :: p) = decide (c = '/') := by
  by_cases hc : c = '/'
  · subst hc; rfl
  · unfold isAbs
    split
    · rename_i heq; cases heq; exact absurd rfl hc
    · simp [hc]

/-- one round of the loop of `fs.path.join` -/
def jstep (st : Bool × List Str) (p : Str) : Bool × List Str :=
  match p with
  | [] => st
  | c :: _ => if c = '/' then (true, [p]) else (st.1, st.2 ++ [p])

theorem join_eq (a b : Str) :
    join a b = (normpath (joinWith ['/'] (jstep (jstep (false, []) a) b).2)).map
      fun q => if (jstep (jstep (false, []) a) b).1 then abspath q else q := rfl

theorem jstep_abs (st : Bool × List Str) {p : Str} (h : isAbs p = true) : jstep st p = (true, [p]) := by
  cases p with
  | nil => cases h
  | cons c p' =>
    rw [isAbs_cons] at h
    simp only [decide_eq_true_eq] at h
    simp [jstep, h]

theorem jstep_rel (st : Bool × List Str) {p : Str} (hp : p ≠ []) (h : isAbs p = false) :
    jstep st p = (st.1, st.2 ++ [p]) := by
  cases p with
  | nil => exact absurd rfl hp
  | cons c p' =>
    rw [isAbs_cons] at h
    simp only [decide_eq_false_iff_not] at h
    simp [jstep, h]

theorem map_abspath_normpath (p : Str) (h : isAbs p = true) : (normpath p).map abspath = normpath p := by
  cases hn : normpath p with
  | none => rfl
  | some q => simp [abspath_of_normpath hn h]

/-- an absolute second argument discards the first -/
theorem join_abs (a : Str) {b : Str} (hb : isAbs b = true) : join a b = normpath b := by
  rw [join_eq, jstep_abs _ hb]
  exact map_abspath_normpath b hb

/-- an empty second argument: the first, normalised -/
theorem join_nil_right (a : Str) : join a [] = normpath a := by
  rw [join_eq]
  have : jstep (jstep (false, []) a) [] = jstep (false, []) a := rfl
  rw [this]
  by_cases ha : a = []
  · subst ha; rfl
  · cases habs : isAbs a with
    | true => rw [jstep_abs _ habs]; exact map_abspath_normpath a habs
    | false =>
      rw [jstep_rel _ ha habs]
      simp

/-- a non-empty relative second argument: the components of both, one after the other, through the loop -/
theorem join_rel (a : Str) {b : Str} (hb : b ≠ []) (hr : isAbs b = false) :
    join a b = (stk [] (splitOn '/' a ++ splitOn '/' b)).map fun r => render (isAbs a) r.reverse := by
  rw [join_eq, jstep_rel _ hb hr]
  by_cases ha : a = []
  · subst ha
    have h1 : jstep (false, []) ([] : Str) = (false, []) := rfl
    have h2 : splitOn '/' ([] : Str) = [[]] := rfl
    rw [h1, h2, List.singleton_append, stk_skip (Or.inl rfl)]
    simp only [List.nil_append, joinWith_singleton, Bool.false_eq_true, if_false, Option.map_id']
    unfold normpath
    rw [components_eq, hr, Option.map_map]
    rfl
  · have hj : joinWith ['/'] [a, b] = a ++ '/' :: b := by simp [joinWith]
    have hab : isAbs (a ++ '/' :: b) = isAbs a := by
      cases a with
      | nil => exact absurd rfl ha
      | cons d a' => rw [List.cons_append, isAbs_cons, isAbs_cons]
    have hn : normpath (a ++ '/' :: b) =
        (stk [] (splitOn '/' a ++ splitOn '/' b)).map fun r => render (isAbs a) r.reverse := by
      unfold normpath
      rw [components_eq, splitOn_append, hab, Option.map_map]
      rfl
    cases habs : isAbs a with
    | true =>
      rw [jstep_abs _ habs]
      simp only [List.singleton_append, hj, if_true]
      rw [map_abspath_normpath _ (by rw [hab, habs]), hn, habs]
    | false =>
      rw [jstep_rel _ ha habs]
      simp only [List.nil_append, List.singleton_append, hj, Bool.false_eq_true, if_false, Option.map_id']
      rw [hn, habs]


theorem stk_snoc_valid {f : Str} (hf : validName f = true) (acc xs : List Str) :
    stk acc (xs ++ [f]) = (stk acc xs).map (f :: ·) := by
  rw [stk_append]
  cases stk acc xs with
  | none => rfl
  | some r => simp only [Option.bind_some, Option.map_some]; rw [stk_valid hf]; rfl

/-- joining a valid name: one more component -/
theorem join_valid (a : Str) {f : Str} (hf : validName f = true) :
    join a f = (components a).map fun cs => render (isAbs a) (cs ++ [f]) := by
  rw [join_rel a (validName_ne_nil hf) (validName_not_abs hf), splitOn_of_not_mem (validName_no_slash hf),
    stk_snoc_valid hf, components_eq]
  cases stk [] (splitOn '/' a) with
  | none => rfl
  | some r => simp

/-- the path of an entry, from the (possibly unnormalised) path of its directory -/
theorem join_of_normpath {d nd : Str} (hd : normpath d = some nd) {f : Str} (hf : validName f = true) :
    join d f = some (childPath nd f) := by
  obtain ⟨cs, hc, hv, he⟩ := normpath_eq_some hd
  rw [join_valid d hf, hc, he, childPath_render _ cs hv]
  rfl

theorem join_normal_valid {nd : Str} (hn : normpath nd = some nd) {f : Str} (hf : validName f = true) :
    join nd f = some (childPath nd f) := join_of_normpath hn hf

/-- whatever `join` returns is normal -/
theorem join_normal {a b q : Str} (h : join a b = some q) : normpath q = some q := by
  by_cases hb : b = []
  · subst hb
    rw [join_nil_right] at h
    exact normpath_idem h
  · cases habs : isAbs b with
    | true =>
      rw [join_abs a habs] at h
      exact normpath_idem h
    | false =>
      rw [join_rel a hb habs] at h
      cases hs : stk [] (splitOn '/' a ++ splitOn '/' b) with
      | none => rw [hs] at h; cases h
      | some r =>
        rw [hs] at h
        cases h
        apply normpath_render
        intro c hc
        refine stk_out_valid _ ?_ [] r (by simp) hs c (by simpa using hc)
        intro x hx
        rcases List.mem_append.mp hx with hx | hx <;> exact not_mem_of_mem_splitOn hx

/-- a relative path ending in a valid name: first the directory part, then the name -/
theorem join_sub_name (d : Str) {sub name : Str} (hs : sub ≠ []) (hr : isAbs sub = false)
    (hn : validName name = true) :
    join d (sub ++ '/' :: name) = (join d sub).map (childPath · name) := by
  have h1 : sub ++ '/' :: name ≠ [] := by simp
  have h2 : isAbs (sub ++ '/' :: name) = false := by
    cases sub with
    | nil => exact absurd rfl hs
    | cons c s' => rw [List.cons_append, isAbs_cons]; rw [isAbs_cons] at hr; exact hr
  rw [join_rel d h1 h2, join_rel d hs hr, splitOn_append, splitOn_of_not_mem (validName_no_slash hn),
    ← List.append_assoc, stk_snoc_valid hn]
  cases hst : stk [] (splitOn '/' d ++ splitOn '/' sub) with
  | none => rfl
  | some r =>
    simp only [Option.map_some, List.reverse_cons]
    have hv : ∀ c ∈ r.reverse, validName c = true := by
      intro c hc
      refine stk_out_valid _ ?_ [] r (by simp) hst c (by simpa using hc)
      intro x hx
      rcases List.mem_append.mp hx with hx | hx <;> exact not_mem_of_mem_splitOn hx
    rw [childPath_render _ _ hv]

/-! ### `split` -/

/-- splitting the path of an entry gives back the directory and the entry name -/
theorem split_childPath (nd : Str) {f : Str} (hf : '/' ∉ f) : split (childPath nd f) = (nd, f) := by
  unfold childPath
  by_cases h1 : nd = []
  · subst h1
    rw [if_pos rfl]
    unfold split
    rw [O.rpartition_of_not_mem '/' f hf]
  · rw [if_neg h1]
    by_cases h2 : nd = ['/']
    · subst h2
      rw [if_pos rfl]
      unfold split
      have := O.rpartition_last '/' [] f hf
      rw [List.nil_append] at this
      rw [this]
      rfl
    · rw [if_neg h2]
      unfold split
      rw [O.rpartition_last '/' nd f hf]
      cases nd with
      | nil => exact absurd rfl h1
      | cons c cs => rfl

/-- `split(join(d, f)) = (normpath(d), f)` for a valid name `f` -/
theorem split_join {d f q : Str} (hf : validName f = true) (h : join d f = some q) :
    ∃ nd, normpath d = some nd ∧ q = childPath nd f ∧ split q = (nd, f) := by
  rw [join_valid d hf] at h
  cases hc : components d with
  | none => rw [hc] at h; cases h
  | some cs =>
    have hd : normpath d = some (render (isAbs d) cs) := by unfold normpath; rw [hc]; rfl
    have := join_of_normpath hd hf
    rw [join_valid d hf] at this
    rw [this] at h
    cases h
    exact ⟨_, hd, rfl, split_childPath _ (validName_no_slash hf)⟩

end Simfile.PathL
