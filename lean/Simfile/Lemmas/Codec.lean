/-
Lemmas about `readSM` / `readSSC` / `writtenSM` / `writtenSSC` (Model/Codec.lean) for C05, and a toy codec that
satisfies `Codec.Law` (non-vacuity of the hypothesis).
-/
import Simfile.Model.Codec
namespace Simfile.Cd
open Simfile

/-! ### reading, step by step -/

theorem readSM_of_decode (M : Msd) (c : Codec) (b : List UInt8) (t : Str) (ps : List Param)
    (hd : c.decode b = some t) (ht : M.tokenize true t = .ok ps) :
    readSM M c b = match loadSM ps with | .ok s => some s | .error _ => none := by
  unfold readSM
  rw [hd]
  simp only [ht]
  cases loadSM ps <;> rfl

theorem readSSC_of_decode (M : Msd) (c : Codec) (b : List UInt8) (t : Str) (ps : List Param)
    (hd : c.decode b = some t) (ht : M.tokenize true t = .ok ps) :
    readSSC M c b = some (loadSSC ps) := by
  unfold readSSC
  rw [hd]
  simp only [ht]

/-- a file reads as `s` exactly when it decodes, tokenizes strictly and the parameters load to `s` -/
theorem readSM_some_iff (M : Msd) (c : Codec) (b : List UInt8) (s : SMSimfile) :
    readSM M c b = some s ↔
      ∃ t ps, c.decode b = some t ∧ M.tokenize true t = .ok ps ∧ loadSM ps = .ok s := by
  unfold readSM
  cases hd : c.decode b with
  | none => simp
  | some t =>
    cases ht : M.tokenize true t with
    | error e => simp [ht]
    | ok ps =>
      cases hl : loadSM ps with
      | error e => simp [ht, hl]
      | ok s' => simp [ht, hl]

theorem readSSC_some_iff (M : Msd) (c : Codec) (b : List UInt8) (s : SSCSimfile) :
    readSSC M c b = some s ↔
      ∃ t ps, c.decode b = some t ∧ M.tokenize true t = .ok ps ∧ loadSSC ps = s := by
  unfold readSSC
  cases hd : c.decode b with
  | none => simp
  | some t =>
    cases ht : M.tokenize true t with
    | error e => simp [ht]
    | ok ps => simp [ht]

/-- what was written decodes to the rendered document -/
theorem decode_writtenSM (M : Msd) (c : Codec) (hc : c.Law) (s : SMSimfile) (b : List UInt8)
    (hw : writtenSM M c s = some b) : c.decode b = some (M.renderDoc (serSM s)) :=
  hc _ _ hw

theorem writtenSSC_some (M : Msd) (c : Codec) (s : SSCSimfile) (b : List UInt8)
    (hw : writtenSSC M c s = some b) :
    ∃ is, serSSC s = .ok is ∧ c.encode (M.renderDoc is) = some b := by
  unfold writtenSSC at hw
  cases hs : serSSC s with
  | error e => rw [hs] at hw; cases hw
  | ok is => rw [hs] at hw; exact ⟨is, rfl, hw⟩

theorem writtenSSC_of_ser (M : Msd) (c : Codec) (s : SSCSimfile) (is : List Item) (hs : serSSC s = .ok is) :
    writtenSSC M c s = c.encode (M.renderDoc is) := by
  unfold writtenSSC; rw [hs]

/-- two simfiles with the same serialization are written as the same bytes -/
theorem writtenSSC_congr (M : Msd) (c : Codec) (s s' : SSCSimfile) (h : serSSC s = serSSC s') :
    writtenSSC M c s = writtenSSC M c s' := by
  unfold writtenSSC; rw [h]

/-! ### a toy codec: ASCII -/

/-- ASCII: encodes a text exactly when all its characters are below 128, one byte per character -/
def asciiCodec : Codec where
  encode t := if t.all (fun ch => ch.toNat < 128) then some (t.map fun ch => ch.toNat.toUInt8) else none
  decode b := if b.all (fun x => x.toNat < 128) then some (b.map fun x => Char.ofNat x.toNat) else none

theorem ascii_char_roundtrip (ch : Char) (h : ch.toNat < 128) : Char.ofNat ch.toNat.toUInt8.toNat = ch := by
  have h1 : ch.toNat.toUInt8.toNat = ch.toNat := by
    simp only [Nat.toUInt8, UInt8.toNat_ofNat']
    omega
  rw [h1]
  exact Char.ofNat_toNat ch

theorem asciiCodec_law : asciiCodec.Law := by
  intro t b h
  unfold asciiCodec at h ⊢
  simp only at h ⊢
  by_cases ha : t.all (fun ch => ch.toNat < 128) = true
  · rw [if_pos ha] at h
    cases h
    have hall : ∀ ch ∈ t, ch.toNat < 128 := by
      intro ch hch
      simpa using (List.all_eq_true.mp ha) ch hch
    have hb : (t.map fun ch => ch.toNat.toUInt8).all (fun x => decide (x.toNat < 128)) = true := by
      rw [List.all_eq_true]
      intro x hx
      obtain ⟨ch, hch, rfl⟩ := List.mem_map.mp hx
      have := hall ch hch
      simp only [Nat.toUInt8, UInt8.toNat_ofNat', decide_eq_true_eq]
      omega
    rw [if_pos hb, List.map_map]
    congr 1
    conv => rhs; rw [← List.map_id t]
    apply List.map_congr_left
    intro ch hch
    exact ascii_char_roundtrip ch (hall ch hch)
  · rw [if_neg ha] at h; cases h

end Simfile.Cd
