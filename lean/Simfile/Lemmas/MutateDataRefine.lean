/-
The data-carrying model `mutateD` (Model/MutateData.lean) refines the symbolic decision table `mutate`
(Model/Mutate.lean): forgetting the payloads gives the same outcome class, the same calls and the same file
classes. Definitions of the forgetful maps, the exact fault tables of the data model, and the simulation lemmas.
-/
import Simfile.Lemmas.MutateData
import Simfile.Props.C06
namespace Simfile
namespace MD
open Simfile.Mut

/-! ### the exact fault tables of the data model -/

/-- a save with a backup: bytes of the backup and of the output after a fault at any call -/
theorem fault_table_D (c : MutateCfg) (enc : Str) (b : Str) (hnc : NoClash c) (hb : given c.backup = some b)
    (fs : FS) (cut : Nat) (bb ob : Bytes) (k : Option Nat) :
    (fsGet (runD fs cut (saveScriptD c enc bb ob) k) b, fsGet (runD fs cut (saveScriptD c enc bb ob) k) c.outPath) =
      match k with
      | some 0 => (fsGet fs b, fsGet fs c.outPath)               -- open(backup) failed
      | some 1 => (some (bb.take cut), fsGet fs c.outPath)       -- write(backup) failed
      | some 2 => (some (bb.take cut), fsGet fs c.outPath)       -- close(backup) failed
      | some 3 => (some bb, fsGet fs c.outPath)                  -- open(output) failed
      | some 4 => (some bb, some (ob.take cut))                  -- write(output) failed
      | some 5 => (some bb, some (ob.take cut))                  -- close(output) failed
      | _ => (some bb, some ob) := by
  have hbo : b ≠ c.outPath := backup_ne_outPath hnc hb
  have hob : c.outPath ≠ b := Ne.symm hbo
  rw [saveScriptD_some hb]
  have early : ∀ n, n < 3 → runD fs cut (blockD b enc bb ++ blockD c.outPath enc ob) (some n) =
      runD fs cut (blockD b enc bb) (some n) := fun n hn => runD_append_lt _ _ _ _ _ (by rw [blockD_length]; exact hn)
  have late : ∀ n, 3 ≤ n → runD fs cut (blockD b enc bb ++ blockD c.outPath enc ob) (some n) =
      runD (runD fs cut (blockD b enc bb) none) cut (blockD c.outPath enc ob) (some (n - 3)) := by
    intro n hn
    rw [runD_append_ge _ _ _ _ _ (by rw [blockD_length]; exact hn), blockD_length]
  have bdone : ∀ k', fsGet (runD (runD fs cut (blockD b enc bb) none) cut (blockD c.outPath enc ob) k') b = some bb := by
    intro k'
    rw [fsGet_run_blockD_ne _ _ _ _ _ _ hob, fsGet_run_blockD]
  have ofresh : fsGet (runD fs cut (blockD b enc bb) none) c.outPath = fsGet fs c.outPath :=
    fsGet_run_blockD_ne _ _ _ _ _ _ hbo
  rcases k with _ | _ | _ | _ | _ | _ | _ | k
  · show (_, _) = (some bb, some ob)
    rw [runD_append_none, bdone, fsGet_run_blockD]
  · show (_, _) = (fsGet fs b, fsGet fs c.outPath)
    rw [early 0 (by omega), fsGet_run_blockD, fsGet_run_blockD_ne _ _ _ _ _ _ hbo]
    rfl
  · show (_, _) = (some (bb.take cut), fsGet fs c.outPath)
    rw [early 1 (by omega), fsGet_run_blockD, fsGet_run_blockD_ne _ _ _ _ _ _ hbo]
    rfl
  · show (_, _) = (some (bb.take cut), fsGet fs c.outPath)
    rw [early 2 (by omega), fsGet_run_blockD, fsGet_run_blockD_ne _ _ _ _ _ _ hbo]
    rfl
  · show (_, _) = (some bb, fsGet fs c.outPath)
    rw [late 3 (by omega), bdone, fsGet_run_blockD]
    show (some bb, fsGet (runD fs cut (blockD b enc bb) none) c.outPath) = _
    rw [ofresh]
  · show (_, _) = (some bb, some (ob.take cut))
    rw [late 4 (by omega), bdone, fsGet_run_blockD]
    rfl
  · show (_, _) = (some bb, some (ob.take cut))
    rw [late 5 (by omega), bdone, fsGet_run_blockD]
    rfl
  · show (_, _) = (some bb, some ob)
    rw [late (k + 6) (by omega), bdone, fsGet_run_blockD]
    have : k + 6 - 3 = k + 3 := by omega
    rw [this]
    rfl

/-- a save without a backup -/
theorem fault_table_D_no_backup (c : MutateCfg) (enc : Str) (hb : given c.backup = none)
    (fs : FS) (cut : Nat) (bb ob : Bytes) (k : Option Nat) :
    fsGet (runD fs cut (saveScriptD c enc bb ob) k) c.outPath =
      match k with
      | some 0 => fsGet fs c.outPath              -- open(output) failed
      | some 1 => some (ob.take cut)              -- write(output) failed
      | some 2 => some (ob.take cut)              -- close(output) failed
      | _ => some ob := by
  rw [saveScriptD_none hb, fsGet_run_blockD]
  rcases k with _ | _ | _ | _ | k <;> rfl

/-- every path other than the backup and the output keeps its bytes -/
theorem saveScriptD_frame (c : MutateCfg) (enc : Str) (fs : FS) (cut : Nat) (bb ob : Bytes) (k : Option Nat)
    (p : Str) (hp : p ≠ c.outPath) (hpb : some p ≠ given c.backup) :
    fsGet (runD fs cut (saveScriptD c enc bb ob) k) p = fsGet fs p := by
  apply runD_frame
  intro op hop
  rcases saveScriptD_path c enc bb ob op hop with h | h
  · rw [h]; exact Ne.symm hp
  · intro he
    apply hpb
    rw [h, he]

/-! ### forgetting the payloads -/

/-- every existing file holds its original bytes -/
def absFs (fs : FS) : List (Str × Content) := fs.map fun x => (x.1, Content.original)

theorem lookup_absFs (fs : FS) (p : Str) : lookupContent (absFs fs) p = (fsGet fs p).map fun _ => Content.original := by
  unfold lookupContent absFs fsGet
  induction fs with
  | nil => rfl
  | cons x rest ih =>
    by_cases h : x.1 = p
    · simp [h]
    · have ih' := ih
      simp only [List.map_cons, List.find?_cons, h, decide_false] at ih' ⊢
      exact ih'

/-- the outcome class; `none` for the outcomes the symbolic model does not have -/
def OutcomeD.forget : OutcomeD → Option Outcome
  | .valueError => some .valueError
  | .unicodeDecodeError => some .unicodeDecodeError
  | .returned => some .returned
  | .propagated _ => some .propagated
  | .serializeError _ _ => some .saveError
  | .encodeError _ => some .saveError
  | .fileNotFound => none
  | .loadError _ => none
  | .ioError _ => none

/-- the symbolic inputs `(body, problem)` that the data determine -/
def absInputs {Sim : Type} (W : World Sim) (c : MutateCfg) (encs : List Str) (body : Sim → BodyResult Sim)
    (b₀ : Bytes) : Body × SaveProblem :=
  match detectD W.codec encs b₀ with
  | none => (.returns, .none)
  | some (enc, t₀) =>
    match W.load t₀ with
    | .error _ => (.returns, .none)
    | .ok s₀ =>
      match body s₀ with
      | .raises x => (if x.isCancel then .cancels else .raises, .none)
      | .returns s₁ =>
        (.returns,
          match W.ser s₁, entryText W c s₀ with
          | .ok ot, .ok bt =>
            if ((W.codec enc).encode bt).isSome && ((W.codec enc).encode ot).isSome then .none else .unencodable
          | _, _ => .unserializable)

/-- the calls made when the `k`-th write-side call of `ops` fails: those up to and including it -/
def upToFaultN : List FsOp → Nat → List FsOp
  | [], _ => []
  | op :: rest, k =>
    if writeSide op then (match k with | 0 => [op] | k + 1 => op :: upToFaultN rest k)
    else op :: upToFaultN rest k

def upToFault (ops : List FsOp) : Option Nat → List FsOp
  | none => ops
  | some k => upToFaultN ops k

theorem upToFault_none (ops : List FsOp) : upToFault ops none = ops := rfl

theorem upToFaultN_read (op : FsOp) (rest : List FsOp) (k : Nat) (h : writeSide op = false) :
    upToFaultN (op :: rest) k = op :: upToFaultN rest k := by
  cases k <;> simp [upToFaultN, h]

theorem upToFaultN_write_zero (op : FsOp) (rest : List FsOp) (h : writeSide op = true) :
    upToFaultN (op :: rest) 0 = [op] := by
  simp [upToFaultN, h]

theorem upToFaultN_write_succ (op : FsOp) (rest : List FsOp) (k : Nat) (h : writeSide op = true) :
    upToFaultN (op :: rest) (k + 1) = op :: upToFaultN rest k := by
  simp [upToFaultN, h]

theorem upToFault_reads (ops rest : List FsOp) (h : ∀ op ∈ ops, writeSide op = false) (k : Option Nat) :
    upToFault (ops ++ rest) k = ops ++ upToFault rest k := by
  cases k with
  | none => rfl
  | some k =>
    show upToFaultN (ops ++ rest) k = ops ++ upToFaultN rest k
    induction ops with
    | nil => rfl
    | cons op ops ih =>
      have h0 := h op (by simp)
      rw [List.cons_append, upToFaultN_read _ _ _ h0, ih (fun o ho => h o (by simp [ho]))]
      rfl

theorem upToFault_nil (k : Option Nat) : upToFault [] k = [] := by
  cases k <;> rfl

theorem upToFault_writes (ops : List FsOp) (h : ∀ op ∈ ops, writeSide op = true) :
    ∀ k : Nat, upToFault ops (some k) = ops.take (k + 1) := by
  show ∀ k : Nat, upToFaultN ops k = ops.take (k + 1)
  induction ops with
  | nil => intro k; rfl
  | cons op ops ih =>
    intro k
    have h0 := h op (by simp)
    cases k with
    | zero => rw [upToFaultN_write_zero _ _ h0]; simp
    | succ k => rw [upToFaultN_write_succ _ _ _ h0, ih (fun o ho => h o (by simp [ho])) k, List.take_succ_cons]

theorem madeD_forget (c : MutateCfg) (enc : Str) (bb ob : Bytes) (k : Option Nat) :
    (madeD (saveScriptD c enc bb ob) k).map OpD.forget = upToFault (saveOps c enc) k := by
  cases k with
  | none => rw [upToFault_none]; exact saveScriptD_forget c enc bb ob
  | some k =>
    rw [upToFault_writes _ (saveOps_writeSide c enc), ← saveScriptD_forget c enc bb ob]
    show ((saveScriptD c enc bb ob).take (k + 1)).map OpD.forget = _
    rw [List.map_take]

theorem saveScriptD_length (c : MutateCfg) (enc : Str) (bb ob : Bytes) :
    (saveScriptD c enc bb ob).length = (saveOps c enc).length := by
  rw [← saveScriptD_forget c enc bb ob, List.length_map]

/-! ### what a symbolic content says about the bytes of a file -/

/-- the data being written to path `p`: the backup bytes for the backup path, else the output bytes -/
def dataFor (c : MutateCfg) (bb ob : Bytes) (p : Str) : Bytes := if given c.backup = some p then bb else ob

/-- exact reading of the symbolic contents -/
def Agree (fs : FS) (c : MutateCfg) (bb ob : Bytes) (p : Str) : Option Content → Option Bytes → Prop
  | none, y => y = none
  | some .original, y => y = fsGet fs p ∧ y ≠ none
  | some (.written true), y => y = some bb
  | some (.written false), y => y = some ob
  | some .truncated, y => ∃ n, y = some ((dataFor c bb ob p).take n)

/-- pessimistic reading: a file the symbolic model calls complete may hold only a prefix -/
def AgreeW (fs : FS) (c : MutateCfg) (bb ob : Bytes) (p : Str) : Option Content → Option Bytes → Prop
  | none, y => y = none
  | some .original, y => y = fsGet fs p ∧ y ≠ none
  | some (.written true), y => ∃ n, y = some (bb.take n)
  | some (.written false), y => ∃ n, y = some (ob.take n)
  | some .truncated, y => ∃ n, y = some ((dataFor c bb ob p).take n)

theorem Agree.weaken {fs : FS} {c : MutateCfg} {bb ob : Bytes} {p : Str} {x : Option Content} {y : Option Bytes}
    (h : Agree fs c bb ob p x y) : AgreeW fs c bb ob p x y := by
  rcases x with _ | _ | bk | _
  · exact h
  · exact h
  · cases bk
    · exact ⟨ob.length, by rw [List.take_length]; exact h⟩
    · exact ⟨bb.length, by rw [List.take_length]; exact h⟩
  · exact h

theorem agree_original (fs : FS) (c : MutateCfg) (bb ob : Bytes) (p : Str) :
    Agree fs c bb ob p (lookupContent (absFs fs) p) (fsGet fs p) := by
  rw [lookup_absFs]
  cases h : fsGet fs p with
  | none => rfl
  | some v => exact ⟨h.symm, by simp⟩

/-- the fault (if any) is not a close that loses data: the optimistic reading of a failing close -/
def CloseKeepsData (c : MutateCfg) (enc : Str) (bb ob : Bytes) (k : Option Nat) (cut : Nat) : Prop :=
  ∀ n p d, k = some n → (saveScriptD c enc bb ob)[n]? = some (OpD.close p d) → d.length ≤ cut

/-- simulation of the save: for every path the symbolic file class, read as a statement about bytes, holds of
the bytes in the data model; under a pessimistic close only up to "complete ↦ some prefix" -/
theorem refine_files (c : MutateCfg) (hnc : NoClash c) (tries : List (Str × Bool)) (enc : Str) (fs : FS)
    (bb ob : Bytes) (k : Option Nat) (cut : Nat) (p : Str) :
    AgreeW fs c bb ob p
      (lookupContent (runWrites (absFs fs) (given c.backup) (readOps c.input tries ++ saveOps c enc) k) p)
      (fsGet (runD fs cut (saveScriptD c enc bb ob) k) p) ∧
    (CloseKeepsData c enc bb ob k cut →
      Agree fs c bb ob p
        (lookupContent (runWrites (absFs fs) (given c.backup) (readOps c.input tries ++ saveOps c enc) k) p)
        (fsGet (runD fs cut (saveScriptD c enc bb ob) k) p)) := by
  -- other paths: both sides keep the original
  have other : p ≠ c.outPath → some p ≠ given c.backup →
      Agree fs c bb ob p
        (lookupContent (runWrites (absFs fs) (given c.backup) (readOps c.input tries ++ saveOps c enc) k) p)
        (fsGet (runD fs cut (saveScriptD c enc bb ob) k) p) := by
    intro hp hpb
    rw [saveScriptD_frame c enc fs cut bb ob k p hp hpb, runWrites_readOps]
    have : lookupContent (runWrites (absFs fs) (given c.backup) (saveOps c enc) k) p = lookupContent (absFs fs) p := by
      apply runWrites_frame
      intro op hop _
      rcases saveOps_path c enc op hop with h | h
      · rw [h]; exact Ne.symm hp
      · intro he; apply hpb; rw [h, he]
    rw [this]
    exact agree_original fs c bb ob p
  cases hb : given c.backup with
  | none =>
    by_cases hp : p = c.outPath
    · subst hp
      have hA := C06.fault_table_no_backup c tries enc hb (absFs fs) k
      have hC := fault_table_D_no_backup c enc hb fs cut bb ob k
      simp only at hA
      rw [hb] at hA
      rw [hA, hC]
      have hd : dataFor c bb ob c.outPath = ob := by simp [dataFor, hb]
      have tr_o : ∀ n, ∃ m, some (ob.take n) = some ((dataFor c bb ob c.outPath).take m) := fun n => ⟨n, by rw [hd]⟩
      rcases k with _ | _ | _ | _ | k
      · exact ⟨Agree.weaken rfl, fun _ => rfl⟩
      · exact ⟨Agree.weaken (agree_original fs c bb ob _), fun _ => agree_original fs c bb ob _⟩
      · exact ⟨tr_o cut, fun _ => tr_o cut⟩
      · refine ⟨⟨cut, rfl⟩, fun hk => ?_⟩
        have := hk 2 c.outPath ob rfl (by rw [saveScriptD_none hb]; rfl)
        show some (ob.take cut) = some ob
        rw [List.take_of_length_le this]
      · exact ⟨Agree.weaken rfl, fun _ => rfl⟩
    · have := other hp (by rw [hb]; simp)
      rw [hb] at this
      exact ⟨this.weaken, fun _ => this⟩
  | some b =>
    have hbo : b ≠ c.outPath := backup_ne_outPath hnc hb
    have hA := C06.fault_table c tries enc b hnc hb (absFs fs) k
    have hC := fault_table_D c enc b hnc hb fs cut bb ob k
    simp only at hA
    rw [hb] at hA
    have hdb : dataFor c bb ob b = bb := by simp [dataFor, hb]
    have hdo : dataFor c bb ob c.outPath = ob := by
      simp only [dataFor, hb, Option.some.injEq]
      rw [if_neg hbo]
    have tr_b : ∀ n, ∃ m, some (bb.take n) = some ((dataFor c bb ob b).take m) := fun n => ⟨n, by rw [hdb]⟩
    have tr_o : ∀ n, ∃ m, some (ob.take n) = some ((dataFor c bb ob c.outPath).take m) := fun n => ⟨n, by rw [hdo]⟩
    have cl2 : CloseKeepsData c enc bb ob (some 2) cut → bb.take cut = bb := fun hk =>
      List.take_of_length_le (hk 2 b bb rfl (by rw [saveScriptD_some hb]; rfl))
    have cl5 : CloseKeepsData c enc bb ob (some 5) cut → ob.take cut = ob := fun hk =>
      List.take_of_length_le (hk 5 c.outPath ob rfl (by rw [saveScriptD_some hb]; rfl))
    by_cases hp : p = b
    · subst hp
      have hA1 := congrArg Prod.fst hA
      have hC1 := congrArg Prod.fst hC
      simp only at hA1 hC1
      rw [hA1, hC1]
      rcases k with _ | _ | _ | _ | _ | _ | _ | k
      · exact ⟨Agree.weaken rfl, fun _ => rfl⟩
      · exact ⟨Agree.weaken (agree_original fs c bb ob _), fun _ => agree_original fs c bb ob _⟩
      · exact ⟨tr_b cut, fun _ => tr_b cut⟩
      · exact ⟨⟨cut, rfl⟩, fun hk => by show some (bb.take cut) = some bb; rw [cl2 hk]⟩
      · exact ⟨Agree.weaken rfl, fun _ => rfl⟩
      · exact ⟨Agree.weaken rfl, fun _ => rfl⟩
      · exact ⟨Agree.weaken rfl, fun _ => rfl⟩
      · exact ⟨Agree.weaken rfl, fun _ => rfl⟩
    · by_cases hpo : p = c.outPath
      · subst hpo
        have hA2 := congrArg Prod.snd hA
        have hC2 := congrArg Prod.snd hC
        simp only at hA2 hC2
        rw [hA2, hC2]
        rcases k with _ | _ | _ | _ | _ | _ | _ | k
        · exact ⟨Agree.weaken rfl, fun _ => rfl⟩
        · exact ⟨Agree.weaken (agree_original fs c bb ob _), fun _ => agree_original fs c bb ob _⟩
        · exact ⟨Agree.weaken (agree_original fs c bb ob _), fun _ => agree_original fs c bb ob _⟩
        · exact ⟨Agree.weaken (agree_original fs c bb ob _), fun _ => agree_original fs c bb ob _⟩
        · exact ⟨Agree.weaken (agree_original fs c bb ob _), fun _ => agree_original fs c bb ob _⟩
        · exact ⟨tr_o cut, fun _ => tr_o cut⟩
        · exact ⟨⟨cut, rfl⟩, fun hk => by show some (ob.take cut) = some ob; rw [cl5 hk]⟩
        · exact ⟨Agree.weaken rfl, fun _ => rfl⟩
      · have := other hpo (by rw [hb]; intro h; exact hp (Option.some.inj h))
        rw [hb] at this
        exact ⟨this.weaken, fun _ => this⟩

/-! ### outcome and calls -/

theorem nWrites_script (c : MutateCfg) (tries : List (Str × Bool)) (enc : Str) :
    nWrites (readOps c.input tries ++ saveOps c enc) = (saveOps c enc).length := by
  unfold nWrites
  rw [filter_writeSide_script]

theorem nWrites_reads (input : Str) (tries : List (Str × Bool)) : nWrites (readOps input tries) = 0 := by
  unfold nWrites
  rw [List.length_eq_zero_iff, List.filter_eq_nil_iff]
  intro op hop
  simp [readOps_not_writeSide input tries op hop]

theorem upToFault_readOps (input : Str) (tries : List (Str × Bool)) (k : Option Nat) :
    upToFault (readOps input tries) k = readOps input tries := by
  have := upToFault_reads (readOps input tries) [] (readOps_not_writeSide input tries) k
  rw [List.append_nil, upToFault_nil, List.append_nil] at this
  exact this

/-- the symbolic model after a successful detection -/
theorem mutate_of_detected {c : MutateCfg} (hnc : NoClash c) {cod : Str → Codec} {encs : List Str} {b₀ : Bytes}
    {enc t₀ : Str} (hdet : detectD cod encs b₀ = some (enc, t₀)) (ab : Body) (ap : SaveProblem) :
    mutate c (triesOf cod encs b₀) ab ap =
      match ab with
      | .cancels => (.returned, readOps c.input (triesOf cod encs b₀))
      | .raises => (.propagated, readOps c.input (triesOf cod encs b₀))
      | .returns =>
        match ap with
        | .none => (.returned, readOps c.input (triesOf cod encs b₀) ++ saveOps c enc)
        | _ => (.saveError, readOps c.input (triesOf cod encs b₀)) := by
  rw [mutate_of_noClash hnc]
  unfold mutate.go
  rw [detectEncoding_triesOf, hdet]
  rfl

theorem mutate_of_undetected {c : MutateCfg} (hnc : NoClash c) {cod : Str → Codec} {encs : List Str} {b₀ : Bytes}
    (hdet : detectD cod encs b₀ = none) (ab : Body) (ap : SaveProblem) :
    mutate c (triesOf cod encs b₀) ab ap = (.unicodeDecodeError, readOps c.input (triesOf cod encs b₀)) := by
  rw [mutate_of_noClash hnc]
  unfold mutate.go
  rw [detectEncoding_triesOf, hdet]
  rfl

/-- the symbolic inputs of a run that reaches the save -/
theorem absInputs_of_saves {Sim : Type} {W : World Sim} {c : MutateCfg} {encs : List Str}
    {body : Sim → BodyResult Sim} {fs : FS} {b₀ : Bytes} {enc t₀ : Str} {s₀ : Sim} {bt : Str} {s₁ : Sim} {ot : Str}
    {bb ob : Bytes} (h : Saves W c encs body fs b₀ enc t₀ s₀ bt s₁ ot bb ob) :
    absInputs W c encs body b₀ = (.returns, .none) := by
  unfold absInputs
  simp only [h.det, h.load, h.body, h.ser, h.entry, h.encB, h.encO, Option.isSome_some, Bool.and_self, if_true]

/-- … and the symbolic result: the fault-free script -/
theorem mutate_of_saves {Sim : Type} {W : World Sim} {c : MutateCfg} {encs : List Str}
    {body : Sim → BodyResult Sim} {fs : FS} {b₀ : Bytes} {enc t₀ : Str} {s₀ : Sim} {bt : Str} {s₁ : Sim} {ot : Str}
    {bb ob : Bytes} (h : Saves W c encs body fs b₀ enc t₀ s₀ bt s₁ ot bb ob) :
    mutate c (triesOf W.codec encs b₀) (absInputs W c encs body b₀).1 (absInputs W c encs body b₀).2 =
      (.returned, readOps c.input (triesOf W.codec encs b₀) ++ saveOps c enc) := by
  rw [absInputs_of_saves h, mutate_of_detected h.noClash h.det]

/-- outcome class and calls: `mutateD` with its payloads forgotten is `mutate` on the symbolic inputs the data
determine — provided the input file exists, the decoded text loads, and the entry serialization (for a requested
backup) succeeds; these three situations have no counterpart in the symbolic model -/
theorem refines_outcome_trace {Sim : Type} (W : World Sim) (c : MutateCfg) (encs : List Str)
    (body : Sim → BodyResult Sim) (fs : FS) (k : Option Nat) (cut : Nat) (b₀ : Bytes)
    (hin : fsGet fs c.input = some b₀)
    (hload : ∀ enc t, detectD W.codec encs b₀ = some (enc, t) → ∃ s, W.load t = .ok s)
    (hentry : ∀ enc t s, detectD W.codec encs b₀ = some (enc, t) → W.load t = .ok s →
      ∃ bt, entryText W c s = .ok bt) :
    ((mutateD W c encs body fs k cut).trace.map OpD.forget =
      upToFault (mutate c (triesOf W.codec encs b₀) (absInputs W c encs body b₀).1
        (absInputs W c encs body b₀).2).2 k) ∧
    ((∀ n, k = some n → nWrites (mutate c (triesOf W.codec encs b₀) (absInputs W c encs body b₀).1
        (absInputs W c encs body b₀).2).2 ≤ n) →
      (mutateD W c encs body fs k cut).outcome.forget =
        some (mutate c (triesOf W.codec encs b₀) (absInputs W c encs body b₀).1
          (absInputs W c encs body b₀).2).1) ∧
    (∀ n, k = some n → n < nWrites (mutate c (triesOf W.codec encs b₀) (absInputs W c encs body b₀).1
        (absInputs W c encs body b₀).2).2 → (mutateD W c encs body fs k cut).outcome = .ioError n) := by
  by_cases hcl : clash c = true
  · obtain ⟨b, hb, h⟩ := (clash_true_iff c).mp hcl
    rw [mutate_of_clash hb h]
    unfold mutateD mutateDWith
    simp only [hcl, if_true]
    refine ⟨by rw [upToFault_nil]; rfl, fun _ => rfl, fun n _ hn => ?_⟩
    simp [nWrites] at hn
  have hnc : NoClash c := (clash_false_iff c).mp (by simpa using hcl)
  have hcl' : clash c = false := by simpa using hcl
  -- the three conclusions when no write-side call is made
  have quiet : ∀ (o : OutcomeD) (oa : Outcome), o.forget = some oa →
      ((readsD W.codec c.input encs b₀).map OpD.forget = upToFault (readOps c.input (triesOf W.codec encs b₀)) k) ∧
      ((∀ n, k = some n → nWrites (readOps c.input (triesOf W.codec encs b₀)) ≤ n) → o.forget = some oa) ∧
      (∀ n, k = some n → n < nWrites (readOps c.input (triesOf W.codec encs b₀)) → o = .ioError n) := by
    intro o oa ho
    refine ⟨?_, fun _ => ho, fun n _ hn => ?_⟩
    · rw [upToFault_readOps, readsD_forget]
    · exfalso
      have : nWrites (readOps c.input (triesOf W.codec encs b₀)) = 0 := nWrites_reads _ _
      omega
  cases hdet : detectD W.codec encs b₀ with
  | none =>
    rw [mutate_of_undetected hnc hdet]
    cases encs with
    | nil =>
      unfold mutateD mutateDWith
      simp only [hcl', Bool.false_eq_true, if_false]
      exact quiet .unicodeDecodeError .unicodeDecodeError rfl
    | cons e₀ rest =>
      unfold mutateD mutateDWith
      simp only [hcl', Bool.false_eq_true, if_false, hin, hdet]
      exact quiet .unicodeDecodeError .unicodeDecodeError rfl
  | some x =>
    obtain ⟨enc, t₀⟩ := x
    obtain ⟨s₀, hl⟩ := hload enc t₀ hdet
    obtain ⟨bt, hbt⟩ := hentry enc t₀ s₀ hdet hl
    obtain ⟨e₀, rest, rfl⟩ := encs_ne_nil_of_det hdet
    rw [mutate_of_detected hnc hdet]
    cases hbody : body s₀ with
    | raises x =>
      have hab : absInputs W c (e₀ :: rest) body b₀ = (if x.isCancel then .cancels else .raises, .none) := by
        unfold absInputs; simp only [hdet, hl, hbody]
      rw [hab]
      unfold mutateD mutateDWith
      simp only [hcl', Bool.false_eq_true, if_false, hin, hdet, hl, hbt, hbody]
      cases hx : x.isCancel with
      | true =>
        simp only [if_true]
        have ho : (afterRaise handlers x).forget = some .returned := by
          simp [afterRaise, handlers, dispatch, Catch.catches, hx, OutcomeD.forget]
        exact quiet _ .returned ho
      | false =>
        simp only [Bool.false_eq_true, if_false]
        have ho : (afterRaise handlers x).forget = some .propagated := by
          simp [afterRaise, handlers, dispatch, Catch.catches, hx, OutcomeD.forget]
        exact quiet _ .propagated ho
    | returns s₁ =>
      cases hser : W.ser s₁ with
      | error er =>
        have hab : absInputs W c (e₀ :: rest) body b₀ = (.returns, .unserializable) := by
          unfold absInputs; simp only [hdet, hl, hbody, hser]
        rw [hab]
        unfold mutateD mutateDWith
        simp only [hcl', Bool.false_eq_true, if_false, hin, hdet, hl, hbt, hbody, hser]
        exact quiet _ .saveError rfl
      | ok ot =>
        cases hbb : (W.codec enc).encode bt with
        | none =>
          have hab : absInputs W c (e₀ :: rest) body b₀ = (.returns, .unencodable) := by
            unfold absInputs; simp [hdet, hl, hbody, hser, hbt, hbb]
          rw [hab]
          unfold mutateD mutateDWith
          simp only [hcl', Bool.false_eq_true, if_false, hin, hdet, hl, hbt, hbody, hser, hbb]
          exact quiet _ .saveError rfl
        | some bb =>
          cases hob : (W.codec enc).encode ot with
          | none =>
            have hab : absInputs W c (e₀ :: rest) body b₀ = (.returns, .unencodable) := by
              unfold absInputs; simp [hdet, hl, hbody, hser, hbt, hbb, hob]
            rw [hab]
            unfold mutateD mutateDWith
            simp only [hcl', Bool.false_eq_true, if_false, hin, hdet, hl, hbt, hbody, hser, hbb, hob]
            exact quiet _ .saveError rfl
          | some ob =>
            have hS : Saves W c (e₀ :: rest) body fs b₀ enc t₀ s₀ bt s₁ ot bb ob :=
              ⟨hnc, hin, hdet, hl, hbt, hbody, hser, hbb, hob⟩
            rw [absInputs_of_saves hS]
            unfold mutateD
            rw [mutateDWith_saves handlers hS k cut]
            simp only
            rw [nWrites_script, ← saveScriptD_length c enc bb ob]
            refine ⟨?_, ?_, ?_⟩
            · rw [List.map_append, readsD_forget, madeD_forget,
                upToFault_reads _ _ (readOps_not_writeSide _ _)]
            · intro hk
              cases k with
              | none => rfl
              | some n =>
                have := hk n rfl
                simp only [faultFires, if_neg (Nat.not_lt.mpr this)]
                rfl
            · intro n hk hn
              subst hk
              simp only [faultFires, if_pos hn]

end MD
end Simfile
