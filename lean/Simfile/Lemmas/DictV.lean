/-
More association-list dictionary lemmas (`contains`, `erase`, dropping the last item) for C15–C18.
-/
import Simfile.Lemmas.DictO
namespace Simfile.O
open Simfile

theorem contains_set_self (d : Dict) (k : Str) (v : Option Str) : (d.set k v).contains k = true := by
  rw [contains_eq, get?_set_self]; rfl

theorem contains_set_ne (d : Dict) (k k' : Str) (v : Option Str) (h : k' ≠ k) :
    (d.set k v).contains k' = d.contains k' := by
  rw [contains_eq, contains_eq, get?_set_ne _ _ _ _ h]

theorem contains_false_iff (d : Dict) (k : Str) : d.contains k = false ↔ k ∉ Dict.keys d := by
  rw [← contains_iff]; simp

theorem get?_of_contains_false (d : Dict) (k : Str) (h : d.contains k = false) : d.get? k = none := by
  rw [contains_eq] at h
  cases hg : d.get? k with
  | none => rfl
  | some v => rw [hg] at h; cases h

theorem keys_erase (d : Dict) (k : Str) : Dict.keys (d.erase k) = (Dict.keys d).filter (fun x => x ≠ k) := by
  unfold Dict.erase Dict.keys
  rw [List.filter_map]; rfl

theorem get?_erase_ne (d : Dict) (k k' : Str) (h : k' ≠ k) : (d.erase k).get? k' = d.get? k' := by
  induction d with
  | nil => rfl
  | cons kv d ih =>
    obtain ⟨k₁, v₁⟩ := kv
    unfold Dict.erase at ih ⊢
    rw [List.filter_cons]
    by_cases e : k₁ = k
    · subst e
      simp only [ne_eq, not_true_eq_false, decide_false, Bool.false_eq_true, if_false]
      rw [ih, get?_cons_ne _ _ _ _ h]
    · simp only [ne_eq, e, not_false_eq_true, decide_true, if_true]
      by_cases e' : k' = k₁
      · subst e'; rw [get?_cons_self, get?_cons_self]
      · rw [get?_cons_ne _ _ _ _ e', get?_cons_ne _ _ _ _ e', ih]

theorem get?_erase_self (d : Dict) (k : Str) : (d.erase k).get? k = none := by
  rw [get?_eq_none_iff, keys_erase]; simp

theorem WF_erase (d : Dict) (k : Str) (h : Dict.WF d) : Dict.WF (d.erase k) := by
  unfold Dict.WF at *
  rw [keys_erase]
  exact h.sublist List.filter_sublist

theorem erase_of_not_mem (d : Dict) (k : Str) (h : k ∉ Dict.keys d) : d.erase k = d := by
  unfold Dict.erase
  apply List.filter_eq_self.mpr
  intro kv hkv
  have : kv.1 ≠ k := fun e => h (e ▸ List.mem_map.mpr ⟨kv, hkv, rfl⟩)
  simpa using this

/-! ### removing the last item (`popitem`) -/

theorem keys_dropLast (d : Dict) : Dict.keys d.dropLast = (Dict.keys d).dropLast := by
  unfold Dict.keys; rw [List.map_dropLast]

theorem WF_dropLast (d : Dict) (h : Dict.WF d) : Dict.WF d.dropLast := by
  unfold Dict.WF at *
  rw [keys_dropLast]
  exact h.sublist (List.dropLast_sublist _)

theorem get?_append_ne (d : Dict) (k k' : Str) (v : Option Str) (h : k' ≠ k) :
    Dict.get? (d ++ [(k, v)]) k' = d.get? k' := by
  induction d with
  | nil => exact get?_cons_ne _ _ _ _ h
  | cons kv d ih =>
    obtain ⟨k₁, v₁⟩ := kv
    rw [List.cons_append]
    by_cases e' : k' = k₁
    · subst e'; rw [get?_cons_self, get?_cons_self]
    · rw [get?_cons_ne _ _ _ _ e', get?_cons_ne _ _ _ _ e', ih]

/-- the shape of `d` seen by `popitem` -/
theorem reverse_eq_cons (d : Dict) (kv : Str × Option Str) (rest : Dict) (h : d.reverse = kv :: rest) :
    d = rest.reverse ++ [kv] := by
  have := congrArg List.reverse h
  rw [List.reverse_reverse, List.reverse_cons] at this
  exact this

end Simfile.O
