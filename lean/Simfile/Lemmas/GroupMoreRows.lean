/-
Lemmas for C09 (round 2): the same-beat phase of group_notes (`groupby(beat)` followed by `add_row`),
described without reference to the machinery that computes it.
-/
import Simfile.Lemmas.GroupRuns
import Simfile.Lemmas.UngroupByType
namespace Simfile.GroupMore
open Simfile

/-! ### `eraseDups` (distinct values in order of first occurrence) -/

theorem eraseDups_sublist {α} [BEq α] [LawfulBEq α] (l : List α) : l.eraseDups.Sublist l := by
  match l with
  | [] => simp
  | a :: as =>
    rw [List.eraseDups_cons]
    have : (as.filter fun b => !b == a).length < as.length + 1 :=
      Nat.lt_succ_of_le (List.length_filter_le _ _)
    exact List.Sublist.cons_cons a ((eraseDups_sublist _).trans List.filter_sublist)
termination_by l.length

theorem nodup_eraseDups {α} [BEq α] [LawfulBEq α] (l : List α) : l.eraseDups.Nodup := by
  match l with
  | [] => simp
  | a :: as =>
    rw [List.eraseDups_cons, List.nodup_cons]
    have : (as.filter fun b => !b == a).length < as.length + 1 :=
      Nat.lt_succ_of_le (List.length_filter_le _ _)
    refine ⟨?_, nodup_eraseDups _⟩
    intro h
    have := List.mem_eraseDups.mp h
    simp at this
termination_by l.length

/-! ### the rows phase -/

/-- the last line of `group_notes`: `for _, row in groupby(stream, beat): yield from add_row(row)` -/
def rows (mode : SameBeat) (items : List GNote) : List (List GNote) :=
  (groupRuns GNote.beat items).flatMap fun (_, row) => addRow mode row

theorem rows_eq (mode : SameBeat) (items : List GNote) :
    rows mode items = (groupRuns GNote.beat items).flatMap fun r => addRow mode r.2 := rfl

/-- the stream handed to the rows phase -/
def joinedStream (o : GOpts) (ns : List Note) : Except GErr (List GNote) :=
  let F := ns.filter fun n => o.incl.contains n.ntype
  if o.join then joinHeadsToTails o F else .ok (F.map GNote.plain)

theorem groupNotes_rows (o : GOpts) (ns : List Note) :
    groupNotes o ns = (joinedStream o ns).map (rows o.sameBeat) := by
  unfold groupNotes joinedStream
  cases o.join
  · rfl
  · simp only [if_true]
    cases joinHeadsToTails o (ns.filter fun n => o.incl.contains n.ntype) <;> rfl

/-! ### general facts about `groupRuns` -/

/-- a relation between neighbours of a list -/
def Adj {α} (R : α → α → Prop) : List α → Prop
  | [] => True
  | [_] => True
  | a :: b :: l => R a b ∧ Adj R (b :: l)

theorem Adj.getElem {α} {R : α → α → Prop} : ∀ {l : List α}, Adj R l →
    ∀ (i : Nat) (h : i + 1 < l.length), R (l[i]'(Nat.lt_of_succ_lt h)) (l[i + 1]'h)
  | [], _, i, h => by simp at h
  | [_], _, i, h => by simp at h
  | a :: b :: l, hadj, 0, _ => hadj.1
  | a :: b :: l, hadj, i + 1, h => by
    have := Adj.getElem hadj.2 i (by simpa using h)
    simpa using this

theorem Adj.of_getElem {α} {R : α → α → Prop} : ∀ {l : List α},
    (∀ (i : Nat) (h : i + 1 < l.length), R (l[i]'(Nat.lt_of_succ_lt h)) (l[i + 1]'h)) → Adj R l
  | [], _ => trivial
  | [_], _ => trivial
  | a :: b :: l, h => by
    refine ⟨h 0 (by simp), Adj.of_getElem (l := b :: l) ?_⟩
    intro i hi
    have := h (i + 1) (by simpa using hi)
    simpa using this

theorem groupRuns_ne_nil {α κ} [DecidableEq κ] (key : α → κ) (l : List α) :
    ∀ r ∈ groupRuns key l, r.2 ≠ [] := by
  induction l with
  | nil => intro r hr; simp [groupRuns] at hr
  | cons a l ih =>
    rw [Runs.groupRuns_cons]
    cases h : groupRuns key l with
    | nil => intro r hr; simp at hr; subst hr; simp
    | cons r0 rest =>
      rcases r0 with ⟨k, run⟩
      rw [h] at ih
      by_cases hk : key a = k
      · simp only [hk, if_true]
        intro r hr
        rcases List.mem_cons.mp hr with rfl | hr
        · simp
        · exact ih r (by simp [hr])
      · simp only [hk, if_false]
        intro r hr
        rcases List.mem_cons.mp hr with rfl | hr
        · simp
        · exact ih r hr

/-- the first run carries the key of the first element -/
theorem groupRuns_head_key {α κ} [DecidableEq κ] (key : α → κ) (a : α) (l : List α) :
    ∃ run rest, groupRuns key (a :: l) = (key a, run) :: rest := by
  rw [Runs.groupRuns_cons]
  cases h : groupRuns key l with
  | nil => exact ⟨_, _, rfl⟩
  | cons r0 rest =>
    rcases r0 with ⟨k, run⟩
    by_cases hk : key a = k
    · simp only [hk, if_true]; exact ⟨_, _, rfl⟩
    · simp only [hk, if_false]; exact ⟨_, _, rfl⟩

/-- neighbouring runs have different keys (the runs are maximal) -/
theorem groupRuns_adj {α κ} [DecidableEq κ] (key : α → κ) (l : List α) :
    Adj (fun r r' : κ × List α => r.1 ≠ r'.1) (groupRuns key l) := by
  induction l with
  | nil => trivial
  | cons a l ih =>
    rw [Runs.groupRuns_cons]
    cases h : groupRuns key l with
    | nil => trivial
    | cons r0 rest =>
      rcases r0 with ⟨k, run⟩
      rw [h] at ih
      by_cases hk : key a = k
      · simp only [hk, if_true]
        cases rest with
        | nil => trivial
        | cons r1 rest => exact ⟨ih.1, ih.2⟩
      · simp only [hk, if_false]
        exact ⟨hk, ih⟩

/-- a non-empty block of constant key, followed by a list that starts with another key, is the first run -/
theorem groupRuns_block {α κ} [DecidableEq κ] (key : α → κ) (k : κ) (rest : List α)
    (hrest : ∀ y ∈ rest.head?, key y ≠ k) :
    ∀ (g : List α), g ≠ [] → (∀ x ∈ g, key x = k) →
      groupRuns key (g ++ rest) = (k, g) :: groupRuns key rest := by
  intro g
  induction g with
  | nil => intro h; exact absurd rfl h
  | cons x g ih =>
    intro _ hk
    have hx : key x = k := hk x (by simp)
    cases g with
    | nil =>
      simp only [List.cons_append, List.nil_append]
      rw [Runs.groupRuns_cons]
      cases rest with
      | nil => simp [groupRuns, hx]
      | cons y ys =>
        obtain ⟨run, rs, hr⟩ := groupRuns_head_key key y ys
        rw [hr]
        have : key y ≠ k := hrest y (by simp)
        have hne : ¬ k = key y := fun e => this e.symm
        simp only [hx, if_neg hne]
    | cons x' g' =>
      have ih' := ih (by simp) (fun z hz => hk z (by simp [hz]))
      rw [List.cons_append, Runs.groupRuns_cons, ih']
      simp only [hx, if_true]

/-! ### JOIN_ALL -/

theorem rows_joinAll_eq (items : List GNote) :
    rows .joinAll items = (groupRuns GNote.beat items).map (·.2) := by
  rw [rows_eq]
  generalize groupRuns GNote.beat items = rs
  induction rs with
  | nil => rfl
  | cons r rs ih =>
    simp only [List.flatMap_cons, List.map_cons, addRow] at ih ⊢
    rw [ih]; rfl

theorem rows_joinAll_flatten (items : List GNote) : (rows .joinAll items).flatten = items := by
  rw [rows_joinAll_eq, ← List.flatMap_def]
  exact Runs.groupRuns_flatten _ _

theorem rows_joinAll_ne_nil (items : List GNote) : ∀ g ∈ rows .joinAll items, g ≠ [] := by
  rw [rows_joinAll_eq]
  intro g hg
  obtain ⟨r, hr, rfl⟩ := List.mem_map.mp hg
  exact groupRuns_ne_nil _ _ r hr

theorem rows_joinAll_beat (items : List GNote) :
    ∀ g ∈ rows .joinAll items, ∀ x ∈ g, ∀ y ∈ g, x.beat = y.beat := by
  rw [rows_joinAll_eq]
  intro g hg x hx y hy
  obtain ⟨r, hr, rfl⟩ := List.mem_map.mp hg
  rw [Ungroup.groupRuns_key _ _ r hr x hx, Ungroup.groupRuns_key _ _ r hr y hy]

theorem adj_map_runs {rs : List (Rat × List GNote)}
    (hkey : ∀ r ∈ rs, ∀ x ∈ r.2, x.beat = r.1)
    (h : Adj (fun r r' : Rat × List GNote => r.1 ≠ r'.1) rs) :
    Adj (fun g g' : List GNote => ∀ x ∈ g, ∀ y ∈ g', x.beat ≠ y.beat) (rs.map (·.2)) := by
  induction rs with
  | nil => trivial
  | cons r rs ih =>
    cases rs with
    | nil => trivial
    | cons r' rs =>
      refine ⟨?_, ih (fun r hr => hkey r (by simp [hr])) h.2⟩
      intro x hx y hy
      rw [hkey r (by simp) x hx, hkey r' (by simp) y hy]
      exact h.1

theorem rows_joinAll_adj (items : List GNote) :
    Adj (fun g g' : List GNote => ∀ x ∈ g, ∀ y ∈ g', x.beat ≠ y.beat) (rows .joinAll items) := by
  rw [rows_joinAll_eq]
  exact adj_map_runs (Ungroup.groupRuns_key _ _) (groupRuns_adj _ _)

/-- the four conditions determine the grouping -/
theorem rows_joinAll_unique : ∀ (G : List (List GNote)), (∀ g ∈ G, g ≠ []) →
    (∀ g ∈ G, ∀ x ∈ g, ∀ y ∈ g, x.beat = y.beat) →
    Adj (fun g g' : List GNote => ∀ x ∈ g, ∀ y ∈ g', x.beat ≠ y.beat) G →
    rows .joinAll G.flatten = G := by
  intro G
  induction G with
  | nil => intro _ _ _; rfl
  | cons g G ih =>
    intro hne hb hadj
    have hG : Adj (fun g g' : List GNote => ∀ x ∈ g, ∀ y ∈ g', x.beat ≠ y.beat) G := by
      cases G with
      | nil => trivial
      | cons g' G => exact hadj.2
    have ih' := ih (fun g hg => hne g (by simp [hg])) (fun g hg => hb g (by simp [hg])) hG
    have hgne : g ≠ [] := hne g (by simp)
    obtain ⟨x0, g0, rfl⟩ := List.exists_cons_of_ne_nil hgne
    rw [rows_joinAll_eq] at ih' ⊢
    rw [List.flatten_cons, groupRuns_block GNote.beat x0.beat G.flatten ?_ (x0 :: g0) (by simp)
      (fun x hx => hb _ (by simp) x hx x0 (by simp))]
    · simp only [List.map_cons, ih']
    · intro y hy
      cases G with
      | nil => simp at hy
      | cons g' G =>
        have hg'ne : g' ≠ [] := hne g' (by simp)
        obtain ⟨y0, g0', rfl⟩ := List.exists_cons_of_ne_nil hg'ne
        simp only [List.flatten_cons, List.cons_append, List.head?_cons, Option.mem_def,
          Option.some.injEq] at hy
        subst hy
        exact fun e => hadj.1 x0 (by simp) y0 (by simp) e.symm

end Simfile.GroupMore
