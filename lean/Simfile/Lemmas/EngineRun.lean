/-
C11 helper: every state of the machine satisfies the invariant (induction over the event list).
-/
import Simfile.Lemmas.EngineStep
namespace Simfile
open C11

variable {td : TimingData}

/-- one transition preserves the invariant -/
theorem advance_inv (hd : Dom td) (s : TState) (hs : StInv td s) (e : TEvent) (he : e ∈ events td)
    (hlt : skey s < ekey e) (hno : NoneBetween td (skey s) (ekey e)) : StInv td (advance s e) := by
  obtain ⟨s1, s2, s3⟩ := segs_facts hd
  have hle := le_of_lt hlt
  refine ⟨?_, ?_, ?_, (event_beat_ok hd he).1, (event_beat_ok hd he).2, ?_, ?_⟩
  · exact step_time hd s hs e.beat e.tag hle hno
  · show (if e.tag = .bpm then e.value else s.bpm) = bpmBefore td (key e.beat e.tag)
    by_cases ht : e.tag = .bpm
    · rw [if_pos ht, ht]
      symm
      unfold bpmBefore
      apply foldSel_mem e.beat e.value _ _ (tail_sorted hd) (events_bpm he ht)
      intro e' _
      rw [key_le]
      simp only [val_bpm, le_refl, and_true]
      exact le_iff_lt_or_eq.symm
    · rw [if_neg ht, hs.bpm]
      apply bpmBefore_congr td hle
      intro e' he' ht' hh
      rcases eq_or_lt_of_le hh.2 with heq | hl
      · exact ht ((key_eq.1 heq).2 ▸ ht')
      · exact hno e' he' ⟨hh.1, hl⟩
  · show (if e.tag = .warp then true else if e.tag = .warpEnd then false else s.warp) = true ↔
      warpBefore td (key e.beat e.tag)
    by_cases hw : e.tag = .warp
    · obtain ⟨sg, hsg, hb⟩ := events_warp he hw
      rw [if_pos hw, hw, ← hb]
      simp only [true_iff]
      exact ⟨sg, hsg, le_refl _, key_lt.2 (Or.inl (s2 sg hsg))⟩
    · by_cases hwe : e.tag = .warpEnd
      · obtain ⟨sg, hsg, hb⟩ := events_warpEnd he hwe
        rw [if_neg hw, if_pos hwe, hwe, ← hb]
        simp only [Bool.false_eq_true, false_iff]
        rintro ⟨sg', hsg', h1, h2⟩
        have b1 := beat_le_of_key_le h1
        have b2 : sg.2 < sg'.2 := by
          rcases key_lt.1 h2 with h3 | h3
          · exact h3
          · exact absurd h3.2 (lt_irrefl _)
        rcases pairwise_trichotomy s1 hsg hsg' with h3 | h3 | h3
        · rw [h3] at b2; exact lt_irrefl _ b2
        · linarith
        · have := s2 sg hsg; linarith
      · rw [if_neg hw, if_neg hwe, hs.warp]
        apply warpBefore_congr td hle
        intro e' he' ht' hh
        rcases eq_or_lt_of_le hh.2 with heq | hl
        · have := (key_eq.1 heq).2
          rcases ht' with ht' | ht'
          · exact hw (this ▸ ht')
          · exact hwe (this ▸ ht')
        · exact hno e' he' ⟨hh.1, hl⟩
  · intro ht; exact events_stop he ht
  · intro ht; exact events_delay he ht

/-! ### low keys: before the first BPM key -/

theorem pausedK_low (hd : Dom td) {κ : K} (hκ : κ < key 0 .delayEnd) : pausedK td κ = 0 := by
  unfold pausedK
  rw [foldSum_none, foldSum_none, add_zero]
  · intro d hd' hle
    have h1 := lt_of_le_of_lt hle hκ
    have := (hd.stops_grid d hd').1
    rcases key_lt.1 h1 with h2 | h2
    · linarith
    · have := h2.2; simp at this
  · intro d hd' hle
    have h1 := lt_of_le_of_lt hle hκ
    have := (hd.delays_grid d hd').1
    rcases key_lt.1 h1 with h2 | h2
    · linarith
    · have := h2.2; simp at this

theorem bpmBefore_low (hd : Dom td) {κ : K} (hκ : κ ≤ key 0 .stopEnd) :
    bpmBefore td κ = (td.bpms.headD (0, 0)).2 := by
  unfold bpmBefore
  apply foldSel_none
  intro e he hle
  have h1 := le_trans hle hκ
  have := tail_beats_pos hd e he
  have := beat_le_of_key_le h1
  linarith

theorem travel_zero (td : TimingData) : travel td 0 = 0 := by
  have := travel_grid td 0
  simpa [Spec.tickSum] using this

theorem init_inv (hd : Dom td) (hno : ∀ e ∈ events td, ¬ ekey e ≤ key 0 .bpm) : StInv td (initState td) := by
  obtain ⟨s1, s2, s3⟩ := segs_facts hd
  refine ⟨?_, ?_, ?_, le_refl _, onGrid_zero, ?_, ?_⟩
  · show -td.offset = Spec.timeSpec td 0 .bpm
    rw [timeSpec_eq, paused_eq_K, pausedK_low hd (key_lt.2 (Or.inr ⟨rfl, by simp⟩)), travel_zero]
    ring
  · show (td.bpms.headD (0, 0)).2 = bpmBefore td (key 0 .bpm)
    rw [bpmBefore_low hd (key_le.2 (Or.inr ⟨rfl, by simp⟩))]
  · show false = true ↔ warpBefore td (key 0 .bpm)
    simp only [Bool.false_eq_true, false_iff]
    rintro ⟨sg, hsg, h1, _⟩
    exact hno _ (ev_warp hsg) h1
  · intro h; cases h
  · intro h; cases h

/-- the state after a first event `(0, WARP)` -/
theorem first_warp_inv (hd : Dom td) (e : TEvent) (he : e ∈ events td) (ht : e.tag = .warp)
    (hb : e.beat = 0) : StInv td (advance (initState td) e) := by
  obtain ⟨s1, s2, s3⟩ := segs_facts hd
  obtain ⟨sg, hsg, hsb⟩ := events_warp he ht
  refine ⟨?_, ?_, ?_, ?_, ?_, ?_, ?_⟩
  · show -td.offset + (initState td).timeUntil e.beat e.tag = Spec.timeSpec td e.beat e.tag
    rw [hb, ht, timeSpec_eq, paused_eq_K, pausedK_low hd (key_lt.2 (Or.inr ⟨rfl, by simp⟩)), travel_zero]
    simp [TState.timeUntil, initState]
  · show (if e.tag = .bpm then e.value else (td.bpms.headD (0, 0)).2) = bpmBefore td (key e.beat e.tag)
    rw [hb, ht, bpmBefore_low hd (key_le.2 (Or.inr ⟨rfl, by simp⟩))]
    simp
  · show (if e.tag = .warp then true else if e.tag = .warpEnd then false else false) = true ↔
      warpBefore td (key e.beat e.tag)
    rw [if_pos ht, ht, ← hsb]
    simp only [true_iff]
    exact ⟨sg, hsg, le_refl _, key_lt.2 (Or.inl (s2 sg hsg))⟩
  · show 0 ≤ e.beat
    rw [hb]
  · show onGrid e.beat
    rw [hb]; exact onGrid_zero
  · intro h
    have : e.tag = .stop := h
    rw [ht] at this; cases this
  · intro h
    have : e.tag = .delay := h
    rw [ht] at this; cases this

/-- an event with key at most `(0, BPM)` is a warp start on beat 0 -/
theorem low_event (hd : Dom td) (e : TEvent) (he : e ∈ events td) (hle : ekey e ≤ key 0 .bpm) :
    e.tag = .warp ∧ e.beat = 0 := by
  obtain ⟨s1, s2, s3⟩ := segs_facts hd
  have hb0 := (event_beat_ok hd he).1
  have hb1 := beat_le_of_key_le hle
  have hb : e.beat = 0 := le_antisymm hb1 hb0
  refine ⟨?_, hb⟩
  have hv : e.tag.val ≤ 2 := by
    rcases key_le.1 hle with h | h
    · linarith
    · simpa using h.2
  cases ht : e.tag
  · rfl
  · obtain ⟨sg, hsg, h⟩ := events_warpEnd he ht
    have := s2 sg hsg
    have := (s3 sg hsg).1
    linarith
  · have := tail_beats_pos hd _ (events_bpm he ht)
    simp only at this
    linarith
  all_goals (rw [ht] at hv; simp at hv)

/-! ### the run of the machine -/

/-- the states appended after the initial one -/
def run (s : TState) : List TEvent → List TState
  | [] => []
  | e :: es => advance s e :: run (advance s e) es

theorem go_eq_run (s : TState) (es : List TEvent) : states.go s es = s :: run s es := by
  induction es generalizing s with
  | nil => rfl
  | cons e es ih => simp only [states.go, run, ih]

theorem states_eq_run (td : TimingData) : states td = initState td :: run (initState td) (events td) :=
  go_eq_run _ _

theorem run_length (s : TState) (es : List TEvent) : (run s es).length = es.length := by
  induction es generalizing s with
  | nil => rfl
  | cons e es ih => simp [run, ih]

theorem run_keys (s : TState) (es : List TEvent) : (run s es).map skey = es.map ekey := by
  induction es generalizing s with
  | nil => rfl
  | cons e es ih =>
    simp only [run, List.map_cons, ih]
    rfl

theorem run_inv (hd : Dom td) : ∀ (es : List TEvent) (s : TState), StInv td s → SSorted es →
    (∀ e ∈ es, skey s < ekey e) → (∀ e ∈ es, e ∈ events td) →
    (∀ e ∈ events td, ekey e ≤ skey s ∨ e ∈ es) → ∀ s' ∈ run s es, StInv td s' := by
  intro es
  induction es with
  | nil => intro s _ _ _ _ _ s' hs'; exact absurd hs' List.not_mem_nil
  | cons e es ih =>
    intro s hs hsort hlt hmem hall s' hs'
    have hsort' := List.pairwise_cons.1 hsort
    have hinv : StInv td (advance s e) := by
      apply advance_inv hd s hs e (hmem e List.mem_cons_self) (hlt e List.mem_cons_self)
      intro x hx hh
      rcases hall x hx with h1 | h1
      · exact absurd (lt_of_lt_of_le hh.1 h1) (lt_irrefl _)
      · rcases List.mem_cons.1 h1 with rfl | h2
        · exact lt_irrefl _ hh.2
        · exact absurd (lt_trans hh.2 (hsort'.1 x h2)) (lt_irrefl _)
    rcases List.mem_cons.1 hs' with rfl | hs''
    · exact hinv
    · apply ih (advance s e) hinv hsort'.2 (fun x hx => hsort'.1 x hx)
        (fun x hx => hmem x (List.mem_cons_of_mem _ hx)) _ s' hs''
      intro x hx
      rcases hall x hx with h1 | h1
      · exact Or.inl (le_trans h1 (le_of_lt (hlt e List.mem_cons_self)))
      · rcases List.mem_cons.1 h1 with rfl | h2
        · exact Or.inl (le_refl _)
        · exact Or.inr h2

/-- every state after the initial one satisfies the invariant -/
theorem states_inv (hd : Dom td) : ∀ s' ∈ run (initState td) (events td), StInv td s' := by
  have hsorted := ssorted_events td hd
  cases hE : events td with
  | nil => intro s' hs'; exact absurd hs' List.not_mem_nil
  | cons e es =>
    rw [hE] at hsorted
    have hsort' := List.pairwise_cons.1 hsorted
    have he : e ∈ events td := by rw [hE]; exact List.mem_cons_self
    by_cases h0 : ekey e ≤ key 0 .bpm
    · obtain ⟨ht, hb⟩ := low_event hd e he h0
      have hinv := first_warp_inv hd e he ht hb
      intro s' hs'
      rcases List.mem_cons.1 hs' with rfl | hs''
      · exact hinv
      · apply run_inv hd es (advance (initState td) e) hinv hsort'.2 (fun x hx => hsort'.1 x hx)
          (fun x hx => by rw [hE]; exact List.mem_cons_of_mem _ hx) _ s' hs''
        intro x hx
        rw [hE] at hx
        rcases List.mem_cons.1 hx with rfl | h2
        · exact Or.inl (le_refl _)
        · exact Or.inr h2
    · have h0' := not_le.1 h0
      have hall : ∀ x ∈ events td, key 0 .bpm < ekey x := by
        intro x hx
        rw [hE] at hx
        rcases List.mem_cons.1 hx with rfl | h2
        · exact h0'
        · exact lt_trans h0' (hsort'.1 x h2)
      have hinit := init_inv hd (fun x hx => not_le.2 (hall x hx))
      have := run_inv hd (e :: es) (initState td) hinit hsorted
        (fun x hx => hall x (by rw [hE]; exact hx)) (fun x hx => by rw [hE]; exact hx)
        (fun x hx => Or.inr (by rw [hE] at hx; exact hx))
      exact this

end Simfile
