/-
The simulation: strict lexing + parsing of the cleaned text against lenient parsing of the original text, token by
token of the original, under the side conditions `removable`.
-/
import Simfile.Lemmas.MsdTextSim
namespace Simfile.MsdP

theorem strayOk_colon : strayOk [':'] = false := by decide
theorem strayOk_semi : strayOk [';'] = false := by decide
theorem strayOk_slash : strayOk ['/'] = false := by decide
theorem strayOk_bs (d : Char) : strayOk ['\\', d] = false := by
  simp [strayOk, show pyIsSpace '\\' = false from by decide]

/-- the cleaned text does not start with a lone byte order mark run, provided one is not exposed by a dropped
token: used to consume a kept blank run in front of it -/
theorem clean_not_bom : ∀ (n : Nat) (r : Str), r.length ≤ n → ∀ (b : Bool) (ts : List Tok) (p : Prev) (x y : Bool),
    lexF r false b = .ok ts → removable ts false p x y = true →
    (p = .stray ∨ ∀ c ∈ r.head?, isPlain c = false) →
    (render (cleanToks ts false)).takeWhile isPlain ≠ [bomC] := by
  intro n
  induction n with
  | zero =>
    intro r hr b ts p x y h _ _
    have : r = [] := by simpa using hr
    subst this
    rw [lexF_nil] at h
    cases h
    simp [cleanToks, render]
  | succ n ih =>
    intro r hr b ts p x y h hrm hp
    cases r with
    | nil => rw [lexF_nil] at h; cases h; simp [cleanToks, render]
    | cons c cs =>
      have hd := length_dropWhile_le isPlain cs
      have hlen : cs.length ≤ n := by simpa using hr
      rw [lexF_cons] at h
      split at h
      · -- a plain run
        rename_i hc
        obtain ⟨rest, hrest, rfl⟩ := map_ok_inv h
        have hps : p = .stray := by
          rcases hp with hp | hp
          · exact hp
          · have := hp c (by simp); rw [hc] at this; cases this
        subst hps
        by_cases hso : strayOk (c :: cs.takeWhile isPlain) = true
        · have hk : (!false && isStray (Tok.text (c :: cs.takeWhile isPlain))) = false := by simp [isStray, hso]
          rw [cleanToks_keep _ _ hk, render_cons]
          rcases strayOk_cases hso (by simp) with hsp | hb
          · have hcs : pyIsSpace c = true := hsp c (by simp)
            simp only [Tok.src, List.cons_append, List.takeWhile_cons, hc, if_true]
            intro e
            simp only [List.cons.injEq] at e
            exact space_ne_bom hcs e.1
          · exfalso
            rw [hb, removable_text_bom] at hrm
            simp at hrm
        · have hst : isStray (Tok.text (c :: cs.takeWhile isPlain)) = true := by simp [isStray, hso]
          rw [cleanToks_drop _ hst]
          rw [removable_drop _ _ _ _ hst] at hrm
          simp only [Bool.and_eq_true] at hrm
          exact ih _ (by omega) _ rest .stray _ _ hrest hrm.2 (Or.inl rfl)
      split at h
      · -- '#': START
        subst c
        simp only [Bool.not_false, Bool.true_or, if_true] at h
        obtain ⟨rest, hrest, rfl⟩ := map_ok_inv h
        rw [cleanToks_keep _ _ (by simp [isStray]), render_cons]
        simp [Tok.src, show isPlain '#' = false from by decide]
      split at h
      · subst c
        simp only [Bool.false_eq_true, if_false] at h
        obtain ⟨rest, hrest, rfl⟩ := map_ok_inv h
        have hst : isStray (Tok.text [':']) = true := by simp [isStray, strayOk_colon]
        rw [cleanToks_drop _ hst]
        rw [removable_drop _ _ _ _ hst] at hrm
        simp only [Bool.and_eq_true] at hrm
        exact ih _ hlen _ rest .stray _ _ hrest hrm.2 (Or.inl rfl)
      split at h
      · subst c
        simp only [Bool.false_eq_true, if_false] at h
        obtain ⟨rest, hrest, rfl⟩ := map_ok_inv h
        have hst : isStray (Tok.text [';']) = true := by simp [isStray, strayOk_semi]
        rw [cleanToks_drop _ hst]
        rw [removable_drop _ _ _ _ hst] at hrm
        simp only [Bool.and_eq_true] at hrm
        exact ih _ hlen _ rest .stray _ _ hrest hrm.2 (Or.inl rfl)
      split at h
      · subst c
        split at h
        · simp at h
        · rename_i d' cs'
          simp only [Bool.false_eq_true, if_false] at h
          obtain ⟨rest, hrest, rfl⟩ := map_ok_inv h
          have hst : isStray (Tok.text ['\\', d']) = true := by simp [isStray, strayOk_bs]
          rw [cleanToks_drop _ hst]
          rw [removable_drop _ _ _ _ hst] at hrm
          simp only [Bool.and_eq_true] at hrm
          exact ih _ (by simp only [List.length_cons] at hlen; omega) _ rest .stray _ _ hrest hrm.2 (Or.inl rfl)
      · have hc : c = '/' := not_plain_cases (by assumption) (by assumption) (by assumption) (by assumption) (by assumption)
        subst hc
        split at h
        · obtain ⟨rest, hrest, rfl⟩ := map_ok_inv h
          rw [cleanToks_keep _ _ (by simp [isStray]), render_cons]
          simp [Tok.src, show isPlain '/' = false from by decide]
        · obtain ⟨rest, hrest, rfl⟩ := map_ok_inv h
          have hst : isStray (Tok.text ['/']) = true := by simp [isStray, strayOk_slash]
          rw [cleanToks_drop _ hst]
          rw [removable_drop _ _ _ _ hst] at hrm
          simp only [Bool.and_eq_true] at hrm
          exact ih _ hlen _ rest .stray _ _ hrest hrm.2 (Or.inl rfl)


theorem parseToks_nil_strict (st : PState) : parseToks true [] st = parseToks false [] st := rfl

/-- the simulation -/
theorem sim : ∀ (n : Nat) (s : Str), s.length ≤ n → ∀ (i b b' : Bool) (ts : List Tok) (p : Prev)
    (comps : List Str) (cur : Option Str) (out : List Param),
    lexF s i b = .ok ts → removable ts i p b b' = true → cur.isSome = i →
    go true (render (cleanToks ts i)) i b' ⟨comps, cur, out⟩ = some (parseToks false ts ⟨comps, cur, out⟩) := by
  intro n
  induction n with
  | zero =>
    intro s hs i b b' ts p comps cur out h _ _
    have : s = [] := by simpa using hs
    subst this
    rw [lexF_nil] at h
    cases h
    rfl
  | succ n ih =>
    intro s hs i b b' ts p comps cur out h hrm hcur
    cases s with
    | nil => rw [lexF_nil] at h; cases h; rfl
    | cons c cs =>
      have hd := length_dropWhile_le isPlain cs
      have hd2 := length_dropWhile_le (fun x => !isNl x) cs
      have hlen : cs.length ≤ n := by simpa using hs
      rw [lexF_cons] at h
      split at h
      · -- a plain run
        rename_i hc
        obtain ⟨rest, hrest, rfl⟩ := map_ok_inv h
        have hrun : ∀ y ∈ c :: cs.takeWhile isPlain, isPlain y = true := by
          intro y hy
          rcases List.mem_cons.mp hy with rfl | hy
          · exact hc
          · exact takeWhile_all _ y hy
        have hhead : ∀ y ∈ (cs.dropWhile isPlain).head?, isPlain y = false := by
          intro y hy
          exact head?_dropWhile_not cs y hy
        cases i with
        | true =>
          obtain ⟨x, rfl⟩ := Option.isSome_iff_exists.mp hcur
          rw [cleanToks_keep_in, render_cons]
          simp only [Tok.src, insideStep]
          rw [go_plainrun_in true _ hrun (by simp)]
          rw [removable_text_in] at hrm
          simp only [Bool.and_eq_true] at hrm
          rw [ih _ (by omega) true _ _ rest .other comps (some (x ++ (c :: cs.takeWhile isPlain))) out hrest
            hrm.2 rfl]
          simp [parseToks]
        | false =>
          have hcn : cur = none := by cases cur <;> simp_all
          subst hcn
          by_cases hso : strayOk (c :: cs.takeWhile isPlain) = true
          · have hk : (!false && isStray (Tok.text (c :: cs.takeWhile isPlain))) = false := by simp [isStray, hso]
            rw [cleanToks_keep _ _ hk, render_cons]
            simp only [Tok.src, insideStep]
            have hpt : parseToks false (Tok.text (c :: cs.takeWhile isPlain) :: rest) ⟨comps, none, out⟩ =
                parseToks false rest ⟨comps, none, out⟩ := by simp [parseToks]
            rw [hpt]
            rcases strayOk_cases hso (by simp) with hsp | hbm
            · -- blank run
              have hne : c :: cs.takeWhile isPlain ≠ [bomC] := by
                intro e
                simp only [List.cons.injEq] at e
                exact space_ne_bom (hsp c (by simp)) e.1
              rw [removable_text_blank _ _ _ _ _ hso hne] at hrm
              rw [go_blank_out _ hsp (by simp) _
                (clean_not_bom _ _ (Nat.le_refl _) _ rest .other _ _ hrest hrm (Or.inr hhead))]
              exact ih _ (by omega) false _ _ rest .other comps none out hrest hrm rfl
            · -- lone byte order mark
              rw [hbm] at hrest hrm ⊢
              rw [removable_text_bom] at hrm
              simp only [show endsNl [bomC] = false from by decide] at hrest
              simp only [Bool.and_eq_true] at hrm
              have hk' := removable_first_kept rest false .bom _ _ hrm.2 (Or.inr (Or.inr rfl))
              have hh := head_clean _ _ _ rest hrest hk'
              have htw : (render (cleanToks rest false)).takeWhile isPlain = [] ∧
                  (render (cleanToks rest false)).dropWhile isPlain = render (cleanToks rest false) := by
                have := takeWhile_append_stop (p := isPlain) [] (render (cleanToks rest false)) (by simp)
                  (by rw [hh]; exact hhead)
                simpa using this
              unfold go
              rw [List.cons_append, List.nil_append, lexF_plain (by decide), htw.1, htw.2,
                run_text_out _ _ _ strayOk_bom, show endsNl [bomC] = false from by decide]
              exact ih _ (by omega) false _ _ rest .bom comps none out hrest hrm.2 rfl
          · have hst : isStray (Tok.text (c :: cs.takeWhile isPlain)) = true := by simp [isStray, hso]
            rw [cleanToks_drop _ hst]
            rw [removable_drop _ _ _ _ hst] at hrm
            simp only [Bool.and_eq_true, flagStep] at hrm
            rw [ih _ (by omega) false _ b' rest .stray comps none out hrest hrm.2 rfl]
            simp [parseToks]
      split at h
      · -- '#'
        subst c
        split at h
        · -- START
          rename_i hib
          obtain ⟨rest, hrest, rfl⟩ := map_ok_inv h
          rw [cleanToks_keep _ _ (by simp [isStray]), render_cons]
          simp only [Tok.src, insideStep, List.cons_append, List.nil_append]
          rw [removable_start] at hrm
          simp only [Bool.and_eq_true, Bool.not_eq_true'] at hrm
          cases i with
          | false =>
            have hcn : cur = none := by cases cur <;> simp_all
            subst hcn
            unfold go
            rw [lexF_hash_start _ _ _ (by simp), run_start_out]
            have := ih _ hlen true b b' rest .other comps (some []) out hrest hrm.2 rfl
            unfold go at this
            rw [this]
            simp [parseToks, PState.complete]
          | true =>
            obtain ⟨x, rfl⟩ := Option.isSome_iff_exists.mp hcur
            have hbt : b = true := by simpa using hib
            have hb' : b' = b := by have := hrm.1; cases b <;> cases b' <;> simp_all
            subst hbt; subst hb'
            unfold go
            rw [lexF_hash_start _ _ _ (by simp), run_start_in]
            have := ih _ hlen true true true rest .other [] (some []) (out ++ [⟨comps ++ [x]⟩]) hrest hrm.2
              rfl
            unfold go at this
            rw [this]
            simp [parseToks, PState.complete]
        · -- '#' as TEXT inside a parameter
          rename_i hib
          obtain ⟨rest, hrest, rfl⟩ := map_ok_inv h
          have hi : i = true := by cases i <;> simp_all
          have hbf : b = false := by cases b <;> simp_all
          subst hi hbf
          obtain ⟨x, rfl⟩ := Option.isSome_iff_exists.mp hcur
          rw [cleanToks_keep_in, render_cons]
          simp only [Tok.src, insideStep, List.cons_append, List.nil_append]
          rw [removable_text_in] at hrm
          simp only [Bool.and_eq_true, Bool.not_eq_true', decide_true, Bool.true_and,
            show endsNl ['#'] = false from by decide] at hrm
          have hb' : b' = false := by have := hrm.1; cases b' <;> simp_all
          subst hb'
          unfold go
          rw [lexF_hash_text, run_text_in]
          have := ih _ hlen true false false rest .other comps (some (x ++ ['#'])) out hrest hrm.2
            rfl
          unfold go at this
          rw [this]
          simp [parseToks]
      split at h
      · -- ':'
        subst c
        split at h
        · rename_i hi
          subst hi
          obtain ⟨rest, hrest, rfl⟩ := map_ok_inv h
          obtain ⟨x, rfl⟩ := Option.isSome_iff_exists.mp hcur
          rw [cleanToks_keep_in, render_cons]
          simp only [Tok.src, insideStep, List.cons_append, List.nil_append]
          rw [removable_next] at hrm
          unfold go
          rw [lexF_colon_in, run_next_in]
          have := ih _ hlen true b b' rest .other (comps ++ [x]) (some []) out hrest hrm rfl
          unfold go at this
          rw [this]
          simp [parseToks]
        · rename_i hi
          have hi' : i = false := by simpa using hi
          subst hi'
          have hcn : cur = none := by cases cur <;> simp_all
          subst hcn
          obtain ⟨rest, hrest, rfl⟩ := map_ok_inv h
          have hst : isStray (Tok.text [':']) = true := by simp [isStray, strayOk_colon]
          rw [cleanToks_drop _ hst]
          rw [removable_drop _ _ _ _ hst] at hrm
          simp only [Bool.and_eq_true, flagStep, show endsNl [':'] = false from by decide] at hrm
          rw [ih _ hlen false _ b' rest .stray comps none out hrest hrm.2 rfl]
          simp [parseToks]
      split at h
      · -- ';'
        subst c
        split at h
        · rename_i hi
          subst hi
          obtain ⟨rest, hrest, rfl⟩ := map_ok_inv h
          obtain ⟨x, rfl⟩ := Option.isSome_iff_exists.mp hcur
          rw [cleanToks_keep_in, render_cons]
          simp only [Tok.src, insideStep, List.cons_append, List.nil_append]
          rw [removable_endp] at hrm
          unfold go
          rw [lexF_semi_in, run_endp_in]
          have := ih _ hlen false b b' rest .other [] none (out ++ [⟨comps ++ [x]⟩]) hrest hrm rfl
          unfold go at this
          rw [this]
          simp [parseToks, PState.complete]
        · rename_i hi
          have hi' : i = false := by simpa using hi
          subst hi'
          have hcn : cur = none := by cases cur <;> simp_all
          subst hcn
          obtain ⟨rest, hrest, rfl⟩ := map_ok_inv h
          have hst : isStray (Tok.text [';']) = true := by simp [isStray, strayOk_semi]
          rw [cleanToks_drop _ hst]
          rw [removable_drop _ _ _ _ hst] at hrm
          simp only [Bool.and_eq_true, flagStep, show endsNl [';'] = false from by decide] at hrm
          rw [ih _ hlen false _ b' rest .stray comps none out hrest hrm.2 rfl]
          simp [parseToks]
      split at h
      · -- backslash
        subst c
        split at h
        · simp at h
        · rename_i d' cs'
          have hlen' : cs'.length ≤ n := by simp only [List.length_cons] at hlen; omega
          split at h
          · rename_i hi
            subst hi
            obtain ⟨rest, hrest, rfl⟩ := map_ok_inv h
            obtain ⟨x, rfl⟩ := Option.isSome_iff_exists.mp hcur
            rw [cleanToks_keep_in, render_cons]
            simp only [Tok.src, insideStep, List.cons_append, List.nil_append]
            rw [removable_escape_in] at hrm
            unfold go
            rw [lexF_bs_in, run_escape_in]
            have := ih _ hlen' true b b' rest .other comps (some (x ++ [d'])) out hrest hrm rfl
            unfold go at this
            rw [this]
            simp [parseToks]
          · rename_i hi
            have hi' : i = false := by simpa using hi
            subst hi'
            have hcn : cur = none := by cases cur <;> simp_all
            subst hcn
            obtain ⟨rest, hrest, rfl⟩ := map_ok_inv h
            have hst : isStray (Tok.text ['\\', d']) = true := by simp [isStray, strayOk_bs]
            rw [cleanToks_drop _ hst]
            rw [removable_drop _ _ _ _ hst] at hrm
            simp only [Bool.and_eq_true, flagStep, show endsNl ['\\', d'] = isNl d' from rfl] at hrm
            rw [ih _ hlen' false _ b' rest .stray comps none out hrest hrm.2 rfl]
            simp [parseToks]
      · -- '/'
        have hc : c = '/' := not_plain_cases (by assumption) (by assumption) (by assumption) (by assumption) (by assumption)
        subst hc
        split at h
        · -- comment
          rename_i cs0
          obtain ⟨rest, hrest, rfl⟩ := map_ok_inv h
          have hk : (!i && isStray (Tok.comment ('/' :: List.takeWhile (fun x => !isNl x) ('/' :: cs0)))) = false := by
            simp [isStray]
          rw [cleanToks_keep _ _ hk, render_cons]
          simp only [insideStep] at hrest ⊢
          rw [removable_comment] at hrm
          have hk' := removable_first_kept rest i _ _ _ hrm (by cases i <;> simp)
          have hh := head_clean _ _ _ rest hrest hk'
          have hnl : ∀ y ∈ (render (cleanToks rest i)).head?, isNl y = true := by
            rw [hh]
            intro y hy
            have := head?_dropWhile_not (p := fun x => !isNl x) ('/' :: cs0) y hy
            simpa using this
          simp only [List.takeWhile_cons, show (!isNl '/') = true from by decide, if_true, Tok.src, List.cons_append]
          unfold go
          rw [lexF_comment _ _ (by intro y hy; simpa using takeWhile_all (p := fun x => !isNl x) cs0 y hy) hnl,
            run_comment]
          have := ih _ (by simp only [List.length_cons] at hd2 hlen ⊢; omega) i b b' rest _ comps cur out hrest hrm
            hcur
          unfold go at this
          rw [this]
          simp [parseToks]
        · -- a lone '/'
          rename_i hns
          obtain ⟨rest, hrest, rfl⟩ := map_ok_inv h
          cases i with
          | true =>
            obtain ⟨x, rfl⟩ := Option.isSome_iff_exists.mp hcur
            rw [cleanToks_keep_in, render_cons]
            simp only [Tok.src, insideStep, List.cons_append, List.nil_append]
            rw [removable_text_in] at hrm
            simp only [Bool.and_eq_true, show endsNl ['/'] = false from by decide] at hrm
            have hk' := removable_first_kept rest true .other _ _ hrm.2 (Or.inl rfl)
            have hh := head_clean _ _ _ rest hrest hk'
            unfold go
            rw [lexF_slash_text _ _ _ (by
              rw [hh]
              intro e
              cases cs with
              | nil => simp at e
              | cons a l =>
                simp only [List.head?_cons, Option.some.injEq] at e
                subst e
                exact hns l rfl), run_text_in]
            have := ih _ hlen true false false rest .other comps (some (x ++ ['/'])) out hrest hrm.2
              rfl
            unfold go at this
            rw [this]
            simp [parseToks]
          | false =>
            have hcn : cur = none := by cases cur <;> simp_all
            subst hcn
            have hst : isStray (Tok.text ['/']) = true := by simp [isStray, strayOk_slash]
            rw [cleanToks_drop _ hst]
            rw [removable_drop _ _ _ _ hst] at hrm
            simp only [Bool.and_eq_true, flagStep, show endsNl ['/'] = false from by decide] at hrm
            rw [ih _ hlen false _ b' rest .stray comps none out hrest hrm.2 rfl]
            simp [parseToks]

end Simfile.MsdP
