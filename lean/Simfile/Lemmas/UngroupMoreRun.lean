/-
More lemmas for C10 (round 2): `ungroup_notes` on an ARBITRARY grouped sequence, as a closed form.
The heap of pending tails evolves independently of the orphan policy (`nextPend`), so a run is
described by what each step yields (`emit`) and by whether some step meets a pending tail on the
item's column (`anyInside`).
-/
import Simfile.Lemmas.UngroupWeak
namespace Simfile.UngroupPos
open Simfile Simfile.Spec Simfile.Ungroup

/-- position of the tail that `ungroup_notes` rebuilds for a joined item -/
def tailKey (h : Note) (tb : Rat) : Nat × Rat × Nat := (h.player, tb, h.column)

theorem recon_tailKey (h : Note) (tb : Rat) : (recon h tb).key = tailKey h tb := rfl
theorem recon_column (h : Note) (tb : Rat) : (recon h tb).column = h.column := rfl

/-- the rebuilt tail of an item, if it has one -/
def tailOf : GNote → List Note
  | .plain _ => []
  | .withTail h tb => [recon h tb]

theorem notesOf_eq (g : GNote) : notesOf g = headOf g :: tailOf g := by cases g <;> rfl

/-- the heap after an item has been processed (the same for every policy) -/
def nextPend (pd : List Note) (g : GNote) : List Note :=
  match g with
  | .plain n => (popReached n.key pd).2
  | .withTail h tb => heapInsert (recon h tb) (popReached h.key pd).2

/-- the head of the item, unless the policy is DROP and the item lies inside a pending hold -/
def kept (drop : Bool) (pd : List Note) (g : GNote) : List Note :=
  if drop && inside pd (headOf g) then [] else [headOf g]

/-- what the run yields before the final drain of the heap -/
def emit (drop : Bool) : List Note → List GNote → List Note
  | _, [] => []
  | pd, g :: L => (popReached g.key pd).1 ++ kept drop pd g ++ emit drop (nextPend pd g) L

/-- some item is met while a tail is pending on its column -/
def anyInside : List Note → List GNote → Bool
  | _, [] => false
  | pd, g :: L => inside pd (headOf g) || anyInside (nextPend pd g) L

theorem step_keep (pd out : List Note) (g : GNote) :
    ungroupStep .keep { pending := pd, out := out } g =
      .ok { pending := nextPend pd g, out := out ++ ((popReached g.key pd).1 ++ kept false pd g) } := by
  cases g with
  | plain n =>
    cases h : inside pd n with
    | true => rw [(step_plain_inside { pending := pd, out := out } n h).2.1]; simp [nextPend, kept, headOf, GNote.key]
    | false => rw [step_plain_outside _ { pending := pd, out := out } n h]; simp [nextPend, kept, headOf, GNote.key]
  | withTail hd tb =>
    cases h : inside pd hd with
    | true =>
      rw [(step_withTail_inside { pending := pd, out := out } hd tb h).2.1]; simp [nextPend, kept, headOf, GNote.key]
    | false =>
      rw [step_withTail_outside _ { pending := pd, out := out } hd tb h]; simp [nextPend, kept, headOf, GNote.key]

theorem step_drop (pd out : List Note) (g : GNote) :
    ungroupStep .drop { pending := pd, out := out } g =
      .ok { pending := nextPend pd g, out := out ++ ((popReached g.key pd).1 ++ kept true pd g) } := by
  cases g with
  | plain n =>
    cases h : inside pd n with
    | true =>
      rw [(step_plain_inside { pending := pd, out := out } n h).2.2]; simp [nextPend, kept, headOf, GNote.key, h]
    | false =>
      rw [step_plain_outside _ { pending := pd, out := out } n h]; simp [nextPend, kept, headOf, GNote.key, h]
  | withTail hd tb =>
    cases h : inside pd hd with
    | true =>
      rw [(step_withTail_inside { pending := pd, out := out } hd tb h).2.2]
      simp [nextPend, kept, headOf, GNote.key, h]
    | false =>
      rw [step_withTail_outside _ { pending := pd, out := out } hd tb h]
      simp [nextPend, kept, headOf, GNote.key, h]

theorem step_raise (pd out : List Note) (g : GNote) :
    ungroupStep .raise { pending := pd, out := out } g =
      if inside pd (headOf g) then .error .orphaned
      else .ok { pending := nextPend pd g, out := out ++ ((popReached g.key pd).1 ++ kept false pd g) } := by
  cases g with
  | plain n =>
    cases h : inside pd n with
    | true =>
      rw [(step_plain_inside { pending := pd, out := out } n h).1]; simp [headOf, h]
    | false =>
      rw [step_plain_outside _ { pending := pd, out := out } n h]; simp [nextPend, kept, headOf, GNote.key, h]
  | withTail hd tb =>
    cases h : inside pd hd with
    | true =>
      rw [(step_withTail_inside { pending := pd, out := out } hd tb h).1]; simp [headOf, h]
    | false =>
      rw [step_withTail_outside _ { pending := pd, out := out } hd tb h]
      simp [nextPend, kept, headOf, GNote.key, h]

theorem run_keep : ∀ (L : List GNote) (pd out : List Note),
    L.foldlM (ungroupStep .keep) { pending := pd, out := out } =
      .ok { pending := L.foldl nextPend pd, out := out ++ emit false pd L } := by
  intro L
  induction L with
  | nil => intro pd out; simp [emit, pure, Except.pure]
  | cons g L ih =>
    intro pd out
    simp only [List.foldlM_cons, step_keep, bind, Except.bind, ih, List.foldl_cons, emit, List.append_assoc]

theorem run_drop : ∀ (L : List GNote) (pd out : List Note),
    L.foldlM (ungroupStep .drop) { pending := pd, out := out } =
      .ok { pending := L.foldl nextPend pd, out := out ++ emit true pd L } := by
  intro L
  induction L with
  | nil => intro pd out; simp [emit, pure, Except.pure]
  | cons g L ih =>
    intro pd out
    simp only [List.foldlM_cons, step_drop, bind, Except.bind, ih, List.foldl_cons, emit, List.append_assoc]

theorem run_raise : ∀ (L : List GNote) (pd out : List Note),
    L.foldlM (ungroupStep .raise) { pending := pd, out := out } =
      if anyInside pd L then .error .orphaned
      else .ok { pending := L.foldl nextPend pd, out := out ++ emit false pd L } := by
  intro L
  induction L with
  | nil => intro pd out; simp [emit, anyInside, pure, Except.pure]
  | cons g L ih =>
    intro pd out
    simp only [List.foldlM_cons, step_raise, anyInside]
    by_cases h : inside pd (headOf g) = true
    · simp [h, bind, Except.bind]
    · have h' : inside pd (headOf g) = false := by simpa using h
      simp only [h', Bool.false_eq_true, if_false, bind, Except.bind, ih, List.foldl_cons, emit,
        List.append_assoc, Bool.false_or]

theorem ungroup_keep_closed (groups : List (List GNote)) :
    ungroupNotes .keep groups = .ok (emit false [] groups.flatten ++ groups.flatten.foldl nextPend []) := by
  simp [ungroupNotes, run_keep, bind, Except.bind, pure, Except.pure]

theorem ungroup_drop_closed (groups : List (List GNote)) :
    ungroupNotes .drop groups = .ok (emit true [] groups.flatten ++ groups.flatten.foldl nextPend []) := by
  simp [ungroupNotes, run_drop, bind, Except.bind, pure, Except.pure]

theorem ungroup_raise_closed (groups : List (List GNote)) :
    ungroupNotes .raise groups =
      if anyInside [] groups.flatten then .error .orphaned else ungroupNotes .keep groups := by
  rw [ungroup_keep_closed]
  simp only [ungroupNotes, run_raise]
  cases anyInside [] groups.flatten <;> simp [bind, Except.bind, pure, Except.pure]

/-- `anyInside`, positionally: some item is met with a tail pending on its column -/
theorem anyInside_iff : ∀ (L : List GNote) (pd : List Note),
    anyInside pd L = true ↔ ∃ A x B, L = A ++ x :: B ∧ inside (A.foldl nextPend pd) (headOf x) = true := by
  intro L
  induction L with
  | nil => intro pd; simp [anyInside]
  | cons g L ih =>
    intro pd
    simp only [anyInside, Bool.or_eq_true, ih]
    constructor
    · rintro (h | ⟨A, x, B, hL, h⟩)
      · exact ⟨[], g, L, rfl, h⟩
      · exact ⟨g :: A, x, B, by rw [hL]; rfl, h⟩
    · rintro ⟨A, x, B, hL, h⟩
      cases A with
      | nil =>
        simp only [List.nil_append, List.cons.injEq] at hL
        obtain ⟨rfl, rfl⟩ := hL
        exact Or.inl h
      | cons a A =>
        simp only [List.cons_append, List.cons.injEq] at hL
        obtain ⟨rfl, rfl⟩ := hL
        exact Or.inr ⟨A, x, B, rfl, h⟩

/-! ### the notes that come out -/

/-- the expansion of a sequence, without the heads that DROP leaves out (`drop = true`) -/
def expandSt (drop : Bool) : List Note → List GNote → List Note
  | _, [] => []
  | pd, g :: L => kept drop pd g ++ tailOf g ++ expandSt drop (nextPend pd g) L

theorem expandSt_false : ∀ (L : List GNote) (pd : List Note), expandSt false pd L = L.flatMap notesOf := by
  intro L
  induction L with
  | nil => intro pd; rfl
  | cons g L ih => intro pd; simp [expandSt, kept, ih, notesOf_eq]

theorem nextPend_count (pd : List Note) (g : GNote) (a : Note) :
    ((popReached g.key pd).1).count a + (nextPend pd g).count a = pd.count a + (tailOf g).count a := by
  have h := congrArg (List.count a) (popReached_append g.key pd)
  rw [List.count_append] at h
  cases g with
  | plain n => simp only [nextPend, tailOf, GNote.key, List.count_nil] at h ⊢; omega
  | withTail hd tb =>
    have h2 := (heapInsert_perm (recon hd tb) (popReached hd.key pd).2).count_eq a
    simp only [nextPend, tailOf, GNote.key] at h ⊢
    rw [h2, List.count_cons, List.count_cons, List.count_nil]
    omega

theorem emit_perm (d : Bool) : ∀ (L : List GNote) (pd : List Note),
    (emit d pd L ++ L.foldl nextPend pd).Perm (pd ++ expandSt d pd L) := by
  intro L
  induction L with
  | nil => intro pd; simp [emit, expandSt]
  | cons g L ih =>
    intro pd
    rw [List.perm_iff_count]
    intro a
    have h1 := (ih (nextPend pd g)).count_eq a
    have h2 := nextPend_count pd g a
    simp only [emit, expandSt, List.foldl_cons, List.count_append] at h1 ⊢
    omega

/-- the heap stays sorted -/
theorem nextPend_sorted (pd : List Note) (g : GNote) (hs : PSorted pd) : PSorted (nextPend pd g) := by
  have hsub : PSorted (popReached g.key pd).2 := by
    have := popReached_append g.key pd
    rw [← this] at hs
    exact (List.pairwise_append.mp hs).2.1
  cases g with
  | plain n => exact hsub
  | withTail hd tb => exact heapInsert_sorted _ _ hsub

theorem fold_nextPend_sorted : ∀ (L : List GNote) (pd : List Note), PSorted pd → PSorted (L.foldl nextPend pd) := by
  intro L
  induction L with
  | nil => intro pd h; exact h
  | cons g L ih => intro pd h; exact ih _ (nextPend_sorted pd g h)

theorem emit_sublist : ∀ (L : List GNote) (pd : List Note), (emit true pd L).Sublist (emit false pd L) := by
  intro L
  induction L with
  | nil => intro pd; exact List.Sublist.refl _
  | cons g L ih =>
    intro pd
    simp only [emit]
    refine List.Sublist.append (List.Sublist.append (List.Sublist.refl _) ?_) (ih _)
    unfold kept
    split <;> simp

end Simfile.UngroupPos
