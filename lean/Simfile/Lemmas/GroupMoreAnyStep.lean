/-
Lemmas for C09 (round 2): one iteration of the join loop on an arbitrary stream keeps the machine
state related (up to the order of the emitted items) to the abstract state.
-/
import Simfile.Lemmas.GroupMoreAnyBuf
namespace Simfile.JoinAny
open Simfile Simfile.Spec Simfile.Join

/-- the machine state `s` represents the abstract state `A` up to the order of the items -/
structure Rel (o : GOpts) (s : JState) (A : List AN) : Prop where
  held : s.held = opens A
  perm : (s.out ++ s.buffer).Perm (A.flatMap (pimage o))
  buf : ∀ cn ∈ s.held, GNote.plain cn.2 ∈ s.buffer

theorem rel_nil (o : GOpts) : Rel o ⟨[], [], []⟩ [] := ⟨rfl, by simp, by simp⟩

theorem finish_rel (o : GOpts) (held' : List (Nat × Note)) (b out : List GNote) (B : List AN)
    (h1 : opens B = held') (h2 : (out ++ b).Perm (B.flatMap (pimage o)))
    (h3 : ∀ cn ∈ held', GNote.plain cn.2 ∈ b) :
    ∃ s1, orInternal (JState.mk held' b out).flushUntilHeld = .ok s1 ∧ Rel o s1 B := by
  obtain ⟨s', e1, e2, e3, e4⟩ := flushUntilHeld_ok held' b out h3
  exact ⟨s', by rw [e1]; rfl, ⟨by rw [e2, h1], by rw [e3]; exact h2, by rw [e2]; exact e4⟩⟩

theorem closeStep_rel (o : GOpts) (s : JState) (A : List AN) (r : Rel o s A) (hc : Cols A) (n : Note)
    (hr : raised o A = false) :
    (raised o (closeAbs A n) = true → closeStep o s n = .error .orphaned) ∧
    (raised o (closeAbs A n) = false → ∃ s1, closeStep o s n = .ok s1 ∧ Rel o s1 (closeAbs A n)) := by
  unfold closeStep closeAbs
  rw [r.held]
  simp only [heldContains_opens, heldPop]
  by_cases hO : hasOpen n.column A = true
  · obtain ⟨hd, hf, hm, hcol⟩ := find_opens_some hO
    have hmemO : (n.column, hd) ∈ opens A := List.mem_of_find?_eq_some hf
    have hbuf : GNote.plain hd ∈ s.buffer := r.buf (n.column, hd) (by rw [r.held]; exact hmemO)
    have hheld' : ∀ cn ∈ (opens A).filter (·.1 ≠ n.column),
        GNote.plain cn.2 ∈ s.buffer.erase (.plain hd) := by
      intro cn hcn
      obtain ⟨h1, h2⟩ := List.mem_filter.mp hcn
      have h2' : cn.1 ≠ hd.column := by rw [hcol]; simpa using h2
      exact (List.mem_erase_of_ne (opens_ne h1 h2')).mpr (r.buf cn (by rw [r.held]; exact h1))
    simp only [hO, Bool.true_or, if_true, hf, Option.map_some]
    by_cases ht : n.ntype = cTAIL
    · have hcl : closeCls n = .joined n.beat := by simp [closeCls, ht]
      have hnew : newCls A n = some .consumed := by simp [newCls, isHead_tail, ht, hO]
      obtain ⟨b, hb1, hb2⟩ := attachTail_erase hd n.beat s.buffer hbuf
      rw [jht_tail o _ _ hd n ht hb1]
      simp only [ht, if_true, hcl, hnew, Except.bind]
      have hr' := raised_close o n.column (.joined n.beat) A [(n, some .consumed)] hr
      simp only [raised_single, reduceCtorEq, decide_false, Bool.and_false, Bool.or_false,
        Option.some.injEq] at hr'
      refine ⟨fun h => (by rw [hr'] at h; cases h), fun _ => ?_⟩
      apply finish_rel
      · simp [opens_append, opens_closeCol]
      · rw [List.flatMap_append]
        have : [(n, some Cls.consumed)].flatMap (pimage o) = [] := by simp [pimage, image]
        rw [this, List.append_nil, ← hcol]
        exact close_perm o _ hd A hc hm _ _ _ r.perm hbuf (by simpa [pimage, image] using hb2)
      · intro cn hcn
        exact hb2.symm.subset (List.mem_cons_of_mem _ (hheld' cn hcn))
    · have hcl : closeCls n = .orphanHead := by simp [closeCls, ht]
      simp only [ht, if_false, hcl, List.append_nil]
      have hr' := raised_close o n.column .orphanHead A [] hr
      simp only [List.append_nil, hO, raised_nil] at hr'
      rw [hr']
      cases hoh : o.orphanHead with
      | raise =>
        rw [jht_nontail_raise o _ hd n ht hoh]
        simp [Except.bind]
      | keep =>
        rw [jht_nontail_keep o _ hd n ht hoh]
        simp only [Except.bind]
        refine ⟨fun h => by simp at h, fun _ => ?_⟩
        apply finish_rel
        · simp [opens_closeCol]
        · rw [keep_spec o hoh]; exact r.perm
        · intro cn hcn
          exact List.mem_of_mem_erase (hheld' cn hcn)
      | drop =>
        rw [jht_nontail_drop o _ _ hd n ht hoh (removeFirst_erase hd _ hbuf)]
        simp only [Except.bind]
        refine ⟨fun h => by simp at h, fun _ => ?_⟩
        apply finish_rel
        · simp [opens_closeCol]
        · rw [← hcol]
          exact close_perm o _ hd A hc hm _ _ _ r.perm hbuf (by simp [pimage, image, hoh])
        · exact hheld'
  · have hO' : hasOpen n.column A = false := by simpa using hO
    have hid : closeCol n.column (closeCls n) A = A := closeCol_id hO'
    have hfil : (opens A).filter (·.1 ≠ n.column) = opens A := by
      rw [← opens_closeCol n.column (closeCls n), hid]
    simp only [hO', Bool.false_or, find_opens_none hO', Option.map_none, decide_eq_true_eq]
    by_cases ht : n.ntype = cTAIL
    · have hnew : newCls A n = some .orphanTail := by simp [newCls, isHead_tail, ht, hO']
      simp only [ht, if_true, hnew]
      have hr' := raised_close o n.column (closeCls n) A [(n, some .orphanTail)] hr
      simp only [hO', raised_single] at hr'
      rw [hr', hid, hfil]
      have hb0 : ∀ cn ∈ opens A, GNote.plain cn.2 ∈ s.buffer :=
        fun cn hcn => r.buf cn (by rw [r.held]; exact hcn)
      cases hot : o.orphanTail with
      | raise =>
        rw [jht_none_raise o _ n hot]
        simp [Except.bind]
      | keep =>
        rw [jht_none_keep o _ n hot]
        simp only [Except.bind]
        refine ⟨fun h => by simp at h, fun _ => ?_⟩
        apply finish_rel
        · simp [opens_append]
        · rw [List.flatMap_append, ← List.append_assoc]
          have : [(n, some Cls.orphanTail)].flatMap (pimage o) = [.plain n] := by simp [pimage, image, hot]
          rw [this]
          exact List.Perm.append_right _ r.perm
        · intro cn hcn
          exact List.mem_append_left _ (hb0 cn hcn)
      | drop =>
        rw [jht_none_drop o _ n hot]
        simp only [Except.bind]
        refine ⟨fun h => by simp at h, fun _ => ?_⟩
        apply finish_rel
        · simp [opens_append]
        · rw [List.flatMap_append]
          have : [(n, some Cls.orphanTail)].flatMap (pimage o) = [] := by simp [pimage, image, hot]
          rw [this, List.append_nil]
          exact r.perm
        · exact hb0
    · simp only [ht, if_false, List.append_nil, hid, hr, Bool.false_eq_true]
      exact ⟨fun h => (by cases h), fun _ => ⟨s, rfl, r⟩⟩

theorem pushStep_rel (o : GOpts) (s1 : JState) (B : List AN) (r : Rel o s1 B) (n : Note)
    (ht : ¬ n.ntype = cTAIL) (hno : hasOpen n.column B = false) :
    Rel o (pushStep s1 n) (B ++ [(n, if isHead n.ntype then none else some .plain)]) := by
  unfold pushStep
  simp only [ne_eq, ht, not_false_eq_true, if_true]
  cases hh : isHead n.ntype with
  | true =>
    have hfresh : heldSet s1.held n.column n = s1.held ++ [(n.column, n)] := by
      apply heldSet_fresh
      rw [r.held]
      intro x hx hcx
      have : hasOpen n.column B = true :=
        hasOpen_iff.mpr (mem_opens_cols.mp (List.mem_map.mpr ⟨x, hx, hcx⟩))
      rw [hno] at this; cases this
    have hne : (s1.held ++ [(n.column, n)]).isEmpty = false := by
      cases s1.held <;> rfl
    simp only [if_true, hfresh, JState.maybeBuffer, hne, Bool.false_eq_true, if_false]
    refine ⟨?_, ?_, ?_⟩
    · simp [opens_append, r.held]
    · simp only [List.flatMap_append, List.flatMap_cons, List.flatMap_nil, List.append_nil]
      rw [← List.append_assoc]
      exact List.Perm.append_right _ r.perm
    · intro cn hcn
      simp only [List.mem_append, List.mem_singleton] at hcn ⊢
      rcases hcn with h | h
      · exact Or.inl (r.buf cn h)
      · subst h; exact Or.inr rfl
  | false =>
    simp only [Bool.false_eq_true, if_false, JState.maybeBuffer]
    have hp : [(n, some Cls.plain)].flatMap (pimage o) = [.plain n] := by simp [pimage, image]
    by_cases he : s1.held.isEmpty = true
    · simp only [he, if_true, JState.flush]
      refine ⟨?_, ?_, ?_⟩
      · simp [opens_append, ← r.held]
      · simp only [List.append_nil, List.flatMap_append, hp]
        exact List.Perm.append_right _ r.perm
      · intro cn hcn
        have : s1.held = [] := List.isEmpty_iff.mp he
        rw [this] at hcn
        simp at hcn
    · simp only [he, Bool.false_eq_true, if_false]
      refine ⟨?_, ?_, ?_⟩
      · simp [opens_append, ← r.held]
      · simp only [List.flatMap_append, hp]
        rw [← List.append_assoc]
        exact List.Perm.append_right _ r.perm
      · intro cn hcn
        exact List.mem_append_left _ (r.buf cn hcn)

/-- one iteration of the loop, for any stream -/
theorem joinStep_rel (o : GOpts) (s : JState) (A : List AN) (r : Rel o s A) (hc : Cols A) (n : Note)
    (hr : raised o A = false) :
    (raised o (absStep A n) = true → joinStep o s n = .error .orphaned) ∧
    (raised o (absStep A n) = false → ∃ s', joinStep o s n = .ok s' ∧ Rel o s' (absStep A n)) := by
  rw [joinStep_eq]
  obtain ⟨c1, c2⟩ := closeStep_rel o s A r hc n hr
  by_cases ht : n.ntype = cTAIL
  · have : closeAbs A n = absStep A n := by simp [closeAbs, absStep, ht]
    rw [this] at c1 c2
    constructor
    · intro h; rw [c1 h]; rfl
    · intro h
      obtain ⟨s1, e1, r1⟩ := c2 h
      exact ⟨s1, by rw [e1]; simp [Except.bind, pushStep_tail _ n ht], r1⟩
  · have h1 : closeAbs A n = closeCol n.column (closeCls n) A := by simp [closeAbs, ht]
    have h2 : newCls A n = if isHead n.ntype then none else some .plain := by simp [newCls, ht]
    have h3 : raised o (absStep A n) = raised o (closeCol n.column (closeCls n) A) := by
      unfold absStep
      rw [raised_append, raised_single, h2]
      cases isHead n.ntype <;> simp
    rw [h1] at c1 c2
    rw [h3]
    constructor
    · intro h; rw [c1 h]; rfl
    · intro h
      obtain ⟨s1, e1, r1⟩ := c2 h
      refine ⟨pushStep s1 n, by rw [e1]; rfl, ?_⟩
      have := pushStep_rel o s1 _ r1 n ht (hasOpen_closeCol_same _ _ _)
      unfold absStep
      rw [h2]
      exact this

end Simfile.JoinAny
