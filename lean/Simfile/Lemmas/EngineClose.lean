/-
C12 helper: the "window" around the state selected by the search on the state times — the selected
state, the next state, and the gap of keys between them — in index-free form.
-/
import Simfile.Lemmas.EngineBeatInv
namespace Simfile
open C11

variable {td : TimingData}

/-- The window of the search. `w` is `decide (g = .warp)` (bisect_left for the WARP tag).
Either the query is at or before the initial time and the initial state is selected, or the selected
state `y` satisfies the invariant, is at or before `t` (`R1`), and either there is a next state `z`
(after `t` in the sense `R2`, with no event key strictly between the two, and the answer does not
pass its beat) or `y` is the last state. -/
theorem sel_window (hd : Dom td) (t : Rat) (g : Tag) :
    ∃ y, beatAt td t g = y.beat + y.beatsUntil t ∧ y ∈ states td ∧
      ((y = initState td ∧ t ≤ -td.offset ∧
          ∀ e ∈ events td, R2 (decide (g = .warp)) t (Spec.timeSpec td e.beat e.tag)) ∨
       (StInv td y ∧ R1 (decide (g = .warp)) y.time t ∧
          ((∃ z ∈ states td, StInv td z ∧ skey y < skey z ∧ R2 (decide (g = .warp)) t z.time ∧
              y.beat + y.beatsUntil t ≤ z.beat ∧
              ∀ e ∈ events td, ekey e ≤ skey y ∨ skey z ≤ ekey e) ∨
           (∀ e ∈ events td, ekey e ≤ skey y)))) := by
  obtain ⟨k, y, hy, hsel, ha, hb⟩ := priorByTime_sel hd t g
  refine ⟨y, by rw [beatAt_eq, hsel], List.mem_of_getElem? hy, ?_⟩
  -- the time of the state of an event is after `t` when its index is above `k`
  have hR2 : ∀ j (hj : j < (events td).length), k < j + 1 →
      R2 (decide (g = .warp)) t (Spec.timeSpec td (events td)[j].beat (events td)[j].tag) := by
    intro j hj hk
    obtain ⟨z, hz, hzinv, hzb, hzt, _, _⟩ := states_event hd j hj
    have := hb (j + 1) z hk hz
    rwa [hzinv.time, hzb, hzt] at this
  cases k with
  | zero =>
    rw [states_zero] at hy
    obtain rfl := Option.some.inj hy
    by_cases ht : t ≤ -td.offset
    · left
      refine ⟨rfl, ht, ?_⟩
      intro e he
      obtain ⟨j, hj, rfl⟩ := event_index he
      exact hR2 j hj (by omega)
    · right
      have ht' : -td.offset < t := not_le.1 ht
      have hno : ∀ e ∈ events td, ¬ ekey e ≤ key 0 .bpm := by
        intro e he hle
        obtain ⟨htag, hbeat⟩ := low_event hd e he hle
        obtain ⟨j, hj, rfl⟩ := event_index he
        have := R2_le (hR2 j hj (by omega))
        rw [hbeat, htag, timeSpec_zero_warp hd] at this
        linarith
      have hinit := init_inv hd hno
      refine ⟨hinit, ?_, ?_⟩
      · show R1 _ (-td.offset) t
        cases decide (g = .warp)
        · exact le_of_lt ht'
        · exact ht'
      · by_cases hE : 0 < (events td).length
        · left
          obtain ⟨z, hz, hzinv, _, _, _, hzk⟩ := states_event hd 0 hE
          have hR2z := hb 1 z (by omega) hz
          refine ⟨z, List.mem_of_getElem? hz, hzinv, ?_, hR2z, ?_, ?_⟩
          · rw [hzk]
            exact not_le.1 (hno _ (List.getElem_mem hE))
          · exact link hd _ (states_zero td) hz (Or.inl rfl) hR2z
          · intro e he
            obtain ⟨j, hj, rfl⟩ := event_index he
            right
            rw [hzk]
            exact events_key_le hd hE hj (Nat.zero_le j)
        · right
          intro e he
          have : (events td).length = 0 := by omega
          rw [List.length_eq_zero_iff.1 this] at he
          exact absurd he List.not_mem_nil
  | succ i =>
    right
    obtain ⟨hi, hinv, _, _, _, hyk⟩ := states_pos hd i y hy
    have ha' : R1 (decide (g = .warp)) y.time t := by
      rcases ha with ha | ha
      · omega
      · exact ha
    refine ⟨hinv, ha', ?_⟩
    by_cases hn : i + 1 < (events td).length
    · left
      obtain ⟨z, hz, hzinv, _, _, _, hzk⟩ := states_event hd (i + 1) hn
      have hR2z := hb (i + 2) z (by omega) hz
      refine ⟨z, List.mem_of_getElem? hz, hzinv, ?_, hR2z, ?_, ?_⟩
      · rw [hyk, hzk]; exact events_key_lt hd hi hn (Nat.lt_succ_self i)
      · exact link hd _ hy hz (Or.inr ha') hR2z
      · intro e he
        obtain ⟨j, hj, rfl⟩ := event_index he
        by_cases hji : j ≤ i
        · left; rw [hyk]; exact events_key_le hd hj hi hji
        · right; rw [hzk]; exact events_key_le hd hn hj (by omega)
    · right
      intro e he
      obtain ⟨j, hj, rfl⟩ := event_index he
      rw [hyk]
      exact events_key_le hd hj hi (by omega)

/-- in a window the next state is strictly later in time -/
theorem window_time_lt {w : Bool} {a t b : Rat} (h1 : R1 w a t) (h2 : R2 w t b) : a < b := by
  by_contra hc
  exact R12_contra h1 (le_refl t) (R2_mono h2 (not_lt.1 hc))

/-- no event strictly between the two states of a window -/
theorem window_none {κ κ' : K} (hsplit : ∀ e ∈ events td, ekey e ≤ κ ∨ κ' ≤ ekey e) {q : K} (hq : q ≤ κ') :
    NoneBetween td κ q := by
  intro e he hh
  rcases hsplit e he with h | h
  · exact lt_irrefl _ (lt_of_lt_of_le hh.1 h)
  · exact lt_irrefl _ (lt_of_lt_of_le hh.2 (le_trans hq h))

theorem last_none {κ : K} (hall : ∀ e ∈ events td, ekey e ≤ κ) (q : K) : NoneBetween td κ q := by
  intro e he hh
  exact lt_irrefl _ (lt_of_lt_of_le hh.1 (hall e he))

/-- extrapolation of the declarative time from a running (non-pause) state outside the warps -/
theorem timeSpec_from (hd : Dom td) (y : TState) (hinv : StInv td y) (hp : ¬ (y.tag = .stop ∨ y.tag = .delay))
    (hw : y.warp = false) (c : Rat) (h : Tag) (hle : skey y ≤ key c h)
    (hno : NoneBetween td (skey y) (key c h)) :
    Spec.timeSpec td c h = y.time + (c - y.beat) * 60 / y.bpm := by
  have := step_time hd y hinv c h hle hno
  rw [← this]
  have hadd : ¬ ((y.tag = .stop ∨ y.tag = .delay) ∧ (h = .stopEnd ∨ h = .delayEnd)) := fun hh => hp hh.1
  unfold TState.timeUntil
  rw [hw, if_neg hadd]
  simp

/-- … and from a state inside a warp (pause or not): only the pause of the state itself can add time -/
theorem timeSpec_from_warp (hd : Dom td) (y : TState) (hinv : StInv td y)
    (hp : ¬ (y.tag = .stop ∨ y.tag = .delay)) (hw : y.warp = true) (c : Rat) (h : Tag)
    (hle : skey y ≤ key c h) (hno : NoneBetween td (skey y) (key c h)) :
    Spec.timeSpec td c h = y.time := by
  have := step_time hd y hinv c h hle hno
  rw [← this]
  have hadd : ¬ ((y.tag = .stop ∨ y.tag = .delay) ∧ (h = .stopEnd ∨ h = .delayEnd)) := fun hh => hp hh.1
  unfold TState.timeUntil
  rw [hw, if_neg hadd]
  simp

/-- the BPM in force on a tick-aligned beat with no BPM event since the state -/
theorem bpmOn_from (hd : Dom td) (y : TState) (hinv : StInv td y) {x : Rat}
    (hle : skey y ≤ key x .stopEnd)
    (hno : ∀ e ∈ events td, ¬ (skey y < ekey e ∧ ekey e ≤ key x .stopEnd)) :
    Spec.bpmOn td x = y.bpm := by
  rw [bpmOn_eq_before td hd x .stopEnd (by simp), hinv.bpm]
  exact (bpmBefore_congr td hle (fun e he _ => hno e he)).symm

/-- a pause state is followed by its END event -/
theorem pause_end_event (y : TState) (hinv : StInv td y) (hp : y.tag = .stop ∨ y.tag = .delay) :
    ∃ e ∈ events td, skey y < ekey e ∧ e.beat = y.beat ∧ ekey e ≤ key y.beat .stopEnd := by
  rcases hp with hp | hp
  · exact ⟨_, ev_stopEnd (hinv.stop hp), key_lt.2 (Or.inr ⟨rfl, by rw [hp]; simp⟩), rfl, le_refl _⟩
  · exact ⟨_, ev_delayEnd (hinv.delay hp), key_lt.2 (Or.inr ⟨rfl, by rw [hp]; simp⟩), rfl,
      key_le.2 (Or.inr ⟨rfl, by simp⟩)⟩

/-- a state inside a warp is followed by a WARP_END event -/
theorem warp_end_event (y : TState) (hinv : StInv td y) (hw : y.warp = true) :
    ∃ e ∈ events td, skey y < ekey e := by
  obtain ⟨sg, hsg, _, h2⟩ := hinv.warp.1 hw
  exact ⟨_, ev_warpEnd hsg, h2⟩

/-- the declarative time before beat 0 -/
theorem timeSpec_nonpos (hd : Dom td) {r : Rat} (hr : r ≤ 0) :
    Spec.timeSpec td r .warp = -td.offset + r * 60 / (td.bpms.headD (0, 0)).2 ∧
    -td.offset + r * 60 / (td.bpms.headD (0, 0)).2 ≤ Spec.timeSpec td r .stopEnd := by
  rcases lt_or_eq_of_le hr with hneg | rfl
  · have h1 : ∀ g, Spec.timeSpec td r g = -td.offset + r * 60 / (td.bpms.headD (0, 0)).2 := by
      intro g
      rw [timeSpec_eq, paused_eq_K, pausedK_low hd (key_lt.2 (Or.inl hneg))]
      unfold travel
      rw [if_pos hneg]; ring
    exact ⟨h1 _, le_of_eq (h1 _).symm⟩
  · rw [timeSpec_zero_warp hd]
    simp only [zero_mul, zero_div, add_zero, true_and]
    rw [← timeSpec_zero_warp hd]
    exact timeSpec_mono td hd (key_le.2 (Or.inr ⟨rfl, by simp⟩))

/-- the BPM in force at or before beat 0 is the first BPM -/
theorem bpmOn_nonpos (hd : Dom td) {r : Rat} (hr : r ≤ 0) : Spec.bpmOn td r = (td.bpms.headD (0, 0)).2 := by
  rw [bpmOn_eq_before td hd r .stopEnd (by simp)]
  apply bpmBefore_low hd
  apply key_le.2
  rcases lt_or_eq_of_le hr with h | h
  · exact Or.inl h
  · exact Or.inr ⟨h, le_refl _⟩

end Simfile
