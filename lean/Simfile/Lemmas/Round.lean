/- Lemmas about Python's round-half-even on rationals and rounding to the tick grid. -/
import Simfile.Model.Beat
import Mathlib.Data.Rat.Floor
import Mathlib.Tactic.Linarith
import Mathlib.Tactic.NormNum
import Mathlib.Tactic.FieldSimp
namespace Simfile

theorem floor_le' (x : Rat) : (x.floor : Rat) ≤ x := by
  exact Int.floor_le x

theorem lt_floor_add_one' (x : Rat) : x < (x.floor : Rat) + 1 := by
  exact Int.lt_floor_add_one x

theorem floor_unique' (x : Rat) (n : Int) (h1 : (n : Rat) ≤ x) (h2 : x < (n : Rat) + 1) : x.floor = n := by
  exact Int.floor_eq_iff.mpr ⟨h1, h2⟩

/-- round-half-even is within one half of its argument -/
theorem roundHalfEven_near (x : Rat) : |((roundHalfEven x : Int) : Rat) - x| ≤ 1 / 2 := by
  have h1 := floor_le' x
  have h2 := lt_floor_add_one' x
  unfold roundHalfEven
  simp only
  split_ifs with ha hb hc
  · rw [abs_le]; constructor <;> linarith
  · rw [abs_le]; push_cast; constructor <;> linarith
  · have : x - (x.floor : Rat) = 1 / 2 := le_antisymm (not_lt.mp hb) (not_lt.mp ha)
    rw [abs_le]; constructor <;> linarith
  · have : x - (x.floor : Rat) = 1 / 2 := le_antisymm (not_lt.mp hb) (not_lt.mp ha)
    rw [abs_le]; push_cast; constructor <;> linarith

/-- an integer strictly within one half of x is what round-half-even returns -/
theorem roundHalfEven_unique (x : Rat) (n : Int) (h : |x - (n : Rat)| < 1 / 2) : roundHalfEven x = n := by
  rw [abs_lt] at h
  obtain ⟨hl, hr⟩ := h
  unfold roundHalfEven
  simp only
  by_cases hc : (n : Rat) ≤ x
  · have hf : x.floor = n := floor_unique' x n hc (by linarith)
    rw [hf]
    rw [if_pos hr]
  · have hc' : x < (n : Rat) := not_le.mp hc
    have hf : x.floor = n - 1 := floor_unique' x (n - 1) (by push_cast; linarith) (by push_cast; linarith)
    rw [hf]
    have h1 : ¬ (x - ((n - 1 : Int) : Rat) < 1 / 2) := by push_cast; linarith
    have h2 : (1 : Rat) / 2 < x - ((n - 1 : Int) : Rat) := by push_cast; linarith
    rw [if_neg h1, if_pos h2]; omega

theorem roundHalfEven_int (n : Int) : roundHalfEven (n : Rat) = n :=
  roundHalfEven_unique _ n (by simp)

end Simfile
