/-
Lemmas about serialization and loading of SM simfile objects (C01, C03, C04).
-/
import Simfile.Lemmas.StrO
import Simfile.Lemmas.DictO
namespace Simfile.O
open Simfile

/-- equality of `Except` values is decidable (for the closed examples) -/
instance exceptDecEq {ε α} [DecidableEq ε] [DecidableEq α] : DecidableEq (Except ε α)
  | .ok a, .ok b => if h : a = b then isTrue (by rw [h]) else isFalse (fun e => h (Except.ok.inj e))
  | .error a, .error b => if h : a = b then isTrue (by rw [h]) else isFalse (fun e => h (Except.error.inj e))
  | .ok _, .error _ => isFalse (fun e => nomatch e)
  | .error _, .ok _ => isFalse (fun e => nomatch e)

/-! ### parameters of a serialized document -/

theorem paramsOf_nil : paramsOf [] = [] := rfl
theorem paramsOf_append (a b : List Item) : paramsOf (a ++ b) = paramsOf a ++ paramsOf b := by
  unfold paramsOf; rw [List.filterMap_append]
theorem paramsOf_param_cons (p : Param) (is : List Item) :
    paramsOf (Item.param p :: is) = p :: paramsOf is := rfl
theorem paramsOf_text_cons (t : Str) (is : List Item) :
    paramsOf (Item.text t :: is) = paramsOf is := rfl

/-- the parameter written for a dictionary item -/
def itemParam (kv : Str × Option Str) : Param := valueParam kv.1 kv.2

theorem paramsOf_serProps (d : Dict) : paramsOf (serProps d) = d.map itemParam := by
  induction d with
  | nil => rfl
  | cons kv d ih =>
    unfold serProps at ih ⊢
    rw [List.flatMap_cons, paramsOf_append, ih]; rfl

theorem paramsOf_chartItems (cs : List SMChart) :
    paramsOf (cs.flatMap fun c => [Item.param (smChartParam c), Item.text nl]) = cs.map smChartParam := by
  induction cs with
  | nil => rfl
  | cons c cs ih => rw [List.flatMap_cons, paramsOf_append, ih]; rfl

theorem paramsOf_serSM (s : SMSimfile) :
    paramsOf (serSM s) = s.props.map itemParam ++ s.charts.map smChartParam := by
  unfold serSM
  rw [paramsOf_append, paramsOf_append, paramsOf_serProps, paramsOf_chartItems]
  simp [paramsOf]

theorem text_mem_serProps (d : Dict) (t : Str) (h : Item.text t ∈ serProps d) : t = nl := by
  unfold serProps at h
  rw [List.mem_flatMap] at h
  obtain ⟨kv, _, h⟩ := h
  simp at h; exact h

theorem text_mem_serSM (s : SMSimfile) (t : Str) (h : Item.text t ∈ serSM s) : t = nl := by
  unfold serSM at h
  rw [List.mem_append, List.mem_append] at h
  rcases h with (h | h) | h
  · exact text_mem_serProps _ _ h
  · simp at h; exact h
  · rw [List.mem_flatMap] at h
    obtain ⟨c, _, h⟩ := h
    simp at h; exact h

theorem isBlank_nl : isBlank nl = true := by decide

/-! ### value parameters -/

theorem valueParam_key (k : Str) (v : Option Str) : (valueParam k v).key = k := by
  unfold valueParam
  cases v with
  | none => rfl
  | some v => dsimp only; split <;> rfl

theorem valueParam_multi (k v : Str) (h : isMulti k = true) :
    (valueParam k (some v)).comps = k :: splitOn ':' v := by
  unfold valueParam; simp [h]

theorem loadedValue_valueParam (k : Str) (v : Option Str) : loadedValue k (valueParam k v) = v := by
  cases v with
  | none => rfl
  | some v =>
    unfold valueParam
    by_cases h : isMulti k = true
    · simp only [h, if_true]
      unfold loadedValue Param.value
      simp only [List.tail_cons]
      cases hs : splitOn ':' v with
      | nil => exact absurd hs (splitOn_ne_nil _ _)
      | cons p ps =>
        simp only [List.head?_cons, h, if_true]
        rw [← hs, joinWith_splitOn]
    · simp only [h]
      unfold loadedValue Param.value
      simp [h]

/-- the dictionary item a loader stores for a parameter -/
def kvOf (p : Param) : Str × Option Str := (upper p.key, loadedValue (upper p.key) p)

theorem kvOf_itemParam (kv : Str × Option Str) (h : upper kv.1 = kv.1) : kvOf (itemParam kv) = kv := by
  unfold kvOf itemParam
  rw [valueParam_key, h, loadedValue_valueParam]

/-! ### SM loading in closed form -/

def smStep (s : SMSimfile) (p : Param) : Except Err SMSimfile :=
  let k := upper p.key
  if k = kNOTES then do
    let c ← smChartFromMsd p.comps.tail
    pure { s with charts := s.charts ++ [c] }
  else pure { s with props := s.props.set k (loadedValue k p) }

theorem loadSM_eq (ps : List Param) : loadSM ps = ps.foldlM smStep { props := [], charts := [] } := rfl

/-- the successful branch of `smChartFromMsd` -/
def smChartOf (values : List Str) : SMChart :=
  { fields := (T.smChartProperties.zip values).foldl (fun d kv => d.set kv.1 (some (strip kv.2))) [],
    extradata := if values.length > T.smChartProperties.length
                 then some (values.drop T.smChartProperties.length) else none }

theorem smChartFromMsd_eq (values : List Str) :
    smChartFromMsd values =
      if values.length < T.smChartProperties.length then .error .valueError else .ok (smChartOf values) := rfl

def isNotes (p : Param) : Bool := decide (upper p.key = kNOTES)
def badChart (p : Param) : Bool := isNotes p && decide (p.comps.tail.length < T.smChartProperties.length)

theorem foldlM_smStep (ps : List Param) (s0 : SMSimfile) :
    ps.foldlM smStep s0 =
      if ps.any badChart = true then .error .valueError
      else .ok { props := setAll s0.props ((ps.filter (fun p => !isNotes p)).map kvOf),
                 charts := s0.charts ++ (ps.filter isNotes).map (fun p => smChartOf p.comps.tail) } := by
  induction ps generalizing s0 with
  | nil => simp [setAll_nil]; rfl
  | cons p ps ih =>
    rw [List.foldlM_cons]
    by_cases hn : upper p.key = kNOTES
    · have hN : isNotes p = true := by simp [isNotes, hn]
      by_cases hb : p.comps.tail.length < T.smChartProperties.length
      · have : smStep s0 p = .error .valueError := by
          simp only [smStep, hn, if_true, smChartFromMsd_eq, hb]; rfl
        rw [this]
        have : (p :: ps).any badChart = true := by
          have hbp : badChart p = true := by
            unfold badChart; rw [hN, decide_eq_true hb]; rfl
          rw [List.any_cons, hbp]; rfl
        rw [if_pos this]; rfl
      · have : smStep s0 p = .ok { s0 with charts := s0.charts ++ [smChartOf p.comps.tail] } := by
          simp only [smStep, hn, if_true, smChartFromMsd_eq, hb, if_false]; rfl
        rw [this]
        show List.foldlM smStep _ ps = _
        rw [ih]
        have hany : (p :: ps).any badChart = ps.any badChart := by
          have hbp : badChart p = false := by
            unfold badChart; rw [hN, decide_eq_false hb]; rfl
          rw [List.any_cons, hbp]; rfl
        rw [hany]
        split
        · rfl
        · simp [hN]
    · have hN : isNotes p = false := by simp [isNotes, hn]
      have : smStep s0 p = .ok { s0 with props := s0.props.set (upper p.key) (loadedValue (upper p.key) p) } := by
        simp only [smStep, hn, if_false]; rfl
      rw [this]
      show List.foldlM smStep _ ps = _
      rw [ih]
      have hany : (p :: ps).any badChart = ps.any badChart := by
        have hbp : badChart p = false := by
          unfold badChart; rw [hN]; rfl
        rw [List.any_cons, hbp]; rfl
      rw [hany]
      split
      · rfl
      · simp [hN, setAll_cons, kvOf]

theorem loadSM_closed (ps : List Param) :
    loadSM ps =
      if ps.any badChart = true then .error .valueError
      else .ok { props := setAll [] ((ps.filter (fun p => !isNotes p)).map kvOf),
                 charts := (ps.filter isNotes).map (fun p => smChartOf p.comps.tail) } := by
  rw [loadSM_eq, foldlM_smStep]; simp

/-! ### SM charts in the domain -/

theorem smIndent_space : ∀ c ∈ smIndent, pyIsSpace c = true := by decide
theorem nl_space : ∀ c ∈ nl, pyIsSpace c = true := by decide

theorem strip_smIndent (v : Str) (h : strip v = v) : strip (smIndent ++ v) = v := by
  rw [strip_append_left _ _ smIndent_space, h]

theorem strip_nl_nl (v : Str) (h : strip v = v) : strip (nl ++ v ++ nl) = v := by
  rw [strip_surround _ _ _ nl_space nl_space, h]

/-- a dictionary with the six SM chart keys in order -/
theorem fields_shape (d : Dict) (hk : d.keys = T.smChartProperties) :
    ∃ o1 o2 o3 o4 o5 o6, d =
      [(['S','T','E','P','S','T','Y','P','E'], o1), (['D','E','S','C','R','I','P','T','I','O','N'], o2),
       (['D','I','F','F','I','C','U','L','T','Y'], o3), (['M','E','T','E','R'], o4),
       (['R','A','D','A','R','V','A','L','U','E','S'], o5), (['N','O','T','E','S'], o6)] := by
  rcases d with _ | ⟨⟨k1,o1⟩, _ | ⟨⟨k2,o2⟩, _ | ⟨⟨k3,o3⟩, _ | ⟨⟨k4,o4⟩, _ | ⟨⟨k5,o5⟩, _ | ⟨⟨k6,o6⟩, _ | ⟨⟨k7,o7⟩, d⟩⟩⟩⟩⟩⟩⟩ <;>
  simp [Dict.keys, T.smChartProperties] at hk
  obtain ⟨rfl, rfl, rfl, rfl, rfl, rfl⟩ := hk
  exact ⟨o1, o2, o3, o4, o5, o6, rfl⟩

theorem fields_shape' (d : Dict) (hk : d.keys = T.smChartProperties)
    (hv : ∀ kv ∈ d, ∃ v, kv.2 = some v ∧ strip v = v) :
    ∃ v1 v2 v3 v4 v5 v6, d =
      [(['S','T','E','P','S','T','Y','P','E'], some v1), (['D','E','S','C','R','I','P','T','I','O','N'], some v2),
       (['D','I','F','F','I','C','U','L','T','Y'], some v3), (['M','E','T','E','R'], some v4),
       (['R','A','D','A','R','V','A','L','U','E','S'], some v5), (['N','O','T','E','S'], some v6)] ∧
      strip v1 = v1 ∧ strip v2 = v2 ∧ strip v3 = v3 ∧ strip v4 = v4 ∧ strip v5 = v5 ∧ strip v6 = v6 := by
  obtain ⟨o1, o2, o3, o4, o5, o6, rfl⟩ := fields_shape d hk
  obtain ⟨v1, h1, s1⟩ := hv (['S','T','E','P','S','T','Y','P','E'], o1) (by simp)
  obtain ⟨v2, h2, s2⟩ := hv (['D','E','S','C','R','I','P','T','I','O','N'], o2) (by simp)
  obtain ⟨v3, h3, s3⟩ := hv (['D','I','F','F','I','C','U','L','T','Y'], o3) (by simp)
  obtain ⟨v4, h4, s4⟩ := hv (['M','E','T','E','R'], o4) (by simp)
  obtain ⟨v5, h5, s5⟩ := hv (['R','A','D','A','R','V','A','L','U','E','S'], o5) (by simp)
  obtain ⟨v6, h6, s6⟩ := hv (['N','O','T','E','S'], o6) (by simp)
  simp only at h1 h2 h3 h4 h5 h6
  subst h1 h2 h3 h4 h5 h6
  exact ⟨v1, v2, v3, v4, v5, v6, rfl, s1, s2, s3, s4, s5, s6⟩

/-- the NOTES parameter of a chart with the six fields -/
theorem smChartParam_shape (v1 v2 v3 v4 v5 v6 : Str) (e : Option (List Str)) :
    smChartParam ⟨[(['S','T','E','P','S','T','Y','P','E'], some v1), (['D','E','S','C','R','I','P','T','I','O','N'], some v2),
       (['D','I','F','F','I','C','U','L','T','Y'], some v3), (['M','E','T','E','R'], some v4),
       (['R','A','D','A','R','V','A','L','U','E','S'], some v5), (['N','O','T','E','S'], some v6)], e⟩ =
    ⟨[kNOTES, smIndent ++ v1, smIndent ++ v2, smIndent ++ v3, smIndent ++ v4, smIndent ++ v5,
      nl ++ v6 ++ nl] ++ e.getD []⟩ := by
  simp [smChartParam, Dict.get?, List.lookup, fmtAttr, kNOTES]

theorem smChartOf_six (x1 x2 x3 x4 x5 x6 : Str) (rest : List Str) :
    smChartOf ([x1, x2, x3, x4, x5, x6] ++ rest) =
      ⟨[(['S','T','E','P','S','T','Y','P','E'], some (strip x1)), (['D','E','S','C','R','I','P','T','I','O','N'], some (strip x2)),
       (['D','I','F','F','I','C','U','L','T','Y'], some (strip x3)), (['M','E','T','E','R'], some (strip x4)),
       (['R','A','D','A','R','V','A','L','U','E','S'], some (strip x5)), (['N','O','T','E','S'], some (strip x6))],
       if rest = [] then none else some rest⟩ := by
  unfold smChartOf
  congr 1
  cases rest with
  | nil => simp [T.smChartProperties]
  | cons r rest => simp [T.smChartProperties]

theorem smChartOf_smChartParam (c : SMChart) (hk : c.fields.keys = T.smChartProperties)
    (hv : ∀ kv ∈ c.fields, ∃ v, kv.2 = some v ∧ strip v = v)
    (he : c.extradata = none ∨ ∃ l, c.extradata = some l ∧ l ≠ []) :
    smChartOf (smChartParam c).comps.tail = c := by
  obtain ⟨f, e⟩ := c
  obtain ⟨v1, v2, v3, v4, v5, v6, rfl, s1, s2, s3, s4, s5, s6⟩ := fields_shape' f hk hv
  rw [smChartParam_shape]
  simp only [List.cons_append, List.nil_append, List.tail_cons]
  rw [show (smIndent ++ v1) :: (smIndent ++ v2) :: (smIndent ++ v3) :: (smIndent ++ v4) :: (smIndent ++ v5) ::
        (nl ++ v6 ++ nl) :: e.getD [] =
      [smIndent ++ v1, smIndent ++ v2, smIndent ++ v3, smIndent ++ v4, smIndent ++ v5, nl ++ v6 ++ nl] ++ e.getD [] from rfl]
  rw [smChartOf_six, strip_smIndent _ s1, strip_smIndent _ s2, strip_smIndent _ s3, strip_smIndent _ s4,
    strip_smIndent _ s5, strip_nl_nl _ s6]
  congr 1
  rcases he with he | ⟨l, he, hl⟩
  · simp only at he; subst he; simp
  · simp only at he; subst he; simp [hl]

theorem smChartParam_key (c : SMChart) : (smChartParam c).key = kNOTES := rfl

theorem smChartParam_tail_length (c : SMChart) : 6 ≤ (smChartParam c).comps.tail.length := by
  simp [smChartParam]

/-! ### the parameters of a serialized SM simfile under the loader's classification -/

theorem upper_kNOTES : upper kNOTES = kNOTES := by decide

theorem isNotes_itemParam (kv : Str × Option Str) (hu : upper kv.1 = kv.1) (hn : kv.1 ≠ kNOTES) :
    isNotes (itemParam kv) = false := by
  unfold isNotes itemParam
  rw [valueParam_key, hu]
  exact decide_eq_false hn

theorem isNotes_smChartParam (c : SMChart) : isNotes (smChartParam c) = true := by
  unfold isNotes; rw [smChartParam_key, upper_kNOTES]; rfl

theorem badChart_smChartParam (c : SMChart) : badChart (smChartParam c) = false := by
  unfold badChart
  rw [isNotes_smChartParam]
  have := smChartParam_tail_length c
  have h6 : T.smChartProperties.length = 6 := rfl
  rw [h6, decide_eq_false (by omega)]; rfl

section
variable (d : Dict) (cs : List SMChart)
  (hu : ∀ k ∈ d.keys, upper k = k) (hn : ∀ k ∈ d.keys, k ≠ kNOTES)
include hu hn

theorem isNotes_of_mem_props (p : Param) (hp : p ∈ d.map itemParam) : isNotes p = false := by
  obtain ⟨kv, hkv, rfl⟩ := List.mem_map.mp hp
  have hk : kv.1 ∈ d.keys := List.mem_map.mpr ⟨kv, hkv, rfl⟩
  exact isNotes_itemParam kv (hu _ hk) (hn _ hk)

theorem filter_notes_ser :
    (d.map itemParam ++ cs.map smChartParam).filter isNotes = cs.map smChartParam := by
  rw [List.filter_append]
  have h1 : (d.map itemParam).filter isNotes = [] := by
    rw [List.filter_eq_nil_iff]
    intro p hp; rw [isNotes_of_mem_props d hu hn p hp]; simp
  have h2 : (cs.map smChartParam).filter isNotes = cs.map smChartParam := by
    rw [List.filter_eq_self]
    intro p hp
    obtain ⟨c, _, rfl⟩ := List.mem_map.mp hp
    exact isNotes_smChartParam c
  rw [h1, h2]; rfl

theorem filter_nonnotes_ser :
    (d.map itemParam ++ cs.map smChartParam).filter (fun p => !isNotes p) = d.map itemParam := by
  rw [List.filter_append]
  have h1 : (d.map itemParam).filter (fun p => !isNotes p) = d.map itemParam := by
    rw [List.filter_eq_self]
    intro p hp; rw [isNotes_of_mem_props d hu hn p hp]; rfl
  have h2 : (cs.map smChartParam).filter (fun p => !isNotes p) = [] := by
    rw [List.filter_eq_nil_iff]
    intro p hp
    obtain ⟨c, _, rfl⟩ := List.mem_map.mp hp
    rw [isNotes_smChartParam c]; simp
  rw [h1, h2, List.append_nil]

theorem any_badChart_ser : (d.map itemParam ++ cs.map smChartParam).any badChart = false := by
  rw [List.any_eq_false]
  intro p hp
  rcases List.mem_append.mp hp with hp | hp
  · unfold badChart; rw [isNotes_of_mem_props d hu hn p hp]; simp
  · obtain ⟨c, _, rfl⟩ := List.mem_map.mp hp
    rw [badChart_smChartParam]; simp

omit hn in
theorem map_kvOf_itemParam : (d.map itemParam).map kvOf = d := by
  rw [List.map_map]
  conv => rhs; rw [← List.map_id d]
  apply List.map_congr_left
  intro kv hkv
  exact kvOf_itemParam kv (hu _ (List.mem_map.mpr ⟨kv, hkv, rfl⟩))

end

end Simfile.O
