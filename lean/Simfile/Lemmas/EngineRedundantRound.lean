/-
C12 helper (redundant BPM rows, part 1): rounding to the tick grid commutes with a shift by a grid
point unless the argument is an exact half tick; the state selected by the search on the state times
in a list with one more state.
-/
import Simfile.Lemmas.EngineBeat
namespace Simfile

/-- `u` ticks is exactly half way between two ticks -/
def halfTick (u : Rat) : Prop := ∃ m : Int, u * 48 = (m : Rat) + 1 / 2

/-! ### rounding -/

/-- away from the ties, round-half-even is strictly within one half of its argument -/
theorem roundHalfEven_near_strict (z : Rat) (hz : ¬ ∃ m : Int, z = (m : Rat) + 1 / 2) :
    |z - ((roundHalfEven z : Int) : Rat)| < 1 / 2 := by
  have h1 := floor_le' z
  have h2 := lt_floor_add_one' z
  unfold roundHalfEven
  simp only
  split_ifs with ha hb hc
  · rw [abs_lt]; constructor <;> linarith
  · rw [abs_lt]; push_cast; constructor <;> linarith
  · have : z - (z.floor : Rat) = 1 / 2 := le_antisymm (not_lt.mp hb) (not_lt.mp ha)
    exact absurd ⟨z.floor, by linarith⟩ hz
  · have : z - (z.floor : Rat) = 1 / 2 := le_antisymm (not_lt.mp hb) (not_lt.mp ha)
    exact absurd ⟨z.floor, by linarith⟩ hz

theorem roundHalfEven_add_int (z : Rat) (N : Int) (hz : ¬ ∃ m : Int, z = (m : Rat) + 1 / 2) :
    roundHalfEven (z + (N : Rat)) = roundHalfEven z + N := by
  apply roundHalfEven_unique
  have h := roundHalfEven_near_strict z hz
  have e : z + (N : Rat) - ((roundHalfEven z + N : Int) : Rat) = z - ((roundHalfEven z : Int) : Rat) := by
    push_cast; ring
  rw [e]; exact h

/-- shifting by a grid point commutes with rounding to the grid, away from the half ticks -/
theorem roundToTick_sub_grid {u d : Rat} (hu : ¬ halfTick u) (hd : onGrid d) :
    roundToTick (u - d) = roundToTick u - d := by
  obtain ⟨n, rfl⟩ := hd
  unfold roundToTick
  rw [ticks_cast]
  have e : (u - (n : Rat) / 48) * 48 = u * 48 + ((-n : Int) : Rat) := by push_cast; ring
  rw [e, roundHalfEven_add_int _ _ hu]
  push_cast; ring

/-- in general the two differ by at most one tick -/
theorem roundToTick_sub_grid_near (u : Rat) {d : Rat} (hd : onGrid d) :
    |roundToTick (u - d) - (roundToTick u - d)| ≤ 1 / 48 := by
  obtain ⟨n, rfl⟩ := hd
  unfold roundToTick
  rw [ticks_cast]
  have e : (u - (n : Rat) / 48) * 48 = u * 48 - (n : Rat) := by ring
  rw [e]
  have h1 := roundHalfEven_near (u * 48 - (n : Rat))
  have h2 := roundHalfEven_near (u * 48)
  rw [abs_le] at h1 h2 ⊢
  constructor <;> linarith

/-! ### the selected state -/

/-- the characterisation of the state selected by the search on the times (`priorByTime_sel`) -/
def Sel (L : List TState) (w : Bool) (t : Rat) (k : Nat) (y : TState) : Prop :=
  L[k]? = some y ∧ (k = 0 ∨ R1 w y.time t) ∧ ∀ j z, k < j → L[j]? = some z → R2 w t z.time

theorem sel_unique {L : List TState} {w : Bool} {t : Rat} {k k' : Nat} {y y' : TState}
    (h : Sel L w t k y) (h' : Sel L w t k' y') : y = y' := by
  rcases Nat.lt_trichotomy k k' with hlt | heq | hgt
  · rcases h'.2.1 with h0 | hr
    · omega
    · exact (R12_contra hr (le_refl t) (h.2.2 k' y' hlt h'.1)).elim
  · subst heq
    have := h.1
    rw [h'.1] at this
    exact (Option.some.inj this).symm
  · rcases h.2.1 with h0 | hr
    · omega
    · exact (R12_contra hr (le_refl t) (h'.2.2 k y hgt h.1)).elim

theorem R_dich (w : Bool) (a t : Rat) : R2 w t a ∨ R1 w a t := by
  cases w
  · exact lt_or_ge t a
  · exact le_or_gt t a

theorem ins_get_le {A0 B : List TState} {y sx : TState} {j : Nat} (hj : j ≤ A0.length) :
    (A0 ++ y :: sx :: B)[j]? = (A0 ++ y :: B)[j]? := by
  rcases Nat.lt_or_eq_of_le hj with h | h
  · rw [List.getElem?_append_left h, List.getElem?_append_left h]
  · subst h
    rw [List.getElem?_append_right (le_refl _), List.getElem?_append_right (le_refl _)]
    simp

theorem ins_get_mid {A0 B : List TState} {y sx : TState} :
    (A0 ++ y :: sx :: B)[A0.length + 1]? = some sx := by
  rw [List.getElem?_append_right (by omega)]
  simp

theorem ins_get_gt {A0 B : List TState} {y sx : TState} {j : Nat} (hj : A0.length + 1 ≤ j) :
    (A0 ++ y :: sx :: B)[j + 1]? = (A0 ++ y :: B)[j]? := by
  obtain ⟨i, rfl⟩ := Nat.exists_eq_add_of_le hj
  rw [List.getElem?_append_right (by omega), List.getElem?_append_right (by omega)]
  have e1 : A0.length + 1 + i + 1 - A0.length = i + 2 := by omega
  have e2 : A0.length + 1 + i - A0.length = i + 1 := by omega
  rw [e1, e2]
  rfl

/-- inserting a state `sx` after `y`: the selected state is the same, or it was `y` and becomes `sx` -/
theorem sel_insert {A0 B : List TState} {y sx : TState} {w : Bool} {t : Rat} {k : Nat} {yk : TState}
    (hs : ∀ j z, j ≤ A0.length → (A0 ++ y :: sx :: B)[j]? = some z → z.time ≤ sx.time)
    (h : Sel (A0 ++ y :: B) w t k yk) :
    (∃ k', Sel (A0 ++ y :: sx :: B) w t k' yk) ∨
    (yk = y ∧ k = A0.length ∧ Sel (A0 ++ y :: sx :: B) w t (A0.length + 1) sx ∧ R1 w sx.time t ∧
      ¬ R2 w t sx.time) := by
  obtain ⟨hk, h1, h2⟩ := h
  by_cases hkn : k ≤ A0.length
  · -- the index stays
    have keep : R2 w t sx.time → Sel (A0 ++ y :: sx :: B) w t k yk := by
      intro hr
      refine ⟨by rw [ins_get_le hkn]; exact hk, h1, ?_⟩
      intro j z hj hz
      by_cases hjn : j ≤ A0.length
      · rw [ins_get_le hjn] at hz; exact h2 j z hj hz
      · by_cases hjm : j = A0.length + 1
        · subst hjm
          rw [ins_get_mid] at hz
          rw [← Option.some.inj hz]; exact hr
        · obtain ⟨j0, rfl⟩ : ∃ j0, j = j0 + 1 := ⟨j - 1, by omega⟩
          rw [ins_get_gt (by omega)] at hz
          exact h2 j0 z (by omega) hz
    rcases Nat.lt_or_eq_of_le hkn with hlt | heq
    · left
      refine ⟨k, keep ?_⟩
      have hlen : k + 1 < (A0 ++ y :: B).length := by simp; omega
      have hz1 : (A0 ++ y :: B)[k + 1]? = some (A0 ++ y :: B)[k + 1] := List.getElem?_eq_getElem hlen
      have hr := h2 (k + 1) _ (Nat.lt_succ_self k) hz1
      rw [← ins_get_le (sx := sx) (by omega : k + 1 ≤ A0.length)] at hz1
      exact R2_mono hr (hs (k + 1) _ (by omega) hz1)
    · subst heq
      have hy : yk = y := by
        rw [List.getElem?_append_right (le_refl _)] at hk
        simp at hk
        exact hk.symm
      rcases Classical.em (R2 w t sx.time) with hr | hnr
      · exact Or.inl ⟨_, keep hr⟩
      · right
        have hr1 : R1 w sx.time t := (R_dich w sx.time t).resolve_left hnr
        refine ⟨hy, rfl, ⟨ins_get_mid, Or.inr hr1, ?_⟩, hr1, hnr⟩
        intro j z hj hz
        obtain ⟨j0, rfl⟩ : ∃ j0, j = j0 + 1 := ⟨j - 1, by omega⟩
        rw [ins_get_gt (by omega)] at hz
        exact h2 j0 z (by omega) hz
  · -- the index moves by one
    left
    have hkn' : A0.length + 1 ≤ k := by omega
    refine ⟨k + 1, by rw [ins_get_gt hkn']; exact hk, Or.inr (h1.resolve_left (by omega)), ?_⟩
    intro j z hj hz
    obtain ⟨j0, rfl⟩ : ∃ j0, j = j0 + 1 := ⟨j - 1, by omega⟩
    rw [ins_get_gt (by omega)] at hz
    exact h2 j0 z (by omega) hz

end Simfile
