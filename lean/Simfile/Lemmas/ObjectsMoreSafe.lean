/-
Content-level conditions under which a serialized simfile avoids msdparser's escaping gaps (`safeDoc`), stated
on keys and values (C01-F3 / C02-F5 of audit part A).

`hashAfterBreak x b`: "in `x` a '#' follows a line break directly or through ':' ';' '\\' characters only"; `b`
says whether `x` itself is written right after a line break. `afterBreak x b`: whether what is written after `x`
is, in that sense, right after a line break. Both are plain one-character-at-a-time recursions; `scanComp_eq`
ties them to the `scanComp` of `safeDoc`.
-/
import Simfile.Lemmas.ObjectsMore
import Simfile.Lemmas.MsdLexDoc
namespace Simfile.O
open Simfile Simfile.MsdP

/-- the characters the lexer turns into ESCAPE tokens inside an escaped component: they neither set nor clear the
"last text ended in a line break" bit -/
def transparent (c : Char) : Bool := c = '\\' || c = ':' || c = ';'
def isBreak (c : Char) : Bool := c = '\n' || c = '\r'

/-- is a character written right after `x` "right after a line break"? (`b`: was `x` itself?) -/
def afterBreak : Str → Bool → Bool
  | [], b => b
  | c :: cs, b => if transparent c then afterBreak cs b else afterBreak cs (isBreak c)

/-- does `x` contain a '#' that follows a line break directly or through ':' ';' '\\' only? -/
def hashAfterBreak : Str → Bool → Bool
  | [], _ => false
  | c :: cs, b =>
    if c = '#' then b || hashAfterBreak cs false
    else if transparent c then hashAfterBreak cs b
    else hashAfterBreak cs (isBreak c)

/-- no three consecutive '/' -/
def noTriple (x : Str) : Bool := !containsSub x ['/', '/', '/']

theorem scanComp_eq (x : Str) (b : Bool) :
    scanComp x b = if hashAfterBreak x b = true then none else some (afterBreak x b) := by
  fun_induction scanComp x b with
  | case1 bit => simp [hashAfterBreak, afterBreak]
  | case2 cs bit ih =>
    rw [ih]
    simp [hashAfterBreak, afterBreak, transparent, isBreak]
  | case3 c cs bit h1 h2 ih =>
    rw [ih]
    have ht : transparent c = true := by
      rcases h2 with rfl | rfl | rfl <;> decide
    have hh : c ≠ '#' := by
      rcases h2 with rfl | rfl | rfl <;> decide
    simp [hashAfterBreak, afterBreak, ht, hh]
  | case4 cs bit h1 h2 ih =>
    rw [ih]
    simp [hashAfterBreak, afterBreak, transparent, isBreak]
  | case5 cs h1 h2 h3 =>
    simp [hashAfterBreak]
  | case6 cs bit hb h1 h2 h3 ih =>
    rw [ih]
    have : bit = false := by simpa using hb
    subst this
    simp [hashAfterBreak, afterBreak, transparent, isBreak]
  | case7 c cs bit h1 h2 h3 h4 ih =>
    rw [ih]
    have ht : transparent c = false := by
      simp only [transparent, Bool.or_eq_false_iff, decide_eq_false_iff_not]
      exact ⟨⟨fun e => h2 (Or.inl e), fun e => h2 (Or.inr (Or.inl e))⟩, fun e => h2 (Or.inr (Or.inr e))⟩
    have hb : isBreak c = decide (c = '\n' ∨ c = '\r') := by simp [isBreak]
    simp [hashAfterBreak, afterBreak, ht, h4, hb]

theorem hashAfterBreak_append (x y : Str) (b : Bool) :
    hashAfterBreak (x ++ y) b = (hashAfterBreak x b || hashAfterBreak y (afterBreak x b)) := by
  induction x generalizing b with
  | nil => simp [hashAfterBreak, afterBreak]
  | cons c x ih =>
    simp only [List.cons_append, hashAfterBreak, afterBreak]
    by_cases hc : c = '#'
    · subst hc
      have : transparent '#' = false := by decide
      have hb : isBreak '#' = false := by decide
      simp only [if_true, this, hb, ih, Bool.false_eq_true, if_false, Bool.or_assoc]
    · by_cases ht : transparent c = true
      · simp only [hc, if_false, ht, if_true, ih]
      · simp only [hc, if_false, ht, Bool.false_eq_true, ih]

theorem afterBreak_append (x y : Str) (b : Bool) : afterBreak (x ++ y) b = afterBreak y (afterBreak x b) := by
  induction x generalizing b with
  | nil => rfl
  | cons c x ih =>
    simp only [List.cons_append, afterBreak]
    split <;> exact ih _

/-- a string that is safe when written after a line break is safe anyway -/
theorem hashAfterBreak_mono (x : Str) (b : Bool) (h : hashAfterBreak x true = false) : hashAfterBreak x b = false := by
  cases b with
  | true => exact h
  | false =>
    induction x with
    | nil => rfl
    | cons c x ih =>
      simp only [hashAfterBreak] at h ⊢
      by_cases hc : c = '#'
      · simp [hc] at h
      · by_cases ht : transparent c = true
        · simp only [hc, if_false, ht, if_true] at h ⊢; exact ih h
        · simp only [hc, if_false, ht] at h ⊢; exact h

theorem hashAfterBreak_of_no_hash (x : Str) (b : Bool) (h : x.contains '#' = false) : hashAfterBreak x b = false := by
  induction x generalizing b with
  | nil => rfl
  | cons c x ih =>
    simp only [List.contains_cons, Bool.or_eq_false_iff, beq_eq_false_iff_ne, ne_eq] at h
    have hc : c ≠ '#' := fun e => h.1 e.symm
    simp only [hashAfterBreak, hc, if_false]
    split <;> exact ih _ h.2

/-- the parameter-level scan in terms of the components joined with ':' (what is written between '#' and ';',
before escaping) -/
theorem scanComps_eq (cs : List Str) (b : Bool) :
    scanComps cs b = if hashAfterBreak (joinWith [':'] cs) b = true then none
      else some (afterBreak (joinWith [':'] cs) b) := by
  induction cs generalizing b with
  | nil => simp [scanComps, joinWith, hashAfterBreak, afterBreak]
  | cons c cs ih =>
    cases cs with
    | nil =>
      by_cases hc : hashAfterBreak c b = true <;> simp [scanComps, joinWith, scanComp_eq, hc]
    | cons d rest =>
      rw [scanComps, scanComp_eq, joinWith_cons_cons, List.append_assoc, hashAfterBreak_append,
        afterBreak_append, List.singleton_append]
      have h1 : ∀ y b', hashAfterBreak (':' :: y) b' = hashAfterBreak y b' := by
        intro y b'; simp [hashAfterBreak, transparent]
      have h2 : ∀ y b', afterBreak (':' :: y) b' = afterBreak y b' := by
        intro y b'; simp [afterBreak, transparent]
      rw [h1, h2]
      by_cases hc : hashAfterBreak c b = true
      · simp [hc]
      · simp only [hc, Bool.false_eq_true, if_false, Option.bind_some, Bool.false_or]
        exact ih _

theorem joinWith_cons_splitOn (k v : Str) : joinWith [':'] (k :: splitOn ':' v) = k ++ ':' :: v := by
  cases hs : splitOn ':' v with
  | nil => exact absurd hs (splitOn_ne_nil _ _)
  | cons p ps =>
    rw [joinWith_cons_cons, ← hs, joinWith_splitOn]
    simp

/-- what is written between '#' and ';' for an item, before escaping: `key` or `key:value`, also for the
multi-value keys -/
theorem joined_valueParam (k : Str) (v : Option Str) :
    joinWith [':'] (valueParam k v).comps = match v with | none => k | some v => k ++ ':' :: v := by
  cases v with
  | none => rfl
  | some v =>
    unfold valueParam
    by_cases hm : isMulti k = true
    · simp only [hm, if_true]; exact joinWith_cons_splitOn k v
    · simp only [hm]; simp [joinWith]

/-! ### "///" -/

theorem isPrefixOf_slashes_cons_ne (p : Str) (e : Char) (w : Str) (he : e ≠ '/') :
    ('/' :: p).isPrefixOf (e :: w) = false := by
  simp [List.isPrefixOf, he.symm]

theorem containsSub_of_no_slash (w p : Str) (hw : w.contains '/' = false) :
    containsSub w ('/' :: p) = false := by
  induction w with
  | nil => rfl
  | cons e w ih =>
    simp only [List.contains_cons, Bool.or_eq_false_iff, beq_eq_false_iff_ne, ne_eq] at hw
    rw [containsSub, isPrefixOf_slashes_cons_ne p e w (fun h => hw.1 h.symm), ih hw.2]; rfl

theorem containsSub_append_left (w x p : Str) (hw : w.contains '/' = false) :
    containsSub (w ++ x) ('/' :: p) = containsSub x ('/' :: p) := by
  induction w with
  | nil => rfl
  | cons e w ih =>
    simp only [List.contains_cons, Bool.or_eq_false_iff, beq_eq_false_iff_ne, ne_eq] at hw
    rw [List.cons_append, containsSub, isPrefixOf_slashes_cons_ne p e _ (fun h => hw.1 h.symm), ih hw.2]; rfl

/-- a run of '/' is a prefix of `y ++ w` (with `w` free of '/') only if it is a prefix of `y` -/
theorem isPrefixOf_append_no_slash (p y w : Str) (hp : ∀ c ∈ p, c = '/') (hne : p ≠ [])
    (hw : w.contains '/' = false) : p.isPrefixOf (y ++ w) = p.isPrefixOf y := by
  induction p generalizing y with
  | nil => exact absurd rfl hne
  | cons d p ih =>
    have hd : d = '/' := hp d List.mem_cons_self
    subst hd
    cases y with
    | nil =>
      cases w with
      | nil => rfl
      | cons e w =>
        simp only [List.contains_cons, Bool.or_eq_false_iff, beq_eq_false_iff_ne, ne_eq] at hw
        rw [List.nil_append, isPrefixOf_slashes_cons_ne p e w (fun h => hw.1 h.symm)]; rfl
    | cons a y =>
      rw [List.cons_append, List.isPrefixOf, List.isPrefixOf]
      by_cases hpn : p = []
      · subst hpn; simp [List.isPrefixOf]
      · rw [ih y (fun c hc => hp c (List.mem_cons_of_mem _ hc)) hpn]

theorem containsSub_append_right (x w p : Str) (hp : ∀ c ∈ p, c = '/') (hw : w.contains '/' = false) :
    containsSub (x ++ w) ('/' :: p) = containsSub x ('/' :: p) := by
  induction x with
  | nil => rw [List.nil_append, containsSub_of_no_slash w p hw]; rfl
  | cons c x ih =>
    rw [List.cons_append, containsSub, containsSub, ih, ← List.cons_append,
      isPrefixOf_append_no_slash ('/' :: p) (c :: x) w
        (fun c hc => by rcases List.mem_cons.mp hc with rfl | hc; rfl; exact hp c hc) (by simp) hw]

theorem noTriple_append_left (w x : Str) (hw : w.contains '/' = false) : noTriple (w ++ x) = noTriple x := by
  unfold noTriple; rw [containsSub_append_left w x _ hw]

theorem noTriple_append_right (x w : Str) (hw : w.contains '/' = false) : noTriple (x ++ w) = noTriple x := by
  unfold noTriple; rw [containsSub_append_right x w _ (by simp) hw]

theorem noTriple_of_no_slash (x : Str) (h : x.contains '/' = false) : noTriple x = true := by
  unfold noTriple; rw [containsSub_of_no_slash x _ h]; rfl

/-- the first piece of a split is a prefix of the string -/
theorem head_splitOn_prefix (sep : Char) (s p : Str) (ps : List Str) (h : splitOn sep s = p :: ps) : p <+: s := by
  induction s generalizing p ps with
  | nil =>
    simp [splitOn] at h
    obtain ⟨rfl, _⟩ := h
    exact List.prefix_refl _
  | cons c cs ih =>
    by_cases hc : c = sep
    · subst hc
      rw [splitOn_cons_sep] at h
      rw [← (List.cons.inj h).1]; exact List.nil_prefix
    · cases hs : splitOn sep cs with
      | nil => exact absurd hs (splitOn_ne_nil _ _)
      | cons q qs =>
        rw [splitOn_cons_ne hc cs q qs hs] at h
        rw [← (List.cons.inj h).1]
        exact (List.prefix_cons_inj c).mpr (ih q qs hs)

theorem noTriple_tail {c : Char} {cs : Str} (h : noTriple (c :: cs) = true) : noTriple cs = true := by
  unfold noTriple at h ⊢
  simp only [Bool.not_eq_true'] at h ⊢
  exact containsSub_tail h

/-- the pieces of a value without "///" contain no "///" -/
theorem noTriple_splitOn (sep : Char) (s : Str) (h : noTriple s = true) : ∀ p ∈ splitOn sep s, noTriple p = true := by
  induction s with
  | nil => intro p hp; simp [splitOn] at hp; subst hp; rfl
  | cons c cs ih =>
    have ih' := ih (noTriple_tail h)
    by_cases hc : c = sep
    · subst hc
      rw [splitOn_cons_sep]
      intro p hp
      rcases List.mem_cons.mp hp with rfl | hp
      · rfl
      · exact ih' p hp
    · cases hs : splitOn sep cs with
      | nil => exact absurd hs (splitOn_ne_nil _ _)
      | cons q qs =>
        rw [splitOn_cons_ne hc cs q qs hs]
        rw [hs] at ih'
        intro p hp
        rcases List.mem_cons.mp hp with rfl | hp
        · have hq : noTriple q = true := ih' q List.mem_cons_self
          have hpre : q <+: cs := head_splitOn_prefix sep cs q qs hs
          unfold noTriple at h hq ⊢
          simp only [Bool.not_eq_true'] at h hq ⊢
          rw [containsSub, Bool.or_eq_false_iff] at h ⊢
          refine ⟨?_, hq⟩
          cases hpf : List.isPrefixOf ['/', '/', '/'] (c :: q) with
          | false => rfl
          | true =>
            have h1 : ['/', '/', '/'] <+: c :: q := List.isPrefixOf_iff_prefix.mp hpf
            have h2 : ['/', '/', '/'] <+: c :: cs := h1.trans ((List.prefix_cons_inj c).mpr hpre)
            rw [List.isPrefixOf_iff_prefix.mpr h2] at h
            exact absurd h.1 (by simp)
        · exact ih' p (List.mem_cons_of_mem _ hp)

/-! ### safe keys, values, parameters -/

/-- a key the serializers can write safely: no '#', no "///", and what follows it is not "right after a line
break" — i.e. it has a character other than `\ : ;` and the last such character is not a line break -/
def SafeKey (k : Str) : Bool := !k.contains '#' && noTriple k && !afterBreak k true

/-- a value written after `key:` : no '#' following a line break (directly or through ':' ';' '\\' only), no "///" -/
def SafeValue (v : Str) : Bool := !hashAfterBreak v false && noTriple v

/-- a value written right after a line break (SM note data, SM extra chart components): in addition no '#' at its
very start (directly or through ':' ';' '\\' only) -/
def SafeValueNl (v : Str) : Bool := !hashAfterBreak v true && noTriple v

def SafeItem (kv : Str × Option Str) : Bool :=
  SafeKey kv.1 && match kv.2 with | none => true | some v => SafeValue v

theorem SafeValue_of_Nl (v : Str) (h : SafeValueNl v = true) : SafeValue v = true := by
  simp only [SafeValueNl, SafeValue, Bool.and_eq_true, Bool.not_eq_true'] at h ⊢
  exact ⟨hashAfterBreak_mono v false h.1, h.2⟩

/-- a sufficient, purely character-level condition for `SafeKey`: no '#', no '/', no line break, and some character
other than `\ : ;` -/
theorem afterBreak_of_no_break (k : Str) (b : Bool) (h : ∀ c ∈ k, isBreak c = false) :
    afterBreak k b = (b && k.all transparent) := by
  induction k generalizing b with
  | nil => simp [afterBreak]
  | cons c k ih =>
    have ih' := fun b => ih b (fun d hd => h d (List.mem_cons_of_mem _ hd))
    simp only [afterBreak, List.all_cons]
    by_cases ht : transparent c = true
    · simp only [ht, if_true, ih', Bool.true_and]
    · simp only [ht, Bool.false_eq_true, if_false, ih', h c List.mem_cons_self, Bool.false_and, Bool.and_false]

theorem SafeKey_of_plain (k : Str) (h1 : k.contains '#' = false) (h2 : k.contains '/' = false)
    (h3 : ∀ c ∈ k, isBreak c = false) (h4 : ∃ c ∈ k, transparent c = false) : SafeKey k = true := by
  simp only [SafeKey, Bool.and_eq_true, Bool.not_eq_true']
  refine ⟨⟨h1, noTriple_of_no_slash k h2⟩, ?_⟩
  rw [afterBreak_of_no_break k true h3, Bool.true_and]
  obtain ⟨c, hc, ht⟩ := h4
  rw [List.all_eq_false]
  exact ⟨c, hc, by simp [ht]⟩

theorem SafeValue_of_plain (v : Str) (h1 : v.contains '#' = false) (h2 : noTriple v = true) : SafeValue v = true := by
  simp only [SafeValue, Bool.and_eq_true, Bool.not_eq_true']
  exact ⟨hashAfterBreak_of_no_hash v false h1, h2⟩

/-- the per-parameter part of `safeParams` with the conservative start bit -/
def goodParam (p : Param) : Bool :=
  !(p.key.contains '#') && p.comps.all (fun c => !containsSub c ['/', '/', '/']) && (scanComps p.comps true).isSome

theorem safeParams_true_of_good (ps : List Param) (h : ∀ p ∈ ps, goodParam p = true) : safeParams ps true = true := by
  induction ps with
  | nil => rfl
  | cons p ps ih =>
    have hp := h p List.mem_cons_self
    simp only [goodParam, Bool.and_eq_true] at hp
    simp only [safeParams, Bool.and_eq_true]
    refine ⟨hp.1, ?_⟩
    cases hs : scanComps p.comps true with
    | none => rw [hs] at hp; simp at hp
    | some x => exact ih (fun q hq => h q (List.mem_cons_of_mem _ hq))

theorem safeDoc_of_good (is : List Item) (hne : ∀ p ∈ paramsOf is, p.comps ≠ [])
    (h : ∀ p ∈ paramsOf is, goodParam p = true) : safeDoc is = true := by
  simp only [safeDoc, Bool.and_eq_true, List.all_eq_true, Bool.not_eq_true', List.isEmpty_eq_false_iff]
  exact ⟨hne, safeParams_mono _ true _ (fun _ => rfl) (safeParams_true_of_good _ h)⟩

theorem valueParam_comps_ne (k : Str) (v : Option Str) : (valueParam k v).comps ≠ [] := by
  unfold valueParam
  cases v with
  | none => simp
  | some v => dsimp only; split <;> simp

/-- the parameter of a safe item is good -/
theorem goodParam_itemParam (kv : Str × Option Str) (h : SafeItem kv = true) : goodParam (itemParam kv) = true := by
  obtain ⟨k, v⟩ := kv
  simp only [SafeItem, SafeKey, Bool.and_eq_true, Bool.not_eq_true'] at h
  obtain ⟨⟨⟨hk1, hk2⟩, hk3⟩, hv⟩ := h
  have hkh : ∀ b, hashAfterBreak k b = false := fun b => hashAfterBreak_of_no_hash k b hk1
  have hkb : ∀ b, afterBreak k b = false := by
    intro b; cases b with
    | true => exact hk3
    | false =>
      -- monotone in the bit
      have : ∀ (x : Str), afterBreak x true = false → afterBreak x false = false := by
        intro x
        induction x with
        | nil => intro h; cases h
        | cons c x ih =>
          simp only [afterBreak]
          split
          · exact ih
          · exact id
      exact this k hk3
  unfold goodParam itemParam
  rw [valueParam_key]
  simp only [Bool.and_eq_true, Bool.not_eq_true', List.all_eq_true]
  refine ⟨⟨hk1, ?_⟩, ?_⟩
  · intro c hc
    have hnt : noTriple c = true := by
      cases v with
      | none =>
        simp only [valueParam, List.mem_singleton] at hc
        subst hc; exact hk2
      | some v =>
        simp only [SafeValue, Bool.and_eq_true, Bool.not_eq_true'] at hv
        unfold valueParam at hc
        by_cases hm : isMulti k = true
        · simp only [hm, if_true, List.mem_cons] at hc
          rcases hc with rfl | hc
          · exact hk2
          · exact noTriple_splitOn ':' v hv.2 c hc
        · simp only [hm, Bool.false_eq_true, if_false, List.mem_cons, List.not_mem_nil, or_false] at hc
          rcases hc with rfl | rfl
          · exact hk2
          · exact hv.2
    simpa [noTriple] using hnt
  · rw [scanComps_eq, joined_valueParam]
    cases v with
    | none => simp only [hkh true]; rfl
    | some v =>
      simp only [SafeValue, Bool.and_eq_true, Bool.not_eq_true'] at hv
      have : hashAfterBreak (k ++ ':' :: v) true = false := by
        rw [hashAfterBreak_append, hkh true, hkb true]
        simp [hashAfterBreak, transparent, hv.1]
      simp only [this]; rfl

/-! ### the SM chart parameter -/

/-- every component is safe even right after a line break: the scan succeeds from any bit -/
theorem scanComps_isSome_of_all (cs : List Str) (h : ∀ c ∈ cs, hashAfterBreak c true = false) (b : Bool) :
    (scanComps cs b).isSome = true := by
  induction cs generalizing b with
  | nil => rfl
  | cons c cs ih =>
    rw [scanComps, scanComp_eq, hashAfterBreak_mono c b (h c List.mem_cons_self)]
    simp only [Bool.false_eq_true, if_false, Option.bind_some]
    exact ih (fun d hd => h d (List.mem_cons_of_mem _ hd)) _

theorem hashAfterBreak_smIndent (a : Str) (b : Bool) : hashAfterBreak (smIndent ++ a) b = hashAfterBreak a false := by
  rw [hashAfterBreak_append]
  cases b <;> simp [show hashAfterBreak smIndent true = false from by decide,
    show hashAfterBreak smIndent false = false from by decide,
    show afterBreak smIndent true = false from by decide,
    show afterBreak smIndent false = false from by decide]

theorem hashAfterBreak_nl_nl (a : Str) (b : Bool) : hashAfterBreak (nl ++ a ++ nl) b = hashAfterBreak a true := by
  rw [hashAfterBreak_append, hashAfterBreak_append]
  have h1 : ∀ b', hashAfterBreak nl b' = false := by intro b'; cases b' <;> decide
  have h2 : ∀ b', afterBreak nl b' = true := by intro b'; cases b' <;> decide
  simp [h1, h2]

/-- the content-level condition on an SM chart: the five header fields are safe values, the note data and every
extra component are safe right after a line break (absent fields print as "None", which is safe) -/
def SafeSMChart (c : SMChart) : Bool :=
  (T.smChartProperties.all fun k =>
    match c.fields.get? k with
    | some (some v) => if k = kNOTES then SafeValueNl v else SafeValue v
    | _ => true) &&
  (c.extradata.getD []).all SafeValueNl

theorem safe_fmtAttr (x : Option (Option Str))
    (h : (match x with | some (some v) => SafeValue v | _ => true) = true) : SafeValue (fmtAttr x) = true := by
  cases x with
  | none => decide
  | some o =>
    cases o with
    | none => decide
    | some v => exact h

theorem safeNl_fmtAttr (x : Option (Option Str))
    (h : (match x with | some (some v) => SafeValueNl v | _ => true) = true) : SafeValueNl (fmtAttr x) = true := by
  cases x with
  | none => decide
  | some o =>
    cases o with
    | none => decide
    | some v => exact h

theorem goodParam_smChartParam (c : SMChart) (h : SafeSMChart c = true) : goodParam (smChartParam c) = true := by
  simp only [SafeSMChart, Bool.and_eq_true, List.all_eq_true] at h
  obtain ⟨hf, he⟩ := h
  have f1 := safe_fmtAttr _ (by simpa [kNOTES] using hf ['S','T','E','P','S','T','Y','P','E'] (by decide))
  have f2 := safe_fmtAttr _ (by simpa [kNOTES] using hf ['D','E','S','C','R','I','P','T','I','O','N'] (by decide))
  have f3 := safe_fmtAttr _ (by simpa [kNOTES] using hf ['D','I','F','F','I','C','U','L','T','Y'] (by decide))
  have f4 := safe_fmtAttr _ (by simpa [kNOTES] using hf ['M','E','T','E','R'] (by decide))
  have f5 := safe_fmtAttr _ (by simpa [kNOTES] using hf ['R','A','D','A','R','V','A','L','U','E','S'] (by decide))
  have f6 := safeNl_fmtAttr _ (by simpa [kNOTES] using hf ['N','O','T','E','S'] (by decide))
  simp only [SafeValue, SafeValueNl, Bool.and_eq_true, Bool.not_eq_true'] at f1 f2 f3 f4 f5 f6 he
  have hin : smIndent.contains '/' = false := by decide
  have hnl : nl.contains '/' = false := by decide
  have hall : ∀ x ∈ (smChartParam c).comps, hashAfterBreak x true = false ∧ noTriple x = true := by
    intro x hx
    simp only [smChartParam, List.cons_append, List.nil_append, List.mem_cons] at hx
    rcases hx with rfl | rfl | rfl | rfl | rfl | rfl | rfl | hx
    · exact ⟨by decide, by decide⟩
    · exact ⟨by rw [hashAfterBreak_smIndent]; exact f1.1, by rw [noTriple_append_left _ _ hin]; exact f1.2⟩
    · exact ⟨by rw [hashAfterBreak_smIndent]; exact f2.1, by rw [noTriple_append_left _ _ hin]; exact f2.2⟩
    · exact ⟨by rw [hashAfterBreak_smIndent]; exact f3.1, by rw [noTriple_append_left _ _ hin]; exact f3.2⟩
    · exact ⟨by rw [hashAfterBreak_smIndent]; exact f4.1, by rw [noTriple_append_left _ _ hin]; exact f4.2⟩
    · exact ⟨by rw [hashAfterBreak_smIndent]; exact f5.1, by rw [noTriple_append_left _ _ hin]; exact f5.2⟩
    · exact ⟨by rw [hashAfterBreak_nl_nl]; exact f6.1,
        by rw [noTriple_append_right _ _ hnl, noTriple_append_left _ _ hnl]; exact f6.2⟩
    · exact he x hx
  unfold goodParam
  simp only [Bool.and_eq_true, Bool.not_eq_true', List.all_eq_true]
  refine ⟨⟨by rw [smChartParam_key]; decide, ?_⟩, scanComps_isSome_of_all _ (fun x hx => (hall x hx).1) true⟩
  intro x hx
  simpa [noTriple] using (hall x hx).2

theorem smChartParam_comps_ne (c : SMChart) : (smChartParam c).comps ≠ [] := by
  simp [smChartParam]

end Simfile.O
