/-
More lemmas for C10 (round 2): `group_notes` cannot fail when neither orphan policy is RAISE — for EVERY
stream (duplicates, any order, any players). Invariant of the join loop: every held head is buffered as
a plain note, is stored under its own column, and the held columns are pairwise distinct; hence
`buffer.index(head)`, `buffer.remove(head)` and `buffer[0]` (the three places that could raise an
internal error) always succeed.
-/
import Simfile.Lemmas.GroupJoinMain
namespace Simfile.UngroupPos
open Simfile Simfile.Spec Simfile.Join

theorem foldlM_inv {σ α ε} (I : σ → Prop) (f : σ → α → Except ε σ)
    (hstep : ∀ s x, I s → ∃ s', f s x = .ok s' ∧ I s') :
    ∀ (l : List α) (s : σ), I s → ∃ s', l.foldlM f s = .ok s' ∧ I s' := by
  intro l
  induction l with
  | nil => intro s h; exact ⟨s, rfl, h⟩
  | cons x l ih =>
    intro s h
    obtain ⟨s1, h1, h2⟩ := hstep s x h
    simp only [List.foldlM_cons, h1, bind, Except.bind]
    exact ih s1 h2

theorem attachTail_ok (h : Note) (tb : Rat) : ∀ buf : List GNote, GNote.plain h ∈ buf →
    ∃ b, attachTail buf h tb = some b ∧ ∀ g ∈ buf, g ≠ .plain h → g ∈ b := by
  intro buf
  induction buf with
  | nil => intro hm; simp at hm
  | cons g rest ih =>
    intro hm
    by_cases hg : g = .plain h
    · refine ⟨.withTail h tb :: rest, by simp [attachTail, hg], ?_⟩
      intro g' hg' hne
      rcases List.mem_cons.mp hg' with rfl | h'
      · exact absurd hg hne
      · simp [h']
    · have hm' : GNote.plain h ∈ rest := by
        rcases List.mem_cons.mp hm with e | e
        · exact absurd e.symm hg
        · exact e
      obtain ⟨b, hb, hall⟩ := ih hm'
      refine ⟨g :: b, by simp [attachTail, hg, hb], ?_⟩
      intro g' hg' hne
      rcases List.mem_cons.mp hg' with rfl | h'
      · simp
      · simp [hall g' h' hne]

theorem removeFirst_ok (h : Note) : ∀ buf : List GNote, GNote.plain h ∈ buf →
    ∃ b, removeFirst buf h = some b ∧ ∀ g ∈ buf, g ≠ .plain h → g ∈ b := by
  intro buf
  induction buf with
  | nil => intro hm; simp at hm
  | cons g rest ih =>
    intro hm
    by_cases hg : g = .plain h
    · refine ⟨rest, by simp [removeFirst, hg], ?_⟩
      intro g' hg' hne
      rcases List.mem_cons.mp hg' with rfl | h'
      · exact absurd hg hne
      · exact h'
    · have hm' : GNote.plain h ∈ rest := by
        rcases List.mem_cons.mp hm with e | e
        · exact absurd e.symm hg
        · exact e
      obtain ⟨b, hb, hall⟩ := ih hm'
      refine ⟨g :: b, by simp [removeFirst, hg, hb], ?_⟩
      intro g' hg' hne
      rcases List.mem_cons.mp hg' with rfl | h'
      · simp
      · simp [hall g' h' hne]

theorem popUntilHeld_ok (held : List (Nat × Note)) : ∀ buf : List GNote,
    (∃ cn ∈ held, GNote.plain cn.2 ∈ buf) →
    ∃ popped remaining, popUntilHeld held buf = some (popped, remaining) ∧
      ∀ cn ∈ held, GNote.plain cn.2 ∈ buf → GNote.plain cn.2 ∈ remaining := by
  intro buf
  induction buf with
  | nil => rintro ⟨cn, _, h⟩; simp at h
  | cons g rest ih =>
    rintro ⟨cn0, hcn0, hm0⟩
    by_cases hg : held.any (fun cn => decide (GNote.plain cn.2 = g)) = true
    · exact ⟨[], g :: rest, by simp only [popUntilHeld, hg, if_true], fun cn _ h => h⟩
    · have hnot : ∀ cn ∈ held, GNote.plain cn.2 ≠ g := by
        intro cn hcn e
        exact hg (List.any_eq_true.mpr ⟨cn, hcn, by simp [e]⟩)
      have hrest : ∀ cn ∈ held, GNote.plain cn.2 ∈ g :: rest → GNote.plain cn.2 ∈ rest := by
        intro cn hcn hm
        rcases List.mem_cons.mp hm with e | e
        · exact absurd e (hnot cn hcn)
        · exact e
      obtain ⟨popped, remaining, hp, hall⟩ := ih ⟨cn0, hcn0, hrest cn0 hcn0 hm0⟩
      refine ⟨g :: popped, remaining, ?_, fun cn hcn hm => hall cn hcn (hrest cn hcn hm)⟩
      simp only [popUntilHeld, hg, hp, Option.map]
      rfl

/-- `join_head_to_tail` succeeds when the policies are not RAISE and the head is buffered; everything
else in the buffer stays there -/
theorem jht_ok (o : GOpts) (hh : o.orphanHead ≠ .raise) (ht : o.orphanTail ≠ .raise) (buffer : List GNote)
    (head tail : Option Note) (hb : ∀ h, head = some h → GNote.plain h ∈ buffer) :
    ∃ buf, joinHeadToTail o buffer head tail = .ok buf ∧
      ∀ g ∈ buffer, (∀ h, head = some h → g ≠ .plain h) → g ∈ buf := by
  cases head with
  | none =>
    cases hot : o.orphanTail with
    | raise => exact absurd hot ht
    | keep =>
      cases tail with
      | none => exact ⟨buffer, by simp [joinHeadToTail, hot], fun g hg _ => hg⟩
      | some t => exact ⟨buffer ++ [.plain t], by simp [joinHeadToTail, hot], fun g hg _ => by simp [hg]⟩
    | drop => exact ⟨buffer, by simp [joinHeadToTail, hot], fun g hg _ => hg⟩
  | some h =>
    have hm := hb h rfl
    have keepCase : ∀ b : List GNote, (∀ g ∈ buffer, g ≠ .plain h → g ∈ b) →
        ∀ g ∈ buffer, (∀ h', some h = some h' → g ≠ .plain h') → g ∈ b :=
      fun b hall g hg hne => hall g hg (hne h rfl)
    cases tail with
    | none =>
      cases hoh : o.orphanHead with
      | raise => exact absurd hoh hh
      | keep => exact ⟨buffer, jht_end_keep o buffer h hoh, fun g hg _ => hg⟩
      | drop =>
        obtain ⟨b, hb', hall⟩ := removeFirst_ok h buffer hm
        exact ⟨b, jht_end_drop o buffer b h hoh hb', keepCase b hall⟩
    | some t =>
      by_cases htt : t.ntype = cTAIL
      · obtain ⟨b, hb', hall⟩ := attachTail_ok h t.beat buffer hm
        exact ⟨b, jht_tail o buffer b h t htt hb', keepCase b hall⟩
      · cases hoh : o.orphanHead with
        | raise => exact absurd hoh hh
        | keep => exact ⟨buffer, jht_nontail_keep o buffer h t htt hoh, fun g hg _ => hg⟩
        | drop =>
          obtain ⟨b, hb', hall⟩ := removeFirst_ok h buffer hm
          exact ⟨b, jht_nontail_drop o buffer b h t htt hoh hb', keepCase b hall⟩

/-- the loop invariant -/
structure JInv (s : JState) : Prop where
  buffered : ∀ cn ∈ s.held, GNote.plain cn.2 ∈ s.buffer
  col : ∀ cn ∈ s.held, cn.2.column = cn.1
  distinct : s.held.Pairwise fun a b => a.1 ≠ b.1

theorem heldPop_fst {held : List (Nat × Note)} {c : Nat} {h : Note} (hp : (heldPop held c).1 = some h) :
    (c, h) ∈ held := by
  simp only [heldPop, Option.map_eq_some_iff] at hp
  obtain ⟨cn, hf, rfl⟩ := hp
  have h1 := List.mem_of_find?_eq_some hf
  have h2 := List.find?_some hf
  simp only [decide_eq_true_eq] at h2
  rcases cn with ⟨c', n'⟩
  simp only at h2
  subst h2
  exact h1

theorem flushUntilHeld_ok (s : JState) (hi : JInv s) : ∃ s', s.flushUntilHeld = some s' ∧ JInv s' := by
  unfold JState.flushUntilHeld
  by_cases he : s.held.isEmpty = true
  · simp only [he, if_true]
    refine ⟨s.flush, rfl, ?_⟩
    have : s.held = [] := List.isEmpty_iff.mp he
    exact ⟨by simp [JState.flush, this], by simp [JState.flush, this], by simp [JState.flush, this]⟩
  · simp only [he]
    have hne : s.held ≠ [] := fun e => he (by simp [e])
    obtain ⟨cn0, hcn0⟩ := List.exists_mem_of_ne_nil _ hne
    obtain ⟨popped, remaining, hp, hall⟩ := popUntilHeld_ok s.held s.buffer ⟨cn0, hcn0, hi.buffered cn0 hcn0⟩
    refine ⟨{ s with out := s.out ++ popped, buffer := remaining }, by simp [hp], ?_⟩
    exact ⟨fun cn hcn => hall cn hcn (hi.buffered cn hcn), hi.col, hi.distinct⟩

theorem closeStep_ok (o : GOpts) (hh : o.orphanHead ≠ .raise) (ht : o.orphanTail ≠ .raise) (s : JState) (n : Note)
    (hi : JInv s) : ∃ s', closeStep o s n = .ok s' ∧ JInv s' := by
  unfold closeStep
  split
  · have hbuf : ∀ h, (heldPop s.held n.column).1 = some h → GNote.plain h ∈ s.buffer :=
      fun h hp => hi.buffered _ (heldPop_fst hp)
    obtain ⟨buf, hj, hall⟩ := jht_ok o hh ht s.buffer (heldPop s.held n.column).1 (some n) hbuf
    have hi' : JInv (JState.mk (heldPop s.held n.column).2 buf s.out) := by
      refine ⟨?_, ?_, ?_⟩
      · intro cn hcn
        simp only [heldPop, List.mem_filter, decide_eq_true_eq] at hcn
        apply hall _ (hi.buffered cn hcn.1)
        intro h hp e
        have hmem := heldPop_fst hp
        have h1 := hi.col _ hmem
        have h2 := hi.col cn hcn.1
        simp only [GNote.plain.injEq] at e
        simp only at h1
        rw [e, h1] at h2
        exact hcn.2 h2.symm
      · intro cn hcn
        simp only [heldPop, List.mem_filter] at hcn
        exact hi.col cn hcn.1
      · exact hi.distinct.sublist List.filter_sublist
    obtain ⟨s', hf, hi''⟩ := flushUntilHeld_ok _ hi'
    exact ⟨s', by simp [hj, Except.bind, hf, orInternal], hi''⟩
  · exact ⟨s, rfl, hi⟩

theorem mem_heldSet {c : Nat} {n : Note} : ∀ {held : List (Nat × Note)} {cn : Nat × Note},
    cn ∈ heldSet held c n → cn = (c, n) ∨ cn ∈ held := by
  intro held
  induction held with
  | nil => intro cn h; simp [heldSet] at h; exact Or.inl h
  | cons x rest ih =>
    intro cn h
    rcases x with ⟨c', n'⟩
    simp only [heldSet] at h
    split at h
    · rcases List.mem_cons.mp h with e | e
      · exact Or.inl e
      · exact Or.inr (by simp [e])
    · rcases List.mem_cons.mp h with e | e
      · exact Or.inr (by simp [e])
      · rcases ih e with h1 | h1
        · exact Or.inl h1
        · exact Or.inr (by simp [h1])

theorem heldSet_distinct (c : Nat) (n : Note) : ∀ held : List (Nat × Note),
    held.Pairwise (fun a b => a.1 ≠ b.1) → (heldSet held c n).Pairwise fun a b => a.1 ≠ b.1 := by
  intro held
  induction held with
  | nil => intro _; simp [heldSet]
  | cons x rest ih =>
    intro hp
    rcases x with ⟨c', n'⟩
    have hp' := List.pairwise_cons.mp hp
    simp only [heldSet]
    split
    · rename_i hc
      refine List.pairwise_cons.mpr ⟨?_, hp'.2⟩
      intro y hy
      have := hp'.1 y hy
      simpa [hc] using this
    · rename_i hc
      refine List.pairwise_cons.mpr ⟨?_, ih hp'.2⟩
      intro y hy
      rcases mem_heldSet hy with e | e
      · subst e; exact hc
      · exact hp'.1 y e

theorem heldSet_isEmpty (c : Nat) (n : Note) (held : List (Nat × Note)) : (heldSet held c n).isEmpty = false := by
  cases held with
  | nil => rfl
  | cons x rest =>
    rcases x with ⟨c', n'⟩
    simp only [heldSet]
    split <;> rfl

theorem maybeBuffer_inv (s : JState) (n : Note) (hi : JInv s) : JInv (s.maybeBuffer n) := by
  unfold JState.maybeBuffer
  by_cases he : s.held.isEmpty = true
  · have : s.held = [] := List.isEmpty_iff.mp he
    simp only [he, if_true]
    exact ⟨by simp [JState.flush, this], by simp [JState.flush, this], by simp [JState.flush, this]⟩
  · simp only [he]
    exact ⟨fun cn hcn => by simp [hi.buffered cn hcn], hi.col, hi.distinct⟩

theorem pushStep_inv (s : JState) (n : Note) (hi : JInv s) : JInv (pushStep s n) := by
  unfold pushStep
  by_cases hh : isHead n.ntype = true
  · have hnt : n.ntype ≠ cTAIL := fun e => by rw [not_isHead_of_tail e] at hh; cases hh
    simp only [hh, if_true, ne_eq, hnt, not_false_eq_true]
    unfold JState.maybeBuffer
    simp only [heldSet_isEmpty, Bool.false_eq_true, if_false]
    refine ⟨?_, ?_, heldSet_distinct _ _ _ hi.distinct⟩
    · intro cn hcn
      rcases mem_heldSet hcn with e | e
      · subst e; simp
      · simp [hi.buffered cn e]
    · intro cn hcn
      rcases mem_heldSet hcn with e | e
      · subst e; rfl
      · exact hi.col cn e
  · simp only [hh, Bool.false_eq_true, if_false]
    split
    · exact maybeBuffer_inv s n hi
    · exact hi

theorem joinStep_ok (o : GOpts) (hh : o.orphanHead ≠ .raise) (ht : o.orphanTail ≠ .raise) (s : JState) (n : Note)
    (hi : JInv s) : ∃ s', joinStep o s n = .ok s' ∧ JInv s' := by
  obtain ⟨s1, h1, hi1⟩ := closeStep_ok o hh ht s n hi
  exact ⟨pushStep s1 n, by rw [joinStep_eq, h1]; rfl, pushStep_inv s1 n hi1⟩

/-- the final clean-up of the heads that were never closed -/
theorem cleanup_ok (o : GOpts) (hh : o.orphanHead ≠ .raise) (ht : o.orphanTail ≠ .raise) :
    ∀ (held : List (Nat × Note)) (buf : List GNote), (∀ cn ∈ held, GNote.plain cn.2 ∈ buf) →
      held.Pairwise (fun a b => a.2 ≠ b.2) →
      ∃ b, held.foldlM (fun buf cn => joinHeadToTail o buf (some cn.2) none) buf = .ok b := by
  intro held
  induction held with
  | nil => intro buf _ _; exact ⟨buf, rfl⟩
  | cons cn rest ih =>
    intro buf hb hp
    have hp' := List.pairwise_cons.mp hp
    obtain ⟨b1, h1, hall⟩ := jht_ok o hh ht buf (some cn.2) none (fun h e => by
      cases e; exact hb cn (by simp))
    simp only [List.foldlM_cons, h1, bind, Except.bind]
    apply ih b1 _ hp'.2
    intro cn' hcn'
    apply hall _ (hb cn' (by simp [hcn']))
    intro h e e'
    cases e
    simp only [GNote.plain.injEq] at e'
    exact hp'.1 cn' hcn' e'.symm

theorem joinHeadsToTails_ok (o : GOpts) (hh : o.orphanHead ≠ .raise) (ht : o.orphanTail ≠ .raise)
    (notes : List Note) : ∃ S, joinHeadsToTails o notes = .ok S := by
  unfold joinHeadsToTails
  obtain ⟨s, hs, hi⟩ := foldlM_inv JInv (joinStep o) (fun s x h => joinStep_ok o hh ht s x h) notes
    { held := [], buffer := [], out := [] } ⟨by simp, by simp, by simp⟩
  have hd : s.held.Pairwise fun a b => a.2 ≠ b.2 := by
    refine (List.Pairwise.and_mem.mp hi.distinct).imp ?_
    rintro a b ⟨ha, hb, hne⟩ e
    apply hne
    rw [← hi.col a ha, ← hi.col b hb, e]
  obtain ⟨b, hb⟩ := cleanup_ok o hh ht s.held s.buffer hi.buffered hd
  exact ⟨s.out ++ b, by simp only [hs, hb, bind, Except.bind, pure, Except.pure]⟩

theorem groupNotes_ok (o : GOpts) (hh : o.orphanHead ≠ .raise) (ht : o.orphanTail ≠ .raise) (notes : List Note) :
    ∃ g, groupNotes o notes = .ok g := by
  unfold groupNotes
  cases hj : o.join with
  | false => exact ⟨_, rfl⟩
  | true =>
    obtain ⟨S, hS⟩ := joinHeadsToTails_ok o hh ht (notes.filter fun n => o.incl.contains n.ntype)
    refine ⟨(groupRuns GNote.beat S).flatMap fun (_, row) => addRow o.sameBeat row, ?_⟩
    simp only [if_true, hS, bind, Except.bind, pure, Except.pure]

end Simfile.UngroupPos
