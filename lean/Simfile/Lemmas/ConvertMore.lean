/-
`_copy_properties` and `_convert` in closed form: the outcome is decided by the FIRST item with a problem
(an offending property, or — for an SM chart target — a copied key outside the six SM chart fields);
without a problem the result is `Dict.set` folded over the copied items. Lemmas behind C17More.
-/
import Simfile.Lemmas.Convert
import Simfile.Lemmas.ConvertBack
namespace Simfile.Cv
open Simfile Simfile.O Simfile.V

/-! ### the policy, from the tables only -/

/-- the property is copied: it is not listed as invalid for the target, or the behaviour of its kind is COPY_ANYWAY -/
def copied (invalid : List (Nat × List Str)) (beh : List (Nat × Nat)) (k : Str) : Bool :=
  match listedIn invalid k with
  | none => true
  | some e => behaviourOf beh e.1 == bCOPY

/-- the property is offending: it is listed, and the behaviour of its kind is neither COPY_ANYWAY nor IGNORE, nor
ERROR_UNLESS_DEFAULT with a stripped value (the empty string for a key-only property) equal to the default -/
def offending (invalid : List (Nat × List Str)) (beh : List (Nat × Nat)) (kv : Str × Option Str) : Bool :=
  match listedIn invalid kv.1 with
  | none => false
  | some e =>
    behaviourOf beh e.1 != bCOPY && behaviourOf beh e.1 != bIGNORE &&
      (behaviourOf beh e.1 != bUNLESS || strip (kv.2.getD []) != defaultProperty kv.1)

theorem shouldCopy_cases (k : Str) (v : Option Str) (invalid : List (Nat × List Str)) (beh : List (Nat × Nat)) :
    shouldCopy k v invalid beh =
      if offending invalid beh (k, v) then .error (.invalidProperty k) else .ok (copied invalid beh k) := by
  obtain ⟨c1, c2, c3, c4⟩ := beh_codes
  rw [shouldCopy_eq]
  unfold offending copied
  cases listedIn invalid k with
  | none => rfl
  | some e =>
    simp only []
    by_cases h1 : behaviourOf beh e.1 = bCOPY
    · simp [h1]
    · by_cases h2 : behaviourOf beh e.1 = bIGNORE
      · simp [h2, c1, c2]
      · by_cases h3 : behaviourOf beh e.1 = bUNLESS
        · by_cases h4 : strip (v.getD []) = defaultProperty k
          · simp [h3, h4, c1, c2, c3]
          · simp [h3, h4, c1, c2, c3]
        · simp [h1, h2, h3]

theorem offending_not_copied (invalid : List (Nat × List Str)) (beh : List (Nat × Nat)) (kv : Str × Option Str)
    (h : offending invalid beh kv = true) : copied invalid beh kv.1 = false := by
  unfold offending at h
  unfold copied
  cases hl : listedIn invalid kv.1 with
  | none => rw [hl] at h; cases h
  | some e =>
    rw [hl] at h
    simp only [Bool.and_eq_true, bne_iff_ne] at h
    simpa using h.1.1

theorem accepted_eq (invalid : List (Nat × List Str)) (beh : List (Nat × Nat)) (kv : Str × Option Str) :
    accepted invalid beh kv = (!offending invalid beh kv && copied invalid beh kv.1) := by
  unfold accepted
  rw [shouldCopy_cases]
  cases ho : offending invalid beh kv with
  | true => rfl
  | false => cases copied invalid beh kv.1 <;> rfl

/-- the problem an item causes, if any: `chart` says the target is an SM chart (only the six keys can be written) -/
def itemProblem (chart : Bool) (invalid : List (Nat × List Str)) (beh : List (Nat × Nat))
    (kv : Str × Option Str) : Option CErr :=
  if offending invalid beh kv then some (.invalidProperty kv.1)
  else if chart && copied invalid beh kv.1 && !T.smChartProperties.contains kv.1 then some .keyError
  else none

theorem copyStep_eq (sm : Bool) (invalid : List (Nat × List Str)) (beh : List (Nat × Nat)) (out : Dict)
    (kv : Str × Option Str) :
    copyStep sm invalid beh out kv =
      match itemProblem sm invalid beh kv with
      | some e => .error e
      | none => .ok (if copied invalid beh kv.1 then out.set kv.1 kv.2 else out) := by
  unfold copyStep itemProblem
  rw [shouldCopy_cases]
  cases ho : offending invalid beh (kv.1, kv.2) with
  | true => simp
  | false =>
    simp only [Bool.false_eq_true, if_false]
    cases hc : copied invalid beh kv.1 with
    | false => simp
    | true =>
      unfold setItem
      cases sm <;> simp
      split_ifs <;> rfl

/-- `_copy_properties` in closed form -/
theorem copyProperties_eq (sm : Bool) (source output : Dict) (invalid : List (Nat × List Str))
    (beh : List (Nat × Nat)) :
    copyProperties sm source output invalid beh =
      match source.findSome? (itemProblem sm invalid beh) with
      | some e => .error e
      | none => .ok (setAll output (source.filter fun kv => copied invalid beh kv.1)) := by
  induction source generalizing output with
  | nil => rfl
  | cons kv rest ih =>
    rw [copyProperties_cons, copyStep_eq, List.findSome?_cons]
    cases hp : itemProblem sm invalid beh kv with
    | some e => rfl
    | none =>
      simp only []
      rw [ih, List.filter_cons]
      cases copied invalid beh kv.1 <;> rfl

/-! ### `mapM` in `Except`, closed form -/

/-- the error if there is one, else the value -/
def failWith {ε β} (o : Option ε) (b : β) : Except ε β :=
  match o with
  | some e => .error e
  | none => .ok b

theorem mapM_eq_findSome {α β ε} (f : α → Except ε β) (err : α → Option ε) (g : α → β)
    (h : ∀ a, f a = failWith (err a) (g a)) (l : List α) :
    l.mapM f = failWith (l.findSome? err) (l.map g) := by
  induction l with
  | nil => rfl
  | cons a l ih =>
    rw [mapM_cons_except, h a, List.findSome?_cons, ih]
    cases err a with
    | some e => rfl
    | none =>
      simp only [failWith]
      cases l.findSome? err <;> rfl

/-! ### SSC → SM in closed form -/

/-- the chart made of one source chart -/
def chartOut (ct : Option (Dict × Option (List Str))) (beh : List (Nat × Nat)) (c : Dict × Option (List Str)) :
    Dict × Option (List Str) :=
  (setAll (chartStartOf false ct).1 (c.1.filter fun kv => copied T.invalidSMChart beh kv.1), (chartStartOf false ct).2)

/-- the first problem of a source, in the order: simfile properties, then the charts in sequence, each chart's
properties in order -/
def firstProblem (src : AnySimfile) (beh : List (Nat × Nat)) : Option CErr :=
  (src.props.findSome? (itemProblem false T.invalidSMSimfile beh)).or
    (src.charts.findSome? fun c => c.1.findSome? (itemProblem true T.invalidSMChart beh))

theorem convChart_back_eq (ct : Option (Dict × Option (List Str))) (beh : List (Nat × Nat))
    (c : Dict × Option (List Str)) :
    convChart false ct beh c =
      failWith (c.1.findSome? (itemProblem true T.invalidSMChart beh)) (chartOut ct beh c) := by
  rw [convChart_eq]
  show (match copyProperties true c.1 (chartStartOf false ct).1 T.invalidSMChart beh with
    | .error e => Except.error e
    | .ok d => Except.ok (d, (chartStartOf false ct).2)) = _
  rw [copyProperties_eq]
  cases c.1.findSome? (itemProblem true T.invalidSMChart beh) <;> rfl

/-- `_convert` to SM once `_convert_warps` has passed -/
theorem convert_back_eq (src : AnySimfile) (st : Option AnySimfile) (ct : Option (Dict × Option (List Str)))
    (beh : List (Nat × Nat)) (hw : convertWarps src = .ok ()) :
    convert src false st ct beh =
      match firstProblem src beh with
      | some e => .error e
      | none => .ok { isSSC := false,
                      props := setAll (startOf false st).props
                        (src.props.filter fun kv => copied T.invalidSMSimfile beh kv.1),
                      charts := (startOf false st).charts ++ src.charts.map (chartOut ct beh) } := by
  rw [convert_eq, hw]
  show (match copyProperties false src.props (startOf false st).props T.invalidSMSimfile beh with
    | .error e => Except.error e
    | .ok props => match src.charts.mapM (convChart false ct beh) with
      | .error e => .error e
      | .ok charts => (.ok { isSSC := false, props := props, charts := (startOf false st).charts ++ charts } :
          Except CErr AnySimfile)) = _
  rw [copyProperties_eq, mapM_eq_findSome (convChart false ct beh)
    (fun c => c.1.findSome? (itemProblem true T.invalidSMChart beh)) (chartOut ct beh) (convChart_back_eq ct beh)]
  unfold firstProblem
  cases src.props.findSome? (itemProblem false T.invalidSMSimfile beh) with
  | some e => rfl
  | none =>
    simp only [Option.none_or]
    cases src.charts.findSome? fun c => c.1.findSome? (itemProblem true T.invalidSMChart beh) <;> rfl

/-- the WARPS string of an SSC source is non-empty -/
def hasWarps (src : AnySimfile) : Prop := ∃ x xs, (src.props.get? ['W','A','R','P','S']).join = some (x :: xs)

instance (src : AnySimfile) : Decidable (hasWarps src) :=
  match h : (src.props.get? ['W','A','R','P','S']).join with
  | some (x :: xs) => isTrue ⟨x, xs, h⟩
  | some [] => isFalse (by rintro ⟨x, xs, h'⟩; rw [h] at h'; cases h')
  | none => isFalse (by rintro ⟨x, xs, h'⟩; rw [h] at h'; cases h')

theorem convertWarps_ssc_iff (src : AnySimfile) (h : src.isSSC = true) :
    (hasWarps src → convertWarps src = .error .notImplemented) ∧ (¬ hasWarps src → convertWarps src = .ok ()) := by
  rw [convertWarps_ssc src h]
  unfold hasWarps
  constructor
  · rintro ⟨x, xs, hx⟩; rw [hx]
  · intro hn
    split
    · rename_i x xs hx; exact absurd ⟨_, _, hx⟩ hn
    · rfl


/-- `_convert_warps` fails only with NotImplementedError or ValueError -/
theorem convertWarps_error_kind (src : AnySimfile) (e : CErr) (h : convertWarps src = .error e) :
    e = .notImplemented ∨ e = .valueError := by
  unfold convertWarps at h
  split at h
  · split at h
    · split_ifs at h
      · cases h; exact Or.inr rfl
      · cases h; exact Or.inl rfl
    · cases h; exact Or.inr rfl
  · split at h
    · cases h; exact Or.inl rfl
    · cases h

/-- when `_convert` passes the warps test or not -/
theorem convertWarps_of_convert (src : AnySimfile) (toSSC : Bool) (st : Option AnySimfile)
    (ct : Option (Dict × Option (List Str))) (beh : List (Nat × Nat)) (r : Except CErr AnySimfile)
    (h : convert src toSSC st ct beh = r) (hr : r ≠ .error .notImplemented ∧ r ≠ .error .valueError) :
    convertWarps src = .ok () := by
  rw [convert_eq] at h
  cases hw : convertWarps src with
  | error e =>
    rw [hw] at h
    rcases convertWarps_error_kind src e hw with rfl | rfl
    · exact absurd h.symm hr.1
    · exact absurd h.symm hr.2
  | ok u => rfl

/-- every outcome of `_convert` on an SSC source, target SM -/
theorem convert_ssc_outcome (src : AnySimfile) (st : Option AnySimfile) (ct : Option (Dict × Option (List Str)))
    (beh : List (Nat × Nat)) (h : src.isSSC = true) :
    convert src false st ct beh =
      if hasWarps src then .error .notImplemented
      else match firstProblem src beh with
        | some e => .error e
        | none => .ok { isSSC := false,
                        props := setAll (startOf false st).props
                          (src.props.filter fun kv => copied T.invalidSMSimfile beh kv.1),
                        charts := (startOf false st).charts ++ src.charts.map (chartOut ct beh) } := by
  by_cases hw : hasWarps src
  · rw [if_pos hw, convert_eq, (convertWarps_ssc_iff src h).1 hw]
  · rw [if_neg hw, convert_back_eq src st ct beh ((convertWarps_ssc_iff src h).2 hw)]

/-! ### the first problem, as a position -/

theorem itemProblem_cases (chart : Bool) (invalid : List (Nat × List Str)) (beh : List (Nat × Nat))
    (kv : Str × Option Str) (e : CErr) (h : itemProblem chart invalid beh kv = some e) :
    (offending invalid beh kv = true ∧ e = .invalidProperty kv.1) ∨
    (offending invalid beh kv = false ∧ chart = true ∧ copied invalid beh kv.1 = true ∧
      kv.1 ∉ T.smChartProperties ∧ e = .keyError) := by
  unfold itemProblem at h
  split_ifs at h with h1 h2
  · cases h; exact Or.inl ⟨h1, rfl⟩
  · cases h
    simp only [Bool.and_eq_true, Bool.not_eq_true', List.contains_eq_mem, decide_eq_false_iff_not] at h2
    exact Or.inr ⟨by simpa using h1, h2.1.1, h2.1.2, h2.2, rfl⟩

theorem itemProblem_none_iff (chart : Bool) (invalid : List (Nat × List Str)) (beh : List (Nat × Nat))
    (kv : Str × Option Str) :
    itemProblem chart invalid beh kv = none ↔
      offending invalid beh kv = false ∧
        (chart = true → copied invalid beh kv.1 = true → kv.1 ∈ T.smChartProperties) := by
  unfold itemProblem
  cases offending invalid beh kv <;> cases chart <;> cases copied invalid beh kv.1 <;> simp

theorem itemProblem_false_none_iff (invalid : List (Nat × List Str)) (beh : List (Nat × Nat))
    (kv : Str × Option Str) : itemProblem false invalid beh kv = none ↔ offending invalid beh kv = false := by
  rw [itemProblem_none_iff]; simp


theorem itemProblem_eq_invalid_iff (chart : Bool) (invalid : List (Nat × List Str)) (beh : List (Nat × Nat))
    (kv : Str × Option Str) (k : Str) :
    itemProblem chart invalid beh kv = some (.invalidProperty k) ↔ offending invalid beh kv = true ∧ k = kv.1 := by
  constructor
  · intro h
    rcases itemProblem_cases _ _ _ _ _ h with ⟨h1, h2⟩ | ⟨_, _, _, _, h2⟩
    · cases h2; exact ⟨h1, rfl⟩
    · cases h2
  · rintro ⟨h1, rfl⟩
    unfold itemProblem; rw [if_pos h1]

theorem itemProblem_eq_keyError_iff (chart : Bool) (invalid : List (Nat × List Str)) (beh : List (Nat × Nat))
    (kv : Str × Option Str) :
    itemProblem chart invalid beh kv = some .keyError ↔
      offending invalid beh kv = false ∧ chart = true ∧ copied invalid beh kv.1 = true ∧
        kv.1 ∉ T.smChartProperties := by
  constructor
  · intro h
    rcases itemProblem_cases _ _ _ _ _ h with ⟨_, h2⟩ | ⟨h1, h2, h3, h4, _⟩
    · cases h2
    · exact ⟨h1, h2, h3, h4⟩
  · rintro ⟨h1, h2, h3, h4⟩
    unfold itemProblem
    simp [h1, h2, h3, h4]

/-- an item is refused only with `invalidProperty` (its own key) or `keyError` -/
theorem itemProblem_kind (chart : Bool) (invalid : List (Nat × List Str)) (beh : List (Nat × Nat))
    (kv : Str × Option Str) (e : CErr) (h : itemProblem chart invalid beh kv = some e) :
    e = .invalidProperty kv.1 ∨ e = .keyError := by
  rcases itemProblem_cases _ _ _ _ _ h with ⟨_, h2⟩ | ⟨_, _, _, _, h2⟩
  · exact Or.inl h2
  · exact Or.inr h2

/-- where the first problem sits -/
theorem firstProblem_eq_some_iff (src : AnySimfile) (beh : List (Nat × Nat)) (e : CErr) :
    firstProblem src beh = some e ↔
      (∃ l1 a l2, src.props = l1 ++ a :: l2 ∧ itemProblem false T.invalidSMSimfile beh a = some e ∧
        ∀ x ∈ l1, itemProblem false T.invalidSMSimfile beh x = none) ∨
      ((∀ x ∈ src.props, itemProblem false T.invalidSMSimfile beh x = none) ∧
        ∃ cs1 c cs2 l1 a l2, src.charts = cs1 ++ c :: cs2 ∧ c.1 = l1 ++ a :: l2 ∧
          itemProblem true T.invalidSMChart beh a = some e ∧
          (∀ x ∈ l1, itemProblem true T.invalidSMChart beh x = none) ∧
          ∀ c' ∈ cs1, ∀ x ∈ c'.1, itemProblem true T.invalidSMChart beh x = none) := by
  unfold firstProblem
  rw [Option.or_eq_some_iff, List.findSome?_eq_some_iff, List.findSome?_eq_none_iff, List.findSome?_eq_some_iff]
  constructor
  · rintro (h | ⟨h1, cs1, c, cs2, hc, hf, hpre⟩)
    · exact Or.inl h
    · rw [List.findSome?_eq_some_iff] at hf
      obtain ⟨l1, a, l2, hl, ha, hl1⟩ := hf
      exact Or.inr ⟨h1, cs1, c, cs2, l1, a, l2, hc, hl, ha, hl1,
        fun c' hc' => List.findSome?_eq_none_iff.mp (hpre c' hc')⟩
  · rintro (h | ⟨h1, cs1, c, cs2, l1, a, l2, hc, hl, ha, hl1, hpre⟩)
    · exact Or.inl h
    · refine Or.inr ⟨h1, cs1, c, cs2, hc, ?_, fun c' hc' => List.findSome?_eq_none_iff.mpr (hpre c' hc')⟩
      rw [List.findSome?_eq_some_iff]
      exact ⟨l1, a, l2, hl, ha, hl1⟩

theorem firstProblem_eq_none_iff (src : AnySimfile) (beh : List (Nat × Nat)) :
    firstProblem src beh = none ↔
      (∀ x ∈ src.props, itemProblem false T.invalidSMSimfile beh x = none) ∧
      ∀ c ∈ src.charts, ∀ x ∈ c.1, itemProblem true T.invalidSMChart beh x = none := by
  unfold firstProblem
  rw [Option.or_eq_none_iff, List.findSome?_eq_none_iff, List.findSome?_eq_none_iff]
  simp only [List.findSome?_eq_none_iff]


theorem firstProblem_kind (src : AnySimfile) (beh : List (Nat × Nat)) (e : CErr) (h : firstProblem src beh = some e) :
    (∃ k, e = .invalidProperty k) ∨ e = .keyError := by
  rcases (firstProblem_eq_some_iff src beh e).mp h with ⟨_, a, _, _, ha, _⟩ | ⟨_, _, _, _, _, a, _, _, _, ha, _⟩
  · exact (itemProblem_kind _ _ _ _ _ ha).imp (fun h => ⟨_, h⟩) id
  · exact (itemProblem_kind _ _ _ _ _ ha).imp (fun h => ⟨_, h⟩) id

/-- an error other than NotImplementedError: the warps test passed and it is the first problem -/
theorem convert_ssc_error_iff (src : AnySimfile) (st : Option AnySimfile) (ct : Option (Dict × Option (List Str)))
    (beh : List (Nat × Nat)) (h : src.isSSC = true) (e : CErr) (he : e ≠ .notImplemented) :
    convert src false st ct beh = .error e ↔ ¬ hasWarps src ∧ firstProblem src beh = some e := by
  rw [convert_ssc_outcome src st ct beh h]
  by_cases hw : hasWarps src
  · rw [if_pos hw]
    constructor
    · intro h'; simp only [Except.error.injEq] at h'; exact absurd h'.symm he
    · rintro ⟨h', _⟩; exact absurd hw h'
  · rw [if_neg hw]
    cases firstProblem src beh with
    | none => simp
    | some e' => simp [hw]

theorem convert_ssc_notImplemented_iff (src : AnySimfile) (st : Option AnySimfile)
    (ct : Option (Dict × Option (List Str))) (beh : List (Nat × Nat)) (h : src.isSSC = true) :
    convert src false st ct beh = .error .notImplemented ↔ hasWarps src := by
  rw [convert_ssc_outcome src st ct beh h]
  by_cases hw : hasWarps src
  · simp [hw]
  · rw [if_neg hw]
    cases hp : firstProblem src beh with
    | none => simp [hw]
    | some e' =>
      simp only [Except.error.injEq, hw, iff_false]
      rintro rfl
      rcases firstProblem_kind src beh _ hp with ⟨k, hk⟩ | hk <;> cases hk

theorem convert_ssc_ok_iff (src : AnySimfile) (st : Option AnySimfile)
    (ct : Option (Dict × Option (List Str))) (beh : List (Nat × Nat)) (h : src.isSSC = true) :
    (∃ out, convert src false st ct beh = .ok out) ↔ ¬ hasWarps src ∧ firstProblem src beh = none := by
  rw [convert_ssc_outcome src st ct beh h]
  by_cases hw : hasWarps src
  · simp [hw]
  · rw [if_neg hw]
    cases hp : firstProblem src beh with
    | none => simp [hw]
    | some e' => simp

/-! ### the first offending key -/

theorem find_offending_of_findSome (chart : Bool) (invalid : List (Nat × List Str)) (beh : List (Nat × Nat))
    (l : Dict) :
    (l.findSome? (itemProblem chart invalid beh) = none → l.find? (offending invalid beh) = none) ∧
    (∀ k, l.findSome? (itemProblem chart invalid beh) = some (.invalidProperty k) →
      (l.find? (offending invalid beh)).map (·.1) = some k) := by
  induction l with
  | nil => exact ⟨fun _ => rfl, fun k h => by cases h⟩
  | cons a l ih =>
    rw [List.findSome?_cons, List.find?_cons]
    cases hp : itemProblem chart invalid beh a with
    | none =>
      rw [((itemProblem_none_iff _ _ _ _).mp hp).1]
      exact ih
    | some e =>
      refine ⟨fun h => (by cases h), fun k h => ?_⟩
      simp only [Option.some.injEq] at h
      subst h
      obtain ⟨h1, h2⟩ := (itemProblem_eq_invalid_iff _ _ _ _ _).mp hp
      rw [h1, h2]; rfl

/-! ### reading the result -/

/-- a copied key of a source with distinct keys reads in the result as in the source -/
theorem get?_setAll_filter_of_mem (d0 source : Dict) (p : Str → Bool) (kv : Str × Option Str)
    (hwf : Dict.WF source) (hm : kv ∈ source) (hp : p kv.1 = true) :
    (setAll d0 (source.filter fun x => p x.1)).get? kv.1 = some kv.2 :=
  get?_setAll_of_mem_WF _ _ kv (WF_filter _ _ hwf) (List.mem_filter.mpr ⟨hm, hp⟩)

/-- a key that is not copied, or that the source lacks, reads as in the start dictionary -/
theorem get?_setAll_filter_of_not (d0 source : Dict) (p : Str → Bool) (k : Str)
    (h : p k = false ∨ k ∉ Dict.keys source) :
    (setAll d0 (source.filter fun x => p x.1)).get? k = d0.get? k := by
  apply get?_setAll_of_not_mem
  intro kv hkv e
  obtain ⟨hm, hp⟩ := List.mem_filter.mp hkv
  rcases h with h | h
  · rw [e] at hp; rw [h] at hp; cases hp
  · exact h (e ▸ List.mem_map.mpr ⟨kv, hm, rfl⟩)

theorem copied_of_not_listed (invalid : List (Nat × List Str)) (beh : List (Nat × Nat)) (k : Str)
    (h : ¬ Listed invalid k) : copied invalid beh k = true := by
  unfold copied
  cases hl : listedIn invalid k with
  | none => rfl
  | some e => exact absurd ((listedIn_ne_none _ _).mp (by rw [hl]; simp)) h

theorem copied_six (beh : List (Nat × Nat)) (k : Str) (h : k ∈ T.smChartProperties) :
    copied T.invalidSMChart beh k = true := by
  unfold copied; rw [six_not_listed k h]

theorem offending_six (beh : List (Nat × Nat)) (kv : Str × Option Str) (h : kv.1 ∈ T.smChartProperties) :
    offending T.invalidSMChart beh kv = false := by
  unfold offending; rw [six_not_listed kv.1 h]

end Simfile.Cv
