/-
Lemmas for C10: ungroup_notes applied to the joined stream of a position-sorted single-player stream
returns the surviving notes in order (`run_spec`, by induction over the stream from the front with
the pending heap described by `pend`).
-/
import Simfile.Lemmas.UngroupPend
namespace Simfile.Ungroup
open Simfile Simfile.Spec

/-! ### the heap of pending tails -/

/-- pushing a note of a sorted list into the sorted sub-list selected by `q` -/
theorem heapInsert_filter (q : Note → Bool) (t : Note) : ∀ R : List Note, Sorted R → t ∈ R → q t = false →
    heapInsert t (R.filter q) = R.filter fun y => q y || y == t := by
  intro R
  induction R with
  | nil => intro _ h; simp at h
  | cons x R ih =>
    intro hs hm hq
    by_cases hx : x = t
    · subst hx
      have hnm : x ∉ R := hs.not_mem
      have hfil : R.filter (fun y => q y || y == x) = R.filter q := by
        apply List.filter_congr
        intro y hy
        have : (y == x) = false := beq_eq_false_iff_ne.mpr (fun e => hnm (e ▸ hy))
        rw [this]; simp
      rw [List.filter_cons, List.filter_cons, hq, hfil]
      simp only [Bool.false_eq_true, if_false, Bool.false_or, BEq.rfl, if_true]
      cases hf : R.filter q with
      | nil => rfl
      | cons y ys =>
        have hy : y ∈ R := (List.mem_filter.mp (by rw [hf]; simp : y ∈ R.filter q)).1
        have : x.lt y = true := hs.head_lt hy
        simp [heapInsert, this]
    · have hm' : t ∈ R := by
        rcases List.mem_cons.mp hm with h | h
        · exact absurd h.symm hx
        · exact h
      have hlt : keyLt x.key t.key = true := hs.head_lt hm'
      have hnlt : t.lt x = false := keyLt_asymm hlt
      have hbeq : (x == t) = false := beq_eq_false_iff_ne.mpr hx
      rw [List.filter_cons, List.filter_cons, hbeq, Bool.or_false]
      cases hqx : q x with
      | true =>
        simp only [if_true, heapInsert, hnlt, Bool.false_eq_true, if_false]
        rw [ih hs.tail hm' hq]
      | false =>
        simp only [Bool.false_eq_true, if_false]
        exact ih hs.tail hm' hq

theorem popReached_none (k : Nat × Rat × Nat) (l : List Note) (h : ∀ y ∈ l, keyLt y.key k = false) :
    popReached k l = ([], l) := by
  cases l with
  | nil => rfl
  | cons y l => simp [popReached, h y (by simp)]

theorem popReached_cons_lt (k : Nat × Rat × Nat) (n : Note) (l : List Note) (h : keyLt n.key k = true) :
    popReached k (n :: l) = (n :: (popReached k l).1, (popReached k l).2) := by
  simp [popReached, h]

def finish (s : UState) : List Note := s.out ++ s.pending

/-- a pending tail that lies before everything still to come can as well be yielded at once -/
theorem run_pop (p : Orphan) (n : Note) (S : List GNote) (hS : ∀ g ∈ S, keyLt n.key g.key = true)
    (pd out : List Note) :
    (S.foldlM (ungroupStep p) { pending := n :: pd, out := out }).map finish =
      (S.foldlM (ungroupStep p) { pending := pd, out := out ++ [n] }).map finish := by
  cases S with
  | nil => simp [pure, Except.pure, Except.map, finish]
  | cons g S =>
    have hg := hS g (by simp)
    simp only [List.foldlM_cons]
    have : ungroupStep p { pending := n :: pd, out := out } g
        = ungroupStep p { pending := pd, out := out ++ [n] } g := by
      unfold ungroupStep
      simp only [popReached_cons_lt _ n pd hg, List.append_assoc, List.singleton_append]
    rw [this]

theorem step_plain (p : Orphan) (n : Note) (pd out : List Note)
    (h1 : ∀ y ∈ pd, keyLt y.key n.key = false) (h2 : ∀ y ∈ pd, y.column ≠ n.column) :
    ungroupStep p { pending := pd, out := out } (.plain n) = .ok { pending := pd, out := out ++ [n] } := by
  have hany : pd.any (·.column = n.column) = false := by
    apply List.any_eq_false.mpr
    intro y hy
    simpa using h2 y hy
  simp [ungroupStep, GNote.key, popReached_none _ pd h1, checkOrphan, hany, bind, Except.bind, pure, Except.pure]

theorem step_withTail (p : Orphan) (n : Note) (tb : Rat) (pd out : List Note)
    (h1 : ∀ y ∈ pd, keyLt y.key n.key = false) (h2 : ∀ y ∈ pd, y.column ≠ n.column) :
    ungroupStep p { pending := pd, out := out } (.withTail n tb) =
      .ok { pending := heapInsert (recon n tb) pd, out := out ++ [n] } := by
  have hany : pd.any (·.column = n.column) = false := by
    apply List.any_eq_false.mpr
    intro y hy
    simpa using h2 y hy
  simp [ungroupStep, GNote.key, popReached_none _ pd h1, checkOrphan, hany, bind, Except.bind, pure,
    Except.pure, recon]

/-! ### the round trip -/

theorem isHead_tail : isHead cTAIL = false := by decide


/-- `Spec.survivors`, per classified note -/
def survF (o : GOpts) : Note × Cls → Option Note := fun (n, c) =>
  match c with
  | .orphanHead => if o.orphanHead = .drop then none else some n
  | .orphanTail => if o.orphanTail = .drop then none else some n
  | _ => some n

def noRaise (o : GOpts) (cs : List (Note × Cls)) : Prop :=
  ¬ ((o.orphanHead = .raise ∧ cs.any (·.2 = .orphanHead)) ∨ (o.orphanTail = .raise ∧ cs.any (·.2 = .orphanTail)))

theorem noRaise_cons {o : GOpts} {n : Note} {cl : Cls} {cs : List (Note × Cls)} (h : noRaise o ((n, cl) :: cs)) :
    noRaise o cs ∧ (cl = .orphanHead → o.orphanHead ≠ .raise) ∧ (cl = .orphanTail → o.orphanTail ≠ .raise) := by
  unfold noRaise at h ⊢
  simp only [List.any_cons, Bool.or_eq_true, decide_eq_true_eq, not_or, not_and] at h ⊢
  exact ⟨⟨fun a => (h.1 a).2, fun a => (h.2 a).2⟩, fun hc a => (h.1 a).1 hc, fun hc a => (h.2 a).1 hc⟩

theorem mem_image_key {o : GOpts} {n : Note} {cl : Cls} {g : GNote} (h : g ∈ image o (n, cl)) : g.key = n.key := by
  cases cl <;> simp only [image] at h
  · simp at h; subst h; rfl
  · split at h <;> simp at h; subst h; rfl
  · simp at h
  · split at h <;> simp at h; subst h; rfl
  · simp at h; subst h; rfl

theorem mem_S_key (o : GOpts) : ∀ (R B : List Note) (g : GNote), g ∈ (classifyAll B R).flatMap (image o) →
    ∃ m ∈ R, g.key = m.key := by
  intro R
  induction R with
  | nil => intro B g h; simp [classifyAll] at h
  | cons n R ih =>
    intro B g h
    simp only [classifyAll, List.flatMap_cons, List.mem_append] at h
    rcases h with h | h
    · exact ⟨n, by simp, mem_image_key h⟩
    · obtain ⟨m, hm, hk⟩ := ih (n :: B) g h
      exact ⟨m, by simp [hm], hk⟩

theorem filterMap_cons_toList {α β} (f : α → Option β) (a : α) (l : List α) :
    (a :: l).filterMap f = (f a).toList ++ l.filterMap f := by
  rw [List.filterMap_cons]
  cases f a <;> rfl

/-- one step of the induction: the note is yielded as it is -/
theorem case_emit (o : GOpts) (p : Orphan) (n : Note) (cl : Cls) (pd out rest : List Note) (S' : List GNote)
    (himg : image o (n, cl) = [.plain n]) (hsv : survF o (n, cl) = some n)
    (h1 : ∀ y ∈ pd, keyLt y.key n.key = false) (h2 : ∀ y ∈ pd, y.column ≠ n.column)
    (ih : (S'.foldlM (ungroupStep p) { pending := pd, out := out ++ [n] }).map finish = .ok ((out ++ [n]) ++ rest)) :
    ((image o (n, cl) ++ S').foldlM (ungroupStep p) { pending := [] ++ pd, out := out }).map finish =
      .ok (out ++ ((survF o (n, cl)).toList ++ rest)) := by
  rw [himg, hsv]
  simp only [List.nil_append, List.cons_append, List.foldlM_cons, step_plain p n pd out h1 h2, bind, Except.bind]
  rw [ih]
  simp

/-- one step of the induction: the note is dropped -/
theorem case_skip (o : GOpts) (p : Orphan) (n : Note) (cl : Cls) (pd out rest : List Note) (S' : List GNote)
    (himg : image o (n, cl) = []) (hsv : survF o (n, cl) = none)
    (ih : (S'.foldlM (ungroupStep p) { pending := pd, out := out }).map finish = .ok (out ++ rest)) :
    ((image o (n, cl) ++ S').foldlM (ungroupStep p) { pending := [] ++ pd, out := out }).map finish =
      .ok (out ++ ((survF o (n, cl)).toList ++ rest)) := by
  rw [himg, hsv]
  simpa using ih

theorem run_spec (o : GOpts) (p : Orphan) : ∀ (R B out : List Note), Sorted R →
    (∀ a ∈ R, ∀ b ∈ R, a.player = b.player) → (∀ n ∈ R, n.ntype = cTAIL → n.keysound = none) →
    noRaise o (classifyAll B R) →
    (((classifyAll B R).flatMap (image o)).foldlM (ungroupStep p) { pending := pend B R, out := out }).map finish
      = .ok (out ++ (classifyAll B R).filterMap (survF o)) := by
  intro R
  induction R with
  | nil =>
    intro B out _ _ _ _
    simp [classifyAll, pend, pure, Except.pure, Except.map, finish]
  | cons n R ih =>
    intro B out hs hpl hks hnr
    have hnR : n ∉ R := hs.not_mem
    simp only [classifyAll] at hnr ⊢
    obtain ⟨hnr', hoh, hot⟩ := noRaise_cons hnr
    have ih' := fun out' => ih (n :: B) out' hs.tail (fun a ha b hb => hpl a (by simp [ha]) b (by simp [hb]))
      (fun m hm => hks m (by simp [hm])) hnr'
    have hp1 : ∀ y ∈ pend0 B n R, keyLt y.key n.key = false := fun y hy =>
      keyLt_asymm (hs.head_lt (mem_pend0 hnR hy).1)
    have hp2 : ∀ y ∈ pend0 B n R, y.column ≠ n.column := fun y hy => (mem_pend0 hnR hy).2
    simp only [List.flatMap_cons, filterMap_cons_toList, pend_cons]
    -- an orphan (head or tail) that is kept, dropped, or excluded by the RAISE policy
    have orphanCase : ∀ (cl : Cls) (pol : Orphan), classify B n R = cl →
        (pol ≠ .raise) →
        (image o (n, cl) = if pol = .keep then [.plain n] else []) →
        (survF o (n, cl) = if pol = .drop then none else some n) →
        (decide (n.ntype = cTAIL) && headOpen B n.column) = false →
        pend (n :: B) R = pend0 B n R →
        (((image o (n, classify B n R) ++ (classifyAll (n :: B) R).flatMap (image o)).foldlM (ungroupStep p)
          { pending := (if (decide (n.ntype = cTAIL) && headOpen B n.column) = true then [n] else []) ++ pend0 B n R,
            out := out }).map finish =
          .ok (out ++ ((survF o (n, classify B n R)).toList ++ (classifyAll (n :: B) R).filterMap (survF o)))) := by
      intro cl pol hcl hpol himg hsv hcond hshift
      rw [hcl, hcond]
      simp only [Bool.false_eq_true, if_false]
      cases pol with
      | raise => exact absurd rfl hpol
      | keep =>
        apply case_emit o p n cl _ out _ _ (by simpa using himg) (by simpa using hsv) hp1 hp2
        rw [← hshift]; exact ih' _
      | drop =>
        apply case_skip o p n cl _ out _ _ (by simpa using himg) (by simpa using hsv)
        rw [← hshift]; exact ih' _
    by_cases hh : isHead n.ntype = true
    · have hnt : ¬ n.ntype = cTAIL := by
        intro e; rw [e, isHead_tail] at hh; cases hh
      have hcond : (decide (n.ntype = cTAIL) && headOpen B n.column) = false := by simp [hnt]
      have orphanHead : classify B n R = .orphanHead → pend (n :: B) R = pend0 B n R → _ := fun hcl hshift =>
        orphanCase .orphanHead o.orphanHead hcl (hoh hcl)
          (by cases hp : o.orphanHead <;> simp [image, hp])
          (by cases hp : o.orphanHead <;> simp [survF, hp]) hcond hshift
      cases hf : R.find? (·.column = n.column) with
      | none =>
        apply orphanHead
        · simp [classify, hh, hf]
        · exact pend_shift_orphan B n R hnR (by intro t ht; rw [hf] at ht; cases ht)
      | some t =>
        by_cases ht : t.ntype = cTAIL
        · have hcl : classify B n R = .joined t.beat := by simp [classify, hh, hf, ht]
          have htR : t ∈ R := List.mem_of_find?_eq_some hf
          have htc : t.column = n.column := by simpa using List.find?_some hf
          have hrecon : recon n t.beat = t := by
            have h1 : t.player = n.player := hpl t (by simp [htR]) n (by simp)
            have h2 : t.keysound = none := hks t (by simp [htR]) ht
            rcases t with ⟨tb, tc, tt, tp, tk⟩
            simp only at h1 h2 htc ht
            subst h1 h2 htc ht
            rfl
          have hq : pendP B (n :: R) t = false := by
            have hne : t ≠ n := fun e => hnR (e ▸ htR)
            simp [pendP, tailFirst_cons_of_ne R hne, htc]
          have hshift : pend (n :: B) R = heapInsert t (pend0 B n R) := by
            rw [pend_shift_joined B n R hnR hh t hf ht]
            exact (heapInsert_filter _ t R hs.tail htR hq).symm
          rw [hcl, hcond]
          have himg : image o (n, Cls.joined t.beat) = [.withTail n t.beat] := rfl
          have hsv : survF o (n, Cls.joined t.beat) = some n := rfl
          rw [himg, hsv]
          simp only [Bool.false_eq_true, if_false, List.nil_append, List.cons_append, List.foldlM_cons,
            step_withTail p n t.beat _ out hp1 hp2, bind, Except.bind, hrecon]
          rw [← hshift, ih']
          simp
        · apply orphanHead
          · simp [classify, hh, hf, ht]
          · exact pend_shift_orphan B n R hnR (by
              intro t' ht'; rw [hf] at ht'; cases ht'; exact ht)
    · have hh' : isHead n.ntype = false := by simpa using hh
      have hshift : pend (n :: B) R = pend0 B n R := pend_shift_nonhead B n R hnR hh'
      by_cases ht : n.ntype = cTAIL
      · by_cases hopen : headOpen B n.column = true
        · have hcl : classify B n R = .consumed := by
            unfold headOpen at hopen
            simp only [classify, hh', Bool.false_eq_true, if_false]
            simp only [ht, if_true]
            cases hb : B.find? (·.column = n.column) with
            | none => rw [hb] at hopen; simp at hopen
            | some h => rw [hb] at hopen; simp at hopen; simp [hopen]
          rw [hcl]
          have himg : image o (n, Cls.consumed) = [] := rfl
          have hsv : survF o (n, Cls.consumed) = some n := rfl
          rw [himg, hsv]
          simp only [ht, hopen, decide_true, Bool.and_self, if_true, List.nil_append, List.singleton_append]
          rw [run_pop p n _ (by
            intro g hg
            obtain ⟨m, hm, hk⟩ := mem_S_key o R (n :: B) g hg
            rw [hk]; exact hs.head_lt hm), ← hshift, ih']
          simp
        · have hopen : headOpen B n.column = false := by simpa using hopen
          have hcl : classify B n R = .orphanTail := by
            unfold headOpen at hopen
            simp only [classify, hh', Bool.false_eq_true, if_false]
            simp only [ht, if_true]
            cases hb : B.find? (·.column = n.column) with
            | none => rfl
            | some h => rw [hb] at hopen; simp at hopen; simp [hopen]
          exact orphanCase .orphanTail o.orphanTail hcl (hot hcl)
            (by cases hp : o.orphanTail <;> simp [image, hp])
            (by cases hp : o.orphanTail <;> simp [survF, hp]) (by simp [hopen]) hshift
      · have hcl : classify B n R = .plain := by simp [classify, hh', ht]
        have hcond : (decide (n.ntype = cTAIL) && headOpen B n.column) = false := by simp [ht]
        rw [hcl, hcond]
        simp only [Bool.false_eq_true, if_false]
        apply case_emit o p n .plain _ out _ _ rfl rfl hp1 hp2
        rw [← hshift]; exact ih' _

theorem pend_nil (F : List Note) : pend [] F = [] := by
  unfold pend
  apply List.filter_eq_nil_iff.mpr
  intro y _
  simp [pendP, headOpen]

theorem survivors_eq (o : GOpts) (ns : List Note) (hj : o.join = true) :
    survivors o ns = (classifyAll [] (ns.filter fun n => o.incl.contains n.ntype)).filterMap (survF o) := by
  simp [survivors, hj]
  rfl

/-- ungrouping the groups made from the specification's joined stream -/
theorem ungroup_joinSpec (o : GOpts) (p : Orphan) (F : List Note) (S : List GNote) (hs : Sorted F)
    (hpl : ∀ a ∈ F, ∀ b ∈ F, a.player = b.player) (hks : ∀ n ∈ F, n.ntype = cTAIL → n.keysound = none)
    (hS : joinSpec o F = .ok S) (mode : SameBeat) (hmode : mode ≠ .joinByType) :
    ungroupNotes p ((groupRuns GNote.beat S).flatMap fun (_, row) => addRow mode row) =
      .ok ((classifyAll [] F).filterMap (survF o)) := by
  unfold joinSpec at hS
  simp only at hS
  split at hS
  · cases hS
  · rename_i hnr
    have hS' : (classifyAll [] F).flatMap (image o) = S := Except.ok.inj hS
    have h := run_spec o p F [] [] hs hpl hks hnr
    rw [pend_nil, hS'] at h
    unfold ungroupNotes
    rw [rows_flatten mode hmode]
    cases hf : S.foldlM (ungroupStep p) { pending := [], out := [] } with
    | error e => rw [hf] at h; cases h
    | ok st =>
      rw [hf] at h
      simp only [Except.map, finish, List.nil_append] at h
      simp only [bind, Except.bind, pure, Except.pure]
      exact h

end Simfile.Ungroup
