/-
Lemmas for C09 (round 2): the join phase on an ARBITRARY stream agrees with its specification up to
the order of the emitted items, with the same exception (never an internal one).
-/
import Simfile.Lemmas.GroupMoreAnyStep
namespace Simfile.JoinAny
open Simfile Simfile.Spec Simfile.Join

theorem fold_rel (o : GOpts) : ∀ P : List Note,
    (raised o (pcl P) = true →
      P.foldlM (joinStep o) { held := [], buffer := [], out := [] } = .error .orphaned) ∧
    (raised o (pcl P) = false →
      ∃ s, P.foldlM (joinStep o) { held := [], buffer := [], out := [] } = .ok s ∧ Rel o s (pcl P)) := by
  intro P
  induction P using snoc_induction with
  | nil =>
    have h1 : pcl [] = [] := rfl
    rw [h1, raised_nil]
    exact ⟨fun h => (by cases h), fun _ => ⟨_, rfl, rel_nil o⟩⟩
  | snoc P n ih =>
    rw [List.foldlM_append, pcl_snoc]
    cases hr : raised o (pcl P) with
    | true =>
      rw [raised_mono o _ n hr]
      refine ⟨fun _ => ?_, fun h => (by cases h)⟩
      rw [ih.1 hr]; rfl
    | false =>
      obtain ⟨s, e, r⟩ := ih.2 hr
      obtain ⟨j1, j2⟩ := joinStep_rel o s (pcl P) r (pcl_cols P) n hr
      rw [e]
      constructor
      · intro h
        simp only [bind, Except.bind, List.foldlM_cons, j1 h]
      · intro h
        obtain ⟨s', e', r'⟩ := j2 h
        exact ⟨s', by simp only [bind, Except.bind, List.foldlM_cons, List.foldlM_nil, e']; rfl, r'⟩

theorem cleanup_rel (o : GOpts) : ∀ (H : List (Nat × Note)) (D : List AN) (buf : List GNote), Cols D →
    opens D = H → (∀ cn ∈ H, GNote.plain cn.2 ∈ buf) →
    (o.orphanHead = .raise ∧ H ≠ [] →
      H.foldlM (fun buf cn => joinHeadToTail o buf (some cn.2) none) buf = .error .orphaned) ∧
    (¬ (o.orphanHead = .raise ∧ H ≠ []) →
      ∃ b, H.foldlM (fun buf cn => joinHeadToTail o buf (some cn.2) none) buf = .ok b ∧
        ∀ out, (out ++ buf).Perm (D.flatMap (pimage o)) → (out ++ b).Perm ((D.map fin).flatMap (image o))) := by
  intro H
  induction H with
  | nil =>
    intro D buf _ hD _
    refine ⟨fun h => absurd rfl h.2, fun _ => ⟨buf, rfl, fun out hp => ?_⟩⟩
    rw [← flatMap_image_fin o D ((opens_eq_nil_iff D).mp hD)]
    exact hp
  | cons ch H ih =>
    intro D buf g hD hb
    rcases ch with ⟨c, h⟩
    have hmem : (c, h) ∈ opens D := by rw [hD]; simp
    obtain ⟨hm, hc⟩ := mem_opens.mp hmem
    subst hc
    have hcols : ((opens D).map (·.1)).Nodup := g
    rw [hD] at hcols
    simp only [List.map_cons, List.nodup_cons] at hcols
    have hD1 : opens (closeCol h.column .orphanHead D) = H := by
      rw [opens_closeCol, hD]
      simp only [ne_eq, decide_not, List.filter_cons, decide_true, Bool.not_true, Bool.false_eq_true, if_false]
      apply List.filter_eq_self.mpr
      intro x hx
      have : x.1 ≠ h.column := fun he => hcols.1 (List.mem_map.mpr ⟨x, hx, he⟩)
      simp [this]
    have hbh : GNote.plain h ∈ buf := hb (h.column, h) (by simp)
    simp only [List.foldlM_cons]
    cases hoh : o.orphanHead with
    | raise =>
      rw [jht_end_raise o _ h hoh]
      exact ⟨fun _ => rfl, fun hn => absurd ⟨rfl, by simp⟩ hn⟩
    | keep =>
      rw [jht_end_keep o _ h hoh]
      refine ⟨fun hn => (by cases hn.1), fun _ => ?_⟩
      obtain ⟨b, e, hp⟩ := (ih (closeCol h.column .orphanHead D) buf (g.closeCol _ _) hD1
        (fun cn hcn => hb cn (by simp [hcn]))).2 (by rw [hoh]; simp)
      refine ⟨b, by simp only [bind, Except.bind]; exact e, fun out hperm => ?_⟩
      have := hp out (by rw [keep_spec o hoh]; exact hperm)
      rw [map_fin_closeCol] at this
      exact this
    | drop =>
      rw [jht_end_drop o _ _ h hoh (removeFirst_erase h _ hbh)]
      refine ⟨fun hn => (by cases hn.1), fun _ => ?_⟩
      obtain ⟨b, e, hp⟩ := (ih (closeCol h.column .orphanHead D) (buf.erase (.plain h)) (g.closeCol _ _) hD1
        (by
          intro cn hcn
          have h1 : cn ∈ opens D := by rw [hD]; simp [hcn]
          have h2 : cn.1 ≠ h.column := fun he => hcols.1 (List.mem_map.mpr ⟨cn, hcn, he⟩)
          exact (List.mem_erase_of_ne (opens_ne h1 h2)).mpr (hb cn (by simp [hcn])))).2 (by rw [hoh]; simp)
      refine ⟨b, by simp only [bind, Except.bind]; exact e, fun out hperm => ?_⟩
      have := hp out (close_perm o .orphanHead h D g hm out buf _ hperm hbh (by simp [pimage, image, hoh]))
      rw [map_fin_closeCol] at this
      exact this

/-- for EVERY stream: either both the join phase and its specification raise the orphan exception,
or both succeed and the outputs are rearrangements of one another -/
theorem join_perm_spec (o : GOpts) (F : List Note) :
    (joinHeadsToTails o F = .error .orphaned ∧ joinSpec o F = .error .orphaned) ∨
    (∃ a b, joinHeadsToTails o F = .ok a ∧ joinSpec o F = .ok b ∧ a.Perm b) := by
  unfold joinHeadsToTails joinSpec
  rw [classifyAll_eq]
  simp only [any_fin]
  obtain ⟨f1, f2⟩ := fold_rel o F
  cases hr : raised o (pcl F) with
  | true =>
    left
    rw [f1 hr]
    refine ⟨rfl, ?_⟩
    have : (o.orphanHead = .raise ∧ anyCls .orphanHead (pcl F) = true) ∨
        (o.orphanTail = .raise ∧ anyCls .orphanTail (pcl F) = true) := by
      simpa [raised] using hr
    rcases this with ⟨h1, h2⟩ | ⟨h1, h2⟩
    · simp [h1, h2]
    · simp [h1, h2]
  | false =>
    obtain ⟨s, e, r⟩ := f2 hr
    rw [e]
    simp only [bind, Except.bind]
    obtain ⟨c1, c2⟩ := cleanup_rel o s.held (pcl F) s.buffer (pcl_cols F) r.held.symm r.buf
    have hr1 : o.orphanHead = .raise → anyCls .orphanHead (pcl F) = false := by
      intro h
      have := hr
      simp only [raised, h, decide_true, Bool.true_and, Bool.or_eq_false_iff] at this
      exact this.1
    have hr2 : o.orphanTail = .raise → anyCls .orphanTail (pcl F) = false := by
      intro h
      have := hr
      simp only [raised, h, decide_true, Bool.true_and, Bool.or_eq_false_iff] at this
      exact this.2
    by_cases hc : o.orphanHead = .raise ∧ s.held ≠ []
    · left
      rw [c1 hc]
      refine ⟨rfl, ?_⟩
      have : (opens (pcl F)).isEmpty = false := by
        rw [← r.held]
        cases hh : s.held with
        | nil => exact absurd hh hc.2
        | cons _ _ => rfl
      simp [hc.1, this]
    · right
      obtain ⟨b, eb, hp⟩ := c2 hc
      rw [eb]
      have hcond : ¬ (o.orphanHead = Orphan.raise ∧
            (anyCls Cls.orphanHead (pcl F) || decide True && !(opens (pcl F)).isEmpty) = true ∨
          o.orphanTail = Orphan.raise ∧
            (anyCls Cls.orphanTail (pcl F) || decide (Cls.orphanTail = Cls.orphanHead) && !(opens (pcl F)).isEmpty) =
              true) := by
        rintro (⟨h1, h2⟩ | ⟨h1, h2⟩)
        · have he : s.held = [] := Classical.byContradiction fun hne => hc ⟨h1, hne⟩
          rw [← r.held, he] at h2
          simp [hr1 h1] at h2
        · simp [hr2 h1] at h2
      rw [if_neg hcond]
      exact ⟨s.out ++ b, _, rfl, rfl, hp s.out r.perm⟩

end Simfile.JoinAny
