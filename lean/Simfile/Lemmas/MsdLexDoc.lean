/-
Monotonicity of `scanComp` / `safeParams` in the flag, blank text outside a parameter, and the whole rendered
document.
-/
import Simfile.Lemmas.MsdLexComp
namespace Simfile.MsdP

theorem scanComp_mono (c : Str) (l1 : Bool) :
    ∀ (l2 x : Bool), (l2 = true → l1 = true) → scanComp c l1 = some x →
      ∃ y, scanComp c l2 = some y ∧ (y = true → x = true) := by
  fun_induction scanComp c l1 with
  | case1 bit =>
    intro l2 x hl h
    simp only [Option.some.injEq] at h
    subst h
    exact ⟨l2, by simp [scanComp], hl⟩
  | case2 cs bit ih =>
    intro l2 x hl h
    rw [scanComp_ss]
    exact ih false x (by simp) h
  | case3 c cs bit h1 h2 ih =>
    intro l2 x hl h
    have : scanComp (c :: cs) l2 = scanComp cs l2 := by
      rcases h2 with rfl | rfl | rfl
      · exact scanComp_bs _ _
      · exact scanComp_colon _ _
      · exact scanComp_semi _ _
    rw [this]
    exact ih l2 x hl h
  | case4 cs bit h1 h2 ih =>
    intro l2 x hl h
    rw [scanComp_other '/' cs l2 (by decide) h1 (by decide) (by decide), if_pos rfl]
    exact ih false x (by simp) h
  | case5 cs h1 h2 h3 =>
    intro l2 x hl h
    simp at h
  | case6 cs bit hb h1 h2 h3 ih =>
    intro l2 x hl h
    have hl2 : l2 = false := by
      cases l2 with
      | false => rfl
      | true => exact absurd (hl rfl) hb
    subst hl2
    rw [scanComp_other '#' cs false (by decide) h1 (by decide) (by decide), if_neg (by decide), if_pos rfl]
    simp only [Bool.false_eq_true, if_false]
    exact ih false x (by simp) h
  | case7 c cs bit h1 h2 h3 h4 ih =>
    intro l2 x hl h
    rw [scanComp_other c cs l2 (fun hh => h2 (Or.inl hh)) h1 (fun hh => h2 (Or.inr (Or.inl hh)))
      (fun hh => h2 (Or.inr (Or.inr hh))), if_neg h3, if_neg h4]
    have e : isNl c = decide (c = '\n' ∨ c = '\r') := by simp [isNl]
    rw [e]
    exact ih _ x (fun h => h) h

theorem scanComps_mono (cs : List Str) :
    ∀ (l1 l2 x : Bool), (l2 = true → l1 = true) → scanComps cs l1 = some x →
      ∃ y, scanComps cs l2 = some y ∧ (y = true → x = true) := by
  induction cs with
  | nil =>
    intro l1 l2 x hl h
    simp only [scanComps, Option.some.injEq] at h
    subst h
    exact ⟨l2, rfl, hl⟩
  | cons c cs ih =>
    intro l1 l2 x hl h
    rw [scanComps, Option.bind_eq_some_iff] at h
    obtain ⟨m1, hm1, h⟩ := h
    obtain ⟨m2, hm2, hle⟩ := scanComp_mono c l1 l2 m1 hl hm1
    obtain ⟨y, hy, hyx⟩ := ih m1 m2 x hle h
    exact ⟨y, by rw [scanComps, hm2]; exact hy, hyx⟩

theorem safeParams_mono (ps : List Param) (l1 l2 : Bool) (hl : l2 = true → l1 = true)
    (h : safeParams ps l1 = true) : safeParams ps l2 = true := by
  cases ps with
  | nil => rfl
  | cons p ps =>
    simp only [safeParams, Bool.and_eq_true] at h ⊢
    refine ⟨h.1, ?_⟩
    have h2 := h.2
    split at h2
    · simp at h2
    · rename_i x hx
      obtain ⟨y, hy, _⟩ := scanComps_mono p.comps l1 l2 x hl hx
      rw [hy]
      exact h2


theorem isPlain_of_pyIsSpace {c : Char} (h : pyIsSpace c = true) : isPlain c = true := by
  by_cases hp : isPlain c = true
  · exact hp
  · exfalso
    simp only [isPlain, Bool.not_eq_true', Bool.not_eq_false, Bool.or_eq_true, decide_eq_true_eq] at hp
    rcases hp with (((rfl | rfl) | rfl) | rfl) | rfl <;> revert h <;> decide

theorem takeWhile_append_stop {α} (p : α → Bool) (b rest : List α) (hb : ∀ x ∈ b, p x = true)
    (hr : ∀ x, rest.head? = some x → p x = false) :
    (b ++ rest).takeWhile p = b ∧ (b ++ rest).dropWhile p = rest := by
  induction b with
  | nil =>
    cases rest with
    | nil => simp
    | cons r rest => simp [hr r rfl]
  | cons a b ih =>
    have := ih (fun x hx => hb x (List.mem_cons_of_mem _ hx))
    simp [hb a (by simp), this]

theorem endsNl_append_cons (b : Str) (c : Char) (t : Str) : endsNl (b ++ c :: t) = endsNl (c :: t) := by
  unfold endsNl
  rw [List.getLast?_append]
  have : (c :: t).getLast? = some ((c :: t).getLast (by simp)) := List.getLast?_eq_some_getLast _
  rw [this]
  simp

/-- the flag after blank text `b` read outside a parameter -/
def bitAfter (b : Str) (l : Bool) : Bool := match b with | [] => l | _ => endsNl b

theorem bitAfter_append (b t : Str) (l : Bool) : bitAfter (b ++ t) l = bitAfter t (bitAfter b l) := by
  cases t with
  | nil => simp [bitAfter]
  | cons c t =>
    cases b with
    | nil => simp [bitAfter]
    | cons d b =>
      show endsNl ((d :: b) ++ c :: t) = endsNl (c :: t)
      exact endsNl_append_cons _ _ _

/-- blank text outside a parameter, followed by the end of the text or a '#' -/
theorem go_blank (strict : Bool) (b rest : Str) (hb : isBlank b = true)
    (hr : rest = [] ∨ rest.head? = some '#') (l : Bool) (out : List Param) :
    go strict (b ++ rest) false l ⟨[], none, out⟩ = go strict rest false (bitAfter b l) ⟨[], none, out⟩ := by
  cases b with
  | nil => rfl
  | cons c b =>
    simp only [isBlank, List.all_cons, Bool.and_eq_true, List.all_eq_true] at hb
    have hr' : ∀ x, rest.head? = some x → isPlain x = false := by
      intro x hx
      rcases hr with rfl | h
      · simp at hx
      · rw [h] at hx
        simp only [Option.some.injEq] at hx
        subst hx
        decide
    obtain ⟨e1, e2⟩ := takeWhile_append_stop isPlain b rest (fun x hx => isPlain_of_pyIsSpace (hb.2 x hx)) hr'
    simp only [go, List.cons_append]
    rw [lexF_plain (isPlain_of_pyIsSpace hb.1), e1, e2, run_text_out]
    · rfl
    · simp only [strayOk, List.all_cons, Bool.or_eq_true, Bool.and_eq_true, List.all_eq_true]
      exact Or.inl (Or.inr ⟨hb.1, hb.2⟩)

/-- `Simfile.endsWithNl` (Model/Msd.lean) is the lexer's `endsNl` -/
theorem endsWithNl_eq (s : Str) : endsWithNl s = endsNl s := rfl

theorem safeParams_cons {p : Param} {ps : List Param} {l : Bool} (h : safeParams (p :: ps) l = true) :
    (∀ c ∈ p.comps, containsSub c slashes3 = false) ∧ (∃ l', scanComps p.comps l = some l') ∧
      safeParams ps true = true := by
  simp only [safeParams, Bool.and_eq_true, List.all_eq_true, Bool.not_eq_true'] at h
  obtain ⟨⟨_, h1⟩, h2⟩ := h
  refine ⟨h1, ?_⟩
  split at h2
  · simp at h2
  · rename_i x hx
    exact ⟨⟨x, hx⟩, h2⟩

theorem go_doc (strict : Bool) (is : List Item) :
    ∀ (b : Str) (l : Bool) (out : List Param), isBlank b = true →
    (∀ t, Item.text t ∈ is → isBlank t = true) → (∀ p ∈ paramsOf is, p.comps ≠ []) →
    safeParams (paramsOf is) (bitAfter (b ++ leadText is) l) = true →
    go strict (b ++ msd.renderDoc is) false l ⟨[], none, out⟩ =
      some { params := out ++ paramsOf is, strayError := false } := by
  induction is with
  | nil =>
    intro b l out hb _ _ _
    rw [show msd.renderDoc [] = [] from rfl, go_blank strict b [] hb (Or.inl rfl), go_nil_out]
    simp [paramsOf]
  | cons it is ih =>
    intro b l out hb ht hne hs
    cases it with
    | text t =>
      have hbt : isBlank (b ++ t) = true := by
        have := ht t (by simp)
        simp only [isBlank, List.all_append, Bool.and_eq_true] at hb this ⊢
        exact ⟨hb, this⟩
      have := ih (b ++ t) l out hbt (fun t' h' => ht t' (List.mem_cons_of_mem _ h'))
        (by simpa [paramsOf] using hne) (by simpa [paramsOf, leadText] using hs)
      have e : msd.renderDoc (Item.text t :: is) = t ++ msd.renderDoc is := by
        simp [Msd.renderDoc, Msd.renderItem]
      rw [e, ← List.append_assoc, this]
      simp [paramsOf]
    | param p =>
      have e : msd.renderDoc (Item.param p :: is) = renderParam p ++ msd.renderDoc is := by
        simp [Msd.renderDoc, Msd.renderItem, msd]
      have ep : paramsOf (Item.param p :: is) = p :: paramsOf is := by simp [paramsOf]
      rw [ep] at hs hne ⊢
      simp only [leadText, List.append_nil] at hs
      obtain ⟨h3, ⟨l', hl'⟩, hrest⟩ := safeParams_cons hs
      rw [e, go_blank strict b _ hb (Or.inr (by simp [renderParam]))]
      rw [go_param strict p (hne p (by simp)) _ l' out _ h3 hl']
      have := ih [] l' (out ++ [p]) rfl (fun t' h' => ht t' (List.mem_cons_of_mem _ h'))
        (fun q hq => hne q (List.mem_cons_of_mem _ hq))
        (safeParams_mono _ true _ (fun _ => rfl) hrest)
      rw [List.nil_append] at this
      rw [this]
      simp

/-- decidable form of "every text item is blank" -/
def textsBlank (is : List Item) : Bool := is.all fun | .text t => isBlank t | .param _ => true

theorem blank_of_textsBlank {is : List Item} (h : textsBlank is = true) :
    ∀ t, Item.text t ∈ is → isBlank t = true := by
  intro t ht
  simp only [textsBlank, List.all_eq_true] at h
  exact h _ ht

/-- equality of tokenizer results is decidable (for closed examples) -/
instance decEqResult : DecidableEq (Except Err (List Param)) := fun a b =>
  match a, b with
  | .ok x, .ok y => if h : x = y then isTrue (by rw [h]) else isFalse (fun e => h (by cases e; rfl))
  | .error x, .error y => if h : x = y then isTrue (by rw [h]) else isFalse (fun e => h (by cases e; rfl))
  | .ok _, .error _ => isFalse (fun e => by cases e)
  | .error _, .ok _ => isFalse (fun e => by cases e)

/-- a component whose first character is not one of `\ : ; #` is scanned the same for both start flags -/
theorem scanComp_flag_irrel (c : Char) (cs : Str) (h1 : c ≠ '\\') (h3 : c ≠ ':') (h4 : c ≠ ';') (h5 : c ≠ '#')
    (l : Bool) : scanComp (c :: cs) l = scanComp (c :: cs) false := by
  by_cases h2 : ∃ cs', c = '/' ∧ cs = '/' :: cs'
  · obtain ⟨cs', rfl, rfl⟩ := h2
    rw [scanComp_ss, scanComp_ss]
  · have h2' : ∀ (cs_1 : List Char), c = '/' → cs = '/' :: cs_1 → False :=
      fun cs' a b => h2 ⟨cs', a, b⟩
    rw [scanComp_other c cs l h1 h2' h3 h4, scanComp_other c cs false h1 h2' h3 h4]
    simp [h5]

theorem safeParams_flag_irrel (p : Param) (ps : List Param) (c : Char) (cs : Str) (hk : p.key = c :: cs)
    (h1 : c ≠ '\\') (h3 : c ≠ ':') (h4 : c ≠ ';') (h5 : c ≠ '#') (l : Bool) :
    safeParams (p :: ps) l = safeParams (p :: ps) false := by
  obtain ⟨comps⟩ := p
  cases comps with
  | nil => simp [Param.key] at hk
  | cons k rest =>
    simp only [Param.key, List.headD_cons] at hk
    subst hk
    simp only [safeParams, scanComps, scanComp_flag_irrel c cs h1 h3 h4 h5 l]

end Simfile.MsdP
