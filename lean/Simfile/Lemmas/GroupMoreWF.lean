/-
Lemmas for C09 (round 2): consequences of the all-streams theorem for `group_notes` and the counting
functions; well-formed charts.
-/
import Simfile.Lemmas.GroupMoreAnyMain
import Simfile.Lemmas.GroupMoreHolds
import Simfile.Lemmas.GroupMoreRows
namespace Simfile.GroupMore
open Simfile Simfile.Spec

/-! ### `group_notes` on arbitrary streams -/

theorem group_any_stream (o : GOpts) (ns : List Note) :
    (groupNotes o ns = .error .orphaned ∧ groupSpec o ns = .error .orphaned) ∨
    (∃ g g', groupNotes o ns = .ok g ∧ groupSpec o ns = .ok g' ∧ g.flatten.Perm g'.flatten ∧
      (o.sameBeat = .keepSeparate → g.Perm g')) := by
  unfold groupNotes groupSpec
  cases hj : o.join with
  | false => exact Or.inr ⟨_, _, rfl, rfl, List.Perm.refl _, fun _ => List.Perm.refl _⟩
  | true =>
    simp only [if_true]
    rcases JoinAny.join_perm_spec o (ns.filter fun n => o.incl.contains n.ntype) with ⟨e1, e2⟩ | ⟨a, b, e1, e2, hp⟩
    · rw [e1, e2]; exact Or.inl ⟨rfl, rfl⟩
    · rw [e1, e2]
      refine Or.inr ⟨_, _, rfl, rfl, ?_, ?_⟩
      · exact (Ungroup.rows_perm_beats o.sameBeat a).1.trans
          (hp.trans (Ungroup.rows_perm_beats o.sameBeat b).1.symm)
      · intro hm
        rw [hm, Runs.keepSeparate_rows, Runs.keepSeparate_rows]
        exact hp.map _

theorem count_holds_any (ns : List Note) (head : Char) (oh ot : Orphan) :
    countHoldsOrRolls ns head oh ot = holdsSpec ns head oh ot := by
  unfold countHoldsOrRolls holdsSpec groupNotes
  simp only [if_true]
  rcases JoinAny.join_perm_spec { incl := [head, cTAIL], join := true, orphanHead := oh, orphanTail := ot }
    (ns.filter fun n => [head, cTAIL].contains n.ntype) with ⟨e1, e2⟩ | ⟨a, b, e1, e2, hp⟩
  · rw [e1, e2]; rfl
  · rw [e1, e2]
    simp only [bind, Except.bind, pure, Except.pure]
    rw [Runs.keepSeparate_rows, Runs.countGrouped_singletons, hp.length_eq]

/-! ### well-formed charts -/

/-- in every column the hold heads, roll heads and tails come as head, tail, head, tail, … ending on
a tail (other note types are ignored: the counting functions filter them out before joining) -/
def WellFormed (ns : List Note) : Prop :=
  ∀ c ∈ ns.map (·.column), alternates ((ns.filter isHT).filter fun n => n.column = c) = true

instance (ns : List Note) : Decidable (WellFormed ns) := by unfold WellFormed; infer_instance

theorem WellFormed.all {ns : List Note} (h : WellFormed ns) (c : Nat) :
    alternates ((ns.filter isHT).filter fun n => n.column = c) = true := by
  by_cases hc : c ∈ ns.map (·.column)
  · exact h c hc
  · have : ((ns.filter isHT).filter fun n => n.column = c) = [] := by
      apply List.filter_eq_nil_iff.mpr
      intro n hn hcn
      exact hc (List.mem_map.mpr ⟨n, List.mem_of_mem_filter hn, by simpa using hcn⟩)
    rw [this]; rfl

theorem filter_HT (head : Char) (hh : isHead head = true) (ns : List Note) :
    (ns.filter isHT).filter (fun n => [head, cTAIL].contains n.ntype) =
      ns.filter fun n => [head, cTAIL].contains n.ntype := by
  rw [List.filter_filter]
  apply List.filter_congr
  intro n _
  by_cases h1 : n.ntype = head
  · simp [h1, isHT, hh]
  · by_cases h2 : n.ntype = cTAIL
    · simp [h2, isHT]
    · simp [h1, h2]

theorem countP_HT (p : Note → Bool) (hp : ∀ n, p n = true → isHT n = true) (ns : List Note) :
    (ns.filter isHT).countP p = ns.countP p := by
  rw [List.countP_filter]
  apply List.countP_congr
  intro n _
  constructor
  · intro h; simp only [Bool.and_eq_true] at h; exact h.1
  · intro h; simp only [Bool.and_eq_true]; exact ⟨h, hp n h⟩

/-- what the hold / roll counters return on a well-formed chart -/
theorem holdsSpec_wellformed (ns : List Note) (head : Char) (hh : isHead head = true) (hw : WellFormed ns)
    (oh ot : Orphan) :
    holdsSpec ns head oh ot =
      if ot = .raise ∧ 0 < ns.countP (otherHead head) then .error .orphaned
      else .ok (ns.countP (fun n => n.ntype = head) +
        if ot = .keep then ns.countP (otherHead head) else 0) := by
  rw [holdsSpec_eq, joinSpec_length]
  simp only
  obtain ⟨w1, w2, w3⟩ := wellformed_counts head hh (ns.filter isHT) hw.all
  rw [filter_HT head hh] at w1 w2 w3
  rw [countP_HT _ (by intro n h; simp only [decide_eq_true_eq] at h; simp [isHT, h, hh])] at w1
  rw [countP_HT _ (by intro n h; simp only [otherHead, Bool.and_eq_true] at h; simp [isHT, h.1])] at w3
  have w4 := nPlain_zero head hh (ns.filter fun n => [head, cTAIL].contains n.ntype) []
    (fun n hn => (List.mem_filter.mp hn).2)
  rw [w1, w2, w3, w4]
  simp

end Simfile.GroupMore

namespace Simfile.GroupMore
open Simfile Simfile.Spec

theorem holdsSpec_filter (ns : List Note) (head : Char) (oh ot : Orphan) :
    holdsSpec (ns.filter fun n => [head, cTAIL].contains n.ntype) head oh ot = holdsSpec ns head oh ot := by
  unfold holdsSpec
  simp only [List.filter_filter, Bool.and_self]

theorem otherHead_hold (n : Note) : otherHead cHOLD n = decide (n.ntype = cROLL) := by
  unfold otherHead isHead
  have d1 : ¬ cHOLD = cROLL := by decide
  have d2 : ¬ cROLL = cHOLD := by decide
  by_cases h1 : n.ntype = cHOLD
  · simp [h1, d1]
  · by_cases h2 : n.ntype = cROLL <;> simp [h1, h2, d2]

theorem otherHead_roll (n : Note) : otherHead cROLL n = decide (n.ntype = cHOLD) := by
  unfold otherHead isHead
  have d1 : ¬ cHOLD = cROLL := by decide
  have d2 : ¬ cROLL = cHOLD := by decide
  by_cases h1 : n.ntype = cROLL
  · simp [h1, d2]
  · by_cases h2 : n.ntype = cHOLD <;> simp [h1, h2, d1]

/-- only the heads of the counted type and the tails need to alternate -/
theorem holdsSpec_wellformed_filtered (ns : List Note) (head : Char) (hh : isHead head = true)
    (hw : WellFormed (ns.filter fun n => [head, cTAIL].contains n.ntype)) (oh ot : Orphan) :
    holdsSpec ns head oh ot = .ok (ns.countP fun n => n.ntype = head) := by
  rw [← holdsSpec_filter, holdsSpec_wellformed _ head hh hw]
  have h0 : (ns.filter fun n => [head, cTAIL].contains n.ntype).countP (otherHead head) = 0 := by
    rw [List.countP_eq_zero]
    intro n hn ho
    have h1 := (List.mem_filter.mp hn).2
    simp only [otherHead, Bool.and_eq_true, Bool.not_eq_true', decide_eq_false_iff_not] at ho
    simp only [List.contains_cons, List.contains_nil, Bool.or_false, Bool.or_eq_true, beq_iff_eq] at h1
    rcases h1 with e | e
    · exact ho.2 e
    · rw [e, isHead_tail'] at ho; cases ho.1
  have h1 : (ns.filter fun n => [head, cTAIL].contains n.ntype).countP (fun n => n.ntype = head) =
      ns.countP fun n => n.ntype = head := by
    rw [List.countP_filter]
    apply List.countP_congr
    intro n _
    by_cases h : n.ntype = head <;> simp [h]
  rw [h0, h1]
  simp

end Simfile.GroupMore
