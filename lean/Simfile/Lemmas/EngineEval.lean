/-
Closed-term evaluations of the executable engine model: the counter-example to "redundant BPM rows do
not matter" for the algorithm before the repair (`beatAtOld`), and the half-tick tie where even the
repaired `beatAt` depends on a redundant BPM row. Each pipeline stage is evaluated separately:
`events`, `states`, then the bisect loop and `beatsUntil` by kernel evaluation.
-/
import Simfile.Lemmas.EngineSpec
import Simfile.Props.C14
namespace Simfile

def cexTd0 : TimingData := { bpms := [(0,60)], stops := [(5,1)], delays := [], warps := [(4,4)], offset := 0 }
def cexTd1 : TimingData := { cexTd0 with bpms := [(0,60),(1,60),(2,60)] }

theorem merge2_nil_right (xs : List TEvent) : merge2 xs [] = xs := by
  cases xs <;> simp [merge2]

theorem onGrid_of_int (x : Rat) (n : Int) (h : x = (n : Rat) / 48) : onGrid x :=
  ⟨n, by rw [C14.ticks_is_48]; exact h⟩

theorem roundToTick_four : roundToTick 4 = 4 := by decide +kernel

theorem cexTd0_dom : C11.Dom cexTd0 := by
  have g0 : onGrid 0 := onGrid_of_int 0 0 (by norm_num)
  have g4 : onGrid 4 := onGrid_of_int 4 192 (by norm_num)
  have g5 : onGrid 5 := onGrid_of_int 5 240 (by norm_num)
  constructor
  · simp [cexTd0]
  · simp [cexTd0]
  · intro e he; simp [cexTd0] at he; subst he; norm_num
  · simp [cexTd0]
  · intro e he; simp [cexTd0] at he; subst he; exact ⟨le_refl _, g0⟩
  · intro e he; simp [cexTd0] at he; subst he; norm_num
  · simp [cexTd0]
  · intro e he; simp [cexTd0] at he; subst he; exact ⟨by norm_num, g5⟩
  · intro e he; simp [cexTd0] at he
  · simp [cexTd0]
  · intro e he; simp [cexTd0] at he
  · intro e he; simp [cexTd0] at he; subst he; rw [roundToTick_four]; norm_num
  · simp [cexTd0]
  · intro e he; simp [cexTd0] at he; subst he; exact ⟨by norm_num, g4⟩

theorem cexTd1_dom : C11.Dom cexTd1 := by
  have g0 : onGrid 0 := onGrid_of_int 0 0 (by norm_num)
  have g1 : onGrid 1 := onGrid_of_int 1 48 (by norm_num)
  have g2 : onGrid 2 := onGrid_of_int 2 96 (by norm_num)
  have g4 : onGrid 4 := onGrid_of_int 4 192 (by norm_num)
  have g5 : onGrid 5 := onGrid_of_int 5 240 (by norm_num)
  constructor
  · simp [cexTd1]
  · simp [cexTd1]
  · intro e he; simp [cexTd1] at he; rcases he with rfl | rfl | rfl <;> norm_num
  · simp [cexTd1]
  · intro e he; simp [cexTd1] at he; rcases he with rfl | rfl | rfl
    · exact ⟨le_refl _, g0⟩
    · exact ⟨by norm_num, g1⟩
    · exact ⟨by norm_num, g2⟩
  · intro e he; simp [cexTd1, cexTd0] at he; subst he; norm_num
  · simp [cexTd1, cexTd0]
  · intro e he; simp [cexTd1, cexTd0] at he; subst he; exact ⟨by norm_num, g5⟩
  · intro e he; simp [cexTd1, cexTd0] at he
  · simp [cexTd1, cexTd0]
  · intro e he; simp [cexTd1, cexTd0] at he
  · intro e he; simp [cexTd1, cexTd0] at he; subst he; rw [roundToTick_four]; norm_num
  · simp [cexTd1, cexTd0]
  · intro e he; simp [cexTd1, cexTd0] at he; subst he; exact ⟨by norm_num, g4⟩

/-! ### stage 1: events -/

theorem coalesce_cex : coalesceWarps [((4 : Rat), (4 : Rat))] = ([4], [8]) := by decide +kernel

theorem events_cexTd0 :
    events cexTd0 = [⟨4,0,.warp⟩, ⟨5,1,.stop⟩, ⟨5,1,.stopEnd⟩, ⟨8,0,.warpEnd⟩] := by
  norm_num [events, cexTd0, coalesce_cex, merge2, merge2_nil_right, TEvent.lt, keyLT]

theorem events_cexTd1 :
    events cexTd1 = [⟨1,60,.bpm⟩, ⟨2,60,.bpm⟩, ⟨4,0,.warp⟩, ⟨5,1,.stop⟩, ⟨5,1,.stopEnd⟩, ⟨8,0,.warpEnd⟩] := by
  norm_num [events, cexTd1, cexTd0, coalesce_cex, merge2, merge2_nil_right, TEvent.lt, keyLT]

/-! ### stage 2: states -/

theorem states_cexTd0 : states cexTd0 =
    [⟨0,60,.bpm,0,60,false⟩, ⟨4,0,.warp,4,60,true⟩, ⟨5,1,.stop,4,60,true⟩,
     ⟨5,1,.stopEnd,5,60,true⟩, ⟨8,0,.warpEnd,5,60,false⟩] := by
  rw [states, events_cexTd0]
  decide +kernel

theorem states_cexTd1 : states cexTd1 =
    [⟨0,60,.bpm,0,60,false⟩, ⟨1,60,.bpm,1,60,false⟩, ⟨2,60,.bpm,2,60,false⟩,
     ⟨4,0,.warp,4,60,true⟩, ⟨5,1,.stop,4,60,true⟩,
     ⟨5,1,.stopEnd,5,60,true⟩, ⟨8,0,.warpEnd,5,60,false⟩] := by
  rw [states, events_cexTd1]
  decide +kernel

/-! ### stage 3: the searches -/

theorem cex_old0 : beatAtOld cexTd0 5 .stop = 8 := by
  rw [beatAtOld, Engine.beatAtOld, mkEngine]
  simp only [states_cexTd0]
  decide +kernel

theorem cex_old1 : beatAtOld cexTd1 5 .stop = 5 := by
  rw [beatAtOld, Engine.beatAtOld, mkEngine]
  simp only [states_cexTd1]
  decide +kernel

theorem cex_new0 : beatAt cexTd0 5 .stop = 8 := by
  rw [beatAt, Engine.beatAt, Engine.priorByTime, mkEngine]
  simp only [states_cexTd0]
  decide +kernel

theorem cex_new1 : beatAt cexTd1 5 .stop = 8 := by
  rw [beatAt, Engine.beatAt, Engine.priorByTime, mkEngine]
  simp only [states_cexTd1]
  decide +kernel

/-- the algorithm before the repair depends on redundant BPM rows; the repaired one does not (here) -/
theorem cex_old : beatAtOld cexTd0 5 .stop = 8 ∧ beatAtOld cexTd1 5 .stop = 5 ∧
    beatAt cexTd0 5 .stop = 8 ∧ beatAt cexTd1 5 .stop = 8 :=
  ⟨cex_old0, cex_old1, cex_new0, cex_new1⟩

/-! ### the half-tick tie -/

/-- at an exact half tick the ties-to-even rounding makes even the repaired `beat_at` depend on a redundant BPM row -/
def tieTd : TimingData := { bpms := [(0,60)], stops := [], delays := [], warps := [], offset := 0 }

theorem tieTd_dom : C11.Dom tieTd := by
  have g0 : onGrid 0 := onGrid_of_int 0 0 (by norm_num)
  constructor
  · simp [tieTd]
  · simp [tieTd]
  · intro e he; simp [tieTd] at he; subst he; norm_num
  · simp [tieTd]
  · intro e he; simp [tieTd] at he; subst he; exact ⟨le_refl _, g0⟩
  all_goals first | (intro e he; simp [tieTd] at he) | simp [tieTd]

theorem tie_hyps : onGrid (1/48 : Rat) ∧ (0 : Rat) < 1/48 ∧ ∀ e ∈ tieTd.bpms, e.1 ≠ 1/48 := by
  refine ⟨onGrid_of_int _ 1 (by norm_num), by norm_num, ?_⟩
  intro e he; simp [tieTd] at he; subst he; norm_num

theorem withBpm_tieTd : withBpm tieTd (1/48) =
    { bpms := [(0,60),(1/48,60)], stops := [], delays := [], warps := [], offset := 0 } := by
  have h : insertBpm (1/48) (Spec.bpmOn tieTd (1/48)) tieTd.bpms = [(0,60),(1/48,60)] := by
    decide +kernel
  rw [withBpm, h]; rfl

theorem events_tieTd : events tieTd = [] := by
  simp [events, tieTd, coalesceWarps, merge2]

theorem events_tieTd' : events (withBpm tieTd (1/48)) = [⟨1/48,60,.bpm⟩] := by
  rw [withBpm_tieTd]
  simp [events, coalesceWarps, merge2]

theorem states_tieTd : states tieTd = [⟨0,60,.bpm,0,60,false⟩] := by
  rw [states, events_tieTd]
  decide +kernel

theorem states_tieTd' : states (withBpm tieTd (1/48)) =
    [⟨0,60,.bpm,0,60,false⟩, ⟨1/48,60,.bpm,1/48,60,false⟩] := by
  rw [states, events_tieTd']
  decide +kernel

theorem cex_tie0 : beatAt tieTd (3/96) .stop = 1/24 := by
  rw [beatAt, Engine.beatAt, Engine.priorByTime, mkEngine]
  simp only [states_tieTd]
  decide +kernel

theorem cex_tie1 : beatAt (withBpm tieTd (1/48)) (3/96) .stop = 1/48 := by
  rw [beatAt, Engine.beatAt, Engine.priorByTime, mkEngine]
  simp only [states_tieTd']
  decide +kernel

theorem cex_tie : beatAt tieTd (3/96) .stop = 1/24 ∧ beatAt (withBpm tieTd (1/48)) (3/96) .stop = 1/48 :=
  ⟨cex_tie0, cex_tie1⟩

theorem cex_tie_ne : beatAt (withBpm tieTd (1/48)) (3/96) .stop ≠ beatAt tieTd (3/96) .stop := by
  rw [cex_tie0, cex_tie1]; norm_num

end Simfile

