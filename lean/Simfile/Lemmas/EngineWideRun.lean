/-
C11 under the wider domain, part 4: every state of the machine satisfies the invariant of appendix A.2,
which state the bisect search selects, and the refinement `timeAt = timeSpec`. The `Dom` lemmas of
Simfile/Lemmas/EngineRun.lean, EngineQuery.lean and EngineMain.lean re-proved from `Dom0`. What changes:
a warp segment may be empty (`sg.1 = sg.2`: the keys `(b, WARP) < (b, WARP_END)` are still in order), and a
zero-length warp on beat 0 puts TWO events, `(0, WARP)` and `(0, WARP_END)`, before the key `(0, BPM)` of the
initial state.
-/
import Simfile.Lemmas.EngineMain
import Simfile.Lemmas.EngineWideStates
namespace Simfile.Wide
open Simfile C11

variable {td : TimingData}

theorem seg_key_lt {sg : Rat × Rat} (h : sg.1 ≤ sg.2) : key sg.1 .warp < key sg.2 .warpEnd := by
  rcases lt_or_eq_of_le h with h1 | h1
  · exact key_lt.2 (Or.inl h1)
  · exact key_lt.2 (Or.inr ⟨h1, by simp⟩)

/-- one transition preserves the invariant -/
theorem advance_inv (hd : Dom0 td) (s : TState) (hs : StInv td s) (e : TEvent) (he : e ∈ events td)
    (hlt : skey s < ekey e) (hno : NoneBetween td (skey s) (ekey e)) : StInv td (advance s e) := by
  obtain ⟨s1, s2, s3⟩ := segs_facts hd
  have hle := le_of_lt hlt
  refine ⟨?_, ?_, ?_, (event_beat_ok hd he).1, (event_beat_ok hd he).2, ?_, ?_⟩
  · exact step_time hd s hs e.beat e.tag hle hno
  · show (if e.tag = .bpm then e.value else s.bpm) = bpmBefore td (key e.beat e.tag)
    by_cases ht : e.tag = .bpm
    · rw [if_pos ht, ht]
      symm
      unfold bpmBefore
      apply foldSel_mem e.beat e.value _ _ (tail_sorted hd) (events_bpm he ht)
      intro e' _
      rw [key_le]
      simp only [val_bpm, le_refl, and_true]
      exact le_iff_lt_or_eq.symm
    · rw [if_neg ht, hs.bpm]
      apply bpmBefore_congr td hle
      intro e' he' ht' hh
      rcases eq_or_lt_of_le hh.2 with heq | hl
      · exact ht ((key_eq.1 heq).2 ▸ ht')
      · exact hno e' he' ⟨hh.1, hl⟩
  · show (if e.tag = .warp then true else if e.tag = .warpEnd then false else s.warp) = true ↔
      warpBefore td (key e.beat e.tag)
    by_cases hw : e.tag = .warp
    · obtain ⟨sg, hsg, hb⟩ := events_warp he hw
      rw [if_pos hw, hw, ← hb]
      simp only [true_iff]
      exact ⟨sg, hsg, le_refl _, seg_key_lt (s2 sg hsg)⟩
    · by_cases hwe : e.tag = .warpEnd
      · obtain ⟨sg, hsg, hb⟩ := events_warpEnd he hwe
        rw [if_neg hw, if_pos hwe, hwe, ← hb]
        simp only [Bool.false_eq_true, false_iff]
        rintro ⟨sg', hsg', h1, h2⟩
        have b1 := beat_le_of_key_le h1
        have b2 : sg.2 < sg'.2 := by
          rcases key_lt.1 h2 with h3 | h3
          · exact h3
          · exact absurd h3.2 (lt_irrefl _)
        rcases pairwise_trichotomy s1 hsg hsg' with h3 | h3 | h3
        · rw [h3] at b2; exact lt_irrefl _ b2
        · linarith
        · have := s2 sg hsg; linarith
      · rw [if_neg hw, if_neg hwe, hs.warp]
        apply warpBefore_congr td hle
        intro e' he' ht' hh
        rcases eq_or_lt_of_le hh.2 with heq | hl
        · have := (key_eq.1 heq).2
          rcases ht' with ht' | ht'
          · exact hw (this ▸ ht')
          · exact hwe (this ▸ ht')
        · exact hno e' he' ⟨hh.1, hl⟩
  · intro ht; exact events_stop he ht
  · intro ht; exact events_delay he ht

theorem pausedK_low (hd : Dom0 td) {κ : K} (hκ : κ < key 0 .delayEnd) : pausedK td κ = 0 := by
  unfold pausedK
  rw [foldSum_none, foldSum_none, add_zero]
  · intro d hd' hle
    have h1 := lt_of_le_of_lt hle hκ
    have := (hd.stops_grid d hd').1
    rcases key_lt.1 h1 with h2 | h2
    · linarith
    · have := h2.2; simp at this
  · intro d hd' hle
    have h1 := lt_of_le_of_lt hle hκ
    have := (hd.delays_grid d hd').1
    rcases key_lt.1 h1 with h2 | h2
    · linarith
    · have := h2.2; simp at this

theorem bpmBefore_low (hd : Dom0 td) {κ : K} (hκ : κ ≤ key 0 .stopEnd) :
    bpmBefore td κ = (td.bpms.headD (0, 0)).2 := by
  unfold bpmBefore
  apply foldSel_none
  intro e he hle
  have h1 := le_trans hle hκ
  have := tail_beats_pos hd e he
  have := beat_le_of_key_le h1
  linarith

theorem init_inv (hd : Dom0 td) (hno : ∀ e ∈ events td, ¬ ekey e ≤ key 0 .bpm) : StInv td (initState td) := by
  obtain ⟨s1, s2, s3⟩ := segs_facts hd
  refine ⟨?_, ?_, ?_, le_refl _, onGrid_zero, ?_, ?_⟩
  · show -td.offset = Spec.timeSpec td 0 .bpm
    rw [timeSpec_eq, paused_eq_K, pausedK_low hd (key_lt.2 (Or.inr ⟨rfl, by simp⟩)), travel_zero]
    ring
  · show (td.bpms.headD (0, 0)).2 = bpmBefore td (key 0 .bpm)
    rw [bpmBefore_low hd (key_le.2 (Or.inr ⟨rfl, by simp⟩))]
  · show false = true ↔ warpBefore td (key 0 .bpm)
    simp only [Bool.false_eq_true, false_iff]
    rintro ⟨sg, hsg, h1, _⟩
    exact hno _ (ev_warp hsg) h1
  · intro h; cases h
  · intro h; cases h

/-- the state after a first event `(0, WARP)` -/
theorem first_warp_inv (hd : Dom0 td) (e : TEvent) (he : e ∈ events td) (ht : e.tag = .warp)
    (hb : e.beat = 0) : StInv td (advance (initState td) e) := by
  obtain ⟨s1, s2, s3⟩ := segs_facts hd
  obtain ⟨sg, hsg, hsb⟩ := events_warp he ht
  refine ⟨?_, ?_, ?_, ?_, ?_, ?_, ?_⟩
  · show -td.offset + (initState td).timeUntil e.beat e.tag = Spec.timeSpec td e.beat e.tag
    rw [hb, ht, timeSpec_eq, paused_eq_K, pausedK_low hd (key_lt.2 (Or.inr ⟨rfl, by simp⟩)), travel_zero]
    simp [TState.timeUntil, initState]
  · show (if e.tag = .bpm then e.value else (td.bpms.headD (0, 0)).2) = bpmBefore td (key e.beat e.tag)
    rw [hb, ht, bpmBefore_low hd (key_le.2 (Or.inr ⟨rfl, by simp⟩))]
    simp
  · show (if e.tag = .warp then true else if e.tag = .warpEnd then false else false) = true ↔
      warpBefore td (key e.beat e.tag)
    rw [if_pos ht, ht, ← hsb]
    simp only [true_iff]
    exact ⟨sg, hsg, le_refl _, seg_key_lt (s2 sg hsg)⟩
  · show 0 ≤ e.beat
    rw [hb]
  · show onGrid e.beat
    rw [hb]; exact onGrid_zero
  · intro h
    have : e.tag = .stop := h
    rw [ht] at this; cases this
  · intro h
    have : e.tag = .delay := h
    rw [ht] at this; cases this

/-- an event with key at most `(0, BPM)` lies on beat 0 and is a warp start, or (the end of a zero-length
warp on beat 0) comes after another event -/
theorem low_event (hd : Dom0 td) (e : TEvent) (he : e ∈ events td) (hle : ekey e ≤ key 0 .bpm) :
    (e.tag = .warp ∨ ∃ e' ∈ events td, ekey e' < ekey e) ∧ e.beat = 0 := by
  obtain ⟨s1, s2, s3⟩ := segs_facts hd
  have hb0 := (event_beat_ok hd he).1
  have hb1 := beat_le_of_key_le hle
  have hb : e.beat = 0 := le_antisymm hb1 hb0
  refine ⟨?_, hb⟩
  have hv : e.tag.val ≤ 2 := by
    rcases key_le.1 hle with h | h
    · linarith
    · simpa using h.2
  cases ht : e.tag
  · exact Or.inl rfl
  · obtain ⟨sg, hsg, h⟩ := events_warpEnd he ht
    have h1 := s2 sg hsg
    have h2 := (s3 sg hsg).1
    right
    refine ⟨_, ev_warp hsg, ?_⟩
    unfold ekey
    rw [ht]
    apply key_lt.2
    right
    exact ⟨by simp only; linarith, by simp⟩
  · have := tail_beats_pos hd _ (events_bpm he ht)
    simp only at this
    linarith
  all_goals (rw [ht] at hv; simp at hv)

theorem run_inv (hd : Dom0 td) : ∀ (es : List TEvent) (s : TState), StInv td s → SSorted es →
    (∀ e ∈ es, skey s < ekey e) → (∀ e ∈ es, e ∈ events td) →
    (∀ e ∈ events td, ekey e ≤ skey s ∨ e ∈ es) → ∀ s' ∈ run s es, StInv td s' := by
  intro es
  induction es with
  | nil => intro s _ _ _ _ _ s' hs'; exact absurd hs' List.not_mem_nil
  | cons e es ih =>
    intro s hs hsort hlt hmem hall s' hs'
    have hsort' := List.pairwise_cons.1 hsort
    have hinv : StInv td (advance s e) := by
      apply advance_inv hd s hs e (hmem e List.mem_cons_self) (hlt e List.mem_cons_self)
      intro x hx hh
      rcases hall x hx with h1 | h1
      · exact absurd (lt_of_lt_of_le hh.1 h1) (lt_irrefl _)
      · rcases List.mem_cons.1 h1 with rfl | h2
        · exact lt_irrefl _ hh.2
        · exact absurd (lt_trans hh.2 (hsort'.1 x h2)) (lt_irrefl _)
    rcases List.mem_cons.1 hs' with rfl | hs''
    · exact hinv
    · apply ih (advance s e) hinv hsort'.2 (fun x hx => hsort'.1 x hx)
        (fun x hx => hmem x (List.mem_cons_of_mem _ hx)) _ s' hs''
      intro x hx
      rcases hall x hx with h1 | h1
      · exact Or.inl (le_trans h1 (le_of_lt (hlt e List.mem_cons_self)))
      · rcases List.mem_cons.1 h1 with rfl | h2
        · exact Or.inl (le_refl _)
        · exact Or.inr h2

/-- every state after the initial one satisfies the invariant -/
theorem states_inv (hd : Dom0 td) : ∀ s' ∈ run (initState td) (events td), StInv td s' := by
  have hsorted := ssorted_events td hd
  cases hE : events td with
  | nil => intro s' hs'; exact absurd hs' List.not_mem_nil
  | cons e es =>
    rw [hE] at hsorted
    have hsort' := List.pairwise_cons.1 hsorted
    have he : e ∈ events td := by rw [hE]; exact List.mem_cons_self
    by_cases h0 : ekey e ≤ key 0 .bpm
    · obtain ⟨ht, hb⟩ := low_event hd e he h0
      have ht : e.tag = .warp := by
        rcases ht with ht | ⟨e', he', hlt'⟩
        · exact ht
        · rw [hE] at he'
          rcases List.mem_cons.1 he' with rfl | h2
          · exact absurd hlt' (lt_irrefl _)
          · exact absurd (lt_trans hlt' (hsort'.1 e' h2)) (lt_irrefl _)
      have hinv := first_warp_inv hd e he ht hb
      intro s' hs'
      rcases List.mem_cons.1 hs' with rfl | hs''
      · exact hinv
      · apply run_inv hd es (advance (initState td) e) hinv hsort'.2 (fun x hx => hsort'.1 x hx)
          (fun x hx => by rw [hE]; exact List.mem_cons_of_mem _ hx) _ s' hs''
        intro x hx
        rw [hE] at hx
        rcases List.mem_cons.1 hx with rfl | h2
        · exact Or.inl (le_refl _)
        · exact Or.inr h2
    · have h0' := not_le.1 h0
      have hall : ∀ x ∈ events td, key 0 .bpm < ekey x := by
        intro x hx
        rw [hE] at hx
        rcases List.mem_cons.1 hx with rfl | h2
        · exact h0'
        · exact lt_trans h0' (hsort'.1 x h2)
      have hinit := init_inv hd (fun x hx => not_le.2 (hall x hx))
      have := run_inv hd (e :: es) (initState td) hinit hsorted
        (fun x hx => hall x (by rw [hE]; exact hx)) (fun x hx => by rw [hE]; exact hx)
        (fun x hx => Or.inr (by rw [hE] at hx; exact hx))
      exact this

/-- the state selected by the search: either the initial state (for a key before `(0, BPM)`, or for a
key before every event), or a later state that satisfies the invariant, whose key is at most the
query and with no event key in between -/
theorem prior_cases (hd : Dom0 td) (b : Rat) (g : Tag) :
    ((mkEngine td).priorState b g = initState td ∧
      (key b g < key 0 .bpm ∨ (key 0 .bpm ≤ key b g ∧ ∀ e ∈ events td, key b g < ekey e))) ∨
    (StInv td ((mkEngine td).priorState b g) ∧ skey ((mkEngine td).priorState b g) ≤ key b g ∧
      ∀ e ∈ events td, ekey e ≤ skey ((mkEngine td).priorState b g) ∨ key b g < ekey e) := by
  have hE := ssorted_events td hd
  have hpw := List.pairwise_iff_getElem.1 hE
  have hinv := states_inv hd
  have hlen := run_length (initState td) (events td)
  have hss : states td = initState td :: run (initState td) (events td) := states_eq_run td
  obtain ⟨h1, h2, h3⟩ := bisect_boundary (fun (s : TState) => keyLT (b, g) (s.beat, s.tag)) (states td)
  rw [priorState_eq]
  generalize bisectRightLoop (fun (s : TState) => keyLT (b, g) (s.beat, s.tag)) (states td).toArray
        ((states td).toArray.size + 1) 0 (states td).toArray.size = r at h1 h2 h3 ⊢
  rw [hss] at h1 h2 h3 ⊢
  simp only [List.length_cons] at h1 h3
  -- all events with index above k are beyond the query as soon as the one at k+1 is
  match r, h1, h2, h3 with
  | 0, _, _, h3 =>
    left
    refine ⟨by simp, Or.inl ?_⟩
    rcases h3 with h3 | ⟨y, hy, hlt⟩
    · omega
    · simp only [List.getElem?_cons_zero, Option.some.injEq] at hy
      subst hy
      exact (ltq_true b g _).1 hlt
  | 1, _, h2, h3 =>
    left
    refine ⟨by simp, Or.inr ?_⟩
    rcases h2 with h2 | ⟨y, hy, hnlt⟩
    · omega
    · simp only [Nat.sub_self, List.getElem?_cons_zero, Option.some.injEq] at hy
      subst hy
      refine ⟨(ltq_false b g _).1 hnlt, ?_⟩
      rcases h3 with h3 | ⟨y, hy, hlt⟩
      · have : (events td).length = 0 := by omega
        intro e he
        rw [List.length_eq_zero_iff.1 this] at he
        exact absurd he List.not_mem_nil
      · rw [List.getElem?_cons_succ] at hy
        obtain ⟨hk, hkey⟩ := run_key_at _ _ 0 y hy
        have hq := (ltq_true b g y).1 hlt
        rw [hkey] at hq
        intro e he
        obtain ⟨j, hj, rfl⟩ := List.getElem_of_mem he
        rcases Nat.eq_zero_or_pos j with rfl | hjpos
        · exact hq
        · exact lt_trans hq (hpw 0 j hk hj hjpos)
  | k + 2, h1, h2, h3 =>
    right
    have hkl : k < (run (initState td) (events td)).length := by omega
    have hget : (initState td :: run (initState td) (events td))[k + 2 - 1]? =
        some (run (initState td) (events td))[k] := by
      rw [show k + 2 - 1 = k + 1 from rfl, List.getElem?_cons_succ, List.getElem?_eq_getElem hkl]
    rw [hget]
    simp only [Option.getD_some]
    set s := (run (initState td) (events td))[k] with hs
    have hsget : (run (initState td) (events td))[k]? = some s := List.getElem?_eq_getElem hkl
    obtain ⟨hk, hkey⟩ := run_key_at _ _ k s hsget
    refine ⟨hinv s (List.getElem_mem hkl), ?_, ?_⟩
    · rcases h2 with h2 | ⟨y, hy, hnlt⟩
      · omega
      · rw [hget] at hy
        rw [← Option.some.inj hy] at hnlt
        exact (ltq_false b g s).1 hnlt
    · intro e he
      obtain ⟨j, hj, rfl⟩ := List.getElem_of_mem he
      by_cases hjk : j ≤ k
      · left
        rw [hkey]
        rcases Nat.lt_or_eq_of_le hjk with hlt | rfl
        · exact le_of_lt (hpw j k hj hk hlt)
        · exact le_refl _
      · right
        rcases h3 with h3 | ⟨y, hy, hlt⟩
        · omega
        · rw [List.getElem?_cons_succ] at hy
          obtain ⟨hk1, hkey1⟩ := run_key_at _ _ (k + 1) y hy
          have hq := (ltq_true b g y).1 hlt
          rw [hkey1] at hq
          rcases Nat.lt_or_eq_of_le (show k + 1 ≤ j by omega) with hlt2 | heq
          · exact lt_trans hq (hpw (k + 1) j hk1 hj hlt2)
          · subst heq; exact hq

/-- queries before the key `(0, BPM)` extrapolate from the initial state -/
theorem init_low (hd : Dom0 td) (b : Rat) (g : Tag) (hq : key b g < key 0 .bpm) :
    (initState td).time + (initState td).timeUntil b g = Spec.timeSpec td b g := by
  have hp : pausedK td (key b g) = 0 :=
    pausedK_low hd (lt_trans hq (key_lt.2 (Or.inr ⟨rfl, by simp⟩)))
  rw [timeSpec_eq, paused_eq_K, hp]
  rcases key_lt.1 hq with hb | ⟨hb, _⟩
  · unfold travel
    rw [if_pos hb]
    simp [TState.timeUntil, initState]
  · rw [hb, travel_zero]
    simp [TState.timeUntil, initState]

/-- the selected state: its invariant, its key and the gap up to the query, for queries at or after
`(0, BPM)` -/
theorem prior_high (hd : Dom0 td) (b : Rat) (g : Tag) (hq : key 0 .bpm ≤ key b g) :
    StInv td ((mkEngine td).priorState b g) ∧ skey ((mkEngine td).priorState b g) ≤ key b g ∧
      ∀ e ∈ events td, ekey e ≤ skey ((mkEngine td).priorState b g) ∨ key b g < ekey e := by
  rcases prior_cases hd b g with ⟨hs, hlow | ⟨hle, hall⟩⟩ | h
  · exact absurd (lt_of_lt_of_le hlow hq) (lt_irrefl _)
  · rw [hs]
    refine ⟨init_inv hd (fun e he hle' => ?_), hle, fun e he => Or.inr (hall e he)⟩
    exact lt_irrefl _ (lt_of_lt_of_le (lt_of_le_of_lt hle (hall e he)) hle')
  · exact h

theorem timeAt_eq_spec (hd : Dom0 td) (b : Rat) (g : Tag) : timeAt td b g = Spec.timeSpec td b g := by
  unfold timeAt Engine.timeAt
  rcases lt_or_ge (key b g) (key 0 .bpm) with hlow | hhigh
  · rcases prior_cases hd b g with ⟨hs, _⟩ | ⟨hinv, hle, hno⟩
    · rw [hs]; exact init_low hd b g hlow
    · exact step_time hd _ hinv b g hle (noneBetween_of_split hno)
  · obtain ⟨hinv, hle, hno⟩ := prior_high hd b g hhigh
    exact step_time hd _ hinv b g hle (noneBetween_of_split hno)

theorem bpmAt_eq_spec (hd : Dom0 td) (b : Rat) :
    bpmAt td b = if b < 0 then (td.bpms.headD (0, 0)).2 else Spec.bpmOn td b := by
  unfold bpmAt Engine.bpmAt
  by_cases hb : b < 0
  · rw [if_pos hb, if_pos hb]; rfl
  · rw [if_neg hb, if_neg hb]
    have hq : key 0 .bpm ≤ key b .bpm := by
      rcases lt_or_eq_of_le (not_lt.1 hb) with h | h
      · exact key_le.2 (Or.inl h)
      · exact key_le.2 (Or.inr ⟨h, le_refl _⟩)
    obtain ⟨hinv, hle, hno⟩ := prior_high hd b .bpm hq
    rw [hinv.bpm, bpmOn_eq_before td hd b .bpm (by simp)]
    apply bpmBefore_congr td hle
    intro e he _ hh
    rcases hno e he with h1 | h1
    · exact lt_irrefl _ (lt_of_lt_of_le hh.1 h1)
    · exact lt_irrefl _ (lt_of_le_of_lt hh.2 h1)

end Simfile.Wide
