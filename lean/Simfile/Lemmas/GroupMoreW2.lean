/-
Lemmas for C09 (round 2): one iteration of the join loop is the abstract step, under the invariant
`GoodW` that tolerates repeated notes (re-doing Lemmas/GroupJoinStep.lean).
-/
import Simfile.Lemmas.GroupMoreW1
namespace Simfile.JoinW
open Simfile Simfile.Spec Simfile.Join

/-- the arriving note does not repeat an earlier hold/roll head while orphaned heads are kept -/
def Fresh (o : GOpts) (A : List AN) (n : Note) : Prop :=
  isHead n.ntype = true → o.orphanHead = .keep → n ∉ A.map (·.1)

theorem mem_closeCol_none {c : Nat} {cl : Cls} {A : List AN} {m : Note} :
    (m, none) ∈ closeCol c cl A → (m, none) ∈ A ∧ m.column ≠ c := by
  intro h
  obtain ⟨x, hx, e⟩ := List.mem_map.mp h
  rcases x with ⟨m', k⟩
  by_cases hc : k = none ∧ m'.column = c
  · rw [if_pos hc] at e; cases e
  · rw [if_neg hc] at e
    obtain ⟨rfl, rfl⟩ := Prod.mk.inj e
    exact ⟨hx, fun hcol => hc ⟨rfl, hcol⟩⟩

theorem mem_closeCol_some {c : Nat} {cl : Cls} {A : List AN} {m : Note} {k : Cls} :
    (m, some k) ∈ closeCol c cl A → (m, some k) ∈ A ∨ ((m, none) ∈ A ∧ m.column = c ∧ k = cl) := by
  intro h
  obtain ⟨x, hx, e⟩ := List.mem_map.mp h
  rcases x with ⟨m', k'⟩
  by_cases hc : k' = none ∧ m'.column = c
  · rw [if_pos hc] at e
    obtain ⟨rfl, e2⟩ := Prod.mk.inj e
    obtain ⟨rfl, hcol⟩ := hc
    exact Or.inr ⟨hx, hcol, (Option.some.inj e2).symm⟩
  · rw [if_neg hc] at e
    obtain ⟨rfl, rfl⟩ := Prod.mk.inj e
    exact Or.inl hx

theorem plain_mem_pimage {o : GOpts} {n m : Note} {k : Option Cls} (h : GNote.plain n ∈ pimage o (m, k)) :
    n = m := by
  rcases mem_pimage h with e | ⟨tb, e⟩
  · exact GNote.plain.inj e
  · cases e

theorem GoodW.closeCol {o : GOpts} {A : List AN} (g : GoodW o A) (c : Nat) (cl : Cls)
    (hcl : cl = .orphanHead ∨ ∃ tb, cl = .joined tb) : GoodW o (closeCol c cl A) := by
  refine ⟨?_, ?_, ?_, ?_⟩
  · rw [opens_closeCol]
    exact List.Nodup.sublist (List.filter_sublist.map _) g.cols
  · intro m hm; exact g.heads m (mem_closeCol_none hm).1
  · intro m k hm hh
    rcases mem_closeCol_some hm with h1 | ⟨_, _, rfl⟩
    · exact g.cls m k h1 hh
    · exact hcl
  · intro m hm y hy hs hmem
    obtain ⟨hm1, hm2⟩ := mem_closeCol_none hm
    rcases y with ⟨m', _ | k⟩
    · cases hs
    · rcases mem_closeCol_some hy with h1 | ⟨_, hcol, rfl⟩
      · exact g.sep m hm1 _ h1 rfl hmem
      · have := plain_mem_pimage hmem
        subst this
        exact hm2 hcol

theorem GoodW.snoc {o : GOpts} {A : List AN} (g : GoodW o A) (n : Note) (k : Option Cls)
    (hk1 : k = none → hasOpen n.column A = false) (hk2 : k.isNone = isHead n.ntype)
    (hn : isHead n.ntype = true → ∀ y ∈ A, y.2.isSome = true → GNote.plain n ∉ pimage o y) :
    GoodW o (A ++ [(n, k)]) := by
  refine ⟨?_, ?_, ?_, ?_⟩
  · rw [opens_append]
    cases k with
    | some k => simpa using g.cols
    | none =>
      have hno := hk1 rfl
      simp only [opens_cons_none, opens_nil, List.map_append, List.map_cons, List.map_nil]
      rw [List.nodup_append]
      refine ⟨g.cols, by simp, ?_⟩
      intro a ha b hb
      simp only [List.mem_singleton] at hb
      subst hb
      intro hab
      subst hab
      have := hasOpen_iff.mpr (mem_opens_cols.mp ha)
      rw [hno] at this
      cases this
  · intro m hm
    rcases List.mem_append.mp hm with h | h
    · exact g.heads m h
    · simp only [List.mem_singleton, Prod.mk.injEq] at h
      obtain ⟨rfl, rfl⟩ := h
      rw [← hk2]; rfl
  · intro m k' hm hh
    rcases List.mem_append.mp hm with h | h
    · exact g.cls m k' h hh
    · simp only [List.mem_singleton, Prod.mk.injEq] at h
      obtain ⟨rfl, rfl⟩ := h
      rw [hh] at hk2; cases hk2
  · intro m hm y hy hs hmem
    rcases List.mem_append.mp hm with h | h
    · rcases List.mem_append.mp hy with h' | h'
      · exact g.sep m h y h' hs hmem
      · simp only [List.mem_singleton] at h'
        subst h'
        have := plain_mem_pimage hmem
        subst this
        have hh := g.heads m h
        rw [hh] at hk2
        cases k with
        | none => cases hs
        | some _ => cases hk2
    · simp only [List.mem_singleton, Prod.mk.injEq] at h
      obtain ⟨rfl, rfl⟩ := h
      have hh : isHead m.ntype = true := by rw [← hk2]; rfl
      rcases List.mem_append.mp hy with h' | h'
      · exact hn hh y h' hs hmem
      · simp only [List.mem_singleton] at h'
        subst h'
        cases hs

theorem plain_not_mem_closed {o : GOpts} {A : List AN} (g : GoodW o A) {n : Note}
    (hh : isHead n.ntype = true) (hf : Fresh o A n) :
    ∀ y ∈ A, y.2.isSome = true → GNote.plain n ∉ pimage o y := by
  intro y hy hs hmem
  rcases y with ⟨m, _ | k⟩
  · cases hs
  · have := plain_mem_pimage hmem
    subst this
    rcases g.cls n k hy hh with rfl | ⟨tb, rfl⟩
    · by_cases hk : o.orphanHead = .keep
      · exact hf hh hk (List.mem_map.mpr ⟨_, hy, rfl⟩)
      · simp [pimage, image, hk] at hmem
    · simp [pimage, image] at hmem

theorem closeCls_ok (n : Note) : closeCls n = .orphanHead ∨ ∃ tb, closeCls n = .joined tb := by
  unfold closeCls
  split
  · exact Or.inr ⟨_, rfl⟩
  · exact Or.inl rfl

theorem newCls_isNone (A : List AN) (n : Note) : (newCls A n).isNone = isHead n.ntype := by
  unfold newCls
  cases isHead n.ntype with
  | true => rfl
  | false =>
    simp only [Bool.false_eq_true, if_false]
    split
    · split <;> rfl
    · rfl

theorem GoodW.absStep {o : GOpts} {A : List AN} (g : GoodW o A) (n : Note) (hf : Fresh o A n) :
    GoodW o (absStep A n) := by
  have g1 := g.closeCol n.column (closeCls n) (closeCls_ok n)
  refine g1.snoc n _ (fun _ => hasOpen_closeCol_same _ _ _) (newCls_isNone A n) ?_
  intro hh
  apply plain_not_mem_closed g1 hh
  intro h1 h2
  rw [closeCol_map_fst]
  exact hf h1 h2

theorem GoodW.dropWhile {o : GOpts} {A : List AN} (g : GoodW o A) : GoodW o (A.dropWhile (·.2.isSome)) := by
  have h : GoodW o (A.takeWhile (·.2.isSome) ++ A.dropWhile (·.2.isSome)) := by
    rw [List.takeWhile_append_dropWhile]; exact g
  exact h.append_right

/-- `flush_until_held_note` after the buffer has been updated -/
theorem finish (o : GOpts) (A : List AN) (c : Nat) (cl : Cls) (E : List AN) (hE : ∀ x ∈ E, x.2.isSome = true)
    (hgood : GoodW o (closeCol c cl A ++ E)) :
    ({ held := (opens A).filter (·.1 ≠ c),
       buffer := (closeCol c cl (A.dropWhile (·.2.isSome)) ++ E).flatMap (pimage o),
       out := (A.takeWhile (·.2.isSome)).flatMap (pimage o) } : JState).flushUntilHeld
      = some (stateOf o (closeCol c cl A ++ E)) := by
  have e1 : closeCol c cl A ++ E =
      A.takeWhile (·.2.isSome) ++ (closeCol c cl (A.dropWhile (·.2.isSome)) ++ E) := by
    rw [← List.append_assoc, ← closeCol_split]
  have hT : ∀ x ∈ A.takeWhile (·.2.isSome), x.2.isSome = true :=
    fun x hx => of_mem_takeWhile (p := fun x : AN => x.2.isSome) hx
  have e2 : JState.mk ((opens A).filter (·.1 ≠ c))
       ((closeCol c cl (A.dropWhile (·.2.isSome)) ++ E).flatMap (pimage o))
       ((A.takeWhile (·.2.isSome)).flatMap (pimage o))
      = preState o (A.takeWhile (·.2.isSome)) (closeCol c cl (A.dropWhile (·.2.isSome)) ++ E) := by
    simp only [preState, opens_append, opens_closeCol, opens_dropWhile, (opens_eq_nil_iff E).mpr hE,
      List.append_nil]
  rw [e2, flushUntilHeld_spec o _ _ hT, e1]
  rw [e1] at hgood
  exact hgood.append_right

theorem afterBuf (o : GOpts) (A : List AN) (c : Nat) (cl : Cls) (E : List AN) (buf : List GNote)
    (hE : ∀ x ∈ E, x.2.isSome = true) (hgood : GoodW o (closeCol c cl A ++ E))
    (hbuf : buf = (closeCol c cl (A.dropWhile (·.2.isSome)) ++ E).flatMap (pimage o)) :
    orInternal (JState.mk ((opens A).filter (·.1 ≠ c)) buf
        ((A.takeWhile (·.2.isSome)).flatMap (pimage o))).flushUntilHeld
      = .ok (stateOf o (closeCol c cl A ++ E)) := by
  subst hbuf
  rw [finish o A c cl E hE hgood]
  rfl

/-- a tail appended as a closed entry keeps the invariant -/
theorem GoodW.snoc_tail {o : GOpts} {A : List AN} (g : GoodW o A) (n : Note) (ht : n.ntype = cTAIL) (k : Cls) :
    GoodW o (A ++ [(n, some k)]) :=
  g.snoc n _ (by simp) (by simp [not_isHead_of_tail ht])
    (by intro h; rw [not_isHead_of_tail ht] at h; cases h)

theorem closeStep_spec (o : GOpts) (A : List AN) (g : GoodW o A) (n : Note) (hr : raised o A = false) :
    closeStep o (stateOf o A) n =
      if raised o (closeAbs A n) then .error .orphaned else .ok (stateOf o (closeAbs A n)) := by
  rw [stateOf_eq]
  unfold closeStep closeAbs
  simp only [heldContains_opens, heldPop]
  by_cases hO : hasOpen n.column A = true
  · obtain ⟨hd, hf, hm, hcol⟩ := find_opens_some hO
    have hmD := mem_dropWhile_of_none hm
    have gD := g.dropWhile
    simp only [hO, Bool.true_or, if_true, hf, Option.map_some]
    by_cases ht : n.ntype = cTAIL
    · have hcl : closeCls n = .joined n.beat := by simp [closeCls, ht]
      have hnew : newCls A n = some .consumed := by simp [newCls, isHead_tail, ht, hO]
      have hat := attachTail_spec o hd n.beat _ gD hmD
      rw [hcol] at hat
      rw [jht_tail o _ _ hd n ht hat]
      simp only [ht, if_true, hcl, hnew, Except.bind]
      have hr' := raised_close o n.column (.joined n.beat) A [(n, some .consumed)] hr
      simp only [raised_single, reduceCtorEq, decide_false, Bool.and_false, Bool.or_false,
        Option.some.injEq] at hr'
      rw [hr']
      have hgood : GoodW o (closeCol n.column (.joined n.beat) A ++ [(n, some .consumed)]) :=
        (g.closeCol _ _ (Or.inr ⟨_, rfl⟩)).snoc_tail n ht _
      rw [afterBuf o A n.column (.joined n.beat) [(n, some .consumed)] _ (by simp) hgood
        (by simp [pimage, image])]
      simp
    · have hcl : closeCls n = .orphanHead := by simp [closeCls, ht]
      simp only [ht, if_false, hcl, List.append_nil]
      have hr' := raised_close o n.column .orphanHead A [] hr
      simp only [List.append_nil, hO, raised_nil] at hr'
      rw [hr']
      have hgood : GoodW o (closeCol n.column .orphanHead A ++ []) := by
        rw [List.append_nil]; exact g.closeCol _ _ (Or.inl rfl)
      cases hoh : o.orphanHead with
      | raise =>
        rw [jht_nontail_raise o _ hd n ht hoh]
        simp [Except.bind]
      | keep =>
        rw [jht_nontail_keep o _ hd n ht hoh]
        simp only [Except.bind]
        rw [afterBuf o A n.column .orphanHead [] _ (by simp) hgood (by rw [List.append_nil, keep_spec o hoh])]
        simp
      | drop =>
        have hrf := removeFirst_spec o hoh hd _ gD hmD
        rw [hcol] at hrf
        rw [jht_nontail_drop o _ _ hd n ht hoh hrf]
        simp only [Except.bind]
        rw [afterBuf o A n.column .orphanHead [] _ (by simp) hgood (by rw [List.append_nil])]
        simp
  · have hO' : hasOpen n.column A = false := by simpa using hO
    have hid : closeCol n.column (closeCls n) A = A := closeCol_id hO'
    simp only [hO', Bool.false_or, find_opens_none hO', Option.map_none, decide_eq_true_eq]
    by_cases ht : n.ntype = cTAIL
    · have hnew : newCls A n = some .orphanTail := by simp [newCls, isHead_tail, ht, hO']
      simp only [ht, if_true, hnew]
      have hr' := raised_close o n.column (closeCls n) A [(n, some .orphanTail)] hr
      simp only [hO', raised_single] at hr'
      rw [hr']
      have hgood : GoodW o (closeCol n.column (closeCls n) A ++ [(n, some .orphanTail)]) :=
        (g.closeCol _ _ (closeCls_ok n)).snoc_tail n ht _
      have hidD : closeCol n.column (closeCls n) (A.dropWhile (·.2.isSome)) = A.dropWhile (·.2.isSome) :=
        closeCol_id (by rw [hasOpen_dropWhile]; exact hO')
      cases hot : o.orphanTail with
      | raise =>
        rw [jht_none_raise o _ n hot]
        simp [Except.bind]
      | keep =>
        rw [jht_none_keep o _ n hot]
        simp only [Except.bind]
        rw [afterBuf o A n.column (closeCls n) [(n, some .orphanTail)] _ (by simp) hgood
          (by rw [hidD]; simp [pimage, image, hot])]
        simp
      | drop =>
        rw [jht_none_drop o _ n hot]
        simp only [Except.bind]
        rw [afterBuf o A n.column (closeCls n) [(n, some .orphanTail)] _ (by simp) hgood
          (by rw [hidD]; simp [pimage, image, hot])]
        simp
    · simp only [ht, if_false, List.append_nil, hid, hr, Bool.false_eq_true]
      rw [stateOf_eq]

/-- one iteration of the loop is the abstract step -/
theorem joinStep_spec (o : GOpts) (A : List AN) (g : GoodW o A) (n : Note) (hr : raised o A = false) :
    joinStep o (stateOf o A) n =
      if raised o (absStep A n) then .error .orphaned else .ok (stateOf o (absStep A n)) := by
  rw [joinStep_eq, closeStep_spec o A g n hr]
  by_cases ht : n.ntype = cTAIL
  · have : closeAbs A n = absStep A n := by simp [closeAbs, absStep, ht]
    rw [this]
    cases raised o (absStep A n) <;> simp [Except.bind, pushStep_tail _ n ht]
  · have h1 : closeAbs A n = closeCol n.column (closeCls n) A := by simp [closeAbs, ht]
    have h2 : newCls A n = if isHead n.ntype then none else some .plain := by simp [newCls, ht]
    have h3 : raised o (absStep A n) = raised o (closeCol n.column (closeCls n) A) := by
      unfold absStep
      rw [raised_append, raised_single, h2]
      cases isHead n.ntype <;> simp
    rw [h1, h3]
    cases raised o (closeCol n.column (closeCls n) A) with
    | true => simp [Except.bind]
    | false =>
      simp only [Bool.false_eq_true, if_false, Except.bind]
      rw [pushStep_spec o _ n ht (hasOpen_closeCol_same _ _ _)]
      unfold absStep
      rw [h2]

end Simfile.JoinW
