/-
Lemmas for C09 (round 2): counting the groups of the rows phase under KEEP_SEPARATE and
JOIN_BY_NOTE_TYPE.
-/
import Simfile.Lemmas.GroupMoreByType
namespace Simfile.GroupMore
open Simfile

/-- number of (beat, note type) classes carrying at least `k` notes of the included types -/
def classesWithAtLeast (notes : List Note) (incl : List Char) (k : Nat) : Nat :=
  let F := notes.filter fun n => incl.contains n.ntype
  ((F.map fun n => (n.beat, n.ntype)).eraseDups.filter fun p =>
    k ≤ (F.filter fun n => n.beat = p.1 ∧ n.ntype = p.2).length).length

theorem countGrouped_singletons_ge (stream : List GNote) (k : Nat) :
    countGrouped (stream.map fun g => [g]) k = if k ≤ 1 then stream.length else 0 := by
  unfold countGrouped
  induction stream with
  | nil => simp
  | cons g s ih =>
    simp only [List.map_cons, List.filter_cons, List.length_cons, List.length_nil, Nat.zero_add]
    by_cases hk : k ≤ 1
    · simp only [hk, decide_true, if_true, List.length_cons] at ih ⊢
      rw [ih]
    · simp only [hk, decide_false, Bool.false_eq_true, if_false] at ih ⊢
      exact ih

/-- the (beat, type) pairs listed beat by beat -/
theorem pairs_perm (items : List GNote) :
    ((items.map GNote.beat).eraseDups.flatMap fun b =>
      ((items.filter fun x => x.beat = b).map GNote.ntype).eraseDups.map fun t => (b, t)).Perm
    (items.map fun x => (x.beat, x.ntype)).eraseDups := by
  apply (List.perm_ext_iff_of_nodup ?_ (nodup_eraseDups _)).mpr
  · intro p
    rcases p with ⟨b, t⟩
    simp only [List.mem_flatMap, List.mem_map, List.mem_eraseDups, List.mem_filter, decide_eq_true_eq,
      Prod.mk.injEq]
    constructor
    · rintro ⟨b', ⟨x, hx, rfl⟩, t', ⟨y, ⟨hy, hyb⟩, rfl⟩, rfl, rfl⟩
      exact ⟨y, hy, hyb, rfl⟩
    · rintro ⟨x, hx, rfl, rfl⟩
      exact ⟨x.beat, ⟨x, hx, rfl⟩, x.ntype, ⟨x, ⟨hx, rfl⟩, rfl⟩, rfl, rfl⟩
  · show List.Pairwise (· ≠ ·) _
    rw [List.pairwise_flatMap]
    constructor
    · intro b _
      rw [List.pairwise_map]
      exact (nodup_eraseDups _).imp fun {t t'} h e => h (Prod.mk.inj e).2
    · refine (nodup_eraseDups _).imp ?_
      intro b b' hbb p hp q hq e
      obtain ⟨t, _, rfl⟩ := List.mem_map.mp hp
      obtain ⟨t', _, rfl⟩ := List.mem_map.mp hq
      exact hbb (Prod.mk.inj e).1

theorem countGrouped_byType (items : List GNote) (k : Nat) (hs : (items.map GNote.beat).Pairwise (· ≤ ·)) :
    countGrouped (rows .joinByType items) k =
      ((items.map fun x => (x.beat, x.ntype)).eraseDups.filter fun p =>
        k ≤ (items.filter fun x => x.beat = p.1 ∧ x.ntype = p.2).length).length := by
  rw [rows_byType_sorted _ hs]
  have hG : ((items.map GNote.beat).eraseDups.flatMap fun b =>
        ((items.filter fun x => x.beat = b).map GNote.ntype).eraseDups.map fun t =>
          items.filter fun x => x.beat = b ∧ x.ntype = t) =
      ((items.map GNote.beat).eraseDups.flatMap fun b =>
        ((items.filter fun x => x.beat = b).map GNote.ntype).eraseDups.map fun t => (b, t)).map
        fun p => items.filter fun x => x.beat = p.1 ∧ x.ntype = p.2 := by
    rw [List.map_flatMap]
    apply List.flatMap_congr
    intro b _
    rw [List.map_map]
    rfl
  rw [hG]
  unfold countGrouped
  rw [List.filter_map, List.length_map]
  exact ((pairs_perm items).filter _).length_eq

theorem countGrouped_byType_notes (F : List Note) (k : Nat) (hs : (F.map (·.beat)).Pairwise (· ≤ ·)) :
    countGrouped (rows .joinByType (F.map .plain)) k =
      ((F.map fun n => (n.beat, n.ntype)).eraseDups.filter fun p =>
        k ≤ (F.filter fun n => n.beat = p.1 ∧ n.ntype = p.2).length).length := by
  have hmap : (F.map GNote.plain).map GNote.beat = F.map (·.beat) := by
    rw [List.map_map]; rfl
  rw [countGrouped_byType _ _ (by rw [hmap]; exact hs)]
  have h1 : ((F.map GNote.plain).map fun x => (x.beat, x.ntype)) = F.map fun n => (n.beat, n.ntype) := by
    rw [List.map_map]; rfl
  rw [h1]
  congr 1
  apply List.filter_congr
  intro p _
  rw [List.filter_map, List.length_map]
  rfl

end Simfile.GroupMore
