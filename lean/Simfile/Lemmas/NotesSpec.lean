/-
Structure of `Spec.notesOf`: membership characterisation, beat formula, strict sortedness.
-/
import Simfile.Spec.Notes
import Simfile.Lemmas.NoteOrder
import Mathlib.Tactic.Linarith
import Mathlib.Tactic.FieldSimp
import Mathlib.Tactic.Ring
namespace Simfile
open Simfile

/-! ### `enumFrom` -/

@[simp] theorem enumFrom_nil {α} (k : Nat) : enumFrom k ([] : List α) = [] := rfl
@[simp] theorem enumFrom_cons {α} (k : Nat) (x : α) (xs : List α) :
    enumFrom k (x :: xs) = (k, x) :: enumFrom (k + 1) xs := rfl

theorem mem_enumFrom {α} {k i : Nat} {x : α} {xs : List α} :
    (i, x) ∈ enumFrom k xs ↔ k ≤ i ∧ xs[i - k]? = some x := by
  induction xs generalizing k with
  | nil => simp
  | cons y ys ih =>
    simp only [enumFrom_cons, List.mem_cons, Prod.mk.injEq, ih]
    constructor
    · rintro (⟨rfl, rfl⟩ | ⟨h1, h2⟩)
      · simp
      · refine ⟨by omega, ?_⟩
        have : i - k = (i - (k + 1)) + 1 := by omega
        rw [this, List.getElem?_cons_succ]; exact h2
    · rintro ⟨h1, h2⟩
      rcases Nat.eq_or_lt_of_le h1 with h | h
      · subst h; left; simpa using h2.symm
      · right
        refine ⟨h, ?_⟩
        have : i - k = (i - (k + 1)) + 1 := by omega
        rw [this, List.getElem?_cons_succ] at h2; exact h2

theorem mem_enumFrom_lt {α} {k i : Nat} {x : α} {xs : List α} (h : (i, x) ∈ enumFrom k xs) :
    k ≤ i ∧ i < k + xs.length := by
  rw [mem_enumFrom] at h
  obtain ⟨h1, h2⟩ := h
  have := (List.getElem?_eq_some_iff.mp h2).1
  omega

theorem enumFrom_length {α} (k : Nat) (xs : List α) : (enumFrom k xs).length = xs.length := by
  induction xs generalizing k with
  | nil => rfl
  | cons y ys ih => simp [ih]

theorem enumFrom_append {α} (k : Nat) (xs ys : List α) :
    enumFrom k (xs ++ ys) = enumFrom k xs ++ enumFrom (k + xs.length) ys := by
  induction xs generalizing k with
  | nil => simp
  | cons y ys' ih => simp [ih, Nat.add_assoc, Nat.add_comm 1]

/-- sortedness of a flattened enumeration -/
theorem pairwise_flatten_enumFrom {α β} (R : β → β → Prop) (f : Nat × α → List β) (k : Nat) (xs : List α)
    (h1 : ∀ i x, (i, x) ∈ enumFrom k xs → (f (i, x)).Pairwise R)
    (h2 : ∀ i x j y, (i, x) ∈ enumFrom k xs → (j, y) ∈ enumFrom k xs → i < j →
      ∀ a ∈ f (i, x), ∀ b ∈ f (j, y), R a b) :
    (((enumFrom k xs).map f).flatten).Pairwise R := by
  induction xs generalizing k with
  | nil => simp
  | cons x xs ih =>
    simp only [enumFrom_cons, List.map_cons, List.flatten_cons, List.pairwise_append]
    refine ⟨h1 k x (by simp), ?_, ?_⟩
    · apply ih
      · intro i y hi; exact h1 i y (by simp [hi])
      · intro i y j z hi hj hij; exact h2 i y j z (by simp [hi]) (by simp [hj]) hij
    · intro a ha b hb
      simp only [List.mem_flatten, List.mem_map] at hb
      obtain ⟨l, ⟨⟨j, y⟩, hj, rfl⟩, hb⟩ := hb
      have := (mem_enumFrom_lt hj).1
      exact h2 k x j y (by simp) (by simp [hj]) (by omega) a ha b hb

theorem pairwise_filterMap_enumFrom {α β} (R : β → β → Prop) (g : Nat × α → Option β) (k : Nat) (xs : List α)
    (h2 : ∀ i x j y, (i, x) ∈ enumFrom k xs → (j, y) ∈ enumFrom k xs → i < j →
      ∀ a, g (i, x) = some a → ∀ b, g (j, y) = some b → R a b) :
    ((enumFrom k xs).filterMap g).Pairwise R := by
  induction xs generalizing k with
  | nil => simp
  | cons x xs ih =>
    have ih' := ih (k + 1) (fun i y j z hi hj hij => h2 i y j z (by simp [hi]) (by simp [hj]) hij)
    simp only [enumFrom_cons, List.filterMap_cons]
    cases hg : g (k, x) with
    | none => exact ih'
    | some a =>
      simp only [List.pairwise_cons]
      refine ⟨?_, ih'⟩
      intro b hb
      simp only [List.mem_filterMap] at hb
      obtain ⟨⟨j, y⟩, hj, hb⟩ := hb
      have := (mem_enumFrom_lt hj).1
      exact h2 k x j y (by simp) (by simp [hj]) (by omega) a hg b hb

namespace Spec

/-- the notes of a row: one per non-'0' cell -/
theorem mem_notesOfRow {p m sub l : Nat} {r : DRow} {n : Note} :
    n ∈ notesOfRow p m sub l r ↔
      ∃ c cell, r.cells[c]? = some cell ∧ cell.ch ≠ '0' ∧
        n = { beat := ((4 * m * sub + 4 * l : Nat) : Rat) / (sub : Rat), column := c, ntype := cell.ch,
              player := p, keysound := cell.ks } := by
  simp only [notesOfRow, List.mem_filterMap]
  constructor
  · rintro ⟨⟨c, cell⟩, hc, h⟩
    rw [mem_enumFrom] at hc
    simp only at h
    split at h
    · exact absurd h (by simp)
    · rename_i hne
      refine ⟨c, cell, by simpa using hc.2, hne, ?_⟩
      simpa using h.symm
  · rintro ⟨c, cell, hc, hne, rfl⟩
    refine ⟨(c, cell), ?_, ?_⟩
    · rw [mem_enumFrom]; simpa using hc
    · simp [hne]

theorem mem_notesOfMeasure {p m : Nat} {ms : DMeasure} {n : Note} :
    n ∈ notesOfMeasure p m ms ↔
      ∃ l r, ms.rows[l]? = some r ∧ n ∈ notesOfRow p m ms.rows.length l r := by
  simp only [notesOfMeasure, List.mem_flatten, List.mem_map]
  constructor
  · rintro ⟨_, ⟨⟨l, r⟩, hl, rfl⟩, hn⟩
    rw [mem_enumFrom] at hl
    exact ⟨l, r, by simpa using hl.2, hn⟩
  · rintro ⟨l, r, hl, hn⟩
    exact ⟨_, ⟨(l, r), by rw [mem_enumFrom]; simpa using hl, rfl⟩, hn⟩

/-- the beat of row `l` of measure `m` with `sub` rows -/
theorem rowBeat_eq (m sub l : Nat) (h : 0 < sub) :
    ((4 * m * sub + 4 * l : Nat) : Rat) / (sub : Rat) = 4 * (m : Rat) + 4 * (l : Rat) / (sub : Rat) := by
  have : (sub : Rat) ≠ 0 := by exact_mod_cast Nat.pos_iff_ne_zero.mp h
  push_cast
  field_simp

theorem rowBeat_lt {m sub l l' : Nat} (h : l < l') (hs : 0 < sub) :
    ((4 * m * sub + 4 * l : Nat) : Rat) / (sub : Rat) < ((4 * m * sub + 4 * l' : Nat) : Rat) / (sub : Rat) := by
  have hs' : (0 : Rat) < (sub : Rat) := by exact_mod_cast hs
  apply div_lt_div_of_pos_right _ hs'
  exact_mod_cast (by omega : 4 * m * sub + 4 * l < 4 * m * sub + 4 * l')

theorem rowBeat_ge (m sub l : Nat) (hs : 0 < sub) :
    (4 * (m : Rat)) ≤ ((4 * m * sub + 4 * l : Nat) : Rat) / (sub : Rat) := by
  have hs' : (0 : Rat) < (sub : Rat) := by exact_mod_cast hs
  rw [le_div_iff₀ hs']
  exact_mod_cast (by omega : 4 * m * sub ≤ 4 * m * sub + 4 * l)

theorem rowBeat_lt_next {m sub l : Nat} (h : l < sub) :
    ((4 * m * sub + 4 * l : Nat) : Rat) / (sub : Rat) < 4 * ((m : Rat) + 1) := by
  have hs' : (0 : Rat) < (sub : Rat) := by exact_mod_cast (by omega : 0 < sub)
  rw [div_lt_iff₀ hs']
  have : 4 * m * sub + 4 * l < 4 * (m + 1) * sub := by
    have : 4 * (m + 1) * sub = 4 * m * sub + 4 * sub := by ring
    omega
  have h2 : ((4 * m * sub + 4 * l : Nat) : Rat) < ((4 * (m + 1) * sub : Nat) : Rat) := by exact_mod_cast this
  push_cast at h2 ⊢
  linarith

theorem notesOfRow_attrs {p m sub l : Nat} {r : DRow} {n : Note} (h : n ∈ notesOfRow p m sub l r) :
    n.player = p ∧ n.beat = ((4 * m * sub + 4 * l : Nat) : Rat) / (sub : Rat) := by
  rw [mem_notesOfRow] at h
  obtain ⟨c, cell, _, _, rfl⟩ := h
  exact ⟨rfl, rfl⟩

theorem notesOfMeasure_attrs {p m : Nat} {ms : DMeasure} {n : Note} (h : n ∈ notesOfMeasure p m ms) :
    n.player = p ∧ 4 * (m : Rat) ≤ n.beat ∧ n.beat < 4 * ((m : Rat) + 1) := by
  rw [mem_notesOfMeasure] at h
  obtain ⟨l, r, hl, hn⟩ := h
  have hlt := (List.getElem?_eq_some_iff.mp hl).1
  obtain ⟨h1, h2⟩ := notesOfRow_attrs hn
  refine ⟨h1, ?_, ?_⟩
  · rw [h2]; exact rowBeat_ge _ _ _ (by omega)
  · rw [h2]; exact rowBeat_lt_next hlt

theorem notesOfRow_sorted (p m sub l : Nat) (r : DRow) :
    (notesOfRow p m sub l r).Pairwise (fun a b => keyLt a.key b.key = true) := by
  unfold notesOfRow
  apply pairwise_filterMap_enumFrom
  intro i x j y _ _ hij a ha b hb
  simp only at ha hb
  split at ha
  · exact absurd ha (by simp)
  split at hb
  · exact absurd hb (by simp)
  simp only [Option.some.injEq] at ha hb
  subst ha hb
  simp [keyLt_iff, Note.key, hij]

theorem notesOfMeasure_sorted (p m : Nat) (ms : DMeasure) :
    (notesOfMeasure p m ms).Pairwise (fun a b => keyLt a.key b.key = true) := by
  unfold notesOfMeasure
  apply pairwise_flatten_enumFrom
  · intro i x _; exact notesOfRow_sorted _ _ _ _ _
  · intro i x j y hi hj hij a ha b hb
    have hjl := (mem_enumFrom_lt hj).2
    obtain ⟨a1, a2⟩ := notesOfRow_attrs ha
    obtain ⟨b1, b2⟩ := notesOfRow_attrs hb
    rw [keyLt_iff]
    right
    refine ⟨by simp [Note.key, a1, b1], Or.inl ?_⟩
    simp only [Note.key, a2, b2]
    exact rowBeat_lt hij (by omega)

theorem notesOfPlayer_sorted (p : Nat) (ms : List DMeasure) :
    (((enumFrom 0 ms).map fun (m, me) => notesOfMeasure p m me).flatten).Pairwise
      (fun a b => keyLt a.key b.key = true) := by
  apply pairwise_flatten_enumFrom
  · intro i x _; exact notesOfMeasure_sorted _ _ _
  · intro i x j y hi hj hij a ha b hb
    obtain ⟨a1, _, a3⟩ := notesOfMeasure_attrs ha
    obtain ⟨b1, b2, _⟩ := notesOfMeasure_attrs hb
    rw [keyLt_iff]
    right
    refine ⟨by simp [Note.key, a1, b1], Or.inl ?_⟩
    simp only [Note.key]
    have : ((i : Rat) + 1) ≤ (j : Rat) := by exact_mod_cast hij
    linarith

theorem notesOf_sorted (c : DChart) :
    (notesOf c).Pairwise (fun a b => keyLt a.key b.key = true) := by
  unfold notesOf
  apply pairwise_flatten_enumFrom
  · intro i x _; exact notesOfPlayer_sorted _ _
  · intro i x j y hi hj hij a ha b hb
    simp only [List.mem_flatten, List.mem_map] at ha hb
    obtain ⟨_, ⟨⟨m, me⟩, _, rfl⟩, ha⟩ := ha
    obtain ⟨_, ⟨⟨m', me'⟩, _, rfl⟩, hb⟩ := hb
    obtain ⟨a1, _, _⟩ := notesOfMeasure_attrs ha
    obtain ⟨b1, _, _⟩ := notesOfMeasure_attrs hb
    rw [keyLt_iff]
    left
    simp [Note.key, a1, b1, hij]

end Spec
end Simfile
