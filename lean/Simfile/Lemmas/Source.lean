/-
Lemmas about `useChart`, `timingSource`, `timingData`, `displayBpm` for C15.
-/
import Simfile.Lemmas.Views
import Simfile.Lemmas.StrO
import Mathlib.Tactic.NormNum
import Mathlib.Algebra.Order.Ring.Rat
namespace Simfile.S
open Simfile Simfile.O Simfile.V

/-- each of the eleven chart timing keys is a known SSC-chart property without alias -/
theorem chartTiming_table :
    ∀ key ∈ T.chartTimingProperties,
      T.sscChartProps.find? (·.1 = chartAttrOfKey key) = some (chartAttrOfKey key, key, none) := by
  decide +kernel

theorem attrGet_chartTiming (d : Dict) (key : Str) (h : key ∈ T.chartTimingProperties) :
    attrGet .sscChart d (chartAttrOfKey key) = (d.get? key).join :=
  attrGet_of_find .sscChart d _ key none (chartTiming_table key h)

/-- the version string `timing_source` compares: the VERSION property, "0" when missing or empty -/
def versionString (sim : Src) : Str :=
  match attrGet .sscSimfile sim.d ['v','e','r','s','i','o','n'] with
  | some (x :: xs) => x :: xs
  | _ => ['0']

theorem useChart_iff (sim : Src) (chart : Option Src) :
    useChart sim chart = .ok true ↔
      sim.kind = .sscSimfile ∧ ∃ c, chart = some c ∧ c.kind = .sscChart ∧
        versionOK (versionString sim) = .ok true ∧
        ∃ key ∈ T.chartTimingProperties, truthy (attrGet .sscChart c.d (chartAttrOfKey key)) = true := by
  obtain ⟨kind, d⟩ := sim
  cases kind <;> cases chart <;> simp [useChart]
  rename_i c
  by_cases hk : c.kind = .sscChart
  · simp only [hk, if_true, true_and, versionString]
    generalize versionOK _ = r
    cases r with
    | error e => simp [bind, Except.bind]
    | ok b => cases b <;> simp [bind, Except.bind, pure, Except.pure]
  · simp [hk]

/-- the only way `timing_source` fails: an SSC simfile with an SSC chart whose version does not parse -/
theorem useChart_error_iff (sim : Src) (chart : Option Src) (e : SErr) :
    useChart sim chart = .error e ↔
      sim.kind = .sscSimfile ∧ ∃ c, chart = some c ∧ c.kind = .sscChart ∧
        versionOK (versionString sim) = .error e := by
  obtain ⟨kind, d⟩ := sim
  cases kind <;> cases chart <;> simp [useChart]
  rename_i c
  by_cases hk : c.kind = .sscChart
  · simp only [hk, if_true, true_and, versionString]
    generalize versionOK _ = r
    cases r with
    | error e => simp [bind, Except.bind]
    | ok b => cases b <;> simp [bind, Except.bind, pure, Except.pure]
  · simp [hk]

theorem timingSource_of_true (sim : Src) (chart : Option Src) (h : useChart sim chart = .ok true) :
    ∃ c, chart = some c ∧ timingSource sim chart = .ok c := by
  obtain ⟨_, c, rfl, _⟩ := (useChart_iff sim chart).mp h
  refine ⟨c, rfl, ?_⟩
  unfold timingSource; rw [h]; rfl

theorem timingSource_of_false (sim : Src) (chart : Option Src) (h : useChart sim chart = .ok false) :
    timingSource sim chart = .ok sim := by
  unfold timingSource; rw [h]; rfl

theorem timingSource_of_error (sim : Src) (chart : Option Src) (e : SErr) (h : useChart sim chart = .error e) :
    timingSource sim chart = .error e := by
  unfold timingSource; rw [h]; rfl

theorem timingSource_cases (sim : Src) (chart : Option Src) (s : Src) (h : timingSource sim chart = .ok s) :
    (useChart sim chart = .ok false ∧ s = sim) ∨ (useChart sim chart = .ok true ∧ chart = some s) := by
  cases hu : useChart sim chart with
  | error e => rw [timingSource_of_error _ _ _ hu] at h; cases h
  | ok b =>
    cases b with
    | false => rw [timingSource_of_false _ _ hu] at h; cases h; exact Or.inl ⟨rfl, rfl⟩
    | true =>
      obtain ⟨c, hc, ht⟩ := timingSource_of_true _ _ hu
      rw [ht] at h; cases h; exact Or.inr ⟨rfl, hc⟩

/-! ### the `offset` attribute, per class table -/

theorem offset_table (k : Kind) :
    (propsTable k).find? (·.1 = ['o','f','f','s','e','t']) =
      if k = .smChart then none else some (['o','f','f','s','e','t'], ['O','F','F','S','E','T'], none) := by
  cases k <;> decide +kernel

theorem attrGet_offset (k : Kind) (d : Dict) :
    attrGet k d ['o','f','f','s','e','t'] = if k = .smChart then none else (d.get? ['O','F','F','S','E','T']).join := by
  by_cases hk : k = .smChart
  · subst hk; rfl
  · rw [if_neg hk]
    have := offset_table k
    rw [if_neg hk] at this
    exact attrGet_of_find k d _ _ none this

/-! ### minimum / maximum by folding -/

theorem foldl_min_le_init (v : Rat) (vs : List Rat) : vs.foldl min v ≤ v := by
  induction vs generalizing v with
  | nil => exact le_refl v
  | cons x xs ih => exact le_trans (ih _) (min_le_left v x)

theorem foldl_min_le (v : Rat) (vs : List Rat) : ∀ x ∈ v :: vs, vs.foldl min v ≤ x := by
  induction vs generalizing v with
  | nil => intro x hx; simp at hx; subst hx; exact le_refl _
  | cons y ys ih =>
    intro x hx
    rw [List.foldl_cons]
    rcases List.mem_cons.mp hx with rfl | hx
    · exact le_trans (foldl_min_le_init _ _) (min_le_left _ _)
    · rcases List.mem_cons.mp hx with rfl | hx
      · exact le_trans (foldl_min_le_init _ _) (min_le_right _ _)
      · exact ih _ x (List.mem_cons_of_mem _ hx)

theorem foldl_min_mem (v : Rat) (vs : List Rat) : vs.foldl min v ∈ v :: vs := by
  induction vs generalizing v with
  | nil => simp
  | cons y ys ih =>
    rw [List.foldl_cons]
    have := ih (min v y)
    rcases List.mem_cons.mp this with h | h
    · rw [h]
      rcases min_choice v y with e | e <;> rw [e] <;> simp
    · exact List.mem_cons_of_mem _ (List.mem_cons_of_mem _ h)

theorem init_le_foldl_max (v : Rat) (vs : List Rat) : v ≤ vs.foldl max v := by
  induction vs generalizing v with
  | nil => exact le_refl v
  | cons x xs ih => exact le_trans (le_max_left v x) (ih _)

theorem le_foldl_max (v : Rat) (vs : List Rat) : ∀ x ∈ v :: vs, x ≤ vs.foldl max v := by
  induction vs generalizing v with
  | nil => intro x hx; simp at hx; subst hx; exact le_refl _
  | cons y ys ih =>
    intro x hx
    rw [List.foldl_cons]
    rcases List.mem_cons.mp hx with rfl | hx
    · exact le_trans (le_max_left _ _) (init_le_foldl_max _ _)
    · rcases List.mem_cons.mp hx with rfl | hx
      · exact le_trans (le_max_right _ _) (init_le_foldl_max _ _)
      · exact ih _ x (List.mem_cons_of_mem _ hx)

theorem foldl_max_mem (v : Rat) (vs : List Rat) : vs.foldl max v ∈ v :: vs := by
  induction vs generalizing v with
  | nil => simp
  | cons y ys ih =>
    rw [List.foldl_cons]
    have := ih (max v y)
    rcases List.mem_cons.mp this with h | h
    · rw [h]
      rcases max_choice v y with e | e <;> rw [e] <;> simp
    · exact List.mem_cons_of_mem _ (List.mem_cons_of_mem _ h)

/-! ### `displayBpm` -/

/-- the DISPLAYBPM part of `displaybpm`: `some r` = the property decides, `none` = fall back to BPMS -/
def specified (s : Src) (ignore : Bool) : Except SErr (Option DisplayBPM) :=
  if s.d.contains kDISPLAYBPM && !ignore then
    match (s.d.get? kDISPLAYBPM).join with
    | none => throw SErr.typeError
    | some v =>
      if v = ['*'] then pure (some DisplayBPM.random)
      else if v.contains ':' then
        let (a, _, b) := partition ':' v
        match parseDecimal a, parseDecimal b with
        | some x, some y => pure (some (DisplayBPM.range x y))
        | _, _ => pure none
      else match parseDecimal v with
        | some x => pure (some (DisplayBPM.static x))
        | none => pure none
  else pure none

/-- the BPMS part of `displaybpm` -/
def bpmsFallback (s : Src) : Except SErr DisplayBPM :=
  match s.d.get? kBPMS with
  | none => throw SErr.keyError
  | some b =>
    match beatValuesFromStr b with
    | none => throw SErr.valueError
    | some rows =>
      match rows.mapM (fun r => parseDecimal r.value) with
      | none => throw SErr.valueError
      | some [v] => pure (DisplayBPM.static v)
      | some [] => throw SErr.valueError
      | some (v :: vs) => pure (DisplayBPM.range (vs.foldl min v) (vs.foldl max v))

theorem displayBpm_eq (sim : Src) (chart : Option Src) (ignore : Bool) (s : Src)
    (h : timingSource sim chart = .ok s) :
    displayBpm sim chart ignore =
      match specified s ignore with
      | .error e => .error e
      | .ok (some r) => .ok r
      | .ok none => bpmsFallback s := by
  unfold displayBpm specified
  rw [h]
  simp only [bind, Except.bind]
  by_cases hc : (s.d.contains kDISPLAYBPM && !ignore) = true
  · simp only [hc, if_true]
    cases hj : (s.d.get? kDISPLAYBPM).join with
    | none => rfl
    | some v =>
      simp only []
      by_cases hs : v = ['*']
      · simp only [hs, if_true]; rfl
      · simp only [hs, if_false]
        by_cases hcol : v.contains ':' = true
        · simp only [hcol, if_true]
          cases parseDecimal (partition ':' v).1 <;> cases parseDecimal (partition ':' v).2.2 <;> rfl
        · simp only [hcol]
          cases parseDecimal v <;> rfl
  · simp only [hc]; rfl

theorem parseDecimal_star : parseDecimal ['*'] = none := by decide +kernel

theorem mem_iff_contains (c : Char) (v : Str) : v.contains c = true ↔ c ∈ v := by simp

theorem specified_off (s : Src) (ignore : Bool) (h : s.d.contains kDISPLAYBPM = false ∨ ignore = true) :
    specified s ignore = .ok none := by
  unfold specified
  rcases h with h | h <;> simp [h] <;> rfl

theorem specified_value (s : Src) (v : Str) (h : s.d.get? kDISPLAYBPM = some (some v)) :
    specified s false =
      if v = ['*'] then .ok (some DisplayBPM.random)
      else if ':' ∈ v then
        match parseDecimal (partition ':' v).1, parseDecimal (partition ':' v).2.2 with
        | some x, some y => .ok (some (DisplayBPM.range x y))
        | _, _ => .ok none
      else match parseDecimal v with
        | some x => .ok (some (DisplayBPM.static x))
        | none => .ok none := by
  have hc : s.d.contains kDISPLAYBPM = true := by rw [contains_eq, h]; rfl
  unfold specified
  simp only [hc, Bool.not_false, Bool.and_self, if_true, h, Option.join_some]
  by_cases hs : v = ['*']
  · simp only [hs, if_true]; rfl
  · simp only [hs, if_false]
    by_cases hcol : ':' ∈ v
    · have : v.contains ':' = true := by simpa using hcol
      simp only [this, hcol, if_true]
      cases parseDecimal (partition ':' v).1 <;> cases parseDecimal (partition ':' v).2.2 <;> rfl
    · have : v.contains ':' = false := by simpa using hcol
      simp only [this, hcol, if_false, Bool.false_eq_true]
      cases parseDecimal v <;> rfl

theorem specified_none_value (s : Src) (h : s.d.get? kDISPLAYBPM = some none) :
    specified s false = .error .typeError := by
  have hc : s.d.contains kDISPLAYBPM = true := by rw [contains_eq, h]; rfl
  unfold specified
  simp only [hc, Bool.not_false, Bool.and_self, if_true, h]
  rfl

end Simfile.S
