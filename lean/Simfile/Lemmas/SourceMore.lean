/-
More lemmas about `useChart`, `timingSource`, `timingData`, `displayBpm` for C15More: the decision depends on the
simfile only through its kind and VERSION, on the chart only through its kind and the truthiness of the eleven keys;
the result is the one of the chosen object alone; the attribute reads as key reads.
-/
import Simfile.Lemmas.Source
namespace Simfile.SMore
open Simfile Simfile.O Simfile.V Simfile.S

/-! ### without a chart the object itself is the source -/

theorem useChart_none (s : Src) : useChart s none = .ok false := by
  obtain ⟨k, d⟩ := s
  cases k <;> rfl

theorem timingSource_none (s : Src) : timingSource s none = .ok s :=
  timingSource_of_false s none (useChart_none s)

/-! ### results follow the source -/

theorem timingData_congr (sim sim' : Src) (chart chart' : Option Src)
    (h : timingSource sim chart = timingSource sim' chart') : timingData sim chart = timingData sim' chart' := by
  unfold timingData; rw [h]

theorem displayBpm_congr (sim sim' : Src) (chart chart' : Option Src) (ignore : Bool)
    (h : timingSource sim chart = timingSource sim' chart') :
    displayBpm sim chart ignore = displayBpm sim' chart' ignore := by
  unfold displayBpm; rw [h]

theorem timingData_error (sim : Src) (chart : Option Src) (e : SErr) (h : timingSource sim chart = .error e) :
    timingData sim chart = .error e := by
  unfold timingData; rw [h]; rfl

theorem displayBpm_error (sim : Src) (chart : Option Src) (ignore : Bool) (e : SErr)
    (h : timingSource sim chart = .error e) : displayBpm sim chart ignore = .error e := by
  unfold displayBpm; rw [h]; rfl

/-- the chart is the source: every result is the one of the chart taken alone -/
theorem source_chart (sim c : Src) (h : useChart sim (some c) = .ok true) :
    timingSource sim (some c) = timingSource c none := by
  obtain ⟨c', hc, ht⟩ := timingSource_of_true sim (some c) h
  cases hc
  rw [ht, timingSource_none]

/-- the simfile is the source: every result is the one of the simfile taken alone -/
theorem source_sim (sim : Src) (chart : Option Src) (h : useChart sim chart = .ok false) :
    timingSource sim chart = timingSource sim none := by
  rw [timingSource_of_false sim chart h, timingSource_none]

/-! ### what the decision depends on -/

theorem versionString_eq (sim : Src) :
    versionString sim = match (sim.d.get? ['V','E','R','S','I','O','N']).join with
      | some (x :: xs) => x :: xs
      | _ => ['0'] := by
  have h : attrGet .sscSimfile sim.d ['v','e','r','s','i','o','n'] = (sim.d.get? ['V','E','R','S','I','O','N']).join :=
    attrGet_of_find .sscSimfile sim.d _ _ none (by decide)
  unfold versionString; rw [h]
  generalize (sim.d.get? ['V','E','R','S','I','O','N']).join = o
  cases o with
  | none => rfl
  | some v => cases v <;> rfl

theorem versionString_congr (sim sim' : Src)
    (h : sim'.d.get? ['V','E','R','S','I','O','N'] = sim.d.get? ['V','E','R','S','I','O','N']) :
    versionString sim' = versionString sim := by
  rw [versionString_eq, versionString_eq, h]

/-- a result of `useChart` is `ok true`, `ok false` or an error: two results agree when they are `ok true` together
and fail alike -/
theorem except_bool_ext (a b : Except SErr Bool) (ht : a = .ok true ↔ b = .ok true)
    (he : ∀ e, a = .error e ↔ b = .error e) : a = b := by
  cases a with
  | error e => exact ((he e).mp rfl).symm
  | ok x =>
    cases x with
    | true => exact (ht.mp rfl).symm
    | false =>
      cases b with
      | error e => exact absurd ((he e).mpr rfl) (by simp)
      | ok y =>
        cases y with
        | true => exact absurd (ht.mpr rfl) (by simp)
        | false => rfl

/-- the simfile enters the decision through its kind and its VERSION only (from the two characterisations) -/
theorem useChart_congr_sim (sim sim' : Src) (chart : Option Src) (hk : sim'.kind = sim.kind)
    (hv : versionString sim' = versionString sim) : useChart sim' chart = useChart sim chart := by
  apply except_bool_ext
  · rw [useChart_iff, useChart_iff, hk, hv]
  · intro e
    rw [useChart_error_iff, useChart_error_iff, hk, hv]

/-- the chart enters the decision through its kind and the truthiness of the eleven keys only -/
theorem useChart_congr_chart (sim c c' : Src) (hk : c'.kind = c.kind)
    (ht : ∀ key ∈ T.chartTimingProperties, truthy (c'.d.get? key).join = truthy (c.d.get? key).join) :
    useChart sim (some c') = useChart sim (some c) := by
  have key_iff : (∃ key ∈ T.chartTimingProperties, truthy (attrGet .sscChart c'.d (chartAttrOfKey key)) = true) ↔
      ∃ key ∈ T.chartTimingProperties, truthy (attrGet .sscChart c.d (chartAttrOfKey key)) = true := by
    constructor
    · rintro ⟨key, hm, h⟩
      refine ⟨key, hm, ?_⟩
      rw [attrGet_chartTiming _ key hm] at h ⊢
      rw [← ht key hm]; exact h
    · rintro ⟨key, hm, h⟩
      refine ⟨key, hm, ?_⟩
      rw [attrGet_chartTiming _ key hm] at h ⊢
      rw [ht key hm]; exact h
  apply except_bool_ext
  · rw [useChart_iff, useChart_iff]
    constructor
    · rintro ⟨h1, x, hx, h2, h3, h4⟩
      cases hx
      exact ⟨h1, c, rfl, hk ▸ h2, h3, key_iff.mp h4⟩
    · rintro ⟨h1, x, hx, h2, h3, h4⟩
      cases hx
      exact ⟨h1, c', rfl, hk.symm ▸ h2, h3, key_iff.mpr h4⟩
  · intro e
    rw [useChart_error_iff, useChart_error_iff]
    constructor
    · rintro ⟨h1, x, hx, h2, h3⟩
      cases hx
      exact ⟨h1, c, rfl, hk ▸ h2, h3⟩
    · rintro ⟨h1, x, hx, h2, h3⟩
      cases hx
      exact ⟨h1, c', rfl, hk.symm ▸ h2, h3⟩

/-- not an SSC simfile: never the chart -/
theorem useChart_not_ssc (sim : Src) (chart : Option Src) (h : sim.kind ≠ .sscSimfile) :
    useChart sim chart = .ok false := by
  apply except_bool_ext
  · rw [useChart_iff]
    constructor
    · rintro ⟨h1, _⟩; exact absurd h1 h
    · intro h'; cases h'
  · intro e
    rw [useChart_error_iff]
    constructor
    · rintro ⟨h1, _⟩; exact absurd h1 h
    · intro h'; cases h'

/-- a version below the threshold: never the chart -/
theorem useChart_version_false (sim : Src) (chart : Option Src) (h : versionOK (versionString sim) = .ok false) :
    useChart sim chart = .ok false := by
  apply except_bool_ext
  · rw [useChart_iff]
    constructor
    · rintro ⟨_, _, _, _, h3, _⟩; rw [h] at h3; cases h3
    · intro h'; cases h'
  · intro e
    rw [useChart_error_iff]
    constructor
    · rintro ⟨_, _, _, _, h3⟩; rw [h] at h3; cases h3
    · intro h'; cases h'

/-! ### the version test on concrete strings -/

theorem versionOK_zero : versionOK ['0'] = .ok false := by decide +kernel
theorem versionOK_0_7 : versionOK ['0','.','7'] = .ok true := by decide +kernel
theorem versionOK_0_70 : versionOK ['0','.','7','0'] = .ok true := by decide +kernel
theorem versionOK_0_700 : versionOK ['0','.','7','0','0'] = .ok true := by decide +kernel
theorem versionOK_0_69 : versionOK ['0','.','6','9'] = .ok false := by decide +kernel
theorem versionOK_0_699999 : versionOK ['0','.','6','9','9','9','9','9'] = .ok false := by decide +kernel

theorem versionOK_error (v : Str) (e : SErr) : versionOK v = .error e ↔ parseDecimal v = none ∧ e = .valueError := by
  unfold versionOK
  cases parseDecimal v with
  | none =>
    constructor
    · intro h; cases h; exact ⟨rfl, rfl⟩
    · rintro ⟨_, rfl⟩; rfl
  | some q => simp

/-! ### the attribute reads of `TimingData.__init__` as key reads -/

theorem bpms_table (k : Kind) (hk : k ≠ .smChart) :
    (propsTable k).find? (·.1 = ['b','p','m','s']) = some (['b','p','m','s'], ['B','P','M','S'], none) := by
  cases k <;> first | exact absurd rfl hk | decide +kernel

theorem delays_table (k : Kind) (hk : k ≠ .smChart) :
    (propsTable k).find? (·.1 = ['d','e','l','a','y','s']) =
      some (['d','e','l','a','y','s'], ['D','E','L','A','Y','S'], none) := by
  cases k <;> first | exact absurd rfl hk | decide +kernel

theorem stops_table (k : Kind) (hk : k ≠ .smChart) :
    (propsTable k).find? (·.1 = ['s','t','o','p','s']) =
      some (['s','t','o','p','s'], ['S','T','O','P','S'],
        if k = .smSimfile then some ['F','R','E','E','Z','E','S'] else none) := by
  cases k <;> first | exact absurd rfl hk | decide +kernel

theorem attrGet_bpms (k : Kind) (hk : k ≠ .smChart) (d : Dict) :
    attrGet k d ['b','p','m','s'] = (d.get? ['B','P','M','S']).join :=
  attrGet_of_find k d _ _ none (bpms_table k hk)

theorem attrGet_delays (k : Kind) (hk : k ≠ .smChart) (d : Dict) :
    attrGet k d ['d','e','l','a','y','s'] = (d.get? ['D','E','L','A','Y','S']).join :=
  attrGet_of_find k d _ _ none (delays_table k hk)

/-- the key the `stops` attribute reads: FREEZES for an SM simfile that has FREEZES and no STOPS -/
def stopsKey (s : Src) : Str :=
  if s.kind = .smSimfile ∧ s.d.contains ['S','T','O','P','S'] = false ∧ s.d.contains ['F','R','E','E','Z','E','S'] = true
  then ['F','R','E','E','Z','E','S'] else ['S','T','O','P','S']

theorem attrGet_stops (s : Src) (hk : s.kind ≠ .smChart) :
    attrGet s.kind s.d ['s','t','o','p','s'] = (s.d.get? (stopsKey s)).join := by
  rw [attrGet_of_find s.kind s.d _ _ _ (stops_table s.kind hk)]
  unfold stopsKey
  by_cases h : s.kind = .smSimfile
  · simp only [h, if_true, true_and, nameOrAlias]
    cases s.d.contains ['S','T','O','P','S'] <;> cases s.d.contains ['F','R','E','E','Z','E','S'] <;> rfl
  · simp only [h, if_false, false_and, nameOrAlias]

/-- `Decimal(x.offset or 0)` on the value read -/
def offsetOf : Option Str → Option Rat
  | some (x :: xs) => parseDecimal (x :: xs)
  | _ => some 0

/-- the five components of the timing data of ONE object, as parses of its own keys -/
theorem timingData_alone (s : Src) (hk : s.kind ≠ .smChart) :
    timingData s none = .ok
      { bpms := beatValuesFromStr (s.d.get? ['B','P','M','S']).join,
        stops := beatValuesFromStr (s.d.get? (stopsKey s)).join,
        delays := beatValuesFromStr (s.d.get? ['D','E','L','A','Y','S']).join,
        warps := beatValuesFromStr (s.d.get? ['W','A','R','P','S']).join,
        offset := offsetOf (s.d.get? ['O','F','F','S','E','T']).join } := by
  have h : timingData s none = .ok
      { bpms := beatValuesFromStr (attrGet s.kind s.d ['b','p','m','s']),
        stops := beatValuesFromStr (attrGet s.kind s.d ['s','t','o','p','s']),
        delays := beatValuesFromStr (attrGet s.kind s.d ['d','e','l','a','y','s']),
        warps := beatValuesFromStr (s.d.get? ['W','A','R','P','S']).join,
        offset := offsetOf (attrGet s.kind s.d ['o','f','f','s','e','t']) } := by
    unfold timingData; rw [timingSource_none]
    show Except.ok _ = Except.ok _
    congr 2
  rw [h, attrGet_bpms s.kind hk, attrGet_stops s hk, attrGet_delays s.kind hk, attrGet_offset, if_neg hk]

/-- the missing branch of the BPMS fallback: a value that is not a decimal (Python: `decimal.InvalidOperation`,
an ArithmeticError; the model has one error kind for both) -/
theorem bpmsFallback_bad_value (s : Src) (b : Option Str) (rows : List BVRow) (hb : s.d.get? kBPMS = some b)
    (hr : beatValuesFromStr b = some rows) (hx : rows.mapM (fun r => parseDecimal r.value) = none) :
    bpmsFallback s = .error .valueError := by
  unfold bpmsFallback
  rw [hb]; simp only [hr, hx]; rfl

end Simfile.SMore
