/-
Facts about the declarative timeline spec (no state machine): positivity of the BPM in force,
monotonicity of `timeSpec` in the key, and invariance under inserting a redundant BPM change.
-/
import Simfile.Lemmas.EngineBasic
import Mathlib.Tactic.Ring
import Mathlib.Tactic.FieldSimp
import Mathlib.Tactic.Positivity
import Mathlib.Data.Rat.Floor
namespace Simfile

/-- insert `(x, v)` at its sorted position -/
def insertBpm (x v : Rat) : List (Rat × Rat) → List (Rat × Rat)
  | [] => [(x, v)]
  | e :: l => if x < e.1 then (x, v) :: e :: l else e :: insertBpm x v l

/-- timing data with the redundant BPM change `(x, bpmOn td x)` inserted -/
def withBpm (td : TimingData) (x : Rat) : TimingData :=
  { td with bpms := insertBpm x (Spec.bpmOn td x) td.bpms }

/-! ### the BPM in force -/

/-- the fold step of `Spec.bpmOn` -/
abbrev bstep (x : Rat) : Rat → Rat × Rat → Rat := fun cur e => if e.1 ≤ x then e.2 else cur

theorem bpmOn_eq (td : TimingData) (x : Rat) :
    Spec.bpmOn td x = td.bpms.foldl (bstep x) (td.bpms.headD (0, 0)).2 := rfl

theorem foldl_bstep_pos (x : Rat) : ∀ (l : List (Rat × Rat)) (init : Rat), 0 < init →
    (∀ e ∈ l, 0 < e.2) → 0 < l.foldl (bstep x) init
  | [], init, hi, _ => hi
  | e :: l, init, hi, hl => by
    rw [List.foldl_cons]
    apply foldl_bstep_pos x l
    · show 0 < (if e.1 ≤ x then e.2 else init)
      split
      · exact hl e (List.mem_cons_self)
      · exact hi
    · intro e' he'; exact hl e' (List.mem_cons_of_mem _ he')

theorem head_pos (td : TimingData) (h : C11.Dom td) : 0 < (td.bpms.headD (0, 0)).2 := by
  have hne := h.bpms_ne
  have hp := h.bpms_pos
  cases hb : td.bpms with
  | nil => exact absurd hb hne
  | cons e l =>
    rw [hb] at hp
    exact hp e List.mem_cons_self

theorem bpmOn_pos (td : TimingData) (h : C11.Dom td) (x : Rat) : 0 < Spec.bpmOn td x := by
  rw [bpmOn_eq]
  exact foldl_bstep_pos x _ _ (head_pos td h) h.bpms_pos

/-! ### pauses are monotone in the key -/

theorem foldl_guard_mono (P Q : Rat → Bool) : ∀ (l : List (Rat × Rat)) (a a' : Rat),
    (∀ d ∈ l, 0 < d.2) → (∀ d ∈ l, P d.1 = true → Q d.1 = true) → a ≤ a' →
    l.foldl (fun acc d => if P d.1 then acc + d.2 else acc) a ≤
      l.foldl (fun acc d => if Q d.1 then acc + d.2 else acc) a'
  | [], a, a', _, _, h => h
  | d :: l, a, a', hp, hpq, h => by
    rw [List.foldl_cons, List.foldl_cons]
    apply foldl_guard_mono P Q l
    · intro e he; exact hp e (List.mem_cons_of_mem _ he)
    · intro e he; exact hpq e (List.mem_cons_of_mem _ he)
    · have hd := hp d List.mem_cons_self
      have himp := hpq d List.mem_cons_self
      by_cases h1 : P d.1 = true
      · rw [if_pos h1, if_pos (himp h1)]; linarith
      · rw [if_neg h1]
        split
        · linarith
        · exact h

theorem paused_mono (td : TimingData) (h : C11.Dom td) {b₁ b₂ : Rat} {g₁ g₂ : Tag}
    (hk : key b₁ g₁ ≤ key b₂ g₂) : Spec.paused td b₁ g₁ ≤ Spec.paused td b₂ g₂ := by
  unfold Spec.paused
  apply add_le_add
  · exact foldl_guard_mono (fun x => Spec.keyLE (x, .delayEnd) (b₁, g₁))
      (fun x => Spec.keyLE (x, .delayEnd) (b₂, g₂)) td.delays 0 0 h.delays_pos
      (fun d _ hd => (keyLE_iff _ _ _ _).2 (le_trans ((keyLE_iff _ _ _ _).1 hd) hk)) le_rfl
  · exact foldl_guard_mono (fun x => Spec.keyLE (x, .stopEnd) (b₁, g₁))
      (fun x => Spec.keyLE (x, .stopEnd) (b₂, g₂)) td.stops 0 0 h.stops_pos
      (fun d _ hd => (keyLE_iff _ _ _ _).2 (le_trans ((keyLE_iff _ _ _ _).1 hd) hk)) le_rfl

/-! ### the travelled part is monotone in the beat -/

/-- index of the tick containing the beat -/
def tk (b : Rat) : Nat := (b * (ticks : Rat)).floor.toNat

/-- the part of `timeSpec` that depends on the beat only -/
def travel (td : TimingData) (b : Rat) : Rat :=
  if b < 0 then b * 60 / (td.bpms.headD (0, 0)).2
  else
    Spec.tickSum td (tk b) +
      (if Spec.inWarp td ((tk b : Rat) / (ticks : Rat)) then 0
       else (b - (tk b : Rat) / (ticks : Rat)) * 60 / Spec.bpmOn td ((tk b : Rat) / (ticks : Rat)))

theorem timeSpec_eq (td : TimingData) (b : Rat) (g : Tag) :
    Spec.timeSpec td b g = -td.offset + Spec.paused td b g + travel td b := rfl

theorem tickTime_nonneg (td : TimingData) (h : C11.Dom td) (k : Nat) : 0 ≤ Spec.tickTime td k := by
  unfold Spec.tickTime
  simp only
  split
  · exact le_rfl
  · have := bpmOn_pos td h ((k : Rat) / (ticks : Rat))
    rw [ticks_cast] at *
    positivity

theorem tickSum_mono (td : TimingData) (h : C11.Dom td) {k m : Nat} (hkm : k ≤ m) :
    Spec.tickSum td k ≤ Spec.tickSum td m := by
  induction m, hkm using Nat.le_induction with
  | base => exact le_rfl
  | succ m _ ih =>
    show _ ≤ Spec.tickSum td m + Spec.tickTime td m
    have := tickTime_nonneg td h m
    linarith

theorem tickSum_nonneg (td : TimingData) (h : C11.Dom td) (k : Nat) : 0 ≤ Spec.tickSum td k :=
  tickSum_mono td h (Nat.zero_le k)

theorem tk_spec {b : Rat} (hb : 0 ≤ b) :
    (tk b : Rat) / (ticks : Rat) ≤ b ∧ b < (tk b : Rat) / (ticks : Rat) + 1 / (ticks : Rat) := by
  unfold tk
  rw [ticks_cast]
  have h0 : (0 : Rat) ≤ b * 48 := by positivity
  have hf : 0 ≤ (b * 48).floor := by
    have : (b * 48).floor = ⌊b * 48⌋ := rfl
    rw [this]; exact Int.floor_nonneg.2 h0
  have hc : (((b * 48).floor.toNat : Nat) : Rat) = ((b * 48).floor : Rat) := by
    rw [← Int.cast_natCast, Int.toNat_of_nonneg hf]
  rw [hc]
  have h1 := floor_le' (b * 48)
  have h2 := lt_floor_add_one' (b * 48)
  constructor
  · rw [div_le_iff₀ (by norm_num)]; exact h1
  · rw [← add_div, lt_div_iff₀ (by norm_num)]; exact h2

theorem tk_mono {b₁ b₂ : Rat} (hb : b₁ ≤ b₂) : tk b₁ ≤ tk b₂ := by
  unfold tk
  apply Int.toNat_le_toNat
  have h1 : (b₁ * (ticks : Rat)).floor = ⌊b₁ * (ticks : Rat)⌋ := rfl
  have h2 : (b₂ * (ticks : Rat)).floor = ⌊b₂ * (ticks : Rat)⌋ := rfl
  rw [h1, h2]
  apply Int.floor_le_floor
  rw [ticks_cast]
  linarith

theorem travel_of_nonneg (td : TimingData) {b : Rat} (hb : 0 ≤ b) :
    travel td b = Spec.tickSum td (tk b) +
      (if Spec.inWarp td ((tk b : Rat) / (ticks : Rat)) then 0
       else (b - (tk b : Rat) / (ticks : Rat)) * 60 / Spec.bpmOn td ((tk b : Rat) / (ticks : Rat))) := by
  unfold travel
  rw [if_neg (not_lt.2 hb)]

theorem travel_ge (td : TimingData) (h : C11.Dom td) {b : Rat} (hb : 0 ≤ b) :
    Spec.tickSum td (tk b) ≤ travel td b := by
  rw [travel_of_nonneg td hb]
  have hs := (tk_spec hb).1
  have hp := bpmOn_pos td h ((tk b : Rat) / (ticks : Rat))
  split
  · linarith
  · have : 0 ≤ (b - (tk b : Rat) / (ticks : Rat)) * 60 / Spec.bpmOn td ((tk b : Rat) / (ticks : Rat)) := by
      apply div_nonneg _ (le_of_lt hp)
      nlinarith
    linarith

theorem travel_le (td : TimingData) (h : C11.Dom td) {b : Rat} (hb : 0 ≤ b) :
    travel td b ≤ Spec.tickSum td (tk b + 1) := by
  rw [travel_of_nonneg td hb]
  show _ ≤ Spec.tickSum td (tk b) + Spec.tickTime td (tk b)
  apply add_le_add le_rfl
  unfold Spec.tickTime
  simp only
  have hs := (tk_spec hb).2
  have hp := bpmOn_pos td h ((tk b : Rat) / (ticks : Rat))
  split
  · exact le_rfl
  · apply div_le_div_of_nonneg_right _ (le_of_lt hp)
    rw [ticks_cast] at *
    linarith

theorem travel_mono (td : TimingData) (h : C11.Dom td) {b₁ b₂ : Rat} (hb : b₁ ≤ b₂) :
    travel td b₁ ≤ travel td b₂ := by
  have hh := head_pos td h
  by_cases h1 : b₁ < 0
  · have e1 : travel td b₁ = b₁ * 60 / (td.bpms.headD (0, 0)).2 := by
      unfold travel; rw [if_pos h1]
    by_cases h2 : b₂ < 0
    · have e2 : travel td b₂ = b₂ * 60 / (td.bpms.headD (0, 0)).2 := by
        unfold travel; rw [if_pos h2]
      rw [e1, e2]
      apply div_le_div_of_nonneg_right _ (le_of_lt hh)
      linarith
    · have h2' := not_lt.1 h2
      have := travel_ge td h h2'
      have := tickSum_nonneg td h (tk b₂)
      have : travel td b₁ ≤ 0 := by
        rw [e1]
        apply div_nonpos_of_nonpos_of_nonneg _ (le_of_lt hh)
        linarith
      linarith
  · have h1' := not_lt.1 h1
    have h2' : 0 ≤ b₂ := le_trans h1' hb
    have hk := tk_mono hb
    rcases Nat.lt_or_eq_of_le hk with hlt | heq
    · have a := travel_le td h h1'
      have b := tickSum_mono td h (Nat.succ_le_of_lt hlt)
      have c := travel_ge td h h2'
      exact le_trans a (le_trans b c)
    · rw [travel_of_nonneg td h1', travel_of_nonneg td h2', heq]
      apply add_le_add le_rfl
      have hp := bpmOn_pos td h ((tk b₂ : Rat) / (ticks : Rat))
      split
      · exact le_rfl
      · apply div_le_div_of_nonneg_right _ (le_of_lt hp)
        linarith

/-- the declarative time is monotone in the key (lexicographic order of (beat, tag value)) -/
theorem timeSpec_mono (td : TimingData) (h : C11.Dom td) {b₁ b₂ : Rat} {g₁ g₂ : Tag}
    (hk : key b₁ g₁ ≤ key b₂ g₂) : Spec.timeSpec td b₁ g₁ ≤ Spec.timeSpec td b₂ g₂ := by
  rw [timeSpec_eq, timeSpec_eq]
  have h1 := paused_mono td h hk
  have h2 := travel_mono td h (beat_le_of_key_le hk)
  linarith

/-! ### inserting a redundant BPM change -/

theorem mem_insertBpm (x v : Rat) (e : Rat × Rat) : ∀ (l : List (Rat × Rat)),
    e ∈ insertBpm x v l ↔ e = (x, v) ∨ e ∈ l
  | [] => by simp [insertBpm]
  | a :: l => by
    unfold insertBpm
    split
    · simp
    · rw [List.mem_cons, mem_insertBpm x v e l, List.mem_cons]
      tauto

theorem insertBpm_ne_nil (x v : Rat) (l : List (Rat × Rat)) : insertBpm x v l ≠ [] := by
  cases l with
  | nil => simp [insertBpm]
  | cons a l =>
    unfold insertBpm
    split <;> simp

theorem sorted_insertBpm (x v : Rat) : ∀ (l : List (Rat × Rat)),
    (l.map (·.1)).Pairwise (· < ·) → (∀ e ∈ l, e.1 ≠ x) →
    ((insertBpm x v l).map (·.1)).Pairwise (· < ·)
  | [], _, _ => by simp [insertBpm]
  | a :: l, hs, hn => by
    rw [List.map_cons, List.pairwise_cons] at hs
    unfold insertBpm
    split
    next hlt =>
      rw [List.map_cons, List.pairwise_cons]
      refine ⟨?_, by rw [List.map_cons, List.pairwise_cons]; exact hs⟩
      intro c hc
      rw [List.map_cons, List.mem_cons] at hc
      rcases hc with rfl | hc
      · exact hlt
      · exact lt_trans hlt (hs.1 c hc)
    next hge =>
      have hax : a.1 < x := lt_of_le_of_ne (not_lt.1 hge) (hn a List.mem_cons_self)
      rw [List.map_cons, List.pairwise_cons]
      refine ⟨?_, sorted_insertBpm x v l hs.2 (fun e he => hn e (List.mem_cons_of_mem _ he))⟩
      intro c hc
      rw [List.mem_map] at hc
      obtain ⟨e, he, rfl⟩ := hc
      rcases (mem_insertBpm x v e l).1 he with rfl | he
      · exact hax
      · exact hs.1 e.1 (List.mem_map_of_mem he)

theorem head_insertBpm (x v : Rat) (l : List (Rat × Rat)) (hne : l ≠ [])
    (hh : (l.headD (0, 0)).1 = 0) (hpos : 0 < x) :
    (insertBpm x v l).headD (0, 0) = l.headD (0, 0) := by
  cases l with
  | nil => exact absurd rfl hne
  | cons a l =>
    have ha : a.1 = 0 := hh
    unfold insertBpm
    rw [if_neg (by rw [ha]; exact not_lt.2 (le_of_lt hpos))]
    rfl

theorem head_withBpm (td : TimingData) (h : C11.Dom td) (x : Rat) (hpos : 0 < x) :
    (withBpm td x).bpms.headD (0, 0) = td.bpms.headD (0, 0) :=
  head_insertBpm x _ td.bpms h.bpms_ne h.bpms_head hpos

theorem dom_withBpm (td : TimingData) (h : C11.Dom td) (x : Rat) (hx : onGrid x) (hpos : 0 < x)
    (hnew : ∀ e ∈ td.bpms, e.1 ≠ x) : C11.Dom (withBpm td x) where
  bpms_ne := insertBpm_ne_nil _ _ _
  bpms_head := by rw [head_withBpm td h x hpos]; exact h.bpms_head
  bpms_pos := by
    intro e he
    rcases (mem_insertBpm _ _ e td.bpms).1 he with rfl | he
    · exact bpmOn_pos td h x
    · exact h.bpms_pos e he
  bpms_sorted := sorted_insertBpm _ _ td.bpms h.bpms_sorted hnew
  bpms_grid := by
    intro e he
    rcases (mem_insertBpm _ _ e td.bpms).1 he with rfl | he
    · exact ⟨le_of_lt hpos, hx⟩
    · exact h.bpms_grid e he
  stops_pos := h.stops_pos
  stops_sorted := h.stops_sorted
  stops_grid := h.stops_grid
  delays_pos := h.delays_pos
  delays_sorted := h.delays_sorted
  delays_grid := h.delays_grid
  warps_pos := h.warps_pos
  warps_sorted := h.warps_sorted
  warps_grid := h.warps_grid

theorem foldl_bstep_gt (x : Rat) : ∀ (l : List (Rat × Rat)) (init : Rat),
    (∀ e ∈ l, x < e.1) → l.foldl (bstep x) init = init
  | [], _, _ => rfl
  | a :: l, init, hl => by
    rw [List.foldl_cons]
    have : bstep x init a = init := by
      show (if a.1 ≤ x then a.2 else init) = init
      rw [if_neg (not_le.2 (hl a List.mem_cons_self))]
    rw [this]
    exact foldl_bstep_gt x l init (fun e he => hl e (List.mem_cons_of_mem _ he))

theorem foldl_insertBpm (x y : Rat) : ∀ (l : List (Rat × Rat)) (init init' : Rat),
    (x ≤ y → init = init') → (l.map (·.1)).Pairwise (· < ·) → (∀ e ∈ l, e.1 ≠ x) →
    (insertBpm x (l.foldl (bstep x) init') l).foldl (bstep y) init = l.foldl (bstep y) init
  | [], init, init', hi, _, _ => by
    show (if x ≤ y then init' else init) = init
    split
    next hxy => exact (hi hxy).symm
    next => rfl
  | a :: l, init, init', hi, hs, hn => by
    rw [List.map_cons, List.pairwise_cons] at hs
    by_cases hlt : x < a.1
    · have hall : ∀ e ∈ a :: l, x < e.1 := by
        intro e he
        rcases List.mem_cons.1 he with rfl | he
        · exact hlt
        · exact lt_trans hlt (hs.1 e.1 (List.mem_map_of_mem he))
      rw [foldl_bstep_gt x (a :: l) init' hall]
      unfold insertBpm
      rw [if_pos hlt, List.foldl_cons]
      have : bstep y init (x, init') = init := by
        show (if x ≤ y then init' else init) = init
        split
        next hxy => exact (hi hxy).symm
        next => rfl
      rw [this]
    · have hax : a.1 < x := lt_of_le_of_ne (not_lt.1 hlt) (hn a List.mem_cons_self)
      have e1 : (a :: l).foldl (bstep x) init' = l.foldl (bstep x) a.2 := by
        rw [List.foldl_cons]
        show l.foldl (bstep x) (if a.1 ≤ x then a.2 else init') = _
        rw [if_pos (le_of_lt hax)]
      rw [e1]
      unfold insertBpm
      rw [if_neg hlt, List.foldl_cons, List.foldl_cons]
      apply foldl_insertBpm x y l (bstep y init a) a.2 _ hs.2
        (fun e he => hn e (List.mem_cons_of_mem _ he))
      intro hxy
      show (if a.1 ≤ y then a.2 else init) = a.2
      rw [if_pos (le_trans (le_of_lt hax) hxy)]

theorem bpmOn_withBpm (td : TimingData) (h : C11.Dom td) (x : Rat) (hpos : 0 < x)
    (hnew : ∀ e ∈ td.bpms, e.1 ≠ x) (y : Rat) : Spec.bpmOn (withBpm td x) y = Spec.bpmOn td y := by
  rw [bpmOn_eq, head_withBpm td h x hpos, bpmOn_eq]
  show (insertBpm x (Spec.bpmOn td x) td.bpms).foldl (bstep y) _ = _
  rw [bpmOn_eq]
  exact foldl_insertBpm x y td.bpms _ _ (fun _ => rfl) h.bpms_sorted hnew

theorem inWarp_withBpm (td : TimingData) (x y : Rat) :
    Spec.inWarp (withBpm td x) y = Spec.inWarp td y := rfl

theorem paused_withBpm (td : TimingData) (x b : Rat) (g : Tag) :
    Spec.paused (withBpm td x) b g = Spec.paused td b g := rfl

theorem tickTime_withBpm (td : TimingData) (h : C11.Dom td) (x : Rat) (hpos : 0 < x)
    (hnew : ∀ e ∈ td.bpms, e.1 ≠ x) (k : Nat) :
    Spec.tickTime (withBpm td x) k = Spec.tickTime td k := by
  unfold Spec.tickTime
  simp only [inWarp_withBpm, bpmOn_withBpm td h x hpos hnew]

theorem tickSum_withBpm (td : TimingData) (h : C11.Dom td) (x : Rat) (hpos : 0 < x)
    (hnew : ∀ e ∈ td.bpms, e.1 ≠ x) : ∀ k : Nat,
    Spec.tickSum (withBpm td x) k = Spec.tickSum td k
  | 0 => rfl
  | k + 1 => by
    show Spec.tickSum (withBpm td x) k + Spec.tickTime (withBpm td x) k = _
    rw [tickSum_withBpm td h x hpos hnew k, tickTime_withBpm td h x hpos hnew k]
    rfl

theorem timeSpec_withBpm (td : TimingData) (h : C11.Dom td) (x : Rat) (hpos : 0 < x)
    (hnew : ∀ e ∈ td.bpms, e.1 ≠ x) (b : Rat) (g : Tag) :
    Spec.timeSpec (withBpm td x) b g = Spec.timeSpec td b g := by
  unfold Spec.timeSpec
  simp only [inWarp_withBpm, paused_withBpm, bpmOn_withBpm td h x hpos hnew,
    tickSum_withBpm td h x hpos hnew, head_withBpm td h x hpos]
  rfl

end Simfile
