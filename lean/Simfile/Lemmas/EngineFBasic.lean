/-
C11 (float) helper: rounding lemmas under the standard model, the quotient lemma, and the error of `time_until`.
-/
import Simfile.Model.EngineF
import Simfile.Lemmas.EngineBasic
import Mathlib.Tactic.Ring
import Mathlib.Tactic.Linarith
import Mathlib.Tactic.Positivity
import Mathlib.Tactic.FieldSimp
import Mathlib.Algebra.Order.AbsoluteValue.Basic
import Mathlib.Algebra.Order.Field.Basic
namespace Simfile

theorem absR_eq (x : Rat) : absR x = |x| := by
  unfold absR
  split_ifs with h
  · rw [abs_of_neg h]
  · rw [abs_of_nonneg (not_lt.mp h)]

theorem eFl_eq (u a e : Rat) : eFl u a e = e + u * (|a| + e) := by
  rw [eFl, absR_eq]

theorem eFl_zero (a e : Rat) : eFl 0 a e = e := by
  rw [eFl_eq]; ring

theorem eFl_nonneg {u a e : Rat} (hu0 : 0 ≤ u) (he : 0 ≤ e) : 0 ≤ eFl u a e := by
  rw [eFl_eq]
  have : 0 ≤ |a| := abs_nonneg a
  have : 0 ≤ u * (|a| + e) := mul_nonneg hu0 (by linarith)
  linarith

theorem eFl_ge {u a e : Rat} (hu0 : 0 ≤ u) (he : 0 ≤ e) : e ≤ eFl u a e := by
  rw [eFl_eq]
  have : 0 ≤ |a| := abs_nonneg a
  have : 0 ≤ u * (|a| + e) := mul_nonneg hu0 (by linarith)
  linarith

section Rounding
variable (R : Fl) (u : Rat) (hu0 : 0 ≤ u) (hR : ∀ x : Rat, |R.fl x - x| ≤ u * |x|)
include hu0 hR

/-- rounding a perturbed value -/
theorem fl_err {a' a e : Rat} (h : |a' - a| ≤ e) : |R.fl a' - a| ≤ eFl u a e := by
  have h1 := hR a'
  have h2 : |a'| ≤ |a| + e := by
    have := abs_sub_abs_le_abs_sub a' a
    linarith
  have h3 : |R.fl a' - a| ≤ |R.fl a' - a'| + |a' - a| := abs_sub_le _ _ _
  have h4 : u * |a'| ≤ u * (|a| + e) := mul_le_mul_of_nonneg_left h2 hu0
  rw [eFl_eq]
  linarith

/-- rounding an exact value -/
theorem fl_err0 (a : Rat) : |R.fl a - a| ≤ eFl u a 0 :=
  fl_err R u hu0 hR (by simp)

end Rounding

/-- the quotient of two perturbed values -/
theorem quot_err {x x' y y' ex ey : Rat} (hy : 0 < y) (hey : ey < y)
    (hx' : |x' - x| ≤ ex) (hy' : |y' - y| ≤ ey) :
    |x' / y' - x / y| ≤ (ex * y + |x| * ey) / (y * (y - ey)) := by
  have hy'lo : y - ey ≤ y' := by
    have := (abs_le.mp hy').1
    linarith
  have hd : 0 < y - ey := by linarith
  have hy'pos : 0 < y' := by linarith
  have hrw : x' / y' - x / y = ((x' - x) * y - x * (y' - y)) / (y' * y) := by
    field_simp
    ring
  rw [hrw, abs_div, abs_of_pos (mul_pos hy'pos hy)]
  have hnum : |(x' - x) * y - x * (y' - y)| ≤ ex * y + |x| * ey := by
    have h1 : |(x' - x) * y - x * (y' - y)| ≤ |(x' - x) * y| + |x * (y' - y)| := abs_sub _ _
    have h2 : |(x' - x) * y| ≤ ex * y := by
      rw [abs_mul, abs_of_pos hy]
      exact mul_le_mul_of_nonneg_right hx' (le_of_lt hy)
    have h3 : |x * (y' - y)| ≤ |x| * ey := by
      rw [abs_mul]
      exact mul_le_mul_of_nonneg_left hy' (abs_nonneg x)
    linarith
  have hex : 0 ≤ ex := le_trans (abs_nonneg _) hx'
  have hey0 : 0 ≤ ey := le_trans (abs_nonneg _) hy'
  have hnn : 0 ≤ ex * y + |x| * ey := by
    have := mul_nonneg hex (le_of_lt hy)
    have := mul_nonneg (abs_nonneg x) hey0
    linarith
  have hden : y * (y - ey) ≤ y' * y := by
    have := mul_le_mul_of_nonneg_right hy'lo (le_of_lt hy)
    linarith
  have hdpos : 0 < y * (y - ey) := mul_pos hy hd
  calc |(x' - x) * y - x * (y' - y)| / (y' * y)
      ≤ (ex * y + |x| * ey) / (y' * y) := by
        apply div_le_div_of_nonneg_right hnum (le_of_lt (mul_pos hy'pos hy))
    _ ≤ (ex * y + |x| * ey) / (y * (y - ey)) := by
        apply div_le_div_of_nonneg_left hnn hdpos hden

end Simfile
