/-
Vocabulary the code translator's bindings for simfile/timing/_private/timingsource.py and TimingData.__init__ use
(harness/gen_code_bindings.py, module "Source"). Hand-written and tiny: the reading of `float(s)`, `x or "0"`, `Decimal(x or 0)`
and "the dictionary of an optional chart".
-/
import Simfile.Model.Source

namespace Simfile.Py

/-- `float(s)` on a decimal literal: its exact value, `ValueError` otherwise (what `versionOK` compares) -/
def pyFloat (s : Str) : Except SErr Rat :=
  match parseDecimal s with
  | some q => .ok q
  | none => .error .valueError

/-- `s or d` for an optional string `s` (None and "" are falsy) -/
def strOr (s : Option Str) (d : Str) : Str :=
  match s with
  | some (x :: xs) => x :: xs
  | _ => d

/-- `s or n` where `s` is an optional string and `n` an integer constant -/
def strOrInt (s : Option Str) (n : Int) : Sum Str Int :=
  match s with
  | some (x :: xs) => .inl (x :: xs)
  | _ => .inr n

/-- `Decimal(v)` for a string or an integer (`none`: InvalidOperation) -/
def decimalOf : Sum Str Int → Option Rat
  | .inl s => parseDecimal s
  | .inr n => some n

/-- the dictionary of the chart argument (`chart=None` has no properties) -/
def chartDict (c : Option Src) : Dict :=
  match c with
  | some c => c.d
  | none => []

def chartIs (c : Option Src) (k : Kind) : Bool :=
  match c with
  | some c => decide (c.kind = k)
  | none => false

end Simfile.Py
