/-
Combinators the code translator (harness/gen_code.py) targets. Hand-written, tiny, and part of the trusted reading of
Python control flow:
  `for x in xs: <body that may return>; <rest>`   ↦  `Py.forFirst xs (fun x => <some r | none>) <rest>`
-/
namespace Simfile.Py

/-- a `for` loop whose body either returns (`some r`) or goes on to the next element (`none`); `rest` is what follows the loop -/
def forFirst {α β} (xs : List α) (body : α → Option β) (rest : β) : β :=
  match xs.findSome? body with
  | some r => r
  | none => rest

@[simp] theorem forFirst_nil {α β} (body : α → Option β) (rest : β) : forFirst [] body rest = rest := rfl

theorem forFirst_cons {α β} (x : α) (xs : List α) (body : α → Option β) (rest : β) :
    forFirst (x :: xs) body rest = match body x with | some r => r | none => forFirst xs body rest := by
  unfold forFirst
  simp only [List.findSome?_cons]
  cases body x <;> rfl

end Simfile.Py
