/-
`re.search(pattern, s)` for the patterns the asset presets use, as the translator's target (hand-written, part of the bindings'
trusted vocabulary): the three forms `lit`, `^lit`, `lit$` of Model/Dir.lean's `compilePreset`; a pattern outside that fragment
never matches here — `C20.presets_modelled` proves that every preset of the generated table is inside it.
-/
import Simfile.Model.Dir
namespace Simfile.Py

def reSearch (pattern s : Str) : Bool :=
  match compilePreset pattern with
  | some p => p.matches s
  | none => false

end Simfile.Py
